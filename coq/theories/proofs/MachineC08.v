(* C08 on the scheduler machine: the active task is the running one (also after a nested
   synchronous call returns), it is restored to what it was once the outermost call returns, and the
   task stack is empty again - for every program, service behaviour, flush order and fuel, as long as
   no Python exception unwinds through asynq frames (the only sources of such unwinding in the model
   are the MAX_TASK_STACK_SIZE guard and FutureIsAlreadyComputed from _queue_exit). *)
From Asynq Require Import Machine proofs.ProgProofs proofs.MachineFrame.

Inductive ftag := TV | TW | TE | TC (t : option fid).

(* the grammar of asynq frames on Python's stack:
   value() { wait_for { _execute { _continue_with_task(t) { body of t: value() { ... *)
Fixpoint shape (tag : ftag) (fr : list frame) : Prop :=
  match fr, tag with
  | FTop :: [], TV => True
  | FValue t k :: fr', TV => shape (TC (Some t)) fr'
  | FWait r :: fr', TW => shape TV fr'
  | FExec i :: fr', TE => shape TW fr'
  | FCont t old :: fr', TC (Some t') => t = t' /\ shape TE fr'
  | FCont t old :: fr', TC None => shape TE fr'
  | _, _ => False
  end.

Definition tag_of (m : mode) : option ftag :=
  match m with
  | MValue _ | MDeliver _ => Some TV
  | MWaitHead | MAfterExec => Some TW
  | MExecLoop => Some TE
  | MResume t | MRun t _ => Some (TC (Some t))
  | MContRet => Some (TC None)
  | MUnwind _ | MDone _ | MStuck => None
  end.

Definition is_unwind (m : mode) : bool := match m with MUnwind _ => true | _ => false end.

Lemma regs_with_tasks s t : regs (with_tasks s t) = (t, snd (regs s)). Proof. reflexivity. Qed.
Lemma regs_with_active s a : regs (with_active s a) = (fst (regs s), a). Proof. reflexivity. Qed.
Lemma regs_pop_task s : regs (pop_task s) = (tl (fst (regs s)), snd (regs s)). Proof. reflexivity. Qed.
Lemma regs_eta s : regs s = (tasks s, active s). Proof. reflexivity. Qed.

Section Inv.
  Variable a0 : option fid.          (* active_task before the outermost call *)

  Fixpoint nearest_cont (fr : list frame) : option fid :=
    match fr with
    | [] => a0
    | FCont t _ :: _ => Some t
    | _ :: fr' => nearest_cont fr'
    end.

  Fixpoint conts_ok (fr : list frame) : Prop :=
    match fr with
    | [] => True
    | FCont t old :: fr' => old = nearest_cont fr' /\ conts_ok fr'
    | _ :: fr' => conts_ok fr'
    end.

  (* the outermost _execute frame was entered with an empty task stack *)
  Fixpoint last_exec0 (fr : list frame) : Prop :=
    match fr with
    | [] => True
    | FExec i :: fr' => match fr' with [FWait _; FTop] => i = O | _ => last_exec0 fr' end
    | _ :: fr' => last_exec0 fr'
    end.

  Definition Inv (c : cfg) : Prop :=
    match c_mode c with
    | MUnwind _ => True
    | MDone _ => snd (regs (c_st c)) = a0 /\ fst (regs (c_st c)) = []
    | m =>
      match tag_of m with
      | Some tg =>
        shape tg (c_frames c) /\ conts_ok (c_frames c) /\
        snd (regs (c_st c)) = nearest_cont (c_frames c) /\ last_exec0 (c_frames c) /\
        ((length (c_frames c) <= 2)%nat -> fst (regs (c_st c)) = [])
      | None => True
      end
    end.
End Inv.

Section Preservation.
  Variable a0 : option fid.
  Variable P : params.
  Notation Inv := (Inv a0).

  Ltac regs_simpl :=
    repeat first
      [ rewrite regs_with_tasks | rewrite regs_with_active | rewrite regs_pop_task
      | rewrite regs_flush_batch | rewrite regs_continue_with_batch | rewrite regs_schedule_batch
      | rewrite regs_pause_contexts | rewrite regs_resume_contexts | rewrite regs_complete_task
      | rewrite regs_accept_error | rewrite regs_enter_ctx | rewrite regs_exit_ctx
      | rewrite regs_set_task | rewrite regs_put | rewrite regs_emit | rewrite regs_drop_sb ];
    cbn [fst snd].

  Lemma step_MValue h fr s : Inv (mkC (MValue h) fr s) -> Inv (step P (mkC (MValue h) fr s)).
  Proof.
    unfold Inv; cbn [c_mode c_frames c_st tag_of step]. intros (Hs & Hc & Ha & Hl & Ht).
    destruct (computed h s); [cbn; auto 10|].
    destruct (get h s) as [[o [tk|kind idx key a| o'|]]|]; cbn [c_mode c_frames c_st tag_of];
      regs_simpl; try (cbn; auto 10; fail).
    (* a task: push FWait *)
    cbn [shape conts_ok nearest_cont last_exec0 length]. repeat split; auto.
    intros Hlen. apply Ht. lia.
  Qed.

  (* frames of a well-shaped stack below a wait_for frame *)
  Lemma shape_TV_inv fr : shape TV fr -> fr = [FTop] \/ exists t k fr', fr = FValue t k :: fr' /\ shape (TC (Some t)) fr'.
  Proof.
    destruct fr as [|[|t k|r|i|t old] fr']; cbn; try tauto.
    - destruct fr'; [auto|tauto].
    - intros H. right. eauto.
  Qed.

  Lemma shape_TW_inv fr : shape TW fr -> exists r fr', fr = FWait r :: fr' /\ shape TV fr'.
  Proof.
    destruct fr as [|[|t k|r|i|t old] fr']; cbn; try tauto; try (destruct fr'; tauto). eauto.
  Qed.
  Lemma shape_TE_inv fr : shape TE fr -> exists i fr', fr = FExec i :: fr' /\ shape TW fr'.
  Proof.
    destruct fr as [|[|t k|r|i|t old] fr']; cbn; try tauto; try (destruct fr'; tauto). eauto.
  Qed.
  Lemma shape_TC_inv o fr : shape (TC o) fr ->
    exists t old fr', fr = FCont t old :: fr' /\ shape TE fr' /\ (forall t', o = Some t' -> t = t').
  Proof.
    destruct fr as [|[|t k|r|i|t old] fr']; cbn; try tauto; try (destruct fr'; tauto).
    destruct o as [t'|].
    - intros [-> H]. exists t', old, fr'. repeat split; auto. congruence.
    - intros H. exists t, old, fr'. repeat split; auto. discriminate.
  Qed.

  Lemma shape_TV_short fr : shape TV fr -> (length fr <= 2)%nat -> fr = [FTop].
  Proof.
    intros H L. destruct (shape_TV_inv _ H) as [->|(t & k & fr' & -> & H')]; [reflexivity|].
    destruct (shape_TC_inv _ _ H') as (t' & old & fr'' & -> & H'' & _).
    destruct (shape_TE_inv _ H'') as (i & fr3 & -> & _). cbn in L. lia.
  Qed.

  Ltac norm := cbn [shape conts_ok nearest_cont last_exec0 length c_mode c_frames c_st tag_of] in *.

  Lemma step_MWaitHead fr s : Inv (mkC MWaitHead fr s) -> Inv (step P (mkC MWaitHead fr s)).
  Proof.
    unfold Inv; cbn [c_mode c_frames c_st tag_of step]. intros (Hs & Hc & Ha & Hl & Ht).
    destruct (shape_TW_inv _ Hs) as (root & fr' & -> & Hs'). clear Hs. rename Hs' into Hs. norm.
    destruct (computed root s); norm; regs_simpl.
    - (* return from wait_for *)
      repeat split; auto.
      intros Hlen. apply Ht. rewrite (shape_TV_short _ Hs Hlen). cbn. lia.
    - (* enter _execute *)
      change (fst (regs s)) with (tasks s) in Ht.
      repeat split; auto; [|intros L; destruct fr'; [cbn in Hs; tauto|cbn in L; lia]].
      destruct (shape_TV_inv _ Hs) as [->|(t & k & fr'' & -> & Hs')].
      + rewrite Ht by (cbn; lia). reflexivity.
      + exact Hl.
  Qed.

  Lemma step_MAfterExec fr s : Inv (mkC MAfterExec fr s) -> Inv (step P (mkC MAfterExec fr s)).
  Proof.
    unfold Inv; cbn [c_mode c_frames c_st tag_of step]. intros (Hs & Hc & Ha & Hl & Ht).
    destruct (shape_TW_inv _ Hs) as (root & fr' & -> & Hs'). clear Hs. rename Hs' into Hs. norm.
    destruct (computed root s); norm; regs_simpl.
    - repeat split; auto.
      intros Hlen. apply Ht. rewrite (shape_TV_short _ Hs Hlen). cbn. lia.
    - repeat split; auto.
  Qed.

  Lemma shape_TE_long fr : shape TE fr -> (length fr <= 2)%nat -> False.
  Proof.
    intros H L. destruct (shape_TE_inv _ H) as (i & fr' & -> & H').
    destruct (shape_TW_inv _ H') as (r & fr'' & -> & H''). destruct fr''; cbn in *; [tauto|lia].
  Qed.

  Lemma shape_TW_short fr : shape TW fr -> (length fr <= 2)%nat -> exists r, fr = [FWait r; FTop].
  Proof.
    intros H L. destruct (shape_TW_inv _ H) as (r & fr' & -> & H').
    rewrite (shape_TV_short _ H') by (cbn in L; lia). eauto.
  Qed.

  Lemma last_exec0_pop i fr : shape TW fr -> last_exec0 (FExec i :: fr) ->
    last_exec0 fr /\ ((length fr <= 2)%nat -> i = O).
  Proof.
    intros H Hl. split.
    - destruct (shape_TW_inv _ H) as (r & fr' & -> & H'). cbn [last_exec0] in *.
      destruct fr' as [|f fr'']; [exact I|]. destruct f; try exact Hl; destruct fr''; try exact Hl; exact I.
    - intros L. destruct (shape_TW_short _ H L) as (r & ->). exact Hl.
  Qed.

  (* Inv for a state at the head of the _execute loop only depends on the frames and active_task *)
  Lemma inv_exec fr s s' :
    Inv (mkC MExecLoop fr s) -> snd (regs s') = snd (regs s) -> Inv (mkC MExecLoop fr s').
  Proof.
    unfold Inv; norm. intros (Hs & Hc & Ha & Hl & Ht) E. repeat split; auto; [congruence|].
    intros L. destruct (shape_TE_long _ Hs L).
  Qed.

  Lemma step_MExecLoop fr s : Inv (mkC MExecLoop fr s) -> Inv (step P (mkC MExecLoop fr s)).
  Proof.
    intros HI. pose proof HI as HI0. unfold Inv in HI; norm. destruct HI as (Hs & Hc & Ha & Hl & Ht).
    destruct (shape_TE_inv _ Hs) as (init & fr' & -> & Hs'). cbn [step c_mode c_frames c_st].
    assert (Hret : forall s', regs s' = regs s -> (length (fst (regs s)) <= init)%nat \/ fst (regs s) = [] -> Inv (mkC MAfterExec fr' s')).
    { intros s' E Hlen. unfold Inv; norm. destruct (last_exec0_pop _ _ Hs' Hl) as (Hl' & Hi).
      rewrite E. repeat split; auto. intros L. specialize (Hi L). subst init.
      destruct Hlen as [Hlen|Hlen]; [|exact Hlen].
      destruct (fst (regs s)); [reflexivity|cbn in Hlen; lia]. }
    destruct (Nat.leb (length (tasks s)) init) eqn:Hle.
    { apply Hret; [reflexivity|]. left. apply Nat.leb_le. exact Hle. }
    destruct (Z.ltb (p_maxstack P) (Z.of_nat (length (tasks s)))); [exact I|].
    destruct (tasks s) as [|x ts] eqn:Hts.
    { apply Hret; [reflexivity|]. right. exact Hts. }
    destruct (computed x s). { apply (inv_exec _ s); [exact HI0|]. regs_simpl. reflexivity. }
    destruct (get x s) as [[o [tk|kind idx key a|o'|]]|]; try (apply (inv_exec _ s); [exact HI0|]; regs_simpl; reflexivity).
    destruct (is_blocked tk s).
    - destruct (tk_ds tk); apply (inv_exec _ s); try exact HI0; regs_simpl; reflexivity.
    - destruct (computed x (resume_contexts x s)).
      + apply (inv_exec _ s); [exact HI0|]. regs_simpl. reflexivity.
      + unfold Inv; norm. regs_simpl. repeat split; auto.
        * change (active (resume_contexts x s)) with (snd (regs (resume_contexts x s))).
          rewrite regs_resume_contexts. exact Ha.
        * intros L. destruct fr'; [cbn in Hs'; tauto | cbn in L; lia].
  Qed.

  Lemma inv_cont t fr s s' m :
    Inv (mkC (MRun t m) fr s) -> snd (regs s') = snd (regs s) ->
    forall m', tag_of m' = Some (TC (Some t)) \/ tag_of m' = Some (TC None) ->
    Inv (mkC m' fr s').
  Proof.
    unfold Inv; norm. intros (Hs & Hc & Ha & Hl & Ht) E m' Hm.
    assert (Hlong : (length fr <= 2)%nat -> False).
    { intros L. destruct (shape_TC_inv _ _ Hs) as (t' & old & fr' & -> & Hs' & _).
      apply (shape_TE_long _ Hs'). cbn in L. lia. }
    destruct m'; cbn in Hm; destruct Hm as [Hm|Hm]; try discriminate; inversion Hm; subst;
      norm; repeat split; auto; try congruence; try (intros L; destruct (Hlong L)).
    - destruct (shape_TC_inv _ _ Hs) as (t' & old & fr' & -> & Hs' & _). cbn. exact Hs'.
  Qed.

  Definition InvT (tg : ftag) (fr : list frame) (s : st) : Prop :=
    shape tg fr /\ conts_ok a0 fr /\ snd (regs s) = nearest_cont a0 fr /\ last_exec0 fr /\
    ((length fr <= 2)%nat -> fst (regs s) = []).

  Lemma Inv_tag m fr s tg : tag_of m = Some tg -> (Inv (mkC m fr s) <-> InvT tg fr s).
  Proof. destruct m; cbn; intros H; inversion H; subst; unfold Inv, InvT; cbn; tauto. Qed.

  Lemma Inv_of m fr s tg : tag_of m = Some tg -> InvT tg fr s -> Inv (mkC m fr s).
  Proof. intros H. apply Inv_tag. exact H. Qed.
  Lemma Inv_to m fr s tg : tag_of m = Some tg -> Inv (mkC m fr s) -> InvT tg fr s.
  Proof. intros H. apply Inv_tag. exact H. Qed.

  Lemma invT_regs tg fr s s' : InvT tg fr s -> regs s' = regs s -> InvT tg fr s'.
  Proof. unfold InvT. intros H E. rewrite E. exact H. Qed.

  Lemma invT_TC_long o fr s : InvT (TC o) fr s -> (length fr <= 2)%nat -> False.
  Proof.
    intros (Hs & _) L. destruct (shape_TC_inv _ _ Hs) as (t' & old & fr' & -> & Hs' & _).
    apply (shape_TE_long _ Hs'). cbn in L. lia.
  Qed.

  Lemma invT_TC_weaken t fr s : InvT (TC (Some t)) fr s -> InvT (TC None) fr s.
  Proof.
    intros H. pose proof H as (Hs & Hc & Ha & Hl & Ht).
    destruct (shape_TC_inv _ _ Hs) as (t' & old & fr' & -> & Hs' & _).
    unfold InvT. cbn [conts_ok] in Hc. destruct Hc. repeat split; auto.
  Qed.

  (* C08: inside the body of t, get_active_task() is t *)
  Lemma invT_TC_active t fr s : InvT (TC (Some t)) fr s -> active s = Some t.
  Proof.
    intros (Hs & Hc & Ha & _). destruct (shape_TC_inv _ _ Hs) as (t' & old & fr' & -> & Hs' & E).
    rewrite (E t eq_refl) in Ha. exact Ha.
  Qed.

  Lemma step_MResume t fr s : Inv (mkC (MResume t) fr s) -> Inv (step P (mkC (MResume t) fr s)).
  Proof.
    intros HI. apply (Inv_to _ _ _ (TC (Some t))) in HI; [|reflexivity]. cbn [step c_mode c_frames c_st].
    destruct (get_task t s) as [tk|]; [|exact I].
    destruct (tk_gen tk) as [k|].
    - apply (Inv_of _ _ _ (TC (Some t))); [reflexivity|]. apply (invT_regs _ _ s); [exact HI|]. regs_simpl. reflexivity.
    - destruct (unwrap (look s) (tk_last tk)).
      + destruct (computed t s); [exact I|].
        apply (Inv_of _ _ _ (TC None)); [reflexivity|]. apply invT_TC_weaken with t.
        apply (invT_regs _ _ s); [exact HI|]. regs_simpl. reflexivity.
      + apply (Inv_of _ _ _ (TC None)); [reflexivity|]. apply invT_TC_weaken with t.
        apply (invT_regs _ _ s); [exact HI|]. regs_simpl. reflexivity.
  Qed.

  Lemma step_MRun t p fr s : Inv (mkC (MRun t p) fr s) -> Inv (step P (mkC (MRun t p) fr s)).
  Proof.
    intros HI. apply (Inv_to _ _ _ (TC (Some t))) in HI; [|reflexivity]. cbn [step c_mode c_frames c_st].
    assert (Hclose : forall s0, regs s0 = regs s -> regs
              (match get_task t s0 with
               | Some tk => set_task t (mkTask None (tk_last tk) (tk_deps tk) (tk_ctxs tk) (tk_cact tk) (tk_ds tk) (tk_iter tk) (tk_next tk)) s0
               | None => s0 end) = regs s).
    { intros s0 E. destruct (get_task t s0); regs_simpl; exact E. }
    destruct p as [v|v|e|y k|f k|h k|cx k|cx k|var k|k].
    - (* Ret *)
      match goal with |- context [computed t ?s1] => destruct (computed t s1) end; [exact I|].
      apply (Inv_of _ _ _ (TC None)); [reflexivity|]. apply invT_TC_weaken with t.
      apply (invT_regs _ _ s); [exact HI|]. rewrite regs_complete_task. apply Hclose. reflexivity.
    - (* Result *)
      match goal with |- context [computed t ?s1] => destruct (computed t s1) end; [exact I|].
      apply (Inv_of _ _ _ (TC None)); [reflexivity|]. apply invT_TC_weaken with t.
      apply (invT_regs _ _ s); [exact HI|]. rewrite regs_complete_task. apply Hclose. reflexivity.
    - (* Raise *)
      apply (Inv_of _ _ _ (TC None)); [reflexivity|]. apply invT_TC_weaken with t.
      apply (invT_regs _ _ s); [exact HI|]. rewrite regs_accept_error. apply Hclose. reflexivity.
    - (* Yield *)
      pose proof (regs_inst t y s) as Hi. destruct (inst t y s) as [y' s1]. cbn [snd] in Hi.
      destruct (get_task t s1) as [tk|]; [|exact I].
      destruct (futs (extract y')).
      + apply (Inv_of _ _ _ (TC (Some t))); [reflexivity|]. apply (invT_regs _ _ s); [exact HI|]. regs_simpl. exact Hi.
      + apply (Inv_of _ _ _ (TC None)); [reflexivity|]. apply invT_TC_weaken with t.
        apply (invT_regs _ _ s); [exact HI|]. regs_simpl. exact Hi.
    - (* Let *)
      pose proof (regs_create t f s) as Hi. destruct (create t f s) as [h s1]. cbn [snd] in Hi.
      apply (Inv_of _ _ _ (TC (Some t))); [reflexivity|]. apply (invT_regs _ _ s); [exact HI|]. exact Hi.
    - (* Sync *)
      apply (Inv_of _ _ _ TV); [reflexivity|]. destruct HI as (Hs & Hc & Ha & Hl & Ht).
      unfold InvT. norm. repeat split; auto.
      intros L. exfalso. destruct (shape_TC_inv _ _ Hs) as (t' & old & fr' & -> & Hs' & _).
      apply (shape_TE_long _ Hs'). cbn in L. lia.
    - apply (Inv_of _ _ _ (TC (Some t))); [reflexivity|]. apply (invT_regs _ _ s); [exact HI|]. regs_simpl. reflexivity.
    - apply (Inv_of _ _ _ (TC (Some t))); [reflexivity|]. apply (invT_regs _ _ s); [exact HI|]. regs_simpl. reflexivity.
    - apply (Inv_of _ _ _ (TC (Some t))); [reflexivity|]. apply (invT_regs _ _ s); [exact HI|]. regs_simpl. reflexivity.
    - apply (Inv_of _ _ _ (TC (Some t))); [reflexivity|]. apply (invT_regs _ _ s); [exact HI|]. regs_simpl. reflexivity.
  Qed.

  Lemma step_MContRet fr s : Inv (mkC MContRet fr s) -> Inv (step P (mkC MContRet fr s)).
  Proof.
    intros HI. apply (Inv_to _ _ _ (TC None)) in HI; [|reflexivity]. cbn [step c_mode c_frames c_st].
    destruct HI as (Hs & Hc & Ha & Hl & Ht).
    destruct (shape_TC_inv _ _ Hs) as (t & old & fr' & -> & Hs' & _). norm. destruct Hc as (Ho & Hc).
    apply (Inv_of _ _ _ TE); [reflexivity|]. unfold InvT.
    assert (E : regs (match get_task t (with_active s old) with
                      | Some tk => set_task t (tk_set_ds tk false) (with_active s old)
                      | None => with_active s old end) = (fst (regs s), old)).
    { destruct (get_task t (with_active s old)); regs_simpl; reflexivity. }
    rewrite E. cbn [fst snd]. repeat split; auto.
    intros L. destruct (shape_TE_long _ Hs' L).
  Qed.

  Lemma step_MDeliver o fr s : Inv (mkC (MDeliver o) fr s) -> Inv (step P (mkC (MDeliver o) fr s)).
  Proof.
    intros HI. apply (Inv_to _ _ _ TV) in HI; [|reflexivity]. cbn [step c_mode c_frames c_st].
    destruct HI as (Hs & Hc & Ha & Hl & Ht).
    destruct (shape_TV_inv _ Hs) as [->|(t & k & fr' & -> & Hs')].
    - unfold Inv. cbn. split; [exact Ha|]. apply Ht. cbn. lia.
    - apply (Inv_of _ _ _ (TC (Some t))); [reflexivity|]. norm. unfold InvT. regs_simpl. repeat split; auto.
      intros L. exfalso. destruct (shape_TC_inv _ _ Hs') as (t' & old & fr'' & -> & Hs'' & _).
      apply (shape_TE_long _ Hs''). cbn in L. lia.
  Qed.

  (* one step preserves the invariant (an unwinding or stuck result satisfies it trivially) *)
  Theorem step_inv c : is_unwind (c_mode c) = false -> Inv c -> Inv (step P c).
  Proof.
    destruct c as [m fr s]. destruct m; cbn [c_mode is_unwind]; intros Hu HI; try discriminate.
    - apply step_MValue; exact HI.
    - apply step_MWaitHead; exact HI.
    - apply step_MAfterExec; exact HI.
    - apply step_MExecLoop; exact HI.
    - apply step_MResume; exact HI.
    - apply step_MRun; exact HI.
    - apply step_MContRet; exact HI.
    - apply step_MDeliver; exact HI.
    - exact HI.
    - exact HI.
  Qed.
End Preservation.

(* ------------------------------------------------------------------ whole runs *)
Definition no_unwind (P : params) (n : nat) (c : cfg) : Prop :=
  forall k, (k <= n)%nat -> is_unwind (c_mode (run P k c)) = false.

Definition is_final (m : mode) : bool := match m with MDone _ | MStuck => true | _ => false end.

Lemma run_S P n c : run P (S n) c = if is_final (c_mode c) then c else run P n (step P c).
Proof. cbn [run]. destruct (c_mode c); reflexivity. Qed.

Lemma run_final P n c : is_final (c_mode c) = true -> run P n c = c.
Proof. destruct n; [reflexivity|]. rewrite run_S. intros ->. reflexivity. Qed.

Theorem run_inv a0 P n : forall c, Inv a0 c -> no_unwind P n c -> Inv a0 (run P n c).
Proof.
  induction n as [|n IH]; intros c HI Hn; [exact HI|].
  rewrite run_S. destruct (is_final (c_mode c)) eqn:Hf; [exact HI|].
  apply IH.
  - apply step_inv; [|exact HI]. apply (Hn O). lia.
  - intros k Hk. specialize (Hn (S k) ltac:(lia)). rewrite run_S, Hf in Hn. exact Hn.
Qed.

Definition start (h : fid) (s : st) : cfg := mkC (MValue h) [FTop] s.

Lemma start_inv h s : tasks s = [] -> Inv (active s) (start h s).
Proof. intros Ht. unfold Inv, start; cbn. repeat split; auto. Qed.

(* T1: inside a task's code the active task is that task - at every point of every run, also after
   nested synchronous calls returned *)
Theorem active_is_running P h s n t p :
  tasks s = [] -> no_unwind P n (start h s) ->
  c_mode (run P n (start h s)) = MRun t p -> active (c_st (run P n (start h s))) = Some t.
Proof.
  intros Ht Hn Hm. pose proof (run_inv (active s) P n _ (start_inv h s Ht) Hn) as HI.
  destruct (run P n (start h s)) as [m fr s']. cbn in Hm. subst m.
  apply (Inv_to _ _ _ _ (TC (Some t))) in HI; [|reflexivity].
  apply (invT_TC_active _ _ _ _ HI).
Qed.

(* T2/T3: when the outermost call returns (value or exception delivered through value()), the
   scheduler holds no task and active_task is what it was before the call (None at top level) *)
Theorem clean_after_outcome P h s n o :
  tasks s = [] -> no_unwind P n (start h s) ->
  c_mode (run P n (start h s)) = MDone o ->
  active (c_st (run P n (start h s))) = active s /\ tasks (c_st (run P n (start h s))) = [].
Proof.
  intros Ht Hn Hm. pose proof (run_inv (active s) P n _ (start_inv h s Ht) Hn) as HI.
  destruct (run P n (start h s)) as [m fr s']. cbn in Hm. subst m. exact HI.
Qed.

(* T5: the MAX_TASK_STACK_SIZE guard leaves a reset scheduler behind; the active task - the caller, whose code
   goes on once it has received the RuntimeError - is kept *)
Theorem guard_resets P init fr s :
  (init < length (tasks s))%nat -> (p_maxstack P < Z.of_nat (length (tasks s)))%Z ->
  let c' := step P (mkC MExecLoop (FExec init :: fr) s) in
  c_mode c' = MUnwind E_RUNTIME /\ tasks (c_st c') = [] /\ sb (c_st c') = [] /\ active (c_st c') = active s.
Proof.
  intros Hi Hm. cbn [step c_mode c_frames c_st].
  destruct (Nat.leb (length (tasks s)) init) eqn:E; [apply Nat.leb_le in E; lia|].
  destruct (Z.ltb (p_maxstack P) (Z.of_nat (length (tasks s)))) eqn:E2; [|apply Z.ltb_ge in E2; lia].
  cbn. auto.
Qed.

(* non-vacuity: a program with a nested synchronous call and a batch flush runs to completion
   without unwinding, so the hypotheses of the theorems above are satisfiable *)
Definition no_unwind_b (P : params) (n : nat) (c : cfg) : bool :=
  forallb (fun k => negb (is_unwind (c_mode (run P k c)))) (seq 0 (S n)).

Definition demo_prog : prog :=
  Let (FTask (Yield (YLeaf (LNew (FItem 0 1 (ASet (VInt 5))))) (fun o => match o with Ok v => Ret v | Err e => Raise e end)))
      (fun h => Sync h (fun o => Probe (fun _ => match o with Ok v => Ret v | Err e => Raise e end))).
Definition demo_P : params := mkP [] 1000 false [].
Definition demo_start : cfg :=
  let '(h, s1) := create [] (FTask demo_prog) (st0 demo_P) in start h s1.

Example demo_runs_clean :
  no_unwind_b demo_P 200 demo_start = true /\
  c_mode (run demo_P 200 demo_start) = MDone (Ok (VInt 5)).
Proof. vm_compute. split; reflexivity. Qed.
