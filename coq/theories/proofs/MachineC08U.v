(* C08, second part: the scheduler is clean after ANY outcome that the MAX_TASK_STACK_SIZE guard can
   produce, and no scheduled batch is left behind - for every program (no tree restriction).

   MachineC08.v proves "active task = running task" and "task stack empty at the end" for runs in which
   no exception unwinds through asynq's frames ([no_unwind]).  Here the hypothesis is weakened to
   [guard_unwind_only]: the only exception that unwinds is the guard's RuntimeError (the other source of
   unwinding in [step] is FutureIsAlreadyComputed raised by _queue_exit, E_ALREADY; it stays excluded).

   Invariant for an unwinding configuration reached from the guard ([UInv]): the frames are those of an
   _execute / wait_for / value() configuration (tags TE, TW, TV of MachineC08.shape - the guard fires at
   the head of the _execute loop, never inside _continue_with_task, so no FCont frame lies between the
   guard and the nearest FValue frame: [guard_frames]), the task stack and the set of scheduled batches
   are empty (reset_sched) and active_task is the task of the nearest enclosing _continue_with_task
   frame, i.e. the task that made the synchronous call (or the value before the outermost call).

   The side invariant [Extra] adds the scheduled batches to MachineC08.Inv: whenever value() is about to
   return to the top level (MValue / MDeliver on the frame stack [FTop]) the set of scheduled batches is
   empty or still what it was before the call (sb0) - the latter when the call did not enter wait_for;
   otherwise the outermost wait_for ended through drop_sb with an empty task stack, or the guard reset it.

   Results: step_inv2 / run_inv2 (preservation), active_is_running_U, clean_after_outcome_U,
   fresh_after_outcome, clean_after_task_outcome, clean_sb_any_root_is_false (the sb clause needs a
   hypothesis), guard_caught (the catch step by step), run_root_fresh / run_history_fresh, the old theorems
   of MachineC08.v as corollaries, and two vm_compute examples (corpus _GUARD_CAUGHT, _GUARD_BATCH).
   Not covered: runs in which E_ALREADY unwinds. *)
From Asynq Require Import Machine proofs.ProgProofs proofs.MachineFrame proofs.MachineC05 proofs.MachineC08.

(* ------------------------------------------------------------------ the hypothesis *)
Definition guard_unwind_only (P : params) (n : nat) (c : cfg) : Prop :=
  forall k, (k <= n)%nat -> forall e, c_mode (run P k c) = MUnwind e -> e = E_RUNTIME.

Lemma no_unwind_guard_only P n c : no_unwind P n c -> guard_unwind_only P n c.
Proof. intros H k Hk e Hm. specialize (H k Hk). rewrite Hm in H. discriminate H. Qed.

Lemma E_ALREADY_not_RUNTIME : E_ALREADY = E_RUNTIME -> False.
Proof. unfold E_ALREADY, E_RUNTIME. intros H. discriminate H. Qed.

(* where [step] starts an unwinding: only at the guard (E_RUNTIME) and at _queue_exit (E_ALREADY) *)
Lemma unwind_sources P c e :
  is_unwind (c_mode c) = false -> c_mode (step P c) = MUnwind e ->
  (e = E_RUNTIME /\ c_mode c = MExecLoop) \/
  (e = E_ALREADY /\ exists t, c_mode c = MResume t \/ exists p, c_mode c = MRun t p).
Proof.
  destruct c as [m fr s]. destruct m; cbn [c_mode is_unwind step c_frames c_st]; intros Hu Hm; try discriminate Hu.
  - (* MValue *)
    destruct (computed h s); [discriminate Hm|].
    destruct (get h s) as [[o [tk|kind idx key a|o'|]]|]; discriminate Hm.
  - destruct fr as [|[|t k|r|i|t old] fr']; try discriminate Hm. destruct (computed r s); discriminate Hm.
  - destruct fr as [|[|t k|r|i|t old] fr']; try discriminate Hm. destruct (computed r s); discriminate Hm.
  - (* MExecLoop *)
    destruct fr as [|[|t k|r|i|t old] fr']; try discriminate Hm.
    destruct (Nat.leb _ _); [discriminate Hm|].
    destruct (Z.ltb _ _). { cbn in Hm. inversion Hm. left. split; reflexivity. }
    destruct (tasks s) as [|x ts]; [discriminate Hm|].
    destruct (computed x s); [discriminate Hm|].
    destruct (get x s) as [[o [tk|kind idx key a|o'|]]|]; try discriminate Hm.
    destruct (is_blocked tk s); [destruct (tk_ds tk); discriminate Hm|].
    destruct (computed x (resume_contexts x s)); discriminate Hm.
  - (* MResume *)
    right. destruct (get_task t s) as [tk|]; [|discriminate Hm].
    destruct (tk_gen tk); [discriminate Hm|].
    destruct (unwrap (look s) (tk_last tk)); [|discriminate Hm].
    destruct (computed t s); [|discriminate Hm]. cbn in Hm. inversion Hm. split; [reflexivity|]. exists t. left. reflexivity.
  - (* MRun *)
    right. destruct p as [v|v|e0|y k|f k|h k|cx k|cx k|var k|k]; try discriminate Hm.
    + match type of Hm with context [computed t ?s1] => destruct (computed t s1) end; [|discriminate Hm].
      cbn in Hm. inversion Hm. split; [reflexivity|]. exists t. right. eexists. reflexivity.
    + match type of Hm with context [computed t ?s1] => destruct (computed t s1) end; [|discriminate Hm].
      cbn in Hm. inversion Hm. split; [reflexivity|]. exists t. right. eexists. reflexivity.
    + destruct (inst t y s) as [y' s1]. destruct (get_task t s1); [|discriminate Hm].
      destruct (futs (extract y')); discriminate Hm.
    + destruct (create t f s). discriminate Hm.
  - destruct fr as [|[|t k|r|i|t old] fr']; discriminate Hm.
  - destruct fr as [|[|t k|r|i|t old] fr']; discriminate Hm.
  - discriminate Hm.
  - discriminate Hm.
Qed.

(* the frames between the guard and the place where its RuntimeError lands: exactly one _execute and one
   wait_for frame, then either the top level or the value() call of the task that made the synchronous call *)
Lemma guard_frames fr : shape TE fr ->
  exists i r fr', fr = FExec i :: FWait r :: fr' /\
    (fr' = [FTop] \/ exists t k old fr'', fr' = FValue t k :: FCont t old :: fr'' /\ shape TE fr'').
Proof.
  intros H. destruct (shape_TE_inv _ H) as (i & fr1 & -> & H1).
  destruct (shape_TW_inv _ H1) as (r & fr2 & -> & H2). exists i, r, fr2. split; [reflexivity|].
  destruct (shape_TV_inv _ H2) as [->|(t & k & fr3 & -> & H3)]; [left; reflexivity|right].
  destruct (shape_TC_inv _ _ H3) as (t' & old & fr4 & -> & H4 & E). rewrite (E t eq_refl).
  exists t, k, old, fr4. split; [reflexivity|exact H4].
Qed.

(* ------------------------------------------------------------------ the invariant *)
Section InvU.
  Variable a0 : option fid.          (* active_task before the outermost call *)
  Variable sb0 : list (Z * Z).       (* the scheduled batches before the outermost call *)
  Variable P : params.

  Definition UInv (fr : list frame) (s : st) : Prop :=
    (InvT a0 TE fr s \/ InvT a0 TW fr s \/ InvT a0 TV fr s) /\ tasks s = [] /\ sb s = [].

  Definition Extra (c : cfg) : Prop :=
    match c_mode c with
    | MUnwind e => e = E_RUNTIME -> UInv (c_frames c) (c_st c)
    | MDone _ => sb (c_st c) = [] \/ sb (c_st c) = sb0
    | MValue _ | MDeliver _ => c_frames c = [FTop] -> sb (c_st c) = [] \/ sb (c_st c) = sb0
    | _ => True
    end.

  Definition Inv2 (c : cfg) : Prop := Inv a0 c /\ Extra c.

  Lemma extra_MValue h fr s : Extra (mkC (MValue h) fr s) -> Extra (step P (mkC (MValue h) fr s)).
  Proof.
    unfold Extra; cbn [c_mode c_frames c_st step]. intros H.
    destruct (computed h s); [exact H|].
    destruct (get h s) as [[o [tk|kind idx key a|o'|]]|]; cbn [c_mode c_frames c_st]; try exact H; try exact I.
    intros E. rewrite regs_flush_batch_sb. exact (H E).
  Qed.

  Lemma extra_MWaitHead fr s : Inv a0 (mkC MWaitHead fr s) -> Extra (step P (mkC MWaitHead fr s)).
  Proof.
    intros HI. apply (Inv_to _ _ _ _ TW) in HI; [|reflexivity]. destruct HI as (Hs & Hc & Ha & Hl & Ht).
    destruct (shape_TW_inv _ Hs) as (root & fr' & -> & Hs').
    unfold Extra; cbn [c_mode c_frames c_st step].
    destruct (computed root s); cbn [c_mode c_frames c_st]; [|exact I].
    intros ->. left. apply drop_sb_empty. apply Ht. cbn. lia.
  Qed.

  Lemma extra_MAfterExec fr s : Inv a0 (mkC MAfterExec fr s) -> Extra (step P (mkC MAfterExec fr s)).
  Proof.
    intros HI. apply (Inv_to _ _ _ _ TW) in HI; [|reflexivity]. destruct HI as (Hs & Hc & Ha & Hl & Ht).
    destruct (shape_TW_inv _ Hs) as (root & fr' & -> & Hs').
    unfold Extra; cbn [c_mode c_frames c_st step].
    destruct (computed root s); cbn [c_mode c_frames c_st]; [|exact I].
    intros ->. left. apply drop_sb_empty. apply Ht. cbn. lia.
  Qed.

  (* the guard: the configuration it leaves satisfies UInv *)
  Lemma extra_MExecLoop fr s : Inv a0 (mkC MExecLoop fr s) -> Extra (step P (mkC MExecLoop fr s)).
  Proof.
    intros HI. apply (Inv_to _ _ _ _ TE) in HI; [|reflexivity]. destruct HI as (Hs & Hc & Ha & Hl & Ht).
    destruct (shape_TE_inv _ Hs) as (init & fr' & E & Hs'). subst fr.
    unfold Extra; cbn [c_mode c_frames c_st step].
    destruct (Nat.leb _ _); [exact I|].
    destruct (Z.ltb _ _).
    { cbn [c_mode c_frames c_st]. intros _. split; [left|split; reflexivity].
      unfold InvT. split; [exact Hs|]. split; [exact Hc|]. split; [exact Ha|]. split; [exact Hl|].
      intros _. reflexivity. }
    destruct (tasks s) as [|x ts]; [exact I|].
    destruct (computed x s); [exact I|].
    destruct (get x s) as [[o [tk|kind idx key a|o'|]]|]; try exact I.
    destruct (is_blocked tk s); [destruct (tk_ds tk); exact I|].
    destruct (computed x (resume_contexts x s)); exact I.
  Qed.

  Lemma extra_MResume t fr s : Extra (step P (mkC (MResume t) fr s)).
  Proof.
    unfold Extra; cbn [c_mode c_frames c_st step].
    destruct (get_task t s) as [tk|]; [|exact I].
    destruct (tk_gen tk); [exact I|].
    destruct (unwrap (look s) (tk_last tk)); [|exact I].
    destruct (computed t s); [|exact I].
    cbn [c_mode]. intros E. destruct (E_ALREADY_not_RUNTIME E).
  Qed.

  Lemma extra_MRun t p fr s : Extra (step P (mkC (MRun t p) fr s)).
  Proof.
    unfold Extra; cbn [c_mode c_frames c_st step].
    destruct p as [v|v|e|y k|f k|h k|cx k|cx k|var k|k]; try exact I.
    - match goal with |- context [computed t ?s1] => destruct (computed t s1) end; [|exact I].
      cbn [c_mode]. intros E. destruct (E_ALREADY_not_RUNTIME E).
    - match goal with |- context [computed t ?s1] => destruct (computed t s1) end; [|exact I].
      cbn [c_mode]. intros E. destruct (E_ALREADY_not_RUNTIME E).
    - destruct (inst t y s) as [y' s1]. destruct (get_task t s1); [|exact I].
      destruct (futs (extract y')); exact I.
    - destruct (create t f s). exact I.
    - cbn [c_mode c_frames]. intros E. discriminate E.
  Qed.

  Lemma extra_MContRet fr s : Extra (step P (mkC MContRet fr s)).
  Proof.
    unfold Extra; cbn [c_mode c_frames c_st step].
    destruct fr as [|[|t k|r|i|t old] fr']; exact I.
  Qed.

  Lemma extra_MDeliver o fr s :
    Inv a0 (mkC (MDeliver o) fr s) -> Extra (mkC (MDeliver o) fr s) -> Extra (step P (mkC (MDeliver o) fr s)).
  Proof.
    intros HI HE. apply (Inv_to _ _ _ _ TV) in HI; [|reflexivity]. destruct HI as (Hs & _).
    destruct (shape_TV_inv _ Hs) as [->|(t & k & fr' & -> & _)].
    - unfold Extra in *; cbn [c_mode c_frames c_st step] in *. apply HE. reflexivity.
    - exact I.
  Qed.

  (* one step of the guard's unwinding: frames are popped until the nearest value() call - of the task
     that made the synchronous call, which goes on running with active_task = itself - or the top level *)
  Lemma inv2_MUnwind fr s : UInv fr s -> Inv2 (step P (mkC (MUnwind E_RUNTIME) fr s)).
  Proof.
    intros (HT & Hts & Hsb). destruct HT as [HT|[HT|HT]]; destruct HT as (Hs & Hc & Ha & Hl & Ht).
    - (* inside _execute *)
      destruct (shape_TE_inv _ Hs) as (i & fr' & -> & Hs').
      cbn [step c_mode c_frames c_st]. split; [exact I|]. unfold Extra; cbn [c_mode c_frames c_st]. intros _.
      split; [right; left|split; assumption].
      destruct (last_exec0_pop _ _ Hs' Hl) as (Hl' & _).
      unfold InvT. split; [exact Hs'|]. split; [exact Hc|]. split; [exact Ha|]. split; [exact Hl'|].
      intros _. exact Hts.
    - (* inside wait_for *)
      destruct (shape_TW_inv _ Hs) as (r & fr' & -> & Hs').
      cbn [step c_mode c_frames c_st]. split; [exact I|]. unfold Extra; cbn [c_mode c_frames c_st]. intros _.
      split; [right; right|split; assumption].
      unfold InvT. split; [exact Hs'|]. split; [exact Hc|]. split; [exact Ha|]. split; [exact Hl|].
      intros _. exact Hts.
    - (* inside value() *)
      destruct (shape_TV_inv _ Hs) as [->|(t & k & fr' & -> & Hs')].
      + cbn [step c_mode c_frames c_st]. split.
        * unfold Inv; cbn [c_mode c_st]. split; [exact Ha|exact Hts].
        * left. exact Hsb.
      + cbn [step c_mode c_frames c_st]. split; [|exact I].
        apply (Inv_of _ _ _ _ (TC (Some t))); [reflexivity|].
        unfold InvT. rewrite regs_emit. split; [exact Hs'|]. split; [exact Hc|]. split; [exact Ha|].
        split; [exact Hl|]. intros _. exact Hts.
  Qed.

  Theorem step_inv2 c : (forall e, c_mode c = MUnwind e -> e = E_RUNTIME) -> Inv2 c -> Inv2 (step P c).
  Proof.
    destruct c as [m fr s]. intros Hu (HI & HE). destruct m; cbn [c_mode] in Hu.
    - split; [apply step_inv; [reflexivity|exact HI]|apply extra_MValue; exact HE].
    - split; [apply step_inv; [reflexivity|exact HI]|apply extra_MWaitHead; exact HI].
    - split; [apply step_inv; [reflexivity|exact HI]|apply extra_MAfterExec; exact HI].
    - split; [apply step_inv; [reflexivity|exact HI]|apply extra_MExecLoop; exact HI].
    - split; [apply step_inv; [reflexivity|exact HI]|apply extra_MResume].
    - split; [apply step_inv; [reflexivity|exact HI]|apply extra_MRun].
    - split; [apply step_inv; [reflexivity|exact HI]|apply extra_MContRet].
    - split; [apply step_inv; [reflexivity|exact HI]|apply extra_MDeliver; [exact HI|exact HE]].
    - rewrite (Hu e eq_refl) in *. apply inv2_MUnwind. apply HE. reflexivity.
    - split; [exact HI|exact HE].
    - split; [exact HI|exact HE].
  Qed.
End InvU.

(* ------------------------------------------------------------------ whole runs *)
Theorem run_inv2 a0 sb0 P n : forall c, Inv2 a0 sb0 c -> guard_unwind_only P n c -> Inv2 a0 sb0 (run P n c).
Proof.
  induction n as [|n IH]; intros c HI Hn; [exact HI|].
  rewrite run_S. destruct (is_final (c_mode c)) eqn:Hf; [exact HI|].
  apply IH.
  - apply step_inv2; [|exact HI]. intros e He. apply (Hn O); [lia|exact He].
  - intros k Hk e He. apply (Hn (S k)); [lia|]. rewrite run_S, Hf. exact He.
Qed.

Lemma start_inv2 h s : tasks s = [] -> Inv2 (active s) (sb s) (start h s).
Proof. intros Ht. split; [apply start_inv; exact Ht|]. unfold Extra, start; cbn. intros _. right. reflexivity. Qed.

(* U2(a): inside a task's code the active task is that task - also in the task that catches the
   RuntimeError of the guard after its nested synchronous call tripped it *)
Theorem active_is_running_U P h s n t p :
  tasks s = [] -> guard_unwind_only P n (start h s) ->
  c_mode (run P n (start h s)) = MRun t p -> active (c_st (run P n (start h s))) = Some t.
Proof.
  intros Ht Hn Hm. pose proof (run_inv2 (active s) (sb s) P n _ (start_inv2 h s Ht) Hn) as (HI & _).
  destruct (run P n (start h s)) as [m fr s']. cbn in Hm. subst m.
  apply (Inv_to _ _ _ _ (TC (Some t))) in HI; [|reflexivity].
  apply (invT_TC_active _ _ _ _ HI).
Qed.

(* U1 + U2(b), general root: when the outermost call is over - value, exception delivered through value(),
   or the guard's RuntimeError escaping to the top - no task is left, active_task is what it was, and the
   set of scheduled batches is empty or untouched (untouched only if the call never entered wait_for) *)
Theorem clean_after_outcome_U P h s n o :
  tasks s = [] -> guard_unwind_only P n (start h s) ->
  c_mode (run P n (start h s)) = MDone o ->
  active (c_st (run P n (start h s))) = active s /\ tasks (c_st (run P n (start h s))) = [] /\
  (sb (c_st (run P n (start h s))) = [] \/ sb (c_st (run P n (start h s))) = sb s).
Proof.
  intros Ht Hn Hm. pose proof (run_inv2 (active s) (sb s) P n _ (start_inv2 h s Ht) Hn) as (HI & HE).
  destruct (run P n (start h s)) as [m fr s']. cbn in Hm. subst m.
  unfold Inv in HI; unfold Extra in HE; cbn [c_mode c_st] in *. destruct HI as (Ha & Hts).
  split; [exact Ha|]. split; [exact Hts|exact HE].
Qed.

Definition sched_fresh (s : st) : Prop := tasks s = [] /\ sb s = [] /\ active s = None.

Lemma sched_fresh_st0 P : sched_fresh (st0 P).
Proof. split; [reflexivity|]. split; reflexivity. Qed.

(* ... on a scheduler that holds no scheduled batch: it is as fresh afterwards as it was before *)
Theorem fresh_after_outcome P h s n o :
  sched_fresh s -> guard_unwind_only P n (start h s) ->
  c_mode (run P n (start h s)) = MDone o -> sched_fresh (c_st (run P n (start h s))).
Proof.
  intros (Ht & Hb & Ha) Hn Hm. destruct (clean_after_outcome_U P h s n o Ht Hn Hm) as (Ha' & Ht' & Hb').
  split; [exact Ht'|]. split; [|congruence]. destruct Hb' as [E|E]; congruence.
Qed.

(* ... and when the root is a task that is not computed yet the call does enter wait_for: whatever the set of
   scheduled batches was before, it is empty afterwards *)
Lemma guard_unwind_only_step P n c :
  is_final (c_mode c) = false -> guard_unwind_only P (S n) c -> guard_unwind_only P n (step P c).
Proof. intros Hf H k Hk e He. apply (H (S k)); [lia|]. rewrite run_S, Hf. exact He. Qed.

Theorem clean_after_task_outcome P h s n o out tk :
  tasks s = [] -> get h s = Some (mkFut out (KTask tk)) -> computed h s = false ->
  guard_unwind_only P n (start h s) ->
  c_mode (run P n (start h s)) = MDone o ->
  active (c_st (run P n (start h s))) = active s /\ tasks (c_st (run P n (start h s))) = [] /\
  sb (c_st (run P n (start h s))) = [].
Proof.
  intros Ht Hg Hc Hn Hm. destruct n as [|n]; [discriminate Hm|].
  rewrite run_S in *. change (is_final (c_mode (start h s))) with false in *. cbv iota in *.
  assert (Hstep : step P (start h s) = mkC MWaitHead [FWait h; FTop] s).
  { unfold start; cbn [step c_mode c_frames c_st]. rewrite Hc, Hg. reflexivity. }
  assert (HI : Inv2 (active s) [] (step P (start h s))).
  { split; [apply step_inv; [reflexivity|apply start_inv; exact Ht]|]. rewrite Hstep. exact I. }
  pose proof (run_inv2 (active s) [] P n _ HI (guard_unwind_only_step P n (start h s) eq_refl Hn)) as (HI' & HE).
  destruct (run P n (step P (start h s))) as [m fr s']. cbn in Hm. subst m.
  unfold Inv in HI'; unfold Extra in HE; cbn [c_mode c_st] in *. destruct HI' as (Ha & Hts).
  split; [exact Ha|]. split; [exact Hts|]. destruct HE as [E|E]; exact E.
Qed.

(* the statement without any hypothesis on the root or on the scheduled batches is false: value() on a
   future that is not an uncomputed task returns without entering wait_for and never looks at the scheduler *)
Definition clean_sb_any_root_statement : Prop :=
  forall P h s n o, tasks s = [] -> guard_unwind_only P n (start h s) ->
    c_mode (run P n (start h s)) = MDone o -> sb (c_st (run P n (start h s))) = [].

Definition stale_P : params := mkP [] 1000 false [].
Definition stale_s : st := with_sb (snd (create [] (FConst (VInt 1)) (st0 stale_P))) [(0, 0)].

Lemma guard_unwind_only_b_sound P n c :
  forallb (fun k => match c_mode (run P k c) with MUnwind e => Z.eqb e E_RUNTIME | _ => true end) (seq 0 (S n)) = true ->
  guard_unwind_only P n c.
Proof.
  intros H k Hk e He. rewrite forallb_forall in H. specialize (H k). rewrite He in H.
  apply Z.eqb_eq. apply H. apply in_seq. lia.
Qed.

Definition guard_unwind_only_b (P : params) (n : nat) (c : cfg) : bool :=
  forallb (fun k => match c_mode (run P k c) with MUnwind e => Z.eqb e E_RUNTIME | _ => true end) (seq 0 (S n)).

Theorem clean_sb_any_root_is_false : ~ clean_sb_any_root_statement.
Proof.
  intros H. specialize (H stale_P [0] stale_s 5%nat (Ok (VInt 1)) eq_refl).
  assert (G : guard_unwind_only stale_P 5 (start [0] stale_s)).
  { apply guard_unwind_only_b_sound. vm_compute. reflexivity. }
  specialize (H G). assert (M : c_mode (run stale_P 5 (start [0] stale_s)) = MDone (Ok (VInt 1))) by (vm_compute; reflexivity).
  specialize (H M). vm_compute in H. discriminate H.
Qed.

(* ------------------------------------------------------------------ U3: the theorems of MachineC08.v as corollaries *)
Corollary active_is_running_from_U P h s n t p :
  tasks s = [] -> no_unwind P n (start h s) ->
  c_mode (run P n (start h s)) = MRun t p -> active (c_st (run P n (start h s))) = Some t.
Proof. intros Ht Hn. apply active_is_running_U; [exact Ht|apply no_unwind_guard_only; exact Hn]. Qed.

Corollary clean_after_outcome_from_U P h s n o :
  tasks s = [] -> no_unwind P n (start h s) ->
  c_mode (run P n (start h s)) = MDone o ->
  active (c_st (run P n (start h s))) = active s /\ tasks (c_st (run P n (start h s))) = [].
Proof.
  intros Ht Hn Hm. destruct (clean_after_outcome_U P h s n o Ht (no_unwind_guard_only _ _ _ Hn) Hm) as (A & B & _).
  split; [exact A|exact B].
Qed.

(* ------------------------------------------------------------------ top-level computations and histories *)
Definition root_start (p : prog) (s : st) : cfg :=
  start (fst (create [] (FTask p) s)) (snd (create [] (FTask p) s)).

Lemma run_root_eq P fuel p s :
  run_root P fuel p s =
  let c := run P fuel (root_start p s) in
  let s2 := c_st c in
  let s3 := emit (EvSched (Z.of_nat (length (tasks s2))) (Z.of_nat (length (sb s2))) (active s2)) s2 in
  (match c_mode c with MDone o => Some o | _ => None end, s3).
Proof.
  unfold run_root, root_start, start. destruct (create [] (FTask p) s) as [h s1]. cbn [fst snd].
  destruct (c_mode (run P fuel (mkC (MValue h) [FTop] s1))); reflexivity.
Qed.

(* one computation on a fresh scheduler that ends (with a value or any exception, the guard's included)
   leaves a fresh scheduler: str(scheduler) afterwards shows no task, no batch, no active task *)
Theorem run_root_fresh P fuel p s o s' :
  sched_fresh s -> guard_unwind_only P fuel (root_start p s) ->
  run_root P fuel p s = (Some o, s') ->
  sched_fresh s' /\ exists tr, trace s' = EvSched 0 0 None :: tr.
Proof.
  intros HF Hn. rewrite run_root_eq. cbv zeta. intros E.
  assert (HF1 : sched_fresh (snd (create [] (FTask p) s))).
  { destruct HF as (A & B & C). split; [exact A|]. split; [exact B|exact C]. }
  destruct (c_mode (run P fuel (root_start p s))) as [| | | | | | | | |o'|] eqn:Hm; try discriminate E.
  pose proof (fresh_after_outcome P _ _ fuel o' HF1 Hn Hm : sched_fresh (c_st (run P fuel (root_start p s)))) as (A & B & C).
  inversion E; subst. rewrite A, B, C.
  split; [split; [exact A|split; [exact B|exact C]]|]. eexists. reflexivity.
Qed.

(* a history of computations on one thread: every computation ends and unwinds only through the guard *)
Fixpoint history_ok (P : params) (fuel : nat) (ps : list prog) (s : st) : Prop :=
  match ps with
  | [] => True
  | p :: ps' => guard_unwind_only P fuel (root_start p s) /\ fst (run_root P fuel p s) <> None /\
                history_ok P fuel ps' (snd (run_root P fuel p s))
  end.

Theorem run_history_fresh P fuel ps : forall s,
  sched_fresh s -> history_ok P fuel ps s -> sched_fresh (snd (run_history P fuel ps s)).
Proof.
  induction ps as [|p ps IH]; intros s HF HO; [exact HF|]. cbn [run_history history_ok] in *.
  destruct HO as (Hg & Hn & HO).
  destruct (run_root P fuel p s) as [[o|] s1] eqn:E; cbn [fst snd] in *; [|destruct (Hn eq_refl)].
  destruct (run_root_fresh P fuel p s o s1 HF Hg E) as (HF1 & _).
  specialize (IH s1 HF1 HO). destruct (run_history P fuel ps s1) as [os s2]. exact IH.
Qed.

(* ------------------------------------------------------------------ the catch, step by step *)
(* the guard trips in the _execute loop of a synchronous call made by task t (frames: _execute, wait_for, then
   t's value() call): four steps later t's body goes on with the RuntimeError as the result of its call, the
   frames of the call are gone, active_task is t, and the scheduler holds no task and no scheduled batch *)
Theorem guard_caught P a0 i r t k fr s :
  Inv a0 (mkC MExecLoop (FExec i :: FWait r :: FValue t k :: fr) s) ->
  (i < length (tasks s))%nat -> (p_maxstack P < Z.of_nat (length (tasks s)))%Z ->
  let c' := run P 4 (mkC MExecLoop (FExec i :: FWait r :: FValue t k :: fr) s) in
  c_mode c' = MRun t (k (Err E_RUNTIME)) /\ c_frames c' = fr /\
  active (c_st c') = Some t /\ tasks (c_st c') = [] /\ sb (c_st c') = [].
Proof.
  intros HI Hi Hm.
  assert (E1 : step P (mkC MExecLoop (FExec i :: FWait r :: FValue t k :: fr) s) =
               mkC (MUnwind E_RUNTIME) (FExec i :: FWait r :: FValue t k :: fr) (reset_sched s)).
  { cbn [step c_mode c_frames c_st].
    destruct (Nat.leb (length (tasks s)) i) eqn:E; [apply Nat.leb_le in E; lia|].
    destruct (Z.ltb (p_maxstack P) (Z.of_nat (length (tasks s)))) eqn:E2; [reflexivity|apply Z.ltb_ge in E2; lia]. }
  cbv zeta. rewrite run_S. cbn [is_final c_mode]. rewrite E1.
  cbn [run step c_mode c_frames c_st].
  split; [reflexivity|]. split; [reflexivity|]. split; [|split; reflexivity].
  apply (Inv_to _ _ _ _ TE) in HI; [|reflexivity]. destruct HI as (Hs & Hc & Ha & _).
  cbn [shape nearest_cont] in Hs, Ha.
  destruct (shape_TC_inv _ _ Hs) as (t' & old & fr' & -> & _ & E). rewrite (E t eq_refl) in Ha. exact Ha.
Qed.

(* ------------------------------------------------------------------ non-vacuity: the guard trips inside a synchronous call, the calling task catches the RuntimeError *)
Definition ret_of (o : outcome) : prog := match o with Ok v => Ret v | Err e => Raise e end.

Fixpoint chain (n : nat) (lf : leaf) : prog :=
  match n with
  | O => Yield (YLeaf lf) ret_of
  | S n' => Yield (YLeaf (LNew (FTask (chain n' lf)))) ret_of
  end.

(* harness/props/c08.py _GUARD_CAUGHT *)
Definition caught_inner : prog :=
  Let (FTask (chain 6 (LNew (FConst (VInt 1)))))
      (fun h2 => Sync h2 (fun o => match o with
                                   | Err _ => Probe (fun _ => Probe (fun _ => Ret (VInt 7)))
                                   | Ok _ => Probe (fun _ => Ret (VInt 7))
                                   end)).
Definition caught_prog : prog :=
  Let (FTask caught_inner) (fun h1 => Sync h1 (fun o => Probe (fun _ => ret_of o))).
Definition caught_P : params := mkP [] 4 false [].
Definition caught_start : cfg := root_start caught_prog (st0 caught_P).

Definition probes (s : st) : list event :=
  filter (fun e => match e with EvProbe _ _ | EvGot _ _ => true | _ => false end) (rev (trace s)).

Example guard_caught_run :
  guard_unwind_only caught_P 200 caught_start /\
  ~ no_unwind caught_P 200 caught_start /\
  c_mode (run caught_P 200 caught_start) = MDone (Ok (VInt 7)) /\
  probes (c_st (run caught_P 200 caught_start)) =
    [EvGot [1] (Err E_RUNTIME); EvProbe [1] (Some [1]); EvProbe [1] (Some [1]);
     EvGot [0] (Ok (VInt 7)); EvProbe [0] (Some [0])] /\
  sched_fresh (c_st (run caught_P 200 caught_start)).
Proof.
  split; [apply guard_unwind_only_b_sound; vm_compute; reflexivity|].
  split.
  { intros H. assert (X : exists k, (k <= 200)%nat /\ is_unwind (c_mode (run caught_P k caught_start)) = true).
    { exists 25%nat. split; [lia|vm_compute; reflexivity]. }
    destruct X as (k & Hk & E). rewrite (H k Hk) in E. discriminate E. }
  vm_compute. auto.
Qed.

(* the RuntimeError escapes to the top level while a batch of the same yield is scheduled
   (harness/props/c08.py _GUARD_BATCH); the next computation on the thread starts on a fresh scheduler *)
Definition escape_prog : prog :=
  Yield (YTuple [YLeaf (LNew (FItem 0 1 (ASet (VInt 5)))); YLeaf (LNew (FTask (chain 6 (LNew (FConst (VInt 1))))))]) ret_of.
Definition next_prog : prog := Yield (YLeaf (LNew (FItem 1 2 (ASet (VInt 6))))) ret_of.

Example guard_escapes_run :
  history_ok caught_P 200 [escape_prog; next_prog] (st0 caught_P) /\
  fst (run_history caught_P 200 [escape_prog; next_prog] (st0 caught_P)) = [Some (Err E_RUNTIME); Some (Ok (VInt 6))] /\
  filter (fun e => match e with EvSched _ _ _ | EvFlush _ _ _ => true | _ => false end)
         (snd (run_case caught_P 200 [escape_prog; next_prog])) =
    [EvSched 0 0 None; EvFlush 1 0 [[7]]; EvSched 0 0 None].
Proof.
  split.
  { cbn [history_ok]. split; [apply guard_unwind_only_b_sound; vm_compute; reflexivity|].
    split; [vm_compute; discriminate|].
    split; [apply guard_unwind_only_b_sound; vm_compute; reflexivity|].
    split; [vm_compute; discriminate|exact I]. }
  vm_compute. auto.
Qed.
