(* ThreadsProofs.v — the state-partitioning argument behind C16, for every thread program
   (next_request, advance), every starting state and every interleaving. *)
From Asynq Require Import Base Threads.

(* ---------------------------------------------------------------- the shared dict *)
Lemma zlist_eqb_refl : forall a, zlist_eqb a a = true.
Proof. induction a; simpl; auto. rewrite Z.eqb_refl; auto. Qed.

Lemma dkey_eqb_thread : forall a b, dkey_eqb a b = true -> dk_thread b = dk_thread a.
Proof.
  intros a b H. unfold dkey_eqb in H.
  apply andb_prop in H. destruct H as [H _]. apply andb_prop in H. destruct H as [_ H].
  apply Nat.eqb_eq in H. auto.
Qed.

Lemma d_get_owned : forall i k d, dk_thread k = i -> d_get k (owned i d) = d_get k d.
Proof.
  intros i k d Hk. induction d as [|[k' v] r IH]; simpl; auto.
  destruct (Nat.eqb (dk_thread k') i) eqn:E; simpl.
  - destruct (dkey_eqb k k'); auto.
  - destruct (dkey_eqb k k') eqn:E2; auto.
    apply dkey_eqb_thread in E2. rewrite E2, Hk, Nat.eqb_refl in E. discriminate.
Qed.

Lemma owned_d_pop : forall i k d, owned i (d_pop k d) = d_pop k (owned i d).
Proof.
  intros i k d. induction d as [|[k' v] r IH]; simpl; auto.
  destruct (dkey_eqb k k') eqn:E; destruct (Nat.eqb (dk_thread k') i) eqn:E2; simpl; rewrite ?E, ?E2; simpl; congruence.
Qed.

Lemma owned_d_set : forall i k v d, dk_thread k = i -> owned i (d_set k v d) = d_set k v (owned i d).
Proof.
  intros i k v d Hk. unfold d_set. simpl. rewrite Hk, Nat.eqb_refl. rewrite owned_d_pop. auto.
Qed.

(* an access with a key that does not name j leaves j's entries alone *)
Lemma owned_other_d_pop : forall j k d, dk_thread k <> j -> owned j (d_pop k d) = owned j d.
Proof.
  intros j k d Hk. induction d as [|[k' v] r IH]; simpl; auto.
  destruct (dkey_eqb k k') eqn:E; simpl.
  - apply dkey_eqb_thread in E. destruct (Nat.eqb (dk_thread k') j) eqn:E2; auto.
    apply Nat.eqb_eq in E2. congruence.
  - rewrite IH. auto.
Qed.

Lemma owned_other_d_set : forall j k v d, dk_thread k <> j -> owned j (d_set k v d) = owned j d.
Proof.
  intros j k v d Hk. unfold d_set. simpl.
  destruct (Nat.eqb (dk_thread k) j) eqn:E.
  - apply Nat.eqb_eq in E. contradiction.
  - apply owned_other_d_pop; auto.
Qed.

Lemma others_d_pop : forall i k d, dk_thread k = i -> others i (d_pop k d) = others i d.
Proof.
  intros i k d Hk. induction d as [|[k' v] r IH]; simpl; auto.
  destruct (dkey_eqb k k') eqn:E; simpl.
  - apply dkey_eqb_thread in E. rewrite E, Hk, Nat.eqb_refl. simpl. auto.
  - rewrite IH. auto.
Qed.

Lemma others_d_set : forall i k v d, dk_thread k = i -> others i (d_set k v d) = others i d.
Proof.
  intros i k v d Hk. unfold d_set. simpl. rewrite Hk, Nat.eqb_refl. simpl. apply others_d_pop; auto.
Qed.

Lemma d_get_other_d_pop : forall k k' d, dk_thread k' <> dk_thread k -> d_get k' (d_pop k d) = d_get k' d.
Proof.
  intros k k' d Hk. induction d as [|[k2 v] r IH]; simpl; auto.
  destruct (dkey_eqb k k2) eqn:E; simpl.
  - destruct (dkey_eqb k' k2) eqn:E2; auto.
    apply dkey_eqb_thread in E. apply dkey_eqb_thread in E2. congruence.
  - rewrite IH. auto.
Qed.

(* ---------------------------------------------------------------- one access *)
Lemma serve_owned : forall i rq d1 d2, owned i d1 = owned i d2 ->
  snd (serve i rq d1) = snd (serve i rq d2) /\ owned i (fst (serve i rq d1)) = owned i (fst (serve i rq d2)).
Proof.
  intros i rq d1 d2 H. destruct rq; cbn [serve fst snd]; auto.
  - split; auto. rewrite <- (d_get_owned i (args, i, f) d1), <- (d_get_owned i (args, i, f) d2) by reflexivity.
    rewrite H. auto.
  - split; auto. rewrite !owned_d_set by reflexivity. rewrite H. auto.
  - split; auto. rewrite !owned_d_pop. rewrite H. auto.
Qed.

Lemma serve_other : forall i j rq d, i <> j -> owned j (fst (serve i rq d)) = owned j d.
Proof.
  intros i j rq d H. destruct rq; cbn [serve fst snd]; auto.
  - apply owned_other_d_set. simpl. auto.
  - apply owned_other_d_pop. simpl. auto.
Qed.

Lemma serve_others : forall i rq d, others i (fst (serve i rq d)) = others i d.
Proof.
  intros i rq d. destruct rq; cbn [serve fst snd]; auto.
  - apply others_d_set. reflexivity.
  - apply others_d_pop. reflexivity.
Qed.

Lemma serve_get_other : forall i rq d k, dk_thread k <> i -> d_get k (fst (serve i rq d)) = d_get k d.
Proof.
  intros i rq d k H. destruct rq; cbn [serve fst snd]; auto.
  - unfold d_set. cbn [d_get]. destruct (dkey_eqb k (args, i, f)) eqn:E.
    + apply dkey_eqb_thread in E. exfalso. apply H. symmetry. exact E.
    + apply d_get_other_d_pop. intro Q. apply H. exact Q.
  - apply d_get_other_d_pop. intro Q. apply H. exact Q.
Qed.

(* ---------------------------------------------------------------- the machine *)
Section MachineProofs.
  Variable RO : Type.
  Variable local : Type.
  Variable next_request : RO -> local -> request.
  Variable advance : RO -> local -> response -> local.

  Notation G := (@global RO local).
  Notation step := (step next_request advance).
  Notation run := (run next_request advance).
  Notation solo := (solo next_request advance).

  Lemma step_unfold : forall i (g : G),
    step i g = mkG (g_ro g)
                   (upd i (advance (g_ro g) (g_loc g i) (snd (serve i (next_request (g_ro g) (g_loc g i)) (g_dedup g)))) (g_loc g))
                   (fst (serve i (next_request (g_ro g) (g_loc g i)) (g_dedup g))).
  Proof. intros. unfold Threads.step. destruct (serve _ _ _). reflexivity. Qed.

  (* T frame: a step of thread i changes only slot i and dict entries whose key names i *)
  Theorem frame : forall i (g : G),
    g_ro (step i g) = g_ro g /\
    (forall j, j <> i -> g_loc (step i g) j = g_loc g j) /\
    others i (g_dedup (step i g)) = others i (g_dedup g) /\
    (forall j, j <> i -> owned j (g_dedup (step i g)) = owned j (g_dedup g)) /\
    (forall k, dk_thread k <> i -> d_get k (g_dedup (step i g)) = d_get k (g_dedup g)).
  Proof.
    intros i g. rewrite step_unfold. simpl. repeat split.
    - intros j Hj. unfold upd. apply Nat.eqb_neq in Hj. rewrite Hj. auto.
    - apply serve_others.
    - intros j Hj. apply serve_other. auto.
    - intros k Hk. apply serve_get_other. auto.
  Qed.

  (* ... and what thread i does next depends only on slot i, the options and i's own entries *)
  Definition sim (i : tid) (g1 g2 : G) : Prop :=
    g_ro g1 = g_ro g2 /\ g_loc g1 i = g_loc g2 i /\ owned i (g_dedup g1) = owned i (g_dedup g2).

  Lemma sim_refl : forall i g, sim i g g.
  Proof. unfold sim; auto. Qed.

  Lemma sim_step_same : forall i g1 g2, sim i g1 g2 -> sim i (step i g1) (step i g2).
  Proof.
    intros i g1 g2 (Hro & Hl & Hd). rewrite !step_unfold. unfold sim. simpl.
    rewrite Hro, Hl.
    destruct (serve_owned i (next_request (g_ro g2) (g_loc g2 i)) _ _ Hd) as [Hr Ho].
    repeat split; auto.
    unfold upd. rewrite Nat.eqb_refl. rewrite Hr. auto.
  Qed.

  Lemma sim_step_other : forall i j g1 g2, j <> i -> sim i g1 g2 -> sim i (step j g1) g2.
  Proof.
    intros i j g1 g2 Hj (Hro & Hl & Hd).
    destruct (frame j g1) as (F1 & F2 & _ & F4 & _).
    unfold sim. rewrite F1, F2, F4 by auto. auto.
  Qed.

  Lemma run_sim : forall i sch g1 g2, sim i g1 g2 -> sim i (run sch g1) (run (filter (Nat.eqb i) sch) g2).
  Proof.
    intros i sch. induction sch as [|j r IH]; intros g1 g2 H; simpl; auto.
    destruct (Nat.eqb i j) eqn:E.
    - apply Nat.eqb_eq in E. subst j. simpl. apply IH. apply sim_step_same. auto.
    - apply IH. apply sim_step_other; auto. apply Nat.eqb_neq in E. auto.
  Qed.

  Lemma filter_repeat : forall i sch, filter (Nat.eqb i) sch = repeat i (count i sch).
  Proof.
    intros i sch. unfold count. induction sch as [|j r IH]; simpl; auto.
    destruct (Nat.eqb i j) eqn:E; simpl; auto.
    apply Nat.eqb_eq in E. subst j. f_equal. auto.
  Qed.

  (* T solo_equals_interleaved: for EVERY interleaving, thread i ends exactly where it ends when it
     makes the same number of steps alone — its slot and its entries of the shared dict *)
  Theorem solo_equals_interleaved : forall (g : G) sch i,
    g_loc (run sch g) i = g_loc (solo i (count i sch) g) i /\
    owned i (g_dedup (run sch g)) = owned i (g_dedup (solo i (count i sch) g)) /\
    g_ro (run sch g) = g_ro g.
  Proof.
    intros g sch i. unfold Threads.solo. rewrite <- filter_repeat.
    destruct (run_sim i sch g g (sim_refl i g)) as (H1 & H2 & H3).
    repeat split; auto.
    clear. revert g. induction sch as [|j r IH]; intros g; simpl; auto.
    rewrite IH. destruct (frame j g) as (F & _). auto.
  Qed.

  (* the same, from two different starting states that agree on what i can see *)
  Theorem solo_equals_interleaved_sim : forall (g1 g2 : G) sch i, sim i g1 g2 ->
    sim i (run sch g1) (solo i (count i sch) g2).
  Proof. intros. unfold Threads.solo. rewrite <- filter_repeat. apply run_sim. auto. Qed.

  (* two interleavings in which i makes the same number of steps are indistinguishable for i *)
  Corollary interleaving_irrelevant : forall (g : G) s1 s2 i, count i s1 = count i s2 ->
    g_loc (run s1 g) i = g_loc (run s2 g) i.
  Proof.
    intros g s1 s2 i H.
    destruct (solo_equals_interleaved g s1 i) as (A & _). destruct (solo_equals_interleaved g s2 i) as (B & _).
    rewrite A, B, H. auto.
  Qed.

  (* a thread that makes no step is not affected at all *)
  Corollary untouched : forall (g : G) sch i, count i sch = O ->
    g_loc (run sch g) i = g_loc g i /\ owned i (g_dedup (run sch g)) = owned i (g_dedup g).
  Proof.
    intros g sch i H. destruct (solo_equals_interleaved g sch i) as (A & B & _).
    rewrite H in A, B. simpl in A, B. auto.
  Qed.

  (* ---- thread generations: threads that ran (and finished) before thread i made its first step *)
  Lemma count_app : forall i s1 s2, count i (s1 ++ s2) = (count i s1 + count i s2)%nat.
  Proof. intros. unfold count. rewrite filter_app, app_length. auto. Qed.

  (* whatever the threads of earlier generations did — including the entries they left behind in the
     shared dict when they exited — thread i, started afterwards, runs exactly as alone from the start *)
  Theorem later_generation_unaffected : forall (g : G) dead sch i, count i dead = O ->
    g_loc (run (dead ++ sch) g) i = g_loc (solo i (count i sch) g) i /\
    owned i (g_dedup (run (dead ++ sch) g)) = owned i (g_dedup (solo i (count i sch) g)).
  Proof.
    intros g dead sch i H.
    destruct (solo_equals_interleaved g (dead ++ sch) i) as (A & B & _).
    rewrite count_app, H in A, B. simpl in A, B. auto.
  Qed.

  (* ... and the dead threads' entries are still there, untouched by i (the dict keeps them) *)
  Theorem entries_of_dead_threads_stay : forall (g : G) sch j, count j sch = O ->
    owned j (g_dedup (run sch g)) = owned j (g_dedup g).
  Proof. intros g sch j H. destruct (untouched g sch j H) as (_ & B). exact B. Qed.

  (* ---- the thread component of the key: any INJECTIVE function of the thread will do *)
  Section Ident.
    Variable ident : tid -> nat.
    Notation stepb := (step_by next_request advance ident).
    Notation runb := (run_by next_request advance ident).

    Lemma step_by_unfold : forall i (g : G),
      stepb i g = mkG (g_ro g)
                     (upd i (advance (g_ro g) (g_loc g i) (snd (serve (ident i) (next_request (g_ro g) (g_loc g i)) (g_dedup g)))) (g_loc g))
                     (fst (serve (ident i) (next_request (g_ro g) (g_loc g i)) (g_dedup g))).
    Proof. intros. unfold Threads.step_by. destruct (serve _ _ _). reflexivity. Qed.

    Definition simb (i : tid) (g1 g2 : G) : Prop :=
      g_ro g1 = g_ro g2 /\ g_loc g1 i = g_loc g2 i /\ owned (ident i) (g_dedup g1) = owned (ident i) (g_dedup g2).

    Hypothesis ident_injective : forall a b, ident a = ident b -> a = b.

    Lemma simb_step_same : forall i g1 g2, simb i g1 g2 -> simb i (stepb i g1) (stepb i g2).
    Proof.
      intros i g1 g2 (Hro & Hl & Hd). rewrite !step_by_unfold. unfold simb. simpl.
      rewrite Hro, Hl.
      destruct (serve_owned (ident i) (next_request (g_ro g2) (g_loc g2 i)) _ _ Hd) as [Hr Ho].
      repeat split; auto.
      unfold upd. rewrite Nat.eqb_refl. rewrite Hr. auto.
    Qed.

    Lemma simb_step_other : forall i j g1 g2, j <> i -> simb i g1 g2 -> simb i (stepb j g1) g2.
    Proof.
      intros i j g1 g2 Hj (Hro & Hl & Hd). rewrite step_by_unfold. unfold simb. simpl.
      repeat split; auto.
      - unfold upd. apply Nat.eqb_neq in Hj. rewrite Nat.eqb_sym in Hj. rewrite Hj. auto.
      - rewrite serve_other; auto.
    Qed.

    Lemma runb_sim : forall i sch g1 g2, simb i g1 g2 -> simb i (runb sch g1) (runb (filter (Nat.eqb i) sch) g2).
    Proof.
      intros i sch. induction sch as [|j r IH]; intros g1 g2 H; simpl; auto.
      destruct (Nat.eqb i j) eqn:E.
      - apply Nat.eqb_eq in E. subst j. simpl. apply IH. apply simb_step_same. auto.
      - apply IH. apply simb_step_other; auto. apply Nat.eqb_neq in E. auto.
    Qed.

    Theorem solo_equals_interleaved_by_injective_ident : forall (g : G) sch i,
      g_loc (runb sch g) i = g_loc (runb (repeat i (count i sch)) g) i /\
      owned (ident i) (g_dedup (runb sch g)) = owned (ident i) (g_dedup (runb (repeat i (count i sch)) g)).
    Proof.
      intros g sch i. rewrite <- filter_repeat.
      destruct (runb_sim i sch g g) as (_ & H2 & H3); [unfold simb; auto|]. auto.
    Qed.
  End Ident.

  Lemma run_by_id : forall sch (g : G), run_by next_request advance (fun i => i) sch g = run sch g.
  Proof. induction sch as [|j r IH]; intros g; simpl; auto. Qed.
End MachineProofs.

(* ---------------------------------------------------------------- the asynq instance *)
Theorem traces_solo_equals_interleaved : forall perf progs sch i,
  l_trace (g_loc (trun sch (init_global perf progs)) i) =
  l_trace (g_loc (trun (repeat i (count i sch)) (init_global perf progs)) i).
Proof.
  intros. unfold trun.
  destruct (solo_equals_interleaved bool local next_request advance (init_global perf progs) sch i) as (H & _).
  unfold solo in H. rewrite H. auto.
Qed.

(* the whole thread-local state: scheduler slot, debug-batch registry, profiler slot, asyncio flag, ... *)
Theorem local_state_solo_equals_interleaved : forall (g : proc) sch i,
  g_loc (trun sch g) i = g_loc (trun (repeat i (count i sch)) g) i.
Proof.
  intros. unfold trun.
  destruct (solo_equals_interleaved bool local next_request advance g sch i) as (H & _). exact H.
Qed.

(* The thread in the key is what makes this true: the same machine with a dict whose keys do not
   contain the thread (every access made as "thread 0") lets thread 1 change what thread 0 reads. *)
Definition step_nokey {RO local} (nr : RO -> local -> request) (adv : RO -> local -> response -> local)
  (i : tid) (g : @global RO local) : @global RO local :=
  let l := g_loc g i in
  let '(d', rs) := serve O (nr (g_ro g) l) (g_dedup g) in
  mkG (g_ro g) (upd i (adv (g_ro g) l rs) (g_loc g)) d'.

Fixpoint run_nokey {RO local} nr adv (sch : list tid) (g : @global RO local) :=
  match sch with [] => g | i :: r => run_nokey nr adv r (step_nokey nr adv i g) end.

Definition w_next (_ : unit) (l : bool * response) : request :=
  if fst l then RqSet [] 0 7 else RqGet [] 0.
Definition w_adv (_ : unit) (l : bool * response) (r : response) : bool * response := (fst l, r).
Definition w_init : @global unit (bool * response) := mkG tt (fun i => (Nat.eqb i 1, RsNone)) [].

Theorem without_thread_in_key_threads_interfere :
  g_loc (run_nokey w_next w_adv [1%nat; 0%nat] w_init) 0%nat <> g_loc (run_nokey w_next w_adv [0%nat] w_init) 0%nat
  /\ g_loc (run w_next w_adv [1%nat; 0%nat] w_init) 0%nat = g_loc (run w_next w_adv [0%nat] w_init) 0%nat.
Proof. split; [ vm_compute; discriminate | reflexivity ]. Qed.

(* ... and it has to be unique over the whole life of the process, not only among the threads alive at
   the same time: thread 1 registers an entry and exits; thread 2 is started afterwards and the OS gives it
   the ident of thread 1.  With that number in the key thread 2 is handed thread 1's entry; with the
   thread itself in the key it is not. *)
Definition reused_ident (i : tid) : nat := if Nat.eqb i 2 then 1%nat else i.

Theorem reused_ident_in_key_leaks_across_lifetimes :
  g_loc (run_by w_next w_adv reused_ident [1%nat; 2%nat] w_init) 2%nat
    <> g_loc (run_by w_next w_adv reused_ident [2%nat] w_init) 2%nat
  /\ g_loc (run w_next w_adv [1%nat; 2%nat] w_init) 2%nat = g_loc (run w_next w_adv [2%nat] w_init) 2%nat
  /\ (forall a b, (a < 2)%nat -> (b < 2)%nat -> reused_ident a = reused_ident b -> a = b).
Proof.
  split; [ vm_compute; discriminate | split; [ reflexivity | ] ].
  intros a b Ha Hb. unfold reused_ident.
  destruct (Nat.eqb a 2) eqn:Ea; [ apply Nat.eqb_eq in Ea; lia | ].
  destruct (Nat.eqb b 2) eqn:Eb; [ apply Nat.eqb_eq in Eb; lia | ]. auto.
Qed.

(* the asynq instance with thread generations: a thread started after `dead` has run (threads that
   finished, whatever un-awaited deduplicated tasks they left registered) produces the traces it produces
   alone from the initial state *)
Theorem traces_after_dead_threads : forall perf progs dead sch i, count i dead = O ->
  l_trace (g_loc (trun (dead ++ sch) (init_global perf progs)) i) =
  l_trace (g_loc (trun (repeat i (count i sch)) (init_global perf progs)) i).
Proof.
  intros. unfold trun.
  destruct (later_generation_unaffected bool local next_request advance (init_global perf progs) dead sch i H) as (A & _).
  unfold solo in A. rewrite A. auto.
Qed.

(* the generation-wise schedules the correspondence uses are schedules *)
Theorem generation_traces : forall perf progs sizes schs i,
  l_trace (g_loc (trun (gen_schedule progs 0 sizes schs) (init_global perf progs)) i) =
  l_trace (g_loc (trun (repeat i (count i (gen_schedule progs 0 sizes schs))) (init_global perf progs)) i).
Proof. intros. apply traces_solo_equals_interleaved. Qed.

(* hypotheses are satisfiable / the instance computes: two threads calling the same deduplicated
   function with the same arguments, any of these interleavings, same traces as alone *)
Example two_threads_same_dedup_call :
  let p := [ORun (Node 0 CNone [DLeaf 0 0; DLeaf 0 0]); OProf] in
  let g := init_global true [p; p] in
  l_trace (g_loc (trun [0;1;0;1;1;0;0;1;0;1;0;1;0;1;0;1;1;1;0;0]%nat g) 0%nat)
  = l_trace (g_loc (trun (repeat 0%nat 10) g) 0%nat)
  /\ length (l_trace (g_loc (trun (repeat 0%nat 10) g) 0%nat)) = 3%nat.
Proof. vm_compute. split; reflexivity. Qed.

(* generations: thread 0 leaves two un-awaited deduplicated calls behind (one made inside a task, one at
   top level) and exits; thread 1, started afterwards, makes the same calls and computes its own *)
Example abandoned_calls_then_a_new_thread :
  let p0 := [ORun (Node 0 CNone [Spec 1 3; Leaf 1 CNone 0 2]); OSpec 0 0] in
  let p1 := [ORun (Node 0 CNone [DLeaf 1 3; DLeaf 0 0]); OProf] in
  let g := init_global true [p0; p1] in
  let sch := gen_schedule [p0; p1] 0 [1; 1]%nat [[]; []] in
  l_trace (g_loc (trun sch g) 1%nat) = l_trace (g_loc (trun (repeat 1%nat (count 1%nat sch)) g) 1%nat)
  /\ length (g_dedup (trun sch g)) = 2%nat                  (* thread 0's entries are still registered *)
  /\ length (l_trace (g_loc (trun sch g) 1%nat)) = 3%nat.
Proof. vm_compute. repeat split; reflexivity. Qed.
