(* Proofs about BatchFut.v: a batch and its items as futures (C10). *)
From Asynq Require Import Base Futures BatchFut proofs.FuturesProofs.

(* the callback records produced by notifying the subscribers [l] of future [t] with outcome [oc] *)
Definition tnotes (t : Z) (l : list sub) (oc : outcome) : list blogrec :=
  map (fun sb => (t, fst sb, oc)) l.

Definition icomputed (it : item) : bool := match iout it with Some _ => true | None => false end.

(* ---- one item ---- *)

(* completing an item: outcome stored, each of ITS subscribers called once with that outcome, its
   subscription list is what they left behind *)
Lemma icomplete_spec t it o :
  iout (fst (icomplete t it o)) = Some o /\
  snd (icomplete t it o) = tnotes t (isubs it) o /\
  isubs (fst (icomplete t it o)) = after_notify (isubs it).
Proof. cbn. unfold tnotes. rewrite notify_snapshot, map_map. auto. Qed.

(* single assignment for an item: a set on a computed item raises FutureIsAlreadyComputed, changes
   nothing and calls nobody *)
Lemma iset_computed t it oc o : iout it = Some oc -> iset t it o = (it, [], RRaise E_ALREADY).
Proof. intros H. unfold iset. now rewrite H. Qed.

Lemma iset_uncomputed t it o : iout it = None ->
  iset t it o = (fst (icomplete t it o), tnotes t (isubs it) o, RUnit).
Proof.
  intros H. unfold iset. rewrite H. cbn. unfold tnotes. now rewrite notify_snapshot, map_map.
Qed.

(* the records of what the body does to one item: notified exactly when it was uncomputed and the body
   sets it, with the FIRST outcome the body sets; later sets of the same item raise and end the body *)
Definition body_notes (t : Z) (it : item) (os : list outcome) : list blogrec :=
  match iout it, os with
  | None, o :: _ => tnotes t (isubs it) o
  | _, _ => []
  end.

Definition body_out (it : item) (os : list outcome) : option outcome :=
  match iout it, os with
  | None, o :: _ => Some o
  | x, _ => x
  end.

Lemma iset_all_spec t os : forall it,
  let '(it', lg, rs, f) := iset_all t it os in
  lg = body_notes t it os /\ iout it' = body_out it os /\
  (f = None -> length os <= 1 /\ (iout it = None \/ os = []))%nat.
Proof.
  destruct os as [|o os]; intros it; cbn.
  - unfold body_notes, body_out. destruct (iout it); repeat split; auto with arith.
  - unfold body_notes, body_out. destruct (iout it) as [oc|] eqn:E.
    + rewrite (iset_computed t it oc o E). repeat split; auto; discriminate.
    + rewrite (iset_uncomputed t it o E).
      destruct os as [|o2 os]; cbn.
      * rewrite app_nil_r. repeat split; auto.
      * rewrite app_nil_r. repeat split; auto; discriminate.
Qed.

(* ---- BatchBase._computed's item loop ---- *)

Fixpoint fill_notes (t : Z) (l : list item) (e : exn) : list blogrec :=
  match l with
  | [] => []
  | it :: r => (if icomputed it then [] else tnotes t (isubs it) (Err e)) ++ fill_notes (t + 1) r e
  end.

(* the loop completes exactly the items that are not computed - each of their subscribers is called
   once with that error -, leaves computed items as they are, and afterwards every item is computed *)
Lemma fill_spec e l : forall t,
  snd (fill t l e) = fill_notes t l e /\
  forallb icomputed (fst (fill t l e)) = true /\
  map iout (fst (fill t l e)) = map (fun it => match iout it with Some o => Some o | None => Some (Err e) end) l.
Proof.
  induction l as [|it r IH]; intros t; cbn; auto.
  destruct (IH (t + 1)) as (I1 & I2 & I3). destruct (fill (t + 1) r e) as [r' lg]. cbn in *.
  unfold icomputed at 1. destruct (iout it) eqn:E; cbn.
  - unfold icomputed at 1. rewrite E. cbn. subst. repeat split; auto. now rewrite I3.
  - unfold tnotes. rewrite notify_snapshot, map_map. subst. repeat split; auto. now rewrite I3.
Qed.

(* ---- completion of the batch ---- *)

(* set_value / set_error on an uncomputed batch: the outcome is stored; the callback log grows by the
   records of the item loop and then - LAST - by exactly one record per subscriber of the batch, each
   with the batch's outcome; afterwards every item is computed *)
Lemma bcomplete_spec s o :
  let s' := bcomplete s o in
  bout s' = Some o /\
  blog s' = blog s ++ fill_notes 1 (bitems s) (fill_error o) ++ tnotes 0 (bsubs s) o /\
  bsubs s' = after_notify (bsubs s) /\
  forallb icomputed (bitems s') = true /\ bruns s' = bruns s /\ binner s' = binner s.
Proof.
  unfold bcomplete. destruct (fill_spec (fill_error o) (bitems s) 1) as (F1 & F2 & _).
  destruct (fill 1 (bitems s) (fill_error o)) as [its lg]. cbn in *. subst.
  unfold tnotes. rewrite notify_snapshot, map_map. repeat split; auto.
Qed.

Lemma bcompute_spec s :
  let s' := bcompute s in
  (exists o, bout s' = Some o) /\ forallb icomputed (bitems s') = true /\ bruns s' = S (bruns s) /\
  exists mid o, blog s' = blog s ++ mid ++ tnotes 0 (bsubs s) o /\ bout s' = Some o /\
                bsubs s' = after_notify (bsubs s).
Proof.
  unfold bcompute. destruct (flush_body 1 (bitems s)) as [[[its lg] rs] f].
  match goal with |- context [bcomplete ?a ?b] =>
    generalize b; intros o; destruct (bcomplete_spec a o) as (C1 & C2 & C3 & C4 & C5 & _) end.
  cbn in *. repeat split; eauto.
  exists (lg ++ fill_notes 1 its (fill_error o)), o.
  rewrite C2, <- !app_assoc. auto.
Qed.

(* ---- operations ---- *)

(* single assignment for the batch *)
Lemma batch_single_assignment s oc : bout s = Some oc ->
  (forall v, bstep s (BOn 0 (OSetValue v)) = (s, RRaise E_ALREADY)) /\
  (forall e, bstep s (BOn 0 (OSetError e)) = (s, RRaise E_ALREADY)) /\
  bstep s BFlush = (s, RRaise E_BATCHING) /\ bstep s BCancel = (s, RUnit).
Proof. intros H. repeat split; intros; cbn; now rewrite H. Qed.

Definition breport (o : op) (oc : outcome) : res :=
  match o with
  | OValue | OCall => report_value oc
  | OError => report_error oc
  | OIsComputed => RBool true
  | _ => RUnit
  end.

(* a computed batch: no operation changes its outcome, any item, the log or the flush count; reads of
   the batch report its outcome *)
Lemma bstep_computed s oc o : bout s = Some oc ->
  let '(s', r) := bstep s o in
  bout s' = Some oc /\ bitems s' = bitems s /\ blog s' = blog s /\ bruns s' = bruns s /\
  (forall x, o = BOn 0 x -> is_read x = true -> r = breport x oc).
Proof.
  intros H. destruct o as [[|i] x| |]; cbn.
  - destruct x; cbn; unfold bread; rewrite ?H; cbn; repeat split; auto;
      intros y E; inversion E; subst; cbn; auto; discriminate.
  - destruct x; cbn; unfold iread; try destruct (item_out s i); rewrite ?H; cbn; repeat split; auto;
      intros y E; inversion E.
  - rewrite H. repeat split; auto. intros y E; inversion E.
  - rewrite H. repeat split; auto. intros y E; inversion E.
Qed.

(* invariant: once the batch is computed every item is *)
Definition all_items_computed (s : bstate) : Prop :=
  bout s <> None -> forallb icomputed (bitems s) = true.

Lemma binit_inv its fin : all_items_computed (binit its fin).
Proof. intros H. now contradiction H. Qed.

(* T4 for the batch as a future: an operation that leaves the batch uncomputed calls nobody at all
   (items are only ever completed inside the batch's completion); the operation that completes it
   appends records of item subscribers and then exactly one record per subscriber of the batch
   registered when the operation began, carrying the batch's outcome; the flush body ran at most
   once; afterwards all items are computed *)
Lemma bstep_uncomputed s o : bout s = None ->
  let s' := fst (bstep s o) in
  (bout s' = None /\ blog s' = blog s /\ bitems s' = bitems s /\ bruns s' = bruns s) \/
  (exists mid oc, bout s' = Some oc /\ blog s' = blog s ++ mid ++ tnotes 0 (bsubs s) oc /\
                  bsubs s' = after_notify (bsubs s) /\
                  forallb icomputed (bitems s') = true /\ (bruns s' <= S (bruns s))%nat).
Proof.
  intros H.
  assert (CP : forall s', s' = bcompute s -> exists mid oc, bout s' = Some oc /\
             blog s' = blog s ++ mid ++ tnotes 0 (bsubs s) oc /\ bsubs s' = after_notify (bsubs s) /\
             forallb icomputed (bitems s') = true /\ (bruns s' <= S (bruns s))%nat).
  { intros s' ->. destruct (bcompute_spec s) as (_ & A & R & mid & oc & L & O & S').
    exists mid, oc. rewrite R. auto. }
  assert (CC : forall o, exists mid oc, bout (bcomplete s o) = Some oc /\
             blog (bcomplete s o) = blog s ++ mid ++ tnotes 0 (bsubs s) oc /\
             bsubs (bcomplete s o) = after_notify (bsubs s) /\
             forallb icomputed (bitems (bcomplete s o)) = true /\ (bruns (bcomplete s o) <= S (bruns s))%nat).
  { intros oc. destruct (bcomplete_spec s oc) as (C1 & C2 & C3 & C4 & C5 & _).
    eexists _, oc. rewrite C5. repeat split; eauto. }
  destruct o as [[|i] x| |]; cbn.
  - destruct x; cbn; unfold bread; rewrite ?H; cbn; auto; right; auto.
  - destruct x; cbn; unfold iread; try destruct (item_out s i); rewrite ?H; cbn; auto; right; auto.
  - rewrite H. right. cbn. auto.
  - rewrite H. right. cbn. auto.
Qed.

Lemma bstep_inv s o : all_items_computed s -> all_items_computed (fst (bstep s o)).
Proof.
  intros I. destruct (bout s) as [oc|] eqn:H.
  - pose proof (bstep_computed s oc o H) as C. destruct (bstep s o) as [s' r]. cbn.
    destruct C as (_ & C2 & _). intros _. rewrite C2. apply I. congruence.
  - destruct (bstep_uncomputed s o H) as [(N & _) | (mid & oc & _ & _ & _ & A & _)].
    + intros X. now contradiction X.
    + intros _. exact A.
Qed.

(* reads of a computed item report its outcome and change nothing *)
Lemma item_read_reports s i oc : item_out s i = Some oc ->
  bstep s (BOn (S i) OValue) = (s, report_value oc) /\ bstep s (BOn (S i) OCall) = (s, report_value oc) /\
  bstep s (BOn (S i) OError) = (s, report_error oc) /\ bstep s (BOn (S i) OIsComputed) = (s, RBool true).
Proof. intros H. cbn. unfold iread. rewrite H. auto. Qed.

(* ---- the CLASS of the Exception a subscriber raises does not matter ---- *)
Definition recls_item (f : xcls -> xcls) (it : item) : item :=
  imk (iout it) (map (recls_sub f) (isubs it)) (iact it).
Definition recls_bstate (f : xcls -> xcls) (s : bstate) : bstate :=
  bmk (map (recls_item f) (bitems s)) (bfin s) (bout s) (bruns s) (map (recls_sub f) (bsubs s)) (blog s) (binner s).
Definition recls_bop (f : xcls -> xcls) (o : bop) : bop :=
  match o with BOn t x => BOn t (recls_op f x) | _ => o end.
Definition recls_ispec (f : xcls -> xcls) (sp : ispec) : ispec := (map (recls_sub f) (fst sp), snd sp).

Lemma icomplete_recls f t it o :
  icomplete t (recls_item f it) o = (recls_item f (fst (icomplete t it o)), snd (icomplete t it o)).
Proof. unfold icomplete, recls_item. cbn. rewrite notify_recls. reflexivity. Qed.

Lemma iset_recls f t it o :
  iset t (recls_item f it) o =
  (recls_item f (fst (fst (iset t it o))), snd (fst (iset t it o)), snd (iset t it o)).
Proof.
  unfold iset. change (iout (recls_item f it)) with (iout it). destruct (iout it); auto.
  rewrite icomplete_recls. reflexivity.
Qed.

Lemma iset_all_recls f t os : forall it,
  iset_all t (recls_item f it) os =
  (let '(it', lg, rs, x) := iset_all t it os in (recls_item f it', lg, rs, x)).
Proof.
  induction os as [|o os IH]; intros it; cbn [iset_all]; auto.
  rewrite iset_recls. destruct (iset t it o) as [[it1 l1] r1]. cbn [fst snd].
  destruct r1; auto; rewrite IH; destruct (iset_all t it1 os) as [[[it2 l2] rs] x]; reflexivity.
Qed.

Lemma flush_body_recls f l : forall t,
  flush_body t (map (recls_item f) l) =
  (let '(l', lg, rs, x) := flush_body t l in (map (recls_item f) l', lg, rs, x)).
Proof.
  induction l as [|it r IH]; intros t; cbn [flush_body map]; auto.
  change (iact (recls_item f it)) with (iact it). rewrite iset_all_recls.
  destruct (iset_all t it (iact it)) as [[[it1 l1] rs1] f1]. destruct f1; auto.
  rewrite IH. destruct (flush_body (t + 1) r) as [[[r' l2] rs2] f2]. reflexivity.
Qed.

Lemma fill_recls f e l : forall t,
  fill t (map (recls_item f) l) e = (map (recls_item f) (fst (fill t l e)), snd (fill t l e)).
Proof.
  induction l as [|it r IH]; intros t; cbn [fill map]; auto.
  rewrite IH. destruct (fill (t + 1) r e) as [r' lg]. cbn [fst snd].
  change (iout (recls_item f it)) with (iout it). destruct (iout it); auto.
  rewrite icomplete_recls. reflexivity.
Qed.

Lemma bcomplete_recls f s o : bcomplete (recls_bstate f s) o = recls_bstate f (bcomplete s o).
Proof.
  unfold bcomplete. cbn [bitems recls_bstate]. rewrite fill_recls.
  destruct (fill 1 (bitems s) (fill_error o)) as [its lg]. cbn [fst snd].
  unfold recls_bstate. cbn. rewrite notify_recls. reflexivity.
Qed.

Lemma bcompute_recls f s : bcompute (recls_bstate f s) = recls_bstate f (bcompute s).
Proof.
  unfold bcompute. cbn [bitems recls_bstate]. rewrite flush_body_recls.
  destruct (flush_body 1 (bitems s)) as [[[its lg] rs] x].
  match goal with |- bcomplete ?a ?o = recls_bstate f (bcomplete ?b ?o') =>
    change a with (recls_bstate f b); change o with o' end.
  apply bcomplete_recls.
Qed.

Lemma item_out_recls f s i : item_out (recls_bstate f s) i = item_out s i.
Proof.
  unfold item_out. cbn. rewrite nth_error_map. destruct (nth_error (bitems s) i); reflexivity.
Qed.

Lemma bstep_recls f s o :
  bstep (recls_bstate f s) (recls_bop f o) = (recls_bstate f (fst (bstep s o)), snd (bstep s o)).
Proof.
  destruct o as [[|i] x| |]; cbn [recls_bop].
  - destruct x; cbn [bstep recls_op]; unfold bread; change (bout (recls_bstate f s)) with (bout s);
      try (destruct (bout s); rewrite ?bcompute_recls, ?bcomplete_recls; reflexivity).
    unfold recls_bstate. cbn. rewrite map_app. reflexivity.
  - destruct x; cbn [bstep recls_op]; unfold iread; rewrite ?item_out_recls;
      change (bout (recls_bstate f s)) with (bout s);
      try reflexivity;
      destruct (item_out s i); try reflexivity; destruct (bout s); try reflexivity;
      rewrite bcompute_recls, item_out_recls; reflexivity.
  - cbn. change (bout (recls_bstate f s)) with (bout s). destruct (bout s); auto.
    now rewrite bcompute_recls.
  - cbn. change (bout (recls_bstate f s)) with (bout s). destruct (bout s); auto.
    now rewrite bcomplete_recls.
Qed.

Lemma brun_recls f ops : forall s,
  brun (recls_bstate f s) (map (recls_bop f) ops) = (recls_bstate f (fst (brun s ops)), snd (brun s ops)).
Proof.
  induction ops as [|o ops IH]; intros s; cbn [brun map]; auto.
  rewrite bstep_recls. destruct (bstep s o) as [s1 r]. cbn [fst snd]. rewrite IH.
  destruct (brun s1 ops) as [s2 rs]. reflexivity.
Qed.

Lemma batch_raise_class_irrelevant f its fin ops :
  run_batch (map (recls_ispec f) its) fin (map (recls_bop f) ops) = run_batch its fin ops.
Proof.
  unfold run_batch.
  assert (E : binit (map (recls_ispec f) its) fin = recls_bstate f (binit its fin)).
  { unfold binit, recls_bstate. cbn. rewrite !map_map. reflexivity. }
  rewrite E, brun_recls. destruct (brun (binit its fin) ops) as [s rs]. cbn.
  rewrite !map_map. cbn. f_equal. apply map_ext. intros it. cbn. now rewrite map_map.
Qed.

(* non-vacuity: item 1's subscriber asserts while the body sets it, item 2 is set afterwards, item 3
   is forgotten and completed by the loop; the batch's subscriber is notified last *)
Example batch_nonvacuous :
  run_batch [([(1, CbRaise XAssertion)], [Ok (VInt 5)]); ([(2, CbOk)], [Ok (VInt 6)]); ([(3, CbRaise XKey)], [])]
            (PRet VNone) [BOn 0 (OSubscribe 9 CbOk); BOn 2 OValue; BOn 3 OError; BOn 0 OError; BFlush]
  = ([RUnit; RVal (VInt 6); RErr E_NOTSET; RNoError; RRaise E_BATCHING], [RUnit; RUnit],
     [(1, 1, Ok (VInt 5)); (2, 2, Ok (VInt 6)); (3, 3, Err E_NOTSET); (0, 9, Ok VNone)], 1, [9],
     [(Some (Ok (VInt 5)), [1]); (Some (Ok (VInt 6)), [2]); (Some (Err E_NOTSET), [3])]).
Proof. reflexivity. Qed.

(* ---- the CLASS of the Exception the flush body raises does not matter ---- *)
Definition bpstate (f : xcls -> xcls) (s : bstate) : bstate :=
  bmk (bitems s) (recls_pout f (bfin s)) (bout s) (bruns s) (bsubs s) (blog s) (binner s).

Lemma bcomplete_bpstate f s o : bcomplete (bpstate f s) o = bpstate f (bcomplete s o).
Proof.
  unfold bcomplete. cbn [bitems bpstate]. destruct (fill 1 (bitems s) (fill_error o)). reflexivity.
Qed.

Lemma bcompute_bpstate f s : bcompute (bpstate f s) = bpstate f (bcompute s).
Proof.
  unfold bcompute. cbn [bitems bpstate bfin]. destruct (flush_body 1 (bitems s)) as [[[its lg] rs] x].
  match goal with |- bcomplete ?a ?o = bpstate f (bcomplete ?b ?o') =>
    change a with (bpstate f b); replace o with o' by (destruct x; auto; destruct (bfin s); reflexivity) end.
  apply bcomplete_bpstate.
Qed.

Lemma bstep_bpstate f s o : bstep (bpstate f s) o = (bpstate f (fst (bstep s o)), snd (bstep s o)).
Proof.
  destruct o as [[|i] x| |].
  - destruct x; cbn [bstep]; unfold bread; change (bout (bpstate f s)) with (bout s);
      try (destruct (bout s); rewrite ?bcompute_bpstate, ?bcomplete_bpstate; reflexivity).
  - destruct x; cbn [bstep]; unfold iread;
      change (item_out (bpstate f s) i) with (item_out s i); change (bout (bpstate f s)) with (bout s);
      try reflexivity;
      destruct (item_out s i); try reflexivity; destruct (bout s); try reflexivity;
      rewrite bcompute_bpstate; reflexivity.
  - cbn. change (bout (bpstate f s)) with (bout s). destruct (bout s); auto. now rewrite bcompute_bpstate.
  - cbn. change (bout (bpstate f s)) with (bout s). destruct (bout s); auto. now rewrite bcomplete_bpstate.
Qed.

Lemma brun_bpstate f ops : forall s,
  brun (bpstate f s) ops = (bpstate f (fst (brun s ops)), snd (brun s ops)).
Proof.
  induction ops as [|o ops IH]; intros s; cbn [brun]; auto.
  rewrite bstep_bpstate. destruct (bstep s o) as [s1 r]. cbn [fst snd]. rewrite IH.
  destruct (brun s1 ops) as [s2 rs]. reflexivity.
Qed.

Lemma batch_provider_class_irrelevant f its fin ops :
  run_batch its (recls_pout f fin) ops = run_batch its fin ops.
Proof.
  unfold run_batch. change (binit its (recls_pout f fin)) with (bpstate f (binit its fin)).
  rewrite brun_bpstate. destruct (brun (binit its fin) ops) as [s rs]. reflexivity.
Qed.
