(* Proofs about BatchFut.v: a batch and its items as futures, with callbacks that complete OTHER
   futures of the case from inside a notification (C10). *)
From Asynq Require Import Base Futures BatchFut proofs.FuturesProofs.

(* the callback records of future [t] *)
Definition plog (t : nat) (l : list blogrec) : list blogrec :=
  filter (fun r => Z.eqb (fst (fst r)) (Z.of_nat t)) l.

(* the records produced by notifying the subscribers [l] of future [t] with outcome [oc] *)
Definition tnotes (t : nat) (l : list sub) (oc : outcome) : list blogrec :=
  map (fun sb => (Z.of_nat t, fst sb, oc)) l.

Definition allcomp (s : bstate) : Prop :=
  forall i, (i < length (bitems s))%nat -> item_out s i <> None.

(* once the batch is computed every item is *)
Definition all_items_computed (s : bstate) : Prop := bout s = None \/ allcomp s.

(* ---- what an observer of ONE future [u] can tell between two states ---- *)
Definition same_fut (s s' : bstate) (u : nat) : Prop :=
  fout s' u = fout s u /\ plog u (blog s') = plog u (blog s) /\ fsubs s' u = fsubs s u.

(* C10 for future [u] between [s] and [s']: a computed future keeps its outcome, is not notified
   again and keeps its subscription list; an uncomputed one is either untouched, or was completed
   ONCE: it holds an outcome [oc] and exactly the subscribers it had in [s] were called, each once,
   in order, each seeing [oc] *)
Definition ext_at (s s' : bstate) (u : nat) : Prop :=
  match fout s u with
  | Some _ => same_fut s s' u
  | None => same_fut s s' u \/
            exists oc, fout s' u = Some oc /\ plog u (blog s') = plog u (blog s) ++ tnotes u (fsubs s u) oc
  end.

Definition frame (s s' : bstate) : Prop :=
  length (bitems s') = length (bitems s) /\ bruns s' = bruns s.

Definition ext (s s' : bstate) : Prop := frame s s' /\ forall u, ext_at s s' u.

(* the same while future [t] (computed) is being notified: its own log and list are its business *)
Definition ext_but (t : nat) (s s' : bstate) : Prop :=
  frame s s' /\ fout s' t = fout s t /\ forall u, u <> t -> ext_at s s' u.

Lemma frame_refl s : frame s s.
Proof. split; reflexivity. Qed.
Lemma frame_trans a b c : frame a b -> frame b c -> frame a c.
Proof. intros (A & B) (C & D). split; congruence. Qed.
#[global] Hint Resolve frame_refl : core.

Lemma same_fut_refl s u : same_fut s s u.
Proof. repeat split. Qed.

Lemma same_fut_trans a b c u : same_fut a b u -> same_fut b c u -> same_fut a c u.
Proof. intros (A1 & A2 & A3) (B1 & B2 & B3). repeat split; congruence. Qed.

Lemma ext_at_refl s u : ext_at s s u.
Proof. unfold ext_at. destruct (fout s u); [|left]; apply same_fut_refl. Qed.

Lemma ext_at_trans a b c u : ext_at a b u -> ext_at b c u -> ext_at a c u.
Proof.
  unfold ext_at. intros H1 H2. destruct (fout a u) eqn:Ea.
  - destruct H1 as (A1 & A2 & A3). rewrite A1, Ea in H2. eapply same_fut_trans; [|exact H2].
    repeat split; auto; congruence.
  - destruct H1 as [(A1 & A2 & A3) | (oc & A1 & A2)].
    + rewrite A1, Ea in H2. destruct H2 as [S2 | (oc & B1 & B2)].
      * left. eapply same_fut_trans; [|exact S2]. repeat split; auto; congruence.
      * right. exists oc. split; auto. rewrite B2, A2, A3. reflexivity.
    + rewrite A1 in H2. destruct H2 as (B1 & B2 & B3). right. exists oc. split; [congruence|].
      rewrite B2, A2. reflexivity.
Qed.

Lemma ext_refl s : ext s s.
Proof. split; auto. intros u. apply ext_at_refl. Qed.

Lemma ext_len s s' : ext s s' -> length (bitems s') = length (bitems s).
Proof. intros ((L & _) & _). exact L. Qed.

Lemma ext_trans a b c : ext a b -> ext b c -> ext a c.
Proof.
  intros (L1 & H1) (L2 & H2). split; [eapply frame_trans; eauto|]. intros u. eapply ext_at_trans; eauto.
Qed.

Lemma ext_but_refl t s : ext_but t s s.
Proof. split; auto. split; auto. intros u _. apply ext_at_refl. Qed.

Lemma ext_but_trans t a b c : ext_but t a b -> ext_but t b c -> ext_but t a c.
Proof.
  intros (L1 & F1 & H1) (L2 & F2 & H2). split; [eapply frame_trans; eauto|]. split; [congruence|].
  intros u N. eapply ext_at_trans; eauto.
Qed.

Lemma ext_ext_but t s s' oc : fout s t = Some oc -> ext s s' -> ext_but t s s'.
Proof.
  intros F (L & H). split; auto. split; auto.
  specialize (H t). unfold ext_at in H. rewrite F in H. destruct H as (H & _). exact H.
Qed.

Lemma ext_computed s s' u oc : ext s s' -> fout s u = Some oc -> fout s' u = Some oc.
Proof. intros (_ & H) F. specialize (H u). unfold ext_at in H. rewrite F in H. destruct H as (H & _). congruence. Qed.

Lemma ext_allcomp s s' : ext s s' -> allcomp s -> allcomp s'.
Proof.
  intros E A i Hi. pose proof (ext_len _ _ E) as L. destruct E as (_ & H). rewrite L in Hi. specialize (A i Hi).
  destruct (item_out s i) as [oc|] eqn:F; [|congruence].
  assert (X : fout s' (S i) = Some oc).
  { specialize (H (S i)). unfold ext_at in H. cbn [fout] in H. rewrite F in H. destruct H as (H & _). cbn in *. congruence. }
  cbn in X. congruence.
Qed.

(* ---- lists, logs ---- *)
Lemma plog_app t a b : plog t (a ++ b) = plog t a ++ plog t b.
Proof. apply filter_app. Qed.

Lemma plog_one_same t id o : plog t [(Z.of_nat t, id, o)] = [(Z.of_nat t, id, o)].
Proof. unfold plog. cbn. now rewrite Z.eqb_refl. Qed.

Lemma plog_one_other t u id o : u <> t -> plog u [(Z.of_nat t, id, o)] = [].
Proof.
  intros N. unfold plog. cbn. destruct (Z.eqb (Z.of_nat t) (Z.of_nat u)) eqn:E; auto.
  apply Z.eqb_eq, Nat2Z.inj in E. congruence.
Qed.

Lemma nth_upd_same i f : forall l x, nth_error l i = Some x -> nth_error (upd_nth i f l) i = Some (f x).
Proof. induction i; intros [|y r] x H; cbn in *; try discriminate; [now inversion H|auto]. Qed.

Lemma nth_upd_none i f : forall l, nth_error l i = None -> upd_nth i f l = l.
Proof. induction i; intros [|y r] H; cbn in *; try discriminate; auto. now rewrite IHi. Qed.

Lemma nth_upd_other i j f : i <> j -> forall l, nth_error (upd_nth i f l) j = nth_error l j.
Proof.
  revert j. induction i; intros [|j] N [|y r]; cbn; auto; try congruence; try (apply IHi; congruence).
Qed.

Lemma length_upd i f : forall l, length (upd_nth i f l) = length l.
Proof. induction i; intros [|y r]; cbn; auto. Qed.

Lemma nth_error_lt {A} (l : list A) i : (i < length l)%nat -> exists x, nth_error l i = Some x.
Proof. intros H. destruct (nth_error l i) eqn:E; eauto. apply nth_error_None in E. lia. Qed.

(* ---- the primitive state changes, seen from each future ---- *)
Lemma add_log_same s t u id o : u <> t -> same_fut s (add_log s (Z.of_nat t, id, o)) u.
Proof.
  intros N. repeat split; try (destruct u; reflexivity).
  unfold add_log; cbn [blog]. rewrite plog_app, plog_one_other, app_nil_r; auto.
Qed.

Lemma add_log_self s t id o :
  fout (add_log s (Z.of_nat t, id, o)) t = fout s t /\
  plog t (blog (add_log s (Z.of_nat t, id, o))) = plog t (blog s) ++ [(Z.of_nat t, id, o)] /\
  fsubs (add_log s (Z.of_nat t, id, o)) t = fsubs s t /\
  length (bitems (add_log s (Z.of_nat t, id, o))) = length (bitems s).
Proof. repeat split; try (destruct t; reflexivity). unfold add_log; cbn [blog]. now rewrite plog_app, plog_one_same. Qed.

Lemma set_fsubs_other s t l u : u <> t -> same_fut s (set_fsubs s t l) u.
Proof.
  intros N. destruct t as [|i]; [destruct u as [|j]; [congruence|]; repeat split|].
  destruct u as [|j]; [repeat split|].
  assert (i <> j) by congruence.
  repeat split; cbn; unfold item_out; cbn; now rewrite nth_upd_other.
Qed.

Lemma set_fsubs_self s t l :
  fout (set_fsubs s t l) t = fout s t /\ blog (set_fsubs s t l) = blog s /\
  length (bitems (set_fsubs s t l)) = length (bitems s).
Proof.
  destruct t as [|i]; [repeat split|]. repeat split; [|apply length_upd].
  cbn. unfold item_out. cbn. destruct (nth_error (bitems s) i) eqn:E.
  - now rewrite (nth_upd_same _ _ _ _ E).
  - now rewrite nth_upd_none, E.
Qed.

Lemma store_other s t o u : u <> t -> same_fut s (store s t o) u.
Proof.
  intros N. destruct t as [|i]; [destruct u as [|j]; [congruence|]; repeat split|].
  destruct u as [|j]; [repeat split|].
  assert (i <> j) by congruence.
  repeat split; cbn; unfold item_out; cbn; now rewrite nth_upd_other.
Qed.

Lemma store_self s t o : fexists s t = true ->
  fout (store s t o) t = Some o /\ blog (store s t o) = blog s /\ fsubs (store s t o) t = fsubs s t /\
  length (bitems (store s t o)) = length (bitems s).
Proof.
  intros X. destruct t as [|i]; [repeat split|]. cbn in X. apply Nat.ltb_lt in X.
  destruct (nth_error_lt _ _ X) as (it & E).
  repeat split; [| |apply length_upd]; cbn; unfold item_out; cbn; rewrite ?(nth_upd_same _ _ _ _ E), ?E; reflexivity.
Qed.

Lemma store_frame s t o : frame s (store s t o).
Proof. destruct t; split; cbn; auto. apply length_upd. Qed.

Lemma push_binner_same s r u : same_fut s (push_binner s r) u.
Proof. repeat split; destruct u; reflexivity. Qed.

Lemma same_ext_at s s' u : same_fut s s' u -> ext_at s s' u.
Proof. intros H. unfold ext_at. destruct (fout s u); auto. Qed.

(* ---- one level, for a callback-set [rec] that respects C10 ---- *)
Definition wb (rec : bstate -> nat -> outcome -> bstate * res) : Prop :=
  forall s t o, ext s (fst (rec s t o)) /\ (all_items_computed s -> all_items_computed (fst (rec s t o))).

Lemma wb_no_rec : wb no_rec.
Proof. intros s t o. split; [apply ext_refl|auto]. Qed.

Lemma inv_by_same s s' :
  bout s' = bout s -> length (bitems s') = length (bitems s) -> (forall i, item_out s' i = item_out s i) ->
  all_items_computed s -> all_items_computed s'.
Proof.
  intros B L I [H|H]; [left; congruence|right]. intros i Hi. rewrite I. apply H. congruence.
Qed.

Lemma set_fsubs_frame s t l : frame s (set_fsubs s t l).
Proof. destruct t; split; cbn; auto. apply length_upd. Qed.

Lemma set_fsubs_step s t l :
  ext_but t s (set_fsubs s t l) /\ plog t (blog (set_fsubs s t l)) = plog t (blog s) /\
  (all_items_computed s -> all_items_computed (set_fsubs s t l)).
Proof.
  destruct (set_fsubs_self s t l) as (A1 & A2 & A3). split; [|split].
  - split; [apply set_fsubs_frame|]. split; auto. intros u N. apply same_ext_at, set_fsubs_other; auto.
  - congruence.
  - apply inv_by_same; auto. { destruct t; reflexivity. }
    intros i. destruct (Nat.eq_dec (S i) t) as [<-|N]; [exact A1|].
    destruct (set_fsubs_other s t l (S i) N) as (X & _). exact X.
Qed.

Lemma add_log_step s t id o :
  ext_but t s (add_log s (Z.of_nat t, id, o)) /\
  (all_items_computed s -> all_items_computed (add_log s (Z.of_nat t, id, o))).
Proof.
  destruct (add_log_self s t id o) as (A1 & A2 & A3 & A4). split.
  - split; [split; auto|]. split; auto. intros u N. apply same_ext_at, add_log_same. exact N.
  - apply inv_by_same; auto.
Qed.

Lemma no_step t s :
  ext_but t s s /\ plog t (blog s) = plog t (blog s) /\ (all_items_computed s -> all_items_computed s).
Proof. split; [apply ext_but_refl|auto]. Qed.

Section LevelProofs.
  Variable rec : bstate -> nat -> outcome -> bstate * res.
  Hypothesis W : wb rec.

  (* one callback of future t (computed, being notified) *)
  Lemma run_bcb_spec t k : forall s oc0, fout s t = Some oc0 ->
    let s' := fst (run_bcb rec t k s) in
    ext_but t s s' /\ plog t (blog s') = plog t (blog s) /\
    (all_items_computed s -> all_items_computed s').
  Proof.
    induction k as [|c|x|id k IH|a IHa b IHb|x o g]; intros s oc0 F; cbn.
    - apply no_step.
    - apply no_step.
    - destruct (remove_first x (fsubs s t)) as [l|]; cbn; [apply set_fsubs_step|apply no_step].
    - apply set_fsubs_step.
    - specialize (IHa s oc0 F). destruct (run_bcb rec t a s) as [s1 r] eqn:Ea. cbn in IHa.
      destruct IHa as (E1 & P1 & I1). destruct r; cbn; [split; [|split]; auto|].
      assert (F1 : fout s1 t = Some oc0) by (destruct E1 as (_ & X & _); congruence).
      specialize (IHb s1 oc0 F1). destruct (run_bcb rec t b s1) as [s2 r2]. cbn in *.
      destruct IHb as (E2 & P2 & I2). split; [eapply ext_but_trans; eauto|]. split; [congruence|auto].
    - destruct (fout s (Z.to_nat x)) eqn:Fx; cbn; [apply no_step|].
      destruct (W s (Z.to_nat x) o) as (E & I). destruct (rec s (Z.to_nat x) o) as [s' r]. cbn in *.
      split; [eapply ext_ext_but; eauto|]. split; auto.
      destruct E as (_ & H). specialize (H t). unfold ext_at in H. rewrite F in H. apply H.
  Qed.

  Lemma bnotify_spec t o snap : forall s oc0, fout s t = Some oc0 ->
    let s' := bnotify rec t o snap s in
    ext_but t s s' /\ plog t (blog s') = plog t (blog s) ++ tnotes t snap o /\
    (all_items_computed s -> all_items_computed s').
  Proof.
    induction snap as [|sb rest IH]; intros s oc0 F; cbn.
    - rewrite app_nil_r. apply no_step.
    - destruct (add_log_self s t (fst sb) o) as (A1 & A2 & A3 & A4).
      destruct (add_log_step s t (fst sb) o) as (E1 & I1).
      set (s1 := add_log s (Z.of_nat t, fst sb, o)) in *.
      assert (F1 : fout s1 t = Some oc0) by congruence.
      destruct (run_bcb_spec t (snd sb) s1 oc0 F1) as (E2 & P2 & I2).
      set (s2 := fst (run_bcb rec t (snd sb) s1)) in *.
      assert (F2 : fout s2 t = Some oc0) by (destruct E2 as (_ & X & _); congruence).
      destruct (IH s2 oc0 F2) as (E3 & P3 & I3). split; [|split].
      + eapply ext_but_trans; [exact E1|]. eapply ext_but_trans; eauto.
      + rewrite P3, P2, A2, <- app_assoc. reflexivity.
      + auto.
  Qed.

  (* storing an outcome on an existing uncomputed future, then notifying it *)
  Lemma complete_spec s t o s2 :
    fout s t = None -> fexists s t = true ->
    ext (store s t o) s2 -> fout s2 t = Some o ->
    let s' := bnotify rec t o (fsubs s2 t) s2 in
    ext s s' /\ fout s' t = Some o.
  Proof.
    intros F X E12 F2. destruct (store_self s t o X) as (S1 & S2 & S3 & S4).
    destruct (bnotify_spec t o (fsubs s2 t) s2 o F2) as (E3 & P3 & _). cbn.
    assert (Ft : fout (bnotify rec t o (fsubs s2 t) s2) t = Some o)
      by (destruct E3 as (_ & X3 & _); congruence).
    split; auto. split.
    - destruct E3 as (L3 & _). destruct E12 as (L2 & _).
      eapply frame_trans; [apply store_frame|]. eapply frame_trans; eauto.
    - intros u. destruct (Nat.eq_dec u t) as [->|N].
      + unfold ext_at. rewrite F. right. exists o. split; auto.
        destruct E12 as (_ & H). specialize (H t). unfold ext_at in H. rewrite S1 in H.
        destruct H as (_ & H2 & H3). rewrite P3, H2, H3, S2, S3. reflexivity.
      + eapply ext_at_trans; [apply same_ext_at, store_other; exact N|].
        eapply ext_at_trans; [destruct E12 as (_ & H); apply H|].
        destruct E3 as (_ & _ & H). apply H. exact N.
  Qed.

  Lemma iset_spec s i o :
    let s' := fst (iset rec s i o) in
    ext s s' /\
    (all_items_computed s -> all_items_computed s') /\
    (item_out s i = None -> (i < length (bitems s))%nat -> item_out s' i = Some o /\ snd (iset rec s i o) = RUnit) /\
    (forall oc, item_out s i = Some oc -> iset rec s i o = (s, RRaise E_ALREADY)).
  Proof.
    unfold iset. destruct (item_out s i) as [oc|] eqn:F; cbn [fst snd].
    - split; [apply ext_refl|]. split; [auto|]. split; [discriminate|auto].
    - destruct (Nat.ltb i (length (bitems s))) eqn:X; cbn [fst snd].
      2: { apply Nat.ltb_ge in X. split; [apply ext_refl|]. split; [auto|]. split; [intros; lia|discriminate]. }
      assert (X' : fexists s (S i) = true) by exact X.
      destruct (store_self s (S i) o X') as (S1 & S2 & S3 & S4).
      destruct (complete_spec s (S i) o (store s (S i) o) F X' (ext_refl _) S1) as (E & Fo).
      split; [exact E|]. split; [|split; [auto|discriminate]].
      intros I.
      destruct (bnotify_spec (S i) o (fsubs (store s (S i) o) (S i)) (store s (S i) o) o S1) as (_ & _ & I3).
      apply I3. destruct I as [B|A]; [left; exact B|right].
      intros j Hj. rewrite S4 in Hj. destruct (Nat.eq_dec j i) as [->|N].
      + cbn [fout] in S1. congruence.
      + destruct (store_other s (S i) o (S j)) as (Y & _); [congruence|]. cbn [fout] in Y. rewrite Y. auto.
  Qed.

  Lemma cancel_sets_spec l : forall s, ext s (cancel_sets rec l s).
  Proof.
    induction l as [|[i o] r IH]; intros s; cbn; [apply ext_refl|].
    eapply ext_trans; [|apply IH]. destruct (item_out s i); [apply ext_refl|apply iset_spec].
  Qed.

  (* the item loop: monotone, and every item of its range is computed afterwards *)
  Lemma fill_loop_spec e n : forall i s,
    (i + n <= length (bitems s))%nat ->
    let s' := fill_loop rec i n e s in
    ext s s' /\ forall j, (i <= j < i + n)%nat -> item_out s' j <> None.
  Proof.
    induction n as [|n IH]; intros i s H; cbn.
    - split; [apply ext_refl|]. intros j Hj. lia.
    - set (s1 := match item_out s i with Some _ => s | None => fst (iset rec s i (Err e)) end).
      assert (E1 : ext s s1) by (unfold s1; destruct (item_out s i); [apply ext_refl|apply iset_spec]).
      assert (C1 : item_out s1 i <> None).
      { unfold s1. destruct (item_out s i) eqn:F; [congruence|].
        destruct (iset_spec s i (Err e)) as (_ & _ & X & _). destruct (X F) as (Y & _); [lia|]. congruence. }
      assert (L1 : length (bitems s1) = length (bitems s)) by (apply ext_len; exact E1).
      destruct (IH (S i) s1) as (E2 & C2); [lia|]. split; [eapply ext_trans; eauto|].
      intros j Hj. destruct (Nat.eq_dec j i) as [->|N]; [|apply C2; lia].
      destruct (item_out s1 i) as [oc|] eqn:F; [|congruence].
      assert (X : fout (fill_loop rec (S i) n e s1) (S i) = Some oc) by (eapply ext_computed; eauto).
      cbn [fout] in X. congruence.
  Qed.

  (* set_value / set_error on the batch *)
  Lemma bset0_spec s o :
    let s' := fst (bset0 rec s o) in
    ext s s' /\ (all_items_computed s -> all_items_computed s') /\
    (bout s = None -> bout s' = Some o /\ allcomp s' /\ snd (bset0 rec s o) = RUnit) /\
    (forall oc, bout s = Some oc -> bset0 rec s o = (s, RRaise E_ALREADY)).
  Proof.
    unfold bset0. destruct (bout s) as [oc|] eqn:F; cbn [fst snd].
    - split; [apply ext_refl|]. split; [auto|]. split; [discriminate|auto].
    - set (s1 := store s 0 o).
      set (s2 := match o with Err _ => cancel_sets rec (bcancel s1) s1 | Ok _ => s1 end).
      set (s3 := fill_loop rec 0 (length (bitems s2)) (fill_error o) s2).
      assert (E12 : ext s1 s2) by (unfold s2; destruct o; [apply ext_refl|apply cancel_sets_spec]).
      destruct (fill_loop_spec (fill_error o) (length (bitems s2)) 0 s2) as (E23 & C3); [lia|].
      fold s3 in E23, C3.
      assert (E13 : ext s1 s3) by (eapply ext_trans; eauto).
      assert (F1 : fout s1 0 = Some o) by reflexivity.
      assert (F3 : fout s3 0 = Some o) by (eapply ext_computed; eauto).
      destruct (complete_spec s 0 o s3 F eq_refl E13 F3) as (E & Fo).
      assert (A3 : allcomp s3).
      { intros j Hj. apply C3. rewrite (ext_len _ _ E23) in Hj. lia. }
      assert (A : allcomp (bnotify rec 0 o (fsubs s3 0) s3)).
      { destruct (bnotify_spec 0 o (fsubs s3 0) s3 o F3) as (_ & _ & I).
        destruct (I (or_intror A3)) as [B|A]; auto. cbn [fout] in Fo. congruence. }
      split; [exact E|]. split; [intros _; right; exact A|]. split; [|discriminate].
      intros _. split; [exact Fo|]. split; [exact A|reflexivity].
  Qed.

  Lemma bset_level_wb : wb (bset_level rec).
  Proof.
    intros s [|i] o; cbn.
    - destruct (bset0_spec s o) as (E & I & _). auto.
    - destruct (iset_spec s i o) as (E & I & _). auto.
  Qed.

  (* the flush body *)
  Lemma body_item_spec i os : forall s,
    let s' := fst (body_item rec i os s) in
    ext s s' /\ (all_items_computed s -> all_items_computed s').
  Proof.
    induction os as [|o r IH]; intros s; cbn [body_item]; [split; [apply ext_refl|auto]|].
    destruct (iset_spec s i o) as (E & I & _).
    destruct (iset rec s i o) as [s1 x]. cbn [fst snd] in *.
    assert (E1 : ext s (push_binner s1 x)).
    { eapply ext_trans; [exact E|]. split; [split; reflexivity|]. intros u. apply same_ext_at, push_binner_same. }
    assert (I1 : all_items_computed s -> all_items_computed (push_binner s1 x)) by (intros H; apply I in H; exact H).
    assert (K : forall st, st = push_binner s1 x ->
              ext s (fst (body_item rec i r st)) /\
              (all_items_computed s -> all_items_computed (fst (body_item rec i r st)))).
    { intros st ->. destruct (IH (push_binner s1 x)) as (E2 & I2). split; [eapply ext_trans; eauto|auto]. }
    destruct x; cbn [fst]; auto; apply K; reflexivity.
  Qed.

  Lemma flush_body_spec acts : forall i s,
    let s' := fst (flush_body rec i acts s) in
    ext s s' /\ (all_items_computed s -> all_items_computed s').
  Proof.
    induction acts as [|os r IH]; intros i s; cbn [flush_body]; [split; [apply ext_refl|auto]|].
    destruct (body_item_spec i os s) as (E & I). destruct (body_item rec i os s) as [s1 f]. cbn [fst] in *.
    destruct f; cbn [fst]; auto. destruct (IH (S i) s1) as (E2 & I2). split; [eapply ext_trans; eauto|auto].
  Qed.

  (* BatchBase._compute: afterwards the batch is computed and every item is; every future: C10 *)
  Lemma bcompute_spec s : all_items_computed s ->
    let s' := bcompute rec s in
    (forall u, ext_at s s' u) /\ bout s' <> None /\ allcomp s' /\ bruns s' = S (bruns s) /\
    length (bitems s') = length (bitems s).
  Proof.
    intros I. unfold bcompute.
    set (s0 := bmk (bitems s) (bfin s) (bcancel s) (bout s) (S (bruns s)) (bsubs s) (blog s) (binner s)).
    assert (E0 : forall u, ext_at s s0 u) by (intros u; apply same_ext_at; repeat split; destruct u; reflexivity).
    assert (I0 : all_items_computed s0) by exact I.
    destruct (flush_body_spec (map iact (bitems s0)) 0 s0) as (E1 & I1).
    destruct (flush_body rec 0 (map iact (bitems s0)) s0) as [s1 f] eqn:Fb. cbn [fst] in E1, I1.
    match goal with |- context [bset0 rec s1 ?o] => set (oo := o) end.
    destruct (bset0_spec s1 oo) as (E2 & I2 & N2 & C2).
    assert (E : ext s0 (fst (bset0 rec s1 oo))) by (eapply ext_trans; eauto).
    split; [intros u; eapply ext_at_trans; [apply E0|apply E]|].
    destruct E as ((L & R) & _). split; [|split; [|split; [exact R|exact L]]].
    - destruct (bout s1) eqn:B1.
      + rewrite (C2 _ eq_refl). cbn [fst]. congruence.
      + destruct (N2 eq_refl) as (X & _). congruence.
    - destruct (bout s1) eqn:B1.
      + rewrite (C2 _ eq_refl). cbn [fst]. destruct (I1 I0) as [X|X]; [congruence|exact X].
      + destruct (N2 eq_refl) as (_ & X & _). exact X.
  Qed.
End LevelProofs.

(* ---- every nesting depth respects C10 ---- *)
Lemma bset_at_wb d : wb (bset_at d).
Proof. induction d; cbn; apply bset_level_wb; [apply wb_no_rec|exact IHd]. Qed.

(* single assignment, for the batch and for every item, at every depth (also from inside callbacks):
   a set on a computed future raises FutureIsAlreadyComputed, changes nothing, calls nobody *)
Lemma bset_at_single d s t oc o : fout s t = Some oc -> bset_at (S d) s t o = (s, RRaise E_ALREADY).
Proof.
  intros F. cbn [bset_at]. destruct t as [|i]; cbn [bset_level].
  - destruct (bset0_spec (bset_at d) (bset_at_wb d) s o) as (_ & _ & _ & C). eapply C. exact F.
  - destruct (iset_spec (bset_at d) (bset_at_wb d) s i o) as (_ & _ & _ & C). eapply C. exact F.
Qed.

Lemma bset_single s t oc o : fout s t = Some oc -> bset s t o = (s, RRaise E_ALREADY).
Proof. apply bset_at_single. Qed.

(* a set on an existing uncomputed future: it holds exactly that outcome afterwards and the call
   returns normally - whatever the callbacks do meanwhile, to whichever future *)
Lemma bset_completes s t o : fout s t = None -> fexists s t = true ->
  fout (fst (bset s t o)) t = Some o /\ snd (bset s t o) = RUnit.
Proof.
  intros F X. unfold bset. cbn [bset_at]. set (r := bset_at (depth_of s)).
  assert (Wr : wb r) by apply bset_at_wb.
  destruct t as [|i]; cbn [bset_level].
  - destruct (bset0_spec r Wr s o) as (_ & _ & N & _). destruct (N F) as (A & _ & B). auto.
  - destruct (iset_spec r Wr s i o) as (_ & _ & N & _). cbn in X. apply Nat.ltb_lt in X.
    destruct (N F X) as (A & B). auto.
Qed.

(* THE per-call statement: between the state before a set and the state after it, EVERY future of the
   case satisfies C10 - computed ones untouched, uncomputed ones untouched or completed once with
   exactly their subscribers of before notified once each, in order, with the outcome they hold -
   and "batch computed => all items computed" is preserved *)
Lemma bset_ext s t o :
  ext s (fst (bset s t o)) /\ (all_items_computed s -> all_items_computed (fst (bset s t o))).
Proof. apply (bset_at_wb (S (depth_of s))). Qed.

(* completing the batch: afterwards every item is computed - the ones a callback (of a sibling, or the
   _cancel() override) completed meanwhile KEEP that outcome: the loop re-checks before each set *)
Lemma bset_batch_all_items s o : bout s = None -> allcomp (fst (bset s 0 o)).
Proof.
  intros F. unfold bset. cbn [bset_at bset_level].
  destruct (bset0_spec (bset_at (depth_of s)) (bset_at_wb _) s o) as (_ & _ & N & _).
  destruct (N F) as (_ & A & _). exact A.
Qed.

Lemma fill_loop_keeps d e n i s j oc :
  (i + n <= length (bitems s))%nat -> item_out s j = Some oc ->
  item_out (fill_loop (bset_at d) i n e s) j = Some oc.
Proof.
  intros H F. destruct (fill_loop_spec (bset_at d) (bset_at_wb d) e n i s H) as (E & _).
  apply (ext_computed _ _ (S j) oc E). exact F.
Qed.

(* ---- top-level operations ---- *)
Definition is_subscribe (o : bop) : bool :=
  match o with BOn _ (OSubscribe _ _) => true | _ => false end.

Lemma bcompute_top_spec s : all_items_computed s ->
  let s' := bcompute_top s in
  (forall u, ext_at s s' u) /\ bout s' <> None /\ allcomp s' /\ bruns s' = S (bruns s) /\
  length (bitems s') = length (bitems s).
Proof. apply bcompute_spec, bset_at_wb. Qed.

(* one operation that is not a subscription: C10 for every future of the case; "batch computed =>
   all items computed"; _flush ran at most once more *)
Definition step_ok (s s' : bstate) : Prop :=
  all_items_computed s' /\ (forall u, ext_at s s' u) /\ (bruns s' <= S (bruns s))%nat.

Lemma bstep_spec s o : all_items_computed s -> is_subscribe o = false -> step_ok s (fst (bstep s o)).
Proof.
  intros I NS.
  assert (R : step_ok s s) by (split; [exact I|split; [intros u; apply ext_at_refl|lia]]).
  assert (CT : step_ok s (bcompute_top s)).
  { destruct (bcompute_top_spec s I) as (E & _ & A & Rn & _). split; [right; exact A|]. split; [exact E|]. lia. }
  assert (BS : forall t oc, step_ok s (fst (bset s t oc))).
  { intros t oc. destruct (bset_ext s t oc) as (((L & Rn) & E) & I2). split; [auto|]. split; [exact E|]. rewrite Rn. lia. }
  assert (BR : forall rep, step_ok s (fst (bread s rep))).
  { intros rep. unfold bread. destruct (bout s); cbn [fst]; auto. }
  assert (IR : forall i rep, step_ok s (fst (iread s i rep))).
  { intros i rep. unfold iread. destruct (item_out s i); cbn [fst]; auto. destruct (bout s); cbn [fst]; auto. }
  destruct o as [t x| |]; cbn [bstep].
  - destruct x; try discriminate NS; destruct t as [|i]; cbn [fst]; auto.
  - destruct (bout s); cbn [fst]; auto.
  - destruct (bout s); cbn [fst]; auto.
Qed.

(* a subscription only appends the new subscriber to that future's list *)
Lemma bstep_subscribe s t id k : all_items_computed s ->
  let s' := fst (bstep s (BOn t (OSubscribe id k))) in
  all_items_computed s' /\ (s' = s \/ s' = set_fsubs s t (fsubs s t ++ [(id, k)])).
Proof.
  intros I. destruct (set_fsubs_step s t (fsubs s t ++ [(id, k)])) as (_ & _ & X).
  destruct t; cbn [bstep]; match goal with |- context [fexists s ?t] => destruct (fexists s t) end; cbn [fst]; auto.
Qed.

Lemma bstep_inv s o : all_items_computed s -> all_items_computed (fst (bstep s o)).
Proof.
  intros I. destruct (is_subscribe o) eqn:S.
  - destruct o as [t [| | | | | | |id k]| |]; try discriminate S. apply bstep_subscribe, I.
  - apply bstep_spec; auto.
Qed.

Lemma binit_inv its fin cs : all_items_computed (binit its fin cs).
Proof. left. reflexivity. Qed.

(* every reachable state: batch computed => all items computed *)
Lemma brun_inv ops : forall s, all_items_computed s -> all_items_computed (fst (brun s ops)).
Proof.
  induction ops as [|o ops IH]; intros s I; cbn [brun]; auto.
  pose proof (bstep_inv s o I) as I1. destruct (bstep s o) as [s1 r]. cbn [fst] in I1.
  specialize (IH s1 I1). destruct (brun s1 ops) as [s2 rs]. exact IH.
Qed.

Lemma brun_init_inv ops its fin cs : all_items_computed (fst (brun (binit its fin cs) ops)).
Proof. exact (brun_inv ops _ (binit_inv its fin cs)). Qed.

(* reads report the stored outcome *)
Lemma bread_reports s rep oc : bout (fst (bread s rep)) = Some oc -> snd (bread s rep) = rep oc.
Proof. unfold bread. destruct (bout s) eqn:B; cbn [fst snd]; intros H; rewrite ?H; congruence. Qed.

Lemma iread_reports s i rep oc : item_out (fst (iread s i rep)) i = Some oc -> snd (iread s i rep) = rep oc.
Proof.
  unfold iread. destruct (item_out s i) eqn:F; cbn [fst snd]; [congruence|].
  destruct (bout s); cbn [fst snd]; intros H; [congruence|now rewrite H].
Qed.

(* a computing read of the batch or of an item leaves the batch and every item computed *)
Lemma read_completes s : all_items_computed s -> bout s = None ->
  bout (bcompute_top s) <> None /\ allcomp (bcompute_top s).
Proof. intros I _. destruct (bcompute_top_spec s I) as (_ & A & B & _). auto. Qed.

(* a computed batch (hence all items computed): no operation changes anything but subscription lists;
   setters raise FutureIsAlreadyComputed, flush raises BatchingError, cancel does nothing *)
Lemma bstep_all_computed s oc o : bout s = Some oc -> allcomp s -> is_subscribe o = false ->
  fst (bstep s o) = s.
Proof.
  intros B A NS.
  assert (F : forall t, fexists s t = true -> fout s t <> None).
  { intros [|i] X; cbn in *; [congruence|]. apply A, Nat.ltb_lt, X. }
  assert (BS : forall t o', fst (bset s t o') = s).
  { intros t o'. destruct (fout s t) eqn:E; [now rewrite (bset_single s t _ o' E)|].
    destruct (fexists s t) eqn:X; [now apply F in X|].
    destruct t as [|i]; [discriminate X|]. unfold bset. cbn [bset_at bset_level]. unfold iset.
    cbn [fout] in E. rewrite E. cbn [fexists] in X. rewrite X. reflexivity. }
  destruct o as [t x| |]; cbn [bstep]; [|now rewrite B|now rewrite B].
  destruct x; try discriminate NS; destruct t as [|i]; cbn [fst]; auto; unfold bread, iread; rewrite ?B; auto;
    destruct (item_out s i); auto.
Qed.

(* ---- state morphisms: relabelling that the model cannot see ----
   [F] maps states, [K] maps behaviour scripts (G = K on every subscriber of a list); whatever [F]
   and [K] are, if they commute with the primitive state changes then they commute with every
   operation - used twice below: the Exception classes subscribers raise, the class the flush body
   raises *)
Section Morphism.
  Variable F : bstate -> bstate.
  Variable K : cbkind -> cbkind.
  Definition Gm (l : list sub) : list sub := map (fun sb => (fst sb, K (snd sb))) l.
  Definition Kop (o : bop) : bop :=
    match o with BOn t (OSubscribe id k) => BOn t (OSubscribe id (K k)) | _ => o end.

  Hypothesis K_ok : K CbOk = CbOk.
  Hypothesis K_raise : forall c, exists c', K (CbRaise c) = CbRaise c'.
  Hypothesis K_unsub : forall x, K (CbUnsub x) = CbUnsub x.
  Hypothesis K_sub : forall id k, K (CbSub id k) = CbSub id (K k).
  Hypothesis K_seq : forall a b, K (CbSeq a b) = CbSeq (K a) (K b).
  Hypothesis K_set : forall x o g, K (CbSet x o g) = CbSet x o g.
  Hypothesis F_out : forall s t, fout (F s) t = fout s t.
  Hypothesis F_subs : forall s t, fsubs (F s) t = Gm (fsubs s t).
  Hypothesis F_set_fsubs : forall s t l, F (set_fsubs s t l) = set_fsubs (F s) t (Gm l).
  Hypothesis F_store : forall s t o, F (store s t o) = store (F s) t o.
  Hypothesis F_log : forall s r, F (add_log s r) = add_log (F s) r.
  Hypothesis F_push : forall s r, F (push_binner s r) = push_binner (F s) r.
  Hypothesis F_len : forall s, length (bitems (F s)) = length (bitems s).
  Hypothesis F_cancel : forall s, bcancel (F s) = bcancel s.
  Hypothesis F_acts : forall s, map iact (bitems (F s)) = map iact (bitems s).
  Hypothesis F_run : forall s,
    F (bmk (bitems s) (bfin s) (bcancel s) (bout s) (S (bruns s)) (bsubs s) (blog s) (binner s)) =
    bmk (bitems (F s)) (bfin (F s)) (bcancel (F s)) (bout (F s)) (S (bruns (F s))) (bsubs (F s)) (blog (F s)) (binner (F s)).
  Hypothesis F_fin : forall s,
    match bfin (F s) with PRet _ => Ok VNone | PRaise _ e | PBase e => Err e | PDouble => Err E_ALREADY end =
    match bfin s with PRet _ => Ok VNone | PRaise _ e | PBase e => Err e | PDouble => Err E_ALREADY end.

  Lemma F_iout s i : item_out (F s) i = item_out s i.
  Proof. exact (F_out s (S i)). Qed.
  Lemma F_bout s : bout (F s) = bout s.
  Proof. exact (F_out s 0). Qed.

  Lemma Gm_remove x l : remove_first x (Gm l) = option_map Gm (remove_first x l).
  Proof.
    induction l as [|[i k] r IH]; cbn; auto. destruct (Z.eqb i x); auto.
    unfold Gm in IH. rewrite IH. destruct (remove_first x r); auto.
  Qed.

  Definition commutes (rec : bstate -> nat -> outcome -> bstate * res) : Prop :=
    forall s t o, rec (F s) t o = (F (fst (rec s t o)), snd (rec s t o)).

  Section WithRec.
    Variable rec : bstate -> nat -> outcome -> bstate * res.
    Hypothesis C : commutes rec.

    Lemma run_bcb_F t k : forall s,
      run_bcb rec t (K k) (F s) = (F (fst (run_bcb rec t k s)), snd (run_bcb rec t k s)).
    Proof.
      induction k as [|c|x|id k IH|a IHa b IHb|x o g]; intros s.
      - rewrite K_ok. reflexivity.
      - destruct (K_raise c) as (c' & ->). reflexivity.
      - rewrite K_unsub. cbn [run_bcb]. rewrite F_subs, Gm_remove.
        destruct (remove_first x (fsubs s t)); cbn; [now rewrite F_set_fsubs|reflexivity].
      - rewrite K_sub. cbn [run_bcb fst snd]. rewrite F_subs, F_set_fsubs. unfold Gm. rewrite map_app. reflexivity.
      - rewrite K_seq. cbn [run_bcb]. rewrite IHa. destruct (run_bcb rec t a s) as [s1 r]. cbn [fst snd].
        destruct r; auto.
      - rewrite K_set. cbn [run_bcb]. rewrite F_out. destruct (fout s (Z.to_nat x)); auto.
        rewrite C. destruct (rec s (Z.to_nat x) o) as [s' r]. reflexivity.
    Qed.

    Lemma bnotify_F t o snap : forall s, bnotify rec t o (Gm snap) (F s) = F (bnotify rec t o snap s).
    Proof.
      induction snap as [|sb rest IH]; intros s; cbn [bnotify Gm map]; auto.
      cbn [fst snd]. rewrite <- F_log, run_bcb_F. cbn [fst]. apply IH.
    Qed.

    Lemma iset_F s i o : iset rec (F s) i o = (F (fst (iset rec s i o)), snd (iset rec s i o)).
    Proof.
      unfold iset. rewrite F_iout, F_len. destruct (item_out s i); auto.
      destruct (Nat.ltb i (length (bitems s))); auto. cbn [fst snd].
      rewrite <- F_store, F_subs, bnotify_F. reflexivity.
    Qed.

    Lemma cancel_sets_F l : forall s, cancel_sets rec l (F s) = F (cancel_sets rec l s).
    Proof.
      induction l as [|[i o] r IH]; intros s; cbn [cancel_sets]; auto.
      rewrite F_iout. destruct (item_out s i); [apply IH|]. rewrite iset_F. cbn [fst]. apply IH.
    Qed.

    Lemma fill_loop_F e n : forall i s, fill_loop rec i n e (F s) = F (fill_loop rec i n e s).
    Proof.
      induction n as [|n IH]; intros i s; cbn [fill_loop]; auto.
      rewrite F_iout. destruct (item_out s i); [apply IH|]. rewrite iset_F. cbn [fst]. apply IH.
    Qed.

    Lemma bset0_F s o : bset0 rec (F s) o = (F (fst (bset0 rec s o)), snd (bset0 rec s o)).
    Proof.
      unfold bset0. rewrite F_bout. destruct (bout s); auto. cbn [fst snd].
      rewrite <- F_store.
      assert (E : match o with Err _ => cancel_sets rec (bcancel (F (store s 0 o))) (F (store s 0 o)) | Ok _ => F (store s 0 o) end
                  = F (match o with Err _ => cancel_sets rec (bcancel (store s 0 o)) (store s 0 o) | Ok _ => store s 0 o end)).
      { destruct o; auto. rewrite F_cancel. apply cancel_sets_F. }
      rewrite E, F_len, fill_loop_F.
      match goal with |- (bnotify rec 0 o (bsubs (F ?x)) _, _) = _ =>
        change (bsubs (F x)) with (fsubs (F x) 0); rewrite F_subs end.
      rewrite bnotify_F. reflexivity.
    Qed.

    Lemma bset_level_F : commutes (bset_level rec).
    Proof. intros s [|i] o; cbn [bset_level]; [apply bset0_F|apply iset_F]. Qed.

    Lemma body_item_F i os : forall s,
      body_item rec i os (F s) = (F (fst (body_item rec i os s)), snd (body_item rec i os s)).
    Proof.
      induction os as [|o r IH]; intros s; cbn [body_item]; auto.
      rewrite iset_F. destruct (iset rec s i o) as [s1 x]. cbn [fst snd].
      destruct x; rewrite <- ?F_push; auto.
    Qed.

    Lemma flush_body_F acts : forall i s,
      flush_body rec i acts (F s) = (F (fst (flush_body rec i acts s)), snd (flush_body rec i acts s)).
    Proof.
      induction acts as [|os r IH]; intros i s; cbn [flush_body]; auto.
      rewrite body_item_F. destruct (body_item rec i os s) as [s1 f]. cbn [fst snd]. destruct f; auto.
    Qed.

    Lemma bcompute_F s : bcompute rec (F s) = F (bcompute rec s).
    Proof.
      unfold bcompute. rewrite <- F_run. cbn [bitems]. rewrite F_acts. cbn [bitems].
      rewrite flush_body_F. rewrite F_fin.
      destruct (flush_body rec 0 (map iact (bitems s)) _) as [s1 f]. cbn [fst snd].
      rewrite bset0_F. reflexivity.
    Qed.
  End WithRec.

  Lemma bset_at_F d : commutes (bset_at d).
  Proof. induction d; cbn [bset_at]; apply bset_level_F; [intros s t o; reflexivity|exact IHd]. Qed.

  Lemma depth_F s : depth_of (F s) = depth_of s.
  Proof. unfold depth_of. now rewrite F_len. Qed.

  Lemma bset_F s t o : bset (F s) t o = (F (fst (bset s t o)), snd (bset s t o)).
  Proof. unfold bset. rewrite depth_F. apply bset_at_F. Qed.

  Lemma bcompute_top_F s : bcompute_top (F s) = F (bcompute_top s).
  Proof. unfold bcompute_top. rewrite depth_F. apply bcompute_F, bset_at_F. Qed.

  Lemma fexists_F s t : fexists (F s) t = fexists s t.
  Proof. destruct t; cbn; auto. now rewrite F_len. Qed.

  Lemma bstep_F s o : bstep (F s) (Kop o) = (F (fst (bstep s o)), snd (bstep s o)).
  Proof.
    destruct o as [t x| |]; cbn [Kop].
    - destruct x; destruct t as [|i]; cbn [bstep]; unfold bread, iread;
        rewrite ?F_bout, ?F_iout, ?F_out, ?bset_F, ?fexists_F; auto;
        try (destruct (bout s); auto; rewrite bcompute_top_F, ?F_bout; reflexivity);
        try (destruct (item_out s i); auto; destruct (bout s); auto; rewrite bcompute_top_F, ?F_iout; reflexivity).
      + cbn [fexists fst snd]. rewrite F_subs, F_set_fsubs. unfold Gm. rewrite map_app. reflexivity.
      + destruct (fexists s (S i)); auto. cbn [fst snd]. rewrite F_subs, F_set_fsubs. unfold Gm. rewrite map_app. reflexivity.
    - cbn [bstep]. rewrite F_bout. destruct (bout s); auto. now rewrite bcompute_top_F.
    - cbn [bstep]. rewrite F_bout. destruct (bout s); auto. now rewrite bset_F.
  Qed.

  Lemma brun_F ops : forall s,
    brun (F s) (map Kop ops) = (F (fst (brun s ops)), snd (brun s ops)).
  Proof.
    induction ops as [|o ops IH]; intros s; cbn [brun map]; auto.
    rewrite bstep_F. destruct (bstep s o) as [s1 r]. cbn [fst snd]. rewrite IH.
    destruct (brun s1 ops) as [s2 rs]. reflexivity.
  Qed.
End Morphism.

Lemma map_upd_nth (g : item -> item) (h h' : item -> item) i :
  (forall x, g (h x) = h' (g x)) -> forall l, map g (upd_nth i h l) = upd_nth i h' (map g l).
Proof.
  intros H. induction i; intros [|x r]; cbn; auto; [now rewrite H|now rewrite IHi].
Qed.

(* ---- the CLASS of the Exception a subscriber raises does not matter ---- *)
Definition recls_item (f : xcls -> xcls) (it : item) : item :=
  imk (iout it) (map (recls_sub f) (isubs it)) (iact it).
Definition recls_bstate (f : xcls -> xcls) (s : bstate) : bstate :=
  bmk (map (recls_item f) (bitems s)) (bfin s) (bcancel s) (bout s) (bruns s)
      (map (recls_sub f) (bsubs s)) (blog s) (binner s).
Definition recls_bop (f : xcls -> xcls) (o : bop) : bop := Kop (recls f) o.
Definition recls_ispec (f : xcls -> xcls) (sp : ispec) : ispec := (map (recls_sub f) (fst sp), snd sp).

Lemma brun_recls f ops s :
  brun (recls_bstate f s) (map (recls_bop f) ops) = (recls_bstate f (fst (brun s ops)), snd (brun s ops)).
Proof.
  apply (brun_F (recls_bstate f) (recls f)); try reflexivity.
  - intros c. eexists. reflexivity.
  - intros s0 [|i]; cbn; auto. unfold item_out. cbn. rewrite nth_error_map.
    destruct (nth_error (bitems s0) i); reflexivity.
  - intros s0 [|i]; cbn; auto. rewrite nth_error_map. destruct (nth_error (bitems s0) i); reflexivity.
  - intros s0 [|i] l; cbn; auto. unfold recls_bstate, with_items. cbn. f_equal. apply map_upd_nth. reflexivity.
  - intros s0 [|i] o; cbn; auto. unfold recls_bstate, with_items. cbn. f_equal. apply map_upd_nth. reflexivity.
  - intros s0. cbn. apply map_length.
  - intros s0. cbn. rewrite map_map. reflexivity.
Qed.

Lemma batch_raise_class_irrelevant f its fin cs ops :
  run_batch (map (recls_ispec f) its) fin cs (map (recls_bop f) ops) = run_batch its fin cs ops.
Proof.
  unfold run_batch.
  assert (E : binit (map (recls_ispec f) its) fin cs = recls_bstate f (binit its fin cs)).
  { unfold binit, recls_bstate. cbn. rewrite !map_map. reflexivity. }
  rewrite E, brun_recls. destruct (brun (binit its fin cs) ops) as [s rs]. cbn.
  rewrite !map_map. cbn. f_equal. apply map_ext. intros it. cbn. now rewrite map_map.
Qed.

(* ---- the CLASS of the Exception the flush body raises does not matter ---- *)
Definition bpstate (f : xcls -> xcls) (s : bstate) : bstate :=
  bmk (bitems s) (recls_pout f (bfin s)) (bcancel s) (bout s) (bruns s) (bsubs s) (blog s) (binner s).

Lemma Gm_id l : Gm (fun k => k) l = l.
Proof. unfold Gm. induction l as [|[i k] r IH]; cbn; auto. now rewrite IH. Qed.

Lemma Kop_id ops : map (Kop (fun k => k)) ops = ops.
Proof.
  induction ops as [|o r IH]; cbn; auto. rewrite IH. f_equal.
  destruct o as [t x| |]; auto. destruct x; reflexivity.
Qed.

Lemma brun_bpstate f ops s :
  brun (bpstate f s) ops = (bpstate f (fst (brun s ops)), snd (brun s ops)).
Proof.
  rewrite <- (Kop_id ops) at 1.
  apply (brun_F (bpstate f) (fun k => k)); try reflexivity.
  - intros c. eexists. reflexivity.
  - intros s0 t. rewrite Gm_id. destruct t; reflexivity.
  - intros s0 t l. rewrite Gm_id. destruct t; reflexivity.
  - intros s0 t o. destruct t; reflexivity.
  - intros s0. cbn. destruct (bfin s0); reflexivity.
Qed.

Lemma batch_provider_class_irrelevant f its fin cs ops :
  run_batch its (recls_pout f fin) cs ops = run_batch its fin cs ops.
Proof.
  unfold run_batch. change (binit its (recls_pout f fin) cs) with (bpstate f (binit its fin cs)).
  rewrite brun_bpstate. destruct (brun (binit its fin cs) ops) as [s rs]. reflexivity.
Qed.

(* ---- non-vacuity ---- *)
(* cancel() of a pending batch of three items; a guarded subscriber on item 1 completes item 2 with a
   fallback value: item 2 keeps it, item 3 still gets the cancel error, the batch's subscriber is
   notified once, last *)
Example cross_cancel_nonvacuous :
  run_batch [([(1, CbOk); (11, CbSet 2 (Ok (VInt 7)) true)], []); ([(2, CbOk)], []); ([(3, CbOk)], [])]
            (PRet VNone) []
            [BOn 0 (OSubscribe 20 CbOk); BCancel; BOn 3 OError; BOn 2 OValue; BOn 1 OError; BOn 0 OError]
  = ([RUnit; RUnit; RErr E_CANCELLED; RVal (VInt 7); RErr E_CANCELLED; RErr E_CANCELLED], [],
     [(1, 1, Err E_CANCELLED); (1, 11, Err E_CANCELLED); (2, 2, Ok (VInt 7)); (3, 3, Err E_CANCELLED);
      (0, 20, Err E_CANCELLED)], 0, [20],
     [(Some (Err E_CANCELLED), [1; 11]); (Some (Ok (VInt 7)), [2]); (Some (Err E_CANCELLED), [3])]).
Proof. reflexivity. Qed.

(* an item subscriber cancels the BATCH from inside the flush body: the nested completion fills the
   remaining items, the body's next set raises FutureIsAlreadyComputed and is swallowed by _compute *)
Example cross_batch_from_item_nonvacuous :
  run_batch [([(1, CbSet 0 (Err 9) false)], [Ok (VInt 5)]); ([(2, CbOk)], [Ok (VInt 6)])]
            (PRet VNone) [] [BOn 0 (OSubscribe 20 CbOk); BOn 2 OValue; BOn 0 OError]
  = ([RUnit; RRaise 9; RErr 9], [RUnit; RRaise E_ALREADY],
     [(1, 1, Ok (VInt 5)); (2, 2, Err 9); (0, 20, Err 9)], 1, [20],
     [(Some (Ok (VInt 5)), [1]); (Some (Err 9), [2])]).
Proof. reflexivity. Qed.

Example batch_nonvacuous :
  run_batch [([(1, CbRaise XAssertion)], [Ok (VInt 5)]); ([(2, CbOk)], [Ok (VInt 6)]); ([(3, CbRaise XKey)], [])]
            (PRet VNone) [] [BOn 0 (OSubscribe 9 CbOk); BOn 2 OValue; BOn 3 OError; BOn 0 OError; BFlush]
  = ([RUnit; RVal (VInt 6); RErr E_NOTSET; RNoError; RRaise E_BATCHING], [RUnit; RUnit],
     [(1, 1, Ok (VInt 5)); (2, 2, Ok (VInt 6)); (3, 3, Err E_NOTSET); (0, 9, Ok VNone)], 1, [9],
     [(Some (Ok (VInt 5)), [1]); (Some (Ok (VInt 6)), [2]); (Some (Err E_NOTSET), [3])]).
Proof. reflexivity. Qed.
