(* C05, WHICH outcome an item completion carries - for every program, every record of knobs (priorities,
   raising flush bodies, oracle), history and fuel.

   O1 (stable outcome)  [stab]: a batch-item entry that has an outcome is never touched again by any
      transition; [pres]: no transition changes the outcome of any computed future; [OutInv]: every EvItemDone h o in the trace is recorded in the heap: the entry of h is
      mkFut (Some o) (KItem ...) - in the state that emitted it and in every later state.
   O2 (which outcome)   [expected_outcome]: the flush body walks the items in order and raises (if scripted)
      before touching item number k; an item occurring before the raise position ([reached]) whose
      scripted action is ASet v / AErr e gets Ok v / Err e; every other item gets the flush error if the
      body raised ([flush_err]), else the "was not set" AssertionError outcome Err E_NOTSET.
      Function level: flush_batch_events / flush_batch_item_done; step level: step_item_done; run /
      history level: the invariant [OInv] (trace = blocks whose completions carry the expected outcome
      and are recorded in the heap), run_case_flush_outcomes.

   Scheme as in MachineTrace.v / MachineC05T.v. *)
From Asynq Require Import Machine proofs.ProgProofs proofs.MachineFrame proofs.MachineC05 proofs.MachineC08
  proofs.MachineTrace proofs.MachineC05T proofs.MachineC05P.

(* ------------------------------------------------------------------ small facts *)
Lemma fid_eqb_sym a b : fid_eqb a b = fid_eqb b a.
Proof.
  destruct (fid_eqb a b) eqn:E; destruct (fid_eqb b a) eqn:E2; try reflexivity.
  - apply fid_eqb_eq in E. subst b. rewrite fid_eqb_refl in E2. discriminate.
  - apply fid_eqb_eq in E2. subst b. rewrite fid_eqb_refl in E. discriminate.
Qed.

Lemma fid_eqb_neq a b : fid_eqb a b = false -> a <> b.
Proof. intros E ->. rewrite fid_eqb_refl in E. discriminate. Qed.

(* membership test on handles *)
Definition mem (h : fid) (l : list fid) : bool := existsb (fun x => fid_eqb x h) l.

Lemma mem_In h l : mem h l = true <-> In h l.
Proof.
  unfold mem. rewrite existsb_exists. split.
  - intros (x & Hx & E). apply fid_eqb_eq in E. subst x. exact Hx.
  - intros Hin. exists h. split; [exact Hin|apply fid_eqb_refl].
Qed.

(* ------------------------------------------------------------------ complete_item, by cases *)
Lemma complete_item_cases h o s :
  (complete_item h o s = s /\ (get h s = None \/ exists f, get h s = Some f /\ f_out f <> None)) \/
  (exists f, get h s = Some f /\ f_out f = None /\
             complete_item h o s = emit (EvItemDone h o) (put h (mkFut (Some o) (f_kind f)) s)).
Proof.
  unfold complete_item. destruct (get h s) as [f|] eqn:G.
  - destruct (f_out f) as [o'|] eqn:O.
    + left. split; [reflexivity|]. right. exists f. split; [reflexivity|congruence].
    + right. exists f. auto.
  - left. split; [reflexivity|left; reflexivity].
Qed.

(* a sequence of completions (handle, outcome), applied left to right *)
Definition cstep (s : st) (ho : fid * outcome) : st := complete_item (fst ho) (snd ho) s.

(* the outcome paired with the FIRST occurrence of h *)
Definition first_of (h : fid) (L : list (fid * outcome)) : option outcome :=
  match find (fun ho => fid_eqb (fst ho) h) L with Some ho => Some (snd ho) | None => None end.

Lemma first_of_cons h h0 o0 L :
  first_of h ((h0, o0) :: L) = if fid_eqb h0 h then Some o0 else first_of h L.
Proof. unfold first_of. cbn [find fst]. destruct (fid_eqb h0 h); reflexivity. Qed.

Lemma first_of_app h A B :
  first_of h (A ++ B) = match first_of h A with Some o => Some o | None => first_of h B end.
Proof.
  induction A as [|[h0 o0] A IH]; [reflexivity|]. cbn [app]. rewrite !first_of_cons.
  destruct (fid_eqb h0 h); [reflexivity|exact IH].
Qed.

(* what a sequence of completions does: entries with an outcome are never touched; every completion
   event emitted is that of the first pair for its handle, whose entry had no outcome before and has
   exactly this outcome (same kind) afterwards *)
Lemma cfold_spec L : forall s,
  exists evs, trace (fold_left cstep L s) = evs ++ trace s /\
    (forall h f, get h s = Some f -> f_out f <> None -> get h (fold_left cstep L s) = Some f) /\
    (forall e, In e evs -> exists h o, e = EvItemDone h o) /\
    (forall h o, In (EvItemDone h o) evs ->
       first_of h L = Some o /\
       exists f, get h s = Some f /\ f_out f = None /\
                 get h (fold_left cstep L s) = Some (mkFut (Some o) (f_kind f))).
Proof.
  induction L as [|[h0 o0] L IH]; intros s; cbn [fold_left].
  - exists []. split; [reflexivity|]. split; [auto|]. split; [intros e []|intros h o []].
  - change (cstep s (h0, o0)) with (complete_item h0 o0 s).
    destruct (complete_item_cases h0 o0 s) as [[E N]|(f0 & G0 & O0 & E)]; rewrite E.
    + destruct (IH s) as (evs & T & C & Sh & Ev). exists evs. split; [exact T|]. split; [exact C|]. split; [exact Sh|].
      intros h o Hin. destruct (Ev h o Hin) as (Fo & f & G & O & G'). split; [|exists f; auto].
      rewrite first_of_cons. destruct (fid_eqb h0 h) eqn:E0; [|exact Fo].
      exfalso. apply fid_eqb_eq in E0. subst h0. destruct N as [N|(f1 & G1 & O1)]; congruence.
    + set (s1 := emit (EvItemDone h0 o0) (put h0 (mkFut (Some o0) (f_kind f0)) s)).
      assert (G1 : forall h, get h s1 = if fid_eqb h h0 then Some (mkFut (Some o0) (f_kind f0)) else get h s).
      { intros h. unfold s1. rewrite get_emit. apply get_put. }
      destruct (IH s1) as (evs & T & C & Sh & Ev). exists (evs ++ [EvItemDone h0 o0]).
      split; [rewrite T; unfold s1; cbn [trace emit]; rewrite <- app_assoc; reflexivity|]. split; [|split].
      * intros h f G O. apply C; [|exact O]. rewrite G1. destruct (fid_eqb h h0) eqn:E0; [|exact G].
        apply fid_eqb_eq in E0. subst h0. congruence.
      * intros e Hin. apply in_app_or in Hin as [Hin|[<-|[]]]; [exact (Sh e Hin)|]. exists h0, o0. reflexivity.
      * intros h o Hin. apply in_app_or in Hin as [Hin|[Hin|[]]].
        -- destruct (Ev h o Hin) as (Fo & f & G & O & G'). rewrite G1 in G. destruct (fid_eqb h h0) eqn:E0.
           ++ inversion G; subst f. cbn in O. discriminate.
           ++ split; [rewrite first_of_cons, fid_eqb_sym, E0; exact Fo|]. exists f. auto.
        -- inversion Hin; subst h o. split; [rewrite first_of_cons, fid_eqb_refl; reflexivity|].
           exists f0. split; [exact G0|]. split; [exact O0|]. apply C; [|cbn; discriminate].
           rewrite G1, fid_eqb_refl. reflexivity.
Qed.

(* ------------------------------------------------------------------ the flush body as a sequence of completions *)
(* what the scripted action of an item makes the body do *)
Definition act_out (a : iact) : option outcome :=
  match a with ASet v => Some (Ok v) | AErr e => Some (Err e) | ASkip => None end.

Definition act_of (h : fid) (s : st) : option outcome :=
  match get h s with Some (mkFut _ (KItem _ _ _ a)) => act_out a | _ => None end.

Definition body1 (s : st) (h : fid) : st :=
  match act_of h s with Some o => complete_item h o s | None => s end.

Lemma body1_eq h s :
  match get h s with
  | Some (mkFut _ (KItem _ _ _ (ASet v))) => complete_item h (Ok v) s
  | Some (mkFut _ (KItem _ _ _ (AErr e'))) => complete_item h (Err e') s
  | _ => s
  end = body1 s h.
Proof. unfold body1, act_of. destruct (get h s) as [[o [tk|kind idx key [v|e'|]|o'|]]|]; reflexivity. Qed.

(* the body, started at item number i of a batch, raises (before item number p of the remaining n items)
   iff the scripted position k lies in i .. i+n *)
Definition raises_in (i : Z) (ra : option (Z * exn)) (n : nat) : option (nat * exn) :=
  match ra with
  | Some (k, e) => if (i <=? k) && (k <=? i + Z.of_nat n) then Some (Z.to_nat (k - i), e) else None
  | None => None
  end.

Definition touched_from (i : Z) (ra : option (Z * exn)) (items : list fid) : list fid :=
  match raises_in i ra (length items) with Some (p, _) => firstn p items | None => items end.

Definition err_from (i : Z) (ra : option (Z * exn)) (n : nat) : option exn :=
  match raises_in i ra n with Some (_, e) => Some e | None => None end.

Lemma in_range_spec i k n : (i <=? k) && (k <=? i + Z.of_nat n) = true <-> i <= k <= i + Z.of_nat n.
Proof. rewrite andb_true_iff, !Z.leb_le. tauto. Qed.

Lemma raises_in_here k e n : raises_in k (Some (k, e)) n = Some (O, e).
Proof.
  unfold raises_in. assert ((k <=? k) && (k <=? k + Z.of_nat n) = true) as -> by (apply in_range_spec; lia).
  rewrite Z.sub_diag. reflexivity.
Qed.

Lemma raises_in_step i k e n : i <> k ->
  raises_in i (Some (k, e)) (S n) =
  match raises_in (i + 1) (Some (k, e)) n with Some (p, e') => Some (S p, e') | None => None end.
Proof.
  intros N. unfold raises_in.
  destruct ((i <=? k) && (k <=? i + Z.of_nat (S n))) eqn:A;
    destruct ((i + 1 <=? k) && (k <=? i + 1 + Z.of_nat n)) eqn:B; try reflexivity.
  - apply in_range_spec in A. f_equal. f_equal. lia.
  - apply in_range_spec in A. apply not_true_iff_false in B. rewrite in_range_spec in B. lia.
  - apply in_range_spec in B. apply not_true_iff_false in A. rewrite in_range_spec in A. lia.
Qed.

Lemma flush_body_fold items : forall i ra s,
  flush_body items i ra s = (fold_left body1 (touched_from i ra items) s, err_from i ra (length items)).
Proof.
  induction items as [|h rest IH]; intros i ra s.
  - cbn [flush_body]. unfold touched_from, err_from. cbn [length]. destruct ra as [[k e]|]; [|reflexivity].
    destruct (Z.eqb i k) eqn:E.
    + apply Z.eqb_eq in E. subst k. rewrite raises_in_here. reflexivity.
    + apply Z.eqb_neq in E. unfold raises_in.
      destruct ((i <=? k) && (k <=? i + Z.of_nat 0)) eqn:A; [|reflexivity].
      apply in_range_spec in A. lia.
  - cbn [flush_body]. rewrite body1_eq. unfold touched_from, err_from. cbn [length]. destruct ra as [[k e]|].
    + destruct (Z.eqb i k) eqn:E.
      * apply Z.eqb_eq in E. subst k. rewrite raises_in_here. reflexivity.
      * apply Z.eqb_neq in E. rewrite IH, (raises_in_step i k e _ E). unfold touched_from, err_from.
        destruct (raises_in (i + 1) (Some (k, e)) (length rest)) as [[p e']|]; reflexivity.
    + rewrite IH. reflexivity.
Qed.

(* the completions the body performs on [l], read off the heap of s0 *)
Definition ops (s0 : st) (l : list fid) : list (fid * outcome) :=
  flat_map (fun h => match act_of h s0 with Some o => [(h, o)] | None => [] end) l.

Lemma act_of_complete_item h h' o s : act_of h (complete_item h' o s) = act_of h s.
Proof.
  destruct (complete_item_cases h' o s) as [[E _]|(f & G & O & E)]; rewrite E; [reflexivity|].
  unfold act_of. rewrite get_emit, get_put. destruct (fid_eqb h h') eqn:E0; [|reflexivity].
  apply fid_eqb_eq in E0. subst h'. rewrite G. destruct f as [out kd]. reflexivity.
Qed.

Lemma act_of_body1 h s h' : act_of h (body1 s h') = act_of h s.
Proof. unfold body1. destruct (act_of h' s); [apply act_of_complete_item|reflexivity]. Qed.

Lemma ops_ext s s' l : (forall h, act_of h s' = act_of h s) -> ops s' l = ops s l.
Proof. intros H. unfold ops. apply flat_map_ext. intros h. rewrite H. reflexivity. Qed.

Lemma body_fold_ops l : forall s, fold_left body1 l s = fold_left cstep (ops s l) s.
Proof.
  induction l as [|h l IH]; intros s; [reflexivity|]. cbn [fold_left]. rewrite IH.
  rewrite (ops_ext s (body1 s h) l) by (intros h'; apply act_of_body1).
  unfold ops at 2. cbn [flat_map]. fold (ops s l). rewrite fold_left_app. unfold body1.
  destruct (act_of h s); reflexivity.
Qed.

Lemma fill_fold_ops o l : forall s,
  fold_left (fun s h => complete_item h o s) l s = fold_left cstep (map (fun h => (h, o)) l) s.
Proof. induction l as [|h l IH]; intros s; [reflexivity|]. cbn [fold_left map]. rewrite IH. reflexivity. Qed.

Lemma first_of_ops h s l : first_of h (ops s l) = if mem h l then act_of h s else None.
Proof.
  induction l as [|x l IH]; [reflexivity|]. unfold ops. cbn [flat_map]. fold (ops s l).
  rewrite first_of_app, IH. unfold mem. cbn [existsb]. fold (mem h l).
  destruct (fid_eqb x h) eqn:E.
  - apply fid_eqb_eq in E. subst x. cbn [orb]. destruct (act_of h s) as [o|].
    + rewrite first_of_cons, fid_eqb_refl. reflexivity.
    + cbn. destruct (mem h l); reflexivity.
  - cbn [orb]. destruct (act_of x s) as [o|]; [rewrite first_of_cons, E|]; reflexivity.
Qed.

Lemma first_of_fill h o l : first_of h (map (fun x => (x, o)) l) = if mem h l then Some o else None.
Proof.
  induction l as [|x l IH]; [reflexivity|]. cbn [map]. rewrite first_of_cons, IH. unfold mem. cbn [existsb].
  destruct (fid_eqb x h); reflexivity.
Qed.

Lemma touched_incl i ra items h : In h (touched_from i ra items) -> In h items.
Proof.
  unfold touched_from. destruct (raises_in i ra (length items)) as [[p e]|]; [|auto].
  intros H. rewrite <- (firstn_skipn p items). apply in_or_app. left. exact H.
Qed.

(* ------------------------------------------------------------------ O2, the vocabulary *)
Definition fill_of (err : option exn) : outcome :=
  match err with Some e => Err e | None => Err E_NOTSET end.

(* where the body of a batch of n items raises: before item number p (p = n: after the last item) *)
Definition raise_pos (ra : option (Z * exn)) (n : nat) : option (nat * exn) := raises_in 0 ra n.

(* the error the flush body of these items raises, if any *)
Definition flush_err (ra : option (Z * exn)) (items : list fid) : option exn := err_from 0 ra (length items).

(* h occurs among the items the body reaches before it raises (all items when it does not raise) *)
Definition reached (ra : option (Z * exn)) (items : list fid) (h : fid) : bool := mem h (touched_from 0 ra items).

(* C05's clause: the value / error the body set for the item - or, when it set nothing (the action is ASkip,
   or the body raised before reaching the item), the flush error, or the "not set" AssertionError *)
Definition expected_outcome (a : iact) (rch : bool) (ferr : option exn) : outcome :=
  match a, rch with
  | ASet v, true => Ok v
  | AErr e, true => Err e
  | _, _ => fill_of ferr
  end.

Lemma raise_pos_spec k e n :
  raise_pos (Some (k, e)) n = if (0 <=? k) && (k <=? Z.of_nat n) then Some (Z.to_nat k, e) else None.
Proof. unfold raise_pos, raises_in. rewrite Z.add_0_l, Z.sub_0_r. reflexivity. Qed.

Lemma flush_err_spec ra items :
  flush_err ra items = match raise_pos ra (length items) with Some (_, e) => Some e | None => None end.
Proof. reflexivity. Qed.

Lemma reached_spec ra items h :
  reached ra items h = mem h (match raise_pos ra (length items) with Some (p, _) => firstn p items | None => items end).
Proof. reflexivity. Qed.

Lemma mem_firstn_nth h : forall p items,
  mem h (firstn p items) = true <-> exists j, (j < p)%nat /\ nth_error items j = Some h.
Proof.
  induction p as [|p IH]; intros items.
  - cbn. split; [discriminate|]. intros (j & Hj & _). lia.
  - destruct items as [|x items].
    + cbn. split; [discriminate|]. intros (j & _ & Hj). destruct j; discriminate.
    + cbn [firstn]. unfold mem. cbn [existsb]. fold (mem h (firstn p items)). rewrite orb_true_iff, IH. split.
      * intros [E|(j & Hj & Hn)].
        -- apply fid_eqb_eq in E. subst x. exists O. split; [lia|reflexivity].
        -- exists (S j). split; [lia|exact Hn].
      * intros ([|j] & Hj & Hn).
        -- cbn in Hn. inversion Hn; subst. left. apply fid_eqb_refl.
        -- right. exists j. split; [lia|exact Hn].
Qed.

(* the position form: when the body raises before item number p, the reached items are those at a position < p *)
Lemma reached_position ra items h p e :
  raise_pos ra (length items) = Some (p, e) ->
  (reached ra items h = true <-> exists j, (j < p)%nat /\ nth_error items j = Some h).
Proof. intros E. rewrite reached_spec, E. apply mem_firstn_nth. Qed.

Lemma reached_no_raise ra items h :
  raise_pos ra (length items) = None -> (reached ra items h = true <-> In h items).
Proof. intros E. rewrite reached_spec, E. apply mem_In. Qed.

Lemma expected_outcome_cases v e e' :
  (forall ferr, expected_outcome (ASet v) true ferr = Ok v) /\
  (forall ferr, expected_outcome (AErr e) true ferr = Err e) /\
  (forall ferr, expected_outcome ASkip true ferr = fill_of ferr) /\
  (forall a ferr, expected_outcome a false ferr = fill_of ferr) /\
  fill_of (Some e') = Err e' /\ fill_of None = Err E_NOTSET.
Proof. repeat split; try reflexivity. intros a ferr. destruct a; reflexivity. Qed.

Lemma expected_outcome_alt a rch ferr :
  expected_outcome a rch ferr = match (if rch then act_out a else None) with Some o => o | None => fill_of ferr end.
Proof. destruct a, rch; reflexivity. Qed.

(* ------------------------------------------------------------------ O2, function level *)
(* one BatchBase.flush of a pending batch, on ANY state: the events are the EvFlush and then completions
   only; entries that had an outcome are untouched; every completion event emitted is for an item of
   the batch whose entry had no outcome, stores exactly the announced outcome (same kind), and the
   outcome is: what the item's scripted action sets if the body reaches the item, else the fill *)
Lemma flush_batch_form P k s : b_done (get_batch k s) = false ->
  let items := b_items (get_batch k s) in
  let ra := ks_raise (kspec_of P (fst k)) in
  exists dones, trace (flush_batch P k s) = (dones ++ [EvFlush (fst k) (snd k) items]) ++ trace s /\
    (forall h f, get h s = Some f -> f_out f <> None -> get h (flush_batch P k s) = Some f) /\
    (forall e, In e dones -> exists h o, e = EvItemDone h o) /\
    (forall h o, In (EvItemDone h o) dones ->
       In h items /\
       exists f, get h s = Some f /\ f_out f = None /\
                 get h (flush_batch P k s) = Some (mkFut (Some o) (f_kind f)) /\
                 o = match (if reached ra items h then act_of h s else None) with
                     | Some o' => o' | None => fill_of (flush_err ra items) end).
Proof.
  intros Hd items ra. unfold flush_batch. rewrite Hd. fold items. fold ra.
  set (s0 := if Z.eqb (cur_idx (fst k) s) (snd k) then with_cur s (upd Z.eqb (fst k) (snd k + 1) (cur s)) else s).
  assert (V0 : (forall h, get h s0 = get h s) /\ trace s0 = trace s).
  { unfold s0. destruct (Z.eqb _ _); split; reflexivity. }
  destruct V0 as [G0 T0].
  set (s1 := emit (EvFlush (fst k) (snd k) items) s0).
  assert (G1 : forall h, get h s1 = get h s) by (intros h; unfold s1; rewrite get_emit; apply G0).
  assert (A1 : forall h, act_of h s1 = act_of h s) by (intros h; unfold act_of; rewrite G1; reflexivity).
  rewrite flush_body_fold. fold (flush_err ra items).
  change (match flush_err ra items with Some e => Err e | None => Err E_NOTSET end) with (fill_of (flush_err ra items)).
  rewrite fill_fold_ops, body_fold_ops, <- fold_left_app.
  set (L := ops s1 (touched_from 0 ra items) ++ map (fun h => (h, fill_of (flush_err ra items))) items).
  destruct (cfold_spec L s1) as (dones & T & C & Sh & Ev).
  set (s3 := fold_left cstep L s1) in *.
  exists dones. split; [|split; [|split]].
  - change (trace (put_batch k (mkB (b_items (get_batch k s3)) true) s3)) with (trace s3).
    rewrite T. unfold s1. cbn [trace emit]. rewrite T0, <- app_assoc. reflexivity.
  - intros h f G O. change (get h (put_batch k (mkB (b_items (get_batch k s3)) true) s3)) with (get h s3).
    apply C; [rewrite G1; exact G|exact O].
  - exact Sh.
  - intros h o Hin. destruct (Ev h o Hin) as (Fo & f & G & O & G').
    change (get h (put_batch k (mkB (b_items (get_batch k s3)) true) s3)) with (get h s3).
    unfold L in Fo. rewrite first_of_app, first_of_ops, first_of_fill, A1 in Fo. fold (reached ra items h) in Fo.
    rewrite G1 in G.
    destruct (if reached ra items h then act_of h s else None) as [o'|] eqn:R.
    + inversion Fo; subst o'. split.
      * destruct (reached ra items h) eqn:R2; [|discriminate]. apply mem_In in R2. exact (touched_incl _ _ _ _ R2).
      * exists f. auto.
    + destruct (mem h items) eqn:M; [|discriminate]. inversion Fo; subst o. split; [apply mem_In; exact M|].
      exists f. auto.
Qed.

Theorem flush_batch_events P k s evs : b_done (get_batch k s) = false ->
  trace (flush_batch P k s) = evs ++ trace s ->
  let items := b_items (get_batch k s) in
  let ra := ks_raise (kspec_of P (fst k)) in
  In (EvFlush (fst k) (snd k) items) evs /\
  (forall h f, get h s = Some f -> f_out f <> None -> get h (flush_batch P k s) = Some f) /\
  (forall h o, In (EvItemDone h o) evs ->
     In h items /\
     exists f, get h s = Some f /\ f_out f = None /\
               get h (flush_batch P k s) = Some (mkFut (Some o) (f_kind f)) /\
               o = match (if reached ra items h then act_of h s else None) with
                   | Some o' => o' | None => fill_of (flush_err ra items) end).
Proof.
  intros Hd T items ra. destruct (flush_batch_form P k s Hd) as (dones & T' & C & Sh & Ev).
  fold items in T', Ev. fold ra in Ev.
  assert (E : evs = dones ++ [EvFlush (fst k) (snd k) items]).
  { apply (app_inv_tail (trace s)). rewrite <- T, <- T'. reflexivity. }
  subst evs. split; [apply in_or_app; right; left; reflexivity|]. split; [exact C|].
  intros h o Hin. apply in_app_or in Hin as [Hin|[Hin|[]]]; [exact (Ev h o Hin)|discriminate Hin].
Qed.

(* with the heap invariant BI (every member of a batch is an item entry recording that batch, without
   outcome while the batch is pending): the outcome is the expected one *)
Theorem flush_batch_item_done P k s evs h o : BI s -> b_done (get_batch k s) = false ->
  trace (flush_batch P k s) = evs ++ trace s -> In (EvItemDone h o) evs ->
  let items := b_items (get_batch k s) in
  let ra := ks_raise (kspec_of P (fst k)) in
  In h items /\
  exists key a, get h s = Some (mkFut None (KItem (fst k) (snd k) key a)) /\
                get h (flush_batch P k s) = Some (mkFut (Some o) (KItem (fst k) (snd k) key a)) /\
                o = expected_outcome a (reached ra items h) (flush_err ra items).
Proof.
  intros B Hd T Hin items ra. destruct (flush_batch_events P k s evs Hd T) as (_ & _ & Ev).
  destruct (Ev h o Hin) as (Hi & f & G & O & G' & Eo). split; [exact Hi|].
  destruct (B k h Hi) as (out & key & a & Gb & Hout). specialize (Hout Hd). subst out.
  rewrite G in Gb. inversion Gb; subst f. cbn [f_kind] in G'. exists key, a. split; [exact G|]. split; [exact G'|].
  rewrite expected_outcome_alt. unfold act_of in Eo. rewrite G in Eo. exact Eo.
Qed.

(* ------------------------------------------------------------------ O1: outcomes of items are stable *)
(* an item entry that has an outcome is the same entry afterwards *)
Definition stab (s s' : st) : Prop :=
  forall h f, get h s = Some f -> is_itemk f -> f_out f <> None -> get h s' = Some f.

Lemma stab_refl s : stab s s. Proof. intros h f G _ _. exact G. Qed.
Lemma stab_trans a b c : stab a b -> stab b c -> stab a c.
Proof. intros A B h f G I O. apply B; auto. Qed.
Lemma keep_stab s s' : keep s s' -> stab s s'.
Proof. intros [_ K] h f G I _. exact (K h f G I). Qed.
Lemma stab_view s s' : heap s' = heap s -> stab s s'.
Proof. intros E h f G _ _. unfold get in *. rewrite E. exact G. Qed.

Lemma stab_flush_batch P k s : stab s (flush_batch P k s).
Proof.
  destruct (b_done (get_batch k s)) eqn:Hd; [rewrite (flush_done_is_noop P k s Hd); apply stab_refl|].
  destruct (flush_batch_form P k s Hd) as (dones & _ & C & _). intros h f G _ O. exact (C h f G O).
Qed.

(* _continue_with_batch, unfolded once *)
Lemma continue_with_batch_form P s :
  match select P s with
  | (None, s1) => continue_with_batch P s = s1 /\ keep s s1 /\ mild s s1
  | (Some k, s1) =>
    exists s3 e1, continue_with_batch P s = emit (EvAfter (fst k) (snd k)) (flush_batch P k s3) /\
      heap s3 = heap s /\ batches s3 = batches s /\
      trace s3 = EvBefore (fst k) (snd k) :: e1 ++ trace s /\ Forall tame e1 /\
      b_done (get_batch k s3) = false /\ b_items (get_batch k s3) <> []
  end.
Proof.
  unfold continue_with_batch. pose proof (keep_select P s) as K. pose proof (mild_select P s) as M.
  pose proof (select_batches P s) as [Hb Hh].
  destruct (select P s) as [[k|] s1] eqn:Sel; cbn [snd] in *; [|auto].
  destruct M as (e1 & T1 & F1 & _). destruct (select_nonempty_pending _ _ _ _ Sel) as [Hne Hd].
  exists (emit (EvBefore (fst k) (snd k)) (with_sb s1 (filter (fun k' => negb (key_eqb k' k)) (sb s1)))), e1.
  split; [reflexivity|]. split; [exact Hh|]. split; [exact Hb|]. split; [cbn [trace emit with_sb]; rewrite T1; reflexivity|].
  split; [exact F1|].
  assert (E : get_batch k (emit (EvBefore (fst k) (snd k)) (with_sb s1 (filter (fun k' => negb (key_eqb k' k)) (sb s1)))) = get_batch k s).
  { unfold get_batch. cbn [batches emit with_sb]. rewrite Hb. reflexivity. }
  rewrite E. split; assumption.
Qed.

Lemma stab_continue_with_batch P s : stab s (continue_with_batch P s).
Proof.
  pose proof (continue_with_batch_form P s) as F. destruct (select P s) as [[k|] s1].
  - destruct F as (s3 & e1 & -> & Hh & Hb & _). eapply stab_trans; [apply stab_view; exact Hh|].
    eapply stab_trans; [apply stab_flush_batch|apply stab_view; reflexivity].
  - destruct F as (-> & K & _). apply keep_stab. exact K.
Qed.

(* creating a future: the fresh id has no entry yet *)
Lemma stab_create p f s : dom s -> stab s (snd (create p f s)).
Proof.
  intros D h0 f0 G _ _. unfold create, alloc. cbn zeta.
  assert (N : fid_eqb h0 [top_next s] = false).
  { destruct (fid_eqb h0 [top_next s]) eqn:E; [|reflexivity]. apply fid_eqb_eq in E. subst h0.
    rewrite (fresh_none s D) in G. discriminate. }
  destruct f; cbn [snd]; try change (get h0 (put_batch ?k ?b ?s')) with (get h0 s'); rewrite get_put, N; exact G.
Qed.

Lemma stab_inst p y s : dom s -> stab s (snd (inst p y s)).
Proof.
  intros D.
  assert (H : dom (snd (inst p y s)) /\ stab s (snd (inst p y s))).
  { apply (inst_pres (fun s' => dom s' /\ stab s s')); [|split; [exact D|apply stab_refl]].
    intros p0 f0 s0 [D0 S0]. split.
    - destruct (mild_create p0 f0 s0) as (evs & _ & _ & G). exact (proj1 (G D0)).
    - eapply stab_trans; [exact S0|apply stab_create; exact D0]. }
  exact (proj2 H).
Qed.

(* no transition of the machine ever touches a batch-item entry that has an outcome *)
Theorem stab_step P c : dom (c_st c) -> stab (c_st c) (c_st (step P c)).
Proof.
  destruct c as [m fr s]. cbn [c_st]. intros D.
  assert (Q : forall s', keep s s' -> stab s s') by (intros s'; apply keep_stab).
  destruct m as [h| | | |t|t p| |o|e|o|]; cbn [step c_mode c_frames c_st];
    try (destr_eq; first [apply stab_refl | apply stab_flush_batch | apply stab_continue_with_batch | (apply Q; kh)]; fail).
  (* MRun *)
  destruct p as [v|v|e|y k|f k|h k|cx k|cx k|var k|k]; cbn [c_st];
    try (destr_eq; first [apply stab_refl | (apply Q; kh)]; fail).
  - pose proof (stab_inst t y s D) as S1. destruct (inst t y s) as [y' s1]. cbn [snd] in S1.
    destruct (get_task t s1) as [tk|] eqn:G; cbn [c_st]; [|exact S1].
    destruct (futs (extract y')); cbn [c_st]; (eapply stab_trans; [exact S1|apply keep_stab]); kh.
  - pose proof (stab_create t f s D) as S1. destruct (create t f s) as [h s1]. cbn [snd c_st] in *. exact S1.
Qed.

Lemma stab_run P n : forall c, Inv (c_st c) -> stab (c_st c) (c_st (run P n c)).
Proof.
  induction n as [|n IH]; intros c HI; [apply stab_refl|]. rewrite run_S.
  destruct (is_final (c_mode c)); [apply stab_refl|].
  eapply stab_trans; [apply stab_step; exact (proj1 HI)|apply IH; apply Inv_step; exact HI].
Qed.

(* ------------------------------------------------------------------ O2, step level *)
(* the completion EvItemDone h o among the events [evs] that lead from s to s' is the work of ONE flush
   of a pending batch k of s that contains h: the flush body's event is in evs too, h was an item entry of
   that batch without outcome, its entry now holds exactly o, and o is the expected outcome *)
Definition item_done_by (P : params) (s s' : st) (evs : list event) (h : fid) (o : outcome) : Prop :=
  exists k key a,
    let items := b_items (get_batch k s) in
    let ra := ks_raise (kspec_of P (fst k)) in
    b_done (get_batch k s) = false /\ In h items /\
    In (EvFlush (fst k) (snd k) items) evs /\
    get h s = Some (mkFut None (KItem (fst k) (snd k) key a)) /\
    get h s' = Some (mkFut (Some o) (KItem (fst k) (snd k) key a)) /\
    o = expected_outcome a (reached ra items h) (flush_err ra items).

Ltac lnorm := repeat (cbn [app]; rewrite <- app_assoc); cbn [app].

Lemma fb_item_done P k s evs h o : BI s ->
  trace (flush_batch P k s) = evs ++ trace s -> In (EvItemDone h o) evs ->
  item_done_by P s (flush_batch P k s) evs h o.
Proof.
  intros B T Hin. destruct (b_done (get_batch k s)) eqn:Hd.
  - exfalso. rewrite (flush_done_is_noop P k s Hd) in T.
    assert (evs = []) by (apply (app_inv_tail (trace s)); rewrite <- T; reflexivity). subst evs. destruct Hin.
  - destruct (flush_batch_item_done P k s evs h o B Hd T Hin) as (Hi & key & a & G & G' & Eo).
    destruct (flush_batch_events P k s evs Hd T) as (HF & _).
    exists k, key, a. cbn zeta. split; [exact Hd|]. split; [exact Hi|]. split; [exact HF|]. auto.
Qed.

Lemma tame_not_done evs h o : Forall tame evs -> ~ In (EvItemDone h o) evs.
Proof. intros F Hin. rewrite Forall_forall in F. exact (F _ Hin). Qed.

Lemma cwb_item_done P s evs h o : BI s ->
  trace (continue_with_batch P s) = evs ++ trace s -> In (EvItemDone h o) evs ->
  item_done_by P s (continue_with_batch P s) evs h o.
Proof.
  intros B T Hin. pose proof (continue_with_batch_form P s) as F.
  destruct (select P s) as [[k|] s1].
  - destruct F as (s3 & e1 & E & Hh & Hb & T3 & F1 & Hd & Hne).
    assert (GB : forall k', get_batch k' s3 = get_batch k' s) by (intros k'; unfold get_batch; rewrite Hb; reflexivity).
    assert (GH : forall h', get h' s3 = get h' s) by (intros h'; unfold get; rewrite Hh; reflexivity).
    assert (B3 : BI s3) by (apply (BI_keep s); [exact B|apply keep_view; assumption]).
    destruct (flush_batch_form P k s3 Hd) as (dones & T4 & _).
    rewrite E in T |- *. cbn [trace emit] in T. rewrite T4, T3 in T.
    assert (Ev : evs = EvAfter (fst k) (snd k) :: (dones ++ [EvFlush (fst k) (snd k) (b_items (get_batch k s3))]) ++ EvBefore (fst k) (snd k) :: e1).
    { apply (app_inv_tail (trace s)). rewrite <- T. lnorm. reflexivity. }
    subst evs. destruct Hin as [Hin|Hin]; [discriminate Hin|]. apply in_app_or in Hin as [Hin|Hin].
    + destruct (flush_batch_item_done P k s3 _ h o B3 Hd T4 Hin) as (Hi & key & a & G & G' & Eo).
      exists k, key, a. cbn zeta. rewrite <- !GB, <- GH. split; [exact Hd|]. split; [exact Hi|].
      split; [right; apply in_or_app; left; apply in_or_app; right; left; reflexivity|].
      split; [exact G|]. split; [exact G'|exact Eo].
    + destruct Hin as [Hin|Hin]; [discriminate Hin|]. destruct (tame_not_done _ _ _ F1 Hin).
  - exfalso. destruct F as (E & _ & (e1 & T1 & F1 & _)). rewrite E in T.
    assert (evs = e1) by (apply (app_inv_tail (trace s)); rewrite <- T, <- T1; reflexivity). subst evs.
    exact (tame_not_done _ _ _ F1 Hin).
Qed.

(* every completion event gained by ONE transition of the machine, from ANY configuration whose heap
   satisfies BI *)
Theorem step_item_done P c evs h o : BI (c_st c) ->
  trace (c_st (step P c)) = evs ++ trace (c_st c) -> In (EvItemDone h o) evs ->
  item_done_by P (c_st c) (c_st (step P c)) evs h o.
Proof.
  intros B T Hin. destruct (flushes c) eqn:E.
  - destruct (flushes_true c E) as (Hm & root & fr & Hf & Hc). destruct c as [m fr0 s]. cbn [c_mode c_frames c_st] in *.
    subst m fr0. cbn [step c_mode c_frames c_st] in T |- *. rewrite Hc in T |- *. cbn [c_st] in T |- *.
    exact (cwb_item_done P s evs h o B T Hin).
  - destruct (syncs c) eqn:E2.
    + destruct (step_syncs P c E2) as (k & Ek). rewrite Ek in T |- *. exact (fb_item_done P k _ evs h o B T Hin).
    + exfalso. destruct (step_mild P c E E2) as (evs' & T' & F & _).
      assert (evs = evs') by (apply (app_inv_tail (trace (c_st c))); rewrite <- T, <- T'; reflexivity). subst evs'.
      exact (tame_not_done _ _ _ F Hin).
Qed.

(* ------------------------------------------------------------------ O1: the announced outcome is the stored one *)
Definition OutInv (s : st) : Prop :=
  forall h o, In (EvItemDone h o) (trace s) ->
    exists kind idx key a, get h s = Some (mkFut (Some o) (KItem kind idx key a)).

Theorem OutInv_step P c : dom (c_st c) -> BI (c_st c) -> OutInv (c_st c) -> OutInv (c_st (step P c)).
Proof.
  intros D B HO h o Hin. destruct (step_trace P c) as (evs & T). rewrite T in Hin. apply in_app_or in Hin as [Hin|Hin].
  - destruct (step_item_done P c evs h o B T Hin) as (k & key & a & _ & _ & _ & _ & G' & _).
    exists (fst k), (snd k), key, a. exact G'.
  - destruct (HO h o Hin) as (kind & idx & key & a & G). exists kind, idx, key, a.
    apply (stab_step P c D); [exact G|exact I|cbn; discriminate].
Qed.

(* ------------------------------------------------------------------ blocks with a predicate on each flush *)
(* MachineC05T.blocksR / blocks with [served items dones] replaced by any predicate Q kind idx items dones *)
Section GBlocks.
  Variable Q : Z -> Z -> list fid -> list event -> Prop.

  (* newest first *)
  Inductive gblocksR : list event -> Prop :=
  | gblocksR_nil : gblocksR []
  | gblocksR_tame e tr : tame e -> gblocksR tr -> gblocksR (e :: tr)
  | gblocksR_sync kind idx items dones tr :
      Q kind idx items dones -> gblocksR tr -> gblocksR (dones ++ EvFlush kind idx items :: tr)
  | gblocksR_sched kind idx items dones tr :
      items <> [] -> Q kind idx items dones -> gblocksR tr ->
      gblocksR (EvAfter kind idx :: dones ++ EvFlush kind idx items :: EvBefore kind idx :: tr).

  (* chronological *)
  Inductive gblocks : list event -> Prop :=
  | gblocks_nil : gblocks []
  | gblocks_tame e tr : tame e -> gblocks tr -> gblocks (e :: tr)
  | gblocks_sync kind idx items dones tr :
      Q kind idx items dones -> gblocks tr -> gblocks (EvFlush kind idx items :: dones ++ tr)
  | gblocks_sched kind idx items dones tr :
      items <> [] -> Q kind idx items dones -> gblocks tr ->
      gblocks (EvBefore kind idx :: EvFlush kind idx items :: dones ++ EvAfter kind idx :: tr).

  Lemma gblocksR_app a b : gblocksR a -> gblocksR b -> gblocksR (a ++ b).
  Proof.
    intros Ha Hb. induction Ha as [|e tr He Ht IH|kind idx items dones tr Hd Ht IH|kind idx items dones tr Hi Hd Ht IH]; [exact Hb| | |].
    - cbn [app]. apply gblocksR_tame; assumption.
    - rewrite <- app_assoc. cbn [app]. apply gblocksR_sync; assumption.
    - cbn [app]. rewrite <- app_assoc. cbn [app]. apply gblocksR_sched; assumption.
  Qed.

  Lemma gblocks_app a b : gblocks a -> gblocks b -> gblocks (a ++ b).
  Proof.
    intros Ha Hb. induction Ha as [|e tr He Ht IH|kind idx items dones tr Hd Ht IH|kind idx items dones tr Hi Hd Ht IH]; [exact Hb| | |].
    - cbn [app]. apply gblocks_tame; assumption.
    - cbn [app]. rewrite <- app_assoc. apply gblocks_sync; assumption.
    - cbn [app]. rewrite <- app_assoc. cbn [app]. apply gblocks_sched; assumption.
  Qed.

  Lemma gblocksR_all_tame evs : Forall tame evs -> gblocksR evs.
  Proof. intros H. induction H as [|e evs He Hf IH]; [constructor|apply gblocksR_tame; assumption]. Qed.

  Hypothesis Q_rev : forall kind idx items dones, Q kind idx items dones -> Q kind idx items (rev dones).
  Hypothesis Q_done : forall kind idx items dones, Q kind idx items dones -> Forall (done_in items) dones.

  Lemma gblocksR_rev tr : gblocksR tr -> gblocks (rev tr).
  Proof.
    intros H. induction H as [|e tr He Ht IH|kind idx items dones tr Hd Ht IH|kind idx items dones tr Hi Hd Ht IH]; [constructor| | |].
    - cbn [rev]. apply gblocks_app; [exact IH|]. apply gblocks_tame; [exact He|constructor].
    - rewrite rev_app_distr. cbn [rev]. rewrite <- !app_assoc. cbn [app].
      apply gblocks_app; [exact IH|]. rewrite <- (app_nil_r (rev dones)).
      apply gblocks_sync; [apply Q_rev; exact Hd|constructor].
    - cbn [rev]. rewrite rev_app_distr. cbn [rev]. rewrite <- !app_assoc. cbn [app].
      apply gblocks_app; [exact IH|]. apply gblocks_sched; [exact Hi|apply Q_rev; exact Hd|constructor].
  Qed.

  (* every flush body (bracketed or not) is followed by completions satisfying Q *)
  Lemma gblocks_flush tr : gblocks tr -> forall l1 l2 kind idx items,
    tr = l1 ++ EvFlush kind idx items :: l2 ->
    exists dones l3, l2 = dones ++ l3 /\ Q kind idx items dones.
  Proof.
    intros H. induction H as [|e tr He Ht IH|k0 i0 items0 dones tr Hd Ht IH|k0 i0 items0 dones tr Hi Hd Ht IH];
      intros l1 l2 kind idx items E.
    - destruct l1; discriminate.
    - destruct l1 as [|x l1]; cbn [app] in E; injection E as Ex Et.
      + subst e. destruct He.
      + exact (IH l1 l2 kind idx items Et).
    - destruct l1 as [|x l1]; cbn [app] in E; injection E as Ex Et.
      + inversion Ex; subst. exists dones, tr. auto.
      + destruct (app_eq_split _ _ _ _ _ Et) as [(a2 & -> & _)|(c' & -> & Hc)].
        * destruct (done_in_mid _ _ _ _ (Q_done _ _ _ _ Hd)) as [Hx _]. destruct Hx.
        * exact (IH c' l2 kind idx items Hc).
    - destruct l1 as [|x l1]; cbn [app] in E; [discriminate E|]. injection E as Ex Et.
      destruct l1 as [|y l1]; cbn [app] in Et; injection Et as Ey Et.
      + inversion Ey; subst. exists dones, (EvAfter kind idx :: tr). auto.
      + destruct (app_eq_split _ _ _ _ _ Et) as [(a2 & -> & _)|(c' & -> & Hc)].
        * destruct (done_in_mid _ _ _ _ (Q_done _ _ _ _ Hd)) as [Hx _]. destruct Hx.
        * destruct c' as [|z c']; cbn [app] in Hc; [discriminate Hc|]. injection Hc as Ez Hc.
          exact (IH c' l2 kind idx items Hc).
  Qed.

  (* every item completion lies among the completions of a flush, which satisfy Q *)
  Lemma gblocks_item tr : gblocks tr -> forall l1 l2 h o,
    tr = l1 ++ EvItemDone h o :: l2 ->
    exists kind idx items l0 pre post, l1 = l0 ++ EvFlush kind idx items :: pre /\
                                       Q kind idx items (pre ++ EvItemDone h o :: post).
  Proof.
    intros H. induction H as [|e tr He Ht IH|k0 i0 items dones tr Hd Ht IH|k0 i0 items dones tr Hi Hd Ht IH];
      intros l1 l2 h o E.
    - destruct l1; discriminate.
    - destruct l1 as [|x l1]; cbn [app] in E; injection E as Ex Et.
      + subst e. destruct He.
      + destruct (IH l1 l2 h o Et) as (kind & idx & items & l0 & pre & post & -> & HQ).
        exists kind, idx, items, (x :: l0), pre, post. auto.
    - destruct l1 as [|x l1]; cbn [app] in E; [discriminate E|]. injection E as Ex Et. subst x.
      destruct (app_eq_split _ _ _ _ _ Et) as [(a2 & -> & _)|(c' & -> & Hc)].
      + exists k0, i0, items, [], l1, a2. split; [reflexivity|exact Hd].
      + destruct (IH c' l2 h o Hc) as (kind & idx & items' & l0 & pre & post & -> & HQ).
        exists kind, idx, items', (EvFlush k0 i0 items :: dones ++ l0), pre, post. split; [|exact HQ].
        cbn [app]. rewrite <- app_assoc. reflexivity.
    - destruct l1 as [|x l1]; cbn [app] in E; [discriminate E|]. injection E as Ex Et.
      destruct l1 as [|y l1]; cbn [app] in Et; [discriminate Et|]. injection Et as Ey Et. subst x y.
      destruct (app_eq_split _ _ _ _ _ Et) as [(a2 & -> & _)|(c' & -> & Hc)].
      + exists k0, i0, items, [EvBefore k0 i0], l1, a2. split; [reflexivity|exact Hd].
      + destruct c' as [|z c']; cbn [app] in Hc; injection Hc as Ez Hc; [discriminate Ez|]. subst z.
        destruct (IH c' l2 h o Hc) as (kind & idx & items' & l0 & pre & post & -> & HQ).
        exists kind, idx, items', (EvBefore k0 i0 :: EvFlush k0 i0 items :: dones ++ EvAfter k0 i0 :: l0), pre, post.
        split; [|exact HQ]. cbn [app]. rewrite <- app_assoc. reflexivity.
  Qed.
End GBlocks.

Lemma gblocksR_mono (Q1 Q2 : Z -> Z -> list fid -> list event -> Prop) tr :
  (forall kind idx items dones, Q1 kind idx items dones -> Q2 kind idx items dones) ->
  gblocksR Q1 tr -> gblocksR Q2 tr.
Proof.
  intros HQ H. induction H as [|e tr He Ht IH|kind idx items dones tr Hd Ht IH|kind idx items dones tr Hi Hd Ht IH].
  - constructor.
  - apply gblocksR_tame; assumption.
  - apply gblocksR_sync; [apply HQ; exact Hd|exact IH].
  - apply gblocksR_sched; [exact Hi|apply HQ; exact Hd|exact IH].
Qed.

(* ------------------------------------------------------------------ O2: the predicate on one flush *)
(* the completions [dones] of the flush of batch (kind, idx) with item list [items], judged in state s:
   completions of members of items only, every member has one (served), and every completion
   EvItemDone h o is recorded in the heap entry of h - an item entry of THIS batch holding outcome o - and
   o is the expected outcome for the scripted action a of h *)
Definition oserved (P : params) (s : st) (kind idx : Z) (items : list fid) (dones : list event) : Prop :=
  served items dones /\
  forall h o, In (EvItemDone h o) dones ->
    exists key a, get h s = Some (mkFut (Some o) (KItem kind idx key a)) /\
      o = expected_outcome a (reached (ks_raise (kspec_of P kind)) items h)
                             (flush_err (ks_raise (kspec_of P kind)) items).

Lemma oserved_rev P s kind idx items dones :
  oserved P s kind idx items dones -> oserved P s kind idx items (rev dones).
Proof. intros [S H]. split; [apply served_rev; exact S|]. intros h o Hin. apply in_rev in Hin. exact (H h o Hin). Qed.

Lemma oserved_done P s kind idx items dones : oserved P s kind idx items dones -> Forall (done_in items) dones.
Proof. intros [[F _] _]. exact F. Qed.

Lemma oserved_mono P s s' kind idx items dones :
  stab s s' -> oserved P s kind idx items dones -> oserved P s' kind idx items dones.
Proof.
  intros S [Sv H]. split; [exact Sv|]. intros h o Hin. destruct (H h o Hin) as (key & a & G & Eo).
  exists key, a. split; [|exact Eo]. apply S; [exact G|exact I|cbn; discriminate].
Qed.

Lemma oblocksR_mono P s s' tr : stab s s' -> gblocksR (oserved P s) tr -> gblocksR (oserved P s') tr.
Proof. intros S. apply gblocksR_mono. intros kind idx items dones. apply oserved_mono. exact S. Qed.

(* one flush of a pending batch is one block whose completions carry the expected outcomes *)
Lemma oblock_flush P k s : BI s -> b_done (get_batch k s) = false ->
  exists dones,
    trace (flush_batch P k s) = (dones ++ [EvFlush (fst k) (snd k) (b_items (get_batch k s))]) ++ trace s /\
    oserved P (flush_batch P k s) (fst k) (snd k) (b_items (get_batch k s)) dones.
Proof.
  intros B Hd. destruct (flush_batch_form P k s Hd) as (dones & T & _ & Sh & Ev). exists dones. split; [exact T|].
  assert (F : Forall (done_in (b_items (get_batch k s))) dones).
  { apply Forall_forall. intros e He. destruct (Sh e He) as (h & o & ->). cbn. exact (proj1 (Ev h o He)). }
  split; [exact (served_flush P k s dones B Hd T F)|].
  intros h o Hin.
  assert (Hin' : In (EvItemDone h o) (dones ++ [EvFlush (fst k) (snd k) (b_items (get_batch k s))])) by (apply in_or_app; left; exact Hin).
  destruct (flush_batch_item_done P k s _ h o B Hd T Hin') as (_ & key & a & _ & G' & Eo).
  exists key, a. split; [exact G'|exact Eo].
Qed.

(* one transition: whole blocks, judged in the state reached *)
Definition ook (P : params) (s s' : st) : Prop :=
  exists evs, trace s' = evs ++ trace s /\ (BI s -> gblocksR (oserved P s') evs).

Lemma ook_mild P s s' : mild s s' -> ook P s s'.
Proof. intros (evs & T & F & _). exists evs. split; [exact T|]. intros _. apply gblocksR_all_tame. exact F. Qed.

Lemma ook_flush_batch P k s : ook P s (flush_batch P k s).
Proof.
  destruct (b_done (get_batch k s)) eqn:Hd; [rewrite (flush_done_is_noop P k s Hd); apply ook_mild, mild_refl|].
  destruct (flush_batch_form P k s Hd) as (dones & T & _).
  exists (dones ++ [EvFlush (fst k) (snd k) (b_items (get_batch k s))]). split; [exact T|]. intros B.
  destruct (oblock_flush P k s B Hd) as (dones' & T' & OS).
  assert (dones' = dones).
  { apply (app_inv_tail [EvFlush (fst k) (snd k) (b_items (get_batch k s))]). apply (app_inv_tail (trace s)).
    rewrite <- T, <- T'. reflexivity. }
  subst dones'. apply gblocksR_sync; [exact OS|constructor].
Qed.

Lemma ook_continue_with_batch P s : ook P s (continue_with_batch P s).
Proof.
  pose proof (continue_with_batch_form P s) as F. destruct (select P s) as [[k|] s1].
  - destruct F as (s3 & e1 & E & Hh & Hb & T3 & F1 & Hd & Hne). rewrite E.
    destruct (flush_batch_form P k s3 Hd) as (dones & T4 & _).
    exists (EvAfter (fst k) (snd k) :: dones ++ EvFlush (fst k) (snd k) (b_items (get_batch k s3)) :: EvBefore (fst k) (snd k) :: e1).
    split; [cbn [trace emit]; rewrite T4, T3; lnorm; reflexivity|]. intros B.
    assert (B3 : BI s3) by (apply (BI_keep s); [exact B|apply keep_view; assumption]).
    destruct (oblock_flush P k s3 B3 Hd) as (dones' & T' & OS).
    assert (dones' = dones).
    { apply (app_inv_tail [EvFlush (fst k) (snd k) (b_items (get_batch k s3))]). apply (app_inv_tail (trace s3)).
      rewrite <- T4, <- T'. reflexivity. }
    subst dones'. apply gblocksR_sched; [exact Hne| |apply gblocksR_all_tame; exact F1].
    apply (oserved_mono P (flush_batch P k s3)); [apply stab_view; reflexivity|exact OS].
  - destruct F as (-> & _ & M). apply ook_mild. exact M.
Qed.

Theorem ook_step P c : ook P (c_st c) (c_st (step P c)).
Proof.
  destruct (flushes c) eqn:E.
  - destruct (flushes_true c E) as (Hm & root & fr & Hf & Hc). destruct c as [m fr0 s]. cbn [c_mode c_frames c_st] in *.
    subst m fr0. cbn [step c_mode c_frames c_st]. rewrite Hc. cbn [c_st]. apply ook_continue_with_batch.
  - destruct (syncs c) eqn:E2; [|apply ook_mild; apply step_mild; assumption].
    destruct (step_syncs P c E2) as (k & ->). apply ook_flush_batch.
Qed.

(* ------------------------------------------------------------------ the invariant *)
Definition OInv (P : params) (s : st) : Prop :=
  Inv s /\ OutInv s /\ gblocksR (oserved P s) (trace s).

Theorem OInv_step P c : OInv P (c_st c) -> OInv P (c_st (step P c)).
Proof.
  intros (HI & HO & HB). pose proof HI as (D & Bi & _). split; [apply Inv_step; exact HI|]. split.
  - apply OutInv_step; assumption.
  - destruct (ook_step P c) as (evs & T & Hb). rewrite T. apply gblocksR_app; [exact (Hb Bi)|].
    apply (oblocksR_mono P (c_st c)); [apply stab_step; exact D|exact HB].
Qed.

Lemma OInv_run P n : forall c, OInv P (c_st c) -> OInv P (c_st (run P n c)).
Proof.
  induction n as [|n IH]; intros c HF; [exact HF|]. rewrite run_S.
  destruct (is_final (c_mode c)); [exact HF|]. apply IH. apply OInv_step. exact HF.
Qed.

Lemma OInv_st0 P : OInv P (st0 P).
Proof. split; [apply Inv_st0|]. split; [intros h o []|constructor]. Qed.

(* extension by tame events only, no item entry with an outcome touched *)
Lemma OInv_tame P s s' evs :
  OInv P s -> Inv s' -> stab s s' -> trace s' = evs ++ trace s -> Forall tame evs -> OInv P s'.
Proof.
  intros (HI & HO & HB) HI' S T F. split; [exact HI'|]. split.
  - intros h o Hin. rewrite T in Hin. apply in_app_or in Hin as [Hin|Hin]; [destruct (tame_not_done _ _ _ F Hin)|].
    destruct (HO h o Hin) as (kind & idx & key & a & G). exists kind, idx, key, a.
    apply S; [exact G|exact I|cbn; discriminate].
  - rewrite T. apply gblocksR_app; [apply gblocksR_all_tame; exact F|]. exact (oblocksR_mono P s s' _ S HB).
Qed.

Lemma OInv_run_root P fuel p s : OInv P s -> OInv P (snd (run_root P fuel p s)).
Proof.
  intros HF. pose proof HF as ((D & Bi & HI3) & _). unfold run_root.
  pose proof (mild_create [] (FTask p) s) as Qc.
  pose proof (BI_create [] (FTask p) s D Bi) as Bc.
  pose proof (stab_create [] (FTask p) s D) as Sc.
  assert (Tc : trace (snd (create [] (FTask p) s)) = trace s) by reflexivity.
  destruct (create [] (FTask p) s) as [h s1]. cbn [snd] in Qc, Bc, Sc, Tc.
  assert (H1 : OInv P s1).
  { apply (OInv_tame P s s1 []); [exact HF| |exact Sc|exact Tc|constructor].
    apply (Inv_mild s); [exact (proj1 HF)|exact Qc|exact Bc]. }
  pose proof (OInv_run P fuel (mkC (MValue h) [FTop] s1) H1) as H2.
  set (c := run P fuel (mkC (MValue h) [FTop] s1)) in *.
  assert (H3 : OInv P (emit (EvSched (Z.of_nat (length (tasks (c_st c)))) (Z.of_nat (length (sb (c_st c)))) (active (c_st c))) (c_st c))).
  { apply (OInv_tame P (c_st c) _ [EvSched (Z.of_nat (length (tasks (c_st c)))) (Z.of_nat (length (sb (c_st c)))) (active (c_st c))]);
      [exact H2| |apply stab_view; reflexivity|reflexivity|repeat constructor].
    apply (Inv_mild (c_st c)); [exact (proj1 H2)|apply mild_emit; exact I|].
    destruct H2 as ((_ & Bi2 & _) & _). apply (BI_keep (c_st c)); [exact Bi2|apply keep_emit]. }
  destruct (c_mode c); exact H3.
Qed.

Lemma OInv_run_history P fuel ps : forall s, OInv P s -> OInv P (snd (run_history P fuel ps s)).
Proof.
  induction ps as [|p ps IH]; intros s HF; [exact HF|]. cbn [run_history].
  pose proof (OInv_run_root P fuel p s HF) as H1. destruct (run_root P fuel p s) as [o s1]. cbn [snd] in H1.
  specialize (IH s1 H1). destruct (run_history P fuel ps s1) as [os s2]. exact IH.
Qed.

(* the state in which a history of computations ends; run_case returns its trace, oldest event first *)
Definition final_state (P : params) (fuel : nat) (ps : list prog) : st := snd (run_history P fuel ps (st0 P)).

Lemma run_case_trace P fuel ps : snd (run_case P fuel ps) = rev (trace (final_state P fuel ps)).
Proof. unfold run_case, final_state. destruct (run_history P fuel ps (st0 P)) as [os s]. reflexivity. Qed.

Lemma OInv_final P fuel ps : OInv P (final_state P fuel ps).
Proof. apply OInv_run_history. apply OInv_st0. Qed.

(* ------------------------------------------------------------------ O1, run level *)
Lemma run_add' P a : forall b c, run P (a + b) c = run P b (run P a c).
Proof.
  induction a as [|a IH]; intros b c; [reflexivity|]. cbn [Nat.add]. rewrite !run_S.
  destruct (is_final (c_mode c)) eqn:E; [rewrite (run_final P b c E); reflexivity|apply IH].
Qed.

(* the outcome announced by a completion event after n steps is the outcome the item has after n + m steps,
   for every m *)
Theorem run_outcome_stable P n m c h o :
  OInv P (c_st c) -> In (EvItemDone h o) (trace (c_st (run P n c))) ->
  (exists kind idx key a, get h (c_st (run P (n + m) c)) = Some (mkFut (Some o) (KItem kind idx key a))) /\
  computed h (c_st (run P (n + m) c)) = true /\ outcome_of h (c_st (run P (n + m) c)) = o.
Proof.
  intros HF Hin. destruct (OInv_run P n c HF) as (HI & HO & _). destruct (HO h o Hin) as (kind & idx & key & a & G).
  assert (G' : get h (c_st (run P (n + m) c)) = Some (mkFut (Some o) (KItem kind idx key a))).
  { rewrite run_add'. apply (stab_run P m (run P n c) HI); [exact G|exact I|cbn; discriminate]. }
  split; [exists kind, idx, key, a; exact G'|]. unfold computed, outcome_of. rewrite G'. cbn. auto.
Qed.

(* at the end of run_case, every completion event agrees with the heap *)
Theorem run_case_outcome_stored P fuel ps h o :
  In (EvItemDone h o) (snd (run_case P fuel ps)) ->
  (exists kind idx key a, get h (final_state P fuel ps) = Some (mkFut (Some o) (KItem kind idx key a))) /\
  computed h (final_state P fuel ps) = true /\ outcome_of h (final_state P fuel ps) = o.
Proof.
  rewrite run_case_trace. intros Hin. apply in_rev in Hin. destruct (OInv_final P fuel ps) as (_ & HO & _).
  destruct (HO h o Hin) as (kind & idx & key & a & G). split; [exists kind, idx, key, a; exact G|].
  unfold computed, outcome_of. rewrite G. cbn. auto.
Qed.

(* ------------------------------------------------------------------ O2, run level *)
(* every completion event gained along a run was emitted by a step k < n whose flush explains it *)
Theorem run_item_done_origin P n : forall c0 h o,
  OInv P (c_st c0) -> In (EvItemDone h o) (trace (c_st (run P n c0))) ->
  In (EvItemDone h o) (trace (c_st c0)) \/
  exists k evs, (k < n)%nat /\
    trace (c_st (run P (S k) c0)) = evs ++ trace (c_st (run P k c0)) /\ In (EvItemDone h o) evs /\
    item_done_by P (c_st (run P k c0)) (c_st (run P (S k) c0)) evs h o.
Proof.
  induction n as [|n IH]; intros c0 h o HF H; [left; exact H|].
  rewrite run_S in H. destruct (is_final (c_mode c0)) eqn:Hf; [left; exact H|].
  assert (R : forall j, run P (S j) c0 = run P j (step P c0)) by (intros j; rewrite run_S, Hf; reflexivity).
  destruct (IH (step P c0) h o (OInv_step P c0 HF) H) as [Hin|(k & evs & Hk & Ht & Hi & Hd)].
  - destruct (step_trace P c0) as (evs & T). rewrite T in Hin. apply in_app_or in Hin as [Hin|Hin]; [|left; exact Hin].
    right. exists O, evs. rewrite R. cbn [run]. split; [lia|]. split; [exact T|]. split; [exact Hin|].
    destruct HF as ((_ & Bi & _) & _). exact (step_item_done P c0 evs h o Bi T Hin).
  - right. exists (S k), evs. rewrite !R. split; [lia|]. auto.
Qed.

Lemma oblocks_final P fuel ps : gblocks (oserved P (final_state P fuel ps)) (snd (run_case P fuel ps)).
Proof.
  rewrite run_case_trace. destruct (OInv_final P fuel ps) as (_ & _ & HB).
  apply gblocksR_rev; [intros kind idx items dones; apply oserved_rev|exact HB].
Qed.

(* in the chronological trace of any history: every flush body is followed by the completions of exactly
   its items, each recorded in the final heap as an item of that batch and carrying the expected outcome *)
Theorem run_case_flush_outcomes P fuel ps l1 l2 kind idx items :
  snd (run_case P fuel ps) = l1 ++ EvFlush kind idx items :: l2 ->
  exists dones l3, l2 = dones ++ l3 /\ oserved P (final_state P fuel ps) kind idx items dones.
Proof.
  apply (gblocks_flush (oserved P (final_state P fuel ps))); [intros k0 i0 it0 d0; apply oserved_done|apply oblocks_final].
Qed.

(* the same for one run of the machine from any configuration satisfying the invariant, judged in the
   state reached after n transitions *)
Theorem run_flush_outcomes P n c l1 l2 kind idx items :
  OInv P (c_st c) ->
  rev (trace (c_st (run P n c))) = l1 ++ EvFlush kind idx items :: l2 ->
  exists dones l3, l2 = dones ++ l3 /\ oserved P (c_st (run P n c)) kind idx items dones.
Proof.
  intros HF. destruct (OInv_run P n c HF) as (_ & _ & HB).
  apply (gblocks_flush (oserved P (c_st (run P n c)))); [intros k0 i0 it0 d0; apply oserved_done|].
  apply gblocksR_rev; [intros k0 i0 it0 d0; apply oserved_rev|exact HB].
Qed.

(* C05's clause, item by item: an item of a flushed batch has exactly one completion event in the whole
   trace, among the completions of that flush, and it carries the expected outcome, which is also the
   outcome the item has in the final heap *)
Theorem run_case_item_outcome P fuel ps l1 l2 kind idx items h :
  snd (run_case P fuel ps) = l1 ++ EvFlush kind idx items :: l2 -> In h items ->
  exists key a,
    let ra := ks_raise (kspec_of P kind) in
    let o := expected_outcome a (reached ra items h) (flush_err ra items) in
    get h (final_state P fuel ps) = Some (mkFut (Some o) (KItem kind idx key a)) /\
    cnt h (snd (run_case P fuel ps)) = 1%nat /\
    exists dones l3, l2 = dones ++ l3 /\ served items dones /\ In (EvItemDone h o) dones.
Proof.
  intros E Hin. destruct (run_case_flush_outcomes P fuel ps l1 l2 kind idx items E) as (dones & l3 & -> & (Sv & Ho)).
  destruct (proj2 Sv h Hin) as (o & Hd). destruct (Ho h o Hd) as (key & a & G & Eo).
  exists key, a. cbn zeta. rewrite <- Eo. split; [exact G|].
  split; [exact (proj1 (run_case_item_exactly_once P fuel ps l1 _ kind idx items h E Hin))|].
  exists dones, l3. auto.
Qed.

(* the same, read from the completion event: every EvItemDone h o of the trace lies in the block of a flush
   EvFlush kind idx items with h among items (only completions of items of that batch in between), the
   final heap records h as an item of that very batch with outcome o, and o is the expected outcome *)
Theorem run_case_item_done_expected P fuel ps l1 l2 h o :
  snd (run_case P fuel ps) = l1 ++ EvItemDone h o :: l2 ->
  exists kind idx items l0 pre key a,
    l1 = l0 ++ EvFlush kind idx items :: pre /\ In h items /\ Forall (done_in items) pre /\
    get h (final_state P fuel ps) = Some (mkFut (Some o) (KItem kind idx key a)) /\
    o = expected_outcome a (reached (ks_raise (kspec_of P kind)) items h)
                           (flush_err (ks_raise (kspec_of P kind)) items).
Proof.
  intros E.
  destruct (gblocks_item (oserved P (final_state P fuel ps)) _ (oblocks_final P fuel ps) l1 l2 h o E)
    as (kind & idx & items & l0 & pre & post & -> & (Sv & Ho)).
  destruct (done_in_mid _ _ _ _ (proj1 Sv)) as [Hx Hl].
  destruct (Ho h o) as (key & a & G & Eo); [apply in_or_app; right; left; reflexivity|].
  exists kind, idx, items, l0, pre, key, a. auto.
Qed.

(* ------------------------------------------------------------------ O1 for EVERY future *)
(* the outcome of a computed future (task, batch item, lazy future, constant) never changes *)
Definition pres (s s' : st) : Prop :=
  forall h f, get h s = Some f -> f_out f <> None -> exists f', get h s' = Some f' /\ f_out f' = f_out f.

(* helpers that change no outcome at all (and create no entry) *)
Definition sameout (s s' : st) : Prop := forall h, option_map f_out (get h s') = option_map f_out (get h s).

Lemma pres_refl s : pres s s. Proof. intros h f G _. exists f. auto. Qed.
Lemma pres_trans a b c : pres a b -> pres b c -> pres a c.
Proof.
  intros A B h f G O. destruct (A h f G O) as (f1 & G1 & O1). destruct (B h f1 G1) as (f2 & G2 & O2); [congruence|].
  exists f2. split; [exact G2|congruence].
Qed.
Lemma sameout_refl s : sameout s s. Proof. intros h. reflexivity. Qed.
Lemma sameout_trans a b c : sameout a b -> sameout b c -> sameout a c.
Proof. intros A B h. rewrite B. apply A. Qed.
Lemma sameout_view s s' : heap s' = heap s -> sameout s s'.
Proof. intros E h. unfold get. rewrite E. reflexivity. Qed.
Lemma sameout_pres s s' : sameout s s' -> pres s s'.
Proof.
  intros S h f G _. specialize (S h). rewrite G in S. destruct (get h s') as [f'|]; cbn in S; [|discriminate].
  exists f'. split; [reflexivity|congruence].
Qed.
Lemma sameout_computed s s' h : sameout s s' -> computed h s' = computed h s.
Proof.
  intros S. specialize (S h). unfold computed. destruct (get h s') as [f'|], (get h s) as [f|]; cbn in S; try discriminate; [|reflexivity].
  inversion S as [E]. rewrite E. reflexivity.
Qed.

Lemma sameout_put h f f' s : get h s = Some f -> f_out f' = f_out f -> sameout s (put h f' s).
Proof.
  intros G O h0. rewrite get_put. destruct (fid_eqb h0 h) eqn:E; [|reflexivity].
  apply fid_eqb_eq in E. subst h0. rewrite G. cbn. rewrite O. reflexivity.
Qed.

Lemma sameout_set_task t tk s : sameout s (set_task t tk s).
Proof.
  unfold set_task. destruct (get t s) as [f|] eqn:G; [|apply sameout_refl].
  apply (sameout_put t f); [exact G|reflexivity].
Qed.

Lemma sameout_emit e s : sameout s (emit e s). Proof. apply sameout_view; reflexivity. Qed.
Lemma sameout_var_set v x s : sameout s (var_set v x s). Proof. apply sameout_view; reflexivity. Qed.
Lemma sameout_ci_put k c s : sameout s (ci_put k c s). Proof. apply sameout_view; reflexivity. Qed.

Ltac sstep :=
  match goal with
  | |- sameout ?s ?s => apply sameout_refl
  | |- sameout _ (emit _ _) => eapply sameout_trans; [|apply sameout_emit]
  | |- sameout _ (set_task _ _ _) => eapply sameout_trans; [|apply sameout_set_task]
  | |- sameout _ (var_set _ _ _) => eapply sameout_trans; [|apply sameout_var_set]
  | |- sameout _ (ci_put _ _ _) => eapply sameout_trans; [|apply sameout_ci_put]
  end.
Ltac ssm := repeat sstep.

Lemma sameout_enter_ctx t c s : sameout s (enter_ctx t c s).
Proof. unfold enter_ctx. destruct (get_task t s); destruct c; ssm. Qed.
Lemma sameout_pause_plain t c s : sameout s (pause_plain t c s).
Proof. destruct c; unfold pause_plain; ssm. Qed.
Lemma sameout_exit_ctx t c s : sameout s (exit_ctx t c s).
Proof.
  unfold exit_ctx. destruct (get_task t s) as [tk|]; [destruct (tk_cact tk)|];
    try (eapply sameout_trans; [|apply sameout_pause_plain]); ssm.
Qed.

Lemma sameout_fold {X} (f : st -> X -> st) l : (forall s x, sameout s (f s x)) -> forall s, sameout s (fold_left f l s).
Proof. intros H. induction l as [|x l IH]; intros s; cbn; [apply sameout_refl|]. eapply sameout_trans; [apply H|apply IH]. Qed.

Lemma sameout_resume1 t c s : sameout s (fst (resume1 t c s)).
Proof. unfold resume1. destruct c as [cid f|cid|cid var v]; [destruct f| |]; cbn [fst]; t_regs; cbn [fst]; ssm. Qed.
Lemma sameout_pause1 t c s : sameout s (fst (pause1 t c s)).
Proof. unfold pause1. destruct c as [cid f|cid|cid var v]; [destruct f| |]; cbn [fst]; t_regs; cbn [fst]; ssm. Qed.

Lemma sameout_fold_pair {X E} (f : st * E -> X -> st * E) l :
  (forall a x, sameout (fst a) (fst (f a x))) -> forall a, sameout (fst a) (fst (fold_left f l a)).
Proof. intros H. induction l as [|x l IH]; intros a; cbn; [apply sameout_refl|]. eapply sameout_trans; [apply H|apply IH]. Qed.

(* writing an entry that has no outcome *)
Lemma pres_put_uncomputed h f' s : computed h s = false -> pres s (put h f' s).
Proof.
  intros C h0 f G O. rewrite get_put. destruct (fid_eqb h0 h) eqn:E; [|exists f; auto].
  exfalso. apply fid_eqb_eq in E. subst h0. unfold computed in C. rewrite G in C. destruct (f_out f); [discriminate|congruence].
Qed.

(* set_value / set_error on a task that is not computed *)
Lemma pres_complete_task t o s : computed t s = false -> pres s (complete_task t o s).
Proof.
  intros C. unfold complete_task. destruct (get_task t s) as [tk|]; [|apply pres_refl].
  assert (H : sameout s (match tk_gen tk with
                         | Some _ => fold_left (fun s c => exit_ctx t c s) (rev (tk_ctxs tk)) s
                         | None => s end)).
  { destruct (tk_gen tk); [|apply sameout_refl]. apply sameout_fold. intros. apply sameout_exit_ctx. }
  match goal with |- pres s (match get_task t ?x with _ => _ end) => set (s1 := x) in * end.
  destruct (get_task t s1) as [tk1|]; [|apply sameout_pres; exact H].
  eapply pres_trans; [apply sameout_pres; exact H|].
  eapply pres_trans; [|apply sameout_pres; apply sameout_emit].
  apply pres_put_uncomputed. rewrite (sameout_computed s s1 t H). exact C.
Qed.

Lemma pres_accept_error t e s : pres s (accept_error t e s).
Proof. unfold accept_error. destruct (computed t s) eqn:C; [apply pres_refl|apply pres_complete_task; exact C]. Qed.

Lemma pres_resume_contexts t s : pres s (resume_contexts t s).
Proof.
  unfold resume_contexts. destruct (get_task t s) as [tk|]; [|apply pres_refl].
  destruct (tk_cact tk); [apply pres_refl|].
  match goal with |- context [fold_left ?f ?l ?a] =>
    assert (H2 : sameout s (fst (fold_left f l a))) end.
  { match goal with |- sameout s (fst (fold_left ?f ?l (?s0, ?e))) =>
      apply (sameout_trans s s0); [apply sameout_set_task | apply (sameout_fold_pair f l) with (a := (s0, e))] end.
    intros [s0 e0] c. cbn [fst]. pose proof (sameout_resume1 t c s0) as Rr. destruct (resume1 t c s0). exact Rr. }
  match goal with |- context [fold_left ?f ?l ?a] => destruct (fold_left f l a) as [s1 [e|]] end;
    cbn [fst] in H2; [eapply pres_trans; [apply sameout_pres; exact H2|apply pres_accept_error]|apply sameout_pres; exact H2].
Qed.

Lemma pres_pause_contexts t s : pres s (pause_contexts t s).
Proof.
  unfold pause_contexts. destruct (get_task t s) as [tk|]; [|apply pres_refl].
  destruct (negb (tk_cact tk)); [apply pres_refl|].
  match goal with |- context [fold_left ?f ?l ?a] =>
    assert (H2 : sameout s (fst (fold_left f l a))) end.
  { match goal with |- sameout s (fst (fold_left ?f ?l (?s0, ?e))) =>
      apply (sameout_trans s s0); [apply sameout_set_task | apply (sameout_fold_pair f l) with (a := (s0, e))] end.
    intros [s0 e0] c. cbn [fst]. pose proof (sameout_pause1 t c s0) as Rr. destruct (pause1 t c s0). exact Rr. }
  match goal with |- context [fold_left ?f ?l ?a] => destruct (fold_left f l a) as [s1 [e|]] end;
    cbn [fst] in H2; [eapply pres_trans; [apply sameout_pres; exact H2|apply pres_accept_error]|apply sameout_pres; exact H2].
Qed.

Lemma pres_view s s' : heap s' = heap s -> pres s s'.
Proof. intros E. apply sameout_pres, sameout_view. exact E. Qed.

Lemma pres_flush_batch P k s : pres s (flush_batch P k s).
Proof.
  destruct (b_done (get_batch k s)) eqn:Hd; [rewrite (flush_done_is_noop P k s Hd); apply pres_refl|].
  destruct (flush_batch_form P k s Hd) as (dones & _ & C & _). intros h f G O. exists f. split; [exact (C h f G O)|reflexivity].
Qed.

Lemma pres_continue_with_batch P s : pres s (continue_with_batch P s).
Proof.
  pose proof (continue_with_batch_form P s) as F. pose proof (select_batches P s) as [_ Hs].
  destruct (select P s) as [[k|] s1]; cbn [snd] in Hs.
  - destruct F as (s3 & e1 & -> & Hh & _). eapply pres_trans; [apply pres_view; exact Hh|].
    eapply pres_trans; [apply pres_flush_batch|apply pres_view; reflexivity].
  - destruct F as (-> & _). apply pres_view. exact Hs.
Qed.

Lemma pres_schedule_batch k s : pres s (schedule_batch k s).
Proof. unfold schedule_batch. destruct (b_done _); [apply pres_refl|]. destruct (existsb _ _); [apply pres_refl|apply pres_view; reflexivity]. Qed.

Lemma pres_create p f s : dom s -> pres s (snd (create p f s)).
Proof.
  intros D h0 f0 G _. exists f0. split; [|reflexivity]. unfold create, alloc. cbn zeta.
  assert (N : fid_eqb h0 [top_next s] = false).
  { destruct (fid_eqb h0 [top_next s]) eqn:E; [|reflexivity]. apply fid_eqb_eq in E. subst h0.
    rewrite (fresh_none s D) in G. discriminate. }
  destruct f; cbn [snd]; try change (get h0 (put_batch ?k ?b ?s')) with (get h0 s'); rewrite get_put, N; exact G.
Qed.

Lemma pres_inst p y s : dom s -> pres s (snd (inst p y s)).
Proof.
  intros D.
  assert (H : dom (snd (inst p y s)) /\ pres s (snd (inst p y s))).
  { apply (inst_pres (fun s' => dom s' /\ pres s s')); [|split; [exact D|apply pres_refl]].
    intros p0 f0 s0 [D0 S0]. split.
    - destruct (mild_create p0 f0 s0) as (evs & _ & _ & G). exact (proj1 (G D0)).
    - eapply pres_trans; [exact S0|apply pres_create; exact D0]. }
  exact (proj2 H).
Qed.

Lemma pres_emit e s : pres s (emit e s). Proof. apply pres_view; reflexivity. Qed.
Lemma pres_pop_task s : pres s (pop_task s). Proof. apply pres_view; reflexivity. Qed.
Lemma pres_with_tasks s x : pres s (with_tasks s x). Proof. apply pres_view; reflexivity. Qed.
Lemma pres_with_active s x : pres s (with_active s x). Proof. apply pres_view; reflexivity. Qed.
Lemma pres_reset_sched s : pres s (reset_sched s). Proof. apply pres_view; reflexivity. Qed.
Lemma pres_drop_sb s : pres s (drop_sb s). Proof. apply pres_view; apply heap_drop_sb. Qed.

Ltac ph :=
  repeat match goal with
  | |- pres ?s ?s => apply pres_refl
  | |- pres _ (emit _ _) => eapply pres_trans; [|apply pres_emit]
  | |- pres _ (set_task _ _ _) => eapply pres_trans; [|apply sameout_pres; apply sameout_set_task]
  | |- pres _ (put _ _ _) => eapply pres_trans; [|apply pres_put_uncomputed; eassumption]
  | |- pres _ (pop_task _) => eapply pres_trans; [|apply pres_pop_task]
  | |- pres _ (with_tasks _ _) => eapply pres_trans; [|apply pres_with_tasks]
  | |- pres _ (with_active _ _) => eapply pres_trans; [|apply pres_with_active]
  | |- pres _ (reset_sched _) => eapply pres_trans; [|apply pres_reset_sched]
  | |- pres _ (drop_sb _) => eapply pres_trans; [|apply pres_drop_sb]
  | |- pres _ (resume_contexts _ _) => eapply pres_trans; [|apply pres_resume_contexts]
  | |- pres _ (pause_contexts _ _) => eapply pres_trans; [|apply pres_pause_contexts]
  | |- pres _ (complete_task _ _ _) => eapply pres_trans; [|apply pres_complete_task; eassumption]
  | |- pres _ (accept_error _ _ _) => eapply pres_trans; [|apply pres_accept_error]
  | |- pres _ (enter_ctx _ _ _) => eapply pres_trans; [|apply sameout_pres; apply sameout_enter_ctx]
  | |- pres _ (exit_ctx _ _ _) => eapply pres_trans; [|apply sameout_pres; apply sameout_exit_ctx]
  | |- pres _ (schedule_batch _ _) => eapply pres_trans; [|apply pres_schedule_batch]
  | |- pres _ (flush_batch _ _ _) => eapply pres_trans; [|apply pres_flush_batch]
  | |- pres _ (continue_with_batch _ _) => eapply pres_trans; [|apply pres_continue_with_batch]
  end.

(* no transition of the machine ever changes the outcome of a computed future *)
Theorem pres_step P c : dom (c_st c) -> pres (c_st c) (c_st (step P c)).
Proof.
  destruct c as [m fr s]. cbn [c_st]. intros D.
  destruct m as [h| | | |t|t p| |o|e|o|]; cbn [step c_mode c_frames c_st];
    try (destr_eq; ph; fail).
  (* MRun *)
  destruct p as [v|v|e|y k|f k|h k|cx k|cx k|var k|k]; cbn [c_st];
    try (destr_eq; ph; fail).
  - pose proof (pres_inst t y s D) as S1. destruct (inst t y s) as [y' s1]. cbn [snd] in S1.
    destruct (get_task t s1) as [tk|] eqn:G; cbn [c_st]; [|exact S1].
    destruct (futs (extract y')); cbn [c_st]; (eapply pres_trans; [exact S1|apply sameout_pres; apply sameout_set_task]).
  - pose proof (pres_create t f s D) as S1. destruct (create t f s) as [h s1]. cbn [snd c_st] in *. exact S1.
Qed.

Lemma pres_run P n : forall c, Inv (c_st c) -> pres (c_st c) (c_st (run P n c)).
Proof.
  induction n as [|n IH]; intros c HI; [apply pres_refl|]. rewrite run_S.
  destruct (is_final (c_mode c)); [apply pres_refl|].
  eapply pres_trans; [apply pres_step; exact (proj1 HI)|apply IH; apply Inv_step; exact HI].
Qed.

(* in outcome_of / computed form *)
Theorem run_outcome_never_changes P n c h :
  Inv (c_st c) -> computed h (c_st c) = true ->
  computed h (c_st (run P n c)) = true /\ outcome_of h (c_st (run P n c)) = outcome_of h (c_st c).
Proof.
  intros HI C. unfold computed, outcome_of in *. destruct (get h (c_st c)) as [f|] eqn:G; [|discriminate].
  destruct (f_out f) as [o|] eqn:O; [|discriminate].
  destruct (pres_run P n c HI h f G) as (f' & G' & O'); [congruence|]. rewrite G', O', O. auto.
Qed.

(* ------------------------------------------------------------------ non-vacuity, and a refuted shortcut *)
(* one task yields three items of one batch: the body sets a value for the first, an error for the
   second and nothing for the third *)
Definition c05o_demo3 : prog :=
  Yield (YTuple [YLeaf (LNew (FItem 0 1 (ASet (VInt 5)))); YLeaf (LNew (FItem 0 2 (AErr 9)));
                 YLeaf (LNew (FItem 0 3 ASkip))]) c05_ret.

(* item.value() outside the scheduler: an unbracketed flush *)
Definition c05o_demo_sync : prog := Let (FItem 0 1 ASkip) (fun h => Sync h c05_ret).

Definition c05o_P (ra : option (Z * exn)) : params := mkP [(0, mkK PDefault ra)] 1000 false [].

(* the body does not raise: own value, own error, "not set" AssertionError (E_NOTSET = -2) *)
Example c05o_demo_no_raise :
  snd (run_case (c05o_P None) 100%nat [c05o_demo3]) =
  [EvStep [0] 0 (Ok VNone); EvBefore 0 0; EvFlush 0 0 [[1]; [2]; [3]];
   EvItemDone [1] (Ok (VInt 5)); EvItemDone [2] (Err 9); EvItemDone [3] (Err E_NOTSET); EvAfter 0 0;
   EvStep [0] 1 (Err 9); EvDone [0] (Err 9); EvSched 0 0 None].
Proof. vm_compute. reflexivity. Qed.

(* the body raises 77 before item number 1: the first item keeps its value, the others get the flush error -
   also the second one, whose scripted action would have set the error 9 *)
Example c05o_demo_raise_at_1 :
  snd (run_case (c05o_P (Some (1, 77))) 100%nat [c05o_demo3]) =
  [EvStep [0] 0 (Ok VNone); EvBefore 0 0; EvFlush 0 0 [[1]; [2]; [3]];
   EvItemDone [1] (Ok (VInt 5)); EvItemDone [2] (Err 77); EvItemDone [3] (Err 77); EvAfter 0 0;
   EvStep [0] 1 (Err 77); EvDone [0] (Err 77); EvSched 0 0 None].
Proof. vm_compute. reflexivity. Qed.

(* the body raises after the last item: what it set stays, the unset item gets the flush error *)
Example c05o_demo_raise_at_end :
  snd (run_case (c05o_P (Some (3, 77))) 100%nat [c05o_demo3]) =
  [EvStep [0] 0 (Ok VNone); EvBefore 0 0; EvFlush 0 0 [[1]; [2]; [3]];
   EvItemDone [1] (Ok (VInt 5)); EvItemDone [2] (Err 9); EvItemDone [3] (Err 77); EvAfter 0 0;
   EvStep [0] 1 (Err 9); EvDone [0] (Err 9); EvSched 0 0 None].
Proof. vm_compute. reflexivity. Qed.

(* a flush forced by item.value(): no bracket events, the unset item gets the "not set" outcome *)
Example c05o_demo_sync_flush :
  snd (run_case (c05o_P None) 100%nat [c05o_demo_sync]) =
  [EvStep [0] 0 (Ok VNone); EvFlush 0 0 [[1]]; EvItemDone [1] (Err E_NOTSET); EvGot [0] (Err E_NOTSET);
   EvDone [0] (Err E_NOTSET); EvSched 0 0 None].
Proof. vm_compute. reflexivity. Qed.

(* the vocabulary computes: positions, flush error, expected outcomes of the three items when the body raises
   before item number 1 *)
Example c05o_demo_expected :
  let ra := Some (1, 77) in let items := [[1]; [2]; [3]] in
  raise_pos ra (length items) = Some (1%nat, 77) /\ flush_err ra items = Some 77 /\
  reached ra items [1] = true /\ reached ra items [2] = false /\ reached ra items [3] = false /\
  expected_outcome (ASet (VInt 5)) (reached ra items [1]) (flush_err ra items) = Ok (VInt 5) /\
  expected_outcome (AErr 9) (reached ra items [2]) (flush_err ra items) = Err 77 /\
  expected_outcome ASkip (reached ra items [3]) (flush_err ra items) = Err 77 /\
  expected_outcome ASkip (reached None items [3]) (flush_err None items) = Err E_NOTSET /\
  (* a scripted position outside 0 .. length never raises *)
  raise_pos (Some (4, 77)) (length items) = None /\ raise_pos (Some (-1, 77)) (length items) = None.
Proof. vm_compute. repeat split; reflexivity. Qed.

(* the hypotheses of run_case_item_outcome are satisfiable and its conclusion is the computed heap entry *)
Example c05o_demo_instance :
  let P := c05o_P (Some (1, 77)) in
  snd (run_case P 100%nat [c05o_demo3]) =
    [EvStep [0] 0 (Ok VNone); EvBefore 0 0] ++ EvFlush 0 0 [[1]; [2]; [3]] ::
    [EvItemDone [1] (Ok (VInt 5)); EvItemDone [2] (Err 77); EvItemDone [3] (Err 77); EvAfter 0 0;
     EvStep [0] 1 (Err 77); EvDone [0] (Err 77); EvSched 0 0 None] /\
  In [2] [[1]; [2]; [3]] /\
  get [2] (final_state P 100%nat [c05o_demo3]) = Some (mkFut (Some (Err 77)) (KItem 0 0 2 (AErr 9))).
Proof. vm_compute. split; [reflexivity|]. split; [right; left; reflexivity|reflexivity]. Qed.

(* REFUTED shortcut: "an item completes with what its scripted action sets" - the outcome cannot be read
   off the action alone, the raise position matters *)
Definition action_alone_statement : Prop :=
  forall P fuel ps h o kind idx key v,
    In (EvItemDone h o) (snd (run_case P fuel ps)) ->
    get h (final_state P fuel ps) = Some (mkFut (Some o) (KItem kind idx key (ASet v))) -> o = Ok v.

Definition c05o_demo1 : prog := Yield (YLeaf (LNew (FItem 0 1 (ASet (VInt 5))))) c05_ret.

Lemma action_alone_is_false : ~ action_alone_statement.
Proof.
  intros H.
  specialize (H (c05o_P (Some (0, 77))) 100%nat [c05o_demo1] [1] (Err 77) 0 0 1 (VInt 5)).
  assert (E : Err 77 = Ok (VInt 5)); [|discriminate E].
  apply H; [vm_compute; tauto|vm_compute; reflexivity].
Qed.
