(* Trace-level facts for every program (not only trees): a batch's flush body runs at most once in any
   run of the machine.  Every helper other than flush_batch is "quiet": it leaves the batch table
   alone (or only appends an item to a batch) and emits no EvFlush event. *)
From Asynq Require Import Machine proofs.ProgProofs proofs.MachineFrame proofs.MachineC05 proofs.MachineC08.

Definition noflush (e : event) : Prop := match e with EvFlush _ _ _ => False | _ => True end.

Definition dn (s : st) (k : Z * Z) : bool := b_done (get_batch k s).

(* s' extends s quietly: done flags never reset, only non-flush events appended *)
Definition quiet (s s' : st) : Prop :=
  (forall k, dn s k = true -> dn s' k = true) /\ (forall k, dn s' k = true -> dn s k = true) /\
  exists evs, trace s' = evs ++ trace s /\ Forall noflush evs.

Lemma quiet_refl s : quiet s s.
Proof. split; [auto|]. split; [auto|]. exists []. split; [reflexivity|constructor]. Qed.

Lemma quiet_trans a b c : quiet a b -> quiet b c -> quiet a c.
Proof.
  intros (A1 & A2 & ea & Ta & Fa) (B1 & B2 & eb & Tb & Fb). split; [auto|]. split; [auto|].
  exists (eb ++ ea). split; [rewrite Tb, Ta, app_assoc; reflexivity|apply Forall_app; auto].
Qed.

Lemma quiet_view s s' : batches s' = batches s -> trace s' = trace s -> quiet s s'.
Proof.
  intros Hb Ht. unfold quiet, dn, get_batch. rewrite Hb. split; [auto|]. split; [auto|].
  exists []. split; [exact Ht|constructor].
Qed.

Lemma quiet_emit e s : noflush e -> quiet s (emit e s).
Proof. intros H. split; [auto|]. split; [auto|]. exists [e]. split; [reflexivity|repeat constructor; exact H]. Qed.

Lemma quiet_put h f s : quiet s (put h f s). Proof. apply quiet_view; reflexivity. Qed.
Lemma quiet_set_task t tk s : quiet s (set_task t tk s).
Proof. unfold set_task. destruct (get t s); [apply quiet_put|apply quiet_refl]. Qed.
Lemma quiet_var_set v x s : quiet s (var_set v x s). Proof. apply quiet_view; reflexivity. Qed.
Lemma quiet_ci_put k c s : quiet s (ci_put k c s). Proof. apply quiet_view; reflexivity. Qed.

Ltac qstep :=
  match goal with
  | |- quiet ?s ?s => apply quiet_refl
  | |- quiet _ _ => solve [apply quiet_view; reflexivity]
  | |- quiet _ (emit _ _) => eapply quiet_trans; [|apply quiet_emit; exact I]
  | |- quiet _ (put _ _ _) => eapply quiet_trans; [|apply quiet_put]
  | |- quiet _ (set_task _ _ _) => eapply quiet_trans; [|apply quiet_set_task]
  | |- quiet _ (var_set _ _ _) => eapply quiet_trans; [|apply quiet_var_set]
  | |- quiet _ (ci_put _ _ _) => eapply quiet_trans; [|apply quiet_ci_put]
  | |- quiet _ (with_sb _ _) => eapply quiet_trans; [|apply quiet_view; reflexivity]
  | |- quiet _ (with_oracle _ _) => eapply quiet_trans; [|apply quiet_view; reflexivity]
  | |- quiet _ (with_tasks _ _) => eapply quiet_trans; [|apply quiet_view; reflexivity]
  | |- quiet _ (with_active _ _) => eapply quiet_trans; [|apply quiet_view; reflexivity]
  | |- quiet _ (pop_task _) => eapply quiet_trans; [|apply quiet_view; reflexivity]
  end.
Ltac qq := repeat qstep.

Lemma quiet_enter_ctx t c s : quiet s (enter_ctx t c s).
Proof. unfold enter_ctx. destruct (get_task t s); destruct c; qq. Qed.
Lemma quiet_pause_plain t c s : quiet s (pause_plain t c s).
Proof. destruct c; unfold pause_plain; qq. Qed.
Lemma quiet_exit_ctx t c s : quiet s (exit_ctx t c s).
Proof. unfold exit_ctx. destruct (get_task t s) as [tk|]; [destruct (tk_cact tk)|]; try (eapply quiet_trans; [|apply quiet_pause_plain]); qq. Qed.

Lemma quiet_fold {X} (f : st -> X -> st) l : (forall s x, quiet s (f s x)) -> forall s, quiet s (fold_left f l s).
Proof. intros H. induction l as [|x l IH]; intros s; cbn; [apply quiet_refl|]. eapply quiet_trans; [apply H|apply IH]. Qed.

Lemma quiet_complete_task t o s : quiet s (complete_task t o s).
Proof.
  unfold complete_task. destruct (get_task t s) as [tk|]; [|apply quiet_refl].
  assert (H : quiet s (match tk_gen tk with
                       | Some _ => fold_left (fun s c => exit_ctx t c s) (rev (tk_ctxs tk)) s
                       | None => s end)).
  { destruct (tk_gen tk); [|apply quiet_refl]. apply quiet_fold. intros. apply quiet_exit_ctx. }
  destruct (get_task t _); [|exact H]. eapply quiet_trans; [exact H|]. qq.
Qed.

Lemma quiet_accept_error t e s : quiet s (accept_error t e s).
Proof. unfold accept_error. destruct (computed t s); [apply quiet_refl|apply quiet_complete_task]. Qed.

Lemma quiet_resume1 t c s : quiet s (fst (resume1 t c s)).
Proof. unfold resume1. destruct c as [cid f|cid|cid var v]; [destruct f| |]; cbn [fst]; t_regs; cbn [fst]; qq. Qed.
Lemma quiet_pause1 t c s : quiet s (fst (pause1 t c s)).
Proof. unfold pause1. destruct c as [cid f|cid|cid var v]; [destruct f| |]; cbn [fst]; t_regs; cbn [fst]; qq. Qed.

Lemma quiet_fold_pair {X E} (f : st * E -> X -> st * E) l :
  (forall a x, quiet (fst a) (fst (f a x))) -> forall a, quiet (fst a) (fst (fold_left f l a)).
Proof. intros H. induction l as [|x l IH]; intros a; cbn; [apply quiet_refl|]. eapply quiet_trans; [apply H|apply IH]. Qed.

Lemma quiet_resume_contexts t s : quiet s (resume_contexts t s).
Proof.
  unfold resume_contexts. destruct (get_task t s) as [tk|]; [|apply quiet_refl].
  destruct (tk_cact tk); [apply quiet_refl|].
  match goal with |- context [fold_left ?f ?l ?a] =>
    assert (H2 : quiet s (fst (fold_left f l a))) end.
  { match goal with |- quiet s (fst (fold_left ?f ?l (?s0, ?e))) =>
      apply (quiet_trans s s0); [apply quiet_set_task | apply (quiet_fold_pair f l) with (a := (s0, e))] end.
    intros [s0 e0] c. cbn [fst]. pose proof (quiet_resume1 t c s0) as Rr. destruct (resume1 t c s0). exact Rr. }
  match goal with |- context [fold_left ?f ?l ?a] => destruct (fold_left f l a) as [s1 [e|]] end;
    cbn [fst] in H2; [eapply quiet_trans; [exact H2|apply quiet_accept_error]|exact H2].
Qed.

Lemma quiet_pause_contexts t s : quiet s (pause_contexts t s).
Proof.
  unfold pause_contexts. destruct (get_task t s) as [tk|]; [|apply quiet_refl].
  destruct (negb (tk_cact tk)); [apply quiet_refl|].
  match goal with |- context [fold_left ?f ?l ?a] =>
    assert (H2 : quiet s (fst (fold_left f l a))) end.
  { match goal with |- quiet s (fst (fold_left ?f ?l (?s0, ?e))) =>
      apply (quiet_trans s s0); [apply quiet_set_task | apply (quiet_fold_pair f l) with (a := (s0, e))] end.
    intros [s0 e0] c. cbn [fst]. pose proof (quiet_pause1 t c s0) as Rr. destruct (pause1 t c s0). exact Rr. }
  match goal with |- context [fold_left ?f ?l ?a] => destruct (fold_left f l a) as [s1 [e|]] end;
    cbn [fst] in H2; [eapply quiet_trans; [exact H2|apply quiet_accept_error]|exact H2].
Qed.

(* creating a future: a batch may get one more item, its done flag is kept *)
Lemma quiet_create p f s : quiet s (snd (create p f s)).
Proof.
  unfold create, alloc. cbn zeta. destruct f; cbn [snd]; try (apply quiet_view; reflexivity).
  (* FItem *)
  set (s0 := with_top_next s (top_next s + 1)).
  set (idx := cur_idx kind s0). set (b := get_batch (kind, idx) s0).
  split; [|split].
  - intros k0 Hk. unfold dn in *. destruct (key_eqb k0 (kind, idx)) eqn:E.
    + apply key_eqb_eq in E. subst k0. rewrite get_batch_put_same. cbn. exact Hk.
    + assert (k0 <> (kind, idx)) by (intros ->; rewrite key_eqb_refl in E; discriminate).
      rewrite get_batch_put_other by assumption. exact Hk.
  - intros k0 Hk. unfold dn in *. destruct (key_eqb k0 (kind, idx)) eqn:E.
    + apply key_eqb_eq in E. subst k0. rewrite get_batch_put_same in Hk. cbn in Hk. exact Hk.
    + assert (k0 <> (kind, idx)) by (intros ->; rewrite key_eqb_refl in E; discriminate).
      rewrite get_batch_put_other in Hk by assumption. exact Hk.
  - exists []. split; [reflexivity|constructor].
Qed.

Lemma quiet_inst p y : forall s, quiet s (snd (inst p y s)).
Proof.
  induction y as [| a | l IH | l IH | l IH] using ystruct_ind2; intros s.
  - apply quiet_refl.
  - destruct a as [f|h|]; simpl; try apply quiet_refl.
    pose proof (quiet_create p f s) as H. destruct (create p f s). exact H.
  - simpl. match goal with |- context [(?g l s)] => set (go := g) end.
    assert (H : forall s, quiet s (snd (go l s))).
    { clear s. induction IH as [|x l Hx Hl IHl]; intros s; [apply quiet_refl|]. simpl.
      specialize (Hx s). destruct (inst p x s) as [x' s1]. cbn [snd] in Hx.
      specialize (IHl s1). destruct (go l s1) as [l'' s2]. cbn [snd] in *. eapply quiet_trans; eauto. }
    specialize (H s). destruct (go l s). exact H.
  - simpl. match goal with |- context [(?g l s)] => set (go := g) end.
    assert (H : forall s, quiet s (snd (go l s))).
    { clear s. induction IH as [|x l Hx Hl IHl]; intros s; [apply quiet_refl|]. simpl.
      specialize (Hx s). destruct (inst p x s) as [x' s1]. cbn [snd] in Hx.
      specialize (IHl s1). destruct (go l s1) as [l'' s2]. cbn [snd] in *. eapply quiet_trans; eauto. }
    specialize (H s). destruct (go l s). exact H.
  - simpl. match goal with |- context [(?g l s)] => set (go := g) end.
    assert (H : forall s, quiet s (snd (go l s))).
    { clear s. induction IH as [|[k x] l Hx Hl IHl]; intros s; [apply quiet_refl|]. simpl. simpl in Hx.
      specialize (Hx s). destruct (inst p x s) as [x' s1]. cbn [snd] in Hx.
      specialize (IHl s1). destruct (go l s1) as [l'' s2]. cbn [snd] in *. eapply quiet_trans; eauto. }
    specialize (H s). destruct (go l s). exact H.
Qed.

Lemma quiet_select P s : quiet s (snd (select P s)).
Proof.
  unfold select. destruct (filter _ (sb s)); [apply quiet_view; reflexivity|].
  cbn [oracle with_sb]. destruct (oracle s); [apply quiet_view; reflexivity|].
  destruct (existsb _ _ && _); cbn [snd]; qq.
Qed.

Lemma quiet_schedule_batch k s : quiet s (schedule_batch k s).
Proof. unfold schedule_batch. destruct (b_done _); [apply quiet_refl|]. destruct (existsb _ _); qq. Qed.

(* ------------------------------------------------------------------ the invariant *)
Definition is_flush (k : Z * Z) (e : event) : bool :=
  match e with EvFlush kind idx _ => key_eqb (kind, idx) k | _ => false end.
Definition count_flush (k : Z * Z) (tr : list event) : nat := length (filter (is_flush k) tr).

Definition FInv (s : st) : Prop :=
  forall k, (count_flush k (trace s) <= 1)%nat /\ (dn s k = false -> count_flush k (trace s) = O).

Lemma count_noflush k evs tr : Forall noflush evs -> count_flush k (evs ++ tr) = count_flush k tr.
Proof.
  intros H. unfold count_flush. rewrite filter_app, app_length.
  assert (filter (is_flush k) evs = []) as ->; [|reflexivity].
  induction H as [|e evs He Hf IH]; [reflexivity|]. cbn. destruct e; cbn in *; try exact IH. destruct He.
Qed.

Lemma FInv_quiet s s' : FInv s -> quiet s s' -> FInv s'.
Proof.
  intros HF (A & B & evs & T & F) k. rewrite T, count_noflush by exact F. destruct (HF k) as [H1 H2].
  split; [exact H1|]. intros Hd. apply H2. destruct (dn s k) eqn:E; [|reflexivity].
  rewrite (A k E) in Hd. discriminate.
Qed.

Lemma item_noflush evs : Forall flush_event evs -> Forall noflush evs.
Proof. apply Forall_impl. intros e. destruct e; cbn; auto. Qed.

Lemma flush_dn_other P k s k' : k' <> k -> dn (flush_batch P k s) k' = dn s k'.
Proof.
  intros N. unfold flush_batch. destruct (b_done (get_batch k s)); [reflexivity|].
  match goal with |- context [flush_body ?a ?b ?c ?d] =>
    pose proof (flush_body_spec a b c d) as H; destruct (flush_body a b c d) as [s2 err] end.
  cbn zeta in H. cbn [fst] in H. destruct H as (_ & _ & _ & B2 & _).
  set (fill := match err with Some e => Err e | None => Err E_NOTSET end).
  pose proof (fold_complete_spec fill (b_items (get_batch k s)) s2) as H3. cbn zeta in H3.
  set (s3 := fold_left (fun s h => complete_item h fill s) (b_items (get_batch k s)) s2) in *.
  destruct H3 as (_ & _ & _ & _ & B3 & _).
  unfold dn. rewrite get_batch_put_other by exact N.
  assert (E : get_batch k' s3 = get_batch k' s).
  { unfold get_batch. rewrite B3, B2. destruct (Z.eqb _ _); reflexivity. }
  rewrite E. reflexivity.
Qed.

Lemma FInv_flush_batch P k s : FInv s -> FInv (flush_batch P k s).
Proof.
  intros HF. destruct (dn s k) eqn:Hd; [unfold dn in Hd; rewrite (flush_done_is_noop P k s Hd); exact HF|].
  destruct (flush_pending P k s Hd) as ((evs & T & F) & D & _). cbn zeta in *.
  intros k'. destruct (HF k') as [H1 H2]. rewrite T, (count_noflush _ _ _ (item_noflush _ F)).
  unfold count_flush. cbn [filter is_flush].
  destruct (key_eqb (fst k, snd k) k') eqn:E.
  - apply key_eqb_eq in E. destruct k as [k1 k2]. cbn in E. subst k'. cbn [length].
    specialize (H2 Hd). unfold count_flush in H2. rewrite H2. split; [lia|]. unfold dn. rewrite D. discriminate.
  - assert (N : k' <> k) by (intros ->; destruct k; cbn in E; rewrite key_eqb_refl in E; discriminate).
    split; [exact H1|]. rewrite (flush_dn_other P k s k' N). exact H2.
Qed.

Lemma FInv_continue_with_batch P s : FInv s -> FInv (continue_with_batch P s).
Proof.
  intros HF. unfold continue_with_batch. pose proof (quiet_select P s) as Q. destruct (select P s) as [[k|] s1]; cbn [snd] in Q.
  - apply (FInv_quiet (flush_batch P k (emit (EvBefore (fst k) (snd k)) (with_sb s1 (filter (fun k' => negb (key_eqb k' k)) (sb s1)))))).
    + apply FInv_flush_batch. apply (FInv_quiet s); [exact HF|]. eapply quiet_trans; [exact Q|]. qq.
    + apply quiet_emit. exact I.
  - apply (FInv_quiet s); auto.
Qed.

Lemma quiet_pop_task s : quiet s (pop_task s). Proof. apply quiet_view; reflexivity. Qed.
Lemma quiet_with_tasks s t : quiet s (with_tasks s t). Proof. apply quiet_view; reflexivity. Qed.
Lemma quiet_with_active s a : quiet s (with_active s a). Proof. apply quiet_view; reflexivity. Qed.
Lemma quiet_reset_sched s : quiet s (reset_sched s). Proof. apply quiet_view; reflexivity. Qed.
Lemma quiet_drop_sb s : quiet s (drop_sb s). Proof. apply quiet_view; [apply batches_drop_sb|apply trace_drop_sb]. Qed.

Ltac qh :=
  repeat match goal with
  | |- quiet ?s ?s => apply quiet_refl
  | |- quiet _ _ => solve [apply quiet_view; reflexivity]
  | |- quiet _ (emit _ _) => eapply quiet_trans; [|apply quiet_emit; exact I]
  | |- quiet _ (put _ _ _) => eapply quiet_trans; [|apply quiet_put]
  | |- quiet _ (set_task _ _ _) => eapply quiet_trans; [|apply quiet_set_task]
  | |- quiet _ (pop_task _) => eapply quiet_trans; [|apply quiet_pop_task]
  | |- quiet _ (with_tasks _ _) => eapply quiet_trans; [|apply quiet_with_tasks]
  | |- quiet _ (with_active _ _) => eapply quiet_trans; [|apply quiet_with_active]
  | |- quiet _ (reset_sched _) => eapply quiet_trans; [|apply quiet_reset_sched]
  | |- quiet _ (drop_sb _) => eapply quiet_trans; [|apply quiet_drop_sb]
  | |- quiet _ (resume_contexts _ _) => eapply quiet_trans; [|apply quiet_resume_contexts]
  | |- quiet _ (pause_contexts _ _) => eapply quiet_trans; [|apply quiet_pause_contexts]
  | |- quiet _ (complete_task _ _ _) => eapply quiet_trans; [|apply quiet_complete_task]
  | |- quiet _ (accept_error _ _ _) => eapply quiet_trans; [|apply quiet_accept_error]
  | |- quiet _ (enter_ctx _ _ _) => eapply quiet_trans; [|apply quiet_enter_ctx]
  | |- quiet _ (exit_ctx _ _ _) => eapply quiet_trans; [|apply quiet_exit_ctx]
  | |- quiet _ (schedule_batch _ _) => eapply quiet_trans; [|apply quiet_schedule_batch]
  end.

(* every transition of the machine preserves "each batch's flush body has run at most once, and only
   for batches that are now done" *)
Ltac destr :=
  repeat match goal with
  | |- context [match ?x with _ => _ end] => destruct x
  | |- context [if ?x then _ else _] => destruct x
  end; cbn [c_st].

Theorem FInv_step P c : FInv (c_st c) -> FInv (c_st (step P c)).
Proof.
  destruct c as [m fr s]. cbn [c_st]. intros HF.
  assert (Q : forall s', quiet s s' -> FInv s') by (intros s'; apply FInv_quiet; exact HF).
  destruct m as [h| | | |t|t p| |o|e|o|]; cbn [step c_mode c_frames c_st];
    try (destr; first [exact HF | apply FInv_flush_batch; exact HF | apply FInv_continue_with_batch; exact HF | (apply Q; qh)]; fail).
  (* MRun *)
  destruct p as [v|v|e|y k|f k|h k|cx k|cx k|var k|k]; cbn [c_st];
    try (destr; first [exact HF | (apply Q; qh)]; fail).
  - pose proof (quiet_inst t y s) as Qi. destruct (inst t y s) as [y' s1]. cbn [snd] in Qi.
    destruct (get_task t s1) as [tk|]; cbn [c_st]; [|apply Q; exact Qi].
    destruct (futs (extract y')); cbn [c_st]; apply Q; (eapply quiet_trans; [exact Qi|]); qh.
  - pose proof (quiet_create t f s) as Qi. destruct (create t f s) as [h s1]. cbn [snd c_st] in *. apply Q. exact Qi.
Qed.

Lemma FInv_run P n : forall c, FInv (c_st c) -> FInv (c_st (run P n c)).
Proof.
  induction n as [|n IH]; intros c HF; [exact HF|]. rewrite run_S.
  destruct (is_final (c_mode c)); [exact HF|]. apply IH. apply FInv_step. exact HF.
Qed.

Lemma FInv_st0 P : FInv (st0 P).
Proof. intros k. cbn. split; [lia|reflexivity]. Qed.

(* C05: in every run of the machine, from the initial state, for every program, service behaviour,
   oracle and fuel: each batch's flush body ran at most once, and never for a batch that is still pending *)
Theorem flush_at_most_once P n c :
  FInv (c_st c) -> forall k, (count_flush k (trace (c_st (run P n c))) <= 1)%nat.
Proof. intros HF k. destruct (FInv_run P n c HF k) as [H _]. exact H. Qed.

(* whole histories of computations, as run by the correspondence (Machine.run_case) *)
Lemma FInv_run_root P fuel p s : FInv s -> FInv (snd (run_root P fuel p s)).
Proof.
  intros HF. unfold run_root.
  pose proof (quiet_create [] (FTask p) s) as Qc. destruct (create [] (FTask p) s) as [h s1]. cbn [snd] in Qc.
  assert (H1 : FInv s1) by (apply (FInv_quiet s); auto).
  pose proof (FInv_run P fuel (mkC (MValue h) [FTop] s1) H1) as H2.
  set (c := run P fuel (mkC (MValue h) [FTop] s1)) in *.
  assert (H3 : FInv (emit (EvSched (Z.of_nat (length (tasks (c_st c)))) (Z.of_nat (length (sb (c_st c)))) (active (c_st c))) (c_st c))).
  { apply (FInv_quiet (c_st c)); [exact H2|]. apply quiet_emit. exact I. }
  destruct (c_mode c); exact H3.
Qed.

Lemma FInv_run_history P fuel ps : forall s, FInv s -> FInv (snd (run_history P fuel ps s)).
Proof.
  induction ps as [|p ps IH]; intros s HF; [exact HF|]. cbn [run_history].
  pose proof (FInv_run_root P fuel p s HF) as H1. destruct (run_root P fuel p s) as [o s1]. cbn [snd] in H1.
  specialize (IH s1 H1). destruct (run_history P fuel ps s1) as [os s2]. exact IH.
Qed.

Lemma count_flush_rev k tr : count_flush k (rev tr) = count_flush k tr.
Proof.
  unfold count_flush. induction tr as [|e tr IH]; [reflexivity|]. cbn [rev]. rewrite filter_app, app_length, IH.
  cbn [filter]. destruct (is_flush k e); cbn; lia.
Qed.

Theorem run_case_flush_at_most_once P fuel ps k : (count_flush k (snd (run_case P fuel ps)) <= 1)%nat.
Proof.
  unfold run_case. pose proof (FInv_run_history P fuel ps (st0 P) (FInv_st0 P)) as H.
  destruct (run_history P fuel ps (st0 P)) as [os s]. cbn [snd] in *. rewrite count_flush_rev. apply H.
Qed.
