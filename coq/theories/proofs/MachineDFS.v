(* The depth-first pass of TaskScheduler._execute on tree programs: which tasks have their contexts
   active (C06) and, at the moment a batch is flushed, which tasks are stuck (C04).
   Built on the C01 invariant (MachineC01.CInv), which supplies the facts about heap entries. *)
From Asynq Require Import Machine Seq proofs.ProgProofs proofs.MachineFrame proofs.MachineC05 proofs.MachineC08 proofs.MachineC01.

(* ------------------------------------------------------------------ context flags *)
(* G: an uncomputed task whose dependencies are "scheduled" or whose contexts are active is on the
      scheduler's task stack;   H: scheduled dependencies imply active contexts. *)
Definition flags_ok (s : st) : Prop :=
  forall u tk, get u s = Some (mkFut None (KTask tk)) ->
    ((tk_ds tk = true \/ tk_cact tk = true) -> In u (tasks s)) /\ (tk_ds tk = true -> tk_cact tk = true).

Lemma flags_view s s' : heap s' = heap s -> tasks s' = tasks s -> flags_ok s -> flags_ok s'.
Proof.
  intros Hh Ht H u tk Hg. unfold get in Hg. rewrite Hh in Hg. rewrite Ht. apply (H u tk Hg).
Qed.

(* the entry of x is replaced (same outcome None -> anything); everything else is as before *)
Lemma flags_upd s s' x o' tk' :
  flags_ok s -> upd_entry s s' x (mkFut o' (KTask tk')) -> tasks s' = tasks s ->
  (o' = None -> ((tk_ds tk' = true \/ tk_cact tk' = true) -> In x (tasks s)) /\ (tk_ds tk' = true -> tk_cact tk' = true)) ->
  flags_ok s'.
Proof.
  intros H (A & B & _) Ht Hx u tk Hg. rewrite Ht. destruct (fid_eqb u x) eqn:E.
  - apply fid_eqb_eq in E. subst u. rewrite A in Hg. inversion Hg; subst. apply Hx. reflexivity.
  - assert (u <> x) by (intros ->; rewrite fid_eqb_refl in E; discriminate). rewrite B in Hg by assumption. apply (H u tk Hg).
Qed.

(* popping / pushing: membership of the remaining entries *)
Lemma flags_stack s s' : heap s' = heap s -> (forall u, In u (tasks s) -> In u (tasks s')) -> flags_ok s -> flags_ok s'.
Proof.
  intros Hh Hin H u tk Hg. unfold get in Hg. rewrite Hh in Hg. destruct (H u tk Hg) as [H1 H2]. split; auto.
Qed.

(* ------------------------------------------------------------------ flushing does not touch task entries (converse direction) *)
Lemma complete_item_back h o s u f' :
  get u (complete_item h o s) = Some f' ->
  exists f, get u s = Some f /\ f_kind f' = f_kind f /\ (u <> h -> f' = f).
Proof.
  unfold complete_item. destruct (get h s) as [f0|] eqn:G; [|intros H; exists f'; auto].
  destruct (f_out f0) eqn:O; [intros H; exists f'; auto|].
  rewrite get_emit. destruct (fid_eqb u h) eqn:E.
  - apply fid_eqb_eq in E. subst u. rewrite get_put_same. intros H. inversion H; subst f'.
    exists f0. split; [exact G|]. split; [reflexivity|congruence].
  - assert (N : u <> h) by (intros ->; rewrite fid_eqb_refl in E; discriminate).
    rewrite get_put_other by exact N. intros H. exists f'. auto.
Qed.

Definition task_back (s s' : st) : Prop :=
  forall u out tk, get u s' = Some (mkFut out (KTask tk)) -> get u s = Some (mkFut out (KTask tk)).

Lemma task_back_refl s : task_back s s. Proof. intros u out tk H. exact H. Qed.
Lemma task_back_trans a b c : task_back a b -> task_back b c -> task_back a c.
Proof. intros H1 H2 u out tk H. apply H1, H2, H. Qed.

Lemma complete_item_task_back h o s a : item_entry s h a -> task_back s (complete_item h o s).
Proof.
  intros He u out tk H. destruct (complete_item_back h o s u _ H) as (f & Hg & Hk & Hn).
  destruct (fid_eqb u h) eqn:E.
  - apply fid_eqb_eq in E. subst u. destruct He as (o1 & k1 & i1 & y1 & He). rewrite He in Hg. inversion Hg; subst f.
    cbn in Hk. discriminate.
  - assert (N : u <> h) by (intros ->; rewrite fid_eqb_refl in E; discriminate). rewrite (Hn N). exact Hg.
Qed.

Lemma flush_body_task_back items : forall i ra s,
  (forall h, In h items -> exists a, item_entry s h a) -> task_back s (fst (flush_body items i ra s)).
Proof.
  induction items as [|h rest IH]; intros i ra s HI; cbn [flush_body].
  - destruct ra as [[k e]|]; apply task_back_refl.
  - destruct (HI h (or_introl eq_refl)) as (a & He).
    assert (Hrest : forall s1, (forall h' a', item_entry s h' a' -> item_entry s1 h' a') -> task_back s s1 ->
                    task_back s (fst (flush_body rest (i + 1) ra s1))).
    { intros s1 H1 H2. eapply task_back_trans; [exact H2|]. apply IH.
      intros h' Hin. destruct (HI h' (or_intror Hin)) as (a' & He'). exists a'. auto. }
    destruct ra as [[k e]|].
    + destruct (Z.eqb i k); [apply task_back_refl|].
      destruct (get h s) as [[o [ | kind idx key [v|e'|] | | ]]|]; apply Hrest; auto using complete_item_item, task_back_refl;
        apply (complete_item_task_back h _ s a He).
    + destruct (get h s) as [[o [ | kind idx key [v|e'|] | | ]]|]; apply Hrest; auto using complete_item_item, task_back_refl;
        apply (complete_item_task_back h _ s a He).
Qed.

Lemma fold_complete_task_back o items : forall s,
  (forall h, In h items -> exists a, item_entry s h a) ->
  task_back s (fold_left (fun s h => complete_item h o s) items s).
Proof.
  induction items as [|h rest IH]; intros s HI; cbn [fold_left]; [apply task_back_refl|].
  destruct (HI h (or_introl eq_refl)) as (a & He).
  eapply task_back_trans; [apply (complete_item_task_back h o s a He)|]. apply IH.
  intros h' Hin. destruct (HI h' (or_intror Hin)) as (a' & He'). exists a'. apply complete_item_item. exact He'.
Qed.

Lemma task_back_view s s' : heap s' = heap s -> task_back s s'.
Proof. intros Hh u out tk H. unfold get in *. rewrite Hh in H. exact H. Qed.

Lemma item_entry_view s s' h a : heap s' = heap s -> item_entry s h a -> item_entry s' h a.
Proof. intros Hh (o & k & i & y & He). exists o, k, i, y. unfold get in *. rewrite Hh. exact He. Qed.

Lemma flush_body_item_entry items : forall i ra s0 h a, item_entry s0 h a -> item_entry (fst (flush_body items i ra s0)) h a.
Proof.
  induction items as [|x l IH]; intros i ra s0 h a He; cbn [flush_body].
  - destruct ra as [[k0 e]|]; exact He.
  - destruct ra as [[k0 e]|].
    + destruct (Z.eqb i k0); [exact He|].
      destruct (get x s0) as [[o [ | kind idx key [v|e'|] | | ]]|]; apply IH; auto using complete_item_item.
    + destruct (get x s0) as [[o [ | kind idx key [v|e'|] | | ]]|]; apply IH; auto using complete_item_item.
Qed.

Lemma flush_batch_task_back P k s : items_ok s -> task_back s (flush_batch P k s).
Proof.
  intros HI. unfold flush_batch. destruct (b_done (get_batch k s)); [apply task_back_refl|].
  set (s0 := if Z.eqb (cur_idx (fst k) s) (snd k) then with_cur s (upd Z.eqb (fst k) (snd k + 1) (cur s)) else s).
  set (s1 := emit (EvFlush (fst k) (snd k) (b_items (get_batch k s))) s0).
  assert (Hh : heap s1 = heap s) by (unfold s1, s0; destruct (Z.eqb _ _); reflexivity).
  assert (HI1 : forall h, In h (b_items (get_batch k s)) -> exists a, item_entry s1 h a).
  { intros h Hin. destruct (HI k h Hin) as (out & kind & idx & key & a & E). exists a. apply (item_entry_view s); [exact Hh|].
    exists out, kind, idx, key. exact E. }
  pose proof (flush_body_task_back (b_items (get_batch k s)) 0 (ks_raise (kspec_of P (fst k))) s1 HI1) as H.
  assert (HI2 : forall h, In h (b_items (get_batch k s)) -> exists a, item_entry (fst (flush_body (b_items (get_batch k s)) 0 (ks_raise (kspec_of P (fst k))) s1)) h a).
  { intros h Hin. destruct (HI1 h Hin) as (a & He). exists a. apply flush_body_item_entry. exact He. }
  destruct (flush_body (b_items (get_batch k s)) 0 (ks_raise (kspec_of P (fst k))) s1) as [s2 err]. cbn [fst] in *.
  eapply task_back_trans; [|apply task_back_view; reflexivity].
  eapply task_back_trans; [|apply fold_complete_task_back; exact HI2].
  eapply task_back_trans; [|exact H]. apply task_back_view. exact Hh.
Qed.

Lemma continue_with_batch_task_back P s : items_ok s -> task_back s (continue_with_batch P s).
Proof.
  intros HI. unfold continue_with_batch. pose proof (select_batches P s) as [Hb Hh].
  destruct (select P s) as [[k|] s1]; cbn [snd] in Hh, Hb.
  - eapply task_back_trans; [|apply task_back_view; reflexivity].
    eapply task_back_trans; [|apply flush_batch_task_back].
    + apply task_back_view. cbn. exact Hh.
    + intros k0 h Hin. cbn in Hin. unfold get_batch in Hin. cbn in Hin. rewrite Hb in Hin.
      destruct (HI k0 h Hin) as (out & kind & idx & key & a & E). exists out, kind, idx, key, a.
      unfold get in *. cbn. rewrite Hh. exact E.
  - apply task_back_view. exact Hh.
Qed.

Lemma tasks_of_regs s s' : regs s' = regs s -> tasks s' = tasks s.
Proof. unfold regs. congruence. Qed.

Lemma upd_entry_refl s x f : get x s = Some f -> upd_entry s s x f.
Proof. intros H. split; [exact H|]. split; [auto|]. split; reflexivity. Qed.

(* the entry of x after _resume_contexts / _pause_contexts (contexts that cannot fail): only the flag changed *)
Lemma resume_entry spec r s x out tk :
  SInv spec r s -> get x s = Some (mkFut out (KTask tk)) ->
  upd_entry s (resume_contexts x s) x (mkFut out (KTask (tk_with_ctxs tk (tk_ctxs tk) true))).
Proof.
  intros HS Hg. pose proof (SInv_plain _ _ _ _ _ _ HS Hg) as Hp.
  destruct (resume_contexts_plain x s out tk Hg Hp) as [H1 H2]. destruct (tk_cact tk) eqn:Hc.
  - rewrite (H1 eq_refl). apply upd_entry_refl. rewrite Hg. destruct tk. cbn in *. subst. reflexivity.
  - apply H2. reflexivity.
Qed.

Lemma pause_entry spec r s x out tk :
  SInv spec r s -> get x s = Some (mkFut out (KTask tk)) ->
  upd_entry s (pause_contexts x s) x (mkFut out (KTask (tk_with_ctxs tk (tk_ctxs tk) false))).
Proof.
  intros HS Hg. pose proof (SInv_plain _ _ _ _ _ _ HS Hg) as Hp.
  destruct (pause_contexts_plain x s out tk Hg Hp) as [H1 H2]. destruct (tk_cact tk) eqn:Hc.
  - apply H2. reflexivity.
  - rewrite (H1 eq_refl). apply upd_entry_refl. rewrite Hg. destruct tk. cbn in *. subst. reflexivity.
Qed.

Lemma upd_entry_trans s s1 s2 x f1 f2 : upd_entry s s1 x f1 -> upd_entry s1 s2 x f2 -> upd_entry s s2 x f2.
Proof.
  intros (A1 & B1 & C1 & D1) (A2 & B2 & C2 & D2). split; [exact A2|]. split; [intros h N; rewrite B2, B1; auto|]. split; congruence.
Qed.

Section Flags.
  Variable P : params.
  Hypothesis HP : pointwise P.
  Variable root : fid.
  Variable res : outcome.

  (* where the task stack stands, by mode *)
  Definition stack_ok (c : cfg) : Prop :=
    match c_mode c with
    | MValue _ | MDeliver _ | MWaitHead | MAfterExec => tasks (c_st c) = []
    | MExecLoop => c_frames c = [FExec 0; FWait root; FTop]
    | MResume t | MRun t _ =>
      (exists old, c_frames c = [FCont t old; FExec 0; FWait root; FTop]) /\
      (exists rest, tasks (c_st c) = t :: rest) /\
      (forall tk, get t (c_st c) = Some (mkFut None (KTask tk)) -> tk_cact tk = true)
    | MContRet =>
      exists t old rest, c_frames c = [FCont t old; FExec 0; FWait root; FTop] /\ tasks (c_st c) = t :: rest /\
        (forall tk, get t (c_st c) = Some (mkFut None (KTask tk)) -> tk_cact tk = true)
    | MUnwind _ | MDone _ | MStuck => True
    end.

  Definition FL (spec : specmap) (c : cfg) : Prop :=
    CInv root res spec c /\
    match c_mode c with
    | MUnwind _ | MDone _ | MStuck => True
    | _ => flags_ok (c_st c) /\ stack_ok c
    end.

  Lemma fl_MValue spec h fr s : FL spec (mkC (MValue h) fr s) -> FL spec (step P (mkC (MValue h) fr s)).
  Proof.
    intros (HC & HF & HK). split; [apply c01_MValue; auto|].
    destruct HC as (Hr & Hf & HS & Ht & ->). cbn in *. subst fr. cbn [step c_mode c_frames c_st].
    destruct (computed root s); [split; assumption|].
    destruct Ht as (out & tk & Hg). rewrite Hg. cbn. split; assumption.
  Qed.

  Lemma fl_MWaitHead spec fr s : FL spec (mkC MWaitHead fr s) -> FL spec (step P (mkC MWaitHead fr s)).
  Proof.
    intros (HC & HF & HK). split; [apply c01_MWaitHead; auto|].
    destruct HC as (Hr & Hf & HS & Ht & _). cbn in *. subst fr. cbn [step c_mode c_frames c_st].
    destruct (computed root s); [cbn; split; [apply (flags_view s); [apply heap_drop_sb|apply tasks_drop_sb|exact HF]|rewrite tasks_drop_sb; exact HK]|]. cbn. rewrite HK. split; [|reflexivity].
    apply (flags_stack s); auto. intros u Hu. rewrite HK in Hu. destruct Hu.
  Qed.

  Lemma fl_MAfterExec spec fr s : FL spec (mkC MAfterExec fr s) -> FL spec (step P (mkC MAfterExec fr s)).
  Proof.
    intros (HC & HF & HK). split; [apply c01_MAfterExec; auto|].
    destruct HC as (Hr & Hf & HS & Ht & _). cbn in *. subst fr. cbn [step c_mode c_frames c_st].
    destruct (computed root s); [cbn; split; [apply (flags_view s); [apply heap_drop_sb|apply tasks_drop_sb|exact HF]|rewrite tasks_drop_sb; exact HK]|]. cbn.
    destruct (SInv_continue_with_batch spec None P s HP HS) as (_ & _ & C).
    assert (Hreg : regs (continue_with_batch P s) = regs s) by apply regs_continue_with_batch.
    assert (Hts : tasks (continue_with_batch P s) = tasks s) by (unfold regs in Hreg; congruence).
    split; [|congruence].
    intros u tk Hg. rewrite Hts. apply (HF u tk). apply (continue_with_batch_task_back P s); [apply HS|exact Hg].
  Qed.

  (* popping the top entry x when x no longer has active flags (or is not an uncomputed task) *)
  Lemma flags_pop s s' x ts :
    flags_ok s' -> tasks s' = x :: ts ->
    (forall tk, get x s' = Some (mkFut None (KTask tk)) -> tk_ds tk = false /\ tk_cact tk = false) ->
    heap s = heap s' -> tasks s = tl (tasks s') -> flags_ok s.
  Proof.
    intros HF Ht Hx Hh Hts u tk Hg. rewrite Ht in Hts. cbn in Hts. unfold get in Hg. rewrite Hh in Hg. fold (get u s') in Hg.
    destruct (HF u tk Hg) as [H1 H2]. split; [|exact H2]. intros Hfl. specialize (H1 Hfl). rewrite Ht in H1. rewrite Hts.
    destruct H1 as [<-|H1]; [|exact H1]. destruct (Hx tk Hg) as [E1 E2]. destruct Hfl; congruence.
  Qed.

  Lemma fl_MExecLoop spec fr s : FL spec (mkC MExecLoop fr s) -> FL spec (step P (mkC MExecLoop fr s)).
  Proof.
    intros (HC & HF & HK). split; [apply c01_MExecLoop; auto|].
    destruct HC as (Hr & Hf & HS & Ht & _). cbn in HK, HS, HF. subst fr. cbn [step c_mode c_frames c_st].
    destruct (Nat.leb (length (tasks s)) 0) eqn:Hle.
    { cbn. split; [exact HF|]. apply Nat.leb_le in Hle. destruct (tasks s); [reflexivity|cbn in Hle; lia]. }
    destruct (Z.ltb (p_maxstack P) (Z.of_nat (length (tasks s)))); [exact I|].
    destruct (tasks s) as [|x ts] eqn:Hts; [cbn; split; auto|].
    destruct (computed x s) eqn:Hcx.
    { cbn. split; [|reflexivity]. apply (flags_pop _ s x ts HF Hts); try reflexivity.
      intros tk Hg. unfold computed in Hcx. rewrite Hg in Hcx. cbn in Hcx. discriminate. }
    destruct (get x s) as [[out [tk|kind idx key a|o'|]]|] eqn:Hg.
    - assert (out = None) as -> by (unfold computed in Hcx; rewrite Hg in Hcx; cbn in Hcx; destruct out; [discriminate|reflexivity]).
      destruct (is_blocked tk s) eqn:Hb.
      + destruct (tk_ds tk) eqn:Hds.
        * (* settled: ds := false, pause contexts, pop *)
          pose proof (set_task_upd s x None tk (tk_set_ds tk false) Hg) as U1. pose proof U1 as (G1 & _).
          assert (HS1 : SInv spec None (set_task x (tk_set_ds tk false) s)) by (apply (SInv_set_task_same spec None s x None tk); auto).
          pose proof (pause_entry spec None _ x None _ HS1 G1) as U2.
          pose proof (upd_entry_trans _ _ _ _ _ _ U1 U2) as U. cbn. split; [|reflexivity].
          assert (HF2 : flags_ok (pause_contexts x (set_task x (tk_set_ds tk false) s))).
          { apply (flags_upd s _ x None _ HF U).
            - apply tasks_of_regs. rewrite regs_pause_contexts, regs_set_task. reflexivity.
            - intros _. cbn. split; [intros [E|E]; discriminate|discriminate]. }
          apply (flags_pop _ (pause_contexts x (set_task x (tk_set_ds tk false) s)) x ts HF2); try reflexivity.
          -- rewrite (tasks_of_regs s); [exact Hts|]. rewrite regs_pause_contexts, regs_set_task. reflexivity.
          -- intros tk' Hg'. destruct U as (A & _). rewrite A in Hg'. inversion Hg'; subst. cbn. auto.
        * (* first visit: ds := true, resume contexts, push dependencies *)
          pose proof (set_task_upd s x None tk (tk_set_ds tk true) Hg) as U1. pose proof U1 as (G1 & _).
          assert (HS1 : SInv spec None (set_task x (tk_set_ds tk true) s)) by (apply (SInv_set_task_same spec None s x None tk); auto).
          pose proof (resume_entry spec None _ x None _ HS1 G1) as U2.
          pose proof (upd_entry_trans _ _ _ _ _ _ U1 U2) as U. cbn. split; [|reflexivity].
          assert (Htk : tasks (resume_contexts x (set_task x (tk_set_ds tk true) s)) = x :: ts).
          { rewrite (tasks_of_regs s); [exact Hts|]. rewrite regs_resume_contexts, regs_set_task. reflexivity. }
          assert (HF2 : flags_ok (resume_contexts x (set_task x (tk_set_ds tk true) s))).
          { apply (flags_upd s _ x None _ HF U); [rewrite Htk, Hts; reflexivity|].
            intros _. cbn. split; [intros _; rewrite Hts; left; reflexivity|reflexivity]. }
          apply (flags_stack (resume_contexts x (set_task x (tk_set_ds tk true) s))); [reflexivity| |exact HF2].
          intros u Hu. cbn. apply in_or_app. right. exact Hu.
      + (* not blocked: _continue_with_task *)
        rewrite (computed_resume_contexts spec None s x HS x), Hcx.
        pose proof (resume_entry spec None s x None tk HS Hg) as U.
        assert (Htk : tasks (resume_contexts x s) = x :: ts).
        { rewrite (tasks_of_regs s); [exact Hts|]. rewrite regs_resume_contexts. reflexivity. }
        cbn. split.
        * apply (flags_view (resume_contexts x s)); [reflexivity|reflexivity|].
          apply (flags_upd s _ x None _ HF U); [rewrite Htk, Hts; reflexivity|].
          intros _. cbn. split; [intros _; rewrite Hts; left; reflexivity|reflexivity].
        * split; [eauto|]. split; [exists ts; exact Htk|].
          intros tk' Hg'. change (get x (with_active ?a ?b)) with (get x a) in Hg'. destruct U as (A & _). rewrite A in Hg'.
          inversion Hg'; subst. reflexivity.
    - (* item *)
      cbn. split; [|reflexivity].
      assert (Hh : heap (schedule_batch (kind, idx) s) = heap s) by (unfold schedule_batch; destruct (b_done _); [reflexivity|]; destruct (existsb _ _); reflexivity).
      assert (Htk : tasks (schedule_batch (kind, idx) s) = x :: ts) by (rewrite (tasks_of_regs s); [exact Hts|]; rewrite regs_schedule_batch; reflexivity).
      apply (flags_pop _ (schedule_batch (kind, idx) s) x ts); try reflexivity; [|exact Htk|].
      + apply (flags_view s); auto. congruence.
      + intros tk Hg'. unfold get in Hg'. rewrite Hh in Hg'. fold (get x s) in Hg'. rewrite Hg in Hg'. discriminate.
    - (* lazy *)
      cbn. split; [|reflexivity].
      assert (HF2 : flags_ok (put x (mkFut (Some o') (KLazy o')) s)).
      { intros u tk Hg'. destruct (fid_eqb u x) eqn:E.
        - apply fid_eqb_eq in E. subst u. rewrite get_put_same in Hg'. discriminate.
        - assert (u <> x) by (intros ->; rewrite fid_eqb_refl in E; discriminate). rewrite get_put_other in Hg' by assumption.
          apply (HF u tk Hg'). }
      apply (flags_pop _ (put x (mkFut (Some o') (KLazy o')) s) x ts HF2); try reflexivity; [exact Hts|].
      intros tk Hg'. rewrite get_put_same in Hg'. discriminate.
    - (* other *)
      cbn. split; [|reflexivity]. apply (flags_pop _ s x ts HF Hts); try reflexivity. intros tk Hg'. rewrite Hg in Hg'. discriminate.
    - cbn. split; [|reflexivity]. apply (flags_pop _ s x ts HF Hts); try reflexivity. intros tk Hg'. rewrite Hg in Hg'. discriminate.
  Qed.

  Lemma flags_create p f s : flags_ok s -> flags_ok (snd (create p f s)).
  Proof.
    intros HF. unfold create, alloc. cbn zeta.
    set (h := [top_next s]). set (s0 := with_top_next s (top_next s + 1)).
    assert (Hnew : forall e s1, (forall x, x <> h -> get x s1 = get x s) -> get h s1 = Some e -> tasks s1 = tasks s ->
                   (forall tk, e = mkFut None (KTask tk) -> tk_ds tk = false /\ tk_cact tk = false) -> flags_ok s1).
    { intros e s1 Hoth Hn Ht He u tk Hg. rewrite Ht. destruct (fid_eqb u h) eqn:E.
      - apply fid_eqb_eq in E. subst u. rewrite Hn in Hg. inversion Hg; subst e. destruct (He tk eq_refl) as [E1 E2].
        split; [intros [X|X]; congruence|congruence].
      - assert (u <> h) by (intros ->; rewrite fid_eqb_refl in E; discriminate). rewrite Hoth in Hg by assumption. apply (HF u tk Hg). }
    destruct f as [q|kind key a|v|e|o]; cbn [snd].
    - apply (Hnew (mkFut None (KTask (fresh_task q)))); try reflexivity.
      + intros x N. rewrite get_put_other by exact N. reflexivity.
      + apply get_put_same.
      + intros tk E. inversion E. cbn. auto.
    - apply (Hnew (mkFut None (KItem kind (cur_idx kind s0) key a))); try reflexivity.
      + intros x N. change (get x (put_batch ?k ?b ?z)) with (get x z). rewrite get_put_other by exact N. reflexivity.
      + change (get h (put_batch ?k ?b ?z)) with (get h z). apply get_put_same.
      + intros tk E. discriminate.
    - apply (Hnew (mkFut (Some (Ok v)) KOther)); try reflexivity.
      + intros x N. rewrite get_put_other by exact N. reflexivity.
      + apply get_put_same.
      + intros tk E. discriminate.
    - apply (Hnew (mkFut (Some (Err e)) KOther)); try reflexivity.
      + intros x N. rewrite get_put_other by exact N. reflexivity.
      + apply get_put_same.
      + intros tk E. discriminate.
    - apply (Hnew (mkFut None (KLazy o))); try reflexivity.
      + intros x N. rewrite get_put_other by exact N. reflexivity.
      + apply get_put_same.
      + intros tk E. discriminate.
  Qed.

  Lemma flags_inst p y : forall s, flags_ok s -> flags_ok (snd (inst p y s)).
  Proof.
    induction y as [| a | l IH | l IH | l IH] using ystruct_ind2; intros s HF.
    - exact HF.
    - destruct a as [f|h|]; simpl; try exact HF.
      pose proof (flags_create p f s HF) as H. destruct (create p f s). exact H.
    - simpl. match goal with |- context [(?g l s)] => set (go := g) end.
      assert (H : forall s, flags_ok s -> flags_ok (snd (go l s))).
      { clear s HF. induction IH as [|x l Hx Hl IHl]; intros s HF; [exact HF|]. simpl.
        specialize (Hx s HF). destruct (inst p x s) as [x' s1]. cbn [snd] in Hx.
        specialize (IHl s1 Hx). destruct (go l s1) as [l'' s2]. exact IHl. }
      specialize (H s HF). destruct (go l s). exact H.
    - simpl. match goal with |- context [(?g l s)] => set (go := g) end.
      assert (H : forall s, flags_ok s -> flags_ok (snd (go l s))).
      { clear s HF. induction IH as [|x l Hx Hl IHl]; intros s HF; [exact HF|]. simpl.
        specialize (Hx s HF). destruct (inst p x s) as [x' s1]. cbn [snd] in Hx.
        specialize (IHl s1 Hx). destruct (go l s1) as [l'' s2]. exact IHl. }
      specialize (H s HF). destruct (go l s). exact H.
    - simpl. match goal with |- context [(?g l s)] => set (go := g) end.
      assert (H : forall s, flags_ok s -> flags_ok (snd (go l s))).
      { clear s HF. induction IH as [|[k x] l Hx Hl IHl]; intros s HF; [exact HF|]. simpl. simpl in Hx.
        specialize (Hx s HF). destruct (inst p x s) as [x' s1]. cbn [snd] in Hx.
        specialize (IHl s1 Hx). destruct (go l s1) as [l'' s2]. exact IHl. }
      specialize (H s HF). destruct (go l s). exact H.
  Qed.

  Lemma fl_MResume spec t fr s : FL spec (mkC (MResume t) fr s) -> FL spec (step P (mkC (MResume t) fr s)).
  Proof.
    intros (HC & HF & HK). split; [apply c01_MResume; auto|].
    destruct HC as (Hr & Hf & HS & Ht & (tk & Hg & Hcomp)). cbn in HK, HS, HF, Hg. destruct HK as ((old & ->) & (rest & Hts) & Hca).
    cbn [step c_mode c_frames c_st]. unfold get_task. rewrite Hg.
    destruct (SInv_entry _ _ _ _ _ HS Hg) as (_ & ot & Hst & _ & Hp & Hk). cbn in Hp, Hk.
    destruct (Hk eq_refl ltac:(discriminate)) as (k & K1 & _). rewrite K1.
    set (tk1 := mkTask (Some k) YNone (if p_keep P then tk_deps tk else []) (tk_ctxs tk) (tk_cact tk) (tk_ds tk) (tk_iter tk + 1) (tk_next tk)).
    assert (U : upd_entry s (emit (EvStep t (tk_iter tk) (unwrap (look s) (tk_last tk))) (set_task t tk1 s)) t (mkFut None (KTask tk1))).
    { eapply upd_entry_view; [apply (set_task_upd s t None tk tk1 Hg)|reflexivity|reflexivity|reflexivity]. }
    assert (Htk : tasks (emit (EvStep t (tk_iter tk) (unwrap (look s) (tk_last tk))) (set_task t tk1 s)) = tasks s).
    { apply tasks_of_regs. rewrite regs_emit, regs_set_task. reflexivity. }
    cbn. split.
    - apply (flags_upd s _ t None tk1 HF U Htk). intros _. cbn. rewrite (Hca tk Hg).
      split; [intros _; rewrite Hts; left; reflexivity|reflexivity].
    - split; [eauto|]. split; [exists rest; etransitivity; [exact Htk|exact Hts]|].
      intros tk' Hg'. destruct U as (A & _). change (get t (emit (EvStep t (tk_iter tk) (unwrap (look s) (tk_last tk))) (set_task t tk1 s)) = Some (mkFut None (KTask tk'))) in Hg'. rewrite A in Hg'. inversion Hg'; subst. cbn. apply (Hca tk Hg).
  Qed.

  Lemma fl_MRun spec t p fr s : FL spec (mkC (MRun t p) fr s) -> exists spec', FL spec' (step P (mkC (MRun t p) fr s)).
  Proof.
    intros (HC & HF & HK). destruct (c01_MRun P root res spec t p fr s HC) as (spec' & HC'). exists spec'. split; [exact HC'|].
    clear HC'. destruct HC as (Hr & Hf & HS & Ht & (Htree & Hst & (tk & Hg))). cbn in HK, HS, HF, Hg.
    destruct HK as ((old & ->) & (rest & Hts) & Hca). pose proof (Hca tk Hg) as Hcact.
    cbn [step c_mode c_frames c_st]. unfold get_task. rewrite Hg.
    (* finishing: the entry becomes computed, flags of the others unchanged *)
    assert (Hfin : forall o, let s1 := set_task t (mkTask None (tk_last tk) (tk_deps tk) (tk_ctxs tk) (tk_cact tk) (tk_ds tk) (tk_iter tk) (tk_next tk)) s in
              computed t s1 = false /\
              flags_ok (complete_task t o s1) /\ tasks (complete_task t o s1) = t :: rest /\
              (forall tk', get t (complete_task t o s1) = Some (mkFut None (KTask tk')) -> tk_cact tk' = true)).
    { intros o. cbn zeta.
      set (tkc := mkTask None (tk_last tk) (tk_deps tk) (tk_ctxs tk) (tk_cact tk) (tk_ds tk) (tk_iter tk) (tk_next tk)).
      pose proof (set_task_upd s t None tk tkc Hg) as U1. pose proof U1 as (G1 & _).
      split; [unfold computed; rewrite G1; reflexivity|].
      rewrite (complete_task_closed t o _ None tkc G1 eq_refl).
      set (ent := mkFut (Some o) (KTask (mkTask None YNone [] (tk_ctxs tkc) (tk_cact tkc) (tk_ds tkc) (tk_iter tkc) (tk_next tkc)))).
      assert (U2 : upd_entry s (emit (EvDone t o) (put t ent (set_task t tkc s))) t ent).
      { eapply upd_entry_trans; [exact U1|]. eapply upd_entry_view; [apply upd_entry_put|reflexivity|reflexivity|reflexivity]. }
      assert (Htk : tasks (emit (EvDone t o) (put t ent (set_task t tkc s))) = tasks s).
      { apply tasks_of_regs. rewrite regs_emit, regs_put, regs_set_task. reflexivity. }
      split; [|split].
      - apply (flags_upd s _ t (Some o) _ HF U2 Htk). intros E. discriminate.
      - rewrite Htk. exact Hts.
      - intros tk' Hg'. destruct U2 as (A & _). rewrite A in Hg'. discriminate. }
    inversion Htree as [v Ev|v Ev|e Ev|y k Hl Hk Ev|c k Hc Hk Ev|c k Hc Hk Ev]; subst p.
    - destruct (Hfin (Ok v)) as (Hnc & A & B & C). cbn zeta in *. rewrite Hnc. cbn. split; [exact A|]. exists t, old, rest. auto.
    - destruct (Hfin (Ok v)) as (Hnc & A & B & C). cbn zeta in *. rewrite Hnc. cbn. split; [exact A|]. exists t, old, rest. auto.
    - destruct (Hfin (Err e)) as (Hnc & A & B & C). cbn zeta in *. unfold accept_error. rewrite Hnc. cbn. split; [exact A|]. exists t, old, rest. auto.
    - (* Yield *)
      destruct (SInv_inst (Some t) t y spec s HS Hl) as (spec1 & (Ext & HS1 & Old) & U & A).
      pose proof (flags_inst t y s HF) as HFi. pose proof (regs_inst t y s) as Hri.
      destruct (inst t y s) as [y' s1]. cbn [fst snd] in *.
      assert (Hg1 : get t s1 = Some (mkFut None (KTask tk))) by (rewrite Old; [exact Hg|rewrite Hg; discriminate]).
      rewrite Hg1.
      set (deps := tk_deps tk ++ futs (extract y')).
      set (tk2 := mkTask (Some k) y' deps (tk_ctxs tk) (tk_cact tk) (tk_ds tk) (tk_iter tk) (tk_next tk)).
      pose proof (set_task_upd s1 t None tk tk2 Hg1) as U2.
      assert (Htk : tasks (set_task t tk2 s1) = t :: rest).
      { rewrite (tasks_of_regs s); [exact Hts|]. rewrite regs_set_task. exact Hri. }
      assert (HF2 : flags_ok (set_task t tk2 s1)).
      { apply (flags_upd s1 _ t None tk2 HFi U2); [apply tasks_of_regs; rewrite regs_set_task; reflexivity|].
        intros _. cbn. rewrite Hcact. split; [intros _; rewrite (tasks_of_regs s s1 Hri), Hts; left; reflexivity|reflexivity]. }
      assert (Hc2 : forall tk', get t (set_task t tk2 s1) = Some (mkFut None (KTask tk')) -> tk_cact tk' = true).
      { intros tk' Hg'. destruct U2 as (A2 & _). rewrite A2 in Hg'. inversion Hg'; subst. exact Hcact. }
      fold deps. fold tk2. destruct (futs (extract y')); cbn; (split; [exact HF2|]).
      + split; [eauto|]. split; [exists rest; exact Htk|exact Hc2].
      + exists t, old, rest. auto.
    - (* Enter *)
      unfold enter_ctx, get_task. rewrite Hg.
      set (tk1 := tk_with_ctxs tk (tk_ctxs tk ++ [c]) (tk_cact tk)).
      pose proof (set_task_upd s t None tk tk1 Hg) as U1.
      assert (V : forall s2, heap s2 = heap (set_task t tk1 s) -> tasks s2 = tasks (set_task t tk1 s) ->
                flags_ok s2 /\ stack_ok (mkC (MRun t k) [FCont t old; FExec 0; FWait root; FTop] s2)).
      { intros s2 E1 E2'. assert (E2 : tasks s2 = tasks s) by (rewrite E2'; apply tasks_of_regs; rewrite regs_set_task; reflexivity). split.
        - apply (flags_view (set_task t tk1 s)); [exact E1|rewrite E2; apply tasks_of_regs; rewrite regs_set_task; reflexivity|].
          apply (flags_upd s _ t None tk1 HF U1); [apply tasks_of_regs; rewrite regs_set_task; reflexivity|].
          intros _. cbn. rewrite Hcact. split; [intros _; rewrite Hts; left; reflexivity|reflexivity].
        - cbn. split; [eauto|]. split; [exists rest; rewrite E2; exact Hts|].
          intros tk' Hg'. unfold get in Hg'. rewrite E1 in Hg'. destruct U1 as (A1 & _). unfold get in A1. rewrite A1 in Hg'.
          inversion Hg'; subst. exact Hcact. }
      destruct c as [cid f|cid|cid var v]; cbn [c_mode c_frames c_st]; apply V; reflexivity.
    - (* Exit *)
      rewrite (exit_ctx_active t c s None tk Hg Hcact).
      set (tk1 := tk_with_ctxs tk (remove_ctx c (tk_ctxs tk)) (tk_cact tk)).
      pose proof (set_task_upd s t None tk tk1 Hg) as U1.
      assert (V : forall s2, heap s2 = heap (set_task t tk1 s) -> tasks s2 = tasks (set_task t tk1 s) ->
                flags_ok s2 /\ stack_ok (mkC (MRun t k) [FCont t old; FExec 0; FWait root; FTop] s2)).
      { intros s2 E1 E2'. assert (E2 : tasks s2 = tasks s) by (rewrite E2'; apply tasks_of_regs; rewrite regs_set_task; reflexivity). split.
        - apply (flags_view (set_task t tk1 s)); [exact E1|rewrite E2; apply tasks_of_regs; rewrite regs_set_task; reflexivity|].
          apply (flags_upd s _ t None tk1 HF U1); [apply tasks_of_regs; rewrite regs_set_task; reflexivity|].
          intros _. cbn. rewrite Hcact. split; [intros _; rewrite Hts; left; reflexivity|reflexivity].
        - cbn. split; [eauto|]. split; [exists rest; rewrite E2; exact Hts|].
          intros tk' Hg'. unfold get in Hg'. rewrite E1 in Hg'. destruct U1 as (A1 & _). unfold get in A1. rewrite A1 in Hg'.
          inversion Hg'; subst. exact Hcact. }
      unfold pause_plain. destruct c as [cid f|cid|cid var v]; cbn [c_mode c_frames c_st]; apply V; reflexivity.
  Qed.

  Lemma fl_MContRet spec fr s : FL spec (mkC MContRet fr s) -> FL spec (step P (mkC MContRet fr s)).
  Proof.
    intros (HC & HF & HK). split; [apply c01_MContRet; auto|].
    cbn in HK, HF. destruct HK as (t & old & rest & -> & Hts & Hca). cbn [step c_mode c_frames c_st].
    set (s1 := with_active s old).
    assert (HF1 : flags_ok s1) by (apply (flags_view s); auto).
    unfold get_task. destruct (get t s1) as [[out [tk| | |]]|] eqn:Hg; cbn; try (split; [exact HF1|reflexivity]).
    split; [|reflexivity].
    pose proof (set_task_upd s1 t out tk (tk_set_ds tk false) Hg) as U.
    apply (flags_upd s1 _ t out _ HF1 U); [apply tasks_of_regs; rewrite regs_set_task; reflexivity|].
    intros ->. cbn. split; [intros _; change (tasks s1) with (tasks s); rewrite Hts; left; reflexivity|discriminate].
  Qed.

  Lemma fl_MDeliver spec o fr s : FL spec (mkC (MDeliver o) fr s) -> FL spec (step P (mkC (MDeliver o) fr s)).
  Proof.
    intros (HC & HF & HK). split; [apply c01_MDeliver; auto|].
    destruct HC as (Hr & Hf & _). cbn in Hf. subst fr. cbn. exact I.
  Qed.

  Theorem fl_step spec c : is_unwind (c_mode c) = false -> FL spec c -> exists spec', FL spec' (step P c).
  Proof.
    destruct c as [m fr s]. destruct m; cbn [c_mode is_unwind]; intros Hu HI; try discriminate.
    - exists spec. apply fl_MValue; exact HI.
    - exists spec. apply fl_MWaitHead; exact HI.
    - exists spec. apply fl_MAfterExec; exact HI.
    - exists spec. apply fl_MExecLoop; exact HI.
    - exists spec. apply fl_MResume; exact HI.
    - apply (fl_MRun spec); exact HI.
    - exists spec. apply fl_MContRet; exact HI.
    - exists spec. apply fl_MDeliver; exact HI.
    - exists spec. exact HI.
    - exists spec. exact HI.
  Qed.

  Theorem fl_run n : forall spec c, FL spec c -> no_unwind P n c -> exists spec', FL spec' (run P n c).
  Proof.
    induction n as [|n IH]; intros spec c HI Hn; [exists spec; exact HI|].
    rewrite run_S. destruct (is_final (c_mode c)) eqn:Hf; [exists spec; exact HI|].
    destruct (fl_step spec c) as (spec1 & HI1); [apply (Hn O); lia|exact HI|].
    apply (IH spec1); [exact HI1|].
    intros k Hk. specialize (Hn (S k) ltac:(lia)). rewrite run_S, Hf in Hn. exact Hn.
  Qed.
End Flags.

(* ------------------------------------------------------------------ C06 theorems (tree programs) *)
Section C06.
  Variable P : params.
  Hypothesis HP : pointwise P.
  Variable p : prog.
  Hypothesis Ht : tree p.

  Let h := fst (create [] (FTask p) (st0 P)).
  Let s1 := snd (create [] (FTask p) (st0 P)).

  Lemma fl_reach n : no_unwind P n (start h s1) -> exists spec, FL h (eval p) spec (run P n (start h s1)).
  Proof.
    intros Hn.
    pose proof (SInv_create (fun _ => None) None [] (FTask p) (st0 P) (SInv_empty P) (tf_task p Ht)) as HC.
    cbn zeta in HC. fold h s1 in HC. destruct HC as (_ & HS1 & Hnew & _).
    assert (Hg : is_task h s1) by (unfold h, s1, create, alloc; cbn; eexists _, _; apply get_put_same).
    assert (HI : CInv h (eval p) (spec_add (fun _ => None) h (eval p)) (start h s1)).
    { apply CInv_intro; [unfold spec_add; rewrite fid_eqb_refl; reflexivity|reflexivity|exact HS1|exact Hg|reflexivity]. }
    assert (HFL : FL h (eval p) (spec_add (fun _ => None) h (eval p)) (start h s1)).
    { split; [exact HI|]. cbn. split; [|reflexivity].
      pose proof (flags_create [] (FTask p) (st0 P)) as HF. fold s1 in HF. apply HF.
      intros u tk Hgu. discriminate. }
    exact (fl_run P HP h (eval p) n _ _ HFL Hn).
  Qed.

  (* at the end of every _execute pass - in particular whenever the scheduler is about to flush a
     batch - no uncompleted task has its contexts active (or its dependencies marked scheduled) *)
  Theorem contexts_paused_at_flush_tree n :
    no_unwind P n (start h s1) -> c_mode (run P n (start h s1)) = MAfterExec ->
    forall u tk, get u (c_st (run P n (start h s1))) = Some (mkFut None (KTask tk)) ->
      tk_cact tk = false /\ tk_ds tk = false.
  Proof.
    intros Hn Hm u tk Hg. destruct (fl_reach n Hn) as (spec & (_ & HFL)).
    destruct (run P n (start h s1)) as [m fr s]. cbn [c_mode c_st] in *. subst m.
    destruct HFL as (HF & HK). cbn in HK. destruct (HF u tk Hg) as [H1 H2].
    rewrite HK in H1. destruct (tk_cact tk) eqn:E1; [destruct (H1 (or_intror eq_refl))|].
    destruct (tk_ds tk) eqn:E2; [destruct (H1 (or_introl eq_refl))|]. auto.
  Qed.

  (* while the body of t runs, t's contexts are active, and any other uncompleted task whose contexts are
     active is still on the scheduler's task stack (it has not been left suspended) *)
  Theorem contexts_active_while_running_tree n t q :
    no_unwind P n (start h s1) -> c_mode (run P n (start h s1)) = MRun t q ->
    (exists tk, get t (c_st (run P n (start h s1))) = Some (mkFut None (KTask tk)) /\ tk_cact tk = true) /\
    (forall u tk, get u (c_st (run P n (start h s1))) = Some (mkFut None (KTask tk)) -> tk_cact tk = true ->
       In u (tasks (c_st (run P n (start h s1))))).
  Proof.
    intros Hn Hm. destruct (fl_reach n Hn) as (spec & (HC & HFL)).
    destruct (run P n (start h s1)) as [m fr s]. cbn [c_mode c_st] in *. subst m.
    destruct HFL as (HF & HK). cbn in HK. destruct HK as (_ & _ & Hca).
    destruct HC as (_ & HC). cbn in HC. destruct HC as (_ & _ & _ & (_ & _ & (tk & Hg))).
    split; [exists tk; split; [exact Hg|apply Hca; exact Hg]|].
    intros u tku Hgu Hc. destruct (HF u tku Hgu) as [H1 _]. apply H1. right. exact Hc.
  Qed.
End C06.
