(* Proofs about the Futures model (C10). *)
From Asynq Require Import Base Futures.

Definition is_read (o : op) : bool :=
  match o with OValue | OCall | OError | OIsComputed => true | _ => false end.
Definition is_reset (o : op) : bool := match o with OReset => true | _ => false end.
Definition report (o : op) (oc : outcome) : res :=
  match o with
  | OValue | OCall => report_value oc
  | OError => report_error oc
  | OIsComputed => RBool true
  | _ => RUnit
  end.

Lemma complete_out s o : out (complete s o) = Some o.
Proof. reflexivity. Qed.

(* a setter on a computed future raises FutureIsAlreadyComputed and changes nothing *)
Lemma single_assignment s oc :
  out s = Some oc ->
  (forall v, step s (OSetValue v) = (s, RRaise E_ALREADY)) /\
  (forall e, step s (OSetError e) = (s, RRaise E_ALREADY)).
Proof. intros H; split; intros; cbn; rewrite H; reflexivity. Qed.

(* one step on a computed future (no reset): state unchanged, reads report the outcome *)
Lemma step_computed s oc o :
  out s = Some oc -> is_reset o = false ->
  let '(s', r) := step s o in
  out s' = Some oc /\ log s' = log s /\ runs s' = runs s /\ prov s' = prov s /\
  (is_read o = true -> r = report o oc).
Proof.
  intros H Hr. destruct o; cbn in *; try discriminate; unfold read; rewrite ?H; cbn;
    try (repeat split; auto; intros; discriminate).
  destruct (sinking (fkind s)); cbn; repeat split; auto; intros; discriminate.
Qed.

Fixpoint all_reads_report (ops : list op) (rs : list res) (oc : outcome) : Prop :=
  match ops, rs with
  | [], [] => True
  | o :: ops', r :: rs' => (is_read o = true -> r = report o oc) /\ all_reads_report ops' rs' oc
  | _, _ => False
  end.

(* T2/T3: from the first completion on, without reset_unsafe, every read reports that outcome,
   the computation never runs again and no callback fires again *)
Lemma stable ops : forall s oc,
  out s = Some oc -> forallb (fun o => negb (is_reset o)) ops = true ->
  let '(s', rs) := run s ops in
  out s' = Some oc /\ log s' = log s /\ runs s' = runs s /\ all_reads_report ops rs oc.
Proof.
  induction ops as [|o ops IH]; intros s oc H Hn; cbn in *.
  - repeat split; auto.
  - apply andb_true_iff in Hn as [Ho Hn]. apply negb_true_iff in Ho.
    pose proof (step_computed s oc o H Ho) as Hs.
    destruct (step s o) as [s1 r] eqn:E1.
    destruct Hs as (H1 & H2 & H3 & _ & H5).
    specialize (IH s1 oc H1 Hn). destruct (run s1 ops) as [s2 rs] eqn:E2.
    destruct IH as (I1 & I2 & I3 & I4). cbn.
    repeat split; auto; congruence.
Qed.

(* T2b: a read that leaves the future computed reports exactly the outcome that is now stored -
   in particular the read that triggers the computation (error() on a failing provider included) *)
Lemma read_reports s o s' r oc :
  step s o = (s', r) -> is_read o = true -> out s' = Some oc -> r = report o oc.
Proof.
  intros E Hr Ho.
  destruct (out s) as [oc0|] eqn:Hs.
  - pose proof (step_computed s oc0 o Hs) as H. rewrite E in H.
    destruct o; cbn in Hr; try discriminate; destruct (H eq_refl) as (H1 & _ & _ & _ & H5);
      rewrite H1 in Ho; inversion Ho; subst; auto.
  - destruct o; cbn in Hr; try discriminate; cbn in E; unfold read in E; rewrite Hs in E;
      try (inversion E; subst; congruence);
      unfold compute in E;
      destruct (fkind s) eqn:K; cbn in E;
      try (inversion E; subst; congruence);
      destruct (prov s) as [|[v|e|e] rest]; cbn in E; inversion E; subst; cbn in Ho;
      try congruence; inversion Ho; subst; reflexivity.
Qed.

Ltac cases_step :=
  cbn; unfold read, compute, with_run, complete;
  repeat (match goal with
  | |- context [match out ?s with _ => _ end] => destruct (out s) eqn:?
  | |- context [match fkind ?s with _ => _ end] => destruct (fkind s) eqn:?
  | |- context [match prov ?s with _ => _ end] => destruct (prov s) as [|[?|?|?] ?] eqn:?
  | |- context [if sinking ?k then _ else _] => destruct (sinking k) eqn:?
  end; cbn in *).

(* T3: one step runs the underlying computation at most once, and only on an uncomputed future *)
Lemma compute_once s o : (runs (fst (step s o)) <= S (runs s))%nat /\
  (out s <> None -> runs (fst (step s o)) = runs s).
Proof.
  split.
  - destruct o; cases_step; lia.
  - intros H. destruct o; cases_step; congruence.
Qed.

(* T4: the step that completes a future calls each current subscriber exactly once, with the
   outcome already visible; no other step calls anything *)
Lemma notify_once_after s o :
  let s' := fst (step s o) in
  match out s, out s' with
  | None, Some oc => log s' = log s ++ map (fun sb => (fst sb, oc)) (subs s)
  | _, _ => log s' = log s
  end.
Proof.
  destruct o; cases_step; try reflexivity; try congruence;
    repeat match goal with H : Some _ = Some _ |- _ => inversion H; subst; clear H end;
    try reflexivity; try congruence.
Qed.

(* subscribers are never lost or duplicated by a step (only OSubscribe appends one) *)
Lemma subs_step s o :
  subs (fst (step s o)) = subs s \/ exists id k, o = OSubscribe id k /\ subs (fst (step s o)) = subs s ++ [(id, k)].
Proof.
  destruct o; cases_step; eauto.
Qed.

(* T5: ConstFuture / ErrorFuture are complete from construction *)
Lemma const_error_complete p v e :
  out (init KConst p (Ok v)) = Some (Ok v) /\ out (init KError p (Err e)) = Some (Err e).
Proof. split; reflexivity. Qed.

(* non-vacuity: a concrete failing-provider history meets the hypotheses *)
Example stable_nonvacuous :
  let s := fst (step (init KLazy [PRaise 7] (Ok VNone)) OError) in
  out s = Some (Err 7) /\ snd (run s [OError; OValue; OIsComputed]) = [RErr 7; RRaise 7; RBool true].
Proof. split; reflexivity. Qed.
