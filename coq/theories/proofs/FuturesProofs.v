(* Proofs about the Futures model (C10). *)
From Asynq Require Import Base Futures.

Definition is_read (o : op) : bool :=
  match o with OValue | OCall | OError | OIsComputed => true | _ => false end.
Definition is_reset (o : op) : bool := match o with OReset => true | _ => false end.
Definition report (o : op) (oc : outcome) : res :=
  match o with
  | OValue | OCall => report_value oc
  | OError => report_error oc
  | OIsComputed => RBool true
  | _ => RUnit
  end.

Lemma complete_out s o : out (complete s o) = Some o.
Proof. reflexivity. Qed.

(* ---- the notification loop (EventHook.safe_trigger over a copy of the handler list) ---- *)

(* the callback records produced by notifying [l] with outcome [oc] *)
Definition notes (l : list sub) (oc : outcome) : list (Z * outcome) :=
  map (fun sb => (fst sb, oc)) l.

(* the live subscription list after notifying the subscribers that were registered in [l] *)
Definition after_notify (l : list sub) : list sub := fst (notify l l).

(* T4a: the loop calls exactly the subscribers of the snapshot, each once, in order - WHATEVER the
   subscribers do to the live list meanwhile (unsubscribe themselves, a later or an earlier one,
   subscribe new ones, raise) and whatever the live list is *)
Lemma notify_snapshot snap : forall live, snd (notify snap live) = map fst snap.
Proof.
  induction snap as [|sb snap IH]; intros live; cbn; auto.
  specialize (IH (fst (run_cb (snd sb) live))).
  destruct (notify snap (fst (run_cb (snd sb) live))) as [l2 called]. cbn in *. now rewrite IH.
Qed.

Lemma complete_log s o : log (complete s o) = log s ++ notes (subs s) o.
Proof. cbn. unfold notes. now rewrite notify_snapshot, map_map. Qed.

Lemma complete_subs s o : subs (complete s o) = after_notify (subs s).
Proof. reflexivity. Qed.

Definition plain (k : cbkind) : bool := match k with CbOk | CbRaise _ | CbSet _ _ _ => true | _ => false end.

(* subscribers that only return or raise leave the subscription list as it was *)
Lemma notify_plain snap : forall live,
  forallb (fun sb => plain (snd sb)) snap = true -> fst (notify snap live) = live.
Proof.
  induction snap as [|[id k] snap IH]; intros live H; cbn in *; auto.
  apply andb_true_iff in H as [Hk H].
  assert (E : fst (run_cb k live) = live) by (destruct k; cbn in *; auto; discriminate).
  rewrite E. specialize (IH live H). destruct (notify snap live). cbn in *. exact IH.
Qed.

(* a subscriber's call only acts on the live list: what it subscribes goes to the end, what it
   unsubscribes is one registered entry of that id *)
Lemma remove_first_spec t l l' : remove_first t l = Some l' ->
  exists a k b, l = a ++ (t, k) :: b /\ l' = a ++ b /\ forall x, In x a -> fst x <> t.
Proof.
  revert l'. induction l as [|[i k] r IH]; intros l' H; cbn in *; try discriminate.
  destruct (Z.eqb i t) eqn:E.
  - apply Z.eqb_eq in E. subst. inversion H; subst. exists [], k, l'. repeat split; auto; intros x [].
  - destruct (remove_first t r) as [r'|]; try discriminate. inversion H; subst.
    destruct (IH r' eq_refl) as (a & k' & b & E1 & E2 & E3). subst.
    exists ((i, k) :: a), k', b. repeat split; auto.
    intros x [Hx|Hx]; [subst; cbn; now apply Z.eqb_neq|auto].
Qed.

Lemma remove_first_none t l : remove_first t l = None -> forall x, In x l -> fst x <> t.
Proof.
  induction l as [|[i k] r IH]; intros H x Hx; cbn in *; [contradiction|].
  destruct (Z.eqb i t) eqn:E; try discriminate.
  destruct (remove_first t r); try discriminate.
  destruct Hx as [Hx|Hx]; [subst; cbn; now apply Z.eqb_neq|auto].
Qed.

(* a setter on a computed future raises FutureIsAlreadyComputed and changes nothing *)
Lemma single_assignment s oc :
  out s = Some oc ->
  (forall v, step s (OSetValue v) = (s, RRaise E_ALREADY)) /\
  (forall e, step s (OSetError e) = (s, RRaise E_ALREADY)).
Proof. intros H; split; intros; cbn; rewrite H; reflexivity. Qed.

(* one step on a computed future (no reset): state unchanged, reads report the outcome *)
Lemma step_computed s oc o :
  out s = Some oc -> is_reset o = false ->
  let '(s', r) := step s o in
  out s' = Some oc /\ log s' = log s /\ runs s' = runs s /\ prov s' = prov s /\
  (is_read o = true -> r = report o oc).
Proof.
  intros H Hr. destruct o; cbn in *; try discriminate; unfold read; rewrite ?H; cbn;
    try (repeat split; auto; intros; discriminate).
  destruct (sinking (fkind s)); cbn; repeat split; auto; intros; discriminate.
Qed.

Fixpoint all_reads_report (ops : list op) (rs : list res) (oc : outcome) : Prop :=
  match ops, rs with
  | [], [] => True
  | o :: ops', r :: rs' => (is_read o = true -> r = report o oc) /\ all_reads_report ops' rs' oc
  | _, _ => False
  end.

(* T2/T3: from the first completion on, without reset_unsafe, every read reports that outcome,
   the computation never runs again and no callback fires again *)
Lemma stable ops : forall s oc,
  out s = Some oc -> forallb (fun o => negb (is_reset o)) ops = true ->
  let '(s', rs) := run s ops in
  out s' = Some oc /\ log s' = log s /\ runs s' = runs s /\ all_reads_report ops rs oc.
Proof.
  induction ops as [|o ops IH]; intros s oc H Hn; cbn in *.
  - repeat split; auto.
  - apply andb_true_iff in Hn as [Ho Hn]. apply negb_true_iff in Ho.
    pose proof (step_computed s oc o H Ho) as Hs.
    destruct (step s o) as [s1 r] eqn:E1.
    destruct Hs as (H1 & H2 & H3 & _ & H5).
    specialize (IH s1 oc H1 Hn). destruct (run s1 ops) as [s2 rs] eqn:E2.
    destruct IH as (I1 & I2 & I3 & I4). cbn.
    repeat split; auto; congruence.
Qed.

(* T2b: a read that leaves the future computed reports exactly the outcome that is now stored -
   in particular the read that triggers the computation (error() on a failing provider included) *)
Lemma read_reports s o s' r oc :
  step s o = (s', r) -> is_read o = true -> out s' = Some oc -> r = report o oc.
Proof.
  intros E Hr Ho.
  destruct (out s) as [oc0|] eqn:Hs.
  - pose proof (step_computed s oc0 o Hs) as H. rewrite E in H.
    destruct o; cbn in Hr; try discriminate; destruct (H eq_refl) as (H1 & _ & _ & _ & H5);
      rewrite H1 in Ho; inversion Ho; subst; auto.
  - destruct o; cbn in Hr; try discriminate; cbn in E; unfold read in E; rewrite Hs in E;
      try (inversion E; subst; congruence);
      unfold compute in E;
      destruct (fkind s) eqn:K; cbn in E;
      try (inversion E; subst; congruence);
      destruct (prov s) as [|[v|c e|e|] rest]; cbn in E; inversion E; subst; cbn in Ho;
      try congruence; inversion Ho; subst; reflexivity.
Qed.

Ltac cases_step :=
  cbn; unfold read, compute, with_run;
  repeat (match goal with
  | |- context [match out ?s with _ => _ end] => destruct (out s) eqn:?
  | |- context [match fkind ?s with _ => _ end] => destruct (fkind s) eqn:?
  | |- context [match prov ?s with _ => _ end] => destruct (prov s) as [|[?|? ?|?|] ?] eqn:?
  | |- context [if sinking ?k then _ else _] => destruct (sinking k) eqn:?
  end; cbn in *).

(* T3: one step runs the underlying computation at most once, and only on an uncomputed future *)
Lemma compute_once s o : (runs (fst (step s o)) <= S (runs s))%nat /\
  (out s <> None -> runs (fst (step s o)) = runs s).
Proof.
  split.
  - destruct o; cases_step; lia.
  - intros H. destruct o; cases_step; congruence.
Qed.

(* T4: the step that completes a future calls each current subscriber exactly once, with the
   outcome already visible; no other step calls anything *)
Lemma notify_once_after s o :
  let s' := fst (step s o) in
  match out s, out s' with
  | None, Some oc => log s' = log s ++ notes (subs s) oc /\ subs s' = after_notify (subs s)
  | _, _ => log s' = log s
  end.
Proof.
  destruct o; cases_step; try reflexivity; try congruence;
    repeat match goal with H : Some _ = Some _ |- _ => inversion H; subst; clear H end;
    try reflexivity; try congruence;
    unfold notes, after_notify; rewrite notify_snapshot, map_map; auto.
Qed.

(* the subscription list changes only by OSubscribe (appends one) and by the subscribers' own
   actions during the notification of a completion *)
Lemma subs_step s o :
  subs (fst (step s o)) = subs s \/
  (exists id k, o = OSubscribe id k /\ subs (fst (step s o)) = subs s ++ [(id, k)]) \/
  (out s = None /\ out (fst (step s o)) <> None /\ subs (fst (step s o)) = after_notify (subs s)).
Proof.
  destruct o; cases_step; auto;
    try (right; left; do 2 eexists; split; reflexivity);
    right; right; repeat split; auto; discriminate.
Qed.

(* two completions separated by reset_unsafe: the first notifies the subscribers registered then,
   the second exactly those the first notification left registered *)
Lemma renotify_after_reset s v e :
  out s = None ->
  let s1 := fst (step s (OSetValue v)) in
  let s3 := fst (step (fst (step s1 OReset)) (OSetError e)) in
  log s3 = log s ++ notes (subs s) (Ok v) ++ notes (after_notify (subs s)) (Err e) /\
  subs s3 = after_notify (after_notify (subs s)).
Proof.
  intros H. cbn. rewrite H. cbn. unfold notes, after_notify.
  rewrite !notify_snapshot, !map_map, <- app_assoc. auto.
Qed.

(* T5: ConstFuture / ErrorFuture are complete from construction *)
Lemma const_error_complete p v e :
  out (init KConst p (Ok v)) = Some (Ok v) /\ out (init KError p (Err e)) = Some (Err e).
Proof. split; reflexivity. Qed.

(* non-vacuity: a concrete failing-provider history meets the hypotheses *)
Example stable_nonvacuous :
  let s := fst (step (init KLazy [PRaise XAlreadyComputed 7] (Ok VNone)) OError) in
  out s = Some (Err 7) /\ snd (run s [OError; OValue; OIsComputed]) = [RErr 7; RRaise 7; RBool true].
Proof. split; reflexivity. Qed.

(* non-vacuity of the re-entrant part: a one-shot subscriber in first position, a plain one, one
   that subscribes 4 and then drops the already notified 2; everybody registered at the completion
   is called once, 4 is not; the next completion (after reset_unsafe) goes over what they left *)
Example reentrant_nonvacuous :
  run_case KLazy [PRet (VInt 42); PRaise XAssertion 9] (Ok VNone)
    [OSubscribe 1 (CbUnsub 1); OSubscribe 2 CbOk; OSubscribe 3 (CbSeq (CbSub 4 (CbRaise XKey)) (CbUnsub 2));
     OValue; OReset; OError]
  = ([RUnit; RUnit; RUnit; RVal (VInt 42); RUnit; RErr 9],
     [(1, Ok (VInt 42)); (2, Ok (VInt 42)); (3, Ok (VInt 42)); (3, Err 9); (4, Err 9)], 2, [3; 4; 4]).
Proof. reflexivity. Qed.

(* ---- the CLASS of the Exception a subscriber raises does not matter ----
   [recls f] relabels the class of every raise in a behaviour script (also in the scripts of the
   subscribers it subscribes); [f] is arbitrary, e.g. "everything becomes AssertionError" or
   "everything becomes the harness's own exception class".                                       *)
Fixpoint recls (f : xcls -> xcls) (k : cbkind) : cbkind :=
  match k with
  | CbOk => CbOk
  | CbRaise c => CbRaise (f c)
  | CbUnsub t => CbUnsub t
  | CbSub id k' => CbSub id (recls f k')
  | CbSeq a b => CbSeq (recls f a) (recls f b)
  | CbSet t o g => CbSet t o g
  end.
Definition recls_sub (f : xcls -> xcls) (sb : sub) : sub := (fst sb, recls f (snd sb)).
Definition recls_op (f : xcls -> xcls) (o : op) : op :=
  match o with OSubscribe id k => OSubscribe id (recls f k) | _ => o end.
Definition recls_state (f : xcls -> xcls) (s : fstate) : fstate :=
  mk (fkind s) (prov s) (out s) (runs s) (map (recls_sub f) (subs s)) (log s).

(* a raising subscriber does to the subscription list what a returning one does: nothing *)
Lemma run_cb_raise c live : run_cb (CbRaise c) live = (live, true).
Proof. reflexivity. Qed.

(* unsubscribing somebody who is not registered is a raising subscriber of class ValueError *)
Lemma run_cb_unsub_absent t live :
  remove_first t live = None -> run_cb (CbUnsub t) live = run_cb (CbRaise XValue) live.
Proof. intros H. cbn. now rewrite H. Qed.

Lemma remove_first_recls f t l :
  remove_first t (map (recls_sub f) l) = option_map (map (recls_sub f)) (remove_first t l).
Proof.
  induction l as [|[i k] r IH]; cbn; auto.
  destruct (Z.eqb i t); auto. rewrite IH. destruct (remove_first t r); auto.
Qed.

Lemma run_cb_recls f k : forall live,
  run_cb (recls f k) (map (recls_sub f) live) = (map (recls_sub f) (fst (run_cb k live)), snd (run_cb k live)).
Proof.
  induction k as [|c|t|id k IH|a IHa b IHb|t o g]; intros live; cbn; auto.
  - rewrite remove_first_recls. destruct (remove_first t live); auto.
  - rewrite map_app. reflexivity.
  - rewrite IHa. destruct (run_cb a live) as [l1 r]. cbn. destruct r; auto.
Qed.

Lemma notify_recls f snap : forall live,
  notify (map (recls_sub f) snap) (map (recls_sub f) live) =
  (map (recls_sub f) (fst (notify snap live)), snd (notify snap live)).
Proof.
  induction snap as [|sb snap IH]; intros live; cbn; auto.
  rewrite run_cb_recls. cbn. rewrite IH.
  destruct (notify snap (fst (run_cb (snd sb) live))). reflexivity.
Qed.

Lemma complete_recls f s o : complete (recls_state f s) o = recls_state f (complete s o).
Proof. unfold complete, recls_state. cbn. rewrite notify_recls. reflexivity. Qed.

Lemma with_run_recls f s rest : with_run (recls_state f s) rest = recls_state f (with_run s rest).
Proof. reflexivity. Qed.

Lemma compute_recls f s :
  compute (recls_state f s) = (recls_state f (fst (compute s)), snd (compute s)).
Proof.
  unfold compute. change (fkind (recls_state f s)) with (fkind s).
  change (prov (recls_state f s)) with (prov s).
  destruct (fkind s); auto; destruct (prov s) as [|[v|c e|e|] rest];
    rewrite ?with_run_recls, ?complete_recls; reflexivity.
Qed.

Lemma read_recls f s rep :
  read (recls_state f s) rep = (recls_state f (fst (read s rep)), snd (read s rep)).
Proof.
  unfold read. change (out (recls_state f s)) with (out s).
  destruct (out s); auto. rewrite compute_recls. destruct (compute s) as [s' [e|]]; cbn; auto.
  destruct (out s'); auto.
Qed.

(* one operation: the relabelled history is in the relabelled state and returned the same result *)
Lemma step_recls f s o :
  step (recls_state f s) (recls_op f o) = (recls_state f (fst (step s o)), snd (step s o)).
Proof.
  destruct o; cbn [step recls_op]; rewrite ?read_recls; auto;
    change (out (recls_state f s)) with (out s); change (fkind (recls_state f s)) with (fkind s).
  - destruct (out s); auto. now rewrite complete_recls.
  - destruct (out s); auto. now rewrite complete_recls.
  - destruct (sinking (fkind s)); auto. unfold recls_state. cbn. rewrite map_app. reflexivity.
Qed.

Lemma run_recls f ops : forall s,
  run (recls_state f s) (map (recls_op f) ops) = (recls_state f (fst (run s ops)), snd (run s ops)).
Proof.
  induction ops as [|o ops IH]; intros s; cbn [run map]; auto.
  rewrite step_recls. destruct (step s o) as [s1 r]. cbn [fst snd]. rewrite IH.
  destruct (run s1 ops) as [s2 rs]. reflexivity.
Qed.

(* everything the correspondence compares - every op result, the callback log (who was called and
   what outcome they saw), the run count, the ids registered at the end - is the same whatever
   Exception classes the raising subscribers raise *)
Lemma raise_class_irrelevant f k p o ops :
  run_case k p o (map (recls_op f) ops) = run_case k p o ops.
Proof.
  unfold run_case.
  assert (E : init k p o = recls_state f (init k p o)) by (destruct k; reflexivity).
  rewrite E at 1. rewrite run_recls. destruct (run (init k p o) ops) as [s rs]. cbn.
  rewrite map_map. reflexivity.
Qed.

(* two histories that differ only in the classes raised by their subscribers are indistinguishable *)
Lemma same_shape_same_result k p o ops ops' :
  map (recls_op (fun _ => XUser)) ops = map (recls_op (fun _ => XUser)) ops' ->
  run_case k p o ops = run_case k p o ops'.
Proof.
  intros H. rewrite <- (raise_class_irrelevant (fun _ => XUser) k p o ops), H.
  apply raise_class_irrelevant.
Qed.

(* non-vacuity: the asserting subscriber of the seeded scenario - first accessor on a lazy future *)
Example raise_class_nonvacuous :
  run_case KLazy [PRet (VInt 3)] (Ok VNone)
    [OSubscribe 1 (CbRaise XAssertion); OSubscribe 2 CbOk; OValue; OError; OCall]
  = ([RUnit; RUnit; RVal (VInt 3); RNoError; RVal (VInt 3)], [(1, Ok (VInt 3)); (2, Ok (VInt 3))], 1, [1; 2]).
Proof. reflexivity. Qed.

(* ---- the CLASS of the Exception a PROVIDER raises does not matter ----
   [recls_pout f] relabels the class of every raise of a provider script.  Future(provider): any [f].
   A generator body (AsyncTask): any [f] that respects PEP 479 (StopIteration stays StopIteration,
   nothing else becomes it) - [gen_cls_ok].                                                       *)
Definition recls_pout (f : xcls -> xcls) (p : pout) : pout :=
  match p with PRaise c e => PRaise (f c) e | _ => p end.
Definition gen_cls_ok (f : xcls -> xcls) : Prop := forall c e, gen_exn (f c) e = gen_exn c e.
Definition pstate (f : xcls -> xcls) (s : fstate) : fstate :=
  mk (fkind s) (map (recls_pout f) (prov s)) (out s) (runs s) (subs s) (log s).

Lemma gen_cls_ok_id : gen_cls_ok (fun c => c).
Proof. intros c e. reflexivity. Qed.

(* e.g. every class except StopIteration becomes FutureIsAlreadyComputed *)
Lemma gen_cls_ok_example :
  gen_cls_ok (fun c => match c with XStopIteration => XStopIteration | _ => XAlreadyComputed end).
Proof. intros c e. destruct c; reflexivity. Qed.

Lemma complete_pstate f s o : complete (pstate f s) o = pstate f (complete s o).
Proof. unfold complete, pstate. cbn. destruct (fkind s); reflexivity. Qed.

Lemma with_run_pstate f s rest :
  with_run (pstate f s) (map (recls_pout f) rest) = pstate f (with_run s rest).
Proof. reflexivity. Qed.

Lemma compute_pstate f s : (fkind s = KTask -> gen_cls_ok f) ->
  compute (pstate f s) = (pstate f (fst (compute s)), snd (compute s)).
Proof.
  intros G. destruct s as [k p o r sb lg]. unfold compute, pstate, complete, with_run. cbn in *.
  destruct k; auto; destruct p as [|[v|c e|e|] rest]; cbn; auto.
  rewrite (G eq_refl c e). reflexivity.
Qed.

Lemma read_pstate f s rep : (fkind s = KTask -> gen_cls_ok f) ->
  read (pstate f s) rep = (pstate f (fst (read s rep)), snd (read s rep)).
Proof.
  intros G. unfold read. change (out (pstate f s)) with (out s).
  destruct (out s); auto. rewrite (compute_pstate f s G). destruct (compute s) as [s' [e|]]; cbn; auto.
  destruct (out s'); auto.
Qed.

Lemma step_pstate f s o : (fkind s = KTask -> gen_cls_ok f) ->
  step (pstate f s) o = (pstate f (fst (step s o)), snd (step s o)).
Proof.
  intros G. destruct o; cbn [step]; rewrite ?(read_pstate f s _ G); auto;
    change (out (pstate f s)) with (out s); change (fkind (pstate f s)) with (fkind s).
  - destruct (out s); auto. now rewrite complete_pstate.
  - destruct (out s); auto. now rewrite complete_pstate.
  - destruct (sinking (fkind s)); reflexivity.
Qed.

Lemma step_fkind s o : fkind (fst (step s o)) = fkind s.
Proof. destruct o; cases_step; congruence. Qed.

Lemma run_pstate f ops : forall s, (fkind s = KTask -> gen_cls_ok f) ->
  run (pstate f s) ops = (pstate f (fst (run s ops)), snd (run s ops)).
Proof.
  induction ops as [|o ops IH]; intros s G; cbn [run]; auto.
  rewrite (step_pstate f s o G). pose proof (step_fkind s o) as K.
  destruct (step s o) as [s1 r]. cbn [fst snd] in *. rewrite IH by (now rewrite K).
  destruct (run s1 ops) as [s2 rs]. reflexivity.
Qed.

(* every compared observable - op results (what value()/error()/call report or raise), the callback
   log, the run count, the registrations - is the same whatever Exception classes the provider raises *)
Lemma provider_class_irrelevant f k p o ops : (k = KTask -> gen_cls_ok f) ->
  run_case k (map (recls_pout f) p) o ops = run_case k p o ops.
Proof.
  intros G. unfold run_case.
  assert (E : init k (map (recls_pout f) p) o = pstate f (init k p o)).
  { destruct k; try reflexivity. destruct p; reflexivity. }
  rewrite E, run_pstate. 2: { destruct k; cbn; auto; discriminate. }
  destruct (run (init k p o) ops) as [s rs]. reflexivity.
Qed.

Lemma lazy_provider_class_irrelevant f p o ops :
  run_case KLazy (map (recls_pout f) p) o ops = run_case KLazy p o ops.
Proof. apply provider_class_irrelevant. discriminate. Qed.

Definition is_computing_read (o : op) : bool :=
  match o with OValue | OCall | OError => true | _ => false end.

(* "after value()/error()/__call__ returned or raised the future is computed": a computing read of an
   uncomputed Future(provider) whose provider does not raise a BaseException completes it - with the
   error the provider raised, whatever its class, also a FutureIsAlreadyComputed about another future -
   having run the provider exactly once and notified exactly the registered subscribers once *)
Lemma lazy_read_completes s o :
  fkind s = KLazy -> out s = None -> is_computing_read o = true ->
  (forall e rest, prov s <> PBase e :: rest) ->
  let s' := fst (step s o) in
  exists oc, out s' = Some oc /\ runs s' = S (runs s) /\ log s' = log s ++ notes (subs s) oc /\
    snd (step s o) = report o oc /\
    match prov s with
    | PRaise _ e :: _ => oc = Err e
    | PDouble :: _ => oc = Err E_ALREADY
    | PRet v :: _ => oc = Ok v
    | _ => oc = Ok VNone
    end.
Proof.
  intros K H R NB.
  destruct o; cbn in R; try discriminate; cbn; unfold read, compute; rewrite H, K;
    destruct (prov s) as [|[v|c e|e|] rest] eqn:P; try (exfalso; eapply NB; reflexivity);
    cbn; eexists; (split; [reflexivity|]); unfold notes; rewrite notify_snapshot, map_map; auto.
Qed.

Example provider_class_nonvacuous :
  run_case KLazy [PRaise XAlreadyComputed 7; PDouble] (Ok VNone)
    [OSubscribe 1 CbOk; OError; OValue; OIsComputed; OReset; OCall; OError]
  = ([RUnit; RErr 7; RRaise 7; RBool true; RUnit; RRaise E_ALREADY; RErr E_ALREADY],
     [(1, Err 7); (1, Err E_ALREADY)], 2, [1]).
Proof. reflexivity. Qed.
