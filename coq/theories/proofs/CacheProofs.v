(* Proofs about the Cache model (C13). *)
From Asynq Require Import Base Cache.

(* ================================================================== decidable equalities *)
Lemma kelem_eqb_spec a b : kelem_eqb a b = true <-> a = b.
Proof.
  destruct a as [x|n x], b as [y|m y]; cbn; split; intros H; try discriminate.
  - apply Z.eqb_eq in H. now subst.
  - inversion H. apply Z.eqb_refl.
  - apply andb_true_iff in H as [Ha Hb]. apply Z.eqb_eq in Ha, Hb. now subst.
  - inversion H. now rewrite !Z.eqb_refl.
Qed.

Lemma key_eqb_spec a : forall b, key_eqb a b = true <-> a = b.
Proof.
  induction a as [|x a IH]; intros [|y b]; cbn; split; intros H; try discriminate; auto.
  - apply andb_true_iff in H as [H1 H2]. apply kelem_eqb_spec in H1. apply IH in H2. now subst.
  - inversion H; subst. apply andb_true_iff. split; [now apply kelem_eqb_spec | now apply IH].
Qed.

Lemma listz_eqb_spec a : forall b, listz_eqb a b = true <-> a = b.
Proof.
  induction a as [|x a IH]; intros [|y b]; cbn; split; intros H; try discriminate; auto.
  - apply andb_true_iff in H as [H1 H2]. apply Z.eqb_eq in H1. apply IH in H2. now subst.
  - inversion H; subst. rewrite Z.eqb_refl. now apply IH.
Qed.

Lemma kwl_eqb_spec a : forall b, kwl_eqb a b = true <-> a = b.
Proof.
  induction a as [|[n x] a IH]; intros [|[m y] b]; cbn; split; intros H; try discriminate; auto.
  - apply andb_true_iff in H as [H1 H2]. apply andb_true_iff in H1 as [H0 H1].
    apply Z.eqb_eq in H0, H1. apply IH in H2. now subst.
  - inversion H; subst. rewrite !Z.eqb_refl. now apply IH.
Qed.

Lemma bound_eqb_spec a b : bound_eqb a b = true <-> a = b.
Proof.
  destruct a as [a1 a2], b as [b1 b2]; unfold bound_eqb; cbn. split; intros H.
  - apply andb_true_iff in H as [H1 H2]. apply listz_eqb_spec in H1. apply kwl_eqb_spec in H2. now subst.
  - inversion H; subst. apply andb_true_iff. split; [now apply listz_eqb_spec | now apply kwl_eqb_spec].
Qed.

(* ================================================================== keys: the default key is the bound arguments *)
Lemma fill_all_app kw a b :
  fill_all kw (a ++ b) =
  match fill_all kw a, fill_all kw b with Some x, Some y => Some (x ++ y) | _, _ => None end.
Proof.
  induction a as [|p a IH]; cbn.
  - destruct (fill_all kw b); reflexivity.
  - destruct (fill kw p); [|reflexivity]. rewrite IH.
    destruct (fill_all kw a); [|reflexivity]. destruct (fill_all kw b); reflexivity.
Qed.

Lemma bind_params_fill ps : forall args kw vs,
  bind_params ps args kw = Some vs ->
  (length args <= length ps)%nat /\
  exists ws, fill_all kw (skipn (length args) ps) = Some ws /\ vs = args ++ ws.
Proof.
  induction ps as [|p ps IH]; intros args kw vs H; cbn in H.
  - destruct args; [|discriminate]. inversion H; subst. split; [cbn; lia|]. exists []. auto.
  - destruct args as [|a args].
    + destruct (fill kw p) as [v|] eqn:Ef; [|discriminate].
      destruct (bind_params ps [] kw) as [vs'|] eqn:Eb; [|discriminate]. inversion H; subst.
      destruct (IH _ _ _ Eb) as (_ & ws & Hw & Hv). cbn in *. split; [lia|].
      exists (v :: ws). rewrite Ef, Hw. subst. auto.
    + destruct (memz (fst p) (map fst kw)); [discriminate|].
      destruct (bind_params ps args kw) as [vs'|] eqn:Eb; [|discriminate]. inversion H; subst.
      destruct (IH _ _ _ Eb) as (Hl & ws & Hw & Hv). cbn. split; [lia|].
      exists ws. subst. auto.
Qed.

Lemma skipn_app_le {A} n (a b : list A) : (n <= length a)%nat -> skipn n (a ++ b) = skipn n a ++ b.
Proof.
  intros H. rewrite skipn_app. replace (n - length a)%nat with 0%nat by lia. reflexivity.
Qed.

(* K1: for every call that binds, the repaired default key is the encoding of the bound arguments *)
Lemma default_key_normalises s c b :
  bind s c = Some b -> alru_key false KmDefault s c = Some (enc b).
Proof.
  unfold bind, alru_key, args_tuple, names_fixed, enc. intros H.
  destruct (bind_params (spos s) (cargs c) (ckw c)) as [vs|] eqn:E1; [|discriminate].
  destruct (bind_params (skw s) [] (ckw c)) as [ws|] eqn:E2; [|discriminate].
  destruct (bind_params_fill _ _ _ _ E1) as (Hl & w1 & Hw1 & Hv1).
  destruct (bind_params_fill _ _ _ _ E2) as (_ & w2 & Hw2 & Hv2). cbn in Hw2, Hv2. subst.
  rewrite skipn_app_le by exact Hl. rewrite fill_all_app, Hw1, Hw2.
  remember (extras (map fst (spos s ++ skw s)) (ckw c)) as exs eqn:Ex.
  destruct exs as [|e ex].
  - inversion H; subst. cbn. rewrite !app_nil_r. now rewrite <- app_assoc.
  - destruct (svarkw s); [|discriminate]. inversion H; subst. cbn [fst snd].
    now rewrite <- app_assoc.
Qed.

Lemma enc_injective b1 b2 : enc b1 = enc b2 -> b1 = b2.
Proof.
  destruct b1 as [l1 m1], b2 as [l2 m2]. unfold enc; cbn [fst snd].
  revert l2. induction l1 as [|x l1 IH]; intros [|y l2] H; cbn in H.
  - f_equal. revert m2 H. induction m1 as [|[n v] m1 IHm]; intros [|[n' v'] m2] H; cbn in H; try discriminate; auto.
    inversion H; subst. f_equal. now apply IHm.
  - destruct m1 as [|[n v] m1]; cbn in H; discriminate.
  - destruct m2 as [|[n v] m2]; cbn in H; discriminate.
  - inversion H; subst. apply IH in H2. inversion H2; subst. reflexivity.
Qed.

(* two calls that bind have the same default key iff they have the same bound arguments *)
Lemma default_key_iff s c1 c2 b1 b2 :
  bind s c1 = Some b1 -> bind s c2 = Some b2 ->
  (alru_key false KmDefault s c1 = alru_key false KmDefault s c2 <-> b1 = b2).
Proof.
  intros H1 H2. rewrite (default_key_normalises _ _ _ H1), (default_key_normalises _ _ _ H2).
  split; intros H; [|now subst]. inversion H. now apply enc_injective.
Qed.

Lemma inst_key_is_default s c : inst_key s c = alru_key false KmDefault s c.
Proof. reflexivity. Qed.

(* the key construction of the tree (tools.py:229) is refuted: one signature, def f(a, b=2) *)
Definition sig_ab2 : sig := mkSig [(0, None); (1, Some 2)] [] false.

Lemma source_key_refuted :
  (exists c1 c2 b1 b2, bind sig_ab2 c1 = Some b1 /\ bind sig_ab2 c2 = Some b2 /\ b1 <> b2 /\
                       alru_key true KmDefault sig_ab2 c1 = alru_key true KmDefault sig_ab2 c2) /\
  (exists c1 c2 b, bind sig_ab2 c1 = Some b /\ bind sig_ab2 c2 = Some b /\
                   alru_key true KmDefault sig_ab2 c1 <> alru_key true KmDefault sig_ab2 c2).
Proof.
  split.
  - exists (mkCall [1] []), (mkCall [1] [(1, 3)]), ([1; 2], []), ([1; 3], []).
    repeat split; try reflexivity. discriminate.
  - exists (mkCall [1] []), (mkCall [1; 2] []), ([1; 2], []).
    repeat split; try reflexivity. discriminate.
Qed.

Lemma NoDup_app_snoc {A} (l : list A) x : NoDup l -> ~ In x l -> NoDup (l ++ [x]).
Proof.
  induction l as [|y l IH]; cbn; intros Hn Hi.
  - constructor; [tauto|constructor].
  - inversion Hn; subst. constructor.
    + intros H. apply in_app_iff in H as [H|[H|[]]]; [tauto|subst; tauto].
    + apply IH; tauto.
Qed.

(* ================================================================== LRU list: size, uniqueness, recency order *)
Section Generic.
  Variable K : Type.
  Variable keqb : K -> K -> bool.
  Hypothesis keqb_spec : forall a b, keqb a b = true <-> a = b.

  Notation entry := (entry K).
  Notation ekey := (ekey K).
  Notation eval := (eval K).
  Notation estamp := (estamp K).
  Notation lru_find := (lru_find K keqb).
  Notation lru_remove := (lru_remove K keqb).
  Notation lru_touch := (lru_touch K keqb).
  Notation lru_getitem := (lru_getitem K keqb).
  Notation lru_setitem := (lru_setitem K keqb).

  Lemma keqb_refl k : keqb k k = true.
  Proof. now apply keqb_spec. Qed.
  Lemma keqb_neq a b : a <> b -> keqb a b = false.
  Proof. intros H. destruct (keqb a b) eqn:E; auto. apply keqb_spec in E. contradiction. Qed.

  (* stamps strictly increase along the list: the list is in recency order *)
  Fixpoint stamps_sorted (l : list entry) : Prop :=
    match l with
    | [] => True
    | e :: l' => (forall e', In e' l' -> (estamp e < estamp e')%nat) /\ stamps_sorted l'
    end.

  Definition lru_ok (cap t : nat) (l : list entry) : Prop :=
    (length l <= cap)%nat /\ NoDup (map ekey l) /\ stamps_sorted l /\
    (forall e, In e l -> (estamp e < t)%nat).

  Lemma find_none_notin l k : lru_find l k = None <-> ~ In k (map ekey l).
  Proof.
    induction l as [|e l IH]; cbn; [tauto|].
    destruct (keqb (ekey e) k) eqn:E.
    - apply keqb_spec in E. split; [discriminate|]. intros H. exfalso. apply H. now left.
    - rewrite IH. split; intros H; [intros [H1|H1]; [subst; rewrite keqb_refl in E; discriminate|tauto]|tauto].
  Qed.

  Lemma find_some_in l k v : lru_find l k = Some v -> In k (map ekey l).
  Proof.
    induction l as [|e l IH]; cbn; [discriminate|].
    destruct (keqb (ekey e) k) eqn:E; [apply keqb_spec in E; auto|auto].
  Qed.

  Lemma remove_in l k e : In e (lru_remove l k) -> In e l.
  Proof.
    induction l as [|x l IH]; cbn; auto. destruct (keqb (ekey x) k); cbn; [auto|]. intros [H|H]; auto.
  Qed.

  Lemma remove_length_found l k v :
    lru_find l k = Some v -> S (length (lru_remove l k)) = length l.
  Proof.
    induction l as [|x l IH]; cbn; [discriminate|]. destruct (keqb (ekey x) k); cbn; auto.
  Qed.

  Lemma remove_nodup l k : NoDup (map ekey l) -> NoDup (map ekey (lru_remove l k)) /\ ~ In k (map ekey (lru_remove l k)).
  Proof.
    induction l as [|x l IH]; cbn; intros H.
    - split; [constructor|tauto].
    - inversion H as [|? ? Hn Hd]; subst. destruct (keqb (ekey x) k) eqn:E.
      + apply keqb_spec in E. subst. auto.
      + destruct (IH Hd) as [I1 I2]. cbn. split.
        * constructor; auto. intros Hin. apply Hn. apply in_map_iff in Hin as (e & He & Hin).
          apply in_map_iff. exists e. split; auto. eapply remove_in; eauto.
        * intros [H1|H1]; [subst; rewrite keqb_refl in E; discriminate|tauto].
  Qed.

  Lemma remove_sorted l k : stamps_sorted l -> stamps_sorted (lru_remove l k).
  Proof.
    induction l as [|x l IH]; cbn; auto. intros [H1 H2]. destruct (keqb (ekey x) k); cbn; auto.
    split; auto. intros e' He. apply H1. eapply remove_in; eauto.
  Qed.

  Lemma sorted_snoc l e :
    stamps_sorted l -> (forall e', In e' l -> (estamp e' < estamp e)%nat) -> stamps_sorted (l ++ [e]).
  Proof.
    induction l as [|x l IH]; cbn; intros Hs Hlt.
    - split; auto. intros e' [].
    - destruct Hs as [H1 H2]. split.
      + intros e' He. apply in_app_iff in He as [He|[He|[]]]; [auto|subst; auto].
      + apply IH; auto.
  Qed.

  Lemma touch_ok cap t l k v v0 :
    lru_ok cap t l -> lru_find l k = Some v0 -> lru_ok cap (S t) (lru_touch l k v t).
  Proof.
    intros (Hlen & Hnd & Hs & Hlt) Hf. unfold lru_touch.
    pose proof (remove_length_found _ _ _ Hf) as Hl.
    destruct (remove_nodup l k Hnd) as [N1 N2].
    repeat split.
    - rewrite app_length. cbn. lia.
    - rewrite map_app. cbn. apply NoDup_app_snoc; auto.
    - apply sorted_snoc; [now apply remove_sorted|]. intros e' He. cbn. apply Hlt. eapply remove_in; eauto.
    - intros e He. apply in_app_iff in He as [He|[He|[]]].
      + apply remove_in in He. apply Hlt in He. lia.
      + subst. cbn. lia.
  Qed.

  Lemma sorted_tl l : stamps_sorted l -> stamps_sorted (tl l).
  Proof. destruct l; cbn; tauto. Qed.

  Lemma setitem_ok cap t l k v :
    (1 <= cap)%nat -> lru_ok cap t l -> lru_ok cap (S t) (lru_setitem cap l k v t).
  Proof.
    intros Hc Hok. unfold lru_setitem. destruct (lru_find l k) as [v0|] eqn:Hf.
    - eapply touch_ok; eauto.
    - destruct Hok as (Hlen & Hnd & Hs & Hlt). apply find_none_notin in Hf.
      assert (Hsub : forall e, In e (if (length l =? cap)%nat then tl l else l) -> In e l).
      { destruct (length l =? cap)%nat; auto. destruct l; cbn; auto. }
      repeat split.
      + rewrite app_length. cbn. destruct (length l =? cap)%nat eqn:E.
        * apply Nat.eqb_eq in E. destruct l; cbn in *; lia.
        * apply Nat.eqb_neq in E. lia.
      + rewrite map_app. cbn. apply NoDup_app_snoc.
        * destruct (length l =? cap)%nat; auto. destruct l; cbn in *; auto. now inversion Hnd.
        * intros Hin. apply Hf. apply in_map_iff in Hin as (e & He & Hin). apply in_map_iff. eauto.
      + apply sorted_snoc.
        * destruct (length l =? cap)%nat; auto. now apply sorted_tl.
        * intros e' He. cbn. auto.
      + intros e He. apply in_app_iff in He as [He|[He|[]]].
        * apply Hsub, Hlt in He. lia.
        * subst. cbn. lia.
  Qed.

  (* the entry a full cache drops is the head of the list, and it is the least recently used one *)
  Lemma setitem_evicts_lru cap t l k v :
    lru_ok cap t l -> lru_find l k = None ->
    (length l = cap -> (1 <= cap)%nat ->
       exists e0 rest, l = e0 :: rest /\ lru_setitem cap l k v t = rest ++ [(k, v, t)] /\
                       forall e, In e rest -> (estamp e0 < estamp e)%nat) /\
    (length l <> cap -> lru_setitem cap l k v t = l ++ [(k, v, t)]).
  Proof.
    intros (Hlen & Hnd & Hs & Hlt) Hf. unfold lru_setitem. rewrite Hf. split; intros H.
    - intros Hc. destruct l as [|e0 rest]; [cbn in H; lia|]. exists e0, rest.
      apply Nat.eqb_eq in H. rewrite H. cbn. repeat split; auto. now destruct Hs.
    - apply Nat.eqb_neq in H. now rewrite H.
  Qed.

  (* a hit moves the entry to the most-recent end with the current stamp; other entries keep theirs *)
  Lemma getitem_hit l k t v l' :
    lru_getitem l k t = Some (v, l') ->
    lru_find l k = Some v /\ l' = lru_remove l k ++ [(k, v, t)].
  Proof.
    unfold lru_getitem, lru_touch. destruct (lru_find l k); [|discriminate]. intros H. inversion H; subst. auto.
  Qed.

  (* ---------------------------------------------------------------- the alru machine *)
  Variable kf : call -> option K.
  Variable valid : call -> bool.
  Variable cap : nat.
  Hypothesis cap_pos : (1 <= cap)%nat.

  Notation astep := (astep K keqb kf valid cap).
  Notation arun := (arun K keqb kf valid cap).

  Lemma astep_tick st o : tick (fst (astep st o)) = S (tick st).
  Proof.
    destruct o as [id c bl b|id]; cbn.
    - destruct (kf c); [|reflexivity]. destruct (lru_getitem _ _ _) as [[v l']|]; [reflexivity|].
      destruct (negb (valid c)); [reflexivity|]. destruct bl; [reflexivity|]. destruct b; reflexivity.
    - destruct (infl_find K (infl st) id) as [[k [v|e]]|]; reflexivity.
  Qed.

  Lemma ok_weaken c t l : lru_ok c t l -> lru_ok c (S t) l.
  Proof. intros (A & B & C & D). repeat split; auto. intros e He. apply D in He. lia. Qed.

  Lemma astep_ok st o : lru_ok cap (tick st) (store st) -> lru_ok cap (tick (fst (astep st o))) (store (fst (astep st o))).
  Proof.
    intros Hok. rewrite astep_tick. destruct o as [id c bl b|id]; cbn.
    - destruct (kf c) as [k|]; [|now apply ok_weaken].
      destruct (lru_getitem (store st) k (tick st)) as [[v l']|] eqn:Eg.
      + apply getitem_hit in Eg as [Hf ->]. cbn. eapply touch_ok; eauto.
      + destruct (negb (valid c)); [now apply ok_weaken|]. destruct bl; [now apply ok_weaken|].
        destruct b; cbn; [now apply setitem_ok | now apply ok_weaken].
    - destruct (infl_find K (infl st) id) as [[k [v|e]]|]; cbn; [now apply setitem_ok| |]; now apply ok_weaken.
  Qed.

  Lemma arun_ok ops : forall st,
    lru_ok cap (tick st) (store st) ->
    lru_ok cap (tick (fst (arun st ops))) (store (fst (arun st ops))).
  Proof.
    induction ops as [|o ops IH]; intros st Hok; cbn; auto.
    pose proof (astep_ok st o Hok) as H1. destruct (astep st o) as [s1 r]. cbn in H1.
    specialize (IH s1 H1). destruct (arun s1 ops) as [s2 rs]. exact IH.
  Qed.

  (* T4, history level: from the empty cache, after any history: at most maxsize entries, keys unique,
     list in strict recency order *)
  Lemma size_and_lru ops :
    let st := fst (arun ainit ops) in
    (length (store st) <= cap)%nat /\ NoDup (map ekey (store st)) /\ stamps_sorted (store st).
  Proof.
    assert (H0 : lru_ok cap (tick (@ainit K)) (store (@ainit K))).
    { repeat split; cbn; try lia; try constructor; try (intros e []). }
    pose proof (arun_ok ops _ H0) as (A & B & C & _). auto.
  Qed.

  (* the size reported after every operation is within maxsize *)
  Lemma sizes_bounded ops : forall st,
    lru_ok cap (tick st) (store st) ->
    Forall (fun rz => 0 <= snd rz <= Z.of_nat cap) (snd (arun st ops)).
  Proof.
    induction ops as [|o ops IH]; intros st Hok; cbn; [constructor|].
    pose proof (astep_ok st o Hok) as H1. destruct (astep st o) as [s1 r]. cbn in H1.
    specialize (IH s1 H1). destruct (arun s1 ops) as [s2 rs]. cbn in *. constructor; auto.
    cbn. destruct H1 as (A & _). lia.
  Qed.

  (* ---------------------------------------------------------------- what a call returns (T1, step level) *)
  Lemma find_app_notin a b k : ~ In k (map ekey a) -> lru_find (a ++ b) k = lru_find b k.
  Proof.
    induction a as [|e a IH]; cbn; auto. intros H.
    rewrite keqb_neq by (intros E; apply H; now left). apply IH. tauto.
  Qed.

  Lemma find_single k v t : lru_find [(k, v, t)] k = Some v.
  Proof. cbn. now rewrite keqb_refl. Qed.

  Lemma setitem_find c l k v t : NoDup (map ekey l) -> lru_find (lru_setitem c l k v t) k = Some v.
  Proof.
    intros Hnd. unfold lru_setitem. destruct (lru_find l k) eqn:Hf.
    - unfold lru_touch. destruct (remove_nodup l k Hnd) as [_ N]. rewrite find_app_notin by exact N. apply find_single.
    - apply find_none_notin in Hf. rewrite find_app_notin; [apply find_single|].
      destruct (length l =? c)%nat; auto. destruct l; cbn in *; tauto.
  Qed.

  Lemma call_hit st id c bl b k v :
    kf c = Some k -> lru_find (store st) k = Some v ->
    snd (astep st (ACall id c bl b)) = RHit v /\
    runs (fst (astep st (ACall id c bl b))) = runs st /\ infl (fst (astep st (ACall id c bl b))) = infl st.
  Proof. intros Hk Hf. cbn. rewrite Hk. unfold lru_getitem. rewrite Hf. cbn. auto. Qed.

  Lemma call_miss st id c b k :
    NoDup (map ekey (store st)) ->
    kf c = Some k -> lru_find (store st) k = None -> valid c = true ->
    let st' := fst (astep st (ACall id c false b)) in
    let r := snd (astep st (ACall id c false b)) in
    runs st' = runs st ++ [id] /\ infl st' = infl st /\
    match b with
    | BRet v => r = RMiss v /\ lru_find (store st') k = Some v
    | BRaise e => r = RRaise e /\ store st' = store st
    end.
  Proof.
    intros Hnd Hk Hf Hv. cbn. rewrite Hk. unfold lru_getitem. rewrite Hf, Hv. cbn.
    destruct b; cbn; repeat split; auto. now apply setitem_find.
  Qed.

  Lemma call_miss_blocking st id c b k :
    kf c = Some k -> lru_find (store st) k = None -> valid c = true ->
    let st' := fst (astep st (ACall id c true b)) in
    snd (astep st (ACall id c true b)) = RPending /\
    runs st' = runs st ++ [id] /\ infl st' = infl st ++ [(id, k, b)] /\ store st' = store st.
  Proof. intros Hk Hf Hv. cbn. rewrite Hk. unfold lru_getitem. rewrite Hf, Hv. cbn. auto. Qed.

  Lemma call_unbindable st id c bl b k :
    kf c = Some k -> lru_find (store st) k = None -> valid c = false ->
    let st' := fst (astep st (ACall id c bl b)) in
    snd (astep st (ACall id c bl b)) = RTypeError /\ runs st' = runs st /\ store st' = store st /\ infl st' = infl st.
  Proof. intros Hk Hf Hv. cbn. rewrite Hk. unfold lru_getitem. rewrite Hf, Hv. cbn. auto. Qed.

  Lemma finish_spec st id k b :
    NoDup (map ekey (store st)) ->
    infl_find K (infl st) id = Some (k, b) ->
    let st' := fst (astep st (AFinish id)) in
    let r := snd (astep st (AFinish id)) in
    runs st' = runs st /\
    match b with
    | BRet v => r = RDone v /\ lru_find (store st') k = Some v
    | BRaise e => r = RRaise e /\ store st' = store st
    end.
  Proof.
    intros Hnd Hf. cbn. rewrite Hf. destruct b; cbn; repeat split; auto. now apply setitem_find.
  Qed.

  (* T3: a body that raises never changes the cache, whether it raises at once or after blocking;
     the next call with that key misses again *)
  Lemma errors_not_cached st id c bl e k :
    kf c = Some k -> lru_find (store st) k = None ->
    store (fst (astep st (ACall id c bl (BRaise e)))) = store st.
  Proof.
    intros Hk Hf. cbn. rewrite Hk. unfold lru_getitem. rewrite Hf.
    destruct (negb (valid c)); cbn; [reflexivity|]. destruct bl; reflexivity.
  Qed.

  Lemma errors_not_cached_finish st id k e :
    infl_find K (infl st) id = Some (k, BRaise e) ->
    store (fst (astep st (AFinish id))) = store st /\ snd (astep st (AFinish id)) = RRaise e.
  Proof. intros Hf. cbn. rewrite Hf. cbn. auto. Qed.

  (* ---------------------------------------------------------------- provenance: no cross-talk (T2) *)
  Definition prov (pre : list aop) (k : K) (v : Z) : Prop :=
    exists id c bl, In (ACall id c bl (BRet v)) pre /\ kf c = Some k /\ valid c = true.

  Definition inv (pre : list aop) (st : astate K) : Prop :=
    (forall e, In e (store st) -> prov pre (ekey e) (eval e)) /\
    (forall id k b, In (id, k, b) (infl st) ->
       exists c bl, In (ACall id c bl b) pre /\ kf c = Some k /\ valid c = true).

  Lemma prov_mono pre o k v : prov pre k v -> prov (pre ++ [o]) k v.
  Proof. intros (id & c & bl & H & H2). exists id, c, bl. split; auto. apply in_app_iff. now left. Qed.

  Lemma find_some_entry l k v : lru_find l k = Some v -> exists e, In e l /\ ekey e = k /\ eval e = v.
  Proof.
    induction l as [|e l IH]; cbn; [discriminate|]. destruct (keqb (ekey e) k) eqn:E.
    - intros H. inversion H; subst. apply keqb_spec in E. exists e. auto.
    - intros H. destruct (IH H) as (e' & A & B). exists e'. auto.
  Qed.

  Lemma touch_in l k v t e : In e (lru_touch l k v t) -> In e l \/ e = (k, v, t).
  Proof.
    unfold lru_touch. intros H. apply in_app_iff in H as [H|[H|[]]]; [left; eapply remove_in; eauto|now right].
  Qed.

  Lemma setitem_in c l k v t e : In e (lru_setitem c l k v t) -> In e l \/ e = (k, v, t).
  Proof.
    unfold lru_setitem. destruct (lru_find l k); [apply touch_in|].
    intros H. apply in_app_iff in H as [H|[H|[]]]; [left|now right].
    destruct (length l =? c)%nat; auto. destruct l; cbn in *; auto.
  Qed.

  Lemma infl_find_in l id k b : infl_find K l id = Some (k, b) -> In (id, k, b) l.
  Proof.
    induction l as [|[[i k'] b'] l IH]; cbn; [discriminate|]. destruct (i =? id) eqn:E.
    - intros H. inversion H; subst. apply Z.eqb_eq in E. subst. now left.
    - intros H. right. auto.
  Qed.

  Lemma infl_remove_in l id x : In x (infl_remove K l id) -> In x l.
  Proof.
    induction l as [|[[i k'] b'] l IH]; cbn; auto. destruct (i =? id); cbn; [auto|]. intros [H|H]; auto.
  Qed.

  Lemma inv_step pre st o :
    inv pre st ->
    inv (pre ++ [o]) (fst (astep st o)) /\
    (forall v, snd (astep st o) = RHit v ->
       exists id c bl b k, o = ACall id c bl b /\ kf c = Some k /\ prov pre k v).
  Proof.
    intros [Hs Hi].
    assert (Hs' : forall e, In e (store st) -> prov (pre ++ [o]) (ekey e) (eval e)) by (intros; apply prov_mono; auto).
    assert (Hi' : forall id k b, In (id, k, b) (infl st) ->
       exists c bl, In (ACall id c bl b) (pre ++ [o]) /\ kf c = Some k /\ valid c = true).
    { intros id k b H. destruct (Hi _ _ _ H) as (c & bl & A & B). exists c, bl. split; auto. apply in_app_iff. now left. }
    destruct o as [id c bl b|id]; cbn.
    - destruct (kf c) as [k|] eqn:Hk; [|split; [split; auto|discriminate]].
      unfold lru_getitem. destruct (lru_find (store st) k) as [v0|] eqn:Hf; cbn.
      + split; [split; cbn; auto|].
        * intros e He. apply touch_in in He as [He|He]; auto. subst. cbn.
          destruct (find_some_entry _ _ _ Hf) as (e' & A & B & C). subst. apply prov_mono. auto.
        * intros v Hv. inversion Hv; subst. exists id, c, bl, b, k. repeat split; auto.
          destruct (find_some_entry _ _ _ Hf) as (e' & A & B & C). subst. auto.
      + destruct (valid c) eqn:Hv; cbn; [|split; [split; auto|discriminate]].
        destruct bl; cbn.
        * split; [split; cbn; auto|discriminate].
          intros i k' b' H. apply in_app_iff in H as [H|[H|[]]]; auto.
          inversion H; subst. exists c, true. repeat split; auto. apply in_app_iff. right. now left.
        * destruct b as [v|e]; cbn; (split; [split; cbn; auto|discriminate]).
          intros e He. apply setitem_in in He as [He|He]; auto. subst. cbn.
          exists id, c, false. repeat split; auto. apply in_app_iff. right. now left.
    - destruct (infl_find K (infl st) id) as [[k [v|e]]|] eqn:Hf; cbn; (split; [split; cbn; auto|discriminate]).
      + intros e He. apply setitem_in in He as [He|He]; auto. subst. cbn.
        apply infl_find_in in Hf. destruct (Hi' _ _ _ Hf) as (c & bl & A & B & C). exists id, c, bl. auto.
      + intros i k' b' H. apply infl_remove_in in H. auto.
      + intros i k' b' H. apply infl_remove_in in H. auto.
  Qed.

  Fixpoint hits_justified (pre ops : list aop) (rs : list (res * Z)) : Prop :=
    match ops, rs with
    | o :: ops', rz :: rs' =>
      (forall v, fst rz = RHit v ->
         exists id c bl b k, o = ACall id c bl b /\ kf c = Some k /\ prov pre k v) /\
      hits_justified (pre ++ [o]) ops' rs'
    | _, _ => True
    end.

  Lemma no_cross_talk_gen ops : forall pre st, inv pre st -> hits_justified pre ops (snd (arun st ops)).
  Proof.
    induction ops as [|o ops IH]; intros pre st Hinv; cbn; auto.
    destruct (inv_step pre st o Hinv) as [H1 H2]. destruct (astep st o) as [s1 r]. cbn in *.
    specialize (IH _ _ H1). destruct (arun s1 ops) as [s2 rs]. cbn in *. split; auto.
  Qed.

  (* every value served from the cache was computed by the body of an earlier call with the same key *)
  Lemma no_cross_talk ops : hits_justified [] ops (snd (arun ainit ops)).
  Proof. apply no_cross_talk_gen. split; cbn; intros; contradiction. Qed.
End Generic.

(* ================================================================== T1: keying by an injective image of the key changes nothing *)
Section KeyMap.
  Variables K1 K2 : Type.
  Variable eqb1 : K1 -> K1 -> bool.
  Variable eqb2 : K2 -> K2 -> bool.
  Hypothesis eqb1_spec : forall a b, eqb1 a b = true <-> a = b.
  Hypothesis eqb2_spec : forall a b, eqb2 a b = true <-> a = b.
  Variable f : K1 -> K2.
  Hypothesis f_inj : forall a b, f a = f b -> a = b.
  Variable kf1 : call -> option K1.
  Variable kf2 : call -> option K2.
  Variable valid : call -> bool.
  Variable cap : nat.

  Lemma eqb_f a b : eqb2 (f a) (f b) = eqb1 a b.
  Proof.
    destruct (eqb1 a b) eqn:E.
    - apply eqb1_spec in E. subst. now apply eqb2_spec.
    - destruct (eqb2 (f a) (f b)) eqn:E2; auto. apply eqb2_spec, f_inj in E2. subst.
      rewrite (proj2 (eqb1_spec b b) eq_refl) in E. discriminate.
  Qed.

  Definition fe (e : entry K1) : entry K2 := (f (ekey K1 e), eval K1 e, estamp K1 e).
  Definition fi (x : Z * K1 * body) : Z * K2 * body := (fst (fst x), f (snd (fst x)), snd x).

  Lemma map_find l k : lru_find K2 eqb2 (map fe l) (f k) = lru_find K1 eqb1 l k.
  Proof. induction l as [|e l IH]; cbn; auto. rewrite eqb_f. destruct (eqb1 (ekey K1 e) k); auto. Qed.
  Lemma map_remove l k : lru_remove K2 eqb2 (map fe l) (f k) = map fe (lru_remove K1 eqb1 l k).
  Proof. induction l as [|e l IH]; cbn; auto. rewrite eqb_f. destruct (eqb1 (ekey K1 e) k); cbn; auto. now rewrite IH. Qed.
  Lemma map_touch l k v t : lru_touch K2 eqb2 (map fe l) (f k) v t = map fe (lru_touch K1 eqb1 l k v t).
  Proof. unfold lru_touch. now rewrite map_remove, map_app. Qed.
  Lemma map_setitem l k v t :
    lru_setitem K2 eqb2 cap (map fe l) (f k) v t = map fe (lru_setitem K1 eqb1 cap l k v t).
  Proof.
    unfold lru_setitem. rewrite map_find. destruct (lru_find K1 eqb1 l k); [apply map_touch|].
    rewrite map_length, map_app. destruct (length l =? cap)%nat; auto. destruct l; reflexivity.
  Qed.
  Lemma map_infl_find l id :
    infl_find K2 (map fi l) id = option_map (fun kb => (f (fst kb), snd kb)) (infl_find K1 l id).
  Proof. induction l as [|[[i k] b] l IH]; cbn; auto. destruct (i =? id); auto. Qed.
  Lemma map_infl_remove l id : infl_remove K2 (map fi l) id = map fi (infl_remove K1 l id).
  Proof. induction l as [|[[i k] b] l IH]; cbn; auto. destruct (i =? id); cbn; auto. now rewrite IH. Qed.

  Definition rel (s1 : astate K1) (s2 : astate K2) : Prop :=
    store s2 = map fe (store s1) /\ infl s2 = map fi (infl s1) /\ tick s2 = tick s1 /\ runs s2 = runs s1.

  Definition op_agrees (o : aop) : Prop :=
    match o with ACall _ c _ _ => kf2 c = option_map f (kf1 c) | AFinish _ => True end.

  Lemma rel_step s1 s2 o :
    rel s1 s2 -> op_agrees o ->
    rel (fst (astep K1 eqb1 kf1 valid cap s1 o)) (fst (astep K2 eqb2 kf2 valid cap s2 o)) /\
    snd (astep K1 eqb1 kf1 valid cap s1 o) = snd (astep K2 eqb2 kf2 valid cap s2 o).
  Proof.
    intros (Hs & Hi & Ht & Hr) Ha. destruct o as [id c bl b|id]; cbn in *.
    - rewrite Ha. destruct (kf1 c) as [k|]; cbn.
      + unfold lru_getitem. rewrite Hs, map_find, Ht. destruct (lru_find K1 eqb1 (store s1) k) as [v|]; cbn.
        * split; [|reflexivity]. repeat split; cbn; auto. apply map_touch.
        * destruct (negb (valid c)); cbn; [split; [repeat split; cbn; auto|reflexivity]|].
          destruct bl; cbn.
          -- split; [|reflexivity]. repeat split; cbn; auto; [|congruence]. rewrite Hi, map_app. reflexivity.
          -- destruct b; cbn; (split; [|reflexivity]); repeat split; cbn; auto; try congruence.
             apply map_setitem.
      + split; [|reflexivity]. repeat split; cbn; auto.
    - rewrite Hi, map_infl_find. destruct (infl_find K1 (infl s1) id) as [[k [v|e]]|]; cbn.
      + split; [|reflexivity]. repeat split; cbn; auto. * rewrite Hs, Ht. apply map_setitem. * apply map_infl_remove.
      + split; [|reflexivity]. repeat split; cbn; auto. apply map_infl_remove.
      + split; [|reflexivity]. repeat split; cbn; auto.
  Qed.

  Lemma rel_run ops : forall s1 s2,
    rel s1 s2 -> Forall op_agrees ops ->
    snd (arun K1 eqb1 kf1 valid cap s1 ops) = snd (arun K2 eqb2 kf2 valid cap s2 ops) /\
    runs (fst (arun K1 eqb1 kf1 valid cap s1 ops)) = runs (fst (arun K2 eqb2 kf2 valid cap s2 ops)).
  Proof.
    induction ops as [|o ops IH]; intros s1 s2 Hrel Hall; cbn.
    - split; auto. now destruct Hrel as (_ & _ & _ & ->).
    - inversion Hall as [|? ? Ho Hrest]; subst.
      destruct (rel_step s1 s2 o Hrel Ho) as [H1 H2].
      destruct (astep K1 eqb1 kf1 valid cap s1 o) as [a1 r1].
      destruct (astep K2 eqb2 kf2 valid cap s2 o) as [a2 r2]. cbn in *. subst.
      destruct (IH _ _ H1 Hrest) as [I1 I2].
      destruct (arun K1 eqb1 kf1 valid cap a1 ops) as [b1 rs1].
      destruct (arun K2 eqb2 kf2 valid cap a2 ops) as [b2 rs2]. cbn in *. subst.
      destruct H1 as (E & _). rewrite E, map_length. auto.
  Qed.

  Lemma key_map_run ops :
    Forall op_agrees ops ->
    snd (arun K1 eqb1 kf1 valid cap ainit ops) = snd (arun K2 eqb2 kf2 valid cap ainit ops) /\
    runs (fst (arun K1 eqb1 kf1 valid cap ainit ops)) = runs (fst (arun K2 eqb2 kf2 valid cap ainit ops)).
  Proof. apply rel_run. repeat split. Qed.
End KeyMap.

(* the reference cache of the statement: the same LRU cache keyed on the bound arguments themselves *)
Definition ref_alru (s : sig) (cap : nat) (ops : list aop) :=
  arun bound bound_eqb (bind s) (bindable s) cap ainit ops.
Definition impl_alru (s : sig) (cap : nat) (ops : list aop) :=
  arun key key_eqb (alru_key false KmDefault s) (bindable s) cap ainit ops.

Definition all_bind (s : sig) (ops : list aop) : Prop :=
  Forall (fun o => match o with ACall _ c _ _ => bindable s c = true | AFinish _ => True end) ops.

Lemma refines_reference s cap ops :
  all_bind s ops ->
  snd (impl_alru s cap ops) = snd (ref_alru s cap ops) /\
  runs (fst (impl_alru s cap ops)) = runs (fst (ref_alru s cap ops)).
Proof.
  intros H. unfold impl_alru, ref_alru.
  pose proof (key_map_run bound key bound_eqb key_eqb bound_eqb_spec key_eqb_spec enc enc_injective
               (bind s) (alru_key false KmDefault s) (bindable s) cap ops) as L.
  destruct L as [L1 L2].
  - eapply Forall_impl; [|exact H]. intros [id c bl b|id]; cbn; auto.
    unfold bindable. destruct (bind s c) as [b0|] eqn:E; [|discriminate]. intros _.
    exact (default_key_normalises _ _ _ E).
  - split; congruence.
Qed.

(* ================================================================== acached_per_instance *)
Section Inst.
  Variable K : Type.
  Variable keqb : K -> K -> bool.
  Hypothesis keqb_spec : forall a b, keqb a b = true <-> a = b.
  Variable kf : call -> option K.
  Variable valid : call -> bool.

  Notation idict := (idict K).
  Notation p_find := (p_find K).
  Notation p_set := (p_set K).
  Notation p_remove := (p_remove K).
  Notation p_ensure := (p_ensure K).
  Notation p_dict := (p_dict K).
  Notation p_store := (p_store K keqb).
  Notation pstep := (pstep K keqb kf valid).
  Notation prun := (prun K keqb kf valid).

  Definition op_inst (o : pop) : Z :=
    match o with PCall _ i _ _ _ => i | PFinish _ i => i | PDrop i => i end.

  Lemma p_find_app_other l i j d : j <> i -> p_find (l ++ [(i, d)]) j = p_find l j.
  Proof.
    intros H. induction l as [|[x dx] l IH]; cbn.
    - destruct (i =? j) eqn:E; auto. apply Z.eqb_eq in E. congruence.
    - destruct (x =? j); auto.
  Qed.
  Lemma p_find_set_other l i j d : j <> i -> p_find (p_set l i d) j = p_find l j.
  Proof.
    intros H. induction l as [|[x dx] l IH]; cbn.
    - destruct (i =? j) eqn:E; auto. apply Z.eqb_eq in E. congruence.
    - destruct (x =? i) eqn:E; cbn.
      + apply Z.eqb_eq in E. subst. destruct (i =? j) eqn:E2; auto. apply Z.eqb_eq in E2. congruence.
      + destruct (x =? j); auto.
  Qed.
  Lemma p_find_remove_other l i j : j <> i -> p_find (p_remove l i) j = p_find l j.
  Proof.
    intros H. induction l as [|[x dx] l IH]; cbn; auto.
    destruct (x =? i) eqn:E; cbn.
    - apply Z.eqb_eq in E. subst. destruct (i =? j) eqn:E2; auto. apply Z.eqb_eq in E2. congruence.
    - destruct (x =? j); auto.
  Qed.
  Lemma p_find_ensure_other l i j : j <> i -> p_find (p_ensure l i) j = p_find l j.
  Proof. intros H. unfold p_ensure. destruct (p_find l i); auto. now apply p_find_app_other. Qed.
  Lemma p_find_store_other l i j k v : j <> i -> p_find (p_store l i k v) j = p_find l j.
  Proof. intros H. unfold p_store. destruct (p_find l i); auto. now apply p_find_set_other. Qed.

  Lemma p_find_app_same l i : p_find l i = None -> p_find (l ++ [(i, [])]) i = Some [].
  Proof.
    induction l as [|[x dx] l IH]; cbn; [now rewrite Z.eqb_refl|]. destruct (x =? i); [discriminate|auto].
  Qed.
  Lemma p_dict_ensure l i : p_dict (p_ensure l i) i = p_dict l i.
  Proof.
    unfold p_dict, p_ensure. destruct (p_find l i) eqn:E; [now rewrite E|]. now rewrite p_find_app_same.
  Qed.

  (* T5a: an operation on one instance leaves every other instance's cache untouched *)
  Lemma instances_independent st o j :
    op_inst o <> j -> p_find (pstore (fst (pstep st o))) j = p_find (pstore st) j.
  Proof.
    intros H. assert (H' : j <> op_inst o) by congruence. destruct o as [id i c bl b|id i|i]; cbn in *.
    - destruct (kf c) as [k|]; cbn; [|now apply p_find_ensure_other].
      destruct (d_find K keqb (p_dict (p_ensure (pstore st) i) i) k); cbn; [now apply p_find_ensure_other|].
      destruct (negb (valid c)); cbn; [now apply p_find_ensure_other|].
      destruct bl; cbn; [now apply p_find_ensure_other|].
      destruct b; cbn; [|now apply p_find_ensure_other].
      rewrite p_find_store_other by auto. now apply p_find_ensure_other.
    - destruct (pinfl_find K (pinfl st) id i) as [[k [v|e]]|]; cbn; auto. now apply p_find_store_other.
    - destruct (inst_busy K (pinfl st) i); cbn; auto. now apply p_find_remove_other.
  Qed.

  (* ... and what a call returns depends only on its own instance's cache *)
  Lemma call_depends_on_own_cache st1 st2 id i c bl b :
    p_dict (pstore st1) i = p_dict (pstore st2) i ->
    snd (pstep st1 (PCall id i c bl b)) = snd (pstep st2 (PCall id i c bl b)).
  Proof.
    intros H. cbn. rewrite !p_dict_ensure, H. destruct (kf c) as [k|]; cbn; auto.
    destruct (d_find K keqb (p_dict (pstore st2) i) k); cbn; auto.
    destruct (negb (valid c)); cbn; auto. destruct bl; cbn; auto. destruct b; auto.
  Qed.

  (* T5b: instance keys stay unique, so Drop really removes the instance's cache *)
  Lemma p_set_keys l i d : p_find l i <> None -> map fst (p_set l i d) = map fst l.
  Proof.
    induction l as [|[x dx] l IH]; cbn; [congruence|]. destruct (x =? i) eqn:E; cbn; auto.
    intros H. now rewrite IH.
  Qed.
  Lemma p_find_none_notin l i : p_find l i = None <-> ~ In i (map fst l).
  Proof.
    induction l as [|[x dx] l IH]; cbn; [tauto|]. destruct (x =? i) eqn:E.
    - apply Z.eqb_eq in E. subst. split; [discriminate|]. intros H. exfalso. apply H. now left.
    - apply Z.eqb_neq in E. rewrite IH. tauto.
  Qed.
  Lemma p_remove_sub l i x : In x (map fst (p_remove l i)) -> In x (map fst l).
  Proof.
    induction l as [|[y dy] l IH]; cbn; auto. destruct (y =? i); cbn; auto. intros [H|H]; auto.
  Qed.
  Lemma p_remove_nodup l i : NoDup (map fst l) -> NoDup (map fst (p_remove l i)) /\ p_find (p_remove l i) i = None.
  Proof.
    induction l as [|[x dx] l IH]; cbn; intros H; [split; [constructor|reflexivity]|].
    inversion H as [|? ? Hn Hd]; subst. destruct (x =? i) eqn:E; cbn.
    - apply Z.eqb_eq in E. subst. split; auto. now apply p_find_none_notin.
    - destruct (IH Hd) as [I1 I2]. rewrite E. split; auto. constructor; auto.
      intros Hin. apply Hn. eapply p_remove_sub; eauto.
  Qed.

  Lemma pstep_nodup st o : NoDup (map fst (pstore st)) -> NoDup (map fst (pstore (fst (pstep st o)))).
  Proof.
    intros H.
    assert (He : forall i, NoDup (map fst (p_ensure (pstore st) i))).
    { intros i. unfold p_ensure. destruct (p_find (pstore st) i) eqn:E; auto.
      rewrite map_app. cbn. apply NoDup_app_snoc; auto. now apply p_find_none_notin. }
    assert (Hs : forall l i k v, NoDup (map fst l) -> NoDup (map fst (p_store l i k v))).
    { intros l i k v Hl. unfold p_store. destruct (p_find l i) eqn:E; auto. rewrite p_set_keys; auto. congruence. }
    destruct o as [id i c bl b|id i|i]; cbn.
    - destruct (kf c) as [k|]; cbn; auto.
      destruct (d_find K keqb (p_dict (p_ensure (pstore st) i) i) k); cbn; auto.
      destruct (negb (valid c)); cbn; auto. destruct bl; cbn; auto. destruct b; cbn; auto.
    - destruct (pinfl_find K (pinfl st) id i) as [[k [v|e]]|]; cbn; auto.
    - destruct (inst_busy K (pinfl st) i); cbn; auto. now apply p_remove_nodup.
  Qed.

  Lemma prun_nodup ops : forall st, NoDup (map fst (pstore st)) -> NoDup (map fst (pstore (fst (prun st ops)))).
  Proof.
    induction ops as [|o ops IH]; intros st H; cbn; auto.
    pose proof (pstep_nodup st o H) as H1. destruct (pstep st o) as [s1 r]. cbn in H1.
    specialize (IH s1 H1). destruct (prun s1 ops) as [s2 rs]. exact IH.
  Qed.

  (* after any history, dropping an idle instance removes its cache; a later call on an instance with
     that identity starts from an empty cache *)
  Lemma instance_vanishes ops i :
    let st := fst (prun pinit ops) in
    inst_busy K (pinfl st) i = false ->
    let st' := fst (pstep st (PDrop i)) in
    p_find (pstore st') i = None /\
    forall id c k v, kf c = Some k -> valid c = true ->
      snd (pstep st' (PCall id i c false (BRet v))) = RMiss v.
  Proof.
    intros st Hb st'. assert (Hn : NoDup (map fst (pstore st))) by (apply prun_nodup; constructor).
    assert (Hf : p_find (pstore st') i = None).
    { subst st'. cbn. rewrite Hb. cbn. now apply p_remove_nodup. }
    split; auto. intros id c k v Hk Hv. cbn. rewrite Hk, p_dict_ensure. unfold p_dict. rewrite Hf. cbn.
    now rewrite Hv.
  Qed.

  (* ---------------------------------------------------------------- provenance per instance *)
  Definition pprov (pre : list pop) (i : Z) (k : K) (v : Z) : Prop :=
    exists id c bl, In (PCall id i c bl (BRet v)) pre /\ kf c = Some k /\ valid c = true.

  Definition pinv (pre : list pop) (st : pstate K) : Prop :=
    (forall i d k v, In (i, d) (pstore st) -> In (k, v) d -> pprov pre i k v) /\
    (forall id i k b, In (id, i, k, b) (pinfl st) ->
       exists c bl, In (PCall id i c bl b) pre /\ kf c = Some k /\ valid c = true).

  Lemma p_find_in l i d : p_find l i = Some d -> In (i, d) l.
  Proof.
    induction l as [|[x dx] l IH]; cbn; [discriminate|]. destruct (x =? i) eqn:E.
    - intros H. inversion H; subst. apply Z.eqb_eq in E. subst. now left.
    - auto.
  Qed.
  Lemma d_find_in d k v : d_find K keqb d k = Some v -> In (k, v) d.
  Proof.
    induction d as [|[k' v'] d IH]; cbn; [discriminate|]. destruct (keqb k' k) eqn:E.
    - intros H. inversion H; subst. apply keqb_spec in E. subst. now left.
    - auto.
  Qed.
  Lemma d_set_in d k v k' v' : In (k', v') (d_set K keqb d k v) -> In (k', v') d \/ (k' = k /\ v' = v).
  Proof.
    induction d as [|[a b] d IH]; cbn.
    - intros [H|[]]. inversion H. auto.
    - destruct (keqb a k) eqn:E; cbn.
      + apply keqb_spec in E. subst. intros [H|H]; [inversion H; auto|auto].
      + intros [H|H]; auto. destruct (IH H); auto.
  Qed.
  Lemma p_set_in l i d j d' : In (j, d') (p_set l i d) -> In (j, d') l \/ (j = i /\ d' = d).
  Proof.
    induction l as [|[a b] l IH]; cbn.
    - intros [H|[]]. inversion H. auto.
    - destruct (a =? i) eqn:E; cbn.
      + apply Z.eqb_eq in E. subst. intros [H|H]; [inversion H; auto|auto].
      + intros [H|H]; auto. destruct (IH H); auto.
  Qed.
  Lemma p_remove_in l i x : In x (p_remove l i) -> In x l.
  Proof. induction l as [|[a b] l IH]; cbn; auto. destruct (a =? i); cbn; auto. intros [H|H]; auto. Qed.
  Lemma p_ensure_in l i j d : In (j, d) (p_ensure l i) -> In (j, d) l \/ d = [].
  Proof.
    unfold p_ensure. destruct (p_find l i); auto. intros H. apply in_app_iff in H as [H|[H|[]]]; auto.
    inversion H. auto.
  Qed.
  Lemma pinfl_find_in l id i k b : pinfl_find K l id i = Some (k, b) -> In (id, i, k, b) l.
  Proof.
    induction l as [|[[[a j] k'] b'] l IH]; cbn; [discriminate|]. destruct ((a =? id) && (j =? i)) eqn:E.
    - intros H. inversion H; subst. apply andb_true_iff in E as [E1 E2]. apply Z.eqb_eq in E1, E2. subst. now left.
    - auto.
  Qed.
  Lemma pinfl_remove_in l id i x : In x (pinfl_remove K l id i) -> In x l.
  Proof.
    induction l as [|[[[a j] k'] b'] l IH]; cbn; auto. destruct ((a =? id) && (j =? i)); cbn; auto. intros [H|H]; auto.
  Qed.

  Lemma pprov_mono pre o i k v : pprov pre i k v -> pprov (pre ++ [o]) i k v.
  Proof. intros (id & c & bl & H & H2). exists id, c, bl. split; auto. apply in_app_iff. now left. Qed.

  Lemma p_store_inv pre l i k v :
    (forall j d k' v', In (j, d) l -> In (k', v') d -> pprov pre j k' v') ->
    pprov pre i k v ->
    forall j d k' v', In (j, d) (p_store l i k v) -> In (k', v') d -> pprov pre j k' v'.
  Proof.
    intros Hl Hp j d k' v' Hin Hd. unfold p_store in Hin. destruct (p_find l i) as [d0|] eqn:E; [|eauto].
    apply p_set_in in Hin as [Hin|[-> ->]]; [eauto|].
    apply d_set_in in Hd as [Hd|[-> ->]]; auto. apply p_find_in in E. eauto.
  Qed.

  Lemma pinv_step pre st o :
    pinv pre st ->
    pinv (pre ++ [o]) (fst (pstep st o)) /\
    (forall v, snd (pstep st o) = RHit v ->
       exists id i c bl b k, o = PCall id i c bl b /\ kf c = Some k /\ pprov pre i k v).
  Proof.
    intros [Hs Hi].
    assert (Hs' : forall i d k v, In (i, d) (pstore st) -> In (k, v) d -> pprov (pre ++ [o]) i k v)
      by (intros; eapply pprov_mono; eauto).
    assert (Hi' : forall id i k b, In (id, i, k, b) (pinfl st) ->
       exists c bl, In (PCall id i c bl b) (pre ++ [o]) /\ kf c = Some k /\ valid c = true).
    { intros id i k b H. destruct (Hi _ _ _ _ H) as (c & bl & A & B). exists c, bl. split; auto. apply in_app_iff. now left. }
    assert (He : forall i0 i d k v, In (i, d) (p_ensure (pstore st) i0) -> In (k, v) d -> pprov (pre ++ [o]) i k v).
    { intros i0 i d k v H Hd. apply p_ensure_in in H as [H| ->]; [eauto|contradiction]. }
    destruct o as [id i c bl b|id i|i]; cbn.
    - destruct (kf c) as [k|] eqn:Hk; cbn; [|split; [split; cbn; eauto|discriminate]].
      destruct (d_find K keqb (p_dict (p_ensure (pstore st) i) i) k) as [v0|] eqn:Hf; cbn.
      + split; [split; cbn; eauto|]. intros v Hv. inversion Hv; subst.
        exists id, i, c, bl, b, k. repeat split; auto.
        rewrite p_dict_ensure in Hf. unfold p_dict in Hf. destruct (p_find (pstore st) i) as [d|] eqn:Ef; [|discriminate].
        apply p_find_in in Ef. apply d_find_in in Hf. eauto.
      + destruct (valid c) eqn:Hv; cbn; [|split; [split; cbn; eauto|discriminate]].
        destruct bl; cbn.
        * split; [split; cbn; eauto|discriminate].
          intros a j k' b' H. apply in_app_iff in H as [H|[H|[]]]; auto.
          inversion H; subst. exists c, true. repeat split; auto. apply in_app_iff. right. now left.
        * destruct b as [v|e]; cbn; (split; [split; cbn; eauto|discriminate]).
          apply p_store_inv; eauto. exists id, c, false. repeat split; auto. apply in_app_iff. right. now left.
    - destruct (pinfl_find K (pinfl st) id i) as [[k [v|e]]|] eqn:Hf; cbn; (split; [split; cbn; eauto|discriminate]).
      + apply p_store_inv; eauto. apply pinfl_find_in in Hf. destruct (Hi' _ _ _ _ Hf) as (c & bl & A & B & C).
        exists id, c, bl. auto.
      + intros a j k' b' H. apply pinfl_remove_in in H. auto.
      + intros a j k' b' H. apply pinfl_remove_in in H. auto.
    - destruct (inst_busy K (pinfl st) i); cbn; (split; [split; cbn; eauto|discriminate]).
      intros j d k v H. apply p_remove_in in H. eauto.
  Qed.

  Fixpoint phits_justified (pre ops : list pop) (rs : list (res * Z * Z)) : Prop :=
    match ops, rs with
    | o :: ops', rz :: rs' =>
      (forall v, fst (fst rz) = RHit v ->
         exists id i c bl b k, o = PCall id i c bl b /\ kf c = Some k /\ pprov pre i k v) /\
      phits_justified (pre ++ [o]) ops' rs'
    | _, _ => True
    end.

  Lemma inst_no_cross_talk_gen ops : forall pre st, pinv pre st -> phits_justified pre ops (snd (prun st ops)).
  Proof.
    induction ops as [|o ops IH]; intros pre st Hinv; cbn; auto.
    destruct (pinv_step pre st o Hinv) as [H1 H2]. destruct (pstep st o) as [s1 r]. cbn in *.
    specialize (IH _ _ H1). destruct (prun s1 ops) as [s2 rs]. cbn in *. split; auto.
  Qed.

  (* a value served from an instance's cache was computed by an earlier call on that same instance with
     the same key *)
  Lemma inst_no_cross_talk ops : phits_justified [] ops (snd (prun pinit ops)).
  Proof. apply inst_no_cross_talk_gen. split; cbn; intros; contradiction. Qed.
End Inst.

(* ================================================================== alazy_constant *)
Lemma needs_refresh_iff ttl st :
  needs_refresh ttl st = true <-> refresh st = 0 \/ (ttl <> 0 /\ refresh st < now st - ttl).
Proof.
  unfold needs_refresh. rewrite orb_true_iff, andb_true_iff, negb_true_iff, Z.eqb_eq, Z.eqb_neq, Z.ltb_lt. tauto.
Qed.

(* T6a: a call runs the body iff never computed / dirtied / ttl expired; otherwise it changes nothing
   and returns the cached value *)
Lemma lazy_recompute_iff ttl st id bl b :
  let st' := fst (lstep ttl st (LCall id bl b)) in
  let r := snd (lstep ttl st (LCall id bl b)) in
  (needs_refresh ttl st = true ->
     lruns st' = lruns st ++ [id] /\
     match bl, b with
     | true, _ => r = RPending /\ refresh st' = refresh st /\ cached st' = cached st
     | false, BRet v => r = RMiss v /\ refresh st' = now st /\ cached st' = Some v
     | false, BRaise e => r = RRaise e /\ refresh st' = refresh st /\ cached st' = cached st
     end) /\
  (needs_refresh ttl st = false ->
     st' = st /\ r = match cached st with Some v => RHit v | None => RNone end).
Proof.
  cbn. destruct (needs_refresh ttl st); split; intros H; try discriminate.
  - destruct bl; cbn; [auto|]. destruct b; cbn; auto.
  - auto.
Qed.

Lemma lazy_dirty_forces ttl st : needs_refresh ttl (fst (lstep ttl st LDirty)) = true.
Proof. reflexivity. Qed.

Lemma lazy_finish ttl st id b :
  linfl_find (linfl st) id = Some b ->
  let st' := fst (lstep ttl st (LFinish id)) in
  let r := snd (lstep ttl st (LFinish id)) in
  lruns st' = lruns st /\
  match b with
  | BRet v => r = RDone v /\ refresh st' = now st /\ cached st' = Some v
  | BRaise e => r = RRaise e /\ refresh st' = refresh st /\ cached st' = cached st
  end.
Proof. intros H. cbn. rewrite H. destruct b; cbn; auto. Qed.

(* a quiet stretch: only calls and clock ticks, the clock moving forward by at most [budget] in total
   (any amount if [unbounded]) *)
Fixpoint quiet (unbounded : bool) (budget : Z) (ops : list lop) : Prop :=
  match ops with
  | [] => True
  | LCall _ _ _ :: r => quiet unbounded budget r
  | LTick dt :: r => 0 <= dt /\ (unbounded = true \/ dt <= budget) /\ quiet unbounded (budget - dt) r
  | _ => False
  end.

Fixpoint all_hits (v : Z) (ops : list lop) (rs : list res) : Prop :=
  match ops, rs with
  | LCall _ _ _ :: ops', r :: rs' => r = RHit v /\ all_hits v ops' rs'
  | _ :: ops', _ :: rs' => all_hits v ops' rs'
  | _, _ => True
  end.

Lemma lrun_cons_fst ttl st o ops : fst (lrun ttl st (o :: ops)) = fst (lrun ttl (fst (lstep ttl st o)) ops).
Proof. cbn. destruct (lstep ttl st o) as [s1 r]. cbn. destruct (lrun ttl s1 ops). reflexivity. Qed.
Lemma lrun_cons_snd ttl st o ops :
  snd (lrun ttl st (o :: ops)) = snd (lstep ttl st o) :: snd (lrun ttl (fst (lstep ttl st o)) ops).
Proof. cbn. destruct (lstep ttl st o) as [s1 r]. cbn. destruct (lrun ttl s1 ops). reflexivity. Qed.

Lemma quiet_all_hits ops : forall ttl st v budget,
  refresh st <> 0 -> cached st = Some v ->
  (ttl = 0 \/ (0 <= budget /\ now st + budget <= refresh st + ttl)) ->
  quiet (ttl =? 0) budget ops ->
  lruns (fst (lrun ttl st ops)) = lruns st /\ all_hits v ops (snd (lrun ttl st ops)).
Proof.
  induction ops as [|o ops IH]; intros ttl st v budget Hr Hc Hb Hq; [cbn; auto|].
  rewrite lrun_cons_fst, lrun_cons_snd.
  destruct o as [id bl b| | |dt]; cbn in Hq; try contradiction.
  - assert (Hn : needs_refresh ttl st = false).
    { destruct (needs_refresh ttl st) eqn:E; auto. apply needs_refresh_iff in E.
      destruct E as [E|[E1 E2]]; [contradiction|]. destruct Hb as [Hb|Hb]; [contradiction|]. lia. }
    cbn [lstep]. rewrite Hn. cbn [fst snd all_hits]. rewrite Hc.
    destruct (IH ttl st v budget Hr Hc Hb Hq). auto.
  - destruct Hq as (Hd & Hu & Hq). cbn [lstep fst snd all_hits].
    destruct (IH ttl (mkL (refresh st) (cached st) (now st + dt) (linfl st) (lruns st)) v (budget - dt)) as [A B];
      cbn; auto.
    destruct (Z.eq_dec ttl 0) as [Ht|Ht]; [auto|right].
    destruct Hb as [Hb|Hb]; [contradiction|].
    destruct Hu as [Hu|Hu]; [apply Z.eqb_eq in Hu; contradiction|lia].
Qed.

(* T6b: dirty() forces exactly one recomputation: the next call runs the body, and as long as nothing
   dirties the constant again and the clock stays within ttl of the recomputation, every later call is
   served the new value without running the body *)
Lemma lazy_dirty_exactly_one ttl st id v ops :
  now st <> 0 -> 0 <= ttl -> quiet (ttl =? 0) ttl ops ->
  let st1 := fst (lstep ttl st LDirty) in
  let st2 := fst (lstep ttl st1 (LCall id false (BRet v))) in
  snd (lstep ttl st1 (LCall id false (BRet v))) = RMiss v /\
  lruns st2 = lruns st ++ [id] /\
  lruns (fst (lrun ttl st2 ops)) = lruns st2 /\ all_hits v ops (snd (lrun ttl st2 ops)).
Proof.
  intros Hn Ht Hq. cbn. repeat split.
  - apply (quiet_all_hits ops ttl (mkL (now st) (Some v) (now st) (linfl st) (lruns st ++ [id])) v ttl); cbn; auto.
    right. lia.
  - apply (quiet_all_hits ops ttl (mkL (now st) (Some v) (now st) (linfl st) (lruns st ++ [id])) v ttl); cbn; auto.
    right. lia.
Qed.

(* the same after a ttl expiry: an expired constant is recomputed by the next call *)
Lemma lazy_expiry_forces ttl st :
  ttl <> 0 -> refresh st < now st - ttl -> needs_refresh ttl st = true.
Proof. intros. apply needs_refresh_iff. auto. Qed.


(* ================================================================== T1 for acached_per_instance: same argument *)
Section InstKeyMap.
  Variables K1 K2 : Type.
  Variable eqb1 : K1 -> K1 -> bool.
  Variable eqb2 : K2 -> K2 -> bool.
  Hypothesis eqb1_spec : forall a b, eqb1 a b = true <-> a = b.
  Hypothesis eqb2_spec : forall a b, eqb2 a b = true <-> a = b.
  Variable f : K1 -> K2.
  Hypothesis f_inj : forall a b, f a = f b -> a = b.
  Variable kf1 : call -> option K1.
  Variable kf2 : call -> option K2.
  Variable valid : call -> bool.

  Let eqbf := eqb_f K1 K2 eqb1 eqb2 eqb1_spec eqb2_spec f f_inj.

  Definition fd (d : idict K1) : idict K2 := map (fun kv => (f (fst kv), snd kv)) d.
  Definition fp (l : list (Z * idict K1)) : list (Z * idict K2) := map (fun x => (fst x, fd (snd x))) l.
  Definition fpi (x : Z * Z * K1 * body) : Z * Z * K2 * body :=
    (fst (fst (fst x)), snd (fst (fst x)), f (snd (fst x)), snd x).

  Lemma fd_find d k : d_find K2 eqb2 (fd d) (f k) = d_find K1 eqb1 d k.
  Proof. induction d as [|[a v] d IH]; cbn; auto. rewrite eqbf. destruct (eqb1 a k); auto. Qed.
  Lemma fd_set d k v : d_set K2 eqb2 (fd d) (f k) v = fd (d_set K1 eqb1 d k v).
  Proof. induction d as [|[a w] d IH]; cbn; auto. rewrite eqbf. destruct (eqb1 a k); cbn; auto. f_equal; apply IH. Qed.
  Lemma fp_find l i : p_find K2 (fp l) i = option_map fd (p_find K1 l i).
  Proof. induction l as [|[a d] l IH]; cbn; auto. destruct (a =? i); auto. Qed.
  Lemma fp_set l i d : p_set K2 (fp l) i (fd d) = fp (p_set K1 l i d).
  Proof. induction l as [|[a d'] l IH]; cbn; auto. destruct (a =? i); cbn; auto. f_equal; apply IH. Qed.
  Lemma fp_remove l i : p_remove K2 (fp l) i = fp (p_remove K1 l i).
  Proof. induction l as [|[a d'] l IH]; cbn; auto. destruct (a =? i); cbn; auto. f_equal; apply IH. Qed.
  Lemma fp_ensure l i : p_ensure K2 (fp l) i = fp (p_ensure K1 l i).
  Proof.
    unfold p_ensure. rewrite fp_find. destruct (p_find K1 l i); cbn; auto. unfold fp. now rewrite map_app.
  Qed.
  Lemma fp_dict l i : p_dict K2 (fp l) i = fd (p_dict K1 l i).
  Proof. unfold p_dict. rewrite fp_find. destruct (p_find K1 l i); auto. Qed.
  Lemma fp_store l i k v : p_store K2 eqb2 (fp l) i (f k) v = fp (p_store K1 eqb1 l i k v).
  Proof.
    unfold p_store. rewrite fp_find. destruct (p_find K1 l i); cbn [option_map]; auto. now rewrite fd_set, fp_set.
  Qed.
  Lemma fp_total l : p_total K2 (fp l) = p_total K1 l.
  Proof. induction l as [|[a d] l IH]; cbn; auto. unfold fd at 1. rewrite map_length. f_equal. apply IH. Qed.
  Lemma fpi_find l id i :
    pinfl_find K2 (map fpi l) id i = option_map (fun kb => (f (fst kb), snd kb)) (pinfl_find K1 l id i).
  Proof. induction l as [|[[[a j] k] b] l IH]; cbn; auto. destruct ((a =? id) && (j =? i)); auto. Qed.
  Lemma fpi_remove l id i : pinfl_remove K2 (map fpi l) id i = map fpi (pinfl_remove K1 l id i).
  Proof. induction l as [|[[[a j] k] b] l IH]; cbn; auto. destruct ((a =? id) && (j =? i)); cbn; auto. f_equal; apply IH. Qed.
  Lemma fpi_busy l i : inst_busy K2 (map fpi l) i = inst_busy K1 l i.
  Proof. induction l as [|[[[a j] k] b] l IH]; cbn; auto. f_equal; apply IH. Qed.

  Definition prel (s1 : pstate K1) (s2 : pstate K2) : Prop :=
    pstore s2 = fp (pstore s1) /\ pinfl s2 = map fpi (pinfl s1) /\ pruns s2 = pruns s1.

  Definition pop_agrees (o : pop) : Prop :=
    match o with PCall _ _ c _ _ => kf2 c = option_map f (kf1 c) | _ => True end.

  Lemma prel_step s1 s2 o :
    prel s1 s2 -> pop_agrees o ->
    prel (fst (pstep K1 eqb1 kf1 valid s1 o)) (fst (pstep K2 eqb2 kf2 valid s2 o)) /\
    snd (pstep K1 eqb1 kf1 valid s1 o) = snd (pstep K2 eqb2 kf2 valid s2 o).
  Proof.
    intros (Hs & Hi & Hr) Ha. destruct o as [id i c bl b|id i|i]; cbn in *.
    - rewrite Ha, Hs, fp_ensure. destruct (kf1 c) as [k|]; cbn.
      + rewrite fp_dict, fd_find. destruct (d_find K1 eqb1 (p_dict K1 (p_ensure K1 (pstore s1) i) i) k); cbn.
        * split; [|reflexivity]. repeat split; cbn; auto.
        * destruct (negb (valid c)); cbn; [split; [repeat split; cbn; auto|reflexivity]|].
          destruct bl; cbn.
          -- split; [|reflexivity]. repeat split; cbn; auto; [|congruence]. rewrite Hi, map_app. reflexivity.
          -- destruct b; cbn; (split; [|reflexivity]); repeat split; cbn; auto; try congruence.
             apply fp_store.
      + split; [|reflexivity]. repeat split; cbn; auto.
    - rewrite Hi, fpi_find. destruct (pinfl_find K1 (pinfl s1) id i) as [[k [v|e]]|]; cbn.
      + split; [|reflexivity]. repeat split; cbn; auto. * rewrite Hs. apply fp_store. * apply fpi_remove.
      + split; [|reflexivity]. repeat split; cbn; auto. apply fpi_remove.
      + split; [|reflexivity]. repeat split; cbn; auto.
    - rewrite Hi, fpi_busy. destruct (inst_busy K1 (pinfl s1) i); cbn.
      + split; [|reflexivity]. repeat split; cbn; auto.
      + split; [|reflexivity]. repeat split; cbn; auto. rewrite Hs. apply fp_remove.
  Qed.

  Lemma prel_run ops : forall s1 s2,
    prel s1 s2 -> Forall pop_agrees ops ->
    snd (prun K1 eqb1 kf1 valid s1 ops) = snd (prun K2 eqb2 kf2 valid s2 ops) /\
    pruns (fst (prun K1 eqb1 kf1 valid s1 ops)) = pruns (fst (prun K2 eqb2 kf2 valid s2 ops)).
  Proof.
    induction ops as [|o ops IH]; intros s1 s2 Hrel Hall; cbn.
    - split; auto. now destruct Hrel as (_ & _ & ->).
    - inversion Hall as [|? ? Ho Hrest]; subst.
      destruct (prel_step s1 s2 o Hrel Ho) as [H1 H2].
      destruct (pstep K1 eqb1 kf1 valid s1 o) as [a1 r1].
      destruct (pstep K2 eqb2 kf2 valid s2 o) as [a2 r2]. cbn in *. subst.
      destruct (IH _ _ H1 Hrest) as [I1 I2].
      destruct (prun K1 eqb1 kf1 valid a1 ops) as [b1 rs1].
      destruct (prun K2 eqb2 kf2 valid a2 ops) as [b2 rs2]. cbn in *. subst.
      destruct H1 as (E & _). rewrite E. unfold fp at 1. rewrite map_length, fp_total. auto.
  Qed.

  Lemma inst_key_map_run ops :
    Forall pop_agrees ops ->
    snd (prun K1 eqb1 kf1 valid pinit ops) = snd (prun K2 eqb2 kf2 valid pinit ops) /\
    pruns (fst (prun K1 eqb1 kf1 valid pinit ops)) = pruns (fst (prun K2 eqb2 kf2 valid pinit ops)).
  Proof. apply prel_run. repeat split. Qed.
End InstKeyMap.

Definition all_bind_inst (s : sig) (ops : list pop) : Prop :=
  Forall (fun o => match o with PCall _ _ c _ _ => bindable s c = true | _ => True end) ops.

(* acached_per_instance returns what per-instance dictionaries keyed on the bound arguments return *)
Lemma inst_refines_reference s ops :
  all_bind_inst s ops ->
  snd (prun key key_eqb (inst_key s) (bindable s) pinit ops) =
  snd (prun bound bound_eqb (bind s) (bindable s) pinit ops) /\
  pruns (fst (prun key key_eqb (inst_key s) (bindable s) pinit ops)) =
  pruns (fst (prun bound bound_eqb (bind s) (bindable s) pinit ops)).
Proof.
  intros H.
  pose proof (inst_key_map_run bound key bound_eqb key_eqb bound_eqb_spec key_eqb_spec enc enc_injective
               (bind s) (inst_key s) (bindable s) ops) as L.
  destruct L as [L1 L2].
  - eapply Forall_impl; [|exact H]. intros [id i c bl b|id i|i]; cbn; auto.
    unfold bindable. destruct (bind s c) as [b0|] eqn:E; [|discriminate]. intros _.
    exact (default_key_normalises _ _ _ E).
  - split; congruence.
Qed.

(* ================================================================== corollaries at the concrete key types *)
Definition dkey (s : sig) : call -> option key := alru_key false KmDefault s.

(* for the repaired default key, "same key" means "same bound arguments": a value served to a call that
   binds was computed by an earlier call with exactly the same bound arguments *)
Lemma prov_same_bound s pre c k v :
  dkey s c = Some k -> bindable s c = true ->
  prov key (dkey s) (bindable s) pre k v ->
  exists id c' bl, In (ACall id c' bl (BRet v)) pre /\ bind s c' = bind s c /\ bind s c <> None.
Proof.
  intros Hk Hb (id & c' & bl & Hin & Hk' & Hv'). exists id, c', bl. split; auto.
  unfold bindable in *. destruct (bind s c) as [b|] eqn:E; [|discriminate].
  destruct (bind s c') as [b'|] eqn:E'; [|discriminate].
  unfold dkey in *. rewrite (default_key_normalises _ _ _ E) in Hk. rewrite (default_key_normalises _ _ _ E') in Hk'.
  assert (enc b = enc b') by congruence. apply enc_injective in H. subst. split; [reflexivity|discriminate].
Qed.

Fixpoint hits_same_bound (s : sig) (pre ops : list aop) (rs : list (res * Z)) : Prop :=
  match ops, rs with
  | o :: ops', rz :: rs' =>
    (forall v id c bl b, fst rz = RHit v -> o = ACall id c bl b -> bindable s c = true ->
       exists id' c' bl', In (ACall id' c' bl' (BRet v)) pre /\ bind s c' = bind s c) /\
    hits_same_bound s (pre ++ [o]) ops' rs'
  | _, _ => True
  end.

Lemma hits_same_bound_of s ops : forall pre rs,
  hits_justified key (dkey s) (bindable s) pre ops rs -> hits_same_bound s pre ops rs.
Proof.
  induction ops as [|o ops IH]; intros pre [|rz rs] H; cbn in *; auto.
  destruct H as [H1 H2]. split; auto.
  intros v id c bl b Hr Ho Hb. destruct (H1 v Hr) as (id0 & c0 & bl0 & b0 & k & Ho' & Hk & Hp).
  rewrite Ho in Ho'. inversion Ho'; subst.
  destruct (prov_same_bound _ _ _ _ _ Hk Hb Hp) as (i & c' & bl' & A & B & _). eauto.
Qed.

Lemma no_cross_talk_default s cap ops :
  hits_same_bound s [] ops (snd (arun key key_eqb (dkey s) (bindable s) cap ainit ops)).
Proof. apply hits_same_bound_of. apply no_cross_talk. exact key_eqb_spec. Qed.

(* ------------------------------------------------------------------ the hypotheses are satisfiable; the
   model reproduces the defect of the tree and the repaired construction removes it *)
Definition ex_ops : list aop :=
  [ACall 0 (mkCall [1] []) false (BRet 100); ACall 1 (mkCall [1] [(1, 3)]) false (BRet 101);
   ACall 2 (mkCall [1; 2] []) false (BRet 102); ACall 3 (mkCall [] [(0, 1)]) true (BRet 103); AFinish 3].

Example ex_all_bind : all_bind sig_ab2 ex_ops.
Proof. repeat constructor. Qed.

Example ex_repaired :
  run_case (CAlru KmDefault 128 sig_ab2 ex_ops) =
  OAlru [(RMiss 100, 1); (RMiss 101, 2); (RHit 100, 2); (RHit 100, 2); (RNoop, 2)] [0; 1].
Proof. vm_compute. reflexivity. Qed.

Example ex_tree_cross_talk :
  run_case_src (CAlru KmDefault 128 sig_ab2 ex_ops) =
  OAlru [(RMiss 100, 1); (RHit 100, 1); (RMiss 102, 2); (RPending, 2); (RDone 103, 3)] [0; 2; 3].
Proof. vm_compute. reflexivity. Qed.

Example ex_quiet : quiet (10 =? 0) 10 [LCall 1 false (BRet 5); LTick 4; LCall 2 true (BRaise 7); LTick 6; LCall 3 false (BRet 9)].
Proof. cbn. repeat split; auto; lia. Qed.

Example ex_idle : inst_busy key (pinfl (fst (prun key key_eqb (inst_key sig_ab2) (bindable sig_ab2) pinit
                     [PCall 0 1 (mkCall [1] []) true (BRet 100); PFinish 0 1]))) 1 = false.
Proof. vm_compute. reflexivity. Qed.

(* ------------------------------------------------------------------ conjunctions used by props/C13.v *)
Lemma blocking_miss_then_finish : forall K keqb, (forall a b : K, keqb a b = true <-> a = b) ->
  forall kf valid cap (st : astate K),
  (forall id c b k, kf c = Some k -> lru_find K keqb (store st) k = None -> valid c = true ->
     let st' := fst (astep K keqb kf valid cap st (ACall id c true b)) in
     snd (astep K keqb kf valid cap st (ACall id c true b)) = RPending /\
     runs st' = runs st ++ [id] /\ infl st' = infl st ++ [(id, k, b)] /\ store st' = store st) /\
  (forall id k b, NoDup (map (ekey K) (store st)) -> infl_find K (infl st) id = Some (k, b) ->
     let st' := fst (astep K keqb kf valid cap st (AFinish id)) in
     let r := snd (astep K keqb kf valid cap st (AFinish id)) in
     runs st' = runs st /\
     match b with
     | BRet v => r = RDone v /\ lru_find K keqb (store st') k = Some v
     | BRaise e => r = RRaise e /\ store st' = store st
     end).
Proof.
  exact (fun K keqb H kf valid cap st =>
    conj (call_miss_blocking K keqb kf valid cap st) (fun id k b => finish_spec K keqb H kf valid cap st id k b)).
Qed.

Lemma errors_not_cached_both : forall K keqb kf valid cap (st : astate K),
  (forall id c bl e k, kf c = Some k -> lru_find K keqb (store st) k = None ->
     store (fst (astep K keqb kf valid cap st (ACall id c bl (BRaise e)))) = store st) /\
  (forall id k e, infl_find K (infl st) id = Some (k, BRaise e) ->
     store (fst (astep K keqb kf valid cap st (AFinish id))) = store st /\
     snd (astep K keqb kf valid cap st (AFinish id)) = RRaise e).
Proof.
  exact (fun K keqb kf valid cap st =>
    conj (errors_not_cached K keqb kf valid cap st) (errors_not_cached_finish K keqb kf valid cap st)).
Qed.

Lemma lazy_recompute_iff_full : forall ttl st id bl b,
  let st' := fst (lstep ttl st (LCall id bl b)) in
  let r := snd (lstep ttl st (LCall id bl b)) in
  (needs_refresh ttl st = true <-> refresh st = 0 \/ (ttl <> 0 /\ refresh st < now st - ttl)) /\
  (needs_refresh ttl st = true ->
     lruns st' = lruns st ++ [id] /\
     match bl, b with
     | true, _ => r = RPending /\ refresh st' = refresh st /\ cached st' = cached st
     | false, BRet v => r = RMiss v /\ refresh st' = now st /\ cached st' = Some v
     | false, BRaise e => r = RRaise e /\ refresh st' = refresh st /\ cached st' = cached st
     end) /\
  (needs_refresh ttl st = false ->
     st' = st /\ r = match cached st with Some v => RHit v | None => RNone end).
Proof.
  exact (fun ttl st id bl b => conj (needs_refresh_iff ttl st) (lazy_recompute_iff ttl st id bl b)).
Qed.

(* ================================================================== families of decorated functions *)
Lemma nth_error_upd_same {A} (l : list A) : forall f x a, nth_error l f = Some a -> nth_error (upd l f x) f = Some x.
Proof. induction l as [|y l IH]; intros [|f] x a H; cbn in *; try discriminate; eauto. Qed.

Lemma nth_error_upd_other {A} (l : list A) : forall f g x, f <> g -> nth_error (upd l f x) g = nth_error l g.
Proof.
  induction l as [|y l IH]; intros [|f] [|g] x H; cbn; auto; try congruence.
Qed.

Lemma nth_map_nth_error {A} (h : A -> Z) (l : list A) : forall f a, nth_error l f = Some a -> nth f (map h l) 0 = h a.
Proof. induction l as [|y l IH]; intros [|f] a H; cbn in *; try discriminate; [congruence | eauto]. Qed.

Lemma nth_error_repeat {A} (x : A) n : forall f, (f < n)%nat -> nth_error (repeat x n) f = Some x.
Proof. induction n; intros [|f] H; cbn; try lia; auto. apply IHn. lia. Qed.

Definition proj {O} (f : nat) (ops : list (nat * O)) : list O :=
  map snd (filter (fun fo => (fst fo =? f)%nat) ops).

Section FamilyProofs.
  Variable K : Type.
  Variable keqb : K -> K -> bool.
  Variable kfs : nat -> call -> option K.
  Variable valids : nat -> call -> bool.
  Variable caps : nat -> nat.

  Notation mstep := (mstep K keqb kfs valids caps).
  Notation mrun := (mrun K keqb kfs valids caps).
  Notation astep_of f := (astep K keqb (kfs f) (valids f) (caps f)).
  Notation arun_of f := (arun K keqb (kfs f) (valids f) (caps f)).

  (* an operation on function f leaves the cache machine of every other function untouched *)
  Lemma mstep_other st f o g : g <> f -> nth_error (mfns (fst (mstep st (f, o)))) g = nth_error (mfns st) g.
  Proof.
    intros H. unfold Cache.mstep. cbn [fst snd]. destruct (nth_error (mfns st) f) as [a|]; auto.
    destruct (astep_of f a o) as [a' r]. cbn. apply nth_error_upd_other. congruence.
  Qed.

  (* ... and on f's own machine it is exactly the single-function wrapper step *)
  Lemma mstep_own st f o a : nth_error (mfns st) f = Some a ->
    nth_error (mfns (fst (mstep st (f, o)))) f = Some (fst (astep_of f a o)) /\
    snd (mstep st (f, o)) = snd (astep_of f a o).
  Proof.
    intros H. unfold Cache.mstep. cbn [fst snd]. rewrite H.
    destruct (astep_of f a o) as [a' r]. cbn. split; auto. eapply nth_error_upd_same; eauto.
  Qed.

  (* what function f observes in an interleaved history: the results of its own operations and the size of
     its own cache after each of them *)
  Fixpoint obs_on (f : nat) (ops : list (nat * aop)) (rs : list (res * list Z)) : list (res * Z) :=
    match ops, rs with
    | fo :: ops', (r, sz) :: rs' =>
      if (fst fo =? f)%nat then (r, nth f sz 0) :: obs_on f ops' rs' else obs_on f ops' rs'
    | _, _ => []
    end.

  Lemma family_projection_gen ops : forall st f a, nth_error (mfns st) f = Some a ->
    nth_error (mfns (fst (mrun st ops))) f = Some (fst (arun_of f a (proj f ops))) /\
    obs_on f ops (snd (mrun st ops)) = snd (arun_of f a (proj f ops)).
  Proof.
    induction ops as [|[g o] ops IH]; intros st f a H.
    - cbn. auto.
    - cbn [Cache.mrun].
      destruct (mstep st (g, o)) as [s1 r] eqn:E1.
      destruct (mrun s1 ops) as [s2 rs] eqn:E2.
      unfold proj. cbn [filter fst snd obs_on].
      destruct (g =? f)%nat eqn:Egf.
      + apply Nat.eqb_eq in Egf. subst g.
        destruct (mstep_own st f o a H) as [Hc Hr]. rewrite E1 in Hc, Hr. cbn [fst snd] in Hc, Hr.
        cbn [map snd Cache.arun].
        destruct (astep_of f a o) as [a1 r1] eqn:Ea. cbn [fst snd] in Hc, Hr. subst r.
        destruct (IH s1 f a1 Hc) as [IH1 IH2]. rewrite E2 in IH1, IH2. cbn [fst snd] in IH1, IH2.
        fold (proj f ops).
        destruct (arun_of f a1 (proj f ops)) as [a2 rs2] eqn:Er. cbn [fst snd] in *.
        split; auto. f_equal; auto. f_equal.
        unfold msizes. apply (nth_map_nth_error (fun a => Z.of_nat (length (store a)))). exact Hc.
      + apply Nat.eqb_neq in Egf.
        assert (Hc : nth_error (mfns s1) f = Some a).
        { pose proof (mstep_other st g o f) as Ho. rewrite E1 in Ho. cbn in Ho. rewrite Ho; auto. }
        destruct (IH s1 f a Hc) as [IH1 IH2]. rewrite E2 in IH1, IH2. cbn [fst snd] in IH1, IH2.
        fold (proj f ops). cbn [fst snd]. auto.
  Qed.

  (* T7: in every interleaved history of a family of n decorated functions, every function observes exactly
     what it observes when the operations of all other functions are deleted from the history *)
  Lemma family_projection n ops f : (f < n)%nat ->
    nth_error (mfns (fst (mrun (minit n) ops))) f = Some (fst (arun_of f ainit (proj f ops))) /\
    obs_on f ops (snd (mrun (minit n) ops)) = snd (arun_of f ainit (proj f ops)).
  Proof. intros H. apply family_projection_gen. cbn. apply nth_error_repeat; auto. Qed.

  (* the body-run log: the entries tagged f are exactly the body runs of f's own cache machine, in order:
     a miss of function f runs the body of function f *)
  Definition log_of (f : nat) (l : list (Z * Z)) : list Z :=
    map fst (filter (fun p => snd p =? Z.of_nat f) l).

  Lemma log_of_app f a b : log_of f (a ++ b) = log_of f a ++ log_of f b.
  Proof. unfold log_of. now rewrite filter_app, map_app. Qed.

  Lemma log_of_tag_same f b a : log_of f (tag_runs f b a) = skipn (length b) a.
  Proof.
    unfold log_of, tag_runs. induction (skipn (length b) a) as [|x l IH]; cbn; auto.
    rewrite Z.eqb_refl. cbn. now rewrite IH.
  Qed.

  Lemma log_of_tag_other f g b a : g <> f -> log_of f (tag_runs g b a) = [].
  Proof.
    intros H. unfold log_of, tag_runs. induction (skipn (length b) a) as [|x l IH]; cbn; auto.
    destruct (Z.of_nat g =? Z.of_nat f) eqn:E; auto. apply Z.eqb_eq in E. lia.
  Qed.

  Lemma astep_runs_prefix kf valid cap (a : astate K) o :
    runs (fst (astep K keqb kf valid cap a o)) = runs a ++ skipn (length (runs a)) (runs (fst (astep K keqb kf valid cap a o))).
  Proof.
    assert (P : forall (l d : list Z), l ++ d = l ++ skipn (length l) (l ++ d)).
    { intros l d. rewrite skipn_app, Nat.sub_diag, skipn_all. reflexivity. }
    assert (Q : forall (l : list Z), l = l ++ skipn (length l) l).
    { intros l. rewrite skipn_all, app_nil_r. reflexivity. }
    unfold astep. destruct o as [id c bl b|id].
    - destruct (kf c) as [k|]; cbn; auto.
      destruct (lru_getitem K keqb (store a) k (tick a)) as [[v l']|]; cbn; auto.
      destruct (negb (valid c)); cbn; auto.
      destruct bl; cbn; auto. destruct b; cbn; auto.
    - destruct (infl_find K (infl a) id) as [[k [v|e]]|]; cbn; auto.
  Qed.

  Definition log_inv (st : mstate K) : Prop :=
    forall f a, nth_error (mfns st) f = Some a -> log_of f (mlog st) = runs a.

  Lemma log_inv_step st fo : log_inv st -> log_inv (fst (mstep st fo)).
  Proof.
    destruct fo as [g o]. intros I f a' H. unfold Cache.mstep in *. cbn [fst snd] in *.
    destruct (nth_error (mfns st) g) as [a|] eqn:Eg; [|apply I; exact H].
    pose proof (astep_runs_prefix (kfs g) (valids g) (caps g) a o) as Pre.
    destruct (astep_of g a o) as [a1 r]. cbn [fst snd mfns mlog] in *.
    rewrite log_of_app. destruct (Nat.eq_dec g f) as [->|N].
    - rewrite (nth_error_upd_same _ _ _ _ Eg) in H. inversion H; subst a'.
      rewrite log_of_tag_same, (I f a Eg). symmetry. exact Pre.
    - rewrite nth_error_upd_other in H by exact N.
      rewrite log_of_tag_other by exact N. rewrite app_nil_r. apply I; exact H.
  Qed.

  Lemma log_inv_run ops : forall st, log_inv st -> log_inv (fst (mrun st ops)).
  Proof.
    induction ops as [|o ops IH]; intros st I; cbn; auto.
    pose proof (log_inv_step st o I) as I1.
    destruct (mstep st o) as [s1 r]. specialize (IH s1 I1).
    destruct (mrun s1 ops) as [s2 rs]. exact IH.
  Qed.

  Lemma family_body_runs_own n ops f : (f < n)%nat ->
    log_of f (mlog (fst (mrun (minit n) ops))) = runs (fst (arun_of f ainit (proj f ops))).
  Proof.
    intros H. destruct (family_projection n ops f H) as [Hc _].
    apply (log_inv_run ops (minit n)); auto.
    intros g a Hg. cbn in *. destruct (Nat.lt_ge_cases g n) as [L|L].
    - rewrite nth_error_repeat in Hg by exact L. inversion Hg. reflexivity.
    - assert (nth_error (repeat (@ainit K) n) g = None) by (apply nth_error_None; rewrite repeat_length; lia).
      congruence.
  Qed.

  (* T2 lifted to families: whatever the other functions do in between, every value function f is served from its
     cache was computed by the body of an earlier call of f with the same key *)
  Hypothesis keqb_spec : forall a b : K, keqb a b = true <-> a = b.
  Lemma family_no_cross_talk n ops f : (f < n)%nat ->
    hits_justified K (kfs f) (valids f) [] (proj f ops) (obs_on f ops (snd (mrun (minit n) ops))).
  Proof.
    intros H. destruct (family_projection n ops f H) as [_ Ho]. rewrite Ho.
    apply no_cross_talk. exact keqb_spec.
  Qed.
End FamilyProofs.

(* ---- acached_per_instance on several methods, alazy_constant on several functions *)
Lemma mpstep_other K keqb kfs valids (st : mpstate K) f o g :
  (forall i, o <> PDrop i) -> g <> f ->
  nth_error (mpfns (fst (mpstep K keqb kfs valids st (f, o)))) g = nth_error (mpfns st) g.
Proof.
  intros Hd H. unfold mpstep. cbn [fst snd].
  destruct o as [id i c bl b|id i|i]; try (exfalso; eapply Hd; reflexivity);
    (destruct (nth_error (mpfns st) f) as [p|]; auto;
     match goal with |- context [pstep ?a ?b ?c ?d ?e ?o] => destruct (pstep a b c d e o) as [p' r] end;
     cbn; apply nth_error_upd_other; congruence).
Qed.

(* Drop of an idle instance removes it from the cache of every method; a busy one is kept everywhere *)
Lemma mpstep_drop K keqb kfs valids (st : mpstate K) f i :
  let st' := fst (mpstep K keqb kfs valids st (f, PDrop i)) in
  (existsb (fun p => inst_busy K (pinfl p) i) (mpfns st) = true -> st' = st) /\
  (existsb (fun p => inst_busy K (pinfl p) i) (mpfns st) = false ->
   forall g p, nth_error (mpfns st) g = Some p ->
     nth_error (mpfns st') g = Some (mkP (p_remove K (pstore p) i) (pinfl p) (pruns p))).
Proof.
  unfold mpstep. cbn [fst snd].
  destruct (existsb (fun p => inst_busy K (pinfl p) i) (mpfns st)); cbn; split; intros; try discriminate; auto.
  exact (map_nth_error (fun p => mkP (p_remove K (pstore p) i) (pinfl p) (pruns p)) g (mpfns st) H0).
Qed.

Lemma mlstep_other ttls (st : mlstate) f o g :
  (forall dt, o <> LTick dt) -> g <> f ->
  nth_error (mlfns (fst (mlstep ttls st (f, o)))) g = nth_error (mlfns st) g.
Proof.
  intros Hd H. unfold mlstep. cbn [fst snd].
  destruct o as [id bl b|id| |dt]; try (exfalso; eapply Hd; reflexivity);
    (destruct (nth_error (mlfns st) f) as [l|]; auto;
     match goal with |- context [lstep ?a ?b ?o] => destruct (lstep a b o) as [l' r] end;
     cbn; apply nth_error_upd_other; congruence).
Qed.

(* in particular dirty() of one lazy constant does not force a recomputation of another one *)
Lemma mlstep_dirty_other ttls st f g l :
  g <> f -> nth_error (mlfns st) g = Some l ->
  nth_error (mlfns (fst (mlstep ttls st (f, LDirty)))) g = Some l.
Proof. intros H Hl. rewrite mlstep_other; auto. intros dt; discriminate. Qed.

(* ---- the decorator object only carries configuration: sharing one is unobservable *)
Fixpoint own_decos {A} (k : nat) (fns : list (nat * A)) : list (nat * A) :=
  match fns with [] => [] | (_, a) :: fns' => (k, a) :: own_decos (S k) fns' end.

Lemma resolve_own {D A} (dflt : D) decos (fns : list (nat * A)) : forall pre,
  resolve dflt (pre ++ map (fun fa => nth (fst fa) decos dflt) fns) (own_decos (length pre) fns) = resolve dflt decos fns.
Proof.
  unfold resolve. induction fns as [|[d a] fns IH]; intros pre; cbn; auto.
  f_equal.
  - rewrite app_nth2, Nat.sub_diag by lia. reflexivity.
  - specialize (IH (pre ++ [nth d decos dflt])). rewrite app_length in IH. cbn in IH.
    rewrite Nat.add_1_r, <- app_assoc in IH. exact IH.
Qed.

Lemma shared_decorator_unobservable src decos fns ops :
  run_with src (CAlruM decos fns ops) =
  run_with src (CAlruM (map (fun fa => nth (fst fa) decos adflt) fns) (own_decos 0 fns) ops).
Proof.
  unfold run_with. rewrite <- (resolve_own adflt decos fns []). reflexivity.
Qed.

(* `memo = alru_cache(maxsize=2)` on f and g, both `def (a, b=1)`: f(1), f(1, b=1), g(1), g(a=1) *)
Definition ex_family : ccase :=
  let s := mkSig [(0, None); (1, Some 1)] [] false in
  CAlruM [(KmDefault, 2)] [(0%nat, s); (0%nat, s)]
    [(0%nat, ACall 0 (mkCall [1] []) false (BRet 100)); (0%nat, ACall 1 (mkCall [1] [(1, 1)]) false (BRet 101));
     (1%nat, ACall 2 (mkCall [1] []) false (BRet 102)); (1%nat, ACall 3 (mkCall [] [(0, 1)]) false (BRet 103))].
Example ex_family_runs :
  run_case ex_family = OAlruM [(RMiss 100, [1; 0]); (RHit 100, [1; 0]); (RMiss 102, [1; 1]); (RHit 102, [1; 1])]
                              [(0, 0); (2, 1)].
Proof. vm_compute. reflexivity. Qed.

(* ---- lazy constants of a family: each observes its own operations plus the clock *)
Definition lkeep (f : nat) (fo : nat * lop) : bool :=
  match snd fo with LTick _ => true | _ => (fst fo =? f)%nat end.
Definition lproj (f : nat) (ops : list (nat * lop)) : list lop := map snd (filter (lkeep f) ops).
Fixpoint lobs_on (f : nat) (ops : list (nat * lop)) (rs : list res) : list res :=
  match ops, rs with
  | fo :: ops', r :: rs' => if lkeep f fo then r :: lobs_on f ops' rs' else lobs_on f ops' rs'
  | _, _ => []
  end.

Lemma mlstep_own ttls st f o l : (forall dt, o <> LTick dt) -> nth_error (mlfns st) f = Some l ->
  nth_error (mlfns (fst (mlstep ttls st (f, o)))) f = Some (fst (lstep (ttls f) l o)) /\
  snd (mlstep ttls st (f, o)) = snd (lstep (ttls f) l o).
Proof.
  intros Hd H. unfold mlstep. cbn [fst snd].
  destruct o as [id bl b|id| |dt]; try (exfalso; eapply Hd; reflexivity);
    (rewrite H; match goal with |- context [lstep ?a ?b ?o] => destruct (lstep a b o) as [l' r] end;
     cbn; split; auto; eapply nth_error_upd_same; eauto).
Qed.

Lemma mlstep_tick ttls st g dt f l : nth_error (mlfns st) f = Some l ->
  nth_error (mlfns (fst (mlstep ttls st (g, LTick dt)))) f = Some (fst (lstep (ttls f) l (LTick dt))) /\
  snd (mlstep ttls st (g, LTick dt)) = snd (lstep (ttls f) l (LTick dt)).
Proof.
  intros H. unfold mlstep. cbn [fst snd mlfns]. split; auto.
  exact (map_nth_error (fun l => fst (lstep 0 l (LTick dt))) f (mlfns st) H).
Qed.

Lemma lazy_family_projection_gen ttls ops : forall st f l, nth_error (mlfns st) f = Some l ->
  nth_error (mlfns (fst (mlrun ttls st ops))) f = Some (fst (lrun (ttls f) l (lproj f ops))) /\
  lobs_on f ops (snd (mlrun ttls st ops)) = snd (lrun (ttls f) l (lproj f ops)).
Proof.
  induction ops as [|[g o] ops IH]; intros st f l H.
  - cbn. auto.
  - cbn [mlrun].
    destruct (mlstep ttls st (g, o)) as [s1 r] eqn:E1.
    destruct (mlrun ttls s1 ops) as [s2 rs] eqn:E2.
    unfold lproj. cbn [filter lobs_on].
    assert (Step : lkeep f (g, o) = true ->
                   nth_error (mlfns s1) f = Some (fst (lstep (ttls f) l o)) /\ r = snd (lstep (ttls f) l o)).
    { intros Hk. unfold lkeep in Hk. cbn [fst snd] in Hk.
      assert (X : nth_error (mlfns (fst (mlstep ttls st (g, o)))) f = Some (fst (lstep (ttls f) l o)) /\
                  snd (mlstep ttls st (g, o)) = snd (lstep (ttls f) l o)).
      { destruct o as [id bl b|id| |dt];
          try (apply Nat.eqb_eq in Hk; subst g; apply mlstep_own; [intros dt'; discriminate | exact H]).
        apply mlstep_tick; exact H. }
      rewrite E1 in X. exact X. }
    destruct (lkeep f (g, o)) eqn:Ek.
    + destruct (Step eq_refl) as [Hc Hr]. subst r.
      cbn [map snd lrun].
      destruct (lstep (ttls f) l o) as [l1 r1] eqn:El. cbn [fst snd] in *.
      destruct (IH s1 f l1 Hc) as [IH1 IH2]. rewrite E2 in IH1, IH2. cbn [fst snd] in IH1, IH2.
      fold (lproj f ops). destruct (lrun (ttls f) l1 (lproj f ops)) as [l2 rs2]. cbn [fst snd] in *.
      split; auto. f_equal; auto.
    + assert (Hc : nth_error (mlfns s1) f = Some l).
      { unfold lkeep in Ek. cbn [fst snd] in Ek.
        pose proof (mlstep_other ttls st g o f) as Ho. rewrite E1 in Ho. cbn [fst] in Ho.
        rewrite Ho; auto.
        - intros dt ->. discriminate.
        - intros ->. destruct o; try discriminate; rewrite Nat.eqb_refl in Ek; discriminate. }
      destruct (IH s1 f l Hc) as [IH1 IH2]. rewrite E2 in IH1, IH2. cbn [fst snd] in IH1, IH2.
      fold (lproj f ops). cbn [fst snd]. auto.
Qed.

Lemma lazy_family_projection ttls n now0 ops f : (f < n)%nat ->
  lobs_on f ops (snd (mlrun ttls (mlinit n now0) ops)) = snd (lrun (ttls f) (linit now0) (lproj f ops)).
Proof. intros H. apply lazy_family_projection_gen. cbn. apply nth_error_repeat; auto. Qed.

(* ================================================================== values are opaque payloads *)
Section Relabel.
  Variable rho : Z -> Z.                 (* any relabelling of the values bodies return *)

  Definition rl_body (b : body) : body := match b with BRet v => BRet (rho v) | BRaise e => BRaise e end.
  Definition rl_res (r : res) : res :=
    match r with
    | RHit v => RHit (rho v) | RMiss v => RMiss (rho v) | RDone v => RDone (rho v)
    | r => r
    end.

  Section Keyed.
    Variable K : Type.
    Variable keqb : K -> K -> bool.
    Variable kf : call -> option K.
    Variable valid : call -> bool.

    Definition rl_entry (e : entry K) : entry K := (ekey K e, rho (eval K e), estamp K e).
    Definition rl_infl (x : Z * K * body) : Z * K * body := (fst (fst x), snd (fst x), rl_body (snd x)).
    Definition rl_aop (o : aop) : aop :=
      match o with ACall id c bl b => ACall id c bl (rl_body b) | AFinish id => AFinish id end.
    Definition rl_astate (st : astate K) : astate K :=
      mkA (map rl_entry (store st)) (map rl_infl (infl st)) (tick st) (runs st).

    Lemma rl_find l k : lru_find K keqb (map rl_entry l) k = option_map rho (lru_find K keqb l k).
    Proof.
      induction l as [|[[k' v] t] l IH]; cbn; auto.
      unfold ekey, eval; cbn. destruct (keqb k' k); auto.
    Qed.
    Lemma rl_remove l k : lru_remove K keqb (map rl_entry l) k = map rl_entry (lru_remove K keqb l k).
    Proof.
      induction l as [|[[k' v] t] l IH]; cbn; auto.
      unfold ekey; cbn. destruct (keqb k' k); cbn; auto. now rewrite IH.
    Qed.
    Lemma rl_touch l k v t :
      lru_touch K keqb (map rl_entry l) k (rho v) t = map rl_entry (lru_touch K keqb l k v t).
    Proof. unfold lru_touch. now rewrite rl_remove, map_app. Qed.
    Lemma rl_setitem cap l k v t :
      lru_setitem K keqb cap (map rl_entry l) k (rho v) t = map rl_entry (lru_setitem K keqb cap l k v t).
    Proof.
      unfold lru_setitem. rewrite rl_find. destruct (lru_find K keqb l k); cbn [option_map].
      - apply rl_touch.
      - rewrite map_length, map_app. destruct (length l =? cap)%nat; auto.
        destruct l; auto.
    Qed.
    Lemma rl_infl_find l id :
      infl_find K (map rl_infl l) id = option_map (fun kb => (fst kb, rl_body (snd kb))) (infl_find K l id).
    Proof. induction l as [|[[i k] b] l IH]; cbn; auto. destruct (i =? id); auto. Qed.
    Lemma rl_infl_remove l id : infl_remove K (map rl_infl l) id = map rl_infl (infl_remove K l id).
    Proof. induction l as [|[[i k] b] l IH]; cbn; auto. destruct (i =? id); cbn; auto. now rewrite IH. Qed.

    (* relabelling the values commutes with every step of the alru_cache wrapper: whether a call is a hit or a
       miss, what is evicted, which bodies run never depends on the value a body returned *)
    Lemma astep_relabel cap st o :
      astep K keqb kf valid cap (rl_astate st) (rl_aop o) =
      (rl_astate (fst (astep K keqb kf valid cap st o)), rl_res (snd (astep K keqb kf valid cap st o))).
    Proof.
      destruct st as [l inf t rs]. destruct o as [id c bl b|id]; cbn [astep rl_aop rl_astate store infl tick runs].
      - destruct (kf c) as [k|]; [|reflexivity].
        unfold lru_getitem. rewrite rl_find. destruct (lru_find K keqb l k) as [v|] eqn:Ef; cbn [option_map].
        + cbn. unfold rl_astate. cbn. now rewrite rl_touch.
        + destruct (negb (valid c)); [reflexivity|].
          destruct bl.
          * cbn. unfold rl_astate. cbn. now rewrite map_app.
          * destruct b as [v|e]; cbn; unfold rl_astate; cbn; auto. now rewrite rl_setitem.
      - rewrite rl_infl_find. destruct (infl_find K inf id) as [[k [v|e]]|]; cbn; unfold rl_astate; cbn; auto.
        + now rewrite rl_setitem, rl_infl_remove.
        + now rewrite rl_infl_remove.
    Qed.

    Definition rl_obs (x : res * Z) : res * Z := (rl_res (fst x), snd x).

    Lemma arun_relabel cap ops : forall st,
      arun K keqb kf valid cap (rl_astate st) (map rl_aop ops) =
      (rl_astate (fst (arun K keqb kf valid cap st ops)), map rl_obs (snd (arun K keqb kf valid cap st ops))).
    Proof.
      induction ops as [|o ops IH]; intros st; cbn [map arun]; auto.
      rewrite astep_relabel. destruct (astep K keqb kf valid cap st o) as [s1 r]. cbn [fst snd].
      rewrite IH. destruct (arun K keqb kf valid cap s1 ops) as [s2 rs]. cbn [fst snd map].
      unfold rl_obs at 2. cbn [fst snd]. unfold rl_astate at 2. cbn [store]. now rewrite map_length.
    Qed.

    (* for every history: the same history with relabelled body results yields the relabelled results, the same
       cache sizes and the same body-run log *)
    Lemma values_opaque cap ops :
      snd (arun K keqb kf valid cap ainit (map rl_aop ops)) = map rl_obs (snd (arun K keqb kf valid cap ainit ops)) /\
      runs (fst (arun K keqb kf valid cap ainit (map rl_aop ops))) = runs (fst (arun K keqb kf valid cap ainit ops)).
    Proof.
      change (@ainit K) with (rl_astate ainit). rewrite arun_relabel. cbn. auto.
    Qed.
  End Keyed.

  (* alazy_constant *)
  Definition rl_lop (o : lop) : lop := match o with LCall id bl b => LCall id bl (rl_body b) | o => o end.
  Definition rl_lstate (st : lstate) : lstate :=
    mkL (refresh st) (option_map rho (cached st)) (now st) (map (fun x => (fst x, rl_body (snd x))) (linfl st)) (lruns st).

  Lemma rl_linfl_find l id :
    linfl_find (map (fun x => (fst x, rl_body (snd x))) l) id = option_map rl_body (linfl_find l id).
  Proof. induction l as [|[i b] l IH]; cbn; auto. destruct (i =? id); auto. Qed.
  Lemma rl_linfl_remove l id :
    linfl_remove (map (fun x => (fst x, rl_body (snd x))) l) id = map (fun x => (fst x, rl_body (snd x))) (linfl_remove l id).
  Proof. induction l as [|[i b] l IH]; cbn; auto. destruct (i =? id); cbn; auto. now rewrite IH. Qed.

  Lemma lstep_relabel ttl st o :
    lstep ttl (rl_lstate st) (rl_lop o) = (rl_lstate (fst (lstep ttl st o)), rl_res (snd (lstep ttl st o))).
  Proof.
    destruct st as [rf ca nw inf rs]. destruct o as [id bl b|id| |dt]; cbn [lstep rl_lop].
    - unfold needs_refresh. cbn [refresh now rl_lstate].
      destruct ((rf =? 0) || negb (ttl =? 0) && (rf <? nw - ttl)).
      + destruct bl; cbn; unfold rl_lstate; cbn; [now rewrite map_app|].
        destruct b; cbn; auto.
      + cbn. destruct ca; reflexivity.
    - cbn [rl_lstate linfl]. rewrite rl_linfl_find. destruct (linfl_find inf id) as [[v|e]|]; cbn; unfold rl_lstate; cbn; auto;
        now rewrite rl_linfl_remove.
    - reflexivity.
    - reflexivity.
  Qed.
End Relabel.

(* ---- acached_per_instance *)
Section RelabelInst.
  Variable rho : Z -> Z.
  Variable K : Type.
  Variable keqb : K -> K -> bool.
  Variable kf : call -> option K.
  Variable valid : call -> bool.

  Definition rl_dict (d : idict K) : idict K := map (fun kv => (fst kv, rho (snd kv))) d.
  Definition rl_pstore (l : list (Z * idict K)) : list (Z * idict K) := map (fun x => (fst x, rl_dict (snd x))) l.
  Definition rl_pinfl (x : Z * Z * K * body) : Z * Z * K * body :=
    (fst (fst (fst x)), snd (fst (fst x)), snd (fst x), rl_body rho (snd x)).
  Definition rl_pop (o : pop) : pop :=
    match o with PCall id i c bl b => PCall id i c bl (rl_body rho b) | o => o end.
  Definition rl_pstate (st : pstate K) : pstate K :=
    mkP (rl_pstore (pstore st)) (map rl_pinfl (pinfl st)) (pruns st).

  Lemma rl_d_find d k : d_find K keqb (rl_dict d) k = option_map rho (d_find K keqb d k).
  Proof. induction d as [|[k' v] d IH]; cbn; auto. destruct (keqb k' k); auto. Qed.
  Lemma rl_d_set d k v : d_set K keqb (rl_dict d) k (rho v) = rl_dict (d_set K keqb d k v).
  Proof. unfold rl_dict. induction d as [|[k' v'] d IH]; cbn; auto. destruct (keqb k' k); cbn; auto. now rewrite IH. Qed.
  Lemma rl_p_find l i : p_find K (rl_pstore l) i = option_map rl_dict (p_find K l i).
  Proof. induction l as [|[j d] l IH]; cbn; auto. destruct (j =? i); auto. Qed.
  Lemma rl_p_set l i d : p_set K (rl_pstore l) i (rl_dict d) = rl_pstore (p_set K l i d).
  Proof. unfold rl_pstore. induction l as [|[j d'] l IH]; cbn; auto. destruct (j =? i); cbn; auto. now rewrite IH. Qed.
  Lemma rl_p_remove l i : p_remove K (rl_pstore l) i = rl_pstore (p_remove K l i).
  Proof. unfold rl_pstore. induction l as [|[j d'] l IH]; cbn; auto. destruct (j =? i); cbn; auto. now rewrite IH. Qed.
  Lemma rl_p_ensure l i : p_ensure K (rl_pstore l) i = rl_pstore (p_ensure K l i).
  Proof.
    unfold p_ensure. rewrite rl_p_find. destruct (p_find K l i); cbn; auto.
    unfold rl_pstore. now rewrite map_app.
  Qed.
  Lemma rl_p_dict l i : p_dict K (rl_pstore l) i = rl_dict (p_dict K l i).
  Proof. unfold p_dict. rewrite rl_p_find. destruct (p_find K l i); auto. Qed.
  Lemma rl_p_store l i k v : p_store K keqb (rl_pstore l) i k (rho v) = rl_pstore (p_store K keqb l i k v).
  Proof.
    unfold p_store. rewrite rl_p_find. destruct (p_find K l i); cbn; auto.
    now rewrite rl_d_set, rl_p_set.
  Qed.
  Lemma rl_pinfl_find l id i :
    pinfl_find K (map rl_pinfl l) id i = option_map (fun kb => (fst kb, rl_body rho (snd kb))) (pinfl_find K l id i).
  Proof. induction l as [|[[[a j] k] b] l IH]; cbn; auto. destruct ((a =? id) && (j =? i)); auto. Qed.
  Lemma rl_pinfl_remove l id i : pinfl_remove K (map rl_pinfl l) id i = map rl_pinfl (pinfl_remove K l id i).
  Proof. induction l as [|[[[a j] k] b] l IH]; cbn; auto. destruct ((a =? id) && (j =? i)); cbn; auto. now rewrite IH. Qed.
  Lemma rl_inst_busy l i : inst_busy K (map rl_pinfl l) i = inst_busy K l i.
  Proof. unfold inst_busy. induction l as [|[[[a j] k] b] l IH]; cbn; auto. now rewrite IH. Qed.
  Lemma rl_p_total l : p_total K (rl_pstore l) = p_total K l.
  Proof. unfold rl_pstore, rl_dict. induction l as [|[j d] l IH]; cbn [map p_total fold_right fst snd]; auto. unfold p_total in IH. now rewrite map_length, IH. Qed.

  (* ... and with every step of acached_per_instance *)
  Lemma pstep_relabel st o :
    pstep K keqb kf valid (rl_pstate st) (rl_pop o) =
    (rl_pstate (fst (pstep K keqb kf valid st o)), rl_res rho (snd (pstep K keqb kf valid st o))).
  Proof.
    destruct st as [l inf rs]. destruct o as [id i c bl b|id i|i]; cbn [pstep rl_pop rl_pstate pstore pinfl pruns].
    - rewrite rl_p_ensure. destruct (kf c) as [k|]; [|reflexivity].
      rewrite rl_p_dict, rl_d_find. destruct (d_find K keqb (p_dict K (p_ensure K l i) i) k); cbn [option_map]; [reflexivity|].
      destruct (negb (valid c)); [reflexivity|].
      destruct bl.
      + cbn. unfold rl_pstate. cbn. now rewrite map_app.
      + destruct b as [v|e]; cbn; unfold rl_pstate; cbn; auto. now rewrite rl_p_store.
    - rewrite rl_pinfl_find. destruct (pinfl_find K inf id i) as [[k [v|e]]|]; cbn; unfold rl_pstate; cbn; auto.
      + now rewrite rl_p_store, rl_pinfl_remove.
      + now rewrite rl_pinfl_remove.
    - rewrite rl_inst_busy. destruct (inst_busy K inf i); cbn; unfold rl_pstate; cbn; auto.
      now rewrite rl_p_remove.
  Qed.

  Definition rl_pobs (x : res * Z * Z) : res * Z * Z := (rl_res rho (fst (fst x)), snd (fst x), snd x).

  Lemma prun_relabel ops : forall st,
    prun K keqb kf valid (rl_pstate st) (map rl_pop ops) =
    (rl_pstate (fst (prun K keqb kf valid st ops)), map rl_pobs (snd (prun K keqb kf valid st ops))).
  Proof.
    induction ops as [|o ops IH]; intros st; cbn [map prun]; auto.
    rewrite pstep_relabel. destruct (pstep K keqb kf valid st o) as [s1 r]. cbn [fst snd].
    rewrite IH. destruct (prun K keqb kf valid s1 ops) as [s2 rs]. cbn [fst snd map].
    unfold rl_pobs at 2. cbn [fst snd].
    replace (p_total K (pstore (rl_pstate s1))) with (p_total K (pstore s1)) by (symmetry; apply rl_p_total).
    replace (length (pstore (rl_pstate s1))) with (length (pstore s1)) by (cbn; unfold rl_pstore; now rewrite map_length).
    reflexivity.
  Qed.

  Lemma inst_values_opaque ops :
    snd (prun K keqb kf valid pinit (map rl_pop ops)) = map rl_pobs (snd (prun K keqb kf valid pinit ops)) /\
    pruns (fst (prun K keqb kf valid pinit (map rl_pop ops))) = pruns (fst (prun K keqb kf valid pinit ops)).
  Proof.
    change (@pinit K) with (rl_pstate pinit). rewrite prun_relabel. cbn. auto.
  Qed.
End RelabelInst.

(* `f(1)` three times with a body that returns payload 9001 (None in the harness): Miss, Hit, Hit *)
Example ex_payload_hit :
  snd (arun key key_eqb (alru_key false KmDefault sig_ab2) (bindable sig_ab2) 2 ainit
         [ACall 0 (mkCall [1] []) false (BRet 9001); ACall 1 (mkCall [1] []) false (BRet 9001);
          ACall 2 (mkCall [] [(0, 1)]) false (BRet 9001)]) = [(RMiss 9001, 1); (RHit 9001, 1); (RHit 9001, 1)].
Proof. vm_compute. reflexivity. Qed.
