(* C05, priority at trace level: every scheduler flush announced in the trace (EvBefore k) is the flush of
   a batch that, in the state the transition started from, was in the scheduler's set, pending, non-empty
   and of a priority not strictly below that of any other scheduled pending non-empty batch - for every
   program, history, oracle and fuel.  The function-level fact is MachineC05.select_spec; the origin of
   EvBefore events is MachineC05T.step_before_only_when_waiting. *)
From Asynq Require Import Machine proofs.ProgProofs proofs.MachineFrame proofs.MachineC05 proofs.MachineC08
  proofs.MachineTrace proofs.MachineC05T.

Lemma select_trace P s :
  trace (snd (select P s)) = trace s \/ exists a b, trace (snd (select P s)) = EvIllegal a b :: trace s.
Proof.
  unfold select. destruct (filter (fun k => eligible k s) (sb s)) as [|e0 el'] eqn:Eel; [left; reflexivity|].
  cbn [oracle with_sb]. destruct (oracle s) as [|c rest]; [left; reflexivity|].
  destruct (existsb _ _ && _); [left; reflexivity|]. right. exists (fst c), (snd c). reflexivity.
Qed.

Definition greatest (P : params) (k : Z * Z) (s : st) : Prop :=
  In k (sb s) /\ eligible k s = true /\
  forall k', In k' (sb s) -> eligible k' s = true -> prio_lt (prio_of P k s) (prio_of P k' s) = false.

Lemma in_flush_events_not_before evs kind idx : Forall flush_event evs -> ~ In (EvBefore kind idx) evs.
Proof. intros F Hin. rewrite Forall_forall in F. exact (F _ Hin). Qed.

Theorem step_before_is_greatest P c evs kind idx :
  trace (c_st (step P c)) = evs ++ trace (c_st c) -> In (EvBefore kind idx) evs ->
  greatest P (kind, idx) (c_st c) /\
  b_done (get_batch (kind, idx) (c_st (step P c))) = true /\ ~ In (kind, idx) (sb (c_st (step P c))).
Proof.
  intros T Hin.
  destruct (step_before_only_when_waiting P c evs kind idx T Hin) as (Hm & root & fr & Hfr & Hc).
  destruct c as [m frs s]. cbn [c_mode c_frames c_st] in *. subst m frs.
  unfold step in T |- *. cbn [c_mode c_frames c_st] in T |- *. rewrite Hc in T |- *. cbn [c_st] in T |- *.
  pose proof (continue_with_batch_spec P s) as CS.
  pose proof (select_trace P s) as ST.
  destruct (select P s) as [[k|] s1] eqn:Sel; cbn [snd] in ST.
  - cbn zeta in CS. destruct CS as ((evs0 & T0 & F0) & D & NI & _).
    destruct (select_spec _ _ _ _ Sel) as (Hi & He & Hmax & _).
    assert (Hk : (kind, idx) = k).
    { rewrite T0 in T.
      destruct ST as [ST|(a & b & ST)]; rewrite ST in T.
      - assert (E : evs = EvAfter (fst k) (snd k) :: evs0 ++ [EvFlush (fst k) (snd k) (b_items (get_batch k s)); EvBefore (fst k) (snd k)]).
        { apply (app_inv_tail (trace s)). rewrite <- T. cbn [app]. rewrite <- app_assoc. reflexivity. }
        subst evs. destruct Hin as [Hin|Hin]; [discriminate|]. apply in_app_or in Hin as [Hin|Hin].
        + destruct (in_flush_events_not_before _ _ _ F0 Hin).
        + destruct Hin as [Hin|[Hin|[]]]; [discriminate|]. injection Hin as H1 H2. destruct k; cbn in *; congruence.
      - assert (E : evs = EvAfter (fst k) (snd k) :: evs0 ++ [EvFlush (fst k) (snd k) (b_items (get_batch k s)); EvBefore (fst k) (snd k); EvIllegal a b]).
        { apply (app_inv_tail (trace s)). rewrite <- T. cbn [app]. rewrite <- app_assoc. reflexivity. }
        subst evs. destruct Hin as [Hin|Hin]; [discriminate|]. apply in_app_or in Hin as [Hin|Hin].
        + destruct (in_flush_events_not_before _ _ _ F0 Hin).
        + destruct Hin as [Hin|[Hin|[Hin|[]]]]; try discriminate. injection Hin as H1 H2. destruct k; cbn in *; congruence. }
    subst k. split; [split; [exact Hi|split; [exact He|exact Hmax]]|]. split; [exact D|exact NI].
  - exfalso. rewrite CS in T. destruct ST as [ST|(a & b & ST)].
    + rewrite ST in T. assert (E : evs = []) by (apply (app_inv_tail (trace s)); rewrite <- T; reflexivity).
      subst evs. destruct Hin.
    + rewrite ST in T. assert (E : evs = [EvIllegal a b]) by (apply (app_inv_tail (trace s)); rewrite <- T; reflexivity).
      subst evs. destruct Hin as [Hin|[]]. discriminate.
Qed.

Lemma run_step_end P k : forall c0, is_final (c_mode (run P k c0)) = false -> run P (S k) c0 = step P (run P k c0).
Proof.
  induction k as [|k IH]; intros c0 Hf.
  - cbn [run] in Hf. rewrite run_S, Hf. reflexivity.
  - rewrite run_S in Hf. rewrite (run_S P (S k) c0). destruct (is_final (c_mode c0)) eqn:E.
    + rewrite Hf in E. discriminate.
    + rewrite (run_S P k c0), E. apply IH. exact Hf.
Qed.

(* run level: every EvBefore in the trace after n steps was there at the start or was emitted by a step k < n
   from a configuration in whose state the batch was a greatest-priority scheduled pending batch *)
Theorem run_before_is_greatest P n c0 kind idx :
  In (EvBefore kind idx) (trace (c_st (run P n c0))) ->
  In (EvBefore kind idx) (trace (c_st c0)) \/
  exists k, (k < n)%nat /\ greatest P (kind, idx) (c_st (run P k c0)) /\
            b_done (get_batch (kind, idx) (c_st (run P (S k) c0))) = true.
Proof.
  intros H. destruct (run_before_origin P n c0 kind idx H) as [Hin|(k & root & fr & evs & Hk & Hm & Hfr & Hc & Ht & Hi)];
    [left; exact Hin|].
  right. exists k. split; [exact Hk|].
  assert (R : run P (S k) c0 = step P (run P k c0)).
  { apply run_step_end. rewrite Hm. reflexivity. }
  rewrite R in Ht |- *. destruct (step_before_is_greatest P _ evs kind idx Ht Hi) as (G & D & _). split; assumption.
Qed.
