(* C04, second part (tree programs): the batch items the stuck tasks wait for belong to batches that are
   known to the scheduler (in TaskScheduler._batches), not yet flushed, and contain them.
   Layer BL on top of MachineC04.DL:  batch_ok (every uncomputed item is a member of its batch, which is not
   done; done batches are older than the registry's current batch) and sched_ok (the batch of every settled
   item has been handed to _schedule_batch in this pass). *)
From Asynq Require Import Machine Seq proofs.ProgProofs proofs.MachineFrame proofs.MachineC05 proofs.MachineC08
     proofs.MachineC01 proofs.MachineDFS proofs.MachineC04.

(* ------------------------------------------------------------------ the part of the state batches live in *)
Definition bview (s : st) := (sb s, cur s, batches s).

Lemma bv_heap s h : bview (with_heap s h) = bview s. Proof. reflexivity. Qed.
Lemma bv_emit s e : bview (emit e s) = bview s. Proof. reflexivity. Qed.
Lemma bv_vars s v : bview (with_vars s v) = bview s. Proof. reflexivity. Qed.
Lemma bv_cis s c : bview (with_cis s c) = bview s. Proof. reflexivity. Qed.

Lemma bv_set_task t tk s : bview (set_task t tk s) = bview s. Proof. apply (pr_set_task bview bv_heap). Qed.
Lemma bv_resume_contexts t s : bview (resume_contexts t s) = bview s.
Proof. apply (pr_resume_contexts bview bv_heap bv_emit bv_vars bv_cis). Qed.
Lemma bv_pause_contexts t s : bview (pause_contexts t s) = bview s.
Proof. apply (pr_pause_contexts bview bv_heap bv_emit bv_vars bv_cis). Qed.
Lemma bv_complete_task t o s : bview (complete_task t o s) = bview s.
Proof. apply (pr_complete_task bview bv_heap bv_emit bv_vars). Qed.
Lemma bv_enter_ctx t c s : bview (enter_ctx t c s) = bview s.
Proof. apply (pr_enter_ctx bview bv_heap bv_emit bv_vars bv_cis). Qed.
Lemma bv_exit_ctx t c s : bview (exit_ctx t c s) = bview s.
Proof. apply (pr_exit_ctx bview bv_heap bv_emit bv_vars). Qed.
Lemma bv_complete_item h o s : bview (complete_item h o s) = bview s.
Proof. apply (pr_complete_item bview bv_heap bv_emit). Qed.
Lemma bv_flush_body items i ra s : bview (fst (flush_body items i ra s)) = bview s.
Proof. apply (pr_flush_body bview bv_heap bv_emit). Qed.

Lemma bview_parts s s' : bview s' = bview s -> sb s' = sb s /\ cur s' = cur s /\ batches s' = batches s.
Proof. unfold bview. intros H. inversion H. auto. Qed.

Lemma get_batch_view k s s' : batches s' = batches s -> get_batch k s' = get_batch k s.
Proof. intros H. unfold get_batch. rewrite H. reflexivity. Qed.
Lemma cur_idx_view kind s s' : cur s' = cur s -> cur_idx kind s' = cur_idx kind s.
Proof. intros H. unfold cur_idx. rewrite H. reflexivity. Qed.

(* ------------------------------------------------------------------ the invariant about batches *)
Record batch_ok (s : st) : Prop := {
  bo_member : forall h kind idx key a, get h s = Some (mkFut None (KItem kind idx key a)) ->
      In h (b_items (get_batch (kind, idx) s)) /\ b_done (get_batch (kind, idx) s) = false;
  bo_done : forall kind idx, b_done (get_batch (kind, idx) s) = true -> (idx < cur_idx kind s)%Z;
  bo_le : forall h o kind idx key a, get h s = Some (mkFut o (KItem kind idx key a)) -> (idx <= cur_idx kind s)%Z;
  bo_sb : forall kind idx, In (kind, idx) (sb s) -> (idx <= cur_idx kind s)%Z
}.

(* entries of s' come from entries of s of the same kind; an uncomputed one is unchanged *)
Definition kback (s s' : st) : Prop :=
  forall u f', get u s' = Some f' -> exists f, get u s = Some f /\ f_kind f' = f_kind f /\ (f_out f' = None -> f' = f).

Lemma kback_refl s : kback s s. Proof. intros u f' H. exists f'. auto. Qed.
Lemma kback_trans a b c : kback a b -> kback b c -> kback a c.
Proof.
  intros H1 H2 u f'' Hg. destruct (H2 u f'' Hg) as (f' & Hg' & K2 & U2). destruct (H1 u f' Hg') as (f & Hg0 & K1 & U1).
  exists f. split; [exact Hg0|]. split; [congruence|]. intros Hn. specialize (U2 Hn). subst f''. apply U1. exact Hn.
Qed.
Lemma kback_view s s' : heap s' = heap s -> kback s s'.
Proof. intros H u f' Hg. unfold get in Hg. rewrite H in Hg. exists f'. auto. Qed.

Lemma kback_item s s' h o kind idx key a : kback s s' ->
  get h s' = Some (mkFut o (KItem kind idx key a)) -> exists o0, get h s = Some (mkFut o0 (KItem kind idx key a)) /\ (o = None -> o0 = None).
Proof.
  intros K Hg. destruct (K h _ Hg) as ([o0 k0] & Hg0 & Hk & Hu). cbn in Hk. subst k0. exists o0. split; [exact Hg0|].
  intros ->. specialize (Hu eq_refl). inversion Hu. reflexivity.
Qed.

Lemma batch_ok_frame s s' : batch_ok s -> batches s' = batches s -> cur s' = cur s -> (forall k, In k (sb s') -> In k (sb s)) ->
  kback s s' -> batch_ok s'.
Proof.
  intros [B1 B2 B3 B4] Hb Hc Hs K. constructor.
  - intros h kind idx key a Hg. rewrite (get_batch_view _ s s' Hb).
    destruct (kback_item s s' h None kind idx key a K Hg) as (o0 & Hg0 & Ho). rewrite (Ho eq_refl) in Hg0. apply (B1 h kind idx key a Hg0).
  - intros kind idx. rewrite (get_batch_view _ s s' Hb), (cur_idx_view kind s s' Hc). apply B2.
  - intros h o kind idx key a Hg. rewrite (cur_idx_view kind s s' Hc).
    destruct (kback_item s s' h o kind idx key a K Hg) as (o0 & Hg0 & _). apply (B3 h o0 kind idx key a Hg0).
  - intros kind idx Hin. rewrite (cur_idx_view kind s s' Hc). apply B4. apply Hs. exact Hin.
Qed.

Lemma kback_upd s s' x o tk : upd_entry s s' x (mkFut o (KTask tk)) -> (exists o0 tk0, get x s = Some (mkFut o0 (KTask tk0)) /\ (o = None -> o0 = None)) ->
  forall u f', get u s' = Some f' -> (exists tk', f_kind f' = KTask tk') \/ get u s = Some f'.
Proof.
  intros (A & B & _) _ u f' Hg. destruct (fid_eqb u x) eqn:E.
  - apply fid_eqb_eq in E. subst u. rewrite A in Hg. inversion Hg; subst f'. left. exists tk. reflexivity.
  - assert (N : u <> x) by (intros ->; rewrite fid_eqb_refl in E; discriminate). rewrite (B u N) in Hg. right. exact Hg.
Qed.

(* a weaker frame, enough for batch_ok: item entries of s' are item entries of s *)
Definition iback (s s' : st) : Prop :=
  forall h o kind idx key a, get h s' = Some (mkFut o (KItem kind idx key a)) -> get h s = Some (mkFut o (KItem kind idx key a)).

Lemma iback_refl s : iback s s. Proof. intros h o kind idx key a H. exact H. Qed.
Lemma iback_trans a b c : iback a b -> iback b c -> iback a c.
Proof. intros H1 H2 h o kind idx key x Hg. apply H1, H2. exact Hg. Qed.
Lemma iback_view s s' : heap s' = heap s -> iback s s'.
Proof. intros H h o kind idx key a Hg. unfold get in *. rewrite H in Hg. exact Hg. Qed.
Lemma iback_upd s s' x o tk : upd_entry s s' x (mkFut o (KTask tk)) -> iback s s'.
Proof.
  intros (A & B & _) h o' kind idx key a Hg. destruct (fid_eqb h x) eqn:E.
  - apply fid_eqb_eq in E. subst h. rewrite A in Hg. discriminate.
  - assert (N : h <> x) by (intros ->; rewrite fid_eqb_refl in E; discriminate). rewrite (B h N) in Hg. exact Hg.
Qed.
Lemma iback_kback s s' : iback s s' -> forall h o kind idx key a, get h s' = Some (mkFut o (KItem kind idx key a)) ->
  exists o0, get h s = Some (mkFut o0 (KItem kind idx key a)) /\ (o = None -> o0 = None).
Proof. intros H h o kind idx key a Hg. exists o. split; [apply H; exact Hg|auto]. Qed.

Lemma batch_ok_iframe s s' : batch_ok s -> bview s' = bview s -> iback s s' -> batch_ok s'.
Proof.
  intros [B1 B2 B3 B4] Hv K. destruct (bview_parts s s' Hv) as (Hs & Hc & Hb). constructor.
  - intros h kind idx key a Hg. rewrite (get_batch_view _ s s' Hb). apply (B1 h kind idx key a). apply K. exact Hg.
  - intros kind idx. rewrite (get_batch_view _ s s' Hb), (cur_idx_view kind s s' Hc). apply B2.
  - intros h o kind idx key a Hg. rewrite (cur_idx_view kind s s' Hc). apply (B3 h o kind idx key a). apply K. exact Hg.
  - intros kind idx Hin. rewrite (cur_idx_view kind s s' Hc). apply B4. rewrite <- Hs. exact Hin.
Qed.

(* ------------------------------------------------------------------ assoc-list facts about cur *)
Lemma cur_idx_with_cur_same kind n s : cur_idx kind (with_cur s (upd Z.eqb kind n (cur s))) = n.
Proof.
  unfold cur_idx. cbn [cur with_cur]. induction (cur s) as [|[k v] l IH]; cbn.
  - rewrite Z.eqb_refl. reflexivity.
  - destruct (Z.eqb k kind) eqn:E; cbn.
    + rewrite Z.eqb_refl. reflexivity.
    + rewrite E. exact IH.
Qed.

Lemma cur_idx_with_cur_other kind kind2 n s : kind2 <> kind -> cur_idx kind2 (with_cur s (upd Z.eqb kind n (cur s))) = cur_idx kind2 s.
Proof.
  intros N. unfold cur_idx. cbn [cur with_cur]. induction (cur s) as [|[k v] l IH]; cbn.
  - destruct (Z.eqb kind kind2) eqn:E; [apply Z.eqb_eq in E; congruence|reflexivity].
  - destruct (Z.eqb k kind) eqn:E; cbn.
    + apply Z.eqb_eq in E. subst k. destruct (Z.eqb kind kind2) eqn:E2; [apply Z.eqb_eq in E2; congruence|reflexivity].
    + destruct (Z.eqb k kind2); [reflexivity|exact IH].
Qed.

(* ------------------------------------------------------------------ flushing *)
Lemma kback_complete_item h o s : kback s (complete_item h o s).
Proof.
  intros u f' Hg. unfold complete_item in Hg. destruct (get h s) as [f0|] eqn:G; [|exists f'; auto].
  destruct (f_out f0) eqn:O; [exists f'; auto|].
  rewrite get_emit in Hg. destruct (fid_eqb u h) eqn:E.
  - apply fid_eqb_eq in E. subst u. rewrite get_put_same in Hg. inversion Hg; subst f'. exists f0. split; [exact G|].
    split; [reflexivity|]. cbn. discriminate.
  - assert (N : u <> h) by (intros ->; rewrite fid_eqb_refl in E; discriminate). rewrite get_put_other in Hg by exact N. exists f'. auto.
Qed.

Lemma kback_flush_body items : forall i ra s, kback s (fst (flush_body items i ra s)).
Proof.
  induction items as [|h rest IH]; intros i ra s; cbn [flush_body].
  - destruct ra as [[k e]|]; apply kback_refl.
  - destruct ra as [[k e]|].
    + destruct (Z.eqb i k); [apply kback_refl|].
      destruct (get h s) as [[o [ | kind idx key [v|e'|] | | ]]|];
        try (eapply kback_trans; [apply kback_complete_item|apply IH]); apply IH.
    + destruct (get h s) as [[o [ | kind idx key [v|e'|] | | ]]|];
        try (eapply kback_trans; [apply kback_complete_item|apply IH]); apply IH.
Qed.

Lemma kback_fold_complete o items : forall s, kback s (fold_left (fun s h => complete_item h o s) items s).
Proof.
  induction items as [|h rest IH]; intros s; cbn [fold_left]; [apply kback_refl|].
  eapply kback_trans; [apply kback_complete_item|apply IH].
Qed.

(* what a flush does to the batch table, the registry and the heap *)
Lemma flush_batch_batches P k s : b_done (get_batch k s) = false ->
  let s' := flush_batch P k s in
  (forall k2, k2 <> k -> get_batch k2 s' = get_batch k2 s) /\
  b_items (get_batch k s') = b_items (get_batch k s) /\ b_done (get_batch k s') = true /\
  (forall kind, (cur_idx kind s <= cur_idx kind s')%Z) /\
  (cur_idx (fst k) s = snd k -> cur_idx (fst k) s' = (snd k + 1)%Z) /\
  sb s' = sb s /\ kback s s'.
Proof.
  intros Hd. cbn zeta. unfold flush_batch. rewrite Hd.
  set (s0 := if Z.eqb (cur_idx (fst k) s) (snd k) then with_cur s (upd Z.eqb (fst k) (snd k + 1) (cur s)) else s).
  assert (H0 : heap s0 = heap s /\ batches s0 = batches s /\ sb s0 = sb s) by (unfold s0; destruct (Z.eqb _ _); auto).
  destruct H0 as (Hh0 & Hb0 & Hs0).
  assert (Hc0 : (forall kind, (cur_idx kind s <= cur_idx kind s0)%Z) /\ (cur_idx (fst k) s = snd k -> cur_idx (fst k) s0 = (snd k + 1)%Z)).
  { unfold s0. destruct (Z.eqb (cur_idx (fst k) s) (snd k)) eqn:E.
    - apply Z.eqb_eq in E. split.
      + intros kind. destruct (Z.eq_dec kind (fst k)) as [->|N].
        * rewrite cur_idx_with_cur_same. lia.
        * rewrite cur_idx_with_cur_other by exact N. lia.
      + intros _. apply cur_idx_with_cur_same.
    - apply Z.eqb_neq in E. split; [intros; lia|intros E2; congruence]. }
  destruct Hc0 as (Hc1 & Hc2).
  set (s1 := emit (EvFlush (fst k) (snd k) (b_items (get_batch k s))) s0).
  pose proof (kback_flush_body (b_items (get_batch k s)) 0 (ks_raise (kspec_of P (fst k))) s1) as KB.
  pose proof (bv_flush_body (b_items (get_batch k s)) 0 (ks_raise (kspec_of P (fst k))) s1) as VB.
  destruct (flush_body (b_items (get_batch k s)) 0 (ks_raise (kspec_of P (fst k))) s1) as [s2 err]. cbn [fst] in KB, VB.
  set (fill := match err with Some e => Err e | None => Err E_NOTSET end).
  pose proof (kback_fold_complete fill (b_items (get_batch k s)) s2) as KF.
  assert (VF : bview (fold_left (fun s h => complete_item h fill s) (b_items (get_batch k s)) s2) = bview s2).
  { apply (fold_left_pres (fun s h => complete_item h fill s) bview). intros. apply bv_complete_item. }
  set (s3 := fold_left (fun s h => complete_item h fill s) (b_items (get_batch k s)) s2) in *.
  destruct (bview_parts s2 s3 VF) as (S3 & C3 & B3). destruct (bview_parts s1 s2 VB) as (S2 & C2 & B2).
  assert (Hb3 : batches s3 = batches s) by (rewrite B3, B2; unfold s1; cbn; exact Hb0).
  assert (Hc3 : cur s3 = cur s0) by (rewrite C3, C2; reflexivity).
  split; [intros k2 N; rewrite get_batch_put_other by exact N; apply get_batch_view; exact Hb3|].
  split; [rewrite get_batch_put_same; cbn; rewrite (get_batch_view k s s3 Hb3); reflexivity|].
  split; [rewrite get_batch_put_same; reflexivity|].
  split; [intros kind; change (cur_idx kind (put_batch k ?b s3)) with (cur_idx kind s3); rewrite (cur_idx_view kind s0 s3 Hc3); apply Hc1|].
  split; [intros E; change (cur_idx (fst k) (put_batch k ?b s3)) with (cur_idx (fst k) s3); rewrite (cur_idx_view (fst k) s0 s3 Hc3); apply Hc2; exact E|].
  split; [change (sb (put_batch k ?b s3)) with (sb s3); rewrite S3, S2; unfold s1; cbn; exact Hs0|].
  eapply kback_trans; [|apply kback_view; reflexivity].
  eapply kback_trans; [|exact KF]. eapply kback_trans; [|exact KB]. apply kback_view. unfold s1. cbn. exact Hh0.
Qed.

Lemma batch_ok_flush P k s : batch_ok s -> (snd k <= cur_idx (fst k) s)%Z -> batch_ok (flush_batch P k s).
Proof.
  intros HB Hle. destruct (b_done (get_batch k s)) eqn:Hd; [unfold flush_batch; rewrite Hd; exact HB|].
  destruct (flush_batch_batches P k s Hd) as (Hoth & Hit & Hdn & Hmono & Hbump & Hsb & K). cbn zeta in *.
  destruct (flush_pending P k s Hd) as (_ & _ & Hall & _). cbn zeta in Hall.
  destruct HB as [B1 B2 B3 B4]. destruct k as [kk ki]. cbn [fst snd] in *. constructor.
  - intros h kind idx key a Hg. destruct (kback_item _ _ h None kind idx key a K Hg) as (o0 & Hg0 & Ho). rewrite (Ho eq_refl) in Hg0.
    destruct (B1 h kind idx key a Hg0) as [Hin Hnd].
    destruct (key_eqb (kind, idx) (kk, ki)) eqn:E.
    + apply key_eqb_eq in E. inversion E; subst kind idx. exfalso.
      assert (Hc : computed h (flush_batch P (kk, ki) s) = true) by (apply Hall; [exact Hin|rewrite Hg0; discriminate]).
      unfold computed in Hc. rewrite Hg in Hc. discriminate.
    + assert (N : (kind, idx) <> (kk, ki)) by (intros E2; rewrite E2, key_eqb_refl in E; discriminate).
      rewrite (Hoth _ N). auto.
  - intros kind idx Hdone. destruct (key_eqb (kind, idx) (kk, ki)) eqn:E.
    + apply key_eqb_eq in E. inversion E; subst kind idx.
      destruct (Z.eq_dec (cur_idx kk s) ki) as [E2|N2]; [rewrite (Hbump E2); lia|]. specialize (Hmono kk). lia.
    + assert (N : (kind, idx) <> (kk, ki)) by (intros E2; rewrite E2, key_eqb_refl in E; discriminate).
      rewrite (Hoth _ N) in Hdone. specialize (B2 kind idx Hdone). specialize (Hmono kind). lia.
  - intros h o kind idx key a Hg. destruct (kback_item _ _ h o kind idx key a K Hg) as (o0 & Hg0 & _).
    specialize (B3 h o0 kind idx key a Hg0). specialize (Hmono kind). lia.
  - intros kind idx Hin. rewrite Hsb in Hin. specialize (B4 kind idx Hin). specialize (Hmono kind). lia.
Qed.

Lemma select_sb P s : forall k, In k (sb (snd (select P s))) -> In k (sb s).
Proof.
  intros k. unfold select. set (el := filter (fun k => eligible k s) (sb s)).
  assert (Hel : forall k, In k el -> In k (sb s)) by (intros k0 H; apply filter_In in H; tauto).
  destruct el as [|e0 el'] eqn:Eel; cbn [snd sb with_sb]; [intros []|].
  destruct (oracle (with_sb s (e0 :: el'))) as [|c rest]; cbn [snd]; [cbn; apply Hel|].
  destruct (existsb (key_eqb c) (e0 :: el') && is_max P c (e0 :: el') (with_sb s (e0 :: el'))); cbn; apply Hel.
Qed.

Lemma select_view P s : cur (snd (select P s)) = cur s.
Proof.
  unfold select. destruct (filter _ (sb s)); [reflexivity|]. cbn [oracle with_sb]. destruct (oracle s); [reflexivity|].
  destruct (existsb _ _ && _); reflexivity.
Qed.

Lemma batch_ok_continue_with_batch P s : batch_ok s -> batch_ok (continue_with_batch P s).
Proof.
  intros HB. unfold continue_with_batch.
  pose proof (select_batches P s) as [Hb Hh]. pose proof (select_sb P s) as Hsb. pose proof (select_view P s) as Hc.
  destruct (select P s) as [[k|] s1] eqn:Sel; cbn [snd] in *.
  - destruct (select_spec _ _ _ _ Sel) as (Hin & _).
    set (s2 := emit (EvBefore (fst k) (snd k)) (with_sb s1 (filter (fun k' => negb (key_eqb k' k)) (sb s1)))).
    assert (HB2 : batch_ok s2).
    { apply (batch_ok_frame s s2 HB); [exact Hb|exact Hc| |apply kback_view; exact Hh].
      intros k0 Hk0. unfold s2 in Hk0. cbn in Hk0. apply filter_In in Hk0 as [Hk0 _]. apply Hsb. exact Hk0. }
    apply (batch_ok_frame (flush_batch P k s2)); try reflexivity; [|auto|apply kback_view; reflexivity].
    apply batch_ok_flush; [exact HB2|].
    destruct k as [kk ki]. cbn [fst snd]. rewrite (cur_idx_view kk s s2) by exact Hc. apply (bo_sb s HB kk ki Hin).
  - apply (batch_ok_frame s s1 HB); [exact Hb|exact Hc|exact Hsb|apply kback_view; exact Hh].
Qed.

(* ------------------------------------------------------------------ creating futures *)
Definition brel (s s' : st) : Prop := (batch_ok s -> batch_ok s') /\ sb s' = sb s.

Lemma brel_refl s : brel s s. Proof. split; auto. Qed.
Lemma brel_trans a b c : brel a b -> brel b c -> brel a c.
Proof. intros (A1 & A2) (B1 & B2). split; [auto|congruence]. Qed.

Lemma brel_create parent f s : get [top_next s] s = None -> brel s (snd (create parent f s)).
Proof.
  intros Hfresh. unfold create, alloc. cbn zeta. set (h := [top_next s]) in *. set (s0 := with_top_next s (top_next s + 1)).
  assert (Hother : forall e, (forall kind idx key a, f_kind e <> KItem kind idx key a) ->
            brel s (put h e s0)).
  { intros e Hk. split; [|reflexivity]. intros HB. apply (batch_ok_iframe s _ HB); [reflexivity|].
    intros u o kind idx key a Hg. destruct (fid_eqb u h) eqn:E.
    - apply fid_eqb_eq in E. subst u. rewrite get_put_same in Hg. inversion Hg; subst e. destruct (Hk kind idx key a eq_refl).
    - assert (N : u <> h) by (intros ->; rewrite fid_eqb_refl in E; discriminate). rewrite get_put_other in Hg by exact N. exact Hg. }
  destruct f as [q|kind key a|v|e|o]; cbn [snd]; try (apply Hother; intros; cbn; discriminate).
  (* an item joins the registry's current batch *)
  split; [|reflexivity]. intros [B1 B2 B3 B4].
  set (idx := cur_idx kind s). set (b := get_batch (kind, idx) s).
  match goal with |- batch_ok ?x => set (s2 := x) end.
  assert (Hnd : b_done b = false).
  { destruct (b_done b) eqn:E; [|reflexivity]. specialize (B2 kind idx E). unfold idx in B2. lia. }
  assert (Hg1 : forall u, u <> h -> get u s2 = get u s).
  { intros u N. unfold s2. change (get u (put_batch ?k ?bb ?z)) with (get u z). rewrite get_put_other by exact N. reflexivity. }
  assert (Hgh : get h s2 = Some (mkFut None (KItem kind idx key a))).
  { unfold s2. change (get h (put_batch ?k ?bb ?z)) with (get h z). apply get_put_same. }
  assert (Hbs : get_batch (kind, idx) s2 = mkB (b_items b ++ [h]) (b_done b)) by (unfold s2; apply get_batch_put_same).
  assert (Hbo : forall k2, k2 <> (kind, idx) -> get_batch k2 s2 = get_batch k2 s).
  { intros k2 N. unfold s2. rewrite get_batch_put_other by exact N. reflexivity. }
  assert (Hcur : forall kind2, cur_idx kind2 s2 = cur_idx kind2 s) by reflexivity.
  assert (Hsb2 : sb s2 = sb s) by reflexivity.
  clearbody s2.
  constructor.
  - intros u kind2 idx2 key2 a2 Hg. destruct (key_eqb (kind2, idx2) (kind, idx)) eqn:E.
    + apply key_eqb_eq in E. inversion E; subst kind2 idx2. rewrite Hbs. cbn [b_items b_done]. split; [|exact Hnd].
      destruct (fid_eqb u h) eqn:E2.
      * apply fid_eqb_eq in E2. subst u. apply in_or_app. right. left. reflexivity.
      * assert (N : u <> h) by (intros ->; rewrite fid_eqb_refl in E2; discriminate). rewrite (Hg1 u N) in Hg.
        apply in_or_app. left. apply (B1 u kind idx key2 a2 Hg).
    + assert (N : (kind2, idx2) <> (kind, idx)) by (intros E2; rewrite E2, key_eqb_refl in E; discriminate).
      rewrite (Hbo _ N).
      destruct (fid_eqb u h) eqn:E2.
      * apply fid_eqb_eq in E2. subst u. rewrite Hgh in Hg. inversion Hg; subst. exfalso. apply N. reflexivity.
      * assert (N2 : u <> h) by (intros ->; rewrite fid_eqb_refl in E2; discriminate). rewrite (Hg1 u N2) in Hg. apply (B1 u kind2 idx2 key2 a2 Hg).
  - intros kind2 idx2 Hd. rewrite Hcur.
    destruct (key_eqb (kind2, idx2) (kind, idx)) eqn:E.
    + apply key_eqb_eq in E. inversion E; subst kind2 idx2. rewrite Hbs in Hd. cbn in Hd. congruence.
    + assert (N : (kind2, idx2) <> (kind, idx)) by (intros E2; rewrite E2, key_eqb_refl in E; discriminate).
      rewrite (Hbo _ N) in Hd. apply (B2 kind2 idx2 Hd).
  - intros u o kind2 idx2 key2 a2 Hg. rewrite Hcur.
    destruct (fid_eqb u h) eqn:E2.
    + apply fid_eqb_eq in E2. subst u. rewrite Hgh in Hg. inversion Hg; subst. unfold idx. lia.
    + assert (N2 : u <> h) by (intros ->; rewrite fid_eqb_refl in E2; discriminate). rewrite (Hg1 u N2) in Hg. apply (B3 u o kind2 idx2 key2 a2 Hg).
  - intros kind2 idx2 Hin. rewrite Hcur. rewrite Hsb2 in Hin. apply (B4 kind2 idx2 Hin).
Qed.

(* a relation that holds for every creation (under the C01 state invariant) holds for a whole yield expression *)
Lemma inst_rel (R : st -> st -> Prop) r parent :
  (forall s, R s s) -> (forall a b c, R a b -> R b c -> R a c) ->
  (forall spec s f, SInv spec r s -> tree_fexpr f -> R s (snd (create parent f s))) ->
  forall (y : ystruct leaf) spec s, SInv spec r s -> (forall l, In l (leaves y) -> tree_leaf l) -> R s (snd (inst parent y s)).
Proof.
  intros Rrefl Rtrans Rcreate y.
  induction y as [| a | l IH | l IH | l IH] using ystruct_ind2; intros spec s HS Ht.
  - apply Rrefl.
  - destruct a as [f|h|]; cbn [inst]; try apply Rrefl.
    assert (Hf : tree_fexpr f) by (specialize (Ht (LNew f) (or_introl eq_refl)); inversion Ht; assumption).
    pose proof (Rcreate spec s f HS Hf) as G. destruct (create parent f s) as [h s1]. exact G.
  - cbn [inst]. match goal with |- context [(?g l s)] => set (go := g) end.
    assert (HL : forall spec0 s0, SInv spec0 r s0 -> (forall x, In x (flat_map leaves l) -> tree_leaf x) -> R s0 (snd (go l s0))).
    { clear spec s HS Ht. induction IH as [|x l Hx Hl IHl]; intros spec0 s0 HS0 Ht0; [apply Rrefl|].
      cbn [go]. cbn [flat_map] in Ht0.
      assert (Htx : forall z, In z (leaves x) -> tree_leaf z) by (intros z Hz; apply Ht0, in_or_app; auto).
      pose proof (Hx spec0 s0 HS0 Htx) as G1.
      destruct (SInv_inst r parent x spec0 s0 HS0 Htx) as (spec1 & (_ & HS1 & _) & _).
      destruct (inst parent x s0) as [x' s1]. cbn [fst snd] in *.
      assert (G2 : R s1 (snd (go l s1))) by (apply (IHl spec1 s1 HS1); intros z Hz; apply Ht0, in_or_app; auto).
      fold go. destruct (go l s1) as [l'' s2]. cbn [snd] in *. eapply Rtrans; eauto. }
    specialize (HL spec s HS). destruct (go l s) as [l' s1]. cbn [snd] in *. apply HL. rewrite <- leaves_tuple. exact Ht.
  - cbn [inst]. match goal with |- context [(?g l s)] => set (go := g) end.
    assert (HL : forall spec0 s0, SInv spec0 r s0 -> (forall x, In x (flat_map leaves l) -> tree_leaf x) -> R s0 (snd (go l s0))).
    { clear spec s HS Ht. induction IH as [|x l Hx Hl IHl]; intros spec0 s0 HS0 Ht0; [apply Rrefl|].
      cbn [go]. cbn [flat_map] in Ht0.
      assert (Htx : forall z, In z (leaves x) -> tree_leaf z) by (intros z Hz; apply Ht0, in_or_app; auto).
      pose proof (Hx spec0 s0 HS0 Htx) as G1.
      destruct (SInv_inst r parent x spec0 s0 HS0 Htx) as (spec1 & (_ & HS1 & _) & _).
      destruct (inst parent x s0) as [x' s1]. cbn [fst snd] in *.
      assert (G2 : R s1 (snd (go l s1))) by (apply (IHl spec1 s1 HS1); intros z Hz; apply Ht0, in_or_app; auto).
      fold go. destruct (go l s1) as [l'' s2]. cbn [snd] in *. eapply Rtrans; eauto. }
    specialize (HL spec s HS). destruct (go l s) as [l' s1]. cbn [snd] in *. apply HL. rewrite <- leaves_ylist. exact Ht.
  - cbn [inst]. match goal with |- context [(?g l s)] => set (go := g) end.
    assert (HL : forall spec0 s0, SInv spec0 r s0 -> (forall x, In x (flat_map (fun kv => leaves (snd kv)) l) -> tree_leaf x) -> R s0 (snd (go l s0))).
    { clear spec s HS Ht. induction IH as [|[k x] l Hx Hl IHl]; intros spec0 s0 HS0 Ht0; [apply Rrefl|].
      cbn [go]. cbn [flat_map snd] in Ht0. cbn [snd] in Hx.
      assert (Htx : forall z, In z (leaves x) -> tree_leaf z) by (intros z Hz; apply Ht0, in_or_app; auto).
      pose proof (Hx spec0 s0 HS0 Htx) as G1.
      destruct (SInv_inst r parent x spec0 s0 HS0 Htx) as (spec1 & (_ & HS1 & _) & _).
      destruct (inst parent x s0) as [x' s1]. cbn [fst snd] in *.
      assert (G2 : R s1 (snd (go l s1))) by (apply (IHl spec1 s1 HS1); intros z Hz; apply Ht0, in_or_app; auto).
      fold go. destruct (go l s1) as [l'' s2]. cbn [snd] in *. eapply Rtrans; eauto. }
    specialize (HL spec s HS). destruct (go l s) as [l' s1]. cbn [snd] in *. apply HL. rewrite <- leaves_ydict. exact Ht.
Qed.

Lemma brel_inst spec r parent (y : ystruct leaf) s : SInv spec r s -> (forall l, In l (leaves y) -> tree_leaf l) ->
  brel s (snd (inst parent y s)).
Proof.
  intros HS Ht. apply (inst_rel brel r parent brel_refl brel_trans) with (spec := spec); [|exact HS|exact Ht].
  intros spec0 s0 f HS0 _. apply brel_create. apply (fresh_id spec0 r s0 HS0).
Qed.

Lemma batch_ok_schedule s x o kind idx key a : batch_ok s -> get x s = Some (mkFut o (KItem kind idx key a)) ->
  batch_ok (schedule_batch (kind, idx) s) /\ (forall k, In k (sb s) -> In k (sb (schedule_batch (kind, idx) s))) /\
  (b_done (get_batch (kind, idx) s) = false -> In (kind, idx) (sb (schedule_batch (kind, idx) s))).
Proof.
  intros HB Hg. unfold schedule_batch. destruct (b_done (get_batch (kind, idx) s)) eqn:Hd; [split; [exact HB|split; [auto|discriminate]]|].
  destruct (existsb (key_eqb (kind, idx)) (sb s)) eqn:Hex.
  - split; [exact HB|]. split; [auto|]. intros _. apply existsb_exists in Hex as (k & Hin & Hk). apply key_eqb_eq in Hk. subst k. exact Hin.
  - split; [|split; [intros k Hk; cbn; apply in_or_app; left; exact Hk|intros _; cbn; apply in_or_app; right; left; reflexivity]].
    destruct HB as [B1 B2 B3 B4]. constructor.
    + exact B1.
    + exact B2.
    + exact B3.
    + intros kind2 idx2 Hin. cbn in Hin. apply in_app_or in Hin as [Hin|[E|[]]]; [apply (B4 kind2 idx2 Hin)|].
      inversion E; subst kind2 idx2. apply (B3 x o kind idx key a Hg).
Qed.

(* the batch of every settled item has been handed to _schedule_batch *)
Definition sched_ok (S : Sset) (s : st) : Prop :=
  forall d kind idx key a, S d -> get d s = Some (mkFut None (KItem kind idx key a)) -> In (kind, idx) (sb s).

Lemma keep_ok S s s' : batch_ok s -> sched_ok S s -> bview s' = bview s -> iback s s' -> batch_ok s' /\ sched_ok S s'.
Proof.
  intros HB HS Hv K. split; [apply (batch_ok_iframe s s'); assumption|].
  intros d kind idx key a Hd Hg. destruct (bview_parts s s' Hv) as (E & _). rewrite E. apply (HS d kind idx key a Hd). apply K. exact Hg.
Qed.

Section C04B.
  Variable P : params.
  Hypothesis HP : pointwise P.
  Variable root : fid.
  Variable res : outcome.

  Definition BL (spec : specmap) (S : Sset) (c : cfg) : Prop :=
    DL root res spec S c /\
    match c_mode c with
    | MUnwind _ | MDone _ | MStuck => True
    | m => batch_ok (c_st c) /\
      match m with
      | MExecLoop | MResume _ | MRun _ _ | MContRet | MAfterExec => sched_ok S (c_st c)
      | _ => True
      end
    end.

  Lemma bl_MValue spec S h fr s : BL spec S (mkC (MValue h) fr s) -> BL spec S (step P (mkC (MValue h) fr s)).
  Proof.
    intros (HDL & HB & _). split; [apply (dl_MValue P); exact HDL|].
    destruct HDL as (((Hr & Hf & HS & Ht & ->) & _) & _). cbn in Hf, Ht, HB. subst fr. cbn [step c_mode c_frames c_st].
    destruct (computed root s); [cbn; auto|]. destruct Ht as (out & tk & Hg). rewrite Hg. cbn. auto.
  Qed.

  Lemma bl_MDeliver spec S o fr s : BL spec S (mkC (MDeliver o) fr s) -> BL spec S (step P (mkC (MDeliver o) fr s)).
  Proof.
    intros (HDL & HB & _). split; [apply (dl_MDeliver P); exact HDL|].
    destruct HDL as (((Hr & Hf & _) & _) & _). cbn in Hf. subst fr. cbn. exact I.
  Qed.

  Lemma bl_MWaitHead spec S fr s : BL spec S (mkC MWaitHead fr s) -> exists S', BL spec S' (step P (mkC MWaitHead fr s)).
  Proof.
    intros (HDL & HB & _). destruct (dl_MWaitHead P root res spec S fr s HDL) as (S' & HDL' & Hemp). exists S'. split; [exact HDL'|]. clear HDL'.
    destruct HDL as (((Hr & Hf & HS & Ht & _) & _) & _). cbn in Hf, HB. subst fr. cbn [step c_mode c_frames c_st] in *.
    destruct (computed root s) eqn:Hc; [cbn; split; [apply (batch_ok_frame s); [exact HB|apply batches_drop_sb|apply cur_drop_sb|intros k0; apply sb_drop_sb_incl|apply kback_view; apply heap_drop_sb]|exact I]|]. cbn [c_mode c_st]. split.
    - apply (batch_ok_iframe s); [exact HB|reflexivity|apply iback_view; reflexivity].
    - intros d kind idx key a Hd. destruct (Hemp eq_refl d Hd).
  Qed.

  Lemma bl_MAfterExec spec S fr s : BL spec S (mkC MAfterExec fr s) -> BL spec S (step P (mkC MAfterExec fr s)).
  Proof.
    intros (HDL & HB & _). split; [apply (dl_MAfterExec P HP); exact HDL|].
    destruct HDL as (((Hr & Hf & HS & Ht & _) & _) & _). cbn in Hf, HB. subst fr. cbn [step c_mode c_frames c_st].
    destruct (computed root s); [cbn; split; [apply (batch_ok_frame s); [exact HB|apply batches_drop_sb|apply cur_drop_sb|intros k0; apply sb_drop_sb_incl|apply kback_view; apply heap_drop_sb]|exact I]|]. cbn. split; [apply batch_ok_continue_with_batch; exact HB|exact I].
  Qed.

  Lemma bl_MExecLoop spec S fr s : BL spec S (mkC MExecLoop fr s) -> exists S', BL spec S' (step P (mkC MExecLoop fr s)).
  Proof.
    intros (HDL & HB & HSc). destruct (dl_MExecLoop P root res spec S fr s HDL) as (S' & HDL' & Hnew). exists S'. split; [exact HDL'|]. clear HDL'.
    destruct HDL as (((Hr & Hf & HS & Ht & _) & HF & HK) & HD & HPk). cbn in Hf, HS, HK, HB, HSc, HD, HPk. subst fr.
    cbn [step c_mode c_frames c_st] in *.
    (* generic conclusion: the new top-of-stack member of S', if it is an uncomputed item, has been scheduled *)
    assert (Hgen : forall s', batch_ok s' -> (forall k, In k (sb s) -> In k (sb s')) -> iback s s' ->
              (forall x ts kind idx key a, tasks s = x :: ts -> get x s' = Some (mkFut None (KItem kind idx key a)) -> In (kind, idx) (sb s')) ->
              batch_ok s' /\ sched_ok S' s').
    { intros s' HB' Hsb K Hx. split; [exact HB'|]. intros d kind idx key a Hd Hg.
      destruct (Hnew d Hd) as [HSd|(ts & Hts)].
      - apply Hsb. apply (HSc d kind idx key a HSd). apply K. exact Hg.
      - apply (Hx d ts kind idx key a Hts Hg). }
    assert (Hsame : forall s', bview s' = bview s -> iback s s' ->
              (forall x ts kind idx key a, tasks s = x :: ts -> get x s = Some (mkFut None (KItem kind idx key a)) -> False) ->
              batch_ok s' /\ sched_ok S' s').
    { intros s' Hv K Hx. destruct (bview_parts s s' Hv) as (E & _). apply Hgen.
      - apply (batch_ok_iframe s s'); assumption.
      - intros k Hk. rewrite E. exact Hk.
      - exact K.
      - intros x ts kind idx key a Hts Hg. exfalso. apply (Hx x ts kind idx key a Hts). apply K. exact Hg. }
    destruct (Nat.leb (length (tasks s)) 0) eqn:Hle.
    { cbn [c_mode c_st]. apply Hsame; [reflexivity|apply iback_refl|].
      intros x ts kind idx key a Hts _. rewrite Hts in Hle. cbn in Hle. discriminate. }
    destruct (Z.ltb (p_maxstack P) (Z.of_nat (length (tasks s)))); [exact I|].
    destruct (tasks s) as [|x ts] eqn:Hts; [cbn [c_mode c_st]; apply Hsame; [reflexivity|apply iback_refl|intros; discriminate]|].
    destruct (computed x s) eqn:Hcx.
    { cbn [c_mode c_st]. apply Hsame; [reflexivity|apply iback_view; reflexivity|].
      intros x0 ts0 kind idx key a E Hg. inversion E; subst x0 ts0. unfold computed in Hcx. rewrite Hg in Hcx. discriminate. }
    destruct (get x s) as [[out [tk|kind idx key a|o'|]]|] eqn:Hg.
    - assert (Hnot : forall x0 ts0 kind idx key a, x :: ts = x0 :: ts0 -> get x0 s = Some (mkFut None (KItem kind idx key a)) -> False).
      { intros x0 ts0 kind idx key a E Hg0. inversion E; subst x0 ts0. rewrite Hg in Hg0. discriminate. }
      assert (out = None) as -> by (unfold computed in Hcx; rewrite Hg in Hcx; cbn in Hcx; destruct out; [discriminate|reflexivity]).
      destruct (is_blocked tk s) eqn:Hb.
      + destruct (tk_ds tk) eqn:Hds.
        * pose proof (set_task_upd s x None tk (tk_set_ds tk false) Hg) as U1. pose proof U1 as (G1 & _).
          assert (HS1 : SInv spec None (set_task x (tk_set_ds tk false) s)) by (apply (SInv_set_task_same spec None s x None tk); auto).
          pose proof (pause_entry spec None _ x None _ HS1 G1) as U2.
          pose proof (upd_entry_trans _ _ _ _ _ _ U1 U2) as U.
          cbn [c_mode c_st]. apply Hsame; [|eapply iback_trans; [apply (iback_upd _ _ _ _ _ U)|apply iback_view; reflexivity]|exact Hnot].
          change (bview (pop_task ?z)) with (bview z). rewrite bv_pause_contexts, bv_set_task. reflexivity.
        * pose proof (set_task_upd s x None tk (tk_set_ds tk true) Hg) as U1. pose proof U1 as (G1 & _).
          assert (HS1 : SInv spec None (set_task x (tk_set_ds tk true) s)) by (apply (SInv_set_task_same spec None s x None tk); auto).
          pose proof (resume_entry spec None _ x None _ HS1 G1) as U2.
          pose proof (upd_entry_trans _ _ _ _ _ _ U1 U2) as U.
          cbn [c_mode c_st]. apply Hsame; [|eapply iback_trans; [apply (iback_upd _ _ _ _ _ U)|apply iback_view; reflexivity]|exact Hnot].
          change (bview (with_tasks ?z ?l)) with (bview z). rewrite bv_resume_contexts, bv_set_task. reflexivity.
      + rewrite (computed_resume_contexts spec None s x HS x), Hcx.
        pose proof (resume_entry spec None s x None tk HS Hg) as U.
        cbn [c_mode c_st]. apply Hsame; [|eapply iback_trans; [apply (iback_upd _ _ _ _ _ U)|apply iback_view; reflexivity]|exact Hnot].
        change (bview (with_active ?z ?l)) with (bview z). rewrite bv_resume_contexts. reflexivity.
    - (* item: its batch is scheduled *)
      assert (out = None) as -> by (unfold computed in Hcx; rewrite Hg in Hcx; cbn in Hcx; destruct out; [discriminate|reflexivity]).
      destruct (batch_ok_schedule s x None kind idx key a HB Hg) as (HB' & Hsub & Hin).
      assert (Hh : heap (schedule_batch (kind, idx) s) = heap s) by (unfold schedule_batch; destruct (b_done _); [reflexivity|]; destruct (existsb _ _); reflexivity).
      cbn [c_mode c_st]. apply Hgen.
      + apply (batch_ok_iframe (schedule_batch (kind, idx) s)); [exact HB'|reflexivity|apply iback_view; reflexivity].
      + intros k Hk. change (sb (pop_task ?z)) with (sb z). apply Hsub. exact Hk.
      + apply iback_view. exact Hh.
      + intros x0 ts0 kind0 idx0 key0 a0 E Hg0. inversion E; subst x0 ts0.
        change (get x (pop_task ?z)) with (get x z) in Hg0. unfold get in Hg0. rewrite Hh in Hg0. fold (get x s) in Hg0.
        rewrite Hg in Hg0. inversion Hg0; subst kind0 idx0 key0 a0. change (sb (pop_task ?z)) with (sb z). apply Hin.
        apply (bo_member s HB x kind idx key a Hg).
    - (* lazy *)
      cbn [c_mode c_st]. apply Hsame; [reflexivity| |].
      + intros u o kind idx key a Hgu. change (get u (pop_task ?z)) with (get u z) in Hgu. destruct (fid_eqb u x) eqn:E.
        * apply fid_eqb_eq in E. subst u. rewrite get_put_same in Hgu. discriminate.
        * assert (N : u <> x) by (intros ->; rewrite fid_eqb_refl in E; discriminate). rewrite get_put_other in Hgu by exact N. exact Hgu.
      + intros x0 ts0 kind idx key a E Hg0. inversion E; subst x0 ts0. rewrite Hg in Hg0. discriminate.
    - cbn [c_mode c_st]. apply Hsame; [reflexivity|apply iback_view; reflexivity|].
      intros x0 ts0 kind idx key a E Hg0. inversion E; subst x0 ts0. rewrite Hg in Hg0. discriminate.
    - cbn [c_mode c_st]. apply Hsame; [reflexivity|apply iback_view; reflexivity|].
      intros x0 ts0 kind idx key a E Hg0. inversion E; subst x0 ts0. rewrite Hg in Hg0. discriminate.
  Qed.

  Lemma bl_MResume spec S t fr s : BL spec S (mkC (MResume t) fr s) -> BL spec S (step P (mkC (MResume t) fr s)).
  Proof.
    intros (HDL & HB & HSc). split; [apply (dl_MResume P); exact HDL|].
    destruct HDL as (((Hr & Hf & HS & Ht & (tk & Hg & Hcomp)) & HF & HK) & _). cbn in HK, HS, Hg, HB, HSc.
    destruct HK as ((old & ->) & _).
    cbn [step c_mode c_frames c_st]. unfold get_task. rewrite Hg.
    destruct (SInv_entry _ _ _ _ _ HS Hg) as (_ & ot & Hst & _ & Hp & Hk). cbn in Hp, Hk.
    destruct (Hk eq_refl ltac:(discriminate)) as (k & K1 & _). rewrite K1.
    set (tk1 := mkTask (Some k) YNone (if p_keep P then tk_deps tk else []) (tk_ctxs tk) (tk_cact tk) (tk_ds tk) (tk_iter tk + 1) (tk_next tk)).
    cbn [c_mode c_st]. apply (keep_ok S s); [exact HB|exact HSc| |].
    - rewrite bv_emit, bv_set_task. reflexivity.
    - eapply iback_trans; [apply (iback_upd _ _ _ _ _ (set_task_upd s t None tk tk1 Hg))|apply iback_view; reflexivity].
  Qed.

  Lemma bl_MRun spec S t p fr s : BL spec S (mkC (MRun t p) fr s) -> exists spec', BL spec' S (step P (mkC (MRun t p) fr s)).
  Proof.
    intros (HDL & HB & HSc). destruct (dl_MRun P root res spec S t p fr s HDL) as (spec' & HDL'). exists spec'. split; [exact HDL'|]. clear HDL'.
    destruct HDL as (((Hr & Hf & HS & Ht & (Htree & Hst & (tk & Hg))) & HF & HK) & HD & HPk & _). cbn in HK, HS, Hg, HB, HSc, HD, HPk.
    destruct HK as ((old & ->) & (rest & Hts) & Hca).
    cbn [step c_mode c_frames c_st]. unfold get_task. rewrite Hg.
    assert (Hfin : forall o, let s1 := set_task t (mkTask None (tk_last tk) (tk_deps tk) (tk_ctxs tk) (tk_cact tk) (tk_ds tk) (tk_iter tk) (tk_next tk)) s in
              computed t s1 = false /\ batch_ok (complete_task t o s1) /\ sched_ok S (complete_task t o s1)).
    { intros o. cbn zeta.
      set (tkc := mkTask None (tk_last tk) (tk_deps tk) (tk_ctxs tk) (tk_cact tk) (tk_ds tk) (tk_iter tk) (tk_next tk)).
      pose proof (set_task_upd s t None tk tkc Hg) as U1. pose proof U1 as (G1 & _).
      split; [unfold computed; rewrite G1; reflexivity|].
      apply (keep_ok S s); [exact HB|exact HSc|rewrite bv_complete_task, bv_set_task; reflexivity|].
      rewrite (complete_task_closed t o _ None tkc G1 eq_refl).
      eapply iback_trans; [apply (iback_upd _ _ _ _ _ U1)|]. eapply iback_trans; [|apply iback_view; reflexivity].
      apply (iback_upd _ _ t (Some o) _ (upd_entry_put _ t _)). }
    inversion Htree as [v Ev|v Ev|e Ev|y k Hl Hk Ev|c k Hc Hk Ev|c k Hc Hk Ev]; subst p.
    - destruct (Hfin (Ok v)) as (Hnc & A). cbn zeta in *. rewrite Hnc. cbn [c_mode c_st]. exact A.
    - destruct (Hfin (Ok v)) as (Hnc & A). cbn zeta in *. rewrite Hnc. cbn [c_mode c_st]. exact A.
    - destruct (Hfin (Err e)) as (Hnc & A). cbn zeta in *. unfold accept_error. rewrite Hnc. cbn [c_mode c_st]. exact A.
    - (* Yield *)
      destruct (SInv_inst (Some t) t y spec s HS Hl) as (spec1 & (Ext & HS1 & Old) & Uw & A).
      pose proof (brel_inst spec (Some t) t y s HS Hl) as (Br & Bsb).
      destruct (inst t y s) as [y' s1]. cbn [fst snd] in *.
      assert (Hg1 : get t s1 = Some (mkFut None (KTask tk))) by (rewrite Old; [exact Hg|rewrite Hg; discriminate]).
      rewrite Hg1.
      set (tk2 := mkTask (Some k) y' (tk_deps tk ++ futs (extract y')) (tk_ctxs tk) (tk_cact tk) (tk_ds tk) (tk_iter tk) (tk_next tk)).
      pose proof (set_task_upd s1 t None tk tk2 Hg1) as U2.
      assert (HB2 : batch_ok (set_task t tk2 s1)).
      { apply (batch_ok_iframe s1); [apply Br; exact HB|apply bv_set_task|apply (iback_upd _ _ _ _ _ U2)]. }
      assert (HS2 : sched_ok S (set_task t tk2 s1)).
      { intros d kind idx key a Hd Hgd.
        assert (E : sb (set_task t tk2 s1) = sb s) by (destruct (bview_parts _ _ (bv_set_task t tk2 s1)) as (E & _); rewrite E; exact Bsb).
        rewrite E. apply (HSc d kind idx key a Hd).
        destruct (fid_eqb d t) eqn:Edt.
        - apply fid_eqb_eq in Edt. subst d. destruct U2 as (A2 & _). rewrite A2 in Hgd. discriminate.
        - assert (N : d <> t) by (intros ->; rewrite fid_eqb_refl in Edt; discriminate).
          destruct U2 as (_ & B2 & _). rewrite (B2 d N) in Hgd. rewrite <- Hgd. symmetry. apply Old.
          apply (S_ok_alloc S s d). apply (pk_ok _ _ _ _ HPk). exact Hd. }
      destruct (futs (extract y')); cbn [c_mode c_st]; split; assumption.
    - (* Enter *)
      unfold enter_ctx, get_task. rewrite Hg.
      set (tk1 := tk_with_ctxs tk (tk_ctxs tk ++ [c]) (tk_cact tk)).
      pose proof (set_task_upd s t None tk tk1 Hg) as U1.
      assert (V : forall s2, heap s2 = heap (set_task t tk1 s) -> bview s2 = bview (set_task t tk1 s) -> batch_ok s2 /\ sched_ok S s2).
      { intros s2 E1 E2. apply (keep_ok S s); [exact HB|exact HSc|rewrite E2; apply bv_set_task|].
        eapply iback_trans; [apply (iback_upd _ _ _ _ _ U1)|apply iback_view; exact E1]. }
      destruct c as [cid f|cid|cid var v]; cbn [c_mode c_frames c_st]; apply V; reflexivity.
    - (* Exit *)
      rewrite (exit_ctx_active t c s None tk Hg (Hca tk Hg)).
      set (tk1 := tk_with_ctxs tk (remove_ctx c (tk_ctxs tk)) (tk_cact tk)).
      pose proof (set_task_upd s t None tk tk1 Hg) as U1.
      assert (V : forall s2, heap s2 = heap (set_task t tk1 s) -> bview s2 = bview (set_task t tk1 s) -> batch_ok s2 /\ sched_ok S s2).
      { intros s2 E1 E2. apply (keep_ok S s); [exact HB|exact HSc|rewrite E2; apply bv_set_task|].
        eapply iback_trans; [apply (iback_upd _ _ _ _ _ U1)|apply iback_view; exact E1]. }
      unfold pause_plain. destruct c as [cid f|cid|cid var v]; cbn [c_mode c_frames c_st]; apply V; reflexivity.
  Qed.

  Lemma bl_MContRet spec S fr s : BL spec S (mkC MContRet fr s) -> BL spec S (step P (mkC MContRet fr s)).
  Proof.
    intros (HDL & HB & HSc). split; [apply (dl_MContRet P); exact HDL|].
    destruct HDL as ((_ & HF & HK) & _). cbn in HK, HB, HSc. destruct HK as (t & old & rest & -> & Hts & Hca).
    cbn [step c_mode c_frames c_st]. set (s1 := with_active s old).
    unfold get_task. change (get t s1) with (get t s).
    destruct (get t s) as [[out [tk| | |]]|] eqn:Hg; cbn [c_mode c_st];
      try (apply (keep_ok S s); [exact HB|exact HSc|reflexivity|apply iback_view; reflexivity]).
    apply (keep_ok S s); [exact HB|exact HSc|rewrite bv_set_task; reflexivity|].
    eapply iback_trans; [apply iback_view; reflexivity|apply (iback_upd s1 _ t out (tk_set_ds tk false))]. apply (set_task_upd s1 t out tk (tk_set_ds tk false)). exact Hg.
  Qed.

  Theorem bl_step spec S c : is_unwind (c_mode c) = false -> BL spec S c -> exists spec' S', BL spec' S' (step P c).
  Proof.
    destruct c as [m fr s]. destruct m; cbn [c_mode is_unwind]; intros Hu HI; try discriminate.
    - exists spec, S. apply bl_MValue; exact HI.
    - destruct (bl_MWaitHead spec S fr s HI) as (S' & H). exists spec, S'. exact H.
    - exists spec, S. apply bl_MAfterExec; exact HI.
    - destruct (bl_MExecLoop spec S fr s HI) as (S' & H). exists spec, S'. exact H.
    - exists spec, S. apply bl_MResume; exact HI.
    - destruct (bl_MRun spec S _ _ fr s HI) as (spec' & H). exists spec', S. exact H.
    - exists spec, S. apply bl_MContRet; exact HI.
    - exists spec, S. apply bl_MDeliver; exact HI.
    - exists spec, S. exact HI.
    - exists spec, S. exact HI.
  Qed.

  Theorem bl_run n : forall spec S c, BL spec S c -> no_unwind P n c -> exists spec' S', BL spec' S' (run P n c).
  Proof.
    induction n as [|n IH]; intros spec S c HI Hn; [exists spec, S; exact HI|].
    rewrite run_S. destruct (is_final (c_mode c)) eqn:Hf; [exists spec, S; exact HI|].
    destruct (bl_step spec S c) as (spec1 & S1 & HI1); [apply (Hn O); lia|exact HI|].
    apply (IH spec1 S1); [exact HI1|].
    intros k Hk. specialize (Hn (Datatypes.S k) ltac:(lia)). rewrite run_S, Hf in Hn. exact Hn.
  Qed.
End C04B.

(* ------------------------------------------------------------------ C04 theorem, with the batches *)
Section C04B_theorems.
  Variable P : params.
  Hypothesis HP : pointwise P.
  Variable p : prog.
  Hypothesis Ht : tree p.

  Let h := fst (create [] (FTask p) (st0 P)).
  Let s1 := snd (create [] (FTask p) (st0 P)).

  Lemma bl_reach n : no_unwind P n (start h s1) -> exists spec S, BL h (eval p) spec S (run P n (start h s1)).
  Proof.
    intros Hn.
    assert (Hent : forall u f, get u s1 = Some f -> exists o tk, f = mkFut o (KTask tk)).
    { intros u f Hgu. unfold s1, create, alloc in Hgu. cbn in Hgu. destruct (fid_eqb u [top_next (st0 P)]) eqn:E.
      - apply fid_eqb_eq in E. subst u. rewrite get_put_same in Hgu. inversion Hgu. eauto.
      - assert (N : u <> [top_next (st0 P)]) by (intros ->; rewrite fid_eqb_refl in E; discriminate).
        rewrite get_put_other in Hgu by exact N. discriminate. }
    assert (HB : batch_ok s1).
    { constructor.
      - intros u kind idx key a Hg. destruct (Hent u _ Hg) as (o & tk & E). discriminate.
      - intros kind idx Hd. cbn in Hd. discriminate.
      - intros u o kind idx key a Hg. destruct (Hent u _ Hg) as (o' & tk & E). discriminate.
      - intros kind idx []. }
    (* the initial DL invariant, as in MachineC04.dl_reach *)
    pose proof (SInv_create (fun _ => None) None [] (FTask p) (st0 P) (SInv_empty P) (tf_task p Ht)) as HC.
    cbn zeta in HC. fold h s1 in HC. destruct HC as (_ & HS1 & Hnew & _).
    assert (Hg : is_task h s1) by (unfold h, s1, create, alloc; cbn; eexists _, _; apply get_put_same).
    assert (HI : CInv h (eval p) (spec_add (fun _ => None) h (eval p)) (start h s1)).
    { apply CInv_intro; [unfold spec_add; rewrite fid_eqb_refl; reflexivity|reflexivity|exact HS1|exact Hg|reflexivity]. }
    assert (HFL : FL h (eval p) (spec_add (fun _ => None) h (eval p)) (start h s1)).
    { split; [exact HI|]. cbn. split; [|reflexivity].
      pose proof (flags_create [] (FTask p) (st0 P)) as HF. fold s1 in HF. apply HF.
      intros u tk Hgu. discriminate. }
    assert (Hent2 : forall u o tk, get u s1 = Some (mkFut o (KTask tk)) -> tk_deps tk = [] /\ tk_iter tk = 0%Z).
    { intros u o tk Hgu. unfold s1, create, alloc in Hgu. cbn in Hgu. destruct (fid_eqb u [top_next (st0 P)]) eqn:E.
      - apply fid_eqb_eq in E. subst u. rewrite get_put_same in Hgu. inversion Hgu. split; reflexivity.
      - assert (N : u <> [top_next (st0 P)]) by (intros ->; rewrite fid_eqb_refl in E; discriminate).
        rewrite get_put_other in Hgu by exact N. discriminate. }
    assert (HD : deps_ok h s1).
    { constructor.
      - intros u o tk d Hgu Hin. destruct (Hent2 u o tk Hgu) as [E _]. rewrite E in Hin. destruct Hin.
      - intros u u' tk tk' d Hgu _ Hin. destruct (Hent2 u None tk Hgu) as [E _]. rewrite E in Hin. destruct Hin.
      - intros u tk Hgu. destruct (Hent2 u None tk Hgu) as [E _]. rewrite E. constructor.
      - intros u o tk Hgu Hin. destruct (Hent2 u o tk Hgu) as [E _]. rewrite E in Hin. destruct Hin.
      - intros u tk Hgu Hne. destruct (Hent2 u None tk Hgu) as [E _]. congruence.
      - intros u o tk Hgu. destruct (Hent2 u o tk Hgu) as [_ E]. rewrite E. lia. }
    apply (bl_run P HP h (eval p) n (spec_add (fun _ => None) h (eval p)) (fun _ => False) (start h s1)); [|exact Hn].
    split; [split; [exact HFL|cbn; split; [exact HD|exact I]]|]. cbn. split; [exact HB|exact I].
  Qed.

  (* as MachineC04.flush_only_when_stuck_tree, and moreover every batch item in S belongs to a batch that the
     scheduler knows (it is in TaskScheduler._batches), that has not been flushed, and that contains the item -
     so the flush that follows can make progress on exactly these items *)
  Theorem flush_only_when_stuck_pending_tree n :
    no_unwind P n (start h s1) -> c_mode (run P n (start h s1)) = MAfterExec ->
    computed h (c_st (run P n (start h s1))) = false ->
    exists S : fid -> Prop, S h /\ (forall d, S d -> S_ok S (c_st (run P n (start h s1))) d) /\
      forall d kind idx key a, S d -> get d (c_st (run P n (start h s1))) = Some (mkFut None (KItem kind idx key a)) ->
        In (kind, idx) (sb (c_st (run P n (start h s1)))) /\
        In d (b_items (get_batch (kind, idx) (c_st (run P n (start h s1))))) /\
        b_done (get_batch (kind, idx) (c_st (run P n (start h s1)))) = false.
  Proof.
    intros Hn Hm Hc. destruct (bl_reach n Hn) as (spec & S & ((_ & HDL) & HBL)).
    destruct (run P n (start h s1)) as [m fr s]. cbn [c_mode c_st] in *. subst m.
    destruct HDL as (_ & [Hc'|(HSh & HSok)]); [congruence|]. destruct HBL as (HB & HSc).
    exists S. split; [exact HSh|]. split; [exact HSok|].
    intros d kind idx key a Hd Hg. split; [apply (HSc d kind idx key a Hd Hg)|apply (bo_member s HB d kind idx key a Hg)].
  Qed.
End C04B_theorems.
