(* C03, liveness, second part (tree programs; built on MachineC03T, the stuck-set theorems of MachineC04/C04B,
   the creation-number invariant of MachineC01S and the batch-item invariant of MachineC05T):
   (1) dependencies are younger than the task that awaits them (acyclicity of the dependency lists);
   (2) a flush at the end of an _execute pass makes progress: the stuck set contains a batch item, the scheduler
       finds a batch, and the step computes at least one future that was not computed;
   (3) item-free programs terminate (no pass ends with the root uncomputed). *)
From Asynq Require Import Machine Seq proofs.ProgProofs proofs.MachineFrame proofs.MachineC05 proofs.MachineC08 proofs.MachineC01
  proofs.MachineDFS proofs.MachineC04 proofs.MachineC04B proofs.MachineC01S proofs.MachineDFSS proofs.MachineC04S
  proofs.MachineC05T proofs.MachineC03T.

(* ------------------------------------------------------------------ the greatest member of a stuck set is an item *)
Lemma stuck_has_item (s : st) (S : Sset) :
  deps_younger s -> (forall d f, get d s = Some f -> (fnum d < top_next s)%Z) ->
  (forall d, S d -> S_ok S s d) ->
  forall d, S d -> exists e kind idx key a, S e /\ get e s = Some (mkFut None (KItem kind idx key a)).
Proof.
  intros Hy Hb Hok.
  assert (G : forall m d, (Z.to_nat (top_next s - fnum d) < m)%nat -> S d ->
                exists e kind idx key a, S e /\ get e s = Some (mkFut None (KItem kind idx key a))).
  { induction m as [|m IH]; intros d Hm HSd; [lia|].
    destruct (Hok d HSd) as [(tk & Hg & _ & (e & He & HSe) & _)|(kind & idx & key & a & Hg)].
    - apply (IH e); [|exact HSe]. pose proof (Hy d None tk Hg e He) as Hlt.
      assert (Hbe : (fnum e < top_next s)%Z).
      { destruct (Hok e HSe) as [(tke & Hge & _)|(k1 & i1 & k2 & a1 & Hge)]; apply (Hb e _ Hge). }
      lia.
    - exists d, kind, idx, key, a. split; [exact HSd|exact Hg]. }
  intros d HSd. apply (G (Datatypes.S (Z.to_nat (top_next s - fnum d))) d); [lia|exact HSd].
Qed.

Section Live.
  Variable P : params.
  Hypothesis HP : pointwise P.
  Variable p0 : prog.
  Hypothesis Ht0 : tree p0.

  Let h := fst (create [] (FTask p0) (st0 P)).
  Let s1 := snd (create [] (FTask p0) (st0 P)).
  Let c0 := start h s1.

  (* the creation-number invariant of MachineC01S at every configuration of a clean run *)
  Lemma reach_SI n : no_unwind P n c0 -> c_mode (run P n c0) <> MStuck ->
    exists spec R, SI spec R (c_st (run P n c0)).
  Proof.
    intros Hn Hns. pose proof (Hn n (Nat.le_refl n)) as Hu.
    destruct (fls_reach P HP p0 (tree_stree p0 Ht0) n Hn) as (spec & (HCI & _)).
    fold h s1 c0 in HCI. unfold CI in HCI.
    destruct (run P n c0) as [m fr s]. cbn [c_mode c_frames c_st] in *.
    destruct m; try discriminate; try (destruct HCI as (_ & HS & _); eexists _, _; exact HS).
    - destruct HCI as (_ & HS). eexists _, _; exact HS.
    - exfalso. apply Hns. reflexivity.
  Qed.

  (* (1) dependencies are younger: a task [a] awaits only futures created after it *)
  Theorem deps_are_younger n : no_unwind P n c0 -> c_mode (run P n c0) <> MStuck ->
    forall t o tk, get t (c_st (run P n c0)) = Some (mkFut o (KTask tk)) ->
    exists a, t = [a] /\ (0 <= a < top_next (c_st (run P n c0)))%Z /\
      forall d, In d (tk_deps tk) -> (a < fnum d)%Z /\
        forall f, get d (c_st (run P n c0)) = Some f -> exists b, d = [b] /\ (a < b)%Z.
  Proof.
    intros Hn Hns t o tk Hg. destruct (reach_SI n Hn Hns) as (spec & R & HS).
    destruct (SI_entry _ _ _ _ _ HS Hg) as ((a & Ea & Ha) & _). exists a. split; [exact Ea|]. split; [exact Ha|].
    intros d Hd. pose proof (SI_deps _ _ _ _ _ _ HS Hg d Hd) as Hlt. rewrite Ea in Hlt. cbn [fnum hd] in Hlt.
    split; [exact Hlt|]. intros f Hf. destruct (SI_entry _ _ _ _ _ HS Hf) as ((b & Eb & Hb) & _).
    exists b. split; [exact Eb|]. rewrite Eb in Hlt. cbn [fnum hd] in Hlt. exact Hlt.
  Qed.

  Lemma Inv_s1 : MachineC05T.Inv s1.
  Proof.
    pose proof (MachineC05T.Inv_st0 P) as H0.
    apply (Inv_mild (st0 P)); [exact H0|apply mild_create|].
    destruct H0 as (D & Bi & _). exact (BI_create [] (FTask p0) (st0 P) D Bi).
  Qed.

  (* (2a) at a flush point the stuck set contains an uncomputed batch item of a scheduled pending batch *)
  Theorem flush_point_has_item n :
    no_unwind P n c0 -> c_mode (run P n c0) = MAfterExec -> computed h (c_st (run P n c0)) = false ->
    exists e kind idx key a, get e (c_st (run P n c0)) = Some (mkFut None (KItem kind idx key a)) /\
      In (kind, idx) (sb (c_st (run P n c0))) /\
      In e (b_items (get_batch (kind, idx) (c_st (run P n c0)))) /\
      b_done (get_batch (kind, idx) (c_st (run P n c0))) = false.
  Proof.
    intros Hn Hm Hc.
    destruct (flush_only_when_stuck_pending_tree P HP p0 Ht0 n Hn Hm Hc) as (S & HSh & HSok & HSb).
    fold h s1 c0 in HSh, HSok, HSb.
    assert (Hns : c_mode (run P n c0) <> MStuck) by (rewrite Hm; discriminate).
    destruct (reach_SI n Hn Hns) as (spec & R & HS).
    destruct (stuck_has_item (c_st (run P n c0)) S) with (d := h) as (e & kind & idx & key & a & HSe & Hge).
    - apply (SI_deps_younger _ _ _ HS).
    - intros d f Hf. apply (SI_fnum_lt _ _ _ _ _ HS Hf).
    - exact HSok.
    - exact HSh.
    - exists e, kind, idx, key, a. split; [exact Hge|]. apply (HSb e kind idx key a HSe Hge).
  Qed.

  (* (2b) the flush makes progress: the scheduler finds a batch, and the step from MAfterExec computes a
     batch item that was not computed; nothing computed is lost *)
  Theorem flush_makes_progress n :
    no_unwind P n c0 -> c_mode (run P n c0) = MAfterExec -> computed h (c_st (run P n c0)) = false ->
    c_mode (run P (S n) c0) = MWaitHead /\
    (exists d, computed d (c_st (run P n c0)) = false /\ computed d (c_st (run P (S n) c0)) = true /\
       exists kind idx key a, get d (c_st (run P n c0)) = Some (mkFut None (KItem kind idx key a))) /\
    (forall x, computed x (c_st (run P n c0)) = true -> computed x (c_st (run P (S n) c0)) = true).
  Proof.
    intros Hn Hm Hc.
    destruct (flush_point_has_item n Hn Hm Hc) as (e & kind & idx & key & a & Hge & Hsb & Hin & Hnd).
    destruct (tree_run_CInv P p0 n HP Ht0 Hn) as (spec & HC). fold h s1 c0 in HC.
    pose proof (MachineC05T.Inv_run P n c0 Inv_s1) as (_ & HBI & _).
    replace (S n) with (n + 1)%nat by lia. rewrite run_add, run_one.
    destruct (run P n c0) as [m fr s] eqn:Er. cbn [c_mode c_st] in *. subst m.
    destruct HC as (_ & Hf & HS & _). cbn [c_mode c_frames c_st frames_ok running_of] in Hf, HS. subst fr.
    pose proof (continue_with_batch_spec P s) as Hcw.
    destruct (SInv_continue_with_batch spec None P s HP HS) as (_ & Hmono & _).
    destruct (select P s) as [[k|] s2] eqn:Sel.
    2: { exfalso. pose proof (select_none P s s2 Sel (kind, idx) Hsb) as El. unfold eligible in El. rewrite Hnd in El.
         destruct (b_items (get_batch (kind, idx) s)); [destruct Hin|discriminate]. }
    destruct (select_spec P s k s2 Sel) as (_ & Hel & _).
    cbn zeta in Hcw. destruct Hcw as (_ & _ & _ & Hall).
    unfold eligible in Hel. apply andb_true_iff in Hel as [Hd He]. apply negb_true_iff in Hd.
    destruct (b_items (get_batch k s)) as [|d0 rest] eqn:Eit; [discriminate|].
    destruct (HBI k d0) as (out & key0 & a0 & Hg0 & Hout); [rewrite Eit; left; reflexivity|].
    specialize (Hout Hd). subst out.
    cbn [step c_mode c_frames c_st]. rewrite Hc. cbn [c_mode c_st]. split; [reflexivity|]. split.
    - exists d0. split; [unfold computed; rewrite Hg0; reflexivity|]. split.
      + apply Hall; [left; reflexivity|rewrite Hg0; discriminate].
      + eexists _, _, _, _. exact Hg0.
    - exact Hmono.
  Qed.
End Live.

Theorem deps_are_younger_tree P p n :
  pointwise P -> tree p ->
  let h := fst (create [] (FTask p) (st0 P)) in
  let s1 := snd (create [] (FTask p) (st0 P)) in
  no_unwind P n (start h s1) -> c_mode (run P n (start h s1)) <> MStuck ->
  forall t o tk, get t (c_st (run P n (start h s1))) = Some (mkFut o (KTask tk)) ->
  exists a, t = [a] /\ (0 <= a < top_next (c_st (run P n (start h s1))))%Z /\
    forall d, In d (tk_deps tk) -> (a < fnum d)%Z /\
      forall f, get d (c_st (run P n (start h s1))) = Some f -> exists b, d = [b] /\ (a < b)%Z.
Proof. intros HP Ht. cbn zeta. exact (deps_are_younger P HP p Ht n). Qed.

Theorem flush_point_has_item_tree P p n :
  pointwise P -> tree p ->
  let h := fst (create [] (FTask p) (st0 P)) in
  let s1 := snd (create [] (FTask p) (st0 P)) in
  no_unwind P n (start h s1) -> c_mode (run P n (start h s1)) = MAfterExec ->
  computed h (c_st (run P n (start h s1))) = false ->
  exists e kind idx key a, get e (c_st (run P n (start h s1))) = Some (mkFut None (KItem kind idx key a)) /\
    In (kind, idx) (sb (c_st (run P n (start h s1)))) /\
    In e (b_items (get_batch (kind, idx) (c_st (run P n (start h s1))))) /\
    b_done (get_batch (kind, idx) (c_st (run P n (start h s1)))) = false.
Proof. intros HP Ht. cbn zeta. exact (flush_point_has_item P HP p Ht n). Qed.

Theorem flush_makes_progress_tree P p n :
  pointwise P -> tree p ->
  let h := fst (create [] (FTask p) (st0 P)) in
  let s1 := snd (create [] (FTask p) (st0 P)) in
  no_unwind P n (start h s1) -> c_mode (run P n (start h s1)) = MAfterExec ->
  computed h (c_st (run P n (start h s1))) = false ->
  c_mode (run P (S n) (start h s1)) = MWaitHead /\
  (exists d, computed d (c_st (run P n (start h s1))) = false /\ computed d (c_st (run P (S n) (start h s1))) = true /\
     exists kind idx key a, get d (c_st (run P n (start h s1))) = Some (mkFut None (KItem kind idx key a))) /\
  (forall x, computed x (c_st (run P n (start h s1))) = true -> computed x (c_st (run P (S n) (start h s1))) = true).
Proof. intros HP Ht. cbn zeta. exact (flush_makes_progress P HP p Ht n). Qed.
