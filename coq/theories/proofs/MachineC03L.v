(* C03, liveness, second part (tree programs; built on MachineC03T, the stuck-set theorems of MachineC04/C04B,
   the creation-number invariant of MachineC01S and the batch-item invariant of MachineC05T):
   (1) dependencies are younger than the task that awaits them (acyclicity of the dependency lists);
   (2) a flush at the end of an _execute pass makes progress: the stuck set contains a batch item, the scheduler
       finds a batch, and the step computes at least one future that was not computed;
   (3) item-free programs terminate (no pass ends with the root uncomputed). *)
From Asynq Require Import Machine Seq proofs.ProgProofs proofs.MachineFrame proofs.MachineC05 proofs.MachineC08 proofs.MachineC01
  proofs.MachineDFS proofs.MachineC04 proofs.MachineC04B proofs.MachineC01S proofs.MachineDFSS proofs.MachineC04S
  proofs.MachineC05T proofs.MachineC03T proofs.MachineSteps proofs.MachineKeep.

(* ------------------------------------------------------------------ the greatest member of a stuck set is an item *)
Lemma stuck_has_item (s : st) (S : Sset) :
  deps_younger s -> (forall d f, get d s = Some f -> (fnum d < top_next s)%Z) ->
  (forall d, S d -> S_ok S s d) ->
  forall d, S d -> exists e kind idx key a, S e /\ get e s = Some (mkFut None (KItem kind idx key a)).
Proof.
  intros Hy Hb Hok.
  assert (G : forall m d, (Z.to_nat (top_next s - fnum d) < m)%nat -> S d ->
                exists e kind idx key a, S e /\ get e s = Some (mkFut None (KItem kind idx key a))).
  { induction m as [|m IH]; intros d Hm HSd; [lia|].
    destruct (Hok d HSd) as [(tk & Hg & _ & (e & He & HSe) & _)|(kind & idx & key & a & Hg)].
    - apply (IH e); [|exact HSe]. pose proof (Hy d None tk Hg e He) as Hlt.
      assert (Hbe : (fnum e < top_next s)%Z).
      { destruct (Hok e HSe) as [(tke & Hge & _)|(k1 & i1 & k2 & a1 & Hge)]; apply (Hb e _ Hge). }
      lia.
    - exists d, kind, idx, key, a. split; [exact HSd|exact Hg]. }
  intros d HSd. apply (G (Datatypes.S (Z.to_nat (top_next s - fnum d))) d); [lia|exact HSd].
Qed.

Section Live.
  Variable P : params.
  Hypothesis HP : pointwise P.
  Variable p0 : prog.
  Hypothesis Ht0 : tree p0.

  Let h := fst (create [] (FTask p0) (st0 P)).
  Let s1 := snd (create [] (FTask p0) (st0 P)).
  Let c0 := start h s1.

  (* the creation-number invariant of MachineC01S at every configuration of a clean run *)
  Lemma reach_SI n : no_unwind P n c0 -> c_mode (run P n c0) <> MStuck ->
    exists spec R, SI spec R (c_st (run P n c0)).
  Proof.
    intros Hn Hns. pose proof (Hn n (Nat.le_refl n)) as Hu.
    destruct (fls_reach P HP p0 (tree_stree p0 Ht0) n Hn) as (spec & (HCI & _)).
    fold h s1 c0 in HCI. unfold CI in HCI.
    destruct (run P n c0) as [m fr s]. cbn [c_mode c_frames c_st] in *.
    destruct m; try discriminate; try (destruct HCI as (_ & HS & _); eexists _, _; exact HS).
    - destruct HCI as (_ & HS). eexists _, _; exact HS.
    - exfalso. apply Hns. reflexivity.
  Qed.

  (* (1) dependencies are younger: a task [a] awaits only futures created after it *)
  Theorem deps_are_younger n : no_unwind P n c0 -> c_mode (run P n c0) <> MStuck ->
    forall t o tk, get t (c_st (run P n c0)) = Some (mkFut o (KTask tk)) ->
    exists a, t = [a] /\ (0 <= a < top_next (c_st (run P n c0)))%Z /\
      forall d, In d (tk_deps tk) -> (a < fnum d)%Z /\
        forall f, get d (c_st (run P n c0)) = Some f -> exists b, d = [b] /\ (a < b)%Z.
  Proof.
    intros Hn Hns t o tk Hg. destruct (reach_SI n Hn Hns) as (spec & R & HS).
    destruct (SI_entry _ _ _ _ _ HS Hg) as ((a & Ea & Ha) & _). exists a. split; [exact Ea|]. split; [exact Ha|].
    intros d Hd. pose proof (SI_deps _ _ _ _ _ _ HS Hg d Hd) as Hlt. rewrite Ea in Hlt. cbn [fnum hd] in Hlt.
    split; [exact Hlt|]. intros f Hf. destruct (SI_entry _ _ _ _ _ HS Hf) as ((b & Eb & Hb) & _).
    exists b. split; [exact Eb|]. rewrite Eb in Hlt. cbn [fnum hd] in Hlt. exact Hlt.
  Qed.

  Lemma Inv_s1 : MachineC05T.Inv s1.
  Proof.
    pose proof (MachineC05T.Inv_st0 P) as H0.
    apply (Inv_mild (st0 P)); [exact H0|apply mild_create|].
    destruct H0 as (D & Bi & _). exact (BI_create [] (FTask p0) (st0 P) D Bi).
  Qed.

  (* (2a) at a flush point the stuck set contains an uncomputed batch item of a scheduled pending batch *)
  Theorem flush_point_has_item n :
    no_unwind P n c0 -> c_mode (run P n c0) = MAfterExec -> computed h (c_st (run P n c0)) = false ->
    exists e kind idx key a, get e (c_st (run P n c0)) = Some (mkFut None (KItem kind idx key a)) /\
      In (kind, idx) (sb (c_st (run P n c0))) /\
      In e (b_items (get_batch (kind, idx) (c_st (run P n c0)))) /\
      b_done (get_batch (kind, idx) (c_st (run P n c0))) = false.
  Proof.
    intros Hn Hm Hc.
    destruct (flush_only_when_stuck_pending_tree P HP p0 Ht0 n Hn Hm Hc) as (S & HSh & HSok & HSb).
    fold h s1 c0 in HSh, HSok, HSb.
    assert (Hns : c_mode (run P n c0) <> MStuck) by (rewrite Hm; discriminate).
    destruct (reach_SI n Hn Hns) as (spec & R & HS).
    destruct (stuck_has_item (c_st (run P n c0)) S) with (d := h) as (e & kind & idx & key & a & HSe & Hge).
    - apply (SI_deps_younger _ _ _ HS).
    - intros d f Hf. apply (SI_fnum_lt _ _ _ _ _ HS Hf).
    - exact HSok.
    - exact HSh.
    - exists e, kind, idx, key, a. split; [exact Hge|]. apply (HSb e kind idx key a HSe Hge).
  Qed.

  (* (2b) the flush makes progress: the scheduler finds a batch, and the step from MAfterExec computes a
     batch item that was not computed; nothing computed is lost *)
  Theorem flush_makes_progress n :
    no_unwind P n c0 -> c_mode (run P n c0) = MAfterExec -> computed h (c_st (run P n c0)) = false ->
    c_mode (run P (S n) c0) = MWaitHead /\
    (exists d, computed d (c_st (run P n c0)) = false /\ computed d (c_st (run P (S n) c0)) = true /\
       exists kind idx key a, get d (c_st (run P n c0)) = Some (mkFut None (KItem kind idx key a))) /\
    (forall x, computed x (c_st (run P n c0)) = true -> computed x (c_st (run P (S n) c0)) = true).
  Proof.
    intros Hn Hm Hc.
    destruct (flush_point_has_item n Hn Hm Hc) as (e & kind & idx & key & a & Hge & Hsb & Hin & Hnd).
    destruct (tree_run_CInv P p0 n HP Ht0 Hn) as (spec & HC). fold h s1 c0 in HC.
    pose proof (MachineC05T.Inv_run P n c0 Inv_s1) as (_ & HBI & _).
    replace (S n) with (n + 1)%nat by lia. rewrite run_add, run_one.
    destruct (run P n c0) as [m fr s] eqn:Er. cbn [c_mode c_st] in *. subst m.
    destruct HC as (_ & Hf & HS & _). cbn [c_mode c_frames c_st frames_ok running_of] in Hf, HS. subst fr.
    pose proof (continue_with_batch_spec P s) as Hcw.
    destruct (SInv_continue_with_batch spec None P s HP HS) as (_ & Hmono & _).
    destruct (select P s) as [[k|] s2] eqn:Sel.
    2: { exfalso. pose proof (select_none P s s2 Sel (kind, idx) Hsb) as El. unfold eligible in El. rewrite Hnd in El.
         destruct (b_items (get_batch (kind, idx) s)); [destruct Hin|discriminate]. }
    destruct (select_spec P s k s2 Sel) as (_ & Hel & _).
    cbn zeta in Hcw. destruct Hcw as (_ & _ & _ & Hall).
    unfold eligible in Hel. apply andb_true_iff in Hel as [Hd He]. apply negb_true_iff in Hd.
    destruct (b_items (get_batch k s)) as [|d0 rest] eqn:Eit; [discriminate|].
    destruct (HBI k d0) as (out & key0 & a0 & Hg0 & Hout); [rewrite Eit; left; reflexivity|].
    specialize (Hout Hd). subst out.
    cbn [step c_mode c_frames c_st]. rewrite Hc. cbn [c_mode c_st]. split; [reflexivity|]. split.
    - exists d0. split; [unfold computed; rewrite Hg0; reflexivity|]. split.
      + apply Hall; [left; reflexivity|rewrite Hg0; discriminate].
      + eexists _, _, _, _. exact Hg0.
    - exact Hmono.
  Qed.
End Live.

Theorem deps_are_younger_tree P p n :
  pointwise P -> tree p ->
  let h := fst (create [] (FTask p) (st0 P)) in
  let s1 := snd (create [] (FTask p) (st0 P)) in
  no_unwind P n (start h s1) -> c_mode (run P n (start h s1)) <> MStuck ->
  forall t o tk, get t (c_st (run P n (start h s1))) = Some (mkFut o (KTask tk)) ->
  exists a, t = [a] /\ (0 <= a < top_next (c_st (run P n (start h s1))))%Z /\
    forall d, In d (tk_deps tk) -> (a < fnum d)%Z /\
      forall f, get d (c_st (run P n (start h s1))) = Some f -> exists b, d = [b] /\ (a < b)%Z.
Proof. intros HP Ht. cbn zeta. exact (deps_are_younger P HP p Ht n). Qed.

Theorem flush_point_has_item_tree P p n :
  pointwise P -> tree p ->
  let h := fst (create [] (FTask p) (st0 P)) in
  let s1 := snd (create [] (FTask p) (st0 P)) in
  no_unwind P n (start h s1) -> c_mode (run P n (start h s1)) = MAfterExec ->
  computed h (c_st (run P n (start h s1))) = false ->
  exists e kind idx key a, get e (c_st (run P n (start h s1))) = Some (mkFut None (KItem kind idx key a)) /\
    In (kind, idx) (sb (c_st (run P n (start h s1)))) /\
    In e (b_items (get_batch (kind, idx) (c_st (run P n (start h s1))))) /\
    b_done (get_batch (kind, idx) (c_st (run P n (start h s1)))) = false.
Proof. intros HP Ht. cbn zeta. exact (flush_point_has_item P HP p Ht n). Qed.

Theorem flush_makes_progress_tree P p n :
  pointwise P -> tree p ->
  let h := fst (create [] (FTask p) (st0 P)) in
  let s1 := snd (create [] (FTask p) (st0 P)) in
  no_unwind P n (start h s1) -> c_mode (run P n (start h s1)) = MAfterExec ->
  computed h (c_st (run P n (start h s1))) = false ->
  c_mode (run P (S n) (start h s1)) = MWaitHead /\
  (exists d, computed d (c_st (run P n (start h s1))) = false /\ computed d (c_st (run P (S n) (start h s1))) = true /\
     exists kind idx key a, get d (c_st (run P n (start h s1))) = Some (mkFut None (KItem kind idx key a))) /\
  (forall x, computed x (c_st (run P n (start h s1))) = true -> computed x (c_st (run P (S n) (start h s1))) = true).
Proof. intros HP Ht. cbn zeta. exact (flush_makes_progress P HP p Ht n). Qed.

(* ================================================================== (3) item-free programs *)
(* tree programs without any batch item, whatever outcomes are passed to the continuations *)
Inductive noitem : prog -> Prop :=
| ni_ret v : noitem (Ret v)
| ni_result v : noitem (Result v)
| ni_raise e : noitem (Raise e)
| ni_yield s k : (forall l, In l (leaves s) -> noitem_leaf l) -> (forall o, noitem (k o)) -> noitem (Yield s k)
| ni_enter c k : plain_ctx c = true -> noitem k -> noitem (Enter c k)
| ni_exit c k : plain_ctx c = true -> noitem k -> noitem (Exit c k)
with noitem_leaf : leaf -> Prop :=
| nl_new f : noitem_fexpr f -> noitem_leaf (LNew f)
| nl_bad : noitem_leaf LBad
with noitem_fexpr : fexpr -> Prop :=
| nf_task p : noitem p -> noitem_fexpr (FTask p)
| nf_const v : noitem_fexpr (FConst v)
| nf_error e : noitem_fexpr (FError e)
| nf_lazy o : noitem_fexpr (FLazy o).

Scheme noitem_mut := Minimality for noitem Sort Prop
with noitem_leaf_mut := Minimality for noitem_leaf Sort Prop
with noitem_fexpr_mut := Minimality for noitem_fexpr Sort Prop.

Lemma noitem_tree p : noitem p -> tree p.
Proof. apply (noitem_mut tree tree_leaf tree_fexpr); intros; constructor; auto. Qed.

(* the heap of an item-free computation: no batch item, and every suspended generator is item-free *)
Definition gen_ok (tk : task) : Prop := forall k, tk_gen tk = Some k -> forall o, noitem (k o).

Definition fut_ok (f : fut) : Prop :=
  match f_kind f with
  | KItem _ _ _ _ => False
  | KTask tk => gen_ok tk
  | _ => True
  end.

Definition NIh (s : st) : Prop := forall u f, get u s = Some f -> fut_ok f.

Lemma NIh_view s s' : heap s' = heap s -> NIh s -> NIh s'.
Proof. intros Hh Hs u f Hg. apply (Hs u f). unfold get in *. rewrite <- Hh. exact Hg. Qed.

Lemma NIh_put u f s : fut_ok f -> NIh s -> NIh (put u f s).
Proof.
  intros Hf Hs u0 f0 Hg. destruct (fid_eqb u0 u) eqn:E.
  - apply fid_eqb_eq in E. subst u0. rewrite get_put_same in Hg. inversion Hg; subst f0. exact Hf.
  - rewrite get_put_other in Hg by (intros ->; rewrite fid_eqb_refl in E; discriminate). apply (Hs u0 f0 Hg).
Qed.

Lemma NIh_set_task t tk s : gen_ok tk -> NIh s -> NIh (set_task t tk s).
Proof. intros Hk Hs. unfold set_task. destruct (get t s); [apply NIh_put; [exact Hk|exact Hs]|exact Hs]. Qed.

Lemma NIh_gen s x o tk : NIh s -> get x s = Some (mkFut o (KTask tk)) -> gen_ok tk.
Proof. intros Hs Hg. exact (Hs x _ Hg). Qed.

Lemma NIh_gen_task s x tk : NIh s -> get_task x s = Some tk -> gen_ok tk.
Proof. intros Hs Hg. apply get_task_some in Hg as (o & Hg). exact (NIh_gen s x o tk Hs Hg). Qed.

Lemma gen_ok_ctxs tk cs a : gen_ok tk -> gen_ok (tk_with_ctxs tk cs a).
Proof. intros H. exact H. Qed.

Lemma gen_ok_ds tk b : gen_ok tk -> gen_ok (tk_set_ds tk b).
Proof. intros H. exact H. Qed.

Lemma gen_ok_none a b c d e f g : gen_ok (mkTask None a b c d e f g).
Proof. intros k Hk. discriminate. Qed.

Lemma NIh_enter_ctx x c s : NIh s -> NIh (enter_ctx x c s).
Proof.
  intros Hs. unfold enter_ctx.
  assert (H : NIh (match get_task x s with
                   | Some tk => set_task x (tk_with_ctxs tk (tk_ctxs tk ++ [c]) (tk_cact tk)) s
                   | None => s end)).
  { destruct (get_task x s) as [tk|] eqn:G; [|exact Hs]. apply NIh_set_task; [|exact Hs].
    apply gen_ok_ctxs. exact (NIh_gen_task s x tk Hs G). }
  destruct c; (eapply NIh_view; [|exact H]); reflexivity.
Qed.

Lemma NIh_exit_ctx x c s : NIh s -> NIh (exit_ctx x c s).
Proof.
  intros Hs. unfold exit_ctx. destruct (get_task x s) as [tk|] eqn:G.
  - assert (H : NIh (set_task x (tk_with_ctxs tk (remove_ctx c (tk_ctxs tk)) (tk_cact tk)) s)).
    { apply NIh_set_task; [|exact Hs]. apply gen_ok_ctxs. exact (NIh_gen_task s x tk Hs G). }
    destruct (tk_cact tk); [|exact H]. destruct c; (eapply NIh_view; [|exact H]); reflexivity.
  - destruct c; (eapply NIh_view; [|exact Hs]); reflexivity.
Qed.

Lemma NIh_fold {X} (f : st -> X -> st) l : (forall s x, NIh s -> NIh (f s x)) -> forall s, NIh s -> NIh (fold_left f l s).
Proof. intros H. induction l as [|x l IH]; intros s Hs; cbn; [exact Hs|]. apply IH, H, Hs. Qed.

Lemma NIh_fold_pair {X E} (f : st * E -> X -> st * E) l :
  (forall a x, NIh (fst a) -> NIh (fst (f a x))) -> forall a, NIh (fst a) -> NIh (fst (fold_left f l a)).
Proof. intros H. induction l as [|x l IH]; intros a Ha; cbn; [exact Ha|]. apply IH, H, Ha. Qed.

Lemma NIh_complete_task x o s : NIh s -> NIh (complete_task x o s).
Proof.
  intros Hs. unfold complete_task. destruct (get_task x s) as [tk|]; [|exact Hs].
  assert (H : NIh (match tk_gen tk with
                   | Some _ => fold_left (fun s c => exit_ctx x c s) (rev (tk_ctxs tk)) s
                   | None => s end)).
  { destruct (tk_gen tk); [|exact Hs]. apply NIh_fold; [|exact Hs]. intros s0 c0 H0. apply NIh_exit_ctx. exact H0. }
  destruct (get_task x _) as [tk1|]; [|exact H].
  match goal with |- NIh (emit ?e ?z) => apply (NIh_view z); [reflexivity|] end.
  apply NIh_put; [apply gen_ok_none|exact H].
Qed.

Lemma NIh_accept_error x e s : NIh s -> NIh (accept_error x e s).
Proof. intros Hs. unfold accept_error. destruct (computed x s); [exact Hs|apply NIh_complete_task; exact Hs]. Qed.

Lemma NIh_resume_contexts x s : NIh s -> NIh (resume_contexts x s).
Proof.
  intros Hs. unfold resume_contexts. destruct (get_task x s) as [tk|] eqn:G; [|exact Hs].
  destruct (tk_cact tk); [exact Hs|].
  match goal with |- context [fold_left ?f ?l ?a] => assert (H2 : NIh (fst (fold_left f l a))) end.
  { apply NIh_fold_pair.
    - intros [s0 e0] c H0. cbn [fst] in *. pose proof (heap_resume1 x c s0) as Rr. destruct (resume1 x c s0). cbn [fst] in *.
      apply (NIh_view s0); [exact Rr|exact H0].
    - cbn [fst]. apply NIh_set_task; [|exact Hs]. apply gen_ok_ctxs. exact (NIh_gen_task s x tk Hs G). }
  match goal with |- context [fold_left ?f ?l ?a] => destruct (fold_left f l a) as [s1 [e|]] end;
    cbn [fst] in H2; [apply NIh_accept_error; exact H2|exact H2].
Qed.

Lemma NIh_pause_contexts x s : NIh s -> NIh (pause_contexts x s).
Proof.
  intros Hs. unfold pause_contexts. destruct (get_task x s) as [tk|] eqn:G; [|exact Hs].
  destruct (negb (tk_cact tk)); [exact Hs|].
  match goal with |- context [fold_left ?f ?l ?a] => assert (H2 : NIh (fst (fold_left f l a))) end.
  { apply NIh_fold_pair.
    - intros [s0 e0] c H0. cbn [fst] in *. pose proof (heap_pause1 x c s0) as Rr. destruct (pause1 x c s0). cbn [fst] in *.
      apply (NIh_view s0); [exact Rr|exact H0].
    - cbn [fst]. apply NIh_set_task; [|exact Hs]. apply gen_ok_ctxs. exact (NIh_gen_task s x tk Hs G). }
  match goal with |- context [fold_left ?f ?l ?a] => destruct (fold_left f l a) as [s1 [e|]] end;
    cbn [fst] in H2; [apply NIh_accept_error; exact H2|exact H2].
Qed.

Lemma NIh_kback s s' : kback s s' -> NIh s -> NIh s'.
Proof.
  intros K Hs u f' Hg. destruct (K u f' Hg) as (f & Hf & Ek & _). pose proof (Hs u f Hf) as H.
  unfold fut_ok in *. rewrite Ek. exact H.
Qed.

Lemma NIh_flush_batch P k s : NIh s -> NIh (flush_batch P k s).
Proof. apply NIh_kback, kback_flush_batch. Qed.

Lemma NIh_cwb P s : NIh s -> NIh (continue_with_batch P s).
Proof. apply NIh_kback, kback_cwb. Qed.

Lemma NIh_schedule_batch k s : NIh s -> NIh (schedule_batch k s).
Proof. intros Hs. unfold schedule_batch. destruct (b_done _); [exact Hs|]. destruct (existsb _ _); exact Hs. Qed.

Lemma NIh_create parent f s : noitem_fexpr f -> NIh s -> NIh (snd (create parent f s)).
Proof.
  intros Hf Hs. unfold create, alloc. cbn zeta.
  assert (H1 : NIh (with_top_next s (top_next s + 1))) by (apply (NIh_view s); [reflexivity|exact Hs]).
  destruct Hf as [q Hq|v|e|o]; cbn [snd]; apply NIh_put; try exact H1; try exact I.
  intros k E o. cbn in E. inversion E; subst k. exact Hq.
Qed.

Lemma NIh_inst parent y : forall s, (forall l, In l (leaves y) -> noitem_leaf l) -> NIh s -> NIh (snd (inst parent y s)).
Proof.
  induction y as [| a | l IH | l IH | l IH] using ystruct_ind2; intros s Hl Hs.
  - exact Hs.
  - destruct a as [f|h0|]; simpl; try exact Hs.
    assert (Hf : noitem_fexpr f) by (specialize (Hl (LNew f) (or_introl eq_refl)); inversion Hl; assumption).
    pose proof (NIh_create parent f s Hf Hs) as H. destruct (create parent f s). exact H.
  - rewrite leaves_tuple in Hl. simpl. match goal with |- context [(?g l s)] => set (go := g) end.
    assert (H : forall s, (forall x, In x (flat_map leaves l) -> noitem_leaf x) -> NIh s -> NIh (snd (go l s))).
    { clear s Hl Hs. induction IH as [|x l Hx Hl' IHl]; intros s Hl Hs; [exact Hs|]. simpl. cbn [flat_map] in Hl.
      specialize (Hx s (fun z Hz => Hl z (in_or_app _ _ _ (or_introl Hz))) Hs). destruct (inst parent x s) as [x' s1]. cbn [snd] in Hx.
      specialize (IHl s1 (fun z Hz => Hl z (in_or_app _ _ _ (or_intror Hz))) Hx). destruct (go l s1) as [l'' s2]. cbn [snd] in *. exact IHl. }
    specialize (H s Hl Hs). destruct (go l s). exact H.
  - rewrite leaves_ylist in Hl. simpl. match goal with |- context [(?g l s)] => set (go := g) end.
    assert (H : forall s, (forall x, In x (flat_map leaves l) -> noitem_leaf x) -> NIh s -> NIh (snd (go l s))).
    { clear s Hl Hs. induction IH as [|x l Hx Hl' IHl]; intros s Hl Hs; [exact Hs|]. simpl. cbn [flat_map] in Hl.
      specialize (Hx s (fun z Hz => Hl z (in_or_app _ _ _ (or_introl Hz))) Hs). destruct (inst parent x s) as [x' s1]. cbn [snd] in Hx.
      specialize (IHl s1 (fun z Hz => Hl z (in_or_app _ _ _ (or_intror Hz))) Hx). destruct (go l s1) as [l'' s2]. cbn [snd] in *. exact IHl. }
    specialize (H s Hl Hs). destruct (go l s). exact H.
  - rewrite leaves_ydict in Hl. simpl. match goal with |- context [(?g l s)] => set (go := g) end.
    assert (H : forall s, (forall x, In x (flat_map (fun kv => leaves (snd kv)) l) -> noitem_leaf x) -> NIh s -> NIh (snd (go l s))).
    { clear s Hl Hs. induction IH as [|[k x] l Hx Hl' IHl]; intros s Hl Hs; [exact Hs|]. simpl. cbn [flat_map snd] in Hl. cbn [snd] in Hx.
      specialize (Hx s (fun z Hz => Hl z (in_or_app _ _ _ (or_introl Hz))) Hs). destruct (inst parent x s) as [x' s1]. cbn [snd] in Hx.
      specialize (IHl s1 (fun z Hz => Hl z (in_or_app _ _ _ (or_intror Hz))) Hx). destruct (go l s1) as [l'' s2]. cbn [snd] in *. exact IHl. }
    specialize (H s Hl Hs). destruct (go l s). exact H.
Qed.

(* no frame of a synchronous call *)
Definition nofv (fr : list frame) : bool := forallb (fun f => match f with FValue _ _ => false | _ => true end) fr.

Definition NIc (c : cfg) : Prop :=
  NIh (c_st c) /\ nofv (c_frames c) = true /\ match c_mode c with MRun _ p => noitem p | _ => True end.

Ltac ni :=
  repeat match goal with
  | H : NIh ?s |- NIh ?s => exact H
  | |- NIh (emit _ ?X) => apply (NIh_view X); [reflexivity|]
  | |- NIh (pop_task ?X) => apply (NIh_view X); [reflexivity|]
  | |- NIh (with_tasks ?X _) => apply (NIh_view X); [reflexivity|]
  | |- NIh (with_active ?X _) => apply (NIh_view X); [reflexivity|]
  | |- NIh (reset_sched ?X) => apply (NIh_view X); [reflexivity|]
  | |- NIh (drop_sb ?X) => apply (NIh_view X); [apply heap_drop_sb|]
  | |- NIh (schedule_batch _ _) => apply NIh_schedule_batch
  | |- NIh (resume_contexts _ _) => apply NIh_resume_contexts
  | |- NIh (pause_contexts _ _) => apply NIh_pause_contexts
  | |- NIh (complete_task _ _ _) => apply NIh_complete_task
  | |- NIh (accept_error _ _ _) => apply NIh_accept_error
  | |- NIh (enter_ctx _ _ _) => apply NIh_enter_ctx
  | |- NIh (exit_ctx _ _ _) => apply NIh_exit_ctx
  | |- NIh (flush_batch _ _ _) => apply NIh_flush_batch
  | |- NIh (continue_with_batch _ _) => apply NIh_cwb
  | |- NIh (put _ (mkFut _ (KLazy _)) _) => apply NIh_put; [exact I|]
  | |- NIh (set_task _ (mkTask None _ _ _ _ _ _ _) _) => apply NIh_set_task; [apply gen_ok_none|]
  | |- NIh (match get_task ?t ?s with Some _ => _ | None => _ end) => destruct (get_task t s) eqn:?
  | Hs : NIh ?s, G : get ?x ?s = Some (mkFut _ (KTask ?tk)) |- NIh (set_task _ (tk_set_ds ?tk _) _) =>
      apply NIh_set_task; [apply gen_ok_ds; exact (NIh_gen s x _ tk Hs G)|]
  end.

Ltac split_matches :=
  repeat match goal with
  | |- NIc (if ?x then _ else _) => destruct x eqn:?
  | |- NIc (match ?x with _ => _ end) => destruct x eqn:?
  | |- NIc (let '(_, _) := ?x in _) => destruct x eqn:?
  end.

Ltac fin Hfr :=
  cbn in Hfr; try discriminate Hfr;
  (split; [cbn [c_st]; ni|split; [cbn [c_frames nofv forallb andb]; try exact Hfr; try reflexivity|try exact I]]).

Lemma ni_step P c : NIc c -> NIc (step P c).
Proof.
  destruct c as [m fr s]. intros (Hh & Hfr & Hm). cbn [c_mode c_frames c_st] in Hh, Hfr, Hm.
  destruct m as [h| | | |t|t p| |o|e|o|].
  - (* MValue *) cbn [step c_mode c_frames c_st]. split_matches; fin Hfr.
  - (* MWaitHead *) cbn [step c_mode c_frames c_st]. split_matches; fin Hfr.
  - (* MAfterExec *) cbn [step c_mode c_frames c_st]. split_matches; fin Hfr.
  - (* MExecLoop *) cbn [step c_mode c_frames c_st]. split_matches; fin Hfr.
  - (* MResume *) cbn [step c_mode c_frames c_st]. destruct (get_task t s) as [tk|] eqn:G; [|fin Hfr].
    pose proof (NIh_gen_task s t tk Hh G) as Hk.
    destruct (tk_gen tk) as [k|] eqn:Ek.
    + split; [|split; [exact Hfr|exact (Hk k Ek _)]]. cbn [c_st]. ni. apply NIh_set_task; [|exact Hh].
      intros k0 E0 o0. cbn in E0. inversion E0; subst k0. exact (Hk k Ek o0).
    + split_matches; fin Hfr.
  - (* MRun *) destruct Hm as [v|v|e|y k Hl Hk|c k Hc Hk|c k Hc Hk]; cbn [step c_mode c_frames c_st].
    + split_matches; fin Hfr.
    + split_matches; fin Hfr.
    + fin Hfr.
    + pose proof (NIh_inst t y s Hl Hh) as Hi. destruct (inst t y s) as [y' si]. cbn [snd] in Hi.
      destruct (get_task t si) as [tk|] eqn:G; [|fin Hfr].
      assert (H2 : NIh (set_task t (mkTask (Some k) y' (tk_deps tk ++ futs (extract y')) (tk_ctxs tk) (tk_cact tk) (tk_ds tk) (tk_iter tk) (tk_next tk)) si)).
      { apply NIh_set_task; [|exact Hi]. intros k0 E0 o0. cbn in E0. inversion E0; subst k0. exact (Hk o0). }
      destruct (futs (extract y')); (split; [exact H2|split; [exact Hfr|exact I]]).
    + split; [cbn [c_st]; ni|split; [exact Hfr|exact Hk]].
    + split; [cbn [c_st]; ni|split; [exact Hfr|exact Hk]].
  - (* MContRet *) cbn [step c_mode c_frames c_st]. destruct fr as [|[| | | |t old] fr']; try (fin Hfr).
    assert (Ha : NIh (with_active s old)) by (apply (NIh_view s); [reflexivity|exact Hh]).
    apply NIh_set_task; [|exact Ha]. apply gen_ok_ds.
    match goal with G : get_task t (with_active s old) = Some ?tk |- _ => exact (NIh_gen_task _ t tk Ha G) end.
  - (* MDeliver *) cbn [step c_mode c_frames c_st]. destruct fr as [|[| | | |] fr']; fin Hfr.
  - (* MUnwind *) cbn [step c_mode c_frames c_st]. destruct fr as [|[| | | |] fr']; fin Hfr.
  - exact (conj Hh (conj Hfr I)).
  - exact (conj Hh (conj Hfr I)).
Qed.

Lemma ni_run P n : forall c, NIc c -> NIc (run P n c).
Proof.
  induction n as [|n IH]; intros c Hc; [exact Hc|]. rewrite run_S.
  destruct (is_final (c_mode c)); [exact Hc|]. apply IH, ni_step, Hc.
Qed.

Lemma NIh_st0 P : NIh (st0 P).
Proof. intros u f Hg. cbn in Hg. discriminate. Qed.

Lemma NIc_start P p : noitem p ->
  NIc (start (fst (create [] (FTask p) (st0 P))) (snd (create [] (FTask p) (st0 P)))).
Proof.
  intros Hp. split; [|split; [reflexivity|exact I]]. cbn [start c_st].
  apply NIh_create; [apply nf_task; exact Hp|apply NIh_st0].
Qed.

(* the heap of an item-free computation never holds a batch item *)
Theorem noitem_heap_has_no_item P p n :
  noitem p ->
  let h := fst (create [] (FTask p) (st0 P)) in
  let s1 := snd (create [] (FTask p) (st0 P)) in
  forall u o kind idx key a, get u (c_st (run P n (start h s1))) <> Some (mkFut o (KItem kind idx key a)).
Proof.
  intros Hp. cbn zeta. intros u o kind idx key a Hg.
  destruct (ni_run P n _ (NIc_start P p Hp)) as (Hh & _). exact (Hh u _ Hg).
Qed.

(* no _execute pass of an item-free computation ends with the awaited task uncomputed: no flush is ever needed *)
Theorem noitem_never_flushes P p :
  pointwise P -> noitem p ->
  let h := fst (create [] (FTask p) (st0 P)) in
  let s1 := snd (create [] (FTask p) (st0 P)) in
  forall n, no_unwind P n (start h s1) -> c_mode (run P n (start h s1)) = MAfterExec ->
    computed h (c_st (run P n (start h s1))) = true.
Proof.
  intros HP Hp. cbn zeta. intros n Hn Hm.
  destruct (computed _ (c_st (run P n _))) eqn:Hc; [reflexivity|exfalso].
  destruct (flush_point_has_item_tree P p n HP (noitem_tree p Hp) Hn Hm Hc) as (e & kind & idx & key & a & Hge & _).
  exact (noitem_heap_has_no_item P p n Hp e None kind idx key a Hge).
Qed.

(* TERMINATION of item-free programs: if the runaway guard never fires, the computation is done at some fuel,
   with the sequential outcome *)
Theorem noitem_terminates P p :
  pointwise P -> noitem p ->
  let h := fst (create [] (FTask p) (st0 P)) in
  let s1 := snd (create [] (FTask p) (st0 P)) in
  (forall n, no_unwind P n (start h s1)) ->
  exists n, c_mode (run P n (start h s1)) = MDone (eval p).
Proof.
  intros HP Hp. cbn zeta. intros Hnu.
  destruct (terminates_without_flush_tree P p HP (noitem_tree p Hp) Hnu) as (n & o & Hm & Eo).
  - intros n Hm. exact (noitem_never_flushes P p HP Hp n (Hnu n) Hm).
  - exists n. rewrite <- Eo. exact Hm.
Qed.

(* a run that is final at fuel N without having unwound never unwinds *)
Lemma no_unwind_all P c N :
  no_unwind_b P N c = true -> is_final (c_mode (run P N c)) = true -> forall n, no_unwind P n c.
Proof.
  intros Hb Hf n k Hk. pose proof (no_unwind_b_ok P N c Hb) as HN.
  destruct (Nat.le_gt_cases k N) as [L|L]; [apply HN; exact L|].
  replace k with (N + (k - N))%nat by lia. rewrite run_add, (run_final P (k - N) _ Hf). apply HN. lia.
Qed.

(* non-vacuity: nested tasks, a lazy future, a constant, an exception caught through the continuation
   (try/except around a yield), contexts *)
Definition c03l_demo : prog :=
  Yield (YTuple [YLeaf (LNew (FTask (Yield (YLeaf (LNew (FLazy (Ok (VInt 7)))))
                                           (fun o => match o with Ok v => Ret (VTuple [v; VInt 1]) | Err e => Raise e end))));
                 YLeaf (LNew (FConst (VInt 9)));
                 YLeaf (LNew (FTask (Enter (CAsync 1 NoFault)
                                      (Yield (YLeaf (LNew (FTask (Yield YNone (fun _ => Raise 42)))))
                                             (fun o => Exit (CAsync 1 NoFault)
                                                         match o with Ok v => Ret v | Err e => Ret (VInt e) end)))))])
        (fun o => match o with Ok v => Ret v | Err e => Raise e end).

Lemma c03l_demo_noitem : noitem c03l_demo.
Proof.
  unfold c03l_demo. apply ni_yield.
  - intros l Hl. cbn in Hl. destruct Hl as [<-|[<-|[<-|[]]]]; apply nl_new.
    + apply nf_task. apply ni_yield; [intros l [<-|[]]; apply nl_new, nf_lazy|]. intros [v|e]; constructor.
    + apply nf_const.
    + apply nf_task. apply ni_enter; [reflexivity|]. apply ni_yield.
      * intros l [<-|[]]. apply nl_new, nf_task. apply ni_yield; [intros l []|]. intros o. apply ni_raise.
      * intros [v|e]; (apply ni_exit; [reflexivity|apply ni_ret]).
  - intros [v|e]; constructor.
Qed.

Example c03l_demo_runs :
  let P := mkP [] 1000 false [] in
  let h := fst (create [] (FTask c03l_demo) (st0 P)) in
  let s1 := snd (create [] (FTask c03l_demo) (st0 P)) in
  no_unwind_b P 80 (start h s1) = true /\
  c_mode (run P 80 (start h s1)) = MDone (Ok (VTuple [VTuple [VInt 7; VInt 1]; VInt 9; VInt 42])) /\
  eval c03l_demo = Ok (VTuple [VTuple [VInt 7; VInt 1]; VInt 9; VInt 42]).
Proof. vm_compute. repeat split. Qed.

Example c03l_demo_terminates :
  let P := mkP [] 1000 false [] in
  let h := fst (create [] (FTask c03l_demo) (st0 P)) in
  let s1 := snd (create [] (FTask c03l_demo) (st0 P)) in
  pointwise P /\ noitem c03l_demo /\ (forall n, no_unwind P n (start h s1)) /\
  exists n, c_mode (run P n (start h s1)) = MDone (Ok (VTuple [VTuple [VInt 7; VInt 1]; VInt 9; VInt 42])).
Proof.
  cbn zeta. destruct c03l_demo_runs as (Hb & Hd & He). cbn zeta in Hb, Hd, He.
  assert (HP : pointwise (mkP [] 1000 false [])) by (intros kind; reflexivity).
  assert (Hnu : forall n, no_unwind (mkP [] 1000 false []) n
                  (start (fst (create [] (FTask c03l_demo) (st0 (mkP [] 1000 false []))))
                         (snd (create [] (FTask c03l_demo) (st0 (mkP [] 1000 false [])))))).
  { apply (no_unwind_all _ _ 80); [exact Hb|]. rewrite Hd. reflexivity. }
  split; [exact HP|]. split; [exact c03l_demo_noitem|]. split; [exact Hnu|].
  rewrite <- He. exact (noitem_terminates _ c03l_demo HP c03l_demo_noitem Hnu).
Qed.

(* ================================================================== (4) counting flushes; termination reduced to (ii)+(iii) *)
(* number of computed futures among the ids [0], ..., [N-1] *)
Definition cN (N : nat) (s : st) : nat := length (filter (fun k => computed [Z.of_nat k] s) (seq 0 N)).

Lemma filter_len_le {A} (f g : A -> bool) l :
  (forall x, In x l -> f x = true -> g x = true) -> (length (filter f l) <= length (filter g l))%nat.
Proof.
  induction l as [|a l IH]; intros H; cbn; [lia|].
  assert (IH' : (length (filter f l) <= length (filter g l))%nat) by (apply IH; intros x Hx; apply H; right; exact Hx).
  destruct (f a) eqn:Fa; [rewrite (H a (or_introl eq_refl) Fa); cbn; lia|]. destruct (g a); cbn; lia.
Qed.

Lemma filter_len_lt {A} (f g : A -> bool) l a :
  (forall x, In x l -> f x = true -> g x = true) -> In a l -> f a = false -> g a = true ->
  (length (filter f l) < length (filter g l))%nat.
Proof.
  induction l as [|b l IH]; intros H Hin Fa Ga; [destruct Hin|]. cbn.
  assert (Hl : forall x, In x l -> f x = true -> g x = true) by (intros x Hx; apply H; right; exact Hx).
  destruct Hin as [->|Hin].
  - rewrite Fa, Ga. cbn. pose proof (filter_len_le f g l Hl). lia.
  - specialize (IH Hl Hin Fa Ga). destruct (f b) eqn:Fb; [rewrite (H b (or_introl eq_refl) Fb); cbn; lia|]. destruct (g b); cbn; lia.
Qed.

Lemma filter_len_all {A} (f : A -> bool) l : (length (filter f l) <= length l)%nat.
Proof. induction l as [|a l IH]; cbn; [lia|]. destruct (f a); cbn; lia. Qed.

Lemma cN_le N s : (cN N s <= N)%nat.
Proof. unfold cN. pose proof (filter_len_all (fun k => computed [Z.of_nat k] s) (seq 0 N)) as H. rewrite seq_length in H. exact H. Qed.

Lemma cN_mono N s s' : (forall x, computed x s = true -> computed x s' = true) -> (cN N s <= cN N s')%nat.
Proof. intros H. unfold cN. apply filter_len_le. intros x _. apply H. Qed.

Lemma cN_strict N s s' k : (forall x, computed x s = true -> computed x s' = true) -> (k < N)%nat ->
  computed [Z.of_nat k] s = false -> computed [Z.of_nat k] s' = true -> (cN N s < cN N s')%nat.
Proof.
  intros H Hk A B. unfold cN. apply (filter_len_lt _ _ _ k); [intros x _; apply H| |exact A|exact B].
  apply in_seq. lia.
Qed.

Section Count.
  Variable P : params.
  Hypothesis HP : pointwise P.
  Variable p0 : prog.
  Hypothesis Ht0 : tree p0.

  Let h := fst (create [] (FTask p0) (st0 P)).
  Let s1 := snd (create [] (FTask p0) (st0 P)).
  Let c0 := start h s1.

  Hypothesis Hnu : forall n, no_unwind P n c0.

  Lemma comp_mono_S n x : computed x (c_st (run P n c0)) = true -> computed x (c_st (run P (S n) c0)) = true.
  Proof.
    intros Hc. replace (S n) with (n + 1)%nat by lia. rewrite run_add.
    pose proof (MachineC05T.Inv_run P n c0 (Inv_s1 P p0)) as (D & _). fold h s1 c0 in D.
    rewrite run_S. destruct (is_final (c_mode (run P n c0))); [exact Hc|]. cbn [run].
    destruct (step_ok P (run P n c0)) as (evs & _ & _ & G). destruct (G D) as (_ & C).
    specialize (C x). rewrite Hc in C. destruct (computed x (c_st (step P (run P n c0)))); [reflexivity|cbn in C; lia].
  Qed.

  Lemma comp_mono_add n m x : computed x (c_st (run P n c0)) = true -> computed x (c_st (run P (n + m) c0)) = true.
  Proof.
    intros Hc. induction m as [|m IH]; [rewrite Nat.add_0_r; exact Hc|].
    replace (n + S m)%nat with (S (n + m)) by lia. apply comp_mono_S. exact IH.
  Qed.

  (* a flush point: a pass has ended and the awaited task is not computed *)
  Definition fpb (n : nat) : bool :=
    match c_mode (run P n c0) with MAfterExec => negb (computed h (c_st (run P n c0))) | _ => false end.

  Definition flushes (n : nat) : nat := length (filter fpb (seq 0 n)).

  Lemma fpb_true n : fpb n = true -> c_mode (run P n c0) = MAfterExec /\ computed h (c_st (run P n c0)) = false.
  Proof. unfold fpb. destruct (c_mode (run P n c0)); try discriminate. intros H. apply negb_true_iff in H. auto. Qed.

  (* the step at a flush point strictly increases the number of computed futures below any bound on the ids *)
  Lemma flush_counts N n : (top_next (c_st (run P n c0)) <= Z.of_nat N)%Z -> fpb n = true ->
    (cN N (c_st (run P n c0)) < cN N (c_st (run P (S n) c0)))%nat.
  Proof.
    intros HN Hf. destruct (fpb_true n Hf) as (Hm & Hc).
    destruct (flush_makes_progress P HP p0 Ht0 n (Hnu n) Hm Hc) as (_ & (d & Hd0 & Hd1 & (kind & idx & key & a & Hg)) & Hmono).
    fold h s1 c0 in Hd0, Hd1, Hg, Hmono.
    destruct (tree_run_CInv P p0 n HP Ht0 (Hnu n)) as (spec & HC). fold h s1 c0 in HC.
    unfold CInv in HC. rewrite Hm in HC. destruct HC as (_ & _ & HS & _).
    destruct (SInv_entry _ _ _ _ _ HS Hg) as ((k & Ek & Hk) & _). subst d.
    apply (cN_strict N _ _ (Z.to_nat k)); [exact Hmono|lia| |]; rewrite Z2Nat.id by lia; assumption.
  Qed.

  (* (4-i) relative bound on the number of flushes: as long as the ids stay below N, at most N flushes happen
     (each flush computes a future that was not computed, and computed futures stay computed) *)
  Theorem flushes_bounded N n :
    (forall k, (k <= n)%nat -> (top_next (c_st (run P k c0)) <= Z.of_nat N)%Z) ->
    (flushes n <= cN N (c_st (run P n c0)))%nat /\ (flushes n <= N)%nat.
  Proof.
    intros HN. assert (G : (flushes n <= cN N (c_st (run P n c0)))%nat).
    { induction n as [|n IH]; [cbn; lia|].
      assert (IH' : (flushes n <= cN N (c_st (run P n c0)))%nat) by (apply IH; intros k Hk; apply HN; lia).
      unfold flushes in *. rewrite seq_S, filter_app, app_length. cbn [Nat.add filter].
      destruct (fpb n) eqn:Hf; cbn [length].
      - pose proof (flush_counts N n (HN n ltac:(lia)) Hf). lia.
      - pose proof (cN_mono N _ _ (comp_mono_S n)). lia. }
    split; [exact G|]. pose proof (cN_le N (c_st (run P n c0))). lia.
  Qed.
End Count.

(* (4-ii) TERMINATION REDUCED to the two missing facts: if (a) every _execute pass that starts with the awaited
   task uncomputed ends (MAfterExec is reached), and (b) the number of futures ever created is bounded, then the
   computation is done at some fuel, with the sequential outcome *)
Section Reduce.
  Variable P : params.
  Hypothesis HP : pointwise P.
  Variable p0 : prog.
  Hypothesis Ht0 : tree p0.

  Let h := fst (create [] (FTask p0) (st0 P)).
  Let s1 := snd (create [] (FTask p0) (st0 P)).
  Let c0 := start h s1.

  Hypothesis Hnu : forall n, no_unwind P n c0.
  Hypothesis Hpass : forall n, c_mode (run P n c0) = MWaitHead -> computed h (c_st (run P n c0)) = false ->
    exists m, c_mode (run P (n + m) c0) = MAfterExec.
  Variable N : nat.
  Hypothesis Halloc : forall n, (top_next (c_st (run P n c0)) <= Z.of_nat N)%Z.

  Lemma frames_at n : c_mode (run P n c0) = MWaitHead \/ c_mode (run P n c0) = MAfterExec ->
    c_frames (run P n c0) = [FWait h; FTop].
  Proof.
    intros Hm. destruct (tree_run_CInv P p0 n HP Ht0 (Hnu n)) as (spec & HC). fold h s1 c0 in HC.
    unfold CInv in HC. destruct Hm as [Hm|Hm]; rewrite Hm in HC; destruct HC as (_ & Hf & _); exact Hf.
  Qed.

  (* from the head of wait_for or from the end of a pass, with the awaited task computed: done in two steps *)
  Lemma done_in_two n : c_mode (run P n c0) = MWaitHead \/ c_mode (run P n c0) = MAfterExec ->
    computed h (c_st (run P n c0)) = true -> exists o, c_mode (run P (n + 2) c0) = MDone o.
  Proof.
    intros Hm Hc. pose proof (frames_at n Hm) as Hf. rewrite run_add.
    destruct (run P n c0) as [m fr s]. cbn [c_mode c_frames c_st] in *. subst fr.
    change 2%nat with (1 + 1)%nat. rewrite (run_add P 1 1), !run_one.
    destruct Hm as [-> | ->]; cbn [step c_mode c_frames c_st]; rewrite Hc;
      cbn [step c_mode c_frames c_st]; eexists; reflexivity.
  Qed.

  Lemma reduce_measure : forall j n, c_mode (run P n c0) = MWaitHead ->
    (N - cN N (c_st (run P n c0)) <= j)%nat -> exists n' o, c_mode (run P n' c0) = MDone o.
  Proof.
    induction j as [|j IH]; intros n Hm Hj.
    - destruct (computed h (c_st (run P n c0))) eqn:Hc.
      + destruct (done_in_two n (or_introl Hm) Hc) as (o & Ho). eauto.
      + destruct (Hpass n Hm Hc) as (m & Hm2).
        destruct (computed h (c_st (run P (n + m) c0))) eqn:Hc2.
        * destruct (done_in_two (n + m) (or_intror Hm2) Hc2) as (o & Ho). eauto.
        * exfalso. assert (Hf : fpb P p0 (n + m) = true) by (unfold fpb; fold h s1 c0; rewrite Hm2, Hc2; reflexivity).
          pose proof (flush_counts P HP p0 Ht0 Hnu N (n + m) (Halloc (n + m)) Hf) as Hlt. fold h s1 c0 in Hlt.
          pose proof (cN_mono N _ _ (fun x => comp_mono_add P p0 n m x)) as Hle. fold h s1 c0 in Hle.
          pose proof (cN_le N (c_st (run P (S (n + m)) c0))). lia.
    - destruct (computed h (c_st (run P n c0))) eqn:Hc.
      + destruct (done_in_two n (or_introl Hm) Hc) as (o & Ho). eauto.
      + destruct (Hpass n Hm Hc) as (m & Hm2).
        destruct (computed h (c_st (run P (n + m) c0))) eqn:Hc2.
        * destruct (done_in_two (n + m) (or_intror Hm2) Hc2) as (o & Ho). eauto.
        * assert (Hf : fpb P p0 (n + m) = true) by (unfold fpb; fold h s1 c0; rewrite Hm2, Hc2; reflexivity).
          pose proof (flush_counts P HP p0 Ht0 Hnu N (n + m) (Halloc (n + m)) Hf) as Hlt. fold h s1 c0 in Hlt.
          pose proof (cN_mono N _ _ (fun x => comp_mono_add P p0 n m x)) as Hle. fold h s1 c0 in Hle.
          destruct (flush_makes_progress P HP p0 Ht0 (n + m) (Hnu (n + m)) Hm2 Hc2) as (Hw & _). fold h s1 c0 in Hw.
          apply (IH (S (n + m)) Hw). lia.
  Qed.

  Theorem terminates_if_passes_end_and_allocation_bounded : exists n, c_mode (run P n c0) = MDone (eval p0).
  Proof.
    assert (Hg : get h s1 = Some (mkFut None (KTask (fresh_task p0)))) by (unfold h, s1, create, alloc; cbn; reflexivity).
    assert (E1 : c_mode (run P 1 c0) = MWaitHead).
    { rewrite run_one. unfold c0, start. cbn [step c_mode c_frames c_st]. unfold computed. rewrite Hg. reflexivity. }
    destruct (reduce_measure N 1 E1 ltac:(lia)) as (n & o & Ho).
    exists n. rewrite Ho. f_equal. exact (async_eq_seq_tree P p0 n o HP Ht0 (Hnu n) Ho).
  Qed.
End Reduce.

Theorem termination_reduced_tree P p N :
  pointwise P -> tree p ->
  let h := fst (create [] (FTask p) (st0 P)) in
  let s1 := snd (create [] (FTask p) (st0 P)) in
  (forall n, no_unwind P n (start h s1)) ->
  (forall n, c_mode (run P n (start h s1)) = MWaitHead -> computed h (c_st (run P n (start h s1))) = false ->
     exists m, c_mode (run P (n + m) (start h s1)) = MAfterExec) ->
  (forall n, (top_next (c_st (run P n (start h s1))) <= Z.of_nat N)%Z) ->
  exists n, c_mode (run P n (start h s1)) = MDone (eval p).
Proof. intros HP Ht. cbn zeta. intros Hnu Hpass Halloc. exact (terminates_if_passes_end_and_allocation_bounded P HP p Ht Hnu Hpass N Halloc). Qed.

Theorem flushes_bounded_tree P p N n :
  pointwise P -> tree p ->
  let h := fst (create [] (FTask p) (st0 P)) in
  let s1 := snd (create [] (FTask p) (st0 P)) in
  (forall n, no_unwind P n (start h s1)) ->
  (forall k, (k <= n)%nat -> (top_next (c_st (run P k (start h s1))) <= Z.of_nat N)%Z) ->
  (length (filter (fun k => match c_mode (run P k (start h s1)) with
                            | MAfterExec => negb (computed h (c_st (run P k (start h s1))))
                            | _ => false end) (seq 0 n)) <= N)%nat.
Proof. intros HP Ht. cbn zeta. intros Hnu HN. exact (proj2 (flushes_bounded P HP p Ht Hnu N n HN)). Qed.

(* ================================================================== (4-iii) the macro-steps of ANY pass *)
Section AnyPass.
  Variable P : params.
  Hypothesis HP : pointwise P.
  Variable p0 : prog.
  Hypothesis Ht0 : tree p0.

  Let h := fst (create [] (FTask p0) (st0 P)).
  Let s1 := snd (create [] (FTask p0) (st0 P)).
  Let c0 := start h s1.

  Hypothesis Hnu : forall n, no_unwind P n c0.

  (* after a flush that leaves the awaited task uncomputed the next pass starts: two steps later the machine
     is at the head of the _execute loop with the awaited task alone on the stack *)
  Theorem next_pass_starts n :
    c_mode (run P n c0) = MWaitHead -> computed h (c_st (run P n c0)) = false ->
    run P (n + 1) c0 = mkC MExecLoop [FExec 0; FWait h; FTop] (with_tasks (c_st (run P n c0)) [h]).
  Proof.
    intros Hm Hc. destruct (bl_reach P HP p0 Ht0 n (Hnu n)) as (spec & S & (((HC & HFm) & _) & _)).
    fold h s1 c0 in HC, HFm. rewrite Hm in HFm. destruct HFm as (_ & HK).
    unfold stack_ok in HK. unfold CInv in HC. rewrite Hm in HC, HK.
    destruct HC as (_ & Hf & _). rewrite run_add, run_one.
    destruct (run P n c0) as [m fr s]. cbn [c_mode c_frames c_st frames_ok] in *. subst m fr.
    cbn [step c_mode c_frames c_st]. rewrite Hc, HK. reflexivity.
  Qed.

  (* in ANY pass (not only the first one) the entry on top of the task stack is dealt with after finitely many
     steps - it is popped, the rest of the stack and every other existing heap entry untouched - unless it is an
     uncomputed blocked task whose dependencies have not been scheduled yet (the "first visit", which pushes its
     uncomputed dependencies).  An unblocked suspended task is resumed and runs, with everything it starts,
     until it completes or is stuck again. *)
  Theorem top_entry_popped_unless_first_visit n s x ts :
    run P n c0 = mkC MExecLoop [FExec 0; FWait h; FTop] s -> tasks s = x :: ts ->
    (forall tk, get x s = Some (mkFut None (KTask tk)) -> is_blocked tk s = true -> tk_ds tk = true) ->
    exists m s', run P (n + m) c0 = mkC MExecLoop [FExec 0; FWait h; FTop] s' /\ tasks s' = ts /\
      forall d, d <> x -> get d s <> None -> get d s' = get d s.
  Proof.
    intros Er Hts Hfv.
    assert (HR : Rc P p0 (mkC MExecLoop (fr0 P p0) s)) by (exists n; symmetry; exact Er).
    assert (Hpop : popped P p0 x ts (mkC MExecLoop (fr0 P p0) s)).
    { destruct (computed x s) eqn:Hc; [apply (exec_pop_simple P p0 Hnu s x ts HR Hts); left; exact Hc|].
      destruct (get x s) as [[out kd]|] eqn:Hg.
      2: { apply (exec_pop_simple P p0 Hnu s x ts HR Hts). right. intros tk. rewrite Hg. discriminate. }
      destruct kd as [tk|kind idx key a|o'|];
        try (apply (exec_pop_simple P p0 Hnu s x ts HR Hts); right; intros tk0; rewrite Hg; discriminate).
      assert (out = None) as -> by (unfold computed in Hc; rewrite Hg in Hc; cbn in Hc; destruct out; [discriminate|reflexivity]).
      destruct (is_blocked tk s) eqn:Hb.
      - apply (exec_pop_blocked P HP p0 Ht0 Hnu s x ts tk HR Hts Hg Hb). apply (Hfv tk eq_refl Hb).
      - destruct (Rc_exec_inv P HP p0 Ht0 Hnu s HR) as (spec & S & HS & _).
        destruct (SInv_entry _ _ _ _ _ HS Hg) as (_ & ot & Hst & _ & Hp & Hk). cbn in Hp, Hk.
        destruct (Hk eq_refl ltac:(discriminate)) as (k & K1 & K2 & _).
        apply (resume_then P HP p0 Ht0 Hnu s x ts tk k HR Hts Hg Hb K1). intros o.
        apply (tree_P_tree P HP p0 Ht0 Hnu). apply K2. }
    destruct Hpop as (m & s' & R & T & K). exists m, s'. rewrite run_add, Er. split; [exact R|]. split; [exact T|].
    intros d Nd A. apply K; [|exact A]. intros [E|[]]. apply Nd. symmetry. exact E.
  Qed.
End AnyPass.

Theorem next_pass_starts_tree P p n :
  pointwise P -> tree p ->
  let h := fst (create [] (FTask p) (st0 P)) in
  let s1 := snd (create [] (FTask p) (st0 P)) in
  (forall n, no_unwind P n (start h s1)) ->
  c_mode (run P n (start h s1)) = MWaitHead -> computed h (c_st (run P n (start h s1))) = false ->
  run P (n + 1) (start h s1) = mkC MExecLoop [FExec 0; FWait h; FTop] (with_tasks (c_st (run P n (start h s1))) [h]).
Proof. intros HP Ht. cbn zeta. intros Hnu. exact (next_pass_starts P HP p Ht Hnu n). Qed.

Theorem top_entry_popped_unless_first_visit_tree P p n s x ts :
  pointwise P -> tree p ->
  let h := fst (create [] (FTask p) (st0 P)) in
  let s1 := snd (create [] (FTask p) (st0 P)) in
  (forall n, no_unwind P n (start h s1)) ->
  run P n (start h s1) = mkC MExecLoop [FExec 0; FWait h; FTop] s -> tasks s = x :: ts ->
  (forall tk, get x s = Some (mkFut None (KTask tk)) -> is_blocked tk s = true -> tk_ds tk = true) ->
  exists m s', run P (n + m) (start h s1) = mkC MExecLoop [FExec 0; FWait h; FTop] s' /\ tasks s' = ts /\
    forall d, d <> x -> get d s <> None -> get d s' = get d s.
Proof. intros HP Ht. cbn zeta. intros Hnu. exact (top_entry_popped_unless_first_visit P HP p Ht Hnu n s x ts). Qed.
