(* C02 / C03 corollaries of the C01 invariant for tree programs WITH SYNCHRONOUS CALLS ([stree], MachineC01S.v):
   the [stree] versions of MachineC02.v (resume_guard_tree, delivered_is_unwrap_tree) and of
   MachineSteps.tree_resume_guarded / tree_no_step_after_done, plus what a synchronous call delivers.

   Hypotheses as everywhere for the C01 invariant: pointwise service, the runaway guard did not fire
   ([no_unwind]), one root computation created from an [stree] program - on the initial state, or (the _from
   versions) on any scheduler state satisfying the state invariant SI, e.g. one left behind by earlier stree
   computations that finished.

   S1 resume_guard_stree: at every [MResume t] the entry of t is an uncomputed task and every future in its last
      yielded structure is computed.
   S2 delivered_is_unwrap_stree: the step from [MResume t] runs the stored continuation on
      [unwrap (look s) (tk_last tk)], which is [unwrap] of the SPECIFIED (= sequential, [evals]) outcomes of the
      yielded futures, and the continuation's sequential value on it is the task's.  Needs that t is not one of
      the callers suspended in a synchronous call (their entries hold stale continuations): the nested loops only
      work on tasks at least as young as their wait_for root, every suspended caller is older.
   S3 uncaught_failure_stree: evals p = Err e -> value() ends with Err e.
   S4 stree_resume_guarded / stree_no_step_after_done (one computation from st0) and
      stree_history_no_step_after_done (a whole history of stree computations, each but the last finishing).
   S5 synchronous calls.  State properties:
      - sync_call_stree: at the call proper, mode [MRun t (Sync h k)]: h is a task younger than t with a specified
        outcome oh, spec t = evals (k oh), and if the entry of h is still the fresh task of program q then
        oh = evals q;
      - sync_deliver_origin_stree: a configuration [MDeliver o] with an [FValue t k] frame on top is entered only
        from [MValue h] over that frame (h already computed) or from the wait loop of [FWait h] directly above
        that frame, h computed, and o is the outcome stored in h - which is the specified one;
      - sync_return_stree: when [MDeliver o] pops [FValue t k], t is an uncomputed task, the caller continues
        as [MRun t (k o)] and spec t = evals (k o).
      The two-state theorem (sync_call_returns_evals_stree, sync_call_expr_returns_evals_stree): if the run is at
      the call proper [MRun t (Sync h k)] (h the fresh task of q) at step n, resp. at the call expression
      [MRun t (Let (FTask q) (fun h => Sync h k))], and m is the FIRST later step at which value() returns into
      the frames pushed by this call ([MDeliver o] over FValue t k :: the caller's frames at n), then o = evals q and
      the caller continues as MRun t (k (evals q)) with spec t = evals (k (evals q)).  Ingredients: the ghost map
      only grows along a run (s01_step_le: MachineC01S.s01_MRun re-proved with that conjunct), and the relation
      [pending h F]: value() of h has just been entered over F or FWait h sits directly on F; one transition keeps
      the call pending or returns into F with the stored = specified outcome of h (pending_step).
      NOT proved: that the call does return (termination); "first return" is a hypothesis on the run (a later
      call of the same caller with an equal continuation from the same frames would also match the pattern). *)
From Asynq Require Import Machine Seq proofs.ProgProofs proofs.MachineFrame proofs.MachineC05 proofs.MachineC08
  proofs.MachineC01 proofs.MachineC01S proofs.MachineSteps proofs.MachineC06T.

Section CorollariesS.
  Variable P : params.
  Hypothesis HP : pointwise P.

  (* ------------------------------------------------------------------ reaching the invariant *)
  Lemma reach_invS_from spec s p n :
    stree p -> SI spec (fun _ => False) s ->
    no_unwind P n (start (fst (create [] (FTask p) s)) (snd (create [] (FTask p) s))) ->
    exists spec', CI (evals p) spec' (run P n (start (fst (create [] (FTask p) s)) (snd (create [] (FTask p) s)))).
  Proof.
    intros Ht HS Hn.
    pose proof (SI_create spec _ [] (FTask p) s HS (sf_task p Ht)) as HC.
    cbn zeta in HC. destruct (create [] (FTask p) s) as [h s1] eqn:Ec. cbn [fst snd fexpr_outs] in *.
    destruct HC as (_ & HS1 & Hnew & _ & _ & _ & Hent).
    assert (HI : CI (evals p) (spec_add spec h (evals p)) (start h s1)).
    { apply CI_intro; [| |exists None, (fresh_task p); apply Hent; reflexivity|exact I].
      - exists (evals p). split; [unfold spec_add; rewrite fid_eqb_refl; reflexivity|apply vs_top].
      - apply (SI_ext _ (fun _ => False)); [|exact HS1]. intros x. split; intros []. }
    exact (s01_run P HP (evals p) n _ _ HI Hn).
  Qed.

  (* ------------------------------------------------------------------ what the invariant says at MResume *)
  Lemma CI_at_resume res spec t fr s :
    CI res spec (mkC (MResume t) fr s) ->
    exists tk k, get t s = Some (mkFut None (KTask tk)) /\
      (forall x, In (RFut x) (leaves (tk_last tk)) -> computed x s = true) /\
      tk_gen tk = Some k /\ (forall x, stree (k x)) /\
      c_mode (step P (mkC (MResume t) fr s)) = MRun t (k (unwrap (look s) (tk_last tk))) /\
      unwrap (look s) (tk_last tk) = unwrap (look_spec spec) (tk_last tk) /\
      spec t = Some (evals (k (unwrap (look_spec spec) (tk_last tk)))).
  Proof.
    intros (Hf & HS & (tk & Hg & Hcomp)). cbn [c_mode c_frames c_st] in *.
    destruct Hf as (old & i & r & vs & -> & Hrt & Hlv). cbn [R_of fvals] in HS.
    assert (HtR : ~ In t (fvals vs)).
    { intros Hin. pose proof (wt_ok_fvals _ _ _ _ _ (proj2 Hlv) t Hin). lia. }
    destruct (SI_entry _ _ _ _ _ HS Hg) as (_ & ot & Hst & _ & Hp & Hd & Hk). cbn in Hp, Hd, Hk.
    destruct (Hk eq_refl HtR) as (k & K1 & K2 & K3 & K4 & K5).
    exists tk, k. split; [exact Hg|]. split; [exact Hcomp|]. split; [exact K1|]. split; [exact K2|]. split.
    - cbn [step c_mode c_frames c_st]. unfold get_task. rewrite Hg, K1. reflexivity.
    - split; [apply (look_agreeS spec _ s _ HS Hcomp)|]. rewrite K3. exact Hst.
  Qed.

  (* ------------------------------------------------------------------ S1, S2 from any good state *)
  Section FromState.
    Variable spec0 : specmap.
    Variable s0 : st.
    Hypothesis HS0 : SI spec0 (fun _ => False) s0.
    Variable p : prog.
    Hypothesis Ht : stree p.

    Let h := fst (create [] (FTask p) s0).
    Let s1 := snd (create [] (FTask p) s0).

    Theorem resume_guard_stree_from n t :
      no_unwind P n (start h s1) -> c_mode (run P n (start h s1)) = MResume t ->
      exists tk, get t (c_st (run P n (start h s1))) = Some (mkFut None (KTask tk)) /\
        forall x, In (RFut x) (leaves (tk_last tk)) -> computed x (c_st (run P n (start h s1))) = true.
    Proof.
      intros Hn Hm. destruct (reach_invS_from spec0 s0 p n Ht HS0 Hn) as (spec & HI). fold h s1 in HI.
      destruct (run P n (start h s1)) as [m fr s] eqn:Er. cbn in Hm. subst m. cbn [c_st].
      destruct (CI_at_resume _ _ _ _ _ HI) as (tk & k & A & B & _). exists tk. split; [exact A|exact B].
    Qed.

    Theorem delivered_is_unwrap_stree_from n t :
      no_unwind P n (start h s1) -> c_mode (run P n (start h s1)) = MResume t ->
      exists tk k spec, get t (c_st (run P n (start h s1))) = Some (mkFut None (KTask tk)) /\
        tk_gen tk = Some k /\
        c_mode (step P (run P n (start h s1))) =
          MRun t (k (unwrap (look (c_st (run P n (start h s1)))) (tk_last tk))) /\
        unwrap (look (c_st (run P n (start h s1)))) (tk_last tk) = unwrap (look_spec spec) (tk_last tk) /\
        spec t = Some (evals (k (unwrap (look_spec spec) (tk_last tk)))).
    Proof.
      intros Hn Hm. destruct (reach_invS_from spec0 s0 p n Ht HS0 Hn) as (spec & HI). fold h s1 in HI.
      destruct (run P n (start h s1)) as [m fr s] eqn:Er. cbn in Hm. subst m. cbn [c_st].
      destruct (CI_at_resume _ _ _ _ _ HI) as (tk & k & A & B & C & D & E & F & G).
      exists tk, k, spec. split; [exact A|]. split; [exact C|]. split; [exact E|]. split; [exact F|exact G].
    Qed.

    Lemma stree_resume_guarded_from n : no_unwind P n (start h s1) -> resume_guarded P n (start h s1).
    Proof.
      intros Hn k t Hk Hm.
      destruct (resume_guard_stree_from k t) as (tk & G & _); [intros j Hj; apply Hn; lia|exact Hm|].
      unfold computed. rewrite G. reflexivity.
    Qed.
  End FromState.
End CorollariesS.

(* ------------------------------------------------------------------ from the initial state *)
Theorem resume_guard_stree P (HP : pointwise P) p (Ht : stree p) n t :
  let h := fst (create [] (FTask p) (st0 P)) in
  let s1 := snd (create [] (FTask p) (st0 P)) in
  no_unwind P n (start h s1) -> c_mode (run P n (start h s1)) = MResume t ->
  exists tk, get t (c_st (run P n (start h s1))) = Some (mkFut None (KTask tk)) /\
    forall x, In (RFut x) (leaves (tk_last tk)) -> computed x (c_st (run P n (start h s1))) = true.
Proof. exact (resume_guard_stree_from P HP _ (st0 P) (SI_empty P) p Ht n t). Qed.

Theorem delivered_is_unwrap_stree P (HP : pointwise P) p (Ht : stree p) n t :
  let h := fst (create [] (FTask p) (st0 P)) in
  let s1 := snd (create [] (FTask p) (st0 P)) in
  no_unwind P n (start h s1) -> c_mode (run P n (start h s1)) = MResume t ->
  exists tk k spec, get t (c_st (run P n (start h s1))) = Some (mkFut None (KTask tk)) /\
    tk_gen tk = Some k /\
    c_mode (step P (run P n (start h s1))) =
      MRun t (k (unwrap (look (c_st (run P n (start h s1)))) (tk_last tk))) /\
    unwrap (look (c_st (run P n (start h s1)))) (tk_last tk) = unwrap (look_spec spec) (tk_last tk) /\
    spec t = Some (evals (k (unwrap (look_spec spec) (tk_last tk)))).
Proof. exact (delivered_is_unwrap_stree_from P HP _ (st0 P) (SI_empty P) p Ht n t). Qed.

(* S3: an uncaught failure is the outcome of value() *)
Theorem uncaught_failure_stree P p n e :
  pointwise P -> stree p -> evals p = Err e ->
  let h := fst (create [] (FTask p) (st0 P)) in
  let s1 := snd (create [] (FTask p) (st0 P)) in
  no_unwind P n (start h s1) -> forall o, c_mode (run P n (start h s1)) = MDone o -> o = Err e.
Proof. intros HP Ht He h s1 Hn o Hm. rewrite <- He. exact (async_eq_seq_stree P p n o HP Ht Hn Hm). Qed.

(* ------------------------------------------------------------------ S4: no step after done *)
Lemma stree_resume_guarded P p n :
  pointwise P -> stree p ->
  no_unwind P n (start (fst (create [] (FTask p) (st0 P))) (snd (create [] (FTask p) (st0 P)))) ->
  resume_guarded P n (start (fst (create [] (FTask p) (st0 P))) (snd (create [] (FTask p) (st0 P)))).
Proof. intros HP Ht. exact (stree_resume_guarded_from P HP _ (st0 P) (SI_empty P) p Ht n). Qed.

Theorem stree_no_step_after_done P p n :
  pointwise P -> stree p ->
  no_unwind P n (start (fst (create [] (FTask p) (st0 P))) (snd (create [] (FTask p) (st0 P)))) ->
  forall t i o l1 l2, snd (run_case P n [p]) = l1 ++ EvStep t i o :: l2 -> forall o', ~ In (EvDone t o') l1.
Proof.
  intros HP Ht Hn. apply run_case_no_step_after_done. cbn [history_guarded].
  split; [apply stree_resume_guarded; assumption|exact I].
Qed.

(* a history of stree computations on one scheduler: none unwinds, and every computation that is followed by
   another one finished (otherwise tasks are left mid-step and the state invariant does not hold afterwards) *)
Fixpoint history_clean (P : params) (fuel : nat) (ps : list prog) (s : st) : Prop :=
  match ps with
  | [] => True
  | p :: ps' =>
    stree p /\
    no_unwind P fuel (start (fst (create [] (FTask p) s)) (snd (create [] (FTask p) s))) /\
    (ps' <> [] -> exists o, c_mode (run P fuel (start (fst (create [] (FTask p) s)) (snd (create [] (FTask p) s)))) = MDone o) /\
    history_clean P fuel ps' (snd (run_root P fuel p s))
  end.

Lemma history_clean_guarded P fuel (HP : pointwise P) ps : forall spec s,
  SI spec (fun _ => False) s -> history_clean P fuel ps s -> history_guarded P fuel ps s.
Proof.
  induction ps as [|p ps IH]; intros spec s HS Hc; [exact I|].
  cbn [history_clean] in Hc. destruct Hc as (Ht & Hn & Hd & Hc'). cbn [history_guarded].
  split; [exact (stree_resume_guarded_from P HP spec s HS p Ht fuel Hn)|].
  destruct ps as [|p' ps']; [exact I|].
  destruct (Hd ltac:(discriminate)) as (o & Hm).
  destruct (async_eq_seq_stree_state P spec s p fuel o HP Ht HS Hn Hm) as (_ & spec' & HS').
  apply (IH spec'); [|exact Hc'].
  unfold run_root. unfold start in HS', Hm. destruct (create [] (FTask p) s) as [h s1]. cbn [fst snd] in HS', Hm.
  rewrite Hm. cbn [snd]. apply (SI_view spec' _ (c_st (run P fuel (mkC (MValue h) [FTop] s1)))); auto.
Qed.

Theorem stree_history_no_step_after_done P fuel ps :
  pointwise P -> history_clean P fuel ps (st0 P) ->
  forall t i o l1 l2, snd (run_case P fuel ps) = l1 ++ EvStep t i o :: l2 -> forall o', ~ In (EvDone t o') l1.
Proof.
  intros HP Hc. apply run_case_no_step_after_done.
  exact (history_clean_guarded P fuel HP ps _ (st0 P) (SI_empty P) Hc).
Qed.

(* ------------------------------------------------------------------ S5: synchronous calls *)
(* where a configuration [MDeliver o] can come from: value() of an already computed future (or of a batch item
   or lazy future, computed on the spot), or the wait loop of a root that is computed *)
Ltac brk H :=
  repeat (cbn [c_mode] in H;
          match type of H with context [match ?x with _ => _ end] => destruct x end);
  cbn [c_mode] in H; try discriminate H.

Lemma step_deliver_origin P c o :
  c_mode (step P c) = MDeliver o ->
  (exists h, c_mode c = MValue h /\ c_frames (step P c) = c_frames c) \/
  ((c_mode c = MWaitHead \/ c_mode c = MAfterExec) /\
   exists root, c_frames c = FWait root :: c_frames (step P c) /\ computed root (c_st c) = true /\
                o = outcome_of root (c_st c)).
Proof.
  destruct c as [m fr s]. destruct m; cbn [step c_mode c_frames c_st]; intros H.
  - left. exists h. split; [reflexivity|].
    destruct (computed h s); [reflexivity|]. destruct (get h s) as [[out [tk|kind idx key a|o'|]]|]; try reflexivity. discriminate H.
  - right. split; [left; reflexivity|]. destruct fr as [|[| |root| |] fr']; try discriminate H.
    destruct (computed root s) eqn:Hc; [|discriminate H]. cbn in H. inversion H. exists root. auto.
  - right. split; [right; reflexivity|]. destruct fr as [|[| |root| |] fr']; try discriminate H.
    destruct (computed root s) eqn:Hc; [|discriminate H]. cbn in H. inversion H. exists root. auto.
  - exfalso. brk H.
  - exfalso. brk H.
  - exfalso. brk H.
  - exfalso. brk H.
  - exfalso. brk H.
  - exfalso. brk H.
  - discriminate H.
  - discriminate H.
Qed.

Section SyncS.
  Variable P : params.
  Hypothesis HP : pointwise P.

  (* the call proper *)
  Lemma CI_at_call res spec t h k fr s :
    CI res spec (mkC (MRun t (Sync h k)) fr s) ->
    exists oh, spec h = Some oh /\ spec t = Some (evals (k oh)) /\ (forall o, stree (k o)) /\
      (fnum t < fnum h)%Z /\ is_task h s /\
      (forall q, get h s = Some (mkFut None (KTask (fresh_task q))) -> oh = evals q) /\
      (computed h s = true -> oh = outcome_of h s) /\
      step P (mkC (MRun t (Sync h k)) fr s) = mkC (MValue h) (FValue t k :: fr) s.
  Proof.
    intros (Hf & HS & Hm). cbn [c_mode c_frames c_st] in *.
    destruct Hf as (old & i & r & vs & -> & Hrt & Hlv). cbn [R_of fvals] in HS.
    destruct Hm as [(Htree & _)|(h' & k' & oh & E & Hk & Hsh & Hst & Hth & Hih)]; [inversion Htree|].
    inversion E; subst h' k'. exists oh.
    split; [exact Hsh|]. split; [exact Hst|]. split; [exact Hk|]. split; [exact Hth|]. split; [exact Hih|].
    split; [|split; [|reflexivity]].
    - intros q Hg. destruct (SI_entry _ _ _ _ _ HS Hg) as (_ & o' & Hs' & _ & _ & _ & Hok). cbn in Hok.
      rewrite Hsh in Hs'. inversion Hs'; subst o'.
      destruct Hok as (k0 & K1 & _ & K3 & _); [reflexivity| |].
      + intros [E'|Hin]; [subst h; lia|]. pose proof (wt_ok_fvals _ _ _ _ _ (proj2 Hlv) h Hin). lia.
      + cbn in K1. inversion K1; subst k0. symmetry. exact K3.
    - intros Hc. pose proof (SI_computed_spec _ _ _ _ HS Hc) as E'. rewrite Hsh in E'. inversion E'. reflexivity.
  Qed.

  (* value() returns into the caller *)
  Lemma CI_at_return res spec o t k fr' s :
    CI res spec (mkC (MDeliver o) (FValue t k :: fr') s) ->
    utask s t /\ (forall x, stree (k x)) /\ spec t = Some (evals (k o)) /\
    step P (mkC (MDeliver o) (FValue t k :: fr') s) = mkC (MRun t (k o)) fr' (emit (EvGot t o) s).
  Proof.
    intros (Hf & HS & _). cbn [c_mode c_frames c_st] in *. destruct Hf as (b & Hv).
    inversion Hv as [|oh b' t' k' old i r orr vs Hk Ht Hb Hrt Hh Hr Hvs Eo Eb Ef]; subst.
    split; [|split; [exact Hk|split; [exact Ht|reflexivity]]].
    apply (SI_utask _ _ _ _ HS). cbn [R_of fvals]. left. reflexivity.
  Qed.

  (* what is delivered into an FValue frame is the stored = specified outcome of the awaited future *)
  Lemma CI_deliver_origin res spec c o t k fr' :
    CI res spec c -> c_mode (step P c) = MDeliver o -> c_frames (step P c) = FValue t k :: fr' ->
    exists h, computed h (c_st c) = true /\ o = outcome_of h (c_st c) /\ spec h = Some o /\ (fnum t < fnum h)%Z /\
      ((c_mode c = MValue h /\ c_frames c = FValue t k :: fr') \/
       ((c_mode c = MWaitHead \/ c_mode c = MAfterExec) /\ c_frames c = FWait h :: FValue t k :: fr')).
  Proof.
    intros HI Hm Hfr. destruct (step_deliver_origin P c o Hm) as [(h & Hmc & Hf)|(Hmc & root & Hf & Hc & Ho)].
    - destruct c as [m fr s]. cbn [c_mode c_frames c_st] in *. subst m. rewrite Hfr in Hf. subst fr.
      destruct HI as (HF & HS & Htk). cbn [c_mode c_frames c_st] in *. destruct HF as (oh & Hoh & Hv).
      cbn [step c_mode c_frames c_st] in Hm. destruct (computed h s) eqn:Hc.
      + cbn [c_mode] in Hm. inversion Hm as [Ho]. exists h. split; [exact Hc|]. split; [reflexivity|].
        split; [apply (SI_computed_spec _ _ _ _ HS Hc)|]. split; [|left; split; reflexivity].
        inversion Hv; subst. assumption.
      + destruct Htk as (out & tk & Hg). rewrite Hg in Hm. discriminate Hm.
    - destruct c as [m fr s]. cbn [c_mode c_frames c_st] in *. rewrite Hfr in Hf. subst fr.
      exists root. split; [exact Hc|]. split; [exact Ho|].
      assert (HX : SI spec (fun x => In x (t :: fvals fr')) s /\ exists orr, spec root = Some orr /\ vs_ok res spec (tasks s) orr (fnum root) (FValue t k :: fr')).
      { destruct Hmc as [-> | ->]; destruct HI as (HF & HS & _); cbn [c_mode c_frames c_st] in *;
          destruct HF as (r & vs & E & Hw); inversion E; subst r vs; (split; [exact HS|exact Hw]). }
      destruct HX as (HS & orr & Hr & Hv).
      split; [rewrite Ho; apply (SI_computed_spec _ _ _ _ HS Hc)|]. split; [|right; split; [exact Hmc|reflexivity]].
      inversion Hv; subst. assumption.
  Qed.

  Section Runs.
    Variable p : prog.
    Hypothesis Ht : stree p.
    Let h0 := fst (create [] (FTask p) (st0 P)).
    Let s1 := snd (create [] (FTask p) (st0 P)).

    Theorem sync_call_stree n t h k :
      no_unwind P n (start h0 s1) -> c_mode (run P n (start h0 s1)) = MRun t (Sync h k) ->
      exists spec oh, spec h = Some oh /\ spec t = Some (evals (k oh)) /\ (forall o, stree (k o)) /\
        (fnum t < fnum h)%Z /\ is_task h (c_st (run P n (start h0 s1))) /\
        (forall q, get h (c_st (run P n (start h0 s1))) = Some (mkFut None (KTask (fresh_task q))) -> oh = evals q) /\
        (computed h (c_st (run P n (start h0 s1))) = true -> oh = outcome_of h (c_st (run P n (start h0 s1)))) /\
        c_mode (step P (run P n (start h0 s1))) = MValue h /\
        c_frames (step P (run P n (start h0 s1))) = FValue t k :: c_frames (run P n (start h0 s1)).
    Proof.
      intros Hn Hm. destruct (reach_invS_from P HP _ (st0 P) p n Ht (SI_empty P) Hn) as (spec & HI). fold h0 s1 in HI.
      destruct (run P n (start h0 s1)) as [m fr s] eqn:Er. cbn in Hm. subst m. cbn [c_st c_frames].
      destruct (CI_at_call _ _ _ _ _ _ _ HI) as (oh & A & B & C & D & E & F & G & H).
      exists spec, oh. rewrite H. cbn [c_mode c_frames]. repeat (split; [assumption|]). split; reflexivity.
    Qed.

    Theorem sync_deliver_origin_stree n o t k fr' :
      no_unwind P n (start h0 s1) ->
      c_mode (step P (run P n (start h0 s1))) = MDeliver o ->
      c_frames (step P (run P n (start h0 s1))) = FValue t k :: fr' ->
      exists spec h, computed h (c_st (run P n (start h0 s1))) = true /\
        o = outcome_of h (c_st (run P n (start h0 s1))) /\ spec h = Some o /\ (fnum t < fnum h)%Z /\
        ((c_mode (run P n (start h0 s1)) = MValue h /\ c_frames (run P n (start h0 s1)) = FValue t k :: fr') \/
         ((c_mode (run P n (start h0 s1)) = MWaitHead \/ c_mode (run P n (start h0 s1)) = MAfterExec) /\
          c_frames (run P n (start h0 s1)) = FWait h :: FValue t k :: fr')).
    Proof.
      intros Hn Hm Hf. destruct (reach_invS_from P HP _ (st0 P) p n Ht (SI_empty P) Hn) as (spec & HI). fold h0 s1 in HI.
      destruct (CI_deliver_origin _ _ _ _ _ _ _ HI Hm Hf) as (h & A). exists spec, h. exact A.
    Qed.

    Theorem sync_return_stree n o t k fr' :
      no_unwind P n (start h0 s1) ->
      c_mode (run P n (start h0 s1)) = MDeliver o -> c_frames (run P n (start h0 s1)) = FValue t k :: fr' ->
      exists spec, utask (c_st (run P n (start h0 s1))) t /\ (forall x, stree (k x)) /\
        spec t = Some (evals (k o)) /\
        c_mode (step P (run P n (start h0 s1))) = MRun t (k o) /\
        c_frames (step P (run P n (start h0 s1))) = fr'.
    Proof.
      intros Hn Hm Hf. destruct (reach_invS_from P HP _ (st0 P) p n Ht (SI_empty P) Hn) as (spec & HI). fold h0 s1 in HI.
      destruct (run P n (start h0 s1)) as [m fr s] eqn:Er. cbn in Hm, Hf. subst m fr. cbn [c_st].
      destruct (CI_at_return _ _ _ _ _ _ _ HI) as (A & B & C & D). exists spec. rewrite D. cbn [c_mode c_frames].
      repeat (split; [assumption|]). split; reflexivity.
    Qed.
  End Runs.
End SyncS.

(* ------------------------------------------------------------------ non-vacuity *)
(* root [0]:    x, y, z = yield caller.asynq(), failing.asynq(), ErrorFuture(43)
   caller [1]:  return (callee(), 1)              - a synchronous call inside an awaited task
   callee [4]:  v = yield item(kind 0); return v  - waited for in a nested loop below caller's frames
   failing [2]: raise 42                          - the first failing sibling in written order; [3] = ErrorFuture(43)
   The root is resumed (step 40) only when [1], [2], [3] are all computed, receives Err 42 although [3] failed
   "earlier" (it was born failed), and value() ends with Err 42 = evals.  The call returns at step 30: MDeliver
   (Ok 7) pops FValue [1] and caller continues with return (7, 1). *)
Definition c02s_callee : prog :=
  Yield (YLeaf (LNew (FItem 0 2 (ASet (VInt 7))))) (ret_or_raise (fun v => v)).

Definition c02s_caller : prog :=
  Let (FTask c02s_callee) (fun h => Sync h (ret_or_raise (fun v => VTuple [v; VInt 1]))).

Definition c02s_demo : prog :=
  Yield (YTuple [YLeaf (LNew (FTask c02s_caller)); YLeaf (LNew (FTask (Raise 42))); YLeaf (LNew (FError 43))])
        (ret_or_raise (fun v => v)).

Lemma c02s_demo_stree : stree c02s_demo.
Proof.
  unfold c02s_demo. apply st_yield; [|apply ret_or_raise_stree].
  intros l Hl. cbn in Hl. destruct Hl as [<-|[<-|[<-|[]]]]; constructor; constructor; [|constructor].
  unfold c02s_caller. apply st_call; [|apply ret_or_raise_stree].
  unfold c02s_callee. apply st_yield; [|apply ret_or_raise_stree].
  intros l [<-|[]]. repeat constructor.
Qed.

Example c02s_demo_runs :
  let P := mkP [] 1000 false [] in
  let h := fst (create [] (FTask c02s_demo) (st0 P)) in
  let s1 := snd (create [] (FTask c02s_demo) (st0 P)) in
  no_unwind_b P 60 (start h s1) = true /\
  c_mode (run P 60 (start h s1)) = MDone (Err 42) /\ evals c02s_demo = Err 42 /\
  (* the resume of the root *)
  c_mode (run P 40 (start h s1)) = MResume [0] /\
  match get_task [0] (c_st (run P 40 (start h s1))) with
  | Some tk => tk_last tk = YTuple [YLeaf (RFut [1]); YLeaf (RFut [2]); YLeaf (RFut [3])] /\
               map (look (c_st (run P 40 (start h s1)))) (leaves (tk_last tk)) =
                 [Ok (VTuple [VInt 7; VInt 1]); Err 42; Err 43] /\
               unwrap (look (c_st (run P 40 (start h s1)))) (tk_last tk) = Err 42
  | None => False
  end /\
  c_mode (step P (run P 40 (start h s1))) = MRun [0] (Raise 42) /\
  (* the synchronous call inside the awaited task [1]: entered at step 10, returns at step 30 *)
  (exists k, c_mode (run P 10 (start h s1)) = MRun [1] (Sync [4] k)) /\
  c_mode (run P 11 (start h s1)) = MValue [4] /\
  c_mode (run P 29 (start h s1)) = MAfterExec /\
  (exists k fr', c_frames (run P 29 (start h s1)) = FWait [4] :: FValue [1] k :: fr') /\
  c_mode (run P 30 (start h s1)) = MDeliver (Ok (VInt 7)) /\
  (exists k fr', c_frames (run P 30 (start h s1)) = FValue [1] k :: fr') /\
  c_mode (step P (run P 30 (start h s1))) = MRun [1] (Ret (VTuple [VInt 7; VInt 1])) /\
  rev (trace (c_st (run P 60 (start h s1)))) =
    [EvStep [0] 0 (Ok VNone); EvStep [1] 0 (Ok VNone); EvStep [4] 0 (Ok VNone);
     EvBefore 0 0; EvFlush 0 0 [[5]]; EvItemDone [5] (Ok (VInt 7)); EvAfter 0 0;
     EvStep [4] 1 (Ok (VInt 7)); EvDone [4] (Ok (VInt 7)); EvGot [1] (Ok (VInt 7));
     EvDone [1] (Ok (VTuple [VInt 7; VInt 1])); EvStep [2] 0 (Ok VNone); EvDone [2] (Err 42);
     EvStep [0] 1 (Err 42); EvDone [0] (Err 42)].
Proof. vm_compute. repeat split; eexists; try eexists; reflexivity. Qed.

(* a clean history: the same computation twice on one scheduler; the second one works on ids [6]... *)
Example c02s_history_clean :
  let P := mkP [] 1000 false [] in
  history_clean P 60 [c02s_demo; c02s_demo] (st0 P) /\
  fst (run_case P 60 [c02s_demo; c02s_demo]) = [Some (Err 42); Some (Err 42)] /\
  filter (fun e => match e with EvStep [6] _ _ | EvDone [6] _ | EvStep [7] _ _ | EvDone [7] _ => true | _ => false end)
         (snd (run_case P 60 [c02s_demo; c02s_demo])) =
  [EvStep [6] 0 (Ok VNone); EvStep [7] 0 (Ok VNone); EvDone [7] (Ok (VTuple [VInt 7; VInt 1]));
   EvStep [6] 1 (Err 42); EvDone [6] (Err 42)].
Proof.
  cbn zeta. split; [|vm_compute; split; reflexivity].
  cbn [history_clean].
  split; [exact c02s_demo_stree|]. split; [apply MachineC06T.no_unwind_b_sound; vm_compute; reflexivity|].
  split; [intros _; eexists; vm_compute; reflexivity|].
  split; [exact c02s_demo_stree|]. split; [apply MachineC06T.no_unwind_b_sound; vm_compute; reflexivity|].
  split; [intros H; exfalso; apply H; reflexivity|exact I].
Qed.

(* ------------------------------------------------------------------ the specification only grows *)
(* s01_step with the additional information that the ghost specification map is extended, never changed
   (MachineC01S.s01_MRun re-proved with the extra conjunct; the other modes keep the map) *)
Section MonoS.
  Variable P : params.
  Hypothesis HP : pointwise P.
  Variable res : outcome.

  Lemma s01_MRun_le spec t p fr s : CI res spec (mkC (MRun t p) fr s) ->
    exists spec', CI res spec' (step P (mkC (MRun t p) fr s)) /\ spec_le spec spec'.
  Proof.
    intros (Hf & HS & Hm). cbn [c_mode c_frames c_st] in *.
    destruct Hf as (old & i & r & vs & -> & Hrt & Hlv). cbn [R_of fvals] in HS.
    assert (HtR : ~ In t (fvals vs)).
    { intros Hin. pose proof (wt_ok_fvals _ _ _ _ _ (proj2 Hlv) t Hin). lia. }
    destruct (SI_utask _ _ _ t HS (or_introl eq_refl)) as (tk & Hg).
    assert (Hfr : forall spec' ts, spec_le spec spec' -> ts = tasks s ->
              frames_okS res spec' ts MContRet (FCont t old :: FExec i :: FWait r :: vs)).
    { intros spec' ts L ->. exists t, old, i, r, vs. split; [reflexivity|]. split; [exact Hrt|]. apply (lv_ok_le res spec); assumption. }
    assert (Hfr' : forall spec' ts q, spec_le spec spec' -> ts = tasks s ->
              frames_okS res spec' ts (MRun t q) (FCont t old :: FExec i :: FWait r :: vs)).
    { intros spec' ts q L ->. exists old, i, r, vs. split; [reflexivity|]. split; [exact Hrt|]. apply (lv_ok_le res spec); assumption. }
    assert (Lrefl : spec_le spec spec) by (intros x o H; exact H).
    assert (Hp : forallb plain_ctx (tk_ctxs tk) = true) by (apply (SI_plain _ _ _ _ _ _ HS Hg)).
    pose proof (SI_deps _ _ _ _ _ _ HS Hg) as Hdeps.
    cbn [step c_mode c_frames c_st].
    destruct Hm as [(Htree & Hst)|(h & k & oh & -> & Hk & Hsh & Hst & Hth & Hih)].
    2:{ (* the synchronous call proper: value() of the callee is entered below the caller's frames *)
      exists spec. split; [|exact Lrefl]. apply CI_intro; [|exact HS|exact Hih|exact I].
      exists oh. split; [exact Hsh|]. destruct Hlv as (Hh & orr & Hr & Hv).
      apply (vs_val res spec (tasks s) oh (fnum h) t k old i r orr vs); auto. }
    unfold get_task. rewrite Hg.
    inversion Htree as [v Ev|v Ev|e Ev|y k Hl Hk Ev|c k Hc Hk Ev|c k Hc Hk Ev|q k Hq Hk Ev]; subst p.
    - (* Ret *)
      exists spec. split; [|exact Lrefl]. destruct (finish_taskS res spec t s tk (Ok v) _ (fvals vs) HS HtR Hg Hst (Hfr spec _ Lrefl eq_refl) eq_refl) as (Hnc & HC).
      cbn zeta in *. rewrite Hnc. exact HC.
    - (* Result *)
      exists spec. split; [|exact Lrefl]. destruct (finish_taskS res spec t s tk (Ok v) _ (fvals vs) HS HtR Hg Hst (Hfr spec _ Lrefl eq_refl) eq_refl) as (Hnc & HC).
      cbn zeta in *. rewrite Hnc. exact HC.
    - (* Raise *)
      exists spec. split; [|exact Lrefl]. destruct (finish_taskS res spec t s tk (Err e) _ (fvals vs) HS HtR Hg Hst (Hfr spec _ Lrefl eq_refl) eq_refl) as (Hnc & HC).
      cbn zeta in *. unfold accept_error. rewrite Hnc. exact HC.
    - (* Yield *)
      destruct (SI_inst _ t y spec s HS Hl) as (spec' & (Ext & HS1 & Old & Tn) & U & A & Nw).
      pose proof (ext_spec_le _ _ _ _ HS Ext) as L.
      pose proof (tasks_of_regs _ _ (regs_inst t y s)) as Ets.
      destruct (inst t y s) as [y' s1]. cbn [fst snd] in *.
      assert (Hg1 : get t s1 = Some (mkFut None (KTask tk))) by (rewrite Old; [exact Hg|rewrite Hg; discriminate]).
      rewrite Hg1.
      set (deps := tk_deps tk ++ futs (extract y')).
      set (tk2 := mkTask (Some k) y' deps (tk_ctxs tk) (tk_cact tk) (tk_ds tk) (tk_iter tk) (tk_next tk)).
      pose proof (set_task_upd s1 t None tk tk2 Hg1) as U2.
      assert (Hst' : spec' t = Some (evals (Yield y k))) by (apply L; exact Hst).
      pose proof (SI_fnum_lt _ _ _ _ _ HS Hg) as Htn.
      assert (HS2 : SI spec' (fun x => In x (fvals vs)) (set_task t tk2 s1)).
      { apply (SI_upd spec' _ (fun x => In x (fvals vs)) s1 _ t _ _ Hg1 HS1 U2); [intros x N; apply in_cons_other'; exact N| | |intros; discriminate].
        - intros Dom. destruct (SI_entry _ _ _ _ _ HS1 Hg1) as ((n & -> & Hn) & _). destruct U2 as (_ & _ & _ & D).
          split; [exists n; rewrite D; auto|]. exists (evals (Yield y k)). split; [exact Hst'|]. split; [intros o2 E; discriminate|].
          cbn. split; [exact Hp|]. split.
          + intros d Hin. unfold deps in Hin. apply in_app_or in Hin as [Hin|Hin]; [apply Hdeps; exact Hin|].
            unfold futs in Hin. apply in_flat_map in Hin as ([d'|] & Hin1 & Hin2); [|destruct Hin2].
            destruct Hin2 as [<-|[]]. apply extract_same_elements in Hin1. specialize (Nw d' Hin1). cbn in Htn. lia.
          + intros _ _. exists k. split; [reflexivity|]. split; [exact Hk|].
            split; [cbn; rewrite U; reflexivity|]. split.
            * intros h Hin. apply Dom. apply A. exact Hin.
            * intros h Hin. unfold deps. apply in_or_app. right. apply futs_in. apply extract_same_elements. exact Hin.
        - intros Hin. exfalso. exact (HtR Hin). }
      exists spec'. split; [|exact L]. fold deps. fold tk2. destruct (futs (extract y')) as [|d ds] eqn:Ed.
      + apply CI_intro; [| | |exact I].
        * rewrite tasks_set_task, Ets. exists old, i, r, vs. split; [reflexivity|]. split; [exact Hrt|]. apply (lv_ok_le res spec); assumption.
        * exact HS2.
        * exists tk2. destruct U2 as (G2 & _). split; [exact G2|]. intros h Hin. cbn [tk_last tk2] in Hin.
          exfalso. assert (Hin' : In h (futs (extract y'))) by (apply futs_in; apply extract_same_elements; exact Hin).
          rewrite Ed in Hin'. destruct Hin'.
      + apply CI_intro; [| |exact I|exact I].
        * rewrite tasks_set_task, Ets. apply (Hfr spec' _ L eq_refl).
        * exact HS2.
    - (* Enter *)
      exists spec. split; [|exact Lrefl]. unfold enter_ctx, get_task. rewrite Hg.
      set (tk1 := tk_with_ctxs tk (tk_ctxs tk ++ [c]) (tk_cact tk)).
      pose proof (set_task_upd s t None tk tk1 Hg) as U1.
      assert (Hp1 : forallb plain_ctx (tk_ctxs tk1) = true) by (cbn; rewrite forallb_app, Hp; cbn; rewrite Hc; reflexivity).
      pose proof (SI_upd_exempt spec _ s _ t tk tk1 Hg HS (or_introl eq_refl) U1 Hp1 Hdeps) as HS1.
      assert (V : forall s2, heap s2 = heap (set_task t tk1 s) -> batches s2 = batches (set_task t tk1 s) ->
                top_next s2 = top_next (set_task t tk1 s) -> tasks s2 = tasks s ->
                CI res spec (mkC (MRun t k) (FCont t old :: FExec i :: FWait r :: vs) s2)).
      { intros s2 E1 E2 E3 E4. apply CI_intro; [apply (Hfr' spec _ k Lrefl E4)|apply (SI_view _ _ (set_task t tk1 s)); auto| |exact I].
        left. split; [exact Hk|exact Hst]. }
      destruct c as [cid f|cid|cid var v]; apply V; try reflexivity; cbn; apply tasks_set_task.
    - (* Exit *)
      exists spec. split; [|exact Lrefl]. unfold exit_ctx, get_task. rewrite Hg.
      set (tk1 := tk_with_ctxs tk (remove_ctx c (tk_ctxs tk)) (tk_cact tk)).
      pose proof (set_task_upd s t None tk tk1 Hg) as U1.
      assert (Hp1 : forallb plain_ctx (tk_ctxs tk1) = true) by (cbn; apply remove_ctx_plain; exact Hp).
      pose proof (SI_upd_exempt spec _ s _ t tk tk1 Hg HS (or_introl eq_refl) U1 Hp1 Hdeps) as HS1.
      assert (V : forall s2, heap s2 = heap (set_task t tk1 s) -> batches s2 = batches (set_task t tk1 s) ->
                top_next s2 = top_next (set_task t tk1 s) -> tasks s2 = tasks s ->
                CI res spec (mkC (MRun t k) (FCont t old :: FExec i :: FWait r :: vs) s2)).
      { intros s2 E1 E2 E3 E4. apply CI_intro; [apply (Hfr' spec _ k Lrefl E4)|apply (SI_view _ _ (set_task t tk1 s)); auto| |exact I].
        left. split; [exact Hk|exact Hst]. }
      destruct (tk_cact tk); [|apply V; try reflexivity; apply tasks_set_task].
      unfold pause_plain. destruct c as [cid f|cid|cid var v]; apply V; try reflexivity; cbn; apply tasks_set_task.
    - (* a synchronous call: the callee task is created *)
      pose proof (SI_create spec _ t (FTask q) s HS (sf_task q Hq)) as HC. cbn zeta in HC.
      pose proof (tasks_of_regs _ _ (regs_create t (FTask q) s)) as Ets.
      destruct (create t (FTask q) s) as [h s1]. cbn [fst snd fexpr_outs] in *.
      destruct HC as (Hfresh & HS1 & Hnew & Hoth & Hh & Hn1 & Hent).
      pose proof (spec_add_le spec _ s h (evals q) HS Hfresh) as L.
      pose proof (SI_fnum_lt _ _ _ _ _ HS Hg) as Htn.
      exists (spec_add spec h (evals q)). split; [|exact L]. apply CI_intro; [apply (Hfr' _ _ _ L Ets)|exact HS1| |exact I].
      right. exists h, k, (evals q). split; [reflexivity|]. split; [exact Hk|].
      split; [unfold spec_add; rewrite fid_eqb_refl; reflexivity|].
      split; [apply L; rewrite Hst; rewrite evals_call; reflexivity|].
      split; [rewrite Hh; cbn; cbn in Htn; lia|].
      exists None, (fresh_task q). apply Hent. reflexivity.
  Qed.

  Theorem s01_step_le spec c :
    is_unwind (c_mode c) = false -> CI res spec c -> exists spec', CI res spec' (step P c) /\ spec_le spec spec'.
  Proof.
    assert (Lrefl : spec_le spec spec) by (intros x o H; exact H).
    destruct c as [m fr s]. destruct m; cbn [c_mode is_unwind]; intros Hu HI; try discriminate.
    - exists spec. split; [apply (s01_MValue P); exact HI|exact Lrefl].
    - exists spec. split; [apply (s01_MWaitHead P); exact HI|exact Lrefl].
    - exists spec. split; [apply (s01_MAfterExec P HP); exact HI|exact Lrefl].
    - exists spec. split; [apply (s01_MExecLoop P); exact HI|exact Lrefl].
    - exists spec. split; [apply (s01_MResume P); exact HI|exact Lrefl].
    - apply (s01_MRun_le spec); exact HI.
    - exists spec. split; [apply (s01_MContRet P); exact HI|exact Lrefl].
    - exists spec. split; [apply (s01_MDeliver P); exact HI|exact Lrefl].
    - exists spec. split; [exact HI|exact Lrefl].
    - exists spec. split; [exact HI|exact Lrefl].
  Qed.

  (* ---------------------------------------------------------------- a synchronous call, from entry to return *)
  (* the call of [h] from the frames [F] (= FValue t k :: the caller's frames) has not returned yet: value() of h
     has just been entered over F, or wait_for(h) sits directly on F under whatever the nested loop is doing *)
  Definition pending (h : fid) (F : list frame) (c : cfg) : Prop :=
    (c_mode c = MValue h /\ c_frames c = F) \/ exists pre, c_frames c = pre ++ FWait h :: F.

  (* value() returns into F *)
  Definition returns_to (F : list frame) (c : cfg) : Prop := c_frames c = F /\ exists o, c_mode c = MDeliver o.

  Lemma pending_not_returns h F c : pending h F c -> ~ returns_to F c.
  Proof.
    intros [(Hm & _)|(pre & Hf)] (Hf' & o & Hm'); [congruence|].
    rewrite Hf' in Hf. apply (f_equal (@length frame)) in Hf. rewrite app_length in Hf. cbn [length] in Hf. lia.
  Qed.

  Lemma pre_cons h F pre x fr' :
    pre ++ FWait h :: F = x :: fr' ->
    (pre = [] /\ x = FWait h /\ fr' = F) \/ exists pre', fr' = pre' ++ FWait h :: F.
  Proof.
    destruct pre as [|y pre']; cbn [app]; intros E; inversion E; subst; [left; auto|right; exists pre'; reflexivity].
  Qed.

  Ltac brkg :=
    repeat (cbn [c_frames c_mode c_st];
            match goal with |- context [match ?x with _ => _ end] => destruct x end);
    cbn [c_frames c_mode c_st].

  (* one transition: the call stays pending, or value() returns into F with the stored = specified outcome of h *)
  Lemma pending_step spec h F c :
    F <> [] -> CI res spec c -> is_unwind (c_mode c) = false -> pending h F c ->
    pending h F (step P c) \/
    (c_mode (step P c) = MDeliver (outcome_of h (c_st c)) /\ c_frames (step P c) = F /\
     spec h = Some (outcome_of h (c_st c))).
  Proof.
    intros HF0 HI Hu [(Hm & Hf)|(pre & Hf)]; destruct c as [m fr0 s]; cbn [c_mode c_frames c_st] in *.
    - subst m fr0. destruct HI as (HF & HS & (out & tk & Hg)). cbn [c_mode c_frames c_st] in *.
      cbn [step c_mode c_frames c_st]. destruct (computed h s) eqn:Hc.
      + right. split; [reflexivity|]. split; [reflexivity|]. apply (SI_computed_spec _ _ _ _ HS Hc).
      + left. rewrite Hg. right. exists []. reflexivity.
    - destruct m; try discriminate Hu; cbn [step c_mode c_frames c_st].
      + (* MValue *) left. right. brkg; first [exists pre; exact Hf | eexists (_ :: pre); rewrite Hf; reflexivity].
      + (* MWaitHead *)
        destruct fr0 as [|[| |root| |] fr']; try (left; right; exists pre; exact Hf).
        destruct (computed root s) eqn:Hc; [|left; right; eexists (_ :: pre); cbn [c_frames]; rewrite Hf; reflexivity].
        destruct (pre_cons _ _ _ _ _ (eq_sym Hf)) as [(_ & E1 & E2)|(pre' & E')].
        * right. inversion E1; subst root fr'. split; [reflexivity|]. split; [reflexivity|].
          destruct HI as (_ & HS & _). cbn [c_mode c_frames c_st] in HS. apply (SI_computed_spec _ _ _ _ HS Hc).
        * left. right. exists pre'. exact E'.
      + (* MAfterExec *)
        destruct fr0 as [|[| |root| |] fr']; try (left; right; exists pre; exact Hf).
        destruct (computed root s) eqn:Hc; [|left; right; exists pre; exact Hf].
        destruct (pre_cons _ _ _ _ _ (eq_sym Hf)) as [(_ & E1 & E2)|(pre' & E')].
        * right. inversion E1; subst root fr'. split; [reflexivity|]. split; [reflexivity|].
          destruct HI as (_ & HS & _). cbn [c_mode c_frames c_st] in HS. apply (SI_computed_spec _ _ _ _ HS Hc).
        * left. right. exists pre'. exact E'.
      + (* MExecLoop *)
        destruct fr0 as [|[| | |init|] fr']; try (left; right; exists pre; exact Hf).
        destruct (pre_cons _ _ _ _ _ (eq_sym Hf)) as [(_ & E1 & _)|(pre' & E')]; [discriminate E1|].
        left. right.
        brkg; first [exists pre'; exact E' | exists pre; exact Hf | eexists (_ :: pre); rewrite Hf; reflexivity].
      + (* MResume *) left. right. brkg; exists pre; exact Hf.
      + (* MRun *) left. right. brkg; first [exists pre; exact Hf | eexists (_ :: pre); rewrite Hf; reflexivity].
      + (* MContRet *)
        destruct fr0 as [|[| | | |t0 old] fr']; try (left; right; exists pre; exact Hf).
        destruct (pre_cons _ _ _ _ _ (eq_sym Hf)) as [(_ & E1 & _)|(pre' & E')]; [discriminate E1|].
        left. right. exists pre'. exact E'.
      + (* MDeliver *)
        destruct fr0 as [|[|t0 k0| | |] fr']; try (left; right; exists pre; exact Hf).
        * exfalso. destruct HI as ((b & Hv) & _). cbn [c_mode c_frames c_st] in Hv. inversion Hv; subst.
          destruct F as [|x0 F']; [exact (HF0 eq_refl)|].
          apply (f_equal (@length frame)) in Hf. rewrite app_length in Hf. cbn [length] in Hf. lia.
        * destruct (pre_cons _ _ _ _ _ (eq_sym Hf)) as [(_ & E1 & _)|(pre' & E')]; [discriminate E1|].
          left. right. exists pre'. exact E'.
      + left. right. exists pre. exact Hf.
      + left. right. exists pre. exact Hf.
  Qed.

  (* from a pending configuration to the FIRST return into F: what is delivered is the specified outcome of h *)
  Lemma pending_run h F (HF0 : F <> []) d : forall spec c oh o,
    CI res spec c -> pending h F c -> no_unwind P d c -> spec h = Some oh ->
    c_mode (run P d c) = MDeliver o -> c_frames (run P d c) = F ->
    (forall i, (i < d)%nat -> ~ returns_to F (run P i c)) -> o = oh.
  Proof.
    induction d as [|d IH]; intros spec c oh o HI Hp Hn Hoh Hm Hf Hfirst.
    - exfalso. apply (pending_not_returns h F c Hp). split; [exact Hf|exists o; exact Hm].
    - rewrite run_S in Hm, Hf. destruct (is_final (c_mode c)) eqn:Hfin.
      { exfalso. apply (pending_not_returns h F c Hp). split; [exact Hf|exists o; exact Hm]. }
      assert (Hu : is_unwind (c_mode c) = false) by (apply (Hn O); lia).
      destruct (s01_step_le spec c Hu HI) as (spec' & HI' & L).
      destruct (pending_step spec h F c HF0 HI Hu Hp) as [Hp'|(Hm' & Hf' & Hs')].
      + apply (IH spec' (step P c) oh o HI' Hp'); [|apply L; exact Hoh|exact Hm|exact Hf|].
        * intros k Hk. specialize (Hn (S k) ltac:(lia)). rewrite run_S, Hfin in Hn. exact Hn.
        * intros i Hi. specialize (Hfirst (S i) ltac:(lia)). rewrite run_S, Hfin in Hfirst. exact Hfirst.
      + destruct d as [|d'].
        * cbn [run] in Hm. rewrite Hm' in Hm. inversion Hm as [E]. rewrite Hs' in Hoh. inversion Hoh. reflexivity.
        * exfalso. apply (Hfirst 1%nat ltac:(lia)). rewrite run_S, Hfin. cbn [run].
          split; [exact Hf'|]. eexists. exact Hm'.
  Qed.
End MonoS.

Lemma run_add P a : forall b c, run P (a + b) c = run P b (run P a c).
Proof.
  induction a as [|a IH]; intros b c; [reflexivity|]. cbn [Nat.add]. rewrite !run_S.
  destruct (is_final (c_mode c)) eqn:Hf; [rewrite run_final by exact Hf; reflexivity|apply IH].
Qed.

(* S5, the two-state form: a synchronous call of a fresh task with program q, from the call proper (step n) to
   its FIRST return into the caller's frames (step m): the caller receives exactly evals q and continues with
   k (evals q), whose sequential value is the caller's *)
Theorem sync_call_returns_evals_stree P (HP : pointwise P) p (Ht : stree p) n m t h k q o :
  let c0 := start (fst (create [] (FTask p) (st0 P))) (snd (create [] (FTask p) (st0 P))) in
  no_unwind P m c0 -> (n < m)%nat ->
  c_mode (run P n c0) = MRun t (Sync h k) ->
  get h (c_st (run P n c0)) = Some (mkFut None (KTask (fresh_task q))) ->
  c_mode (run P m c0) = MDeliver o -> c_frames (run P m c0) = FValue t k :: c_frames (run P n c0) ->
  (forall i, (n < i < m)%nat -> ~ returns_to (FValue t k :: c_frames (run P n c0)) (run P i c0)) ->
  o = evals q /\
  exists spec, spec t = Some (evals (k (evals q))) /\ c_mode (step P (run P m c0)) = MRun t (k (evals q)).
Proof.
  intros c0 Hn Hnm Hmn Hg Hmm Hfm Hfirst.
  assert (Hn' : no_unwind P n c0) by (intros j Hj; apply Hn; lia).
  destruct (reach_invS_from P HP _ (st0 P) p n Ht (SI_empty P) Hn') as (spec & HI). fold c0 in HI.
  assert (Ho : o = evals q).
  { replace m with (n + S (m - n - 1))%nat in Hmm, Hfm by lia. rewrite run_add in Hmm, Hfm.
    assert (Hsh : forall j, run P j (step P (run P n c0)) = run P (n + S j) c0).
    { intros j. rewrite run_add, run_S. destruct (run P n c0) as [m0 fr0 s0]. cbn in Hmn. subst m0. reflexivity. }
    rewrite run_S in Hmm, Hfm.
    destruct (run P n c0) as [m0 fr s] eqn:Er. cbn [c_mode c_frames c_st] in *. subst m0. cbn [is_final] in Hmm, Hfm.
    destruct (CI_at_call P _ _ _ _ _ _ _ HI) as (oh & A & _ & _ & _ & _ & F' & _ & Hstep).
    specialize (F' q Hg). subst oh.
    destruct (s01_step_le P HP _ spec (mkC (MRun t (Sync h k)) fr s) eq_refl HI) as (spec' & HI' & L).
    apply (pending_run P HP (evals p) h (FValue t k :: fr) ltac:(discriminate) (m - n - 1) spec' _ (evals q) o HI');
      [left; rewrite Hstep; split; reflexivity| |apply L; exact A|exact Hmm|exact Hfm|].
    - intros j Hj. rewrite Hsh. apply Hn. lia.
    - intros i Hi. rewrite Hsh. apply Hfirst. lia. }
  split; [exact Ho|]. subst o.
  assert (Hn'' : no_unwind P m c0) by exact Hn.
  destruct (reach_invS_from P HP _ (st0 P) p m Ht (SI_empty P) Hn'') as (specm & HIm). fold c0 in HIm.
  destruct (run P m c0) as [mm frm sm] eqn:Erm. cbn [c_mode c_frames] in Hmm, Hfm. subst mm frm.
  destruct (CI_at_return P _ _ _ _ _ _ _ HIm) as (_ & _ & C & D). exists specm. split; [exact C|]. rewrite D. reflexivity.
Qed.

(* the same from the call expression  fn(args) = Let (FTask q) (fun h => Sync h k)  itself *)
Theorem sync_call_expr_returns_evals_stree P (HP : pointwise P) p (Ht : stree p) n m t k q o :
  let c0 := start (fst (create [] (FTask p) (st0 P))) (snd (create [] (FTask p) (st0 P))) in
  no_unwind P m c0 -> (n + 1 < m)%nat ->
  c_mode (run P n c0) = MRun t (Let (FTask q) (fun h => Sync h k)) ->
  c_mode (run P m c0) = MDeliver o -> c_frames (run P m c0) = FValue t k :: c_frames (run P n c0) ->
  (forall i, (n + 1 < i < m)%nat -> ~ returns_to (FValue t k :: c_frames (run P n c0)) (run P i c0)) ->
  o = evals q /\
  exists spec, spec t = Some (evals (k (evals q))) /\ c_mode (step P (run P m c0)) = MRun t (k (evals q)).
Proof.
  intros c0 Hn Hnm Hmn Hmm Hfm Hfirst.
  assert (E1 : run P (n + 1) c0 = step P (run P n c0)).
  { rewrite run_add, run_S. destruct (run P n c0) as [m0 fr0 s0]. cbn in Hmn. subst m0. reflexivity. }
  destruct (run P n c0) as [m0 fr s] eqn:Er. cbn [c_mode c_frames] in Hmn, Hfm, Hfirst. subst m0.
  cbn [step c_mode c_frames c_st] in E1.
  assert (Hg : get (fst (create t (FTask q) s)) (snd (create t (FTask q) s)) =
               Some (mkFut None (KTask (fresh_task q)))).
  { unfold create, alloc. cbn. apply get_put_same. }
  destruct (create t (FTask q) s) as [h s1]. cbn [fst snd] in Hg.
  apply (sync_call_returns_evals_stree P HP p Ht (n + 1) m t h k q o); fold c0; rewrite ?E1; cbn [c_mode c_frames c_st]; auto.
Qed.

(* non-vacuity of sync_call_returns_evals_stree on the demo: the call of callee [4] by caller [1] is entered at
   step 10 and first returns at step 30 with Ok 7 = evals callee *)
Example c02s_demo_call_returns :
  let P := mkP [] 1000 false [] in
  let c0 := start (fst (create [] (FTask c02s_demo) (st0 P))) (snd (create [] (FTask c02s_demo) (st0 P))) in
  let k := ret_or_raise (fun v => VTuple [v; VInt 1]) in
  no_unwind P 30 c0 /\
  c_mode (run P 10 c0) = MRun [1] (Sync [4] k) /\
  get [4] (c_st (run P 10 c0)) = Some (mkFut None (KTask (fresh_task c02s_callee))) /\
  c_mode (run P 30 c0) = MDeliver (Ok (VInt 7)) /\
  c_frames (run P 30 c0) = FValue [1] k :: c_frames (run P 10 c0) /\
  (forall i, (10 < i < 30)%nat -> ~ returns_to (FValue [1] k :: c_frames (run P 10 c0)) (run P i c0)) /\
  evals c02s_callee = Ok (VInt 7).
Proof.
  cbn zeta. split; [apply no_unwind_b_sound; vm_compute; reflexivity|].
  split; [vm_compute; reflexivity|]. split; [vm_compute; reflexivity|]. split; [vm_compute; reflexivity|].
  split; [vm_compute; reflexivity|]. split; [|reflexivity].
  intros i Hi (_ & o' & Hm').
  set (P := mkP [] 1000 false []) in *.
  set (c0 := start (fst (create [] (FTask c02s_demo) (st0 P))) (snd (create [] (FTask c02s_demo) (st0 P)))) in *.
  assert (Hb : forallb (fun j => match c_mode (run P j c0) with MDeliver _ => false | _ => true end) (seq 11 19) = true)
    by (vm_compute; reflexivity).
  rewrite forallb_forall in Hb. specialize (Hb i). rewrite in_seq in Hb. specialize (Hb ltac:(lia)).
  rewrite Hm' in Hb. discriminate Hb.
Qed.
