(* Proofs about the scheduled-task model TaskFut.v (C10). *)
From Asynq Require Import Base Futures BatchFut TaskFut proofs.FuturesProofs proofs.BatchFutProofs.

(* [notes l oc] (the callback records produced by notifying [l] with outcome [oc]) and
   [after_notify l] (the live subscription list after the subscribers registered in [l] were
   notified and did what their scripts say) come from FuturesProofs *)

Lemma tcomplete_log s o : tlog (tcomplete s o) = tlog s ++ notes (tsubs s) o.
Proof. cbn. unfold notes. now rewrite notify_snapshot, map_map. Qed.
Lemma tcomplete_subs s o : tsubs (tcomplete s o) = after_notify (tsubs s).
Proof. reflexivity. Qed.
Lemma tcomplete_out s o : tout (tcomplete s o) = Some o.
Proof. reflexivity. Qed.
Lemma tcomplete_gen s o : tgen (tcomplete s o) = None.
Proof. reflexivity. Qed.
Lemma tcomplete_runs s o : truns (tcomplete s o) = truns s.
Proof. reflexivity. Qed.
Local Arguments tcomplete : simpl never.
Global Hint Rewrite tcomplete_log tcomplete_subs tcomplete_out tcomplete_gen tcomplete_runs : tc.

(* [s'] was reached from [s] without any completion: outcome and callback log untouched,
   subscribers only appended *)
Definition quiet (s s' : tstate) : Prop :=
  tout s' = tout s /\ tlog s' = tlog s /\ exists later, tsubs s' = tsubs s ++ later.

(* [s'] was reached from [s] through exactly one completion, with outcome [oc]: every subscriber
   registered before it ([tsubs s] and those added meanwhile, [mid]) was called exactly once, in
   order, and saw [oc] - the outcome the future reports afterwards - whatever these subscribers did
   to the subscription list while being notified ([after_notify]); subscribers added after the
   completion ([later]) were not called *)
Definition completed_once (s s' : tstate) : Prop :=
  exists oc mid later,
    tout s' = Some oc /\
    tlog s' = tlog s ++ notes (tsubs s ++ mid) oc /\
    tsubs s' = after_notify (tsubs s ++ mid) ++ later.

Lemma quiet_refl s : quiet s s.
Proof. repeat split; auto. exists []. now rewrite app_nil_r. Qed.

Lemma quiet_trans a b c : quiet a b -> quiet b c -> quiet a c.
Proof.
  intros (A1 & A2 & l1 & A3) (B1 & B2 & l2 & B3). repeat split; try congruence.
  exists (l1 ++ l2). now rewrite B3, A3, app_assoc.
Qed.

Lemma quiet_completed a b c : quiet a b -> completed_once b c -> completed_once a c.
Proof.
  intros (A1 & A2 & l1 & A3) (oc & mid & later & B1 & B2 & B3).
  exists oc, (l1 ++ mid), later. rewrite B2, B3, A2, A3, !app_assoc. auto.
Qed.

Lemma completed_quiet a b c : completed_once a b -> quiet b c -> completed_once a c.
Proof.
  intros (oc & mid & later & A1 & A2 & A3) (B1 & B2 & l2 & B3).
  exists oc, mid, (later ++ l2). rewrite B1, B2, B3, A2, A3, !app_assoc. auto.
Qed.

Lemma push_inner_quiet s r : quiet s (push_inner s r).
Proof. repeat split; auto. exists []. cbn. now rewrite app_nil_r. Qed.

(* ---- one inner operation on the suspended task ---- *)

(* T4 at the granularity of one operation issued while the task is suspended: the operation that
   completes the task calls each current subscriber exactly once with the outcome already stored -
   WHATEVER the generator's cleanup does on close(); no other operation calls anything *)
Lemma inner_notify_once_after c s o :
  let s' := fst (istep c s o) in
  match tout s, tout s' with
  | None, Some oc => tlog s' = tlog s ++ notes (tsubs s) oc /\ tsubs s' = after_notify (tsubs s)
  | _, _ => tlog s' = tlog s
  end.
Proof.
  destruct o; cbn; destruct (tout s) eqn:E; cbn; autorewrite with tc; rewrite ?E; auto.
Qed.

(* completing a suspended task from outside: the outcome is stored, the generator is closed and
   every subscriber is notified once, for EVERY cleanup behaviour; the cleanup only decides what
   the setter returns to its caller *)
Lemma ext_set_completes c s :
  tout s = None ->
  (forall v, let '(s', r) := istep c s (ISetValue v) in
     tout s' = Some (Ok v) /\ tgen s' = None /\ tlog s' = tlog s ++ notes (tsubs s) (Ok v) /\
     tsubs s' = after_notify (tsubs s) /\ r = close_result c) /\
  (forall e, let '(s', r) := istep c s (ISetError e) in
     tout s' = Some (Err e) /\ tgen s' = None /\ tlog s' = tlog s ++ notes (tsubs s) (Err e) /\
     tsubs s' = after_notify (tsubs s) /\ r = close_result c).
Proof. intros H; split; intros; cbn; rewrite H; autorewrite with tc; auto. Qed.

Definition ireport (o : iop) (oc : outcome) : res :=
  match o with
  | IValue | ICall => report_value oc
  | IError => report_error oc
  | IIsComputed => RBool true
  | _ => RUnit
  end.
Definition is_iread (o : iop) : bool :=
  match o with IValue | ICall | IError | IIsComputed => true | _ => false end.
Definition is_iset (o : iop) : bool :=
  match o with ISetValue _ | ISetError _ => true | _ => false end.

(* an inner operation on a computed task: outcome, log, run count unchanged; setters raise
   FutureIsAlreadyComputed and change nothing; reads report the outcome *)
Lemma istep_computed c s oc o :
  tout s = Some oc ->
  let '(s', r) := istep c s o in
  quiet s s' /\ truns s' = truns s /\
  (is_iset o = true -> s' = s /\ r = RRaise E_ALREADY) /\
  (is_iread o = true -> r = ireport o oc).
Proof.
  intros H. destruct o; cbn; rewrite ?H; cbn;
    repeat split; auto using quiet_refl; try discriminate;
    try (exists []; now rewrite app_nil_r); try congruence.
  eexists; reflexivity.
Qed.

Lemma istep_uncomputed c s o :
  tout s = None ->
  let s' := fst (istep c s o) in
  (tout s' = None /\ quiet s s') \/ completed_once s s'.
Proof.
  intros H. destruct o as [|v|e|id k| | |]; cbn; rewrite ?H; cbn;
    try (left; split; [reflexivity|apply quiet_refl]).
  - right. exists (Ok v), [], []. autorewrite with tc. rewrite !app_nil_r. auto.
  - right. exists (Err e), [], []. autorewrite with tc. rewrite !app_nil_r. auto.
  - left. split; auto. repeat split; cbn; auto. eexists; reflexivity.
Qed.

Lemma istep_runs c s o : truns (fst (istep c s o)) = truns s.
Proof. destruct o; cbn; destruct (tout s); reflexivity. Qed.

(* ---- all inner operations of one suspension ---- *)

Lemma irun_runs c ops : forall s, truns (irun c s ops) = truns s.
Proof.
  induction ops as [|o ops IH]; intros s; cbn; auto.
  pose proof (istep_runs c s o) as H. destruct (istep c s o) as [s1 r]. rewrite IH. cbn in *. exact H.
Qed.

Lemma irun_computed c ops : forall s oc, tout s = Some oc -> quiet s (irun c s ops).
Proof.
  induction ops as [|o ops IH]; intros s oc H; cbn.
  - apply quiet_refl.
  - pose proof (istep_computed c s oc o H) as Hs. destruct (istep c s o) as [s1 r].
    destruct Hs as (Q & _). eapply quiet_trans; [exact Q|].
    eapply quiet_trans; [apply push_inner_quiet|].
    apply (IH _ oc). destruct Q as (Q1 & _). cbn. congruence.
Qed.

Lemma irun_uncomputed c ops : forall s, tout s = None ->
  (tout (irun c s ops) = None /\ quiet s (irun c s ops)) \/ completed_once s (irun c s ops).
Proof.
  induction ops as [|o ops IH]; intros s H; cbn.
  - left. split; auto using quiet_refl.
  - pose proof (istep_uncomputed c s o H) as Hs. destruct (istep c s o) as [s1 r]. cbn in Hs.
    destruct Hs as [(N & Q) | C].
    + assert (Hp : tout (push_inner s1 r) = None) by (cbn; exact N).
      destruct (IH _ Hp) as [(N2 & Q2) | C2].
      * left. split; auto. eapply quiet_trans; [exact Q|]. eapply quiet_trans; [apply push_inner_quiet|exact Q2].
      * right. eapply quiet_completed; [exact Q|]. eapply quiet_completed; [apply push_inner_quiet|exact C2].
    + right. destruct C as (oc & mid & later & C1 & C2 & C3).
      assert (Hp : tout (push_inner s1 r) = Some oc) by (cbn; exact C1).
      apply (completed_quiet s s1); [exists oc, mid, later; auto|].
      eapply quiet_trans; [apply push_inner_quiet|]. apply (irun_computed c ops _ oc Hp).
Qed.

(* ---- the scheduler running the body ---- *)

Lemma tcomplete_once s o : completed_once s (tcomplete s o).
Proof. exists o, [], []. autorewrite with tc. rewrite !app_nil_r. auto. Qed.

Lemma exec_runs ph : forall s, truns (exec s ph) = truns s.
Proof.
  induction ph as [|p ph IH]; intros s; cbn; auto.
  destruct (tout (irun (pclean p) s (pinner p))) eqn:E.
  - apply irun_runs.
  - destruct (pdep p); [rewrite IH|rewrite tcomplete_runs]; apply irun_runs.
Qed.

(* running a started body to the end completes the task exactly once: by one of the inner
   operations, by a failed dependency, or by the body's own return / raise *)
Lemma exec_completes_once ph : forall s, tout s = None -> completed_once s (exec s ph).
Proof.
  induction ph as [|p ph IH]; intros s H; cbn.
  - apply tcomplete_once.
  - destruct (irun_uncomputed (pclean p) (pinner p) s H) as [(N & Q) | C].
    + rewrite N. destruct (pdep p).
      * eapply quiet_completed; [exact Q|]. apply IH; exact N.
      * eapply quiet_completed; [exact Q|]. apply tcomplete_once.
    + destruct C as (oc & mid & later & C1 & C2 & C3). rewrite C1.
      exists oc, mid, later. auto.
Qed.

Lemma tcompute_completes_once s : tout s = None ->
  completed_once s (tcompute s) /\ (truns (tcompute s) <= S (truns s))%nat.
Proof.
  intros H. unfold tcompute. destruct (tgen s) as [ph|].
  - split.
    + apply (exec_completes_once ph (tmk None (tfin s) (tout s) (S (truns s)) (tsubs s) (tlog s) (tinner s))).
      exact H.
    + rewrite exec_runs. cbn. lia.
  - split; [apply tcomplete_once|rewrite tcomplete_runs; lia].
Qed.

(* ---- top-level operations ---- *)

Lemma tread_uncomputed s rep : tout s = None ->
  let '(s', r) := tread s rep in
  completed_once s s' /\ (truns s' <= S (truns s))%nat /\ (forall oc, tout s' = Some oc -> r = rep oc).
Proof.
  intros H. unfold tread. rewrite H.
  destruct (tcompute_completes_once s H) as (C & R).
  destruct C as (oc & mid & later & C1 & C2 & C3). rewrite C1.
  repeat split; auto. { exists oc, mid, later; auto. } intros oc' E. congruence.
Qed.

(* a setter on a computed task raises FutureIsAlreadyComputed and changes nothing - at top level
   and while the task is suspended, for every cleanup behaviour *)
Lemma task_single_assignment s oc :
  tout s = Some oc ->
  (forall v, tstep s (OSetValue v) = (s, RRaise E_ALREADY)) /\
  (forall e, tstep s (OSetError e) = (s, RRaise E_ALREADY)) /\
  (forall c v, istep c s (ISetValue v) = (s, RRaise E_ALREADY)) /\
  (forall c e, istep c s (ISetError e) = (s, RRaise E_ALREADY)).
Proof. intros H; repeat split; intros; cbn; rewrite H; reflexivity. Qed.

Lemma tstep_computed s oc o :
  tout s = Some oc -> is_reset o = false ->
  let '(s', r) := tstep s o in
  tout s' = Some oc /\ tlog s' = tlog s /\ truns s' = truns s /\
  (is_read o = true -> r = report o oc).
Proof.
  intros H Hr. destruct o; cbn in *; try discriminate; unfold tread; rewrite ?H; cbn;
    repeat split; auto; intros; discriminate.
Qed.

Fixpoint tall_reads_report (ops : list op) (rs : list res) (oc : outcome) : Prop :=
  match ops, rs with
  | [], [] => True
  | o :: ops', r :: rs' => (is_read o = true -> r = report o oc) /\ tall_reads_report ops' rs' oc
  | _, _ => False
  end.

(* T2/T3 for scheduled tasks: from the completion on, without reset_unsafe, every read reports
   that outcome, the body never runs again, no callback fires again *)
Lemma task_stable ops : forall s oc,
  tout s = Some oc -> forallb (fun o => negb (is_reset o)) ops = true ->
  let '(s', rs) := trun s ops in
  tout s' = Some oc /\ tlog s' = tlog s /\ truns s' = truns s /\ tall_reads_report ops rs oc.
Proof.
  induction ops as [|o ops IH]; intros s oc H Hn; cbn in *.
  - repeat split; auto.
  - apply andb_true_iff in Hn as [Ho Hn]. apply negb_true_iff in Ho.
    pose proof (tstep_computed s oc o H Ho) as Hs.
    destruct (tstep s o) as [s1 r] eqn:E1.
    destruct Hs as (H1 & H2 & H3 & H5).
    specialize (IH s1 oc H1 Hn). destruct (trun s1 ops) as [s2 rs] eqn:E2.
    destruct IH as (I1 & I2 & I3 & I4). cbn.
    repeat split; auto; congruence.
Qed.

(* T2b: a top-level read that leaves the task computed reports exactly the stored outcome - in
   particular the read that drives the body through its suspensions *)
Lemma task_read_reports s o s' r oc :
  tstep s o = (s', r) -> is_read o = true -> tout s' = Some oc -> r = report o oc.
Proof.
  intros E Hr Ho.
  destruct (tout s) as [oc0|] eqn:Hs.
  - pose proof (tstep_computed s oc0 o Hs) as H. rewrite E in H.
    destruct o; cbn in Hr; try discriminate; destruct (H eq_refl) as (H1 & _ & _ & H5);
      rewrite H1 in Ho; inversion Ho; subst; auto.
  - destruct o; cbn in Hr; try discriminate; cbn in E.
    + pose proof (tread_uncomputed s report_value Hs) as T. rewrite E in T. apply T; auto.
    + pose proof (tread_uncomputed s report_error Hs) as T. rewrite E in T. apply T; auto.
    + pose proof (tread_uncomputed s report_value Hs) as T. rewrite E in T. apply T; auto.
    + inversion E; subst. congruence.
Qed.

(* T3: one top-level operation starts the body at most once, and only on an uncomputed task *)
Lemma task_compute_once s o :
  (truns (fst (tstep s o)) <= S (truns s))%nat /\
  (tout s <> None -> truns (fst (tstep s o)) = truns s).
Proof.
  destruct (tout s) as [oc|] eqn:H.
  - split; [|intros _];
      destruct o; cbn; unfold tread; rewrite ?H; cbn; auto.
  - split; [|congruence].
    destruct o; cbn; rewrite ?H; cbn; rewrite ?tcomplete_runs; try lia.
    + pose proof (tread_uncomputed s report_value H) as T. destruct (tread s report_value). cbn. apply T.
    + pose proof (tread_uncomputed s report_error H) as T. destruct (tread s report_error). cbn. apply T.
    + pose proof (tread_uncomputed s report_value H) as T. destruct (tread s report_value). cbn. apply T.
Qed.

(* T4 for scheduled tasks: no top-level operation on a computed task calls anything; a top-level
   operation on an uncomputed task either leaves it uncomputed and calls nothing, or completes it
   exactly once - every subscriber registered before the completion (inside a read: also those
   subscribed while the task was suspended, before the completing operation) is called exactly
   once and sees the outcome the task reports afterwards *)
Lemma task_notify_once_after s o :
  let s' := fst (tstep s o) in
  match tout s with
  | Some _ => tlog s' = tlog s
  | None => (tout s' = None /\ tlog s' = tlog s) \/ completed_once s s'
  end.
Proof.
  destruct (tout s) as [oc|] eqn:H.
  - destruct o; cbn; unfold tread; rewrite ?H; cbn; auto.
  - destruct o; cbn; rewrite ?H; cbn; auto.
    + right. pose proof (tread_uncomputed s report_value H) as T. destruct (tread s report_value). apply T.
    + right. pose proof (tread_uncomputed s report_error H) as T. destruct (tread s report_error). apply T.
    + right. pose proof (tread_uncomputed s report_value H) as T. destruct (tread s report_value). apply T.
    + right. apply tcomplete_once.
    + right. apply tcomplete_once.
Qed.

(* non-vacuity: a subscriber added before the run, one added while the task is suspended and one
   added after the cancellation; the cancelled task's generator raises a BaseException in its cleanup (an Exception would be dropped, see close_result) *)
Example task_notify_nonvacuous :
  run_task [mkphase ViaBatch (CleanRaiseBase 77) [ISubscribe 2 CbOk; ISetError 300; ISubscribe 3 CbOk; ISetValue VNone; IError] (Ok VNone)]
           (PRet (VInt 1)) [OSubscribe 1 (CbRaise XAssertion); OValue; OError]
  = ([RUnit; RRaise 300; RErr 300], [RUnit; RRaise 77; RUnit; RRaise E_ALREADY; RErr 300],
     [(1, Err 300); (2, Err 300)], 1, [1; 2; 3]).
Proof. reflexivity. Qed.

(* non-vacuity of the re-entrant part: the task is cancelled while suspended; subscriber 1 is a
   one-shot that unsubscribes itself, 2 (subscribed while suspended) drops the not yet notified 3
   and subscribes 5, 3 unsubscribes the already notified 2: all of 1, 2, 3 are called once, 5 and
   the later 4 are not; after reset_unsafe the next completion notifies the list as left behind *)
Example task_reentrant_nonvacuous :
  run_task [mkphase ViaFuture (CleanRaiseBase 77)
              [ISubscribe 2 (CbSeq (CbUnsub 3) (CbSub 5 CbOk)); ISubscribe 3 (CbUnsub 2); ISetError 300; ISubscribe 4 CbOk]
              (Ok VNone)]
           (PRet (VInt 1)) [OSubscribe 1 (CbUnsub 1); OError; OReset; OValue]
  = ([RUnit; RErr 300; RUnit; RVal VNone], [RUnit; RUnit; RRaise 77; RUnit],
     [(1, Err 300); (2, Err 300); (3, Err 300); (5, Ok VNone); (4, Ok VNone)], 1, [5; 4]).
Proof. reflexivity. Qed.

(* ---- the CLASS of the Exception a subscriber raises does not matter (scheduled tasks) ---- *)
Definition recls_iop (f : xcls -> xcls) (o : iop) : iop :=
  match o with ISubscribe id k => ISubscribe id (recls f k) | _ => o end.
Definition recls_phase (f : xcls -> xcls) (p : phase) : phase :=
  mkphase (pvia p) (pclean p) (map (recls_iop f) (pinner p)) (pdep p).
Definition recls_tstate (f : xcls -> xcls) (s : tstate) : tstate :=
  tmk (option_map (map (recls_phase f)) (tgen s)) (tfin s) (tout s) (truns s)
      (map (recls_sub f) (tsubs s)) (tlog s) (tinner s).
Definition recls_case (f : xcls -> xcls) (c : anycase) : anycase :=
  match c with
  | CFut k p o ops => CFut k p o (map (recls_op f) ops)
  | CTask ph fin ops => CTask (map (recls_phase f) ph) fin (map (recls_op f) ops)
  | CBatch its fin cs ops => CBatch (map (recls_ispec f) its) fin cs (map (recls_bop f) ops)
  end.

Local Arguments tcomplete : simpl nomatch.

Lemma tcomplete_recls f s o : tcomplete (recls_tstate f s) o = recls_tstate f (tcomplete s o).
Proof. unfold tcomplete, recls_tstate. cbn. rewrite notify_recls. reflexivity. Qed.

Lemma istep_recls f c s o :
  istep c (recls_tstate f s) (recls_iop f o) = (recls_tstate f (fst (istep c s o)), snd (istep c s o)).
Proof.
  destruct o; cbn [istep recls_iop]; change (tout (recls_tstate f s)) with (tout s);
    try (destruct (tout s); rewrite ?tcomplete_recls; reflexivity).
  unfold recls_tstate. cbn. rewrite map_app. reflexivity.
Qed.

Lemma push_inner_recls f s r : push_inner (recls_tstate f s) r = recls_tstate f (push_inner s r).
Proof. reflexivity. Qed.

Lemma irun_recls f c ops : forall s,
  irun c (recls_tstate f s) (map (recls_iop f) ops) = recls_tstate f (irun c s ops).
Proof.
  induction ops as [|o ops IH]; intros s; cbn [irun map]; auto.
  rewrite istep_recls. destruct (istep c s o) as [s1 r]. cbn [fst snd].
  now rewrite push_inner_recls, IH.
Qed.

Lemma exec_recls f ph : forall s,
  exec (recls_tstate f s) (map (recls_phase f) ph) = recls_tstate f (exec s ph).
Proof.
  induction ph as [|p ph IH]; intros s; cbn [exec map].
  - change (tfin (recls_tstate f s)) with (tfin s). apply tcomplete_recls.
  - cbn [recls_phase pclean pinner pdep]. rewrite irun_recls.
    change (tout (recls_tstate f (irun (pclean p) s (pinner p)))) with (tout (irun (pclean p) s (pinner p))).
    destruct (tout (irun (pclean p) s (pinner p))); auto.
    destruct (pdep p); [apply IH|apply tcomplete_recls].
Qed.

Lemma tcompute_recls f s : tcompute (recls_tstate f s) = recls_tstate f (tcompute s).
Proof.
  unfold tcompute. destruct s as [[ph|] fin o r sb lg inn]; cbn [tgen recls_tstate option_map].
  - apply (exec_recls f ph (tmk None fin o (S r) sb lg inn)).
  - apply (tcomplete_recls f (tmk None fin o r sb lg inn)).
Qed.

Lemma tread_recls f s rep :
  tread (recls_tstate f s) rep = (recls_tstate f (fst (tread s rep)), snd (tread s rep)).
Proof.
  unfold tread. change (tout (recls_tstate f s)) with (tout s).
  destruct (tout s); auto. rewrite tcompute_recls.
  change (tout (recls_tstate f (tcompute s))) with (tout (tcompute s)).
  destruct (tout (tcompute s)); reflexivity.
Qed.

Lemma tstep_recls f s o :
  tstep (recls_tstate f s) (recls_op f o) = (recls_tstate f (fst (tstep s o)), snd (tstep s o)).
Proof.
  destruct o; cbn [tstep recls_op]; rewrite ?tread_recls; auto;
    change (tout (recls_tstate f s)) with (tout s);
    try (destruct (tout s); rewrite ?tcomplete_recls; reflexivity).
  unfold recls_tstate. cbn. rewrite map_app. reflexivity.
Qed.

Lemma trun_recls f ops : forall s,
  trun (recls_tstate f s) (map (recls_op f) ops) = (recls_tstate f (fst (trun s ops)), snd (trun s ops)).
Proof.
  induction ops as [|o ops IH]; intros s; cbn [trun map]; auto.
  rewrite tstep_recls. destruct (tstep s o) as [s1 r]. cbn [fst snd]. rewrite IH.
  destruct (trun s1 ops) as [s2 rs]. reflexivity.
Qed.

Lemma task_raise_class_irrelevant f ph fin ops :
  run_task (map (recls_phase f) ph) fin (map (recls_op f) ops) = run_task ph fin ops.
Proof.
  unfold run_task. change (tinit (map (recls_phase f) ph) fin) with (recls_tstate f (tinit ph fin)).
  rewrite trun_recls. destruct (trun (tinit ph fin) ops) as [s rs]. cbn.
  rewrite map_map. reflexivity.
Qed.

(* the single correspondence entry: every compared observable of every case (plain future or
   scheduled task, top-level and inner subscribers) is independent of the Exception classes *)
Lemma any_raise_class_irrelevant f c : run_any (recls_case f c) = run_any c.
Proof.
  destruct c; cbn [run_any recls_case];
    [now rewrite raise_class_irrelevant|now rewrite task_raise_class_irrelevant|
     now rewrite batch_raise_class_irrelevant].
Qed.

Lemma any_same_shape_same_result c c' :
  recls_case (fun _ => XUser) c = recls_case (fun _ => XUser) c' -> run_any c = run_any c'.
Proof.
  intros H. rewrite <- (any_raise_class_irrelevant (fun _ => XUser) c), H.
  apply any_raise_class_irrelevant.
Qed.

(* non-vacuity: a task cancelled while suspended / completed by its body with asserting subscribers *)
Example task_raise_class_nonvacuous :
  run_task [mkphase ViaBatch CleanOk [ISubscribe 2 (CbRaise XStopIteration)] (Ok (VInt 1))]
           (PRet (VInt 7)) [OSubscribe 1 (CbRaise XAssertion); OSubscribe 3 CbOk; OValue; OError]
  = ([RUnit; RUnit; RVal (VInt 7); RNoError], [RUnit],
     [(1, Ok (VInt 7)); (3, Ok (VInt 7)); (2, Ok (VInt 7))], 1, [1; 3; 2]).
Proof. reflexivity. Qed.

(* ---- the CLASS of the Exception the task's body raises does not matter (up to PEP 479) ---- *)
Definition tpstate (f : xcls -> xcls) (s : tstate) : tstate :=
  tmk (tgen s) (recls_pout f (tfin s)) (tout s) (truns s) (tsubs s) (tlog s) (tinner s).

Lemma outcome_of_pout_recls f p : gen_cls_ok f -> outcome_of_pout (recls_pout f p) = outcome_of_pout p.
Proof. intros G. destruct p; cbn; auto. now rewrite G. Qed.

Lemma tcomplete_tpstate f s o : tcomplete (tpstate f s) o = tpstate f (tcomplete s o).
Proof. reflexivity. Qed.

Lemma istep_tpstate f c s o :
  istep c (tpstate f s) o = (tpstate f (fst (istep c s o)), snd (istep c s o)).
Proof.
  destruct o; cbn [istep]; change (tout (tpstate f s)) with (tout s);
    try (destruct (tout s); rewrite ?tcomplete_tpstate; reflexivity); try reflexivity.
Qed.

Lemma irun_tpstate f c ops : forall s, irun c (tpstate f s) ops = tpstate f (irun c s ops).
Proof.
  induction ops as [|o ops IH]; intros s; cbn [irun]; auto.
  rewrite istep_tpstate. destruct (istep c s o) as [s1 r]. cbn [fst snd].
  change (push_inner (tpstate f s1) r) with (tpstate f (push_inner s1 r)). apply IH.
Qed.

Lemma exec_tpstate f ph : gen_cls_ok f -> forall s, exec (tpstate f s) ph = tpstate f (exec s ph).
Proof.
  intros G. induction ph as [|p ph IH]; intros s; cbn [exec].
  - change (tfin (tpstate f s)) with (recls_pout f (tfin s)). rewrite outcome_of_pout_recls by exact G.
    apply tcomplete_tpstate.
  - rewrite irun_tpstate.
    change (tout (tpstate f (irun (pclean p) s (pinner p)))) with (tout (irun (pclean p) s (pinner p))).
    destruct (tout (irun (pclean p) s (pinner p))); auto.
    destruct (pdep p); [apply IH|apply tcomplete_tpstate].
Qed.

Lemma tcompute_tpstate f s : gen_cls_ok f -> tcompute (tpstate f s) = tpstate f (tcompute s).
Proof.
  intros G. unfold tcompute. destruct s as [[ph|] fin o r sb lg inn]; cbn [tgen tpstate].
  - apply (exec_tpstate f ph G (tmk None fin o (S r) sb lg inn)).
  - reflexivity.
Qed.

Lemma tstep_tpstate f s o : gen_cls_ok f ->
  tstep (tpstate f s) o = (tpstate f (fst (tstep s o)), snd (tstep s o)).
Proof.
  intros G. destruct o; cbn [tstep]; unfold tread; change (tout (tpstate f s)) with (tout s);
    try (destruct (tout s); rewrite ?tcomplete_tpstate; reflexivity);
    try reflexivity;
    (destruct (tout s); [reflexivity|]; rewrite (tcompute_tpstate f s G);
     change (tout (tpstate f (tcompute s))) with (tout (tcompute s)); destruct (tout (tcompute s)); reflexivity).
Qed.

Lemma trun_tpstate f ops : gen_cls_ok f -> forall s,
  trun (tpstate f s) ops = (tpstate f (fst (trun s ops)), snd (trun s ops)).
Proof.
  intros G. induction ops as [|o ops IH]; intros s; cbn [trun]; auto.
  rewrite tstep_tpstate by exact G. destruct (tstep s o) as [s1 r]. cbn [fst snd]. rewrite IH.
  destruct (trun s1 ops) as [s2 rs]. reflexivity.
Qed.

Lemma task_provider_class_irrelevant f ph fin ops : gen_cls_ok f ->
  run_task ph (recls_pout f fin) ops = run_task ph fin ops.
Proof.
  intros G. unfold run_task. change (tinit ph (recls_pout f fin)) with (tpstate f (tinit ph fin)).
  rewrite trun_tpstate by exact G. destruct (trun (tinit ph fin) ops) as [s rs]. reflexivity.
Qed.

(* every case of the correspondence: relabel the classes raised by the provider / body / flush body *)
Definition precls_case (f : xcls -> xcls) (c : anycase) : anycase :=
  match c with
  | CFut k p o ops => CFut k (map (recls_pout f) p) o ops
  | CTask ph fin ops => CTask ph (recls_pout f fin) ops
  | CBatch its fin cs ops => CBatch its (recls_pout f fin) cs ops
  end.

Definition generator_body (c : anycase) : bool :=
  match c with CFut KTask _ _ _ | CTask _ _ _ => true | _ => false end.

Lemma any_provider_class_irrelevant f c :
  (generator_body c = true -> gen_cls_ok f) -> run_any (precls_case f c) = run_any c.
Proof.
  intros G. destruct c as [k p o ops|ph fin ops|its fin cs ops]; cbn [run_any precls_case].
  - rewrite provider_class_irrelevant; auto. intros ->. apply G. reflexivity.
  - rewrite task_provider_class_irrelevant; auto.
  - now rewrite batch_provider_class_irrelevant.
Qed.
