(* Pure facts about yielded structures: unwrap (C01/C02), extract and leaves (C03). *)
From Asynq Require Import Prog.

(* ---------------------------------------------------------------- induction principle *)
Section YInd.
  Variable A : Type.
  Variable P : ystruct A -> Prop.
  Hypothesis HNone : P YNone.
  Hypothesis HLeaf : forall a, P (YLeaf a).
  Hypothesis HTuple : forall l, Forall P l -> P (YTuple l).
  Hypothesis HList : forall l, Forall P l -> P (YList l).
  Hypothesis HDict : forall l, Forall (fun kv => P (snd kv)) l -> P (YDict l).

  Fixpoint ystruct_ind2 (s : ystruct A) : P s :=
    match s with
    | YNone => HNone
    | YLeaf a => HLeaf a
    | YTuple l => HTuple l ((fix go (l : list (ystruct A)) : Forall P l :=
                               match l with
                               | [] => Forall_nil _
                               | x :: l' => Forall_cons x (ystruct_ind2 x) (go l')
                               end) l)
    | YList l => HList l ((fix go (l : list (ystruct A)) : Forall P l :=
                             match l with
                             | [] => Forall_nil _
                             | x :: l' => Forall_cons x (ystruct_ind2 x) (go l')
                             end) l)
    | YDict l => HDict l ((fix go (l : list (Z * ystruct A)) : Forall (fun kv => P (snd kv)) l :=
                             match l with
                             | [] => Forall_nil _
                             | kv :: l' => Forall_cons kv (ystruct_ind2 (snd kv)) (go l')
                             end) l)
    end.
End YInd.

(* ---------------------------------------------------------------- list-level views of the nested fixpoints *)
Section Views.
  Context {A : Type} (look : A -> outcome).

  Fixpoint unwrap_list (l : list (ystruct A)) : list val + exn :=
    match l with
    | [] => inl []
    | x :: l' => match unwrap look x with
                 | Err e => inr e
                 | Ok v => match unwrap_list l' with inl vs => inl (v :: vs) | inr e => inr e end
                 end
    end.

  Fixpoint unwrap_dict (l : list (Z * ystruct A)) : list (Z * val) + exn :=
    match l with
    | [] => inl []
    | (k, x) :: l' => match unwrap look x with
                      | Err e => inr e
                      | Ok v => match unwrap_dict l' with inl vs => inl ((k, v) :: vs) | inr e => inr e end
                      end
    end.

  Lemma unwrap_tuple l : unwrap look (YTuple l) = match unwrap_list l with inl vs => Ok (VTuple vs) | inr e => Err e end.
  Proof.
    simpl.
    match goal with |- context [match ?f l with _ => _ end] => set (go := f) end.
    assert (H : forall l0, go l0 = unwrap_list l0).
    { induction l0 as [|x l0 IH]; [reflexivity|]. simpl. destruct (unwrap look x); [|reflexivity].
      rewrite <- IH. reflexivity. }
    rewrite H. reflexivity.
  Qed.

  Lemma unwrap_ylist l : unwrap look (YList l) = match unwrap_list l with inl vs => Ok (VList vs) | inr e => Err e end.
  Proof.
    simpl.
    match goal with |- context [match ?f l with _ => _ end] => set (go := f) end.
    assert (H : forall l0, go l0 = unwrap_list l0).
    { induction l0 as [|x l0 IH]; [reflexivity|]. simpl. destruct (unwrap look x); [|reflexivity].
      rewrite <- IH. reflexivity. }
    rewrite H. reflexivity.
  Qed.

  Lemma unwrap_ydict l : unwrap look (YDict l) = match unwrap_dict l with inl vs => Ok (VDict vs) | inr e => Err e end.
  Proof.
    simpl.
    match goal with |- context [match ?f l with _ => _ end] => set (go := f) end.
    assert (H : forall l0, go l0 = unwrap_dict l0).
    { induction l0 as [|[k x] l0 IH]; [reflexivity|]. simpl. destruct (unwrap look x); [|reflexivity].
      rewrite <- IH. reflexivity. }
    rewrite H. reflexivity.
  Qed.
End Views.

Section LeavesViews.
  Context {A : Type}.

  Lemma leaves_tuple (l : list (ystruct A)) : leaves (YTuple l) = flat_map leaves l.
  Proof.
    simpl. induction l as [|x l IH]; [reflexivity|]. simpl. rewrite <- IH. reflexivity.
  Qed.
  Lemma leaves_ylist (l : list (ystruct A)) : leaves (YList l) = flat_map leaves l.
  Proof.
    simpl. induction l as [|x l IH]; [reflexivity|]. simpl. rewrite <- IH. reflexivity.
  Qed.
  Lemma leaves_ydict (l : list (Z * ystruct A)) : leaves (YDict l) = flat_map (fun kv => leaves (snd kv)) l.
  Proof.
    simpl. induction l as [|[k x] l IH]; [reflexivity|]. simpl. rewrite <- IH. reflexivity.
  Qed.

  Lemma extract_tuple (l : list (ystruct A)) : extract (YTuple l) = flat_map extract (rev l).
  Proof.
    simpl. induction l as [|x l IH]; [reflexivity|]. simpl. rewrite flat_map_app. simpl.
    rewrite app_nil_r, <- IH. reflexivity.
  Qed.
  Lemma extract_ylist (l : list (ystruct A)) : extract (YList l) = flat_map extract (rev l).
  Proof.
    simpl. induction l as [|x l IH]; [reflexivity|]. simpl. rewrite flat_map_app. simpl.
    rewrite app_nil_r, <- IH. reflexivity.
  Qed.
  Lemma extract_ydict (l : list (Z * ystruct A)) : extract (YDict l) = flat_map (fun kv => extract (snd kv)) l.
  Proof.
    simpl. induction l as [|[k x] l IH]; [reflexivity|]. simpl. rewrite <- IH. reflexivity.
  Qed.
End LeavesViews.

(* ---------------------------------------------------------------- C02: the first failing leaf in structure order wins *)
Fixpoint first_err (l : list outcome) : option exn :=
  match l with
  | [] => None
  | Err e :: _ => Some e
  | Ok _ :: l' => first_err l'
  end.

Lemma first_err_app a b : first_err (a ++ b) = match first_err a with Some e => Some e | None => first_err b end.
Proof. induction a as [|[v|e] a IH]; simpl; auto. Qed.

Section UnwrapFacts.
  Context {A : Type} (look : A -> outcome).

  Definition unwrap_spec (s : ystruct A) : Prop :=
    match unwrap look s with
    | Err e => first_err (map look (leaves s)) = Some e
    | Ok _ => first_err (map look (leaves s)) = None
    end.

  Lemma unwrap_list_spec l :
    Forall unwrap_spec l ->
    match unwrap_list look l with
    | inr e => first_err (map look (flat_map leaves l)) = Some e
    | inl _ => first_err (map look (flat_map leaves l)) = None
    end.
  Proof.
    induction 1 as [|x l Hx Hl IH]; simpl; [reflexivity|].
    unfold unwrap_spec in Hx. rewrite map_app, first_err_app.
    destruct (unwrap look x) as [v|e]; rewrite Hx; [|reflexivity].
    destruct (unwrap_list look l); exact IH.
  Qed.

  Lemma unwrap_dict_spec l :
    Forall (fun kv => unwrap_spec (snd kv)) l ->
    match unwrap_dict look l with
    | inr e => first_err (map look (flat_map (fun kv => leaves (snd kv)) l)) = Some e
    | inl _ => first_err (map look (flat_map (fun kv => leaves (snd kv)) l)) = None
    end.
  Proof.
    induction 1 as [|[k x] l Hx Hl IH]; simpl; [reflexivity|].
    unfold unwrap_spec in Hx. simpl in Hx. rewrite map_app, first_err_app.
    destruct (unwrap look x) as [v|e]; rewrite Hx; [|reflexivity].
    destruct (unwrap_dict look l); exact IH.
  Qed.

  (* unwrap fails iff some leaf fails, and then with the error of the FIRST failing leaf in written
     order; it succeeds iff every leaf succeeds *)
  Theorem unwrap_first_error s : unwrap_spec s.
  Proof.
    induction s as [| a | l IH | l IH | l IH] using ystruct_ind2; unfold unwrap_spec.
    - reflexivity.
    - simpl. destruct (look a); reflexivity.
    - rewrite unwrap_tuple, leaves_tuple. pose proof (unwrap_list_spec l IH) as H.
      destruct (unwrap_list look l); exact H.
    - rewrite unwrap_ylist, leaves_ylist. pose proof (unwrap_list_spec l IH) as H.
      destruct (unwrap_list look l); exact H.
    - rewrite unwrap_ydict, leaves_ydict. pose proof (unwrap_dict_spec l IH) as H.
      destruct (unwrap_dict look l); exact H.
  Qed.
End UnwrapFacts.

(* ---------------------------------------------------------------- C01: same shape, each future replaced by its value *)
Fixpoint fill {A} (f : A -> val) (s : ystruct A) : val :=
  match s with
  | YNone => VNone
  | YLeaf a => f a
  | YTuple l => VTuple (map (fill f) l)
  | YList l => VList (map (fill f) l)
  | YDict l => VDict (map (fun kv => (fst kv, fill f (snd kv))) l)
  end.

Section FillFacts.
  Context {A : Type} (look : A -> outcome) (f : A -> val).

  Definition fill_spec (s : ystruct A) : Prop :=
    (forall a, In a (leaves s) -> look a = Ok (f a)) -> unwrap look s = Ok (fill f s).

  Lemma unwrap_list_fill l :
    Forall fill_spec l -> (forall a, In a (flat_map leaves l) -> look a = Ok (f a)) ->
    unwrap_list look l = inl (map (fill f) l).
  Proof.
    induction 1 as [|x l Hx Hl IH]; intros H; simpl; [reflexivity|].
    rewrite Hx by (intros a Ha; apply H; simpl; apply in_or_app; auto).
    rewrite IH by (intros a Ha; apply H; simpl; apply in_or_app; auto). reflexivity.
  Qed.

  Lemma unwrap_dict_fill l :
    Forall (fun kv => fill_spec (snd kv)) l ->
    (forall a, In a (flat_map (fun kv => leaves (snd kv)) l) -> look a = Ok (f a)) ->
    unwrap_dict look l = inl (map (fun kv => (fst kv, fill f (snd kv))) l).
  Proof.
    induction 1 as [|[k x] l Hx Hl IH]; intros H; simpl; [reflexivity|].
    simpl in Hx. rewrite Hx by (intros a Ha; apply H; simpl; apply in_or_app; auto).
    rewrite IH by (intros a Ha; apply H; simpl; apply in_or_app; auto). reflexivity.
  Qed.

  Theorem unwrap_ok_fill s : fill_spec s.
  Proof.
    induction s as [| a | l IH | l IH | l IH] using ystruct_ind2; unfold fill_spec; intros H.
    - reflexivity.
    - simpl. apply H. simpl. auto.
    - rewrite unwrap_tuple, (unwrap_list_fill l IH); [reflexivity|]. rewrite <- leaves_tuple. exact H.
    - rewrite unwrap_ylist, (unwrap_list_fill l IH); [reflexivity|]. rewrite <- leaves_ylist. exact H.
    - rewrite unwrap_ydict, (unwrap_dict_fill l IH); [reflexivity|]. rewrite <- leaves_ydict. exact H.
  Qed.
End FillFacts.

(* ---------------------------------------------------------------- C03: dependencies = the yielded futures; reversed written order for list/tuple structures *)
Fixpoint dict_free {A} (s : ystruct A) : bool :=
  match s with
  | YNone | YLeaf _ => true
  | YTuple l | YList l => forallb dict_free l
  | YDict _ => false
  end.

Lemma flat_map_rev_rev {A B} (g : A -> list B) (l : list A) :
  (forall x, In x l -> True) -> rev (flat_map g l) = flat_map (fun x => rev (g x)) (rev l).
Proof.
  intros _. induction l as [|x l IH]; simpl; [reflexivity|].
  rewrite rev_app_distr, IH, flat_map_app. simpl. rewrite app_nil_r. reflexivity.
Qed.

Lemma flat_map_ext_in' {A B} (g h : A -> list B) (l : list A) :
  (forall x, In x l -> g x = h x) -> flat_map g l = flat_map h l.
Proof.
  induction l as [|x l IH]; intros H; simpl; [reflexivity|].
  rewrite H by (simpl; auto). rewrite IH; [reflexivity|]. intros; apply H; simpl; auto.
Qed.

Theorem extract_rev_leaves {A} (s : ystruct A) : dict_free s = true -> extract s = rev (leaves s).
Proof.
  induction s as [| a | l IH | l IH | l IH] using ystruct_ind2; intros H; try reflexivity; try discriminate.
  - rewrite extract_tuple, leaves_tuple, flat_map_rev_rev by auto. simpl in H.
    rewrite forallb_forall in H. apply flat_map_ext_in'. intros x Hx. apply in_rev in Hx.
    rewrite Forall_forall in IH. apply IH; auto.
  - rewrite extract_ylist, leaves_ylist, flat_map_rev_rev by auto. simpl in H.
    rewrite forallb_forall in H. apply flat_map_ext_in'. intros x Hx. apply in_rev in Hx.
    rewrite Forall_forall in IH. apply IH; auto.
Qed.

Theorem extract_same_elements {A} (s : ystruct A) : forall a, In a (extract s) <-> In a (leaves s).
Proof.
  induction s as [| a0 | l IH | l IH | l IH] using ystruct_ind2; intros a; try reflexivity.
  - rewrite extract_tuple, leaves_tuple, !in_flat_map. rewrite Forall_forall in IH. split; intros (x & Hx & Ha).
    + exists x. split; [apply in_rev; auto | apply IH; auto; apply in_rev; auto].
    + exists x. split; [apply -> in_rev; auto | apply IH; auto].
  - rewrite extract_ylist, leaves_ylist, !in_flat_map. rewrite Forall_forall in IH. split; intros (x & Hx & Ha).
    + exists x. split; [apply in_rev; auto | apply IH; auto; apply in_rev; auto].
    + exists x. split; [apply -> in_rev; auto | apply IH; auto].
  - rewrite extract_ydict, leaves_ydict, !in_flat_map. rewrite Forall_forall in IH. split; intros (x & Hx & Ha).
    + exists x. split; auto. apply IH; auto.
    + exists x. split; auto. apply IH; auto.
Qed.

(* extract is a permutation of the leaves *)
From Coq Require Import Permutation.

Lemma Permutation_flat_map_rev {A B} (g : A -> list B) (l : list A) :
  Permutation (flat_map g (rev l)) (flat_map g l).
Proof.
  induction l as [|x l IH]; [constructor|]. simpl. rewrite flat_map_app. simpl. rewrite app_nil_r.
  eapply Permutation_trans; [apply Permutation_app_comm|]. apply Permutation_app_head. exact IH.
Qed.

Lemma Permutation_flat_map_ext {A B} (g h : A -> list B) (l : list A) :
  (forall x, In x l -> Permutation (g x) (h x)) -> Permutation (flat_map g l) (flat_map h l).
Proof.
  induction l as [|x l IH]; intros H; [constructor|]. simpl. apply Permutation_app; [apply H; simpl; auto|].
  apply IH. intros y Hy. apply H. simpl. auto.
Qed.

Theorem extract_permutation {A} (s : ystruct A) : Permutation (extract s) (leaves s).
Proof.
  induction s as [| a | l IH | l IH | l IH] using ystruct_ind2; try apply Permutation_refl.
  - rewrite extract_tuple, leaves_tuple. eapply Permutation_trans; [apply Permutation_flat_map_rev|].
    apply Permutation_flat_map_ext. rewrite Forall_forall in IH. exact IH.
  - rewrite extract_ylist, leaves_ylist. eapply Permutation_trans; [apply Permutation_flat_map_rev|].
    apply Permutation_flat_map_ext. rewrite Forall_forall in IH. exact IH.
  - rewrite extract_ydict, leaves_ydict. apply Permutation_flat_map_ext. rewrite Forall_forall in IH. intros x Hx. apply IH. exact Hx.
Qed.
