(* C01 on the scheduler machine for tree programs WITH SYNCHRONOUS CALLS ("stree"): a task body may, besides
   yielding structures of new futures, call another @asynq function synchronously - fn(args) or
   fn.asynq(args).value() - which on the machine is  Let (FTask q) (fun h => Sync h k) : create the task and wait for
   it in a NESTED scheduler loop (wait_for -> _execute -> _continue_with_task ...) on the same scheduler, below
   the caller's own frames.  Calls nest to any depth and callees may yield batch items, child tasks, etc.

   Result (async_eq_seq_stree): whatever the flush order (oracle), priorities, KEEP_DEPENDENCIES setting and
   fuel, the value() of the root computation is exactly [evals p], the sequential depth-first evaluation in which
   a synchronous call is evaluated on the spot - provided the service is pointwise and no exception unwound
   through asynq's frames (the MAX_TASK_STACK_SIZE guard), as in MachineC01.v.

   Route (generalising MachineC01.v):
   - ghost specification map [spec : fid -> option outcome] as there;
   - the state invariant [SI spec R s] exempts a SET R of tasks (instead of at most one): every task whose
     generator is executing - the task of the current MRun and every caller suspended in an FValue frame; their
     heap entries hold stale continuations.  R-tasks are uncomputed task entries; every dependency of a task is
     younger (has a larger creation number) than the task;
   - the frame invariant [vs_ok] is a recursive (inductive) predicate over the whole Python stack: levels
     FCont t _ :: FExec i :: FWait r separated by FValue t k frames, ending in FTop.  It is indexed by the outcome
     that will be delivered to the stack: for FValue t k it demands  spec t = evals (k oh)  where oh is the
     specified outcome of the awaited future, and then continues below with the specified outcome of that level's
     wait_for root r;
   - the only fact about the scheduler's task stack that is needed: everything the loop of level (i, r) works on
     (stack positions at height >= i) is at least as young as r, while every suspended caller below is older
     than r.  Hence the nested loops never resume, complete or otherwise touch a suspended caller. *)
From Asynq Require Import Machine Seq proofs.ProgProofs proofs.MachineFrame proofs.MachineC05 proofs.MachineC08 proofs.MachineC01.

(* ------------------------------------------------------------------ the program class *)
Inductive stree : prog -> Prop :=
| st_ret v : stree (Ret v)
| st_result v : stree (Result v)
| st_raise e : stree (Raise e)
| st_yield s k : (forall l, In l (leaves s) -> stree_leaf l) -> (forall o, stree (k o)) -> stree (Yield s k)
| st_enter c k : plain_ctx c = true -> stree k -> stree (Enter c k)
| st_exit c k : plain_ctx c = true -> stree k -> stree (Exit c k)
| st_call q k : stree q -> (forall o, stree (k o)) -> stree (Let (FTask q) (fun h => Sync h k))
with stree_leaf : leaf -> Prop :=
| sl_new f : stree_fexpr f -> stree_leaf (LNew f)
| sl_bad : stree_leaf LBad
with stree_fexpr : fexpr -> Prop :=
| sf_task p : stree p -> stree_fexpr (FTask p)
| sf_item kind key a : stree_fexpr (FItem kind key a)
| sf_const v : stree_fexpr (FConst v)
| sf_error e : stree_fexpr (FError e)
| sf_lazy o : stree_fexpr (FLazy o).

(* ------------------------------------------------------------------ the sequential reference *)
(* Seq.eval plus the call case: the callee is evaluated on the spot and its outcome (value or exception) is
   what the call expression gives the caller's continuation *)
Fixpoint evals (p : prog) : outcome :=
  match p with
  | Ret v | Result v => Ok v
  | Raise e => Err e
  | Yield s k => evals (k (unwrap leaf_outs s))
  | Enter _ k | Exit _ k => evals k
  | Let (FTask q) k1 => match k1 [] with Sync _ k => evals (k (evals q)) | _ => Err E_NOTIMPL end
  | Let _ _ | Sync _ _ | ReadVar _ _ | Probe _ => Err E_NOTIMPL
  end
with fexpr_outs (f : fexpr) : outcome :=
  match f with
  | FTask p => evals p
  | FItem _ _ a => item_out a
  | FConst v => Ok v
  | FError e => Err e
  | FLazy o => o
  end
with leaf_outs (l : leaf) : outcome :=
  match l with
  | LNew f => fexpr_outs f
  | LOld _ => Err E_NOTIMPL
  | LBad => Err E_TYPEERROR
  end.

Lemma evals_call q k : evals (Let (FTask q) (fun h => Sync h k)) = evals (k (evals q)).
Proof. reflexivity. Qed.

Scheme tree_mut := Induction for tree Sort Prop
  with tree_leaf_mut := Induction for tree_leaf Sort Prop
  with tree_fexpr_mut := Induction for tree_fexpr Sort Prop.

(* on the yield-only fragment nothing changes *)
Lemma evals_eval_tree p : tree p -> evals p = eval p.
Proof.
  intros H.
  apply (tree_mut (fun p _ => evals p = eval p) (fun l _ => leaf_outs l = leaf_out l)
                  (fun f _ => fexpr_outs f = fexpr_out f)); try reflexivity; auto.
  - intros s k Hl IHl Hk IHk. cbn [evals eval].
    rewrite (unwrap_ext leaf_outs leaf_out s IHl). apply IHk.
Qed.

Lemma tree_stree p : tree p -> stree p.
Proof.
  intros H.
  apply (tree_mut (fun p _ => stree p) (fun l _ => stree_leaf l) (fun f _ => stree_fexpr f));
    intros; try (constructor; auto; fail); auto.
Qed.

(* ------------------------------------------------------------------ creation numbers *)
Definition fnum (h : fid) : Z := hd 0%Z h.

(* ------------------------------------------------------------------ the state invariant *)
Definition task_okS (spec : specmap) (s : st) (tk : task) (o : outcome) : Prop :=
  exists k, tk_gen tk = Some k /\ (forall x, stree (k x)) /\
    evals (k (unwrap (look_spec spec) (tk_last tk))) = o /\
    (forall h, In (RFut h) (leaves (tk_last tk)) -> get h s <> None) /\
    (forall h, In (RFut h) (leaves (tk_last tk)) -> In h (tk_deps tk)).

Definition entry_okS (spec : specmap) (R : fid -> Prop) (s : st) (h : fid) (f : fut) : Prop :=
  (exists n, h = [n] /\ (0 <= n < top_next s)%Z) /\
  exists o, spec h = Some o /\ (forall o', f_out f = Some o' -> o' = o) /\
  match f_kind f with
  | KTask tk => forallb plain_ctx (tk_ctxs tk) = true /\
                (forall d, In d (tk_deps tk) -> (fnum h < fnum d)%Z) /\
                (f_out f = None -> ~ R h -> task_okS spec s tk o)
  | KItem _ _ _ a => item_out a = o
  | KLazy o' => o' = o
  | KOther => f_out f <> None
  end.

Definition utask (s : st) (h : fid) : Prop := exists tk, get h s = Some (mkFut None (KTask tk)).

Definition SI (spec : specmap) (R : fid -> Prop) (s : st) : Prop :=
  (forall h f, get h s = Some f -> entry_okS spec R s h f) /\ items_ok s /\ (0 <= top_next s)%Z /\
  (forall h, R h -> utask s h) /\ (forall h, get h s = None -> spec h = None).

Lemma utask_view s s' h : heap s' = heap s -> utask s h -> utask s' h.
Proof. intros Hh (tk & Hg). exists tk. unfold get in *. rewrite Hh. exact Hg. Qed.

(* SI only looks at the heap, the batches and the id counter *)
Lemma SI_view spec R s s' :
  heap s' = heap s -> batches s' = batches s -> top_next s' = top_next s -> SI spec R s -> SI spec R s'.
Proof.
  intros Hh Hb Hn (HE & HI & HN & HR & HU).
  assert (G : forall h, get h s' = get h s) by (intros h; unfold get; rewrite Hh; reflexivity).
  split; [|split; [|split; [|split]]].
  - intros h f Hg. rewrite G in Hg. destruct (HE h f Hg) as ((n & -> & Hn') & o & Hs & Ho & Hk).
    split; [exists n; rewrite Hn; auto|]. exists o. split; [exact Hs|]. split; [exact Ho|].
    destruct (f_kind f) as [tk| | |]; auto. destruct Hk as (Hp & Hd & Hk). split; [exact Hp|]. split; [exact Hd|].
    intros H1 H2. destruct (Hk H1 H2) as (k & K1 & K2 & K3 & K4 & K5).
    exists k. repeat split; auto. intros h' Hin. rewrite G. apply K4. exact Hin.
  - intros k h Hin. unfold get_batch in Hin. rewrite Hb in Hin. destruct (HI k h Hin) as (out & kind & idx & key & a & E).
    exists out, kind, idx, key, a. rewrite G. exact E.
  - rewrite Hn. exact HN.
  - intros h Hr. apply (utask_view s); auto.
  - intros h Hg. rewrite G in Hg. auto.
Qed.

(* only the extension of the exemption matters *)
Lemma SI_ext spec (R R' : fid -> Prop) s : (forall x, R x <-> R' x) -> SI spec R s -> SI spec R' s.
Proof.
  intros HRR (HE & HI & HN & HR & HU). split; [|split; [exact HI|split; [exact HN|split; [|exact HU]]]].
  - intros h f Hg. destruct (HE h f Hg) as (A & o & Hs & Ho & Hk). split; [exact A|]. exists o.
    split; [exact Hs|]. split; [exact Ho|]. destruct (f_kind f) as [tk| | |]; auto.
    destruct Hk as (Hp & Hd & Hk). split; [exact Hp|]. split; [exact Hd|].
    intros H1 H2. apply Hk; [exact H1|]. intros Hr. apply H2. apply HRR. exact Hr.
  - intros h Hr. apply HR. apply HRR. exact Hr.
Qed.

(* replacing one existing entry by one that is ok, possibly changing the exemption of that entry *)
Lemma SI_upd spec R R' s s' h f f' :
  get h s = Some f -> SI spec R s -> upd_entry s s' h f' ->
  (forall x, x <> h -> (R' x <-> R x)) ->
  ((forall x, get x s' <> None <-> get x s <> None) -> entry_okS spec R' s' h f') ->
  (R' h -> exists tk, f' = mkFut None (KTask tk)) ->
  (forall out kind idx key a, f = mkFut out (KItem kind idx key a) -> exists out', f' = mkFut out' (KItem kind idx key a)) ->
  SI spec R' s'.
Proof.
  intros Hg (HE & HI & HN & HR & HU) U HRR Hok Hr' Hitem.
  pose proof (upd_entry_dom _ _ _ _ _ Hg U) as Dom. destruct U as (A & B & C & D).
  split; [|split; [|split; [|split]]]; [| |rewrite D; exact HN| |].
  - intros x fx Hx. destruct (fid_eqb x h) eqn:E.
    + apply fid_eqb_eq in E. subst x. rewrite A in Hx. inversion Hx; subst fx. apply Hok. exact Dom.
    + assert (Hne : x <> h) by (intros ->; rewrite fid_eqb_refl in E; discriminate).
      rewrite B in Hx by assumption.
      destruct (HE x fx Hx) as ((n & -> & Hn) & o & Hs & Ho & Hk). split; [exists n; rewrite D; auto|].
      exists o. split; [exact Hs|]. split; [exact Ho|].
      destruct (f_kind fx); auto. destruct Hk as (Hp & Hd & Hk). split; [exact Hp|]. split; [exact Hd|].
      intros H1 H2. destruct (Hk H1) as (k & K1 & K2 & K3 & K4 & K5).
      { intros Hx'. apply H2. apply (HRR _ Hne). exact Hx'. }
      exists k. repeat split; auto.
      intros h' Hin. apply Dom. apply K4. exact Hin.
  - intros k x Hin. unfold get_batch in Hin. rewrite C in Hin.
    destruct (HI k x Hin) as (out & kind & idx & key & a & E).
    destruct (fid_eqb x h) eqn:E2.
    + apply fid_eqb_eq in E2. subst x. rewrite Hg in E. inversion E; subst f.
      destruct (Hitem _ _ _ _ _ eq_refl) as (out' & ->). exists out', kind, idx, key, a. exact A.
    + assert (Hne : x <> h) by (intros ->; rewrite fid_eqb_refl in E2; discriminate).
      exists out, kind, idx, key, a. rewrite B by assumption. exact E.
  - intros x Hx. destruct (fid_eqb x h) eqn:E.
    + apply fid_eqb_eq in E. subst x. destruct (Hr' Hx) as (tk & ->). exists tk. exact A.
    + assert (Hne : x <> h) by (intros ->; rewrite fid_eqb_refl in E; discriminate).
      destruct (HR x (proj1 (HRR _ Hne) Hx)) as (tk & Hgx). exists tk. rewrite B by assumption. exact Hgx.
  - intros x Hx. apply HU. destruct (get x s) eqn:Hgx; [|reflexivity].
    exfalso. apply (proj2 (Dom x)); [rewrite Hgx; discriminate|exact Hx].
Qed.

(* replacing a task entry by a task entry with the same outcome, same exemption *)
Lemma SI_upd_task spec R s s' t out tk tk' :
  get t s = Some (mkFut out (KTask tk)) -> SI spec R s ->
  upd_entry s s' t (mkFut out (KTask tk')) ->
  forallb plain_ctx (tk_ctxs tk') = true ->
  (forall d, In d (tk_deps tk') -> (fnum t < fnum d)%Z) ->
  (out = None -> ~ R t -> forall o, spec t = Some o -> task_okS spec s tk' o) ->
  SI spec R s'.
Proof.
  intros Hg HS U Hp Hd Hk. pose proof HS as (HE & _ & _ & HR & _).
  destruct (HE _ _ Hg) as ((n & -> & Hn) & o & Hs & Ho & _).
  apply (SI_upd spec R R s s' [n] _ _ Hg HS U); [intros; reflexivity| | |intros; discriminate].
  - intros Dom. destruct U as (_ & _ & _ & D). split; [exists n; rewrite D; auto|].
    exists o. split; [exact Hs|]. split; [exact Ho|]. cbn. split; [exact Hp|]. split; [exact Hd|].
    intros H1 H2. destruct (Hk H1 H2 o Hs) as (k & K1 & K2 & K3 & K4 & K5).
    exists k. repeat split; auto. intros h' Hin. apply Dom. apply K4. exact Hin.
  - intros Hr. destruct (HR _ Hr) as (tk0 & Hg0). rewrite Hg in Hg0. inversion Hg0; subst. eauto.
Qed.

(* ------------------------------------------------------------------ small facts *)
Lemma task_okS_fields spec s tk tk' o :
  tk_gen tk' = tk_gen tk -> tk_last tk' = tk_last tk -> tk_deps tk' = tk_deps tk ->
  task_okS spec s tk o -> task_okS spec s tk' o.
Proof. intros E1 E2 E3 (k & K1 & K2 & K3 & K4 & K5). exists k. rewrite E1, E2, E3. repeat split; auto. Qed.

Lemma SI_entry spec R s h f : SI spec R s -> get h s = Some f -> entry_okS spec R s h f.
Proof. intros (HE & _) Hg. apply HE. exact Hg. Qed.

Lemma SI_plain spec R s t out tk : SI spec R s -> get t s = Some (mkFut out (KTask tk)) ->
  forallb plain_ctx (tk_ctxs tk) = true.
Proof. intros HS Hg. destruct (SI_entry _ _ _ _ _ HS Hg) as (_ & o & _ & _ & Hp & _). exact Hp. Qed.

Lemma SI_deps spec R s t out tk : SI spec R s -> get t s = Some (mkFut out (KTask tk)) ->
  forall d, In d (tk_deps tk) -> (fnum t < fnum d)%Z.
Proof. intros HS Hg. destruct (SI_entry _ _ _ _ _ HS Hg) as (_ & o & _ & _ & _ & Hd & _). exact Hd. Qed.

Lemma SI_utask spec (R : fid -> Prop) s t : SI spec R s -> R t -> utask s t.
Proof. intros (_ & _ & _ & HR & _) Hr. apply HR. exact Hr. Qed.

Lemma SI_computed_spec spec R s h : SI spec R s -> computed h s = true -> spec h = Some (outcome_of h s).
Proof.
  intros HS Hc. unfold computed, outcome_of in *. destruct (get h s) as [f|] eqn:Hg; [|discriminate].
  destruct (f_out f) as [o|] eqn:Ho; [|discriminate].
  destruct (SI_entry _ _ _ _ _ HS Hg) as (_ & o' & Hs & Hx & _). rewrite (Hx o Ho). exact Hs.
Qed.

Lemma SI_fnum_lt spec R s h f : SI spec R s -> get h s = Some f -> (0 <= fnum h < top_next s)%Z.
Proof. intros HS Hg. destruct (SI_entry _ _ _ _ _ HS Hg) as ((n & -> & Hn) & _). exact Hn. Qed.

(* updating only scheduler flags / context lists of a task entry *)
Lemma SI_set_task_same spec R s t out tk tk' :
  get t s = Some (mkFut out (KTask tk)) -> SI spec R s ->
  tk_gen tk' = tk_gen tk -> tk_last tk' = tk_last tk -> tk_deps tk' = tk_deps tk ->
  forallb plain_ctx (tk_ctxs tk') = true ->
  forall s', upd_entry s s' t (mkFut out (KTask tk')) -> SI spec R s'.
Proof.
  intros Hg HS E1 E2 E3 E4 s' U.
  apply (SI_upd_task spec R s s' t out tk tk' Hg HS U E4).
  - rewrite E3. apply (SI_deps _ _ _ _ _ _ HS Hg).
  - intros Eo Nr o Hs. destruct (SI_entry _ _ _ _ _ HS Hg) as (_ & o' & Hs' & _ & _ & _ & Hk).
    rewrite Hs in Hs'. inversion Hs'; subst o'. apply (task_okS_fields spec s tk); auto.
Qed.

(* resuming / pausing contexts never disturbs the invariant *)
Lemma SI_resume_contexts spec R s t : SI spec R s -> SI spec R (resume_contexts t s).
Proof.
  intros HS. destruct (get t s) as [[out [tk| | |]]|] eqn:Hg;
    try (unfold resume_contexts, get_task; rewrite Hg; exact HS).
  pose proof (SI_plain _ _ _ _ _ _ HS Hg) as Hp.
  destruct (resume_contexts_plain t s out tk Hg Hp) as [H1 H2].
  destruct (tk_cact tk) eqn:Hc; [rewrite H1 by reflexivity; exact HS|].
  apply (SI_set_task_same spec R s t out tk _ Hg HS) with (5 := H2 eq_refl); auto.
Qed.

Lemma SI_pause_contexts spec R s t : SI spec R s -> SI spec R (pause_contexts t s).
Proof.
  intros HS. destruct (get t s) as [[out [tk| | |]]|] eqn:Hg;
    try (unfold pause_contexts, get_task; rewrite Hg; exact HS).
  pose proof (SI_plain _ _ _ _ _ _ HS Hg) as Hp.
  destruct (pause_contexts_plain t s out tk Hg Hp) as [H1 H2].
  destruct (tk_cact tk) eqn:Hc; [|rewrite H1 by reflexivity; exact HS].
  apply (SI_set_task_same spec R s t out tk _ Hg HS) with (5 := H2 eq_refl); auto.
Qed.

Lemma computed_resume_contextsS spec R s t : SI spec R s -> forall h, computed h (resume_contexts t s) = computed h s.
Proof.
  intros HS h. destruct (get t s) as [[out [tk| | |]]|] eqn:Hg;
    try (unfold resume_contexts, get_task; rewrite Hg; reflexivity).
  pose proof (SI_plain _ _ _ _ _ _ HS Hg) as Hp.
  destruct (resume_contexts_plain t s out tk Hg Hp) as [H1 H2].
  destruct (tk_cact tk) eqn:Hc; [rewrite H1 by reflexivity; reflexivity|].
  apply (upd_entry_computed s _ t out tk _ Hg (H2 eq_refl)).
Qed.

(* the entry of t after resume_contexts: same outcome, generator, last value, dependencies *)
Lemma get_resume_contextsS spec R s t out tk : SI spec R s -> get t s = Some (mkFut out (KTask tk)) ->
  exists tk', get t (resume_contexts t s) = Some (mkFut out (KTask tk')) /\
              tk_gen tk' = tk_gen tk /\ tk_last tk' = tk_last tk /\ tk_deps tk' = tk_deps tk /\
              tk_iter tk' = tk_iter tk.
Proof.
  intros HS Hg. pose proof (SI_plain _ _ _ _ _ _ HS Hg) as Hp.
  destruct (resume_contexts_plain t s out tk Hg Hp) as [H1 H2].
  destruct (tk_cact tk) eqn:Hc.
  - rewrite H1 by reflexivity. exists tk. auto.
  - destruct (H2 eq_refl) as (A & _). eexists. split; [exact A|]. auto.
Qed.

(* ------------------------------------------------------------------ flushing under a pointwise service *)
Lemma SI_complete_item spec R s h o :
  SI spec R s ->
  (exists kind idx key a, get h s = Some (mkFut None (KItem kind idx key a)) /\ o = item_out a) \/
  get h s = None \/ computed h s = true ->
  SI spec R (complete_item h o s).
Proof.
  intros HS H. unfold complete_item. destruct (get h s) as [f|] eqn:Hg; [|exact HS].
  destruct (f_out f) as [o'|] eqn:Ho; [exact HS|].
  destruct H as [(kind & idx & key & a & E & ->)|[H|H]];
    [|discriminate|unfold computed in H; rewrite Hg, Ho in H; discriminate].
  inversion E; subst f. clear E.
  apply (SI_view spec R (put h (mkFut (Some (item_out a)) (KItem kind idx key a)) s)); try reflexivity.
  apply (SI_upd spec R R s _ h _ _ Hg HS (upd_entry_put _ _ _)); [intros; reflexivity| | |].
  - intros Dom. destruct (SI_entry _ _ _ _ _ HS Hg) as (A & o & Hs & _ & Hk). cbn in Hk.
    split; [exact A|]. exists o. split; [exact Hs|]. split; [|exact Hk]. cbn. intros o' E. inversion E. congruence.
  - intros Hr. destruct (SI_utask _ _ _ _ HS Hr) as (tk & Hg'). rewrite Hg in Hg'. discriminate.
  - intros out kind' idx' key' a' E. inversion E; subst. eauto.
Qed.

Lemma SI_flush_body spec R items : forall i s,
  SI spec R s -> (forall h, In h items -> exists a, item_entry s h a) ->
  let s' := fst (flush_body items i None s) in
  SI spec R s' /\
  (forall h a, item_entry s h a -> item_entry s' h a) /\
  (forall h, computed h s = true -> computed h s' = true) /\
  (forall h a, In h items -> item_entry s h a -> a <> ASkip -> computed h s' = true) /\
  snd (flush_body items i None s) = None.
Proof.
  induction items as [|h rest IH]; intros i s HS HI; cbn zeta.
  - cbn. split; [exact HS|]. split; [auto|]. split; [auto|]. split; [intros h a []|reflexivity].
  - cbn [flush_body].
    destruct (HI h (or_introl eq_refl)) as (a & out & kind & idx & key & Hg). rewrite Hg.
    set (s1 := match a with
               | ASet v => complete_item h (Ok v) s
               | AErr e' => complete_item h (Err e') s
               | ASkip => s end).
    assert (E1 : (match a with
                  | ASet v => complete_item h (Ok v) s
                  | AErr e' => complete_item h (Err e') s
                  | ASkip => s end) = s1) by reflexivity.
    assert (HS1 : SI spec R s1).
    { unfold s1. destruct a as [v|e'|]; [| |exact HS]; apply SI_complete_item; auto;
        (destruct out as [x|]; [right; right; unfold computed; rewrite Hg; reflexivity|
                                left; exists kind, idx, key; eexists; split; [exact Hg|reflexivity]]). }
    assert (HI1 : forall h' a', item_entry s h' a' -> item_entry s1 h' a').
    { intros h' a' He. unfold s1. destruct a; auto using complete_item_item. }
    assert (HC1 : forall h', computed h' s = true -> computed h' s1 = true).
    { intros h' Hc. unfold s1. destruct a as [v|e'|]; auto;
        [destruct (complete_item_spec h (Ok v) s) as (_ & _ & C & _)|destruct (complete_item_spec h (Err e') s) as (_ & _ & C & _)]; auto. }
    assert (HH1 : a <> ASkip -> computed h s1 = true).
    { intros Na. unfold s1. destruct a as [v|e'|]; [| |congruence].
      - destruct (complete_item_spec h (Ok v) s) as (_ & K & _). apply K. rewrite Hg. discriminate.
      - destruct (complete_item_spec h (Err e') s) as (_ & K & _). apply K. rewrite Hg. discriminate. }
    destruct (IH (i + 1) s1 HS1) as (A & B & C & D & E).
    { intros h' Hin. destruct (HI h' (or_intror Hin)) as (a' & He). exists a'. apply HI1. exact He. }
    cbn zeta in *. split; [exact A|]. split; [intros h' a' He; apply B, HI1, He|].
    split; [intros h' Hc; apply C, HC1, Hc|]. split; [|exact E].
    intros h' a' [<-|Hin] He Na.
    + apply C. assert (a' = a) as ->.
      { destruct He as (o1 & k1 & i1 & y1 & He). rewrite Hg in He. inversion He. reflexivity. }
      apply HH1. exact Na.
    + apply (D h' a' Hin); [apply HI1; exact He | exact Na].
Qed.

Lemma SI_fold_fill spec R items : forall s,
  SI spec R s ->
  (forall h, In h items -> exists a, item_entry s h a /\ (a = ASkip \/ computed h s = true)) ->
  let s' := fold_left (fun s h => complete_item h (Err E_NOTSET) s) items s in
  SI spec R s' /\
  (forall h a, item_entry s h a -> item_entry s' h a) /\
  (forall t out tk, get t s = Some (mkFut out (KTask tk)) -> get t s' = Some (mkFut out (KTask tk))).
Proof.
  induction items as [|h rest IH]; intros s HS HI; cbn zeta; cbn [fold_left].
  - split; [exact HS|]. split; auto.
  - destruct (HI h (or_introl eq_refl)) as (a & He & Ha).
    assert (HS1 : SI spec R (complete_item h (Err E_NOTSET) s)).
    { apply SI_complete_item; [exact HS|]. destruct He as (out & kind & idx & key & Hg).
      destruct out as [x|]; [right; right; unfold computed; rewrite Hg; reflexivity|].
      destruct Ha as [->|Hc]; [left; exists kind, idx, key, ASkip; split; [exact Hg|reflexivity]|].
      unfold computed in Hc. rewrite Hg in Hc. discriminate. }
    destruct (IH _ HS1) as (A & B & C).
    { intros h' Hin. destruct (HI h' (or_intror Hin)) as (a' & He' & Ha'). exists a'. split; [apply complete_item_item; exact He'|].
      destruct Ha' as [->|Hc]; [left; reflexivity|right].
      destruct (complete_item_spec h (Err E_NOTSET) s) as (_ & _ & M & _). apply M. exact Hc. }
    cbn zeta in *. split; [exact A|]. split; [intros h' a' He'; apply B, complete_item_item, He'|].
    intros t out tk Hg. apply C. rewrite complete_item_other; [exact Hg|]. apply (item_not_task s h a t out tk He Hg).
Qed.

Lemma SI_flush_batch spec R P k s :
  pointwise P -> SI spec R s ->
  SI spec R (flush_batch P k s) /\
  (forall h, computed h s = true -> computed h (flush_batch P k s) = true) /\
  (forall t out tk, get t s = Some (mkFut out (KTask tk)) -> get t (flush_batch P k s) = Some (mkFut out (KTask tk))).
Proof.
  intros HP HS. unfold flush_batch. destruct (b_done (get_batch k s)) eqn:Hd; [split; [exact HS|]; split; auto|].
  rewrite HP.
  set (s0 := if Z.eqb (cur_idx (fst k) s) (snd k) then with_cur s (upd Z.eqb (fst k) (snd k + 1) (cur s)) else s).
  set (s1 := emit (EvFlush (fst k) (snd k) (b_items (get_batch k s))) s0).
  assert (V1 : heap s1 = heap s /\ batches s1 = batches s /\ top_next s1 = top_next s).
  { unfold s1, s0. destruct (Z.eqb _ _); repeat split. }
  destruct V1 as (Vh & Vb & Vn).
  assert (G1 : forall h, get h s1 = get h s) by (intros h; unfold get; rewrite Vh; reflexivity).
  assert (HS1 : SI spec R s1) by (apply (SI_view spec R s); auto).
  pose proof HS as (_ & HIt & _).
  assert (HI1 : forall h, In h (b_items (get_batch k s)) -> exists a, item_entry s1 h a).
  { intros h Hin. destruct (HIt k h Hin) as (out & kind & idx & key & a & E). exists a, out, kind, idx, key. rewrite G1. exact E. }
  pose proof (SI_flush_body spec R (b_items (get_batch k s)) 0 s1 HS1 HI1) as F1.
  pose proof (flush_body_tasks (b_items (get_batch k s)) 0 None s1 HI1) as HT.
  pose proof (flush_body_spec (b_items (get_batch k s)) 0 None s1) as F2.
  cbn zeta in F1, F2.
  destruct (flush_body (b_items (get_batch k s)) 0 None s1) as [s2 err]. cbn [fst snd] in *.
  destruct F1 as (A & B & C & D & E). subst err. destruct F2 as (_ & M2 & _ & Bt2 & _).
  pose proof (fold_complete_spec (Err E_NOTSET) (b_items (get_batch k s)) s2) as F3.
  pose proof (SI_fold_fill spec R (b_items (get_batch k s)) s2 A) as F4.
  cbn zeta in F3, F4.
  set (s3 := fold_left (fun s h => complete_item h (Err E_NOTSET) s) (b_items (get_batch k s)) s2) in *.
  destruct F3 as (_ & M3 & _ & _ & Bt3 & Tn3).
  destruct F4 as (A3 & B3 & C3).
  { intros h Hin. destruct (HI1 h Hin) as (a & He). exists a. split; [apply B; exact He|].
    destruct a as [v|e|]; [right|right|left; reflexivity]; apply (D h _ Hin He); discriminate. }
  assert (Gp : forall h b, get h (put_batch k b s3) = get h s3) by reflexivity.
  split; [|split].
  - (* SI after marking the batch done: same items, same heap *)
    destruct A3 as (HE3 & HI3 & HN3 & HR3 & HU3). split; [|split; [|split; [|split]]]; [| |exact HN3|exact HR3|exact HU3].
    + intros h f Hg. exact (HE3 h f Hg).
    + intros k' h Hin. rewrite Gp. apply (HI3 k' h).
      destruct (key_eqb k' k) eqn:Ek.
      * apply key_eqb_eq in Ek. subst k'. rewrite get_batch_put_same in Hin. exact Hin.
      * assert (k' <> k) by (intros ->; rewrite key_eqb_refl in Ek; discriminate).
        rewrite get_batch_put_other in Hin by assumption. exact Hin.
  - intros h Hc. unfold computed. rewrite Gp. apply M3, M2. unfold computed. rewrite G1. exact Hc.
  - intros t out tk Hg. rewrite Gp. apply C3, HT. rewrite G1. exact Hg.
Qed.

Lemma SI_continue_with_batch spec R P s :
  pointwise P -> SI spec R s ->
  SI spec R (continue_with_batch P s) /\
  (forall h, computed h s = true -> computed h (continue_with_batch P s) = true) /\
  (forall t out tk, get t s = Some (mkFut out (KTask tk)) -> get t (continue_with_batch P s) = Some (mkFut out (KTask tk))).
Proof.
  intros HP HS. unfold continue_with_batch.
  pose proof (select_batches P s) as [Hb Hh].
  assert (Hn : top_next (snd (select P s)) = top_next s).
  { unfold select. destruct (filter _ (sb s)); [reflexivity|]. cbn [oracle with_sb]. destruct (oracle s); [reflexivity|].
    destruct (existsb _ _ && _); reflexivity. }
  destruct (select P s) as [[k|] s1]; cbn [snd] in *.
  - set (s2 := emit (EvBefore (fst k) (snd k)) (with_sb s1 (filter (fun k' => negb (key_eqb k' k)) (sb s1)))).
    assert (G2 : forall h, get h s2 = get h s) by (intros h; unfold get, s2; cbn; rewrite Hh; reflexivity).
    assert (HS2 : SI spec R s2) by (apply (SI_view spec R s); auto).
    destruct (SI_flush_batch spec R P k s2 HP HS2) as (A & B & C).
    split; [|split].
    + apply (SI_view spec R (flush_batch P k s2)); auto.
    + intros h Hc. rewrite computed_emit. apply B. unfold computed. rewrite G2. exact Hc.
    + intros t out tk Hg. rewrite get_emit. apply C. rewrite G2. exact Hg.
  - assert (G1 : forall h, get h s1 = get h s) by (intros h; unfold get; rewrite Hh; reflexivity).
    split; [apply (SI_view spec R s); auto|]. split.
    + intros h Hc. unfold computed. rewrite G1. exact Hc.
    + intros t out tk Hg. rewrite G1. exact Hg.
Qed.

(* ------------------------------------------------------------------ creating futures *)
Lemma fresh_idS spec R s : SI spec R s -> get [top_next s] s = None.
Proof.
  intros HS. destruct (get [top_next s] s) as [f|] eqn:Hg; [|reflexivity].
  destruct (SI_entry _ _ _ _ _ HS Hg) as ((n & E & Hn) & _). inversion E. lia.
Qed.

(* adding a new entry for the next id *)
Lemma SI_add spec R s s1 ent o :
  SI spec R s -> let h := [top_next s] in
  top_next s1 = (top_next s + 1)%Z ->
  (forall x, x <> h -> get x s1 = get x s) -> get h s1 = Some ent ->
  (forall o', f_out ent = Some o' -> o' = o) ->
  match f_kind ent with
  | KTask tk => forallb plain_ctx (tk_ctxs tk) = true /\ tk_deps tk = [] /\ tk_last tk = YNone /\
                exists p, tk_gen tk = Some (fun _ => p) /\ stree p /\ evals p = o
  | KItem _ _ _ a => item_out a = o
  | KLazy o' => o' = o
  | KOther => f_out ent <> None
  end ->
  items_ok s1 ->
  SI (spec_add spec h o) R s1.
Proof.
  intros HS h Hn1 Hoth Hnew Hout Hkind HI1. pose proof (fresh_idS _ _ _ HS) as Hfresh. fold h in Hfresh.
  pose proof HS as (HE & HI & HN & HR & HU).
  assert (Hhh : fid_eqb h h = true) by apply fid_eqb_refl.
  split; [|split; [|split; [|split]]]; [|exact HI1|rewrite Hn1; lia| |].
  - intros x fx Hx. destruct (fid_eqb x h) eqn:E.
    + apply fid_eqb_eq in E. subst x. rewrite Hnew in Hx. inversion Hx; subst fx.
      split; [exists (top_next s); split; [reflexivity|lia]|]. exists o.
      split; [unfold spec_add; rewrite Hhh; reflexivity|]. split; [exact Hout|].
      destruct (f_kind ent) as [tk| | |]; auto.
      destruct Hkind as (Hp & Hd & Hl & p & Hgen & Hst & Hev). split; [exact Hp|]. split; [rewrite Hd; intros d []|].
      intros _ _. exists (fun _ => p). rewrite Hl. split; [exact Hgen|]. split; [intros _; exact Hst|].
      split; [exact Hev|]. split; intros h' [].
    + assert (Nx : x <> h) by (intros ->; rewrite fid_eqb_refl in E; discriminate).
      rewrite Hoth in Hx by exact Nx.
      destruct (HE x fx Hx) as ((n & -> & Hn) & ox & Hs & Ho & Hk).
      split; [exists n; rewrite Hn1; split; [reflexivity|lia]|]. exists ox.
      split; [unfold spec_add; rewrite E; exact Hs|]. split; [exact Ho|].
      destruct (f_kind fx); auto. destruct Hk as (Hp & Hd & Hk). split; [exact Hp|]. split; [exact Hd|].
      intros H1 H2. destruct (Hk H1 H2) as (k0 & K1 & K2 & K3 & K4 & K5). exists k0. split; [exact K1|]. split; [exact K2|].
      split; [rewrite (look_spec_add spec h _ s); auto|]. split; [|exact K5].
      intros h' Hin. destruct (fid_eqb h' h) eqn:E'.
      * apply fid_eqb_eq in E'. subst h'. rewrite Hnew. discriminate.
      * assert (h' <> h) by (intros ->; rewrite fid_eqb_refl in E'; discriminate). rewrite Hoth by assumption. apply K4. exact Hin.
  - intros x Hx. destruct (HR x Hx) as (tk & Hgx). exists tk. rewrite Hoth; [exact Hgx|]. intros ->. rewrite Hfresh in Hgx. discriminate.
  - intros x Hx. unfold spec_add. destruct (fid_eqb x h) eqn:E.
    + apply fid_eqb_eq in E. subst x. rewrite Hnew in Hx. discriminate.
    + assert (Nx : x <> h) by (intros ->; rewrite fid_eqb_refl in E; discriminate).
      apply HU. rewrite <- Hoth by exact Nx. exact Hx.
Qed.

Lemma SI_create spec R parent f s :
  SI spec R s -> stree_fexpr f ->
  let h := fst (create parent f s) in
  let s1 := snd (create parent f s) in
  let spec' := spec_add spec h (fexpr_outs f) in
  get h s = None /\ SI spec' R s1 /\ get h s1 <> None /\
  (forall x, x <> h -> get x s1 = get x s) /\ h = [top_next s] /\ top_next s1 = (top_next s + 1)%Z /\
  (forall p, f = FTask p -> get h s1 = Some (mkFut None (KTask (fresh_task p)))).
Proof.
  intros HS Hf. pose proof (fresh_idS _ _ _ HS) as Hfresh. pose proof HS as (HE & HI & HN & HR & HU).
  unfold create, alloc. cbn zeta.
  set (h := [top_next s]) in *. set (s0 := with_top_next s (top_next s + 1)).
  assert (G0 : forall x, get x s0 = get x s) by reflexivity.
  (* items of batches that did not change *)
  assert (Hit : forall s1, (forall x, x <> h -> get x s1 = get x s) ->
                forall k x, In x (b_items (get_batch k s)) ->
                exists out kd idx ky a, get x s1 = Some (mkFut out (KItem kd idx ky a))).
  { intros s1 Hoth k x Hin. destruct (HI k x Hin) as (out & kd & idx & ky & a & E). exists out, kd, idx, ky, a.
    rewrite Hoth; [exact E|]. intros ->. rewrite Hfresh in E. discriminate. }
  destruct f as [p|kind key a|v|e|o]; cbn [fst snd fexpr_outs].
  - (* FTask *)
    set (ent := mkFut None (KTask (fresh_task p))). set (s1 := put h ent s0).
    assert (Hoth : forall x, x <> h -> get x s1 = get x s) by (intros x N; unfold s1; rewrite get_put_other by exact N; apply G0).
    assert (Hnew : get h s1 = Some ent) by apply get_put_same.
    split; [exact Hfresh|]. split; [|split; [rewrite Hnew; discriminate|split; [exact Hoth|split; [reflexivity|split; [reflexivity|]]]]].
    + apply (SI_add spec R s s1 ent (evals p) HS); auto.
      * intros o' E; discriminate.
      * cbn. split; [reflexivity|]. split; [reflexivity|]. split; [reflexivity|]. exists p. inversion Hf; subst. auto.
      * intros k x Hin. change (get_batch k s1) with (get_batch k s) in Hin. apply (Hit s1 Hoth k x Hin).
    + intros p' E. inversion E; subst p'. exact Hnew.
  - (* FItem *)
    set (idx := cur_idx kind s0). set (b := get_batch (kind, idx) s0).
    set (ent := mkFut None (KItem kind idx key a)).
    set (s1 := put_batch (kind, idx) (mkB (b_items b ++ [h]) (b_done b)) (put h ent s0)).
    change (put_batch (kind, idx) {| b_items := b_items b ++ [h]; b_done := b_done b |} (put h ent s0)) with s1.
    assert (Hoth : forall x, x <> h -> get x s1 = get x s) by (intros x N; unfold s1; change (get x (put_batch ?k ?bb ?ss)) with (get x ss); rewrite get_put_other by exact N; apply G0).
    assert (Hnew : get h s1 = Some ent) by (unfold s1; change (get h (put_batch ?k ?bb ?ss)) with (get h ss); apply get_put_same).
    split; [exact Hfresh|]. split; [|split; [rewrite Hnew; discriminate|split; [exact Hoth|split; [reflexivity|split; [reflexivity|intros p' E; discriminate]]]]].
    apply (SI_add spec R s s1 ent (item_out a) HS); auto.
    * intros o' E; discriminate.
    * reflexivity.
    * intros k x Hin. destruct (key_eqb k (kind, idx)) eqn:Ek.
      -- apply key_eqb_eq in Ek. subst k. unfold s1 in Hin. rewrite get_batch_put_same in Hin. cbn in Hin.
         apply in_app_or in Hin as [Hin|[<-|[]]].
         ++ apply (Hit s1 Hoth (kind, idx) x Hin).
         ++ exists None, kind, idx, key, a. exact Hnew.
      -- assert (Nk : k <> (kind, idx)) by (intros ->; rewrite key_eqb_refl in Ek; discriminate).
         unfold s1 in Hin. rewrite get_batch_put_other in Hin by exact Nk.
         change (get_batch k (put h ent s0)) with (get_batch k s) in Hin. apply (Hit s1 Hoth k x Hin).
  - (* FConst *)
    set (ent := mkFut (Some (Ok v)) KOther). set (s1 := put h ent s0).
    assert (Hoth : forall x, x <> h -> get x s1 = get x s) by (intros x N; unfold s1; rewrite get_put_other by exact N; apply G0).
    assert (Hnew : get h s1 = Some ent) by apply get_put_same.
    split; [exact Hfresh|]. split; [|split; [rewrite Hnew; discriminate|split; [exact Hoth|split; [reflexivity|split; [reflexivity|intros p' E; discriminate]]]]].
    apply (SI_add spec R s s1 ent (Ok v) HS); auto.
    * intros o' E; inversion E; reflexivity.
    * cbn. discriminate.
    * intros k x Hin. change (get_batch k s1) with (get_batch k s) in Hin. apply (Hit s1 Hoth k x Hin).
  - (* FError *)
    set (ent := mkFut (Some (Err e)) KOther). set (s1 := put h ent s0).
    assert (Hoth : forall x, x <> h -> get x s1 = get x s) by (intros x N; unfold s1; rewrite get_put_other by exact N; apply G0).
    assert (Hnew : get h s1 = Some ent) by apply get_put_same.
    split; [exact Hfresh|]. split; [|split; [rewrite Hnew; discriminate|split; [exact Hoth|split; [reflexivity|split; [reflexivity|intros p' E; discriminate]]]]].
    apply (SI_add spec R s s1 ent (Err e) HS); auto.
    * intros o' E; inversion E; reflexivity.
    * cbn. discriminate.
    * intros k x Hin. change (get_batch k s1) with (get_batch k s) in Hin. apply (Hit s1 Hoth k x Hin).
  - (* FLazy *)
    set (ent := mkFut None (KLazy o)). set (s1 := put h ent s0).
    assert (Hoth : forall x, x <> h -> get x s1 = get x s) by (intros x N; unfold s1; rewrite get_put_other by exact N; apply G0).
    assert (Hnew : get h s1 = Some ent) by apply get_put_same.
    split; [exact Hfresh|]. split; [|split; [rewrite Hnew; discriminate|split; [exact Hoth|split; [reflexivity|split; [reflexivity|intros p' E; discriminate]]]]].
    apply (SI_add spec R s s1 ent o HS); auto.
    * intros o' E; discriminate.
    * reflexivity.
    * intros k x Hin. change (get_batch k s1) with (get_batch k s) in Hin. apply (Hit s1 Hoth k x Hin).
Qed.

Definition inst_postS (spec : specmap) (R : fid -> Prop) (s : st) (spec' : specmap) (s1 : st) : Prop :=
  ext_spec s spec spec' /\ SI spec' R s1 /\ (forall x, get x s <> None -> get x s1 = get x s) /\
  (top_next s <= top_next s1)%Z.

Lemma inst_postS_refl spec R s : SI spec R s -> inst_postS spec R s spec s.
Proof. intros HS. split; [intros x _; reflexivity|]. split; [exact HS|]. split; [auto|lia]. Qed.

Lemma inst_postS_trans spec R s spec1 s1 spec2 s2 :
  inst_postS spec R s spec1 s1 -> inst_postS spec1 R s1 spec2 s2 -> inst_postS spec R s spec2 s2.
Proof.
  intros (E1 & S1 & O1 & T1) (E2 & S2 & O2 & T2). split; [|split; [exact S2|split; [|lia]]].
  - intros x Hx. rewrite E2, E1; auto. rewrite O1; auto.
  - intros x Hx. rewrite O2, O1; auto. rewrite O1; auto.
Qed.

(* an extension of the specification on fresh ids only is monotone *)
Definition spec_le (spec spec' : specmap) : Prop := forall x o, spec x = Some o -> spec' x = Some o.

Lemma ext_spec_le spec R s spec' : SI spec R s -> ext_spec s spec spec' -> spec_le spec spec'.
Proof.
  intros (_ & _ & _ & _ & HU) E x o Hx. rewrite E; [exact Hx|]. intros Hg. rewrite (HU x Hg) in Hx. discriminate.
Qed.

Lemma SI_inst R parent (y : ystruct leaf) : forall spec s,
  SI spec R s -> (forall l, In l (leaves y) -> stree_leaf l) ->
  exists spec', inst_postS spec R s spec' (snd (inst parent y s)) /\
    unwrap (look_spec spec') (fst (inst parent y s)) = unwrap leaf_outs y /\
    (forall h, In (RFut h) (leaves (fst (inst parent y s))) -> get h (snd (inst parent y s)) <> None) /\
    (forall h, In (RFut h) (leaves (fst (inst parent y s))) -> (top_next s <= fnum h)%Z).
Proof.
  induction y as [| a | l IH | l IH | l IH] using ystruct_ind2; intros spec s HS Ht.
  - exists spec. split; [apply inst_postS_refl; exact HS|]. split; [reflexivity|split; intros h []].
  - destruct a as [f|h|].
    + assert (Hf : stree_fexpr f) by (specialize (Ht (LNew f) (or_introl eq_refl)); inversion Ht; assumption).
      pose proof (SI_create spec R parent f s HS Hf) as HC. cbn zeta in HC.
      cbn [inst]. destruct (create parent f s) as [h s1]. cbn [fst snd] in *.
      destruct HC as (Hfresh & HS1 & Hnew & Hoth & Hh & Hn1 & _).
      exists (spec_add spec h (fexpr_outs f)). split; [|split; [|split]].
      * split; [|split; [exact HS1|split; [|lia]]].
        -- intros x Hx. unfold spec_add. destruct (fid_eqb x h) eqn:E; [|reflexivity].
           apply fid_eqb_eq in E. subst x. congruence.
        -- intros x Hx. apply Hoth. intros ->. congruence.
      * cbn. unfold spec_add. rewrite fid_eqb_refl. reflexivity.
      * intros h' [E|[]]. inversion E; subst h'. exact Hnew.
      * intros h' [E|[]]. inversion E; subst h'. rewrite Hh. cbn. lia.
    + specialize (Ht (LOld h) (or_introl eq_refl)). inversion Ht.
    + exists spec. split; [apply inst_postS_refl; exact HS|]. split; [reflexivity|]. split; intros h [E|[]]; discriminate.
  - (* tuple *)
    cbn [inst].
    match goal with |- context [(?g l s)] => set (go := g) end.
    assert (HL : forall s0 spec0, SI spec0 R s0 -> (forall x, In x (flat_map leaves l) -> stree_leaf x) ->
              exists spec', inst_postS spec0 R s0 spec' (snd (go l s0)) /\
                unwrap_list (look_spec spec') (fst (go l s0)) = unwrap_list leaf_outs l /\
                (forall h, In (RFut h) (flat_map leaves (fst (go l s0))) -> get h (snd (go l s0)) <> None) /\
                (forall h, In (RFut h) (flat_map leaves (fst (go l s0))) -> (top_next s0 <= fnum h)%Z)).
    { clear spec s HS Ht. induction IH as [|x l Hx Hl IHl]; intros s0 spec0 HS0 Ht0.
      - exists spec0. split; [apply inst_postS_refl; exact HS0|]. split; [reflexivity|split; intros h []].
      - cbn [go]. cbn [flat_map] in Ht0.
        destruct (Hx spec0 s0 HS0) as (spec1 & P1 & U1 & A1 & N1); [intros y Hy; apply Ht0, in_or_app; auto|].
        destruct (inst parent x s0) as [x' s1]. cbn [fst snd] in *.
        destruct (IHl s1 spec1 (proj1 (proj2 P1))) as (spec2 & P2 & U2 & A2 & N2); [intros y Hy; apply Ht0, in_or_app; auto|].
        fold go. destruct (go l s1) as [l'' s2]. cbn [fst snd] in *.
        exists spec2. split; [eapply inst_postS_trans; eauto|]. split; [|split].
        + cbn [unwrap_list]. rewrite (unwrap_look_ext spec1 spec2 s1 x' (proj1 P2) A1), U1, U2. reflexivity.
        + intros h Hin. cbn [flat_map] in Hin. apply in_app_or in Hin as [Hin|Hin]; [|apply A2; exact Hin].
          destruct P2 as (_ & _ & O2 & _). rewrite O2; apply A1; exact Hin.
        + intros h Hin. cbn [flat_map] in Hin. apply in_app_or in Hin as [Hin|Hin]; [apply N1; exact Hin|].
          destruct P1 as (_ & _ & _ & T1). specialize (N2 h Hin). lia. }
    destruct (HL s spec HS) as (spec' & P' & U' & A' & N'); [rewrite <- leaves_tuple; exact Ht|].
    destruct (go l s) as [l' s1]. cbn [fst snd] in *.
    exists spec'. split; [exact P'|]. split; [|split].
    + rewrite !unwrap_tuple, U'. reflexivity.
    + rewrite leaves_tuple. exact A'.
    + rewrite leaves_tuple. exact N'.
  - (* list *)
    cbn [inst].
    match goal with |- context [(?g l s)] => set (go := g) end.
    assert (HL : forall s0 spec0, SI spec0 R s0 -> (forall x, In x (flat_map leaves l) -> stree_leaf x) ->
              exists spec', inst_postS spec0 R s0 spec' (snd (go l s0)) /\
                unwrap_list (look_spec spec') (fst (go l s0)) = unwrap_list leaf_outs l /\
                (forall h, In (RFut h) (flat_map leaves (fst (go l s0))) -> get h (snd (go l s0)) <> None) /\
                (forall h, In (RFut h) (flat_map leaves (fst (go l s0))) -> (top_next s0 <= fnum h)%Z)).
    { clear spec s HS Ht. induction IH as [|x l Hx Hl IHl]; intros s0 spec0 HS0 Ht0.
      - exists spec0. split; [apply inst_postS_refl; exact HS0|]. split; [reflexivity|split; intros h []].
      - cbn [go]. cbn [flat_map] in Ht0.
        destruct (Hx spec0 s0 HS0) as (spec1 & P1 & U1 & A1 & N1); [intros y Hy; apply Ht0, in_or_app; auto|].
        destruct (inst parent x s0) as [x' s1]. cbn [fst snd] in *.
        destruct (IHl s1 spec1 (proj1 (proj2 P1))) as (spec2 & P2 & U2 & A2 & N2); [intros y Hy; apply Ht0, in_or_app; auto|].
        fold go. destruct (go l s1) as [l'' s2]. cbn [fst snd] in *.
        exists spec2. split; [eapply inst_postS_trans; eauto|]. split; [|split].
        + cbn [unwrap_list]. rewrite (unwrap_look_ext spec1 spec2 s1 x' (proj1 P2) A1), U1, U2. reflexivity.
        + intros h Hin. cbn [flat_map] in Hin. apply in_app_or in Hin as [Hin|Hin]; [|apply A2; exact Hin].
          destruct P2 as (_ & _ & O2 & _). rewrite O2; apply A1; exact Hin.
        + intros h Hin. cbn [flat_map] in Hin. apply in_app_or in Hin as [Hin|Hin]; [apply N1; exact Hin|].
          destruct P1 as (_ & _ & _ & T1). specialize (N2 h Hin). lia. }
    destruct (HL s spec HS) as (spec' & P' & U' & A' & N'); [rewrite <- leaves_ylist; exact Ht|].
    destruct (go l s) as [l' s1]. cbn [fst snd] in *.
    exists spec'. split; [exact P'|]. split; [|split].
    + rewrite !unwrap_ylist, U'. reflexivity.
    + rewrite leaves_ylist. exact A'.
    + rewrite leaves_ylist. exact N'.
  - (* dict *)
    cbn [inst].
    match goal with |- context [(?g l s)] => set (go := g) end.
    assert (HL : forall s0 spec0, SI spec0 R s0 -> (forall x, In x (flat_map (fun kv => leaves (snd kv)) l) -> stree_leaf x) ->
              exists spec', inst_postS spec0 R s0 spec' (snd (go l s0)) /\
                unwrap_dict (look_spec spec') (fst (go l s0)) = unwrap_dict leaf_outs l /\
                (forall h, In (RFut h) (flat_map (fun kv => leaves (snd kv)) (fst (go l s0))) -> get h (snd (go l s0)) <> None) /\
                (forall h, In (RFut h) (flat_map (fun kv => leaves (snd kv)) (fst (go l s0))) -> (top_next s0 <= fnum h)%Z)).
    { clear spec s HS Ht. induction IH as [|[k x] l Hx Hl IHl]; intros s0 spec0 HS0 Ht0.
      - exists spec0. split; [apply inst_postS_refl; exact HS0|]. split; [reflexivity|split; intros h []].
      - cbn [go]. cbn [flat_map snd] in Ht0. cbn [snd] in Hx.
        destruct (Hx spec0 s0 HS0) as (spec1 & P1 & U1 & A1 & N1); [intros y Hy; apply Ht0, in_or_app; auto|].
        destruct (inst parent x s0) as [x' s1]. cbn [fst snd] in *.
        destruct (IHl s1 spec1 (proj1 (proj2 P1))) as (spec2 & P2 & U2 & A2 & N2); [intros y Hy; apply Ht0, in_or_app; auto|].
        fold go. destruct (go l s1) as [l'' s2]. cbn [fst snd] in *.
        exists spec2. split; [eapply inst_postS_trans; eauto|]. split; [|split].
        + cbn [unwrap_dict]. rewrite (unwrap_look_ext spec1 spec2 s1 x' (proj1 P2) A1), U1, U2. reflexivity.
        + intros h Hin. cbn [flat_map snd] in Hin. apply in_app_or in Hin as [Hin|Hin]; [|apply A2; exact Hin].
          destruct P2 as (_ & _ & O2 & _). rewrite O2; apply A1; exact Hin.
        + intros h Hin. cbn [flat_map snd] in Hin. apply in_app_or in Hin as [Hin|Hin]; [apply N1; exact Hin|].
          destruct P1 as (_ & _ & _ & T1). specialize (N2 h Hin). lia. }
    destruct (HL s spec HS) as (spec' & P' & U' & A' & N'); [rewrite <- leaves_ydict; exact Ht|].
    destruct (go l s) as [l' s1]. cbn [fst snd] in *.
    exists spec'. split; [exact P'|]. split; [|split].
    + rewrite !unwrap_ydict, U'. reflexivity.
    + rewrite leaves_ydict. exact A'.
    + rewrite leaves_ydict. exact N'.
Qed.

Lemma spec_add_le spec R s h o : SI spec R s -> get h s = None -> spec_le spec (spec_add spec h o).
Proof.
  intros (_ & _ & _ & _ & HU) Hg x ox Hx. unfold spec_add. destruct (fid_eqb x h) eqn:E; [|exact Hx].
  apply fid_eqb_eq in E. subst x. rewrite (HU h Hg) in Hx. discriminate.
Qed.

(* ------------------------------------------------------------------ heights on the scheduler's task stack *)
(* x is on the stack ts (head = top) at height >= i, i.e. it was pushed by an _execute loop entered when the
   stack had i elements (or by a loop nested in it) *)
Definition hi (ts : list fid) (i : nat) (x : fid) : Prop := In x (skipn i (rev ts)).

Lemma in_skipn {A} (x : A) n : forall l, In x (skipn n l) -> In x l.
Proof. induction n as [|n IH]; intros [|y l]; cbn; auto. Qed.

Lemma in_skipn_app {A} (x : A) n a b : In x (skipn n (a ++ b)) -> In x (skipn n a) \/ In x b.
Proof.
  rewrite skipn_app. intros H. apply in_app_or in H as [H|H]; [left; exact H|right; eapply in_skipn; exact H].
Qed.

Lemma in_skipn_app_l {A} (x : A) n a b : In x (skipn n a) -> In x (skipn n (a ++ b)).
Proof. rewrite skipn_app. intros H. apply in_or_app. left. exact H. Qed.

Lemma hi_push ts i y x : hi (y :: ts) i x -> x = y \/ hi ts i x.
Proof. unfold hi. cbn [rev]. intros H. apply in_skipn_app in H as [H|[H|[]]]; auto. Qed.

Lemma hi_pop ts i x : hi (tl ts) i x -> hi ts i x.
Proof. destruct ts as [|y ts]; [auto|]. unfold hi. cbn [tl rev]. apply in_skipn_app_l. Qed.

Lemma hi_app l ts i x : hi (l ++ ts) i x -> In x l \/ hi ts i x.
Proof.
  induction l as [|y l IH]; cbn [app]; [auto|]. intros H. apply hi_push in H as [->|H]; [left; left; reflexivity|].
  destruct (IH H) as [H1|H1]; [left; right; exact H1|right; exact H1].
Qed.

Lemma hi_top ts i y : (i <= length ts)%nat -> hi (y :: ts) i y.
Proof.
  intros Hl. unfold hi. cbn [rev]. rewrite skipn_app. apply in_or_app. right. rewrite rev_length.
  replace (i - length ts)%nat with O by lia. left. reflexivity.
Qed.

Lemma hi_enter ts r x : hi (r :: ts) (length ts) x -> x = r.
Proof.
  intros H. apply hi_push in H as [H|H]; [exact H|]. unfold hi in H. rewrite <- rev_length, skipn_all in H. destruct H.
Qed.

Lemma tasks_of_regs s s' : regs s' = regs s -> tasks s' = tasks s.
Proof. unfold regs. intros E. inversion E. reflexivity. Qed.

Lemma tasks_set_task t tk s : tasks (set_task t tk s) = tasks s.
Proof. apply tasks_of_regs, regs_set_task. Qed.

(* ------------------------------------------------------------------ configurations *)
(* the callers suspended in a synchronous call *)
Fixpoint fvals (fr : list frame) : list fid :=
  match fr with
  | [] => []
  | FValue t _ :: fr' => t :: fvals fr'
  | _ :: fr' => fvals fr'
  end.

(* the tasks whose generator is executing *)
Definition R_of (m : mode) (fr : list frame) : list fid :=
  match m with MRun t _ => t :: fvals fr | _ => fvals fr end.

Section MainS.
  Variable P : params.
  Hypothesis HP : pointwise P.
  Variable res : outcome.

  (* [vs_ok spec ts oh b fr]: fr is a stack to which value() will deliver the outcome oh; every suspended
     caller in it has a creation number below b *)
  Inductive vs_ok (spec : specmap) (ts : list fid) : outcome -> Z -> list frame -> Prop :=
  | vs_top b : vs_ok spec ts res b [FTop]
  | vs_val oh b t k old i r orr vs :
      (forall o, stree (k o)) -> spec t = Some (evals (k oh)) -> (fnum t < b)%Z -> (fnum r <= fnum t)%Z ->
      (forall x, hi ts i x -> (fnum r <= fnum x)%Z) ->
      spec r = Some orr -> vs_ok spec ts orr (fnum r) vs ->
      vs_ok spec ts oh b (FValue t k :: FCont t old :: FExec i :: FWait r :: vs).

  Definition wt_ok (spec : specmap) (ts : list fid) (r : fid) (vs : list frame) : Prop :=
    exists orr, spec r = Some orr /\ vs_ok spec ts orr (fnum r) vs.

  Definition lv_ok (spec : specmap) (ts : list fid) (i : nat) (r : fid) (vs : list frame) : Prop :=
    (forall x, hi ts i x -> (fnum r <= fnum x)%Z) /\ wt_ok spec ts r vs.

  Definition frames_okS (spec : specmap) (ts : list fid) (m : mode) (fr : list frame) : Prop :=
    match m with
    | MValue h => exists oh, spec h = Some oh /\ vs_ok spec ts oh (fnum h) fr
    | MDeliver o => exists b, vs_ok spec ts o b fr
    | MWaitHead | MAfterExec => exists r vs, fr = FWait r :: vs /\ wt_ok spec ts r vs
    | MExecLoop => exists i r vs, fr = FExec i :: FWait r :: vs /\ lv_ok spec ts i r vs
    | MResume t | MRun t _ =>
      exists old i r vs, fr = FCont t old :: FExec i :: FWait r :: vs /\ (fnum r <= fnum t)%Z /\ lv_ok spec ts i r vs
    | MContRet =>
      exists t old i r vs, fr = FCont t old :: FExec i :: FWait r :: vs /\ (fnum r <= fnum t)%Z /\ lv_ok spec ts i r vs
    | MUnwind _ | MDone _ | MStuck => True
    end.

  Lemma vs_ok_le spec spec' ts oh b fr : spec_le spec spec' -> vs_ok spec ts oh b fr -> vs_ok spec' ts oh b fr.
  Proof.
    intros L H. induction H as [b|oh b t k old i r orr vs Hk Ht Hb Hrt Hh Hr Hv IH]; [apply vs_top|].
    apply (vs_val spec' ts oh b t k old i r orr vs); auto.
  Qed.

  Lemma vs_ok_bound spec ts oh b b' fr : (b <= b')%Z -> vs_ok spec ts oh b fr -> vs_ok spec ts oh b' fr.
  Proof.
    intros L H. destruct H as [b|oh b t k old i r orr vs Hk Ht Hb Hrt Hh Hr Hv]; [apply vs_top|].
    apply (vs_val spec ts oh b' t k old i r orr vs); auto. lia.
  Qed.

  (* the task stack may change as long as everything new is at least as young as the bound *)
  Lemma vs_ok_ts spec ts ts' oh b fr :
    vs_ok spec ts oh b fr -> (forall i x, hi ts' i x -> hi ts i x \/ (b <= fnum x)%Z) -> vs_ok spec ts' oh b fr.
  Proof.
    intros H. induction H as [b|oh b t k old i r orr vs Hk Ht Hb Hrt Hh Hr Hv IH]; intros Hts; [apply vs_top|].
    apply (vs_val spec ts' oh b t k old i r orr vs); auto.
    - intros x Hx. destruct (Hts i x Hx) as [H1|H1]; [apply Hh; exact H1|lia].
    - apply IH. intros j x Hx. destruct (Hts j x Hx) as [H1|H1]; [left; exact H1|right; lia].
  Qed.

  Lemma vs_ok_fvals spec ts oh b fr : vs_ok spec ts oh b fr -> forall t, In t (fvals fr) -> (fnum t < b)%Z.
  Proof.
    intros H. induction H as [b|oh b t k old i r orr vs Hk Ht Hb Hrt Hh Hr Hv IH]; intros x Hx; [destruct Hx|].
    cbn [fvals] in Hx. destruct Hx as [<-|Hx]; [exact Hb|]. specialize (IH x Hx). lia.
  Qed.

  Lemma wt_ok_le spec spec' ts r vs : spec_le spec spec' -> wt_ok spec ts r vs -> wt_ok spec' ts r vs.
  Proof. intros L (orr & Hr & Hv). exists orr. split; [apply L; exact Hr|apply (vs_ok_le spec); assumption]. Qed.

  Lemma wt_ok_ts spec ts ts' r vs :
    wt_ok spec ts r vs -> (forall i x, hi ts' i x -> hi ts i x \/ (fnum r <= fnum x)%Z) -> wt_ok spec ts' r vs.
  Proof. intros (orr & Hr & Hv) Hts. exists orr. split; [exact Hr|apply (vs_ok_ts spec ts); assumption]. Qed.

  Lemma wt_ok_fvals spec ts r vs : wt_ok spec ts r vs -> forall t, In t (fvals vs) -> (fnum t < fnum r)%Z.
  Proof. intros (orr & Hr & Hv). apply (vs_ok_fvals _ _ _ _ _ Hv). Qed.

  Lemma lv_ok_le spec spec' ts i r vs : spec_le spec spec' -> lv_ok spec ts i r vs -> lv_ok spec' ts i r vs.
  Proof. intros L (Hh & Hw). split; [exact Hh|apply (wt_ok_le spec); assumption]. Qed.

  Lemma lv_ok_ts spec ts ts' i r vs :
    lv_ok spec ts i r vs -> (forall j x, hi ts' j x -> hi ts j x \/ (fnum r <= fnum x)%Z) -> lv_ok spec ts' i r vs.
  Proof.
    intros (Hh & Hw) Hts. split; [|apply (wt_ok_ts spec ts); assumption].
    intros x Hx. destruct (Hts i x Hx) as [H1|H1]; [apply Hh; exact H1|exact H1].
  Qed.

  Lemma lv_ok_pop spec ts i r vs : lv_ok spec ts i r vs -> lv_ok spec (tl ts) i r vs.
  Proof. intros H. apply (lv_ok_ts spec ts); [exact H|]. intros j x Hx. left. apply hi_pop. exact Hx. Qed.

  (* what each mode needs beyond frames and state *)
  Definition mode_ok (spec : specmap) (m : mode) (s : st) : Prop :=
    match m with
    | MValue h => is_task h s
    | MResume t => exists tk, get t s = Some (mkFut None (KTask tk)) /\
                     (forall h, In (RFut h) (leaves (tk_last tk)) -> computed h s = true)
    | MRun t p => (stree p /\ spec t = Some (evals p)) \/
                  (exists h k oh, p = Sync h k /\ (forall o, stree (k o)) /\ spec h = Some oh /\
                                  spec t = Some (evals (k oh)) /\ (fnum t < fnum h)%Z /\ is_task h s)
    | _ => True
    end.

  Definition CI (spec : specmap) (c : cfg) : Prop :=
    match c_mode c with
    | MUnwind _ | MStuck => True
    | MDone o => o = res /\ SI spec (fun _ => False) (c_st c)
    | m => frames_okS spec (tasks (c_st c)) m (c_frames c) /\
           SI spec (fun x => In x (R_of m (c_frames c))) (c_st c) /\ mode_ok spec m (c_st c)
    end.

  Lemma CI_intro spec m fr s :
    frames_okS spec (tasks s) m fr -> SI spec (fun x => In x (R_of m fr)) s -> mode_ok spec m s ->
    match m with MDone o => o = res /\ SI spec (fun _ => False) s | _ => True end ->
    CI spec (mkC m fr s).
  Proof.
    intros Hf HS Hm Hd. unfold CI. cbn [c_mode c_frames c_st].
    destruct m; try exact I; try exact Hd; (split; [exact Hf|split; [exact HS|exact Hm]]).
  Qed.

  Lemma s01_MValue spec h fr s : CI spec (mkC (MValue h) fr s) -> CI spec (step P (mkC (MValue h) fr s)).
  Proof.
    intros (Hf & HS & Ht). cbn [c_mode c_frames c_st] in *. destruct Hf as (oh & Hoh & Hv). cbn [mode_ok] in Ht.
    cbn [step c_mode c_frames c_st].
    destruct (computed h s) eqn:Hc.
    - pose proof (SI_computed_spec _ _ _ _ HS Hc) as E. rewrite Hoh in E. inversion E as [E']. rewrite <- E'.
      apply CI_intro; [exists (fnum h); exact Hv|exact HS|exact I|exact I].
    - pose proof Ht as (out & tk & Hg). rewrite Hg.
      apply CI_intro; [|exact HS|exact I|exact I].
      exists h, fr. split; [reflexivity|]. exists oh. split; assumption.
  Qed.

  Lemma s01_MWaitHead spec fr s : CI spec (mkC MWaitHead fr s) -> CI spec (step P (mkC MWaitHead fr s)).
  Proof.
    intros (Hf & HS & _). cbn [c_mode c_frames c_st] in *. destruct Hf as (r & vs & -> & orr & Hr & Hv).
    cbn [step c_mode c_frames c_st].
    destruct (computed r s) eqn:Hc.
    - pose proof (SI_computed_spec _ _ _ _ HS Hc) as E. rewrite Hr in E. inversion E as [E']. rewrite <- E'.
      apply CI_intro; [|apply (SI_view _ _ s); [apply heap_drop_sb|apply batches_drop_sb|apply top_next_drop_sb|exact HS]|exact I|exact I].
      exists (fnum r). rewrite tasks_drop_sb. exact Hv.
    - apply CI_intro; [|apply (SI_view _ _ s); auto|exact I|exact I].
      exists (length (tasks s)), r, vs. split; [reflexivity|]. cbn [tasks with_tasks]. split.
      + intros x Hx. apply hi_enter in Hx. subst x. lia.
      + exists orr. split; [exact Hr|]. apply (vs_ok_ts spec (tasks s)); [exact Hv|].
        intros j x Hx. apply hi_push in Hx as [->|Hx]; [right; lia|left; exact Hx].
  Qed.

  Lemma s01_MAfterExec spec fr s : CI spec (mkC MAfterExec fr s) -> CI spec (step P (mkC MAfterExec fr s)).
  Proof.
    intros (Hf & HS & _). cbn [c_mode c_frames c_st] in *. destruct Hf as (r & vs & -> & orr & Hr & Hv).
    cbn [step c_mode c_frames c_st].
    destruct (computed r s) eqn:Hc.
    - pose proof (SI_computed_spec _ _ _ _ HS Hc) as E. rewrite Hr in E. inversion E as [E']. rewrite <- E'.
      apply CI_intro; [|apply (SI_view _ _ s); [apply heap_drop_sb|apply batches_drop_sb|apply top_next_drop_sb|exact HS]|exact I|exact I].
      exists (fnum r). rewrite tasks_drop_sb. exact Hv.
    - destruct (SI_continue_with_batch spec _ P s HP HS) as (A & B & C).
      apply CI_intro; [|exact A|exact I|exact I].
      exists r, vs. split; [reflexivity|]. exists orr. split; [exact Hr|].
      rewrite (tasks_of_regs _ _ (regs_continue_with_batch P s)). exact Hv.
  Qed.

  Lemma s01_MExecLoop spec fr s : CI spec (mkC MExecLoop fr s) -> CI spec (step P (mkC MExecLoop fr s)).
  Proof.
    intros (Hf & HS & _). cbn [c_mode c_frames c_st] in *. destruct Hf as (init & r & vs & -> & Hlv).
    cbn [R_of fvals] in HS. cbn [step c_mode c_frames c_st].
    assert (Hpop : forall s', heap s' = heap s -> batches s' = batches s -> top_next s' = top_next s ->
                     tasks s' = tl (tasks s) ->
                     CI spec (mkC MExecLoop (FExec init :: FWait r :: vs) s')).
    { intros s' E1 E2 E3 E4. apply CI_intro; [|apply (SI_view _ _ s); auto|exact I|exact I].
      exists init, r, vs. split; [reflexivity|]. rewrite E4. apply lv_ok_pop. exact Hlv. }
    assert (Hexit : CI spec (mkC MAfterExec (FWait r :: vs) s)).
    { apply CI_intro; [|exact HS|exact I|exact I]. exists r, vs. split; [reflexivity|]. exact (proj2 Hlv). }
    destruct (Nat.leb (length (tasks s)) init) eqn:Hleb; [exact Hexit|].
    destruct (Z.ltb (p_maxstack P) (Z.of_nat (length (tasks s)))); [exact I|].
    destruct (tasks s) as [|x ts] eqn:Hts; [exact Hexit|].
    assert (Hxr : (fnum r <= fnum x)%Z).
    { apply (proj1 Hlv). apply hi_top. apply Nat.leb_gt in Hleb. cbn [length] in Hleb. lia. }
    assert (HxR : ~ In x (fvals vs)).
    { intros Hin. pose proof (wt_ok_fvals _ _ _ _ (proj2 Hlv) x Hin). lia. }
    destruct (computed x s) eqn:Hcx; [apply Hpop; try reflexivity; cbn; rewrite Hts; reflexivity|].
    destruct (get x s) as [[out [tk|kind idx key a|o'|]]|] eqn:Hg;
      try (apply Hpop; try reflexivity; cbn; rewrite Hts; reflexivity).
    - (* a task *)
      assert (Hout : out = None).
      { unfold computed in Hcx. rewrite Hg in Hcx. cbn in Hcx. destruct out; [discriminate|reflexivity]. }
      subst out.
      pose proof (SI_plain _ _ _ _ _ _ HS Hg) as Hp.
      destruct (is_blocked tk s) eqn:Hb.
      + destruct (tk_ds tk).
        * (* settled: pause contexts, pop *)
          assert (HS1 : SI spec (fun y => In y (fvals vs)) (set_task x (tk_set_ds tk false) s)).
          { apply (SI_set_task_same spec _ s x None tk (tk_set_ds tk false) Hg HS); auto. apply (set_task_upd s x None tk _ Hg). }
          apply CI_intro; [| |exact I|exact I].
          -- exists init, r, vs. split; [reflexivity|].
             replace (tasks (pop_task (pause_contexts x (set_task x (tk_set_ds tk false) s)))) with (tl (tasks s)).
             ++ apply lv_ok_pop. rewrite Hts. exact Hlv.
             ++ cbn [pop_task tasks with_tasks]. rewrite (tasks_of_regs _ _ (regs_pause_contexts x _)).
                rewrite (tasks_of_regs _ _ (regs_set_task x _ s)). reflexivity.
          -- apply (SI_view _ _ (pause_contexts x (set_task x (tk_set_ds tk false) s))); auto.
             apply SI_pause_contexts. exact HS1.
        * (* first visit: resume contexts, push dependencies *)
          assert (HS1 : SI spec (fun y => In y (fvals vs)) (set_task x (tk_set_ds tk true) s)).
          { apply (SI_set_task_same spec _ s x None tk (tk_set_ds tk true) Hg HS); auto. apply (set_task_upd s x None tk _ Hg). }
          set (s1 := resume_contexts x (set_task x (tk_set_ds tk true) s)).
          assert (HS2 : SI spec (fun y => In y (fvals vs)) s1) by (apply SI_resume_contexts; exact HS1).
          assert (Ht1 : tasks s1 = x :: ts).
          { unfold s1. rewrite (tasks_of_regs _ _ (regs_resume_contexts x _)).
            rewrite (tasks_of_regs _ _ (regs_set_task x _ s)). exact Hts. }
          apply CI_intro; [|apply (SI_view _ _ s1); auto|exact I|exact I].
          exists init, r, vs. split; [reflexivity|]. cbn [tasks with_tasks].
          apply (lv_ok_ts spec (x :: ts)); [exact Hlv|].
          intros j y Hy. rewrite Ht1 in Hy. apply hi_app in Hy as [Hy|Hy]; [right|left; exact Hy].
          apply in_rev in Hy. apply filter_In in Hy as [Hy _].
          unfold get_task in Hy. destruct (get x s1) as [[o1 [tk1| | |]]|] eqn:Hg1; try destruct Hy.
          pose proof (SI_deps _ _ _ _ _ _ HS2 Hg1 y Hy). lia.
      + (* not blocked: _continue_with_task *)
        rewrite (computed_resume_contextsS spec _ s x HS x), Hcx.
        destruct (get_resume_contextsS spec _ s x None tk HS Hg) as (tk' & Hg' & E1 & E2 & E3 & E4).
        apply CI_intro; [|apply (SI_view _ _ (resume_contexts x s)); auto; apply SI_resume_contexts; exact HS| |exact I].
        * exists (active (resume_contexts x s)), init, r, vs. split; [reflexivity|]. split; [exact Hxr|].
          cbn [tasks with_active]. rewrite (tasks_of_regs _ _ (regs_resume_contexts x s)). rewrite Hts. exact Hlv.
        * exists tk'. split; [exact Hg'|]. intros h Hin. change (computed h (with_active ?a ?b)) with (computed h a).
          rewrite (computed_resume_contextsS spec _ s x HS h). rewrite E2 in Hin.
          destruct (SI_entry _ _ _ _ _ HS Hg) as (_ & o & Hs & _ & _ & _ & Hk').
          destruct (Hk' eq_refl HxR) as (k0 & _ & _ & _ & _ & K5).
          specialize (K5 h Hin). unfold is_blocked in Hb.
          destruct (computed h s) eqn:Hch; [reflexivity|]. exfalso.
          assert (existsb (fun d => negb (computed d s)) (tk_deps tk) = true).
          { apply existsb_exists. exists h. split; [exact K5|]. rewrite Hch. reflexivity. }
          congruence.
    - (* a batch item: its batch is scheduled *)
      apply Hpop; try (unfold schedule_batch; destruct (b_done _); try reflexivity; destruct (existsb _ _); reflexivity).
      cbn [pop_task tasks with_tasks]. rewrite (tasks_of_regs _ _ (regs_schedule_batch (kind, idx) s)). rewrite Hts. reflexivity.
    - (* a lazy future: computed inline *)
      assert (Hout : out = None).
      { unfold computed in Hcx. rewrite Hg in Hcx. cbn in Hcx. destruct out; [discriminate|reflexivity]. }
      subst out.
      apply CI_intro; [| |exact I|exact I].
      + exists init, r, vs. split; [reflexivity|]. cbn [pop_task tasks with_tasks put with_heap]. apply lv_ok_pop. rewrite Hts. exact Hlv.
      + apply (SI_view _ _ (put x (mkFut (Some o') (KLazy o')) s)); auto.
        apply (SI_upd spec _ _ s _ x _ _ Hg HS (upd_entry_put _ _ _)); [intros; reflexivity| | |intros; discriminate].
        * intros Dom. destruct (SI_entry _ _ _ _ _ HS Hg) as (A & o & Hs & _ & Hk). cbn in Hk. subst o'.
          split; [exact A|]. exists o. split; [exact Hs|]. split; [intros o2 E; inversion E; reflexivity|reflexivity].
        * intros Hr. exfalso. exact (HxR Hr).
  Qed.

  Lemma look_agreeS spec R s (last : ystruct rleaf) :
    SI spec R s -> (forall h, In (RFut h) (leaves last) -> computed h s = true) ->
    unwrap (look s) last = unwrap (look_spec spec) last.
  Proof.
    intros HS Hc. apply unwrap_ext. intros [h|] Hin; [|reflexivity]. cbn.
    rewrite (SI_computed_spec _ _ _ _ HS (Hc h Hin)). reflexivity.
  Qed.

  Lemma in_cons_other (t x : fid) l : x <> t -> (In x (t :: l) <-> In x l).
  Proof. intros N. split; [intros [E|H]; [congruence|exact H]|intros H; right; exact H]. Qed.

  Lemma in_cons_other' (t x : fid) l : x <> t -> (In x l <-> In x (t :: l)).
  Proof. intros N. symmetry. apply in_cons_other. exact N. Qed.

  (* the entry of an exempt task may be replaced by any sane uncomputed task entry *)
  Lemma SI_upd_exempt spec (R : fid -> Prop) s s' t tk tk' :
    get t s = Some (mkFut None (KTask tk)) -> SI spec R s -> R t ->
    upd_entry s s' t (mkFut None (KTask tk')) -> forallb plain_ctx (tk_ctxs tk') = true ->
    (forall d, In d (tk_deps tk') -> (fnum t < fnum d)%Z) ->
    SI spec R s'.
  Proof.
    intros Hg HS Hr U Hp Hd. apply (SI_upd_task spec R s s' t None tk tk' Hg HS U Hp Hd).
    intros _ N. exfalso. exact (N Hr).
  Qed.

  Lemma s01_MResume spec t fr s : CI spec (mkC (MResume t) fr s) -> CI spec (step P (mkC (MResume t) fr s)).
  Proof.
    intros (Hf & HS & (tk & Hg & Hcomp)). cbn [c_mode c_frames c_st] in *.
    destruct Hf as (old & i & r & vs & -> & Hrt & Hlv). cbn [R_of fvals] in HS.
    assert (HtR : ~ In t (fvals vs)).
    { intros Hin. pose proof (wt_ok_fvals _ _ _ _ (proj2 Hlv) t Hin). lia. }
    cbn [step c_mode c_frames c_st]. unfold get_task. rewrite Hg.
    destruct (SI_entry _ _ _ _ _ HS Hg) as (_ & ot & Hst & _ & Hp & Hd & Hk). cbn in Hp, Hd, Hk.
    destruct (Hk eq_refl HtR) as (k & K1 & K2 & K3 & K4 & K5). rewrite K1.
    set (tk1 := mkTask (Some k) YNone (if p_keep P then tk_deps tk else []) (tk_ctxs tk) (tk_cact tk) (tk_ds tk) (tk_iter tk + 1) (tk_next tk)).
    assert (U : upd_entry s (emit (EvStep t (tk_iter tk) (unwrap (look s) (tk_last tk))) (set_task t tk1 s)) t (mkFut None (KTask tk1))).
    { eapply upd_entry_view; [apply (set_task_upd s t None tk tk1 Hg)|reflexivity|reflexivity|reflexivity]. }
    apply CI_intro; [| | |exact I].
    - exists old, i, r, vs. split; [reflexivity|]. split; [exact Hrt|].
      cbn [tasks emit]. rewrite tasks_set_task. exact Hlv.
    - cbn [R_of fvals].
      apply (SI_upd spec _ (fun x => In x (t :: fvals vs)) s _ t _ _ Hg HS U); [intros x N; apply in_cons_other; exact N| | |intros; discriminate].
      + intros Dom. destruct (SI_entry _ _ _ _ _ HS Hg) as (A & _). destruct U as (_ & _ & _ & D).
        destruct A as (n & -> & Hn). split; [exists n; rewrite D; auto|]. exists ot. split; [exact Hst|].
        split; [intros o' E; discriminate|]. cbn. split; [exact Hp|]. split.
        * intros d Hin. destruct (p_keep P); [apply Hd; exact Hin|destruct Hin].
        * intros _ N. exfalso. apply N. left. reflexivity.
      + intros _. exists tk1. reflexivity.
    - left. split; [apply K2|].
      rewrite (look_agreeS spec _ s (tk_last tk) HS Hcomp), K3. exact Hst.
  Qed.

  (* the body of t finishes with outcome o *)
  Lemma finish_taskS spec t s tk o fr F :
    SI spec (fun x => In x (t :: F)) s -> ~ In t F -> get t s = Some (mkFut None (KTask tk)) ->
    spec t = Some o ->
    let s1 := set_task t (mkTask None (tk_last tk) (tk_deps tk) (tk_ctxs tk) (tk_cact tk) (tk_ds tk) (tk_iter tk) (tk_next tk)) s in
    frames_okS spec (tasks s) MContRet fr -> fvals fr = F ->
    computed t s1 = false /\ CI spec (mkC MContRet fr (complete_task t o s1)).
  Proof.
    intros HS HtF Hg Hs. cbn zeta. intros Hf HF.
    set (tkc := mkTask None (tk_last tk) (tk_deps tk) (tk_ctxs tk) (tk_cact tk) (tk_ds tk) (tk_iter tk) (tk_next tk)).
    pose proof (set_task_upd s t None tk tkc Hg) as U1. pose proof U1 as (G1 & _).
    assert (Hp : forallb plain_ctx (tk_ctxs tk) = true) by (apply (SI_plain _ _ _ _ _ _ HS Hg)).
    assert (HS1 : SI spec (fun x => In x (t :: F)) (set_task t tkc s)).
    { apply (SI_upd_exempt spec _ s _ t tk tkc Hg HS); [left; reflexivity|exact U1|exact Hp|].
      apply (SI_deps _ _ _ _ _ _ HS Hg). }
    split; [unfold computed; rewrite G1; reflexivity|].
    rewrite (complete_task_closed t o _ None tkc G1 eq_refl). cbn [tk_ctxs tk_cact tk_ds tk_iter tk_next tkc].
    set (ent := mkFut (Some o) (KTask (mkTask None YNone [] (tk_ctxs tk) (tk_cact tk) (tk_ds tk) (tk_iter tk) (tk_next tk)))).
    assert (U2 : upd_entry (set_task t tkc s) (emit (EvDone t o) (put t ent (set_task t tkc s))) t ent).
    { eapply upd_entry_view; [apply upd_entry_put|reflexivity|reflexivity|reflexivity]. }
    apply CI_intro; [| |exact I|exact I].
    - cbn [tasks emit put with_heap]. rewrite (tasks_of_regs _ _ (regs_set_task t tkc s)). exact Hf.
    - cbn [R_of]. rewrite HF.
      apply (SI_upd spec _ (fun x => In x F) _ _ t _ ent G1 HS1 U2); [intros x N; apply in_cons_other'; exact N| | |intros; discriminate].
      + intros Dom. destruct (SI_entry _ _ _ _ _ HS1 G1) as (A & _). destruct U2 as (_ & _ & _ & D).
        destruct A as (n & -> & Hn). split; [exists n; rewrite D; auto|]. exists o. split; [exact Hs|].
        split; [intros o2 E; inversion E; reflexivity|]. cbn. split; [exact Hp|]. split; [intros d []|]. intros E; discriminate.
      + intros Hin. exfalso. exact (HtF Hin).
  Qed.

  Lemma s01_MRun spec t p fr s : CI spec (mkC (MRun t p) fr s) -> exists spec', CI spec' (step P (mkC (MRun t p) fr s)).
  Proof.
    intros (Hf & HS & Hm). cbn [c_mode c_frames c_st] in *.
    destruct Hf as (old & i & r & vs & -> & Hrt & Hlv). cbn [R_of fvals] in HS.
    assert (HtR : ~ In t (fvals vs)).
    { intros Hin. pose proof (wt_ok_fvals _ _ _ _ (proj2 Hlv) t Hin). lia. }
    destruct (SI_utask _ _ _ t HS (or_introl eq_refl)) as (tk & Hg).
    assert (Hfr : forall spec' ts, spec_le spec spec' -> ts = tasks s ->
              frames_okS spec' ts MContRet (FCont t old :: FExec i :: FWait r :: vs)).
    { intros spec' ts L ->. exists t, old, i, r, vs. split; [reflexivity|]. split; [exact Hrt|]. apply (lv_ok_le spec); assumption. }
    assert (Hfr' : forall spec' ts q, spec_le spec spec' -> ts = tasks s ->
              frames_okS spec' ts (MRun t q) (FCont t old :: FExec i :: FWait r :: vs)).
    { intros spec' ts q L ->. exists old, i, r, vs. split; [reflexivity|]. split; [exact Hrt|]. apply (lv_ok_le spec); assumption. }
    assert (Lrefl : spec_le spec spec) by (intros x o H; exact H).
    assert (Hp : forallb plain_ctx (tk_ctxs tk) = true) by (apply (SI_plain _ _ _ _ _ _ HS Hg)).
    pose proof (SI_deps _ _ _ _ _ _ HS Hg) as Hdeps.
    cbn [step c_mode c_frames c_st].
    destruct Hm as [(Htree & Hst)|(h & k & oh & -> & Hk & Hsh & Hst & Hth & Hih)].
    2:{ (* the synchronous call proper: value() of the callee is entered below the caller's frames *)
      exists spec. apply CI_intro; [|exact HS|exact Hih|exact I].
      exists oh. split; [exact Hsh|]. destruct Hlv as (Hh & orr & Hr & Hv).
      apply (vs_val spec (tasks s) oh (fnum h) t k old i r orr vs); auto. }
    unfold get_task. rewrite Hg.
    inversion Htree as [v Ev|v Ev|e Ev|y k Hl Hk Ev|c k Hc Hk Ev|c k Hc Hk Ev|q k Hq Hk Ev]; subst p.
    - (* Ret *)
      exists spec. destruct (finish_taskS spec t s tk (Ok v) _ (fvals vs) HS HtR Hg Hst (Hfr spec _ Lrefl eq_refl) eq_refl) as (Hnc & HC).
      cbn zeta in *. rewrite Hnc. exact HC.
    - (* Result *)
      exists spec. destruct (finish_taskS spec t s tk (Ok v) _ (fvals vs) HS HtR Hg Hst (Hfr spec _ Lrefl eq_refl) eq_refl) as (Hnc & HC).
      cbn zeta in *. rewrite Hnc. exact HC.
    - (* Raise *)
      exists spec. destruct (finish_taskS spec t s tk (Err e) _ (fvals vs) HS HtR Hg Hst (Hfr spec _ Lrefl eq_refl) eq_refl) as (Hnc & HC).
      cbn zeta in *. unfold accept_error. rewrite Hnc. exact HC.
    - (* Yield *)
      destruct (SI_inst _ t y spec s HS Hl) as (spec' & (Ext & HS1 & Old & Tn) & U & A & Nw).
      pose proof (ext_spec_le _ _ _ _ HS Ext) as L.
      pose proof (tasks_of_regs _ _ (regs_inst t y s)) as Ets.
      destruct (inst t y s) as [y' s1]. cbn [fst snd] in *.
      assert (Hg1 : get t s1 = Some (mkFut None (KTask tk))) by (rewrite Old; [exact Hg|rewrite Hg; discriminate]).
      rewrite Hg1.
      set (deps := tk_deps tk ++ futs (extract y')).
      set (tk2 := mkTask (Some k) y' deps (tk_ctxs tk) (tk_cact tk) (tk_ds tk) (tk_iter tk) (tk_next tk)).
      pose proof (set_task_upd s1 t None tk tk2 Hg1) as U2.
      assert (Hst' : spec' t = Some (evals (Yield y k))) by (apply L; exact Hst).
      pose proof (SI_fnum_lt _ _ _ _ _ HS Hg) as Htn.
      assert (HS2 : SI spec' (fun x => In x (fvals vs)) (set_task t tk2 s1)).
      { apply (SI_upd spec' _ (fun x => In x (fvals vs)) s1 _ t _ _ Hg1 HS1 U2); [intros x N; apply in_cons_other'; exact N| | |intros; discriminate].
        - intros Dom. destruct (SI_entry _ _ _ _ _ HS1 Hg1) as ((n & -> & Hn) & _). destruct U2 as (_ & _ & _ & D).
          split; [exists n; rewrite D; auto|]. exists (evals (Yield y k)). split; [exact Hst'|]. split; [intros o2 E; discriminate|].
          cbn. split; [exact Hp|]. split.
          + intros d Hin. unfold deps in Hin. apply in_app_or in Hin as [Hin|Hin]; [apply Hdeps; exact Hin|].
            unfold futs in Hin. apply in_flat_map in Hin as ([d'|] & Hin1 & Hin2); [|destruct Hin2].
            destruct Hin2 as [<-|[]]. apply extract_same_elements in Hin1. specialize (Nw d' Hin1). cbn in Htn. lia.
          + intros _ _. exists k. split; [reflexivity|]. split; [exact Hk|].
            split; [cbn; rewrite U; reflexivity|]. split.
            * intros h Hin. apply Dom. apply A. exact Hin.
            * intros h Hin. unfold deps. apply in_or_app. right. apply futs_in. apply extract_same_elements. exact Hin.
        - intros Hin. exfalso. exact (HtR Hin). }
      exists spec'. fold deps. fold tk2. destruct (futs (extract y')) as [|d ds] eqn:Ed.
      + apply CI_intro; [| | |exact I].
        * rewrite tasks_set_task, Ets. exists old, i, r, vs. split; [reflexivity|]. split; [exact Hrt|]. apply (lv_ok_le spec); assumption.
        * exact HS2.
        * exists tk2. destruct U2 as (G2 & _). split; [exact G2|]. intros h Hin. cbn [tk_last tk2] in Hin.
          exfalso. assert (Hin' : In h (futs (extract y'))) by (apply futs_in; apply extract_same_elements; exact Hin).
          rewrite Ed in Hin'. destruct Hin'.
      + apply CI_intro; [| |exact I|exact I].
        * rewrite tasks_set_task, Ets. apply (Hfr spec' _ L eq_refl).
        * exact HS2.
    - (* Enter *)
      exists spec. unfold enter_ctx, get_task. rewrite Hg.
      set (tk1 := tk_with_ctxs tk (tk_ctxs tk ++ [c]) (tk_cact tk)).
      pose proof (set_task_upd s t None tk tk1 Hg) as U1.
      assert (Hp1 : forallb plain_ctx (tk_ctxs tk1) = true) by (cbn; rewrite forallb_app, Hp; cbn; rewrite Hc; reflexivity).
      pose proof (SI_upd_exempt spec _ s _ t tk tk1 Hg HS (or_introl eq_refl) U1 Hp1 Hdeps) as HS1.
      assert (V : forall s2, heap s2 = heap (set_task t tk1 s) -> batches s2 = batches (set_task t tk1 s) ->
                top_next s2 = top_next (set_task t tk1 s) -> tasks s2 = tasks s ->
                CI spec (mkC (MRun t k) (FCont t old :: FExec i :: FWait r :: vs) s2)).
      { intros s2 E1 E2 E3 E4. apply CI_intro; [apply (Hfr' spec _ k Lrefl E4)|apply (SI_view _ _ (set_task t tk1 s)); auto| |exact I].
        left. split; [exact Hk|exact Hst]. }
      destruct c as [cid f|cid|cid var v]; apply V; try reflexivity; cbn; apply tasks_set_task.
    - (* Exit *)
      exists spec. unfold exit_ctx, get_task. rewrite Hg.
      set (tk1 := tk_with_ctxs tk (remove_ctx c (tk_ctxs tk)) (tk_cact tk)).
      pose proof (set_task_upd s t None tk tk1 Hg) as U1.
      assert (Hp1 : forallb plain_ctx (tk_ctxs tk1) = true) by (cbn; apply remove_ctx_plain; exact Hp).
      pose proof (SI_upd_exempt spec _ s _ t tk tk1 Hg HS (or_introl eq_refl) U1 Hp1 Hdeps) as HS1.
      assert (V : forall s2, heap s2 = heap (set_task t tk1 s) -> batches s2 = batches (set_task t tk1 s) ->
                top_next s2 = top_next (set_task t tk1 s) -> tasks s2 = tasks s ->
                CI spec (mkC (MRun t k) (FCont t old :: FExec i :: FWait r :: vs) s2)).
      { intros s2 E1 E2 E3 E4. apply CI_intro; [apply (Hfr' spec _ k Lrefl E4)|apply (SI_view _ _ (set_task t tk1 s)); auto| |exact I].
        left. split; [exact Hk|exact Hst]. }
      destruct (tk_cact tk); [|apply V; try reflexivity; apply tasks_set_task].
      unfold pause_plain. destruct c as [cid f|cid|cid var v]; apply V; try reflexivity; cbn; apply tasks_set_task.
    - (* a synchronous call: the callee task is created *)
      pose proof (SI_create spec _ t (FTask q) s HS (sf_task q Hq)) as HC. cbn zeta in HC.
      pose proof (tasks_of_regs _ _ (regs_create t (FTask q) s)) as Ets.
      destruct (create t (FTask q) s) as [h s1]. cbn [fst snd fexpr_outs] in *.
      destruct HC as (Hfresh & HS1 & Hnew & Hoth & Hh & Hn1 & Hent).
      pose proof (spec_add_le spec _ s h (evals q) HS Hfresh) as L.
      pose proof (SI_fnum_lt _ _ _ _ _ HS Hg) as Htn.
      exists (spec_add spec h (evals q)). apply CI_intro; [apply (Hfr' _ _ _ L Ets)|exact HS1| |exact I].
      right. exists h, k, (evals q). split; [reflexivity|]. split; [exact Hk|].
      split; [unfold spec_add; rewrite fid_eqb_refl; reflexivity|].
      split; [apply L; rewrite Hst; rewrite evals_call; reflexivity|].
      split; [rewrite Hh; cbn; cbn in Htn; lia|].
      exists None, (fresh_task q). apply Hent. reflexivity.
  Qed.

  Lemma s01_MContRet spec fr s : CI spec (mkC MContRet fr s) -> CI spec (step P (mkC MContRet fr s)).
  Proof.
    intros (Hf & HS & _). cbn [c_mode c_frames c_st] in *. destruct Hf as (t & old & i & r & vs & -> & Hrt & Hlv).
    cbn [R_of fvals] in HS. cbn [step c_mode c_frames c_st].
    set (s1 := with_active s old).
    assert (HS1 : SI spec (fun x => In x (fvals vs)) s1) by (apply (SI_view _ _ s); auto).
    assert (Hf1 : forall s2, tasks s2 = tasks s -> frames_okS spec (tasks s2) MExecLoop (FExec i :: FWait r :: vs)).
    { intros s2 E. exists i, r, vs. split; [reflexivity|]. rewrite E. exact Hlv. }
    unfold get_task. destruct (get t s1) as [[out [tk| | |]]|] eqn:Hg;
      try (apply CI_intro; [apply Hf1; reflexivity|exact HS1|exact I|exact I]).
    apply CI_intro; [apply Hf1; rewrite tasks_set_task; reflexivity| |exact I|exact I].
    apply (SI_set_task_same spec _ s1 t out tk (tk_set_ds tk false) Hg HS1); auto.
    - apply (SI_plain _ _ _ _ _ _ HS1 Hg).
    - apply (set_task_upd s1 t out tk _ Hg).
  Qed.

  Lemma s01_MDeliver spec o fr s : CI spec (mkC (MDeliver o) fr s) -> CI spec (step P (mkC (MDeliver o) fr s)).
  Proof.
    intros (Hf & HS & _). cbn [c_mode c_frames c_st] in *. destruct Hf as (b & Hv).
    inversion Hv as [b' Eo Eb Ef|oh b' t k old i r orr vs Hk Ht Hb Hrt Hh Hr Hvs Eo Eb Ef]; subst; cbn [step c_mode c_frames c_st].
    - split; [reflexivity|]. cbn [R_of fvals] in HS. apply (SI_ext spec (fun x => In x [])); [|exact HS].
      intros x. split; intros [].
    - cbn [R_of fvals] in HS. apply CI_intro; [| | |exact I].
      + exists old, i, r, vs. split; [reflexivity|]. split; [exact Hrt|]. split; [exact Hh|]. exists orr. split; assumption.
      + apply (SI_view _ _ s); auto.
      + left. split; [apply Hk|exact Ht].
  Qed.

  Theorem s01_step spec c : is_unwind (c_mode c) = false -> CI spec c -> exists spec', CI spec' (step P c).
  Proof.
    destruct c as [m fr s]. destruct m; cbn [c_mode is_unwind]; intros Hu HI; try discriminate.
    - exists spec. apply s01_MValue; exact HI.
    - exists spec. apply s01_MWaitHead; exact HI.
    - exists spec. apply s01_MAfterExec; exact HI.
    - exists spec. apply s01_MExecLoop; exact HI.
    - exists spec. apply s01_MResume; exact HI.
    - apply (s01_MRun spec); exact HI.
    - exists spec. apply s01_MContRet; exact HI.
    - exists spec. apply s01_MDeliver; exact HI.
    - exists spec. exact HI.
    - exists spec. exact HI.
  Qed.

  Theorem s01_run n : forall spec c, CI spec c -> no_unwind P n c -> exists spec', CI spec' (run P n c).
  Proof.
    induction n as [|n IH]; intros spec c HI Hn; [exists spec; exact HI|].
    rewrite run_S. destruct (is_final (c_mode c)) eqn:Hf; [exists spec; exact HI|].
    destruct (s01_step spec c) as (spec1 & HI1); [apply (Hn O); lia|exact HI|].
    apply (IH spec1); [exact HI1|].
    intros k Hk. specialize (Hn (S k) ltac:(lia)). rewrite run_S, Hf in Hn. exact Hn.
  Qed.
End MainS.

(* ------------------------------------------------------------------ the theorem *)
Lemma SI_empty P : SI (fun _ => None) (fun _ => False) (st0 P).
Proof.
  split; [|split; [|split; [|split]]].
  - intros h f Hg. discriminate.
  - intros k h Hin. cbn in Hin. destruct Hin.
  - cbn. lia.
  - intros h [].
  - reflexivity.
Qed.

(* one top-level computation on a scheduler state left behind by earlier ones: the outcome is the sequential one
   and the state it leaves behind satisfies the invariant again (no task is mid-step) *)
Theorem async_eq_seq_stree_state P spec s p n o :
  pointwise P -> stree p -> SI spec (fun _ => False) s ->
  let h := fst (create [] (FTask p) s) in
  let s1 := snd (create [] (FTask p) s) in
  no_unwind P n (start h s1) -> c_mode (run P n (start h s1)) = MDone o ->
  o = evals p /\ exists spec', SI spec' (fun _ => False) (c_st (run P n (start h s1))).
Proof.
  intros HP Ht HS. cbn zeta. intros Hn Hm.
  pose proof (SI_create spec _ [] (FTask p) s HS (sf_task p Ht)) as HC.
  cbn zeta in HC. destruct (create [] (FTask p) s) as [h s1] eqn:Ec. cbn [fst snd fexpr_outs] in *.
  destruct HC as (_ & HS1 & Hnew & _ & _ & _ & Hent).
  assert (HI : CI (evals p) (spec_add spec h (evals p)) (start h s1)).
  { apply CI_intro; [| |exists None, (fresh_task p); apply Hent; reflexivity|exact I].
    - exists (evals p). split; [unfold spec_add; rewrite fid_eqb_refl; reflexivity|apply vs_top].
    - apply (SI_ext _ (fun _ => False)); [|exact HS1]. intros x. split; intros []. }
  destruct (s01_run P HP (evals p) n _ _ HI Hn) as (spec' & HF). unfold CI in HF. rewrite Hm in HF.
  destruct HF as (HF1 & HF2). split; [exact HF1|]. exists spec'. exact HF2.
Qed.

Theorem async_eq_seq_stree_from P spec s p n o :
  pointwise P -> stree p -> SI spec (fun _ => False) s ->
  let h := fst (create [] (FTask p) s) in
  let s1 := snd (create [] (FTask p) s) in
  no_unwind P n (start h s1) -> c_mode (run P n (start h s1)) = MDone o -> o = evals p.
Proof. intros HP Ht HS h s1 Hn Hm. exact (proj1 (async_eq_seq_stree_state P spec s p n o HP Ht HS Hn Hm)). Qed.

(* C01 for tree programs with synchronous calls: whatever the flush order, priorities, KEEP_DEPENDENCIES
   setting and fuel, if the outermost value() returns (without the runaway guard having fired) it returns
   exactly what sequential, depth-first evaluation of the same program gives - value or exception *)
Theorem async_eq_seq_stree P p n o :
  pointwise P -> stree p ->
  let h := fst (create [] (FTask p) (st0 P)) in
  let s1 := snd (create [] (FTask p) (st0 P)) in
  no_unwind P n (start h s1) -> c_mode (run P n (start h s1)) = MDone o -> o = evals p.
Proof. intros HP Ht. apply (async_eq_seq_stree_from P _ (st0 P) p n o HP Ht (SI_empty P)). Qed.

(* ------------------------------------------------------------------ non-vacuity *)
(* root:    x, y = yield caller.asynq(), item(kind 0)      - a child task awaited together with a batch item
   caller:  return (callee(), 1)                           - synchronous call inside that child task
   callee:  w = const3(); v = yield item(kind 0); return (v, w)      - a call nested in the call, then a yield
   The callee's item joins the batch that already holds the root's item; the wait loop nested below caller's
   frames flushes that batch (EvFlush 0 0 [[2]; [5]] between EvGot [3] and EvGot [1]): it completes an item the
   outer computation is waiting for, which the outer loop had not even scheduled yet. *)
Definition ret_or_raise (f : val -> val) (o : outcome) : prog :=
  match o with Ok v => Ret (f v) | Err e => Raise e end.

Definition c01s_callee : prog :=
  Let (FTask (Ret (VInt 3)))
      (fun h => Sync h (fun o3 =>
         Yield (YLeaf (LNew (FItem 0 2 (ASet (VInt 7)))))
               (fun o => match o3 with Ok w => ret_or_raise (fun v => VTuple [v; w]) o | Err e => Raise e end))).

Definition c01s_caller : prog :=
  Let (FTask c01s_callee) (fun h => Sync h (ret_or_raise (fun v => VTuple [v; VInt 1]))).

Definition c01s_demo : prog :=
  Yield (YTuple [YLeaf (LNew (FTask c01s_caller)); YLeaf (LNew (FItem 0 1 (ASet (VInt 5))))])
        (ret_or_raise (fun v => v)).

Lemma ret_or_raise_stree f o : stree (ret_or_raise f o).
Proof. destruct o; constructor. Qed.

Lemma c01s_demo_stree : stree c01s_demo.
Proof.
  unfold c01s_demo. apply st_yield; [|apply ret_or_raise_stree].
  intros l Hl. cbn in Hl. destruct Hl as [<-|[<-|[]]]; constructor; [|constructor]. constructor.
  unfold c01s_caller. apply st_call; [|apply ret_or_raise_stree].
  unfold c01s_callee. apply st_call; [constructor|]. intros o3. apply st_yield.
  - intros l [<-|[]]. repeat constructor.
  - intros o. destruct o3; [apply ret_or_raise_stree|constructor].
Qed.

Example c01s_demo_runs :
  let P := mkP [] 1000 false [] in
  let h := fst (create [] (FTask c01s_demo) (st0 P)) in
  let s1 := snd (create [] (FTask c01s_demo) (st0 P)) in
  no_unwind_b P 60 (start h s1) = true /\
  c_mode (run P 60 (start h s1)) = MDone (Ok (VTuple [VTuple [VTuple [VInt 7; VInt 3]; VInt 1]; VInt 5])) /\
  evals c01s_demo = Ok (VTuple [VTuple [VTuple [VInt 7; VInt 3]; VInt 1]; VInt 5]) /\
  rev (trace (c_st (run P 60 (start h s1)))) =
    [EvStep [0] 0 (Ok VNone); EvStep [1] 0 (Ok VNone); EvStep [3] 0 (Ok VNone); EvStep [4] 0 (Ok VNone);
     EvDone [4] (Ok (VInt 3)); EvGot [3] (Ok (VInt 3));
     EvBefore 0 0; EvFlush 0 0 [[2]; [5]]; EvItemDone [2] (Ok (VInt 5)); EvItemDone [5] (Ok (VInt 7)); EvAfter 0 0;
     EvStep [3] 1 (Ok (VInt 7)); EvDone [3] (Ok (VTuple [VInt 7; VInt 3]));
     EvGot [1] (Ok (VTuple [VInt 7; VInt 3]));
     EvDone [1] (Ok (VTuple [VTuple [VInt 7; VInt 3]; VInt 1]));
     EvStep [0] 1 (Ok (VTuple [VTuple [VTuple [VInt 7; VInt 3]; VInt 1]; VInt 5]));
     EvDone [0] (Ok (VTuple [VTuple [VTuple [VInt 7; VInt 3]; VInt 1]; VInt 5]))].
Proof. vm_compute. repeat split. Qed.
