(* Proofs about the Tools model (C14). *)
From Asynq Require Import Base Tools.
From Coq Require Import Permutation Sorted.

Local Arguments compress : simpl never.
Local Arguments sift : simpl never.

(* ------------------------------------------------------------------ small facts *)
Lemma bind_val {A} (r : res A) : bind r (fun a => Val a) = r.
Proof. destruct r; reflexivity. Qed.

Lemma collect_total (h : elt -> elt) l : collect (map (fun x => KVal (h x)) l) = Val (map h l).
Proof. induction l; cbn; [reflexivity | rewrite IHl; reflexivity]. Qed.

Lemma collect_ext (g g' : elt -> kout) l :
  (forall x, In x l -> g x = g' x) -> collect (map g l) = collect (map g' l).
Proof.
  induction l; cbn; intros H; [reflexivity|].
  rewrite (H a) by auto. rewrite IHl by auto. reflexivity.
Qed.

Lemma collect_length outs vs : collect outs = Val vs -> length vs = length outs.
Proof.
  revert vs; induction outs as [|o outs IH]; cbn; intros vs H.
  - inversion H; reflexivity.
  - destruct o; [|discriminate]. destruct (collect outs); [|discriminate].
    inversion H; subst; cbn. f_equal. apply IH. reflexivity.
Qed.

(* a function that does not raise on the elements of l, seen as a total key function *)
Definition kf (g : elt -> kout) (x : elt) : elt := match g x with KVal v => v | KRaise _ => ENone end.

Lemma collect_val_total g l ks : collect (map g l) = Val ks ->
  (forall x, In x l -> g x = KVal (kf g x)) /\ ks = map (kf g) l.
Proof.
  revert ks; induction l as [|a l IH]; cbn; intros ks H.
  - inversion H. split; [intros ? []|reflexivity].
  - destruct (g a) eqn:Ea; [|discriminate]. destruct (collect (map g l)) eqn:Ec; [|discriminate].
    inversion H; subst. destruct (IH _ eq_refl) as [I1 I2]. split.
    + intros x [<-|Hx]; [unfold kf; rewrite Ea; reflexivity | auto].
    + unfold kf at 1. rewrite Ea. f_equal. exact I2.
Qed.

(* ------------------------------------------------------------------ amap *)
Lemma amap_run g it : run g (Body (amap it)) = bind (fst (traverse it)) (py_map g).
Proof.
  unfold amap. destruct (fst (traverse it)); cbn; [|reflexivity].
  apply bind_val.
Qed.

Lemma amap_eq_map (h : elt -> elt) it l : fst (traverse it) = Val l ->
  run (fun x => KVal (h x)) (Body (amap it)) = Val (map h l).
Proof. intros H. rewrite amap_run, H. cbn. unfold py_map. apply collect_total. Qed.

(* ------------------------------------------------------------------ afilter / afilterfalse *)
Lemma compress_cons {A} (x : A) s b sel :
  compress (x :: s) (b :: sel) = if b then x :: compress s sel else compress s sel.
Proof. unfold compress; cbn. destruct b; reflexivity. Qed.

Lemma filter_core (want : bool) (sel : elt -> bool) g s :
  (forall v, sel v = Bool.eqb (truthy v) want) ->
  bind (collect (map g s)) (fun rs => Val (compress s (map sel rs))) = py_filter_by want g s.
Proof.
  intros Hsel. induction s as [|a s IH]; cbn; [reflexivity|].
  destruct (g a); [|reflexivity].
  rewrite <- IH. destruct (collect (map g s)); cbn; [|reflexivity].
  rewrite compress_cons, Hsel. reflexivity.
Qed.

Lemma afilter_run g it :
  run g (Body (afilter true it)) = bind (fst (traverse it)) (py_filter_by true g).
Proof.
  unfold afilter; cbn. destruct (fst (traverse it)); cbn; [|reflexivity].
  apply filter_core. intros v; destruct (truthy v); reflexivity.
Qed.

Lemma afilter_none_run g it :
  run g (Body (afilter false it)) = rmap (filter truthy) (fst (traverse it)).
Proof. reflexivity. Qed.

Lemma afilterfalse_run g it :
  run g (Body (afilterfalse it)) = bind (fst (traverse it)) (py_filter_by false g).
Proof.
  unfold afilterfalse; cbn. destruct (fst (traverse it)); cbn; [|reflexivity].
  apply (filter_core false (fun r => negb (truthy r))). intros v; destruct (truthy v); reflexivity.
Qed.

(* for a predicate that does not raise the builtins are List.filter *)
Lemma py_filter_by_total want (p : elt -> elt) l :
  py_filter_by want (fun x => KVal (p x)) l = Val (filter (fun x => Bool.eqb (truthy (p x)) want) l).
Proof. induction l; cbn; [reflexivity|]. rewrite IHl. destruct (Bool.eqb (truthy (p a)) want); reflexivity. Qed.

Lemma afilter_eq (p : elt -> elt) it l : fst (traverse it) = Val l ->
  run (fun x => KVal (p x)) (Body (afilter true it)) = Val (filter (fun x => truthy (p x)) l).
Proof.
  intros H. rewrite afilter_run, H; cbn. rewrite py_filter_by_total.
  f_equal; try (apply filter_ext; intros a; destruct (truthy (p a)); reflexivity).
Qed.

Lemma afilterfalse_eq (p : elt -> elt) it l : fst (traverse it) = Val l ->
  run (fun x => KVal (p x)) (Body (afilterfalse it)) = Val (filter (fun x => negb (truthy (p x))) l).
Proof.
  intros H. rewrite afilterfalse_run, H; cbn. rewrite py_filter_by_total.
  f_equal; try (apply filter_ext; intros a; destruct (truthy (p a)); reflexivity).
Qed.

(* ------------------------------------------------------------------ asift *)
Lemma sift_cons {A} (x : A) v pairs :
  sift ((x, v) :: pairs) = if truthy v then (x :: fst (sift pairs), snd (sift pairs)) else (fst (sift pairs), x :: snd (sift pairs)).
Proof. unfold sift; cbn. destruct (truthy v); reflexivity. Qed.

Lemma sift_core g l :
  bind (collect (map g l)) (fun rs => Val (sift (combine l rs))) = py_partition g l.
Proof.
  induction l as [|a l IH]; cbn; [reflexivity|].
  destruct (g a); [|reflexivity].
  rewrite <- IH. destruct (collect (map g l)); cbn; [|reflexivity].
  rewrite sift_cons. destruct (sift (combine l a0)); reflexivity.
Qed.

Lemma asift_run g it : run g (Body (asift it)) = bind (fst (traverse it)) (py_partition g).
Proof.
  unfold asift. destruct (fst (traverse it)) as [l|e] eqn:E; cbn; [|reflexivity].
  apply sift_core.
Qed.

Lemma py_partition_total (p : elt -> elt) l :
  py_partition (fun x => KVal (p x)) l =
  Val (filter (fun x => truthy (p x)) l, filter (fun x => negb (truthy (p x))) l).
Proof. induction l; cbn; [reflexivity|]. rewrite IHl. destruct (truthy (p a)); reflexivity. Qed.

Lemma asift_partition (p : elt -> elt) it l : fst (traverse it) = Val l ->
  run (fun x => KVal (p x)) (Body (asift it)) =
  Val (filter (fun x => truthy (p x)) l, filter (fun x => negb (truthy (p x))) l).
Proof. intros H. rewrite asift_run, H; cbn. apply py_partition_total. Qed.

(* the body as it stands is right on re-iterables ... *)
Lemma asift_as_written_seq g k l :
  run g (Body (asift_as_written (Seq k l))) = py_partition g l.
Proof. cbn. apply sift_core. Qed.

(* ... and returns ([], []) for every one-shot iterator whose predicate calls succeed *)
Lemma asift_as_written_oneshot g l rs : collect (map g l) = Val rs ->
  run g (Body (asift_as_written (OneShot l))) = Val ([], []).
Proof. intros H; cbn. rewrite H; reflexivity. Qed.

Lemma asift_as_written_refuted :
  exists g it, run g (Body (asift_as_written it)) <> bind (fst (traverse it)) (py_partition g).
Proof.
  exists (fun _ => KVal (EBool false)), (OneShot [EInt 2]). cbn. discriminate.
Qed.

(* ------------------------------------------------------------------ sorting *)
Section SortFacts.
  Context {A K : Type} (kle : K -> K -> bool) (key : A -> K).

  (* sorting commutes with a map that preserves keys: nothing but the keys is looked at *)
  Lemma insert_map {B} (d : B -> A) (key' : B -> K) x l :
    (forall b, key' b = key (d b)) ->
    map d (insert kle key' x l) = insert kle key (d x) (map d l).
  Proof.
    intros H. induction l as [|y l IH]; cbn; [reflexivity|].
    rewrite !H. destruct (kle (key (d x)) (key (d y))); cbn; [reflexivity|]. rewrite IH; reflexivity.
  Qed.

  Lemma isort_map {B} (d : B -> A) (key' : B -> K) l :
    (forall b, key' b = key (d b)) -> map d (isort kle key' l) = isort kle key (map d l).
  Proof. intros H. induction l; cbn; [reflexivity|]. rewrite insert_map by exact H. rewrite IHl; reflexivity. Qed.

  Lemma ssort_by_map {B} (d : B -> A) (key' : B -> K) reverse l :
    (forall b, key' b = key (d b)) -> map d (ssort_by kle key' reverse l) = ssort_by kle key reverse (map d l).
  Proof.
    intros H. unfold ssort_by. destruct reverse.
    - rewrite map_rev, (isort_map d key') by exact H. rewrite map_rev. reflexivity.
    - apply isort_map; exact H.
  Qed.
End SortFacts.

(* asorted's decorate / sort on the key / undecorate is a sort of the values by key *)
Lemma decorate_sort {A K} (kle : K -> K -> bool) (key : A -> K) reverse l :
  map snd (ssort_by kle fst reverse (combine (map key l) l)) = ssort_by kle key reverse l.
Proof.
  assert (E : combine (map key l) l = map (fun x => (key x, x)) l).
  { induction l; cbn; [reflexivity | rewrite IHl; reflexivity]. }
  rewrite E.
  rewrite <- (ssort_by_map kle fst (fun x : A => (key x, x)) key reverse l) by reflexivity.
  rewrite map_map. cbn. apply map_id.
Qed.

(* the insertion sort is a stable sort for every total preorder on the keys *)
Section Stable.
  Context {A K : Type} (kle : K -> K -> bool) (key : A -> K).
  Hypothesis kle_total : forall a b, kle a b = true \/ kle b a = true.
  Hypothesis kle_trans : forall a b c, kle a b = true -> kle b c = true -> kle a c = true.

  Definition le_by (a b : A) : Prop := kle (key a) (key b) = true.
  Definition eqv (k : K) (a : A) : bool := kle (key a) k && kle k (key a).

  Lemma insert_perm x l : Permutation (insert kle key x l) (x :: l).
  Proof.
    induction l as [|y l IH]; cbn; [apply Permutation_refl|].
    destruct (kle (key x) (key y)); [apply Permutation_refl|].
    eapply perm_trans; [apply perm_skip, IH | apply perm_swap].
  Qed.

  Lemma isort_perm l : Permutation (isort kle key l) l.
  Proof.
    induction l; cbn; [constructor|].
    eapply perm_trans; [apply insert_perm | apply perm_skip, IHl].
  Qed.

  Lemma insert_sorted x l : StronglySorted le_by l -> StronglySorted le_by (insert kle key x l).
  Proof.
    induction 1 as [|y l Hs IH Hall]; cbn; [repeat constructor|].
    destruct (kle (key x) (key y)) eqn:E.
    - constructor; [constructor; assumption|].
      constructor; [exact E|]. eapply Forall_impl; [|exact Hall].
      intros z Hz. unfold le_by in *. eapply kle_trans; eassumption.
    - constructor; [exact IH|].
      assert (Hyx : le_by y x). { destruct (kle_total (key x) (key y)) as [H1|H1]; [congruence | exact H1]. }
      eapply Permutation_Forall; [apply Permutation_sym, insert_perm|].
      constructor; assumption.
  Qed.

  Lemma isort_sorted l : StronglySorted le_by (isort kle key l).
  Proof. induction l; cbn; [constructor | apply insert_sorted; assumption]. Qed.

  (* elements whose keys are equivalent keep their order *)
  Lemma filter_insert k x l :
    filter (eqv k) (insert kle key x l) = if eqv k x then x :: filter (eqv k) l else filter (eqv k) l.
  Proof.
    induction l as [|y l IH]; cbn; [reflexivity|].
    destruct (kle (key x) (key y)) eqn:E; cbn; [reflexivity|].
    rewrite IH. destruct (eqv k x) eqn:Ex, (eqv k y) eqn:Ey; try reflexivity.
    exfalso. unfold eqv in *. apply andb_prop in Ex, Ey. destruct Ex as [X1 X2], Ey as [Y1 Y2].
    rewrite (kle_trans _ _ _ X1 Y2) in E. discriminate.
  Qed.

  Lemma filter_isort k l : filter (eqv k) (isort kle key l) = filter (eqv k) l.
  Proof.
    induction l as [|x l IH]; cbn; [reflexivity|].
    rewrite filter_insert, IH. destruct (eqv k x); reflexivity.
  Qed.

  Lemma filter_rev' {B} (f : B -> bool) l : filter f (rev l) = rev (filter f l).
  Proof.
    induction l as [|x l IH]; cbn; [reflexivity|].
    rewrite filter_app, IH; cbn. destruct (f x); cbn; [reflexivity | apply app_nil_r].
  Qed.

  Lemma sorted_snoc (R : A -> A -> Prop) l x :
    StronglySorted R l -> Forall (fun y => R y x) l -> StronglySorted R (l ++ [x]).
  Proof.
    induction 1 as [|y l Hs IH Hall]; intros HF; cbn; [repeat constructor|].
    inversion HF; subst. constructor; [apply IH; assumption|].
    apply Forall_app; split; [assumption | repeat constructor; assumption].
  Qed.

  Lemma sorted_rev (R : A -> A -> Prop) l :
    StronglySorted R l -> StronglySorted (fun a b => R b a) (rev l).
  Proof.
    induction 1 as [|y l Hs IH Hall]; cbn; [constructor|].
    apply sorted_snoc; [exact IH|]. apply Forall_rev. exact Hall.
  Qed.

  Theorem ssort_by_stable reverse l :
    Permutation (ssort_by kle key reverse l) l /\
    StronglySorted (fun a b => if reverse then le_by b a else le_by a b) (ssort_by kle key reverse l) /\
    (forall k, filter (eqv k) (ssort_by kle key reverse l) = filter (eqv k) l).
  Proof.
    unfold ssort_by. destruct reverse; repeat split.
    - eapply perm_trans; [apply Permutation_sym, Permutation_rev|].
      eapply perm_trans; [apply isort_perm | apply Permutation_sym, Permutation_rev].
    - apply (sorted_rev le_by). apply isort_sorted.
    - intros k. rewrite filter_rev', filter_isort, filter_rev', rev_involutive. reflexivity.
    - apply isort_perm.
    - apply isort_sorted.
    - intros k. apply filter_isort.
  Qed.
End Stable.

(* ------------------------------------------------------------------ sorted / asorted *)
Lemma existsb_map {A B} (f : B -> bool) (d : A -> B) l : existsb f (map d l) = existsb (fun x => f (d x)) l.
Proof. induction l; cbn; [reflexivity | rewrite IHl; reflexivity]. Qed.

Lemma combine_map_l {A K} (key : A -> K) l : combine (map key l) l = map (fun x => (key x, x)) l.
Proof. induction l; cbn; [reflexivity | rewrite IHl; reflexivity]. Qed.

(* asorted's lines 95-96 on keys = map key values: sorted(values, key=key, reverse=reverse); the
   values have an abstract type, so they are never compared *)
Lemma asorted_eq_sorted {A} (key : A -> elt) reverse (l : list A) :
  rmap (map snd) (sorted_total fst reverse (combine (map key l) l)) = sorted_total key reverse l.
Proof.
  unfold sorted_total. rewrite combine_length, map_length, Nat.min_id.
  rewrite combine_map_l, existsb_map. cbn [fst].
  destruct ((2 <=? length l)%nat && existsb (fun x => negb (orderable (key x))) l); cbn; [reflexivity|].
  f_equal.
  rewrite <- (ssort_by_map Z.leb (fun p : elt * A => rankz (fst p)) (fun x : A => (key x, x)) (fun x => rankz (key x)) reverse l) by reflexivity.
  rewrite map_map. cbn [snd]. apply map_id.
Qed.

Lemma py_sorted_total (key : elt -> elt) g reverse l :
  (forall x, In x l -> g x = KVal (key x)) -> py_sorted g reverse l = sorted_total key reverse l.
Proof.
  intros H. unfold py_sorted.
  rewrite (collect_ext g (fun x => KVal (key x)) l H), collect_total. cbn [bind].
  apply asorted_eq_sorted.
Qed.

Lemma amap_list l : amap (Seq SList l) = YieldCalls l (fun rs => Val rs).
Proof. reflexivity. Qed.

Lemma asorted_run g it reverse :
  run g (asorted it true reverse) = bind (fst (traverse it)) (py_sorted g reverse).
Proof.
  unfold asorted. destruct (fst (traverse it)) as [values|e]; cbn [negb bind run run_body]; [|reflexivity].
  rewrite amap_list. cbn [run_body]. rewrite bind_val. reflexivity.
Qed.

Lemma asorted_nokey_run g it reverse :
  run g (asorted it false reverse) = bind (fst (traverse it)) (sorted_total (fun x => x) reverse).
Proof.
  unfold asorted. destruct (fst (traverse it)) as [values|e]; cbn [negb bind run run_body]; [|reflexivity].
  unfold asorted_finish. rewrite <- (map_id values) at 1. apply asorted_eq_sorted.
Qed.

(* the order sorted_total sorts by is a total preorder on the ranks *)
Lemma zleb_total a b : Z.leb a b = true \/ Z.leb b a = true.
Proof. destruct (Z.leb a b) eqn:E; [left; reflexivity | right; apply Z.leb_le; apply Z.leb_gt in E; lia]. Qed.
Lemma zleb_trans a b c : Z.leb a b = true -> Z.leb b c = true -> Z.leb a c = true.
Proof. rewrite !Z.leb_le; lia. Qed.

Lemma sorted_impl {A} (R R' : A -> A -> Prop) l :
  (forall a b, R a b -> R' a b) -> StronglySorted R l -> StronglySorted R' l.
Proof.
  intros H. induction 1; constructor; [assumption|].
  eapply Forall_impl; [|eassumption]. intros; apply H; assumption.
Qed.

Theorem sorted_total_spec {A} (key : A -> elt) reverse (l : list A) :
  match sorted_total key reverse l with
  | Exc e => e = E_TYPEERROR /\ (2 <= length l)%nat /\ exists x, In x l /\ orderable (key x) = false
  | Val out =>
    ((length l < 2)%nat \/ forall x, In x l -> orderable (key x) = true) /\
    Permutation out l /\
    StronglySorted (fun a b => if reverse then rankz (key b) <= rankz (key a) else rankz (key a) <= rankz (key b)) out /\
    (forall k, filter (fun a => Z.eqb (rankz (key a)) k) out = filter (fun a => Z.eqb (rankz (key a)) k) l)
  end.
Proof.
  unfold sorted_total.
  destruct ((2 <=? length l)%nat && existsb (fun x => negb (orderable (key x))) l) eqn:E.
  - apply andb_prop in E. destruct E as [E1 E2]. apply Nat.leb_le in E1.
    apply existsb_exists in E2. destruct E2 as [x [Hx Ho]]. repeat split; [exact E1|].
    exists x. split; [exact Hx|]. destruct (orderable (key x)); [discriminate | reflexivity].
  - destruct (ssort_by_stable Z.leb (fun x => rankz (key x)) zleb_total zleb_trans reverse l) as [P [S F]].
    repeat split.
    + apply andb_false_iff in E. destruct E as [E|E]; [left; apply Nat.leb_gt in E; lia|right].
      intros x Hx. destruct (orderable (key x)) eqn:Ho; [reflexivity|].
      assert (existsb (fun x => negb (orderable (key x))) l = true) by (apply existsb_exists; exists x; rewrite Ho; auto).
      congruence.
    + exact P.
    + eapply sorted_impl; [|exact S]. intros a b. unfold le_by. destruct reverse; intros H; apply Z.leb_le in H; exact H.
    + intros k. specialize (F k). erewrite (filter_ext _ (eqv Z.leb (fun x => rankz (key x)) k)); [rewrite F|];
        [apply filter_ext|]; intros a; unfold eqv; destruct (Z.eqb_spec (rankz (key a)) k);
        destruct (Z.leb_spec (rankz (key a)) k), (Z.leb_spec k (rankz (key a))); cbn; try reflexivity; lia.
Qed.

(* ------------------------------------------------------------------ max / min *)
Definition step_best {A} (is_max : bool) (key : A -> elt) (best y : A) : A :=
  if better is_max (rankz (key y)) (rankz (key best)) then y else best.

Lemma extreme_total_unfold {A} is_max (key : A -> elt) x y r :
  extreme_total is_max key (x :: y :: r) =
  if existsb (fun z => negb (orderable (key z))) (x :: y :: r) then Exc E_TYPEERROR
  else Val (fold_left (step_best is_max key) (y :: r) x).
Proof. reflexivity. Qed.

(* first extreme wins: everything before the result is strictly worse, nothing after it is better *)
Section First.
  Context {A : Type} (is_max : bool) (key : A -> elt).
  Definition worse (b y : A) : Prop := better is_max (rankz (key b)) (rankz (key y)) = true.     (* b beats y *)
  Definition notbetter (b y : A) : Prop := better is_max (rankz (key y)) (rankz (key b)) = false. (* y does not beat b *)

  Lemma fold_split r : forall pre b mid,
    Forall (worse b) pre -> Forall (notbetter b) mid ->
    exists pre' mid', pre ++ b :: mid ++ r = pre' ++ fold_left (step_best is_max key) r b :: mid' /\
                      Forall (worse (fold_left (step_best is_max key) r b)) pre' /\
                      Forall (notbetter (fold_left (step_best is_max key) r b)) mid'.
  Proof.
    induction r as [|y r IH]; intros pre b mid Hp Hm; cbn [fold_left].
    - exists pre, mid. rewrite app_nil_r. auto.
    - unfold step_best at 2 4 6. destruct (better is_max (rankz (key y)) (rankz (key b))) eqn:E.
      + destruct (IH (pre ++ b :: mid) y []) as [pre' [mid' [H1 [H2 H3]]]].
        * apply Forall_app; split; [|constructor].
          -- eapply Forall_impl; [|exact Hp]. intros z Hz. unfold worse, better in *.
             destruct is_max; rewrite Z.ltb_lt in *; lia.
          -- exact E.
          -- eapply Forall_impl; [|exact Hm]. intros z Hz. unfold worse, notbetter, better in *.
             destruct is_max; rewrite Z.ltb_lt in *; rewrite Z.ltb_ge in *; lia.
        * constructor.
        * exists pre', mid'. split; [|auto]. rewrite <- H1. cbn. rewrite <- !app_assoc. cbn. reflexivity.
      + destruct (IH pre b (mid ++ [y])) as [pre' [mid' [H1 [H2 H3]]]].
        * exact Hp.
        * apply Forall_app; split; [exact Hm | repeat constructor; exact E].
        * exists pre', mid'. split; [|auto]. rewrite <- H1. rewrite <- !app_assoc. reflexivity.
  Qed.

  Theorem extreme_total_first l x : extreme_total is_max key l = Val x ->
    ((length l < 2)%nat \/ forall y, In y l -> orderable (key y) = true) /\
    exists pre post, l = pre ++ x :: post /\ Forall (worse x) pre /\ Forall (notbetter x) post.
  Proof.
    destruct l as [|a [|b r]]; intros H.
    - discriminate.
    - inversion H; subst. split; [left; cbn; lia|]. exists [], []. repeat split; constructor.
    - rewrite extreme_total_unfold in H.
      destruct (existsb (fun z => negb (orderable (key z))) (a :: b :: r)) eqn:E; [discriminate|].
      inversion H; subst. split.
      + right. intros y Hy. destruct (orderable (key y)) eqn:Ho; [reflexivity|].
        assert (existsb (fun z => negb (orderable (key z))) (a :: b :: r) = true)
          by (apply existsb_exists; exists y; rewrite Ho; auto). congruence.
      + destruct (fold_split (b :: r) [] a []) as [pre' [mid' [H1 [H2 H3]]]]; [constructor|constructor|].
        exists pre', mid'. cbn in H1. auto.
  Qed.
End First.

(* max/min look at keys only: they commute with a map that preserves the keys of the listed items *)
Lemma fold_best_map {A B} is_max (key : A -> elt) (key' : B -> elt) (d : B -> A) r : forall x,
  (forall b, In b (x :: r) -> key' b = key (d b)) ->
  d (fold_left (step_best is_max key') r x) = fold_left (step_best is_max key) (map d r) (d x).
Proof.
  induction r as [|y r IH]; intros x H; [reflexivity|]. cbn [fold_left map].
  assert (Ex : key' x = key (d x)) by (apply H; cbn; auto).
  assert (Ey : key' y = key (d y)) by (apply H; cbn; auto).
  assert (Es : d (step_best is_max key' x y) = step_best is_max key (d x) (d y)).
  { unfold step_best. rewrite Ex, Ey. destruct (better _ _ _); reflexivity. }
  rewrite <- Es. apply IH. intros b [<-|Hb].
  - unfold step_best. destruct (better _ _ _); [exact Ey | exact Ex].
  - apply H. cbn; auto.
Qed.

Lemma existsb_ext_in {A} (f f' : A -> bool) l : (forall x, In x l -> f x = f' x) -> existsb f l = existsb f' l.
Proof. induction l; cbn; intros H; [reflexivity|]. rewrite (H a), IHl by auto. reflexivity. Qed.

Lemma extreme_total_map {A B} is_max (key : A -> elt) (key' : B -> elt) (d : B -> A) l :
  (forall b, In b l -> key' b = key (d b)) ->
  rmap d (extreme_total is_max key' l) = extreme_total is_max key (map d l).
Proof.
  intros H. destruct l as [|a [|b r]]; [reflexivity|reflexivity|].
  cbn [map]. rewrite !extreme_total_unfold. rewrite <- !map_cons, existsb_map.
  rewrite (existsb_ext_in (fun z => negb (orderable (key' z))) (fun x => negb (orderable (key (d x))))).
  2:{ intros x Hx. rewrite H by exact Hx. reflexivity. }
  destruct (existsb _ _); [reflexivity|]. cbn [rmap bind]. f_equal.
  apply (fold_best_map is_max key key' d (b :: r) a). exact H.
Qed.

Lemma map_snd_enumerate {A} (l : list A) : map snd (enumerate l) = l.
Proof.
  unfold enumerate. generalize 0%nat. induction l; intros n; cbn; [reflexivity|]. rewrite IHl. reflexivity.
Qed.

Lemma enumerate_nth {A} (l : list A) (ks : list elt) (key : A -> elt) : ks = map key l ->
  forall p, In p (enumerate l) -> nth (fst p) ks ENone = key (snd p).
Proof.
  intros -> p Hp. unfold enumerate in Hp.
  assert (G : forall (l : list A) n p, In p (combine (seq n (length l)) l) ->
              (n <= fst p)%nat /\ nth (fst p - n) (map key l) ENone = key (snd p)).
  { clear. induction l as [|a l IH]; intros n p Hp; cbn in Hp; [destruct Hp|].
    destruct Hp as [<-|Hp]; cbn [fst snd].
    - rewrite Nat.sub_diag. split; [lia | reflexivity].
    - destruct (IH _ _ Hp) as [H1 H2]. split; [lia|].
      replace (fst p - n)%nat with (S (fst p - S n)) by lia. exact H2. }
  destruct (G l 0%nat p Hp) as [_ H]. rewrite Nat.sub_0_r in H. exact H.
Qed.

(* amax/amin lines 121-122 on keys = map key l: max(l, key=key) / min(l, key=key) *)
Lemma amax_first {A} is_max (key : A -> elt) (l : list A) :
  rmap snd (extreme_total is_max (fun p => nth (fst p) (map key l) ENone) (enumerate l)) = extreme_total is_max key l.
Proof.
  rewrite (extreme_total_map is_max key (fun p => nth (fst p) (map key l) ENone) snd (enumerate l)).
  - rewrite map_snd_enumerate. reflexivity.
  - apply enumerate_nth. reflexivity.
Qed.

(* CPython's loop (key, then one comparison) against the all-keys-first form *)
Lemma extreme_loop_total is_max g (key : elt -> elt) r : forall best,
  (forall y, In y r -> g y = KVal (key y)) -> orderable (key best) = true ->
  extreme_loop is_max g best (key best) r =
  if existsb (fun z => negb (orderable (key z))) r then Exc E_TYPEERROR
  else Val (fold_left (step_best is_max key) r best).
Proof.
  induction r as [|y r IH]; intros best H Ho; [reflexivity|].
  cbn [extreme_loop existsb fold_left]. rewrite (H y) by (cbn; auto). rewrite Ho, andb_true_r.
  destruct (orderable (key y)) eqn:Ey; cbn [negb orb]; [|reflexivity].
  unfold step_best at 2. destruct (better is_max (rankz (key y)) (rankz (key best))).
  - apply IH; [intros; apply H; cbn; auto | exact Ey].
  - apply IH; [intros; apply H; cbn; auto | exact Ho].
Qed.

Lemma py_extreme_total is_max g (key : elt -> elt) l :
  (forall y, In y l -> g y = KVal (key y)) -> py_extreme is_max g l = extreme_total is_max key l.
Proof.
  intros H. destruct l as [|a [|b r]]; [reflexivity| |].
  - cbn. rewrite (H a) by (cbn; auto). reflexivity.
  - rewrite extreme_total_unfold. cbn [py_extreme]. rewrite (H a) by (cbn; auto).
    destruct (orderable (key a)) eqn:Ea.
    + rewrite extreme_loop_total; [|intros; apply H; cbn; auto|exact Ea].
      cbn [existsb]. rewrite Ea. reflexivity.
    + cbn [extreme_loop existsb]. rewrite (H b) by (cbn; auto). rewrite Ea, andb_false_r. reflexivity.
Qed.

(* a key that raises surfaces from the builtin too, provided the keys that do come back can be ordered *)
Lemma extreme_loop_raises is_max g r e : forall best bestk,
  collect (map g r) = Exc e -> (forall y v, In y r -> g y = KVal v -> orderable v = true) -> orderable bestk = true ->
  extreme_loop is_max g best bestk r = Exc e.
Proof.
  induction r as [|y r IH]; intros best bestk Hc Ho Hb; [discriminate|].
  cbn in Hc |- *. destruct (g y) as [v|e'] eqn:Ey; [|congruence].
  destruct (collect (map g r)) eqn:Ec; [discriminate|]. inversion Hc; subst.
  rewrite (Ho y v) by (cbn; auto). rewrite Hb. cbn [andb].
  destruct (better _ _ _); apply IH; auto; try (intros; eapply Ho; cbn; eauto).
Qed.

Lemma py_extreme_raises is_max g l e :
  collect (map g l) = Exc e -> (forall y v, In y l -> g y = KVal v -> orderable v = true) ->
  py_extreme is_max g l = Exc e.
Proof.
  destruct l as [|a r]; intros Hc Ho; [discriminate|].
  cbn in Hc |- *. destruct (g a) as [v|e'] eqn:Ea; [|congruence].
  destruct (collect (map g r)) eqn:Ec; [discriminate|]. inversion Hc; subst.
  apply extreme_loop_raises; auto.
  - intros; eapply Ho; cbn; eauto.
  - eapply Ho; cbn; eauto.
Qed.

(* the input is not doubly faulty: no key raises, or every key that comes back can be ordered *)
Definition no_double_fault (g : elt -> kout) (l : list elt) : Prop :=
  (forall x, In x l -> exists v, g x = KVal v) \/ (forall x v, In x l -> g x = KVal v -> orderable v = true).

Lemma collect_no_raise (g : elt -> kout) (l : list elt) :
  (forall x, In x l -> exists v, g x = KVal v) -> exists ks, collect (map g l) = Val ks.
Proof.
  induction l as [|a l IH]; intros H; cbn; [eauto|].
  destruct (H a) as [v Hv]; [cbn; auto|]. rewrite Hv.
  destruct IH as [ks Hk]; [intros; apply H; cbn; auto|]. rewrite Hk. eauto.
Qed.

Lemma aextreme_core is_max g l : no_double_fault g l ->
  bind (collect (map g l)) (fun keys => rmap snd (extreme_total is_max (fun p => nth (fst p) keys ENone) (enumerate l)))
  = py_extreme is_max g l.
Proof.
  intros H. destruct (collect (map g l)) as [ks|e] eqn:Ec; cbn [bind].
  - destruct (collect_val_total g l ks Ec) as [Ht ->].
    rewrite amax_first. symmetry. apply py_extreme_total. exact Ht.
  - destruct H as [H|H].
    + destruct (collect_no_raise g l H) as [ks Hk]. congruence.
    + symmetry. apply py_extreme_raises; assumption.
Qed.

Lemma aextreme_run is_max form has_key extra_kw g :
  (has_key = true -> extra_kw = false -> forall l, form_items form = Val l -> no_double_fault g l) ->
  run g (aextreme is_max form has_key extra_kw) = extreme_spec is_max form has_key extra_kw g.
Proof.
  intros H. unfold aextreme, extreme_spec. destruct extra_kw; [reflexivity|].
  destruct has_key.
  2:{ destruct form as [[k l|l|]|[|a [|b r]]]; reflexivity. }
  specialize (H eq_refl eq_refl).
  assert (Core : forall k l, form_items form = Val l ->
            run g (YieldTask (amap (Seq k l)) (fun keys => bind (fst (traverse (Seq k l))) (fun l0 =>
                   rmap snd (extreme_total is_max (fun p => nth (fst p) keys ENone) (enumerate l0)))))
            = py_extreme is_max g l).
  { intros k l Hf. cbn. rewrite bind_val. apply aextreme_core. apply H. exact Hf. }
  destruct form as [it|es].
  - (* one positional argument *)
    destruct it as [k l|l|]; cbn [form_items traverse fst is_list_or_tuple negb].
    + destruct k; cbn [rmap bind traverse fst]; apply Core; reflexivity.
    + cbn [rmap bind]. apply (Core SList l); reflexivity.
    + reflexivity.
  - destruct es as [|a [|b r]]; [reflexivity|reflexivity|].
    cbn [form_items negb is_list_or_tuple bind]. apply (Core STuple (a :: b :: r)); reflexivity.
Qed.

(* ------------------------------------------------------------------ aretry *)
Lemma aretry_loop_spec listed mt rem : forall i script,
  (i + rem = mt)%nat -> (0 < rem)%nat ->
  let o := aretry_loop listed mt i rem script in
  let k := listed_prefix listed script in
  r_runs o = Nat.min (k + 1) rem /\
  r_result o = attempt_result (nth (Nat.min k (rem - 1)) script (ARet ENone)) /\
  r_sleeps o = (r_runs o - 1)%nat.
Proof.
  induction rem as [|rem IH]; intros i script Hi Hr; [lia|].
  destruct script as [|[v|cls e] rest]; cbn [aretry_loop listed_prefix].
  - cbn. repeat split; lia.
  - cbn. repeat split; lia.
  - destruct (is_listed listed cls) eqn:El.
    + destruct (Nat.eqb (i + 1) mt) eqn:Em.
      * apply Nat.eqb_eq in Em. assert (rem = 0)%nat by lia. subst rem. cbn. repeat split; lia.
      * apply Nat.eqb_neq in Em. assert (0 < rem)%nat by lia.
        destruct (IH (S i) rest) as [H1 [H2 H3]]; [lia|lia|].
        cbn [r_runs r_result r_sleeps]. rewrite H1, H2, H3. repeat split; try lia.
        replace (Nat.min (S (listed_prefix listed rest)) (S rem - 1)) with (S (Nat.min (listed_prefix listed rest) (rem - 1))) by lia.
        reflexivity.
    + cbn. repeat split; lia.
Qed.

Lemma listed_prefix_app listed pre a rest :
  Forall (fun x => match x with ARaise cls _ => is_listed listed cls = true | ARet _ => False end) pre ->
  match a with ARaise cls _ => is_listed listed cls = false | ARet _ => True end ->
  listed_prefix listed (pre ++ a :: rest) = length pre.
Proof.
  induction 1 as [|x pre Hx Hp IH]; intros Ha; cbn.
  - destruct a; [reflexivity|]. rewrite Ha. reflexivity.
  - destruct x; [destruct Hx|]. rewrite Hx, IH by exact Ha. reflexivity.
Qed.

(* the statement's form: the first k attempts raise a listed exception, attempt k+1 returns or raises
   something else: min(k+1, max_tries) runs; when k < max_tries the (k+1)-th outcome is the result
   (an unlisted exception is re-raised at once), otherwise the max_tries-th listed exception *)
Theorem aretry_runs listed (max_tries : Z) pre a rest :
  0 < max_tries ->
  Forall (fun x => match x with ARaise cls _ => is_listed listed cls = true | ARet _ => False end) pre ->
  match a with ARaise cls _ => is_listed listed cls = false | ARet _ => True end ->
  let o := aretry listed max_tries (pre ++ a :: rest) in
  let k := length pre in
  r_runs o = Nat.min (k + 1) (Z.to_nat max_tries) /\
  r_result o = (if (k <? Z.to_nat max_tries)%nat then attempt_result a
                else attempt_result (nth (Z.to_nat max_tries - 1) pre (ARet ENone))) /\
  r_sleeps o = (r_runs o - 1)%nat.
Proof.
  intros Hm Hp Ha. unfold aretry. destruct (Z.leb_spec max_tries 0); [lia|].
  set (mt := Z.to_nat max_tries). assert (0 < mt)%nat by (unfold mt; lia).
  destruct (aretry_loop_spec listed mt mt 0%nat (pre ++ a :: rest)) as [H1 [H2 H3]]; [lia|lia|].
  rewrite (listed_prefix_app listed pre a rest Hp Ha) in H1, H2.
  cbv zeta. rewrite H3, H1, H2. split; [reflexivity|]. split; [|reflexivity].
  destruct (Nat.ltb_spec (length pre) mt).
  - replace (Nat.min (length pre) (mt - 1)) with (length pre) by lia.
    rewrite app_nth2 by lia. rewrite Nat.sub_diag. reflexivity.
  - replace (Nat.min (length pre) (mt - 1)) with (mt - 1)%nat by lia.
    rewrite app_nth1 by lia. reflexivity.
Qed.

(* every script: the closed form used as the reference side of the correspondence *)
Theorem aretry_eq_spec listed (max_tries : Z) script : 0 < max_tries ->
  let o := aretry listed max_tries script in
  (r_result o, r_runs o) = aretry_spec listed (Z.to_nat max_tries) script.
Proof.
  intros Hm. unfold aretry. destruct (Z.leb_spec max_tries 0); [lia|].
  destruct (aretry_loop_spec listed (Z.to_nat max_tries) (Z.to_nat max_tries) 0%nat script) as [H1 [H2 _]]; [lia|lia|].
  cbv zeta. unfold aretry_spec. rewrite H1, H2. reflexivity.
Qed.

Lemma aretry_bad_max_tries listed max_tries script : max_tries <= 0 ->
  aretry listed max_tries script = mkro (Exc E_ASSERTION) 0 0.
Proof. intros H. unfold aretry. destruct (Z.leb_spec max_tries 0); [reflexivity | lia]. Qed.

(* ------------------------------------------------------------------ one round *)
Definition call_yielded (c : call) : list (list elt) :=
  match c with
  | CAmap it => yielded (Body (amap it))
  | CAfilter b it => yielded (Body (afilter b it))
  | CAfilterfalse it => yielded (Body (afilterfalse it))
  | CAsorted it k r => yielded (asorted it k r)
  | CAmax form k x => yielded (amax form k x)
  | CAmin form k x => yielded (amin form k x)
  | CAsift it => yielded (Body (asift it))
  end.

(* the elements of the input, and whether the invocation applies the function to them *)
Definition call_items (c : call) : res (list elt) :=
  match c with
  | CAmap it | CAfilter _ it | CAfilterfalse it | CAsorted it _ _ | CAsift it => fst (traverse it)
  | CAmax form _ _ | CAmin form _ _ => form_items form
  end.
Definition call_uses_fn (c : call) : bool :=
  match c with
  | CAmap _ | CAfilterfalse _ | CAsift _ => true
  | CAfilter b _ => b
  | CAsorted _ k _ => k
  | CAmax _ k x | CAmin _ k x => k && negb x
  end.

Lemma aextreme_yielded is_max form k x :
  yielded (aextreme is_max form k x) =
  match form_items form with Val l => if k && negb x then [l] else [] | Exc _ => [] end.
Proof.
  unfold aextreme. destruct x; [destruct (form_items form), k; reflexivity|]. rewrite andb_true_r.
  destruct form as [[kd l|l|]|[|a [|b r]]]; destruct k; try reflexivity.
  destruct kd; reflexivity.
Qed.

(* all per-element calls of one invocation sit in ONE yielded list (one call per element of the
   input, in input order); an invocation that applies no function, or fails before, yields nothing *)
Theorem one_round c :
  call_yielded c = match call_items c with
                   | Val l => if call_uses_fn c then [l] else []
                   | Exc _ => []
                   end.
Proof.
  destruct c as [it|b it|it|it k r|form k x|form k x|it]; cbn [call_yielded call_items call_uses_fn].
  - unfold amap. destruct (fst (traverse it)); reflexivity.
  - unfold afilter. destruct b; cbn [negb]; destruct (fst (traverse it)); reflexivity.
  - unfold afilterfalse. destruct (fst (traverse it)); reflexivity.
  - unfold asorted. destruct (fst (traverse it)); [|reflexivity]. destruct k; reflexivity.
  - apply aextreme_yielded.
  - apply aextreme_yielded.
  - unfold asift. destruct (fst (traverse it)); reflexivity.
Qed.

Lemma call_flushes_yielded c f : call_flushes c f = length (filter (existsb (blocks f)) (call_yielded c)).
Proof. destruct c; reflexivity. Qed.

(* hence at most one flush, and exactly one as soon as one call blocks *)
Theorem one_flush c f :
  call_flushes c f = match call_items c with
                     | Val l => if call_uses_fn c && existsb (blocks f) l then 1%nat else 0%nat
                     | Exc _ => 0%nat
                     end.
Proof.
  rewrite call_flushes_yielded, one_round. destruct (call_items c); [|reflexivity].
  destruct (call_uses_fn c); [|reflexivity]. cbn. destruct (existsb (blocks f) a); reflexivity.
Qed.

(* ------------------------------------------------------------------ helper = builtin, all calls *)
Definition call_ok (c : call) (f : afun) : Prop :=
  match c with
  | CAmax form true false | CAmin form true false => forall l, form_items form = Val l -> no_double_fault (sync f) l
  | _ => True
  end.

Theorem helpers_equal_builtins c f : call_ok c f -> call_result c f = call_spec c f.
Proof.
  destruct c as [it|b it|it|it k r|form k x|form k x|it]; cbn [call_result call_spec call_ok]; intros H.
  - rewrite amap_run. reflexivity.
  - destruct b; [rewrite afilter_run | rewrite afilter_none_run]; reflexivity.
  - rewrite afilterfalse_run. reflexivity.
  - destruct k; [rewrite asorted_run | rewrite asorted_nokey_run]; reflexivity.
  - unfold amax. rewrite aextreme_run; [reflexivity|]. intros -> ->. exact H.
  - unfold amin. rewrite aextreme_run; [reflexivity|]. intros -> ->. exact H.
  - rewrite asift_run. reflexivity.
Qed.

(* hypotheses are satisfiable / the definitions compute what they should *)
Example ex_sorted_stable :
  run (fun x => KVal (match x with EObj 0 | EObj 2 => EInt 1 | _ => EInt 0 end))
      (asorted (OneShot [EObj 0; EObj 1; EObj 2; EObj 3]) true true)
  = Val [EObj 0; EObj 2; EObj 1; EObj 3].
Proof. reflexivity. Qed.

Example ex_amax_first :
  run (fun x => KVal (match x with EObj 0 | EObj 2 => EInt 1 | _ => EInt 0 end))
      (amax (Varargs [EObj 1; EObj 0; EObj 2; EObj 3]) true false) = Val (EObj 0)
  /\ call_ok (CAmax (Varargs [EObj 1; EObj 0]) true false) (fun _ => (true, KVal (EInt 0))).
Proof. split; [reflexivity|]. intros l _. left. intros x _. eexists. reflexivity. Qed.

Example ex_aretry :
  let o := aretry [0] 3 ([ARaise 1 201; ARaise 0 202] ++ ARaise 2 203 :: [ARet ENone]) in
  r_runs o = 3%nat /\ r_result o = Exc 203.
Proof. split; reflexivity. Qed.
