(* C07 for programs that actually READ scoped values (ReadVar = AsyncScopedValue.get()).

   Non-branching reads.  [rtree0] = tree programs plus reads whose continuation does not depend on the value
   read; [wnr] = wn plus reads; [erase] removes the reads.  Route:
     - [erase] maps rtree0 to tree and wnr to wn (tree_erase, wn_erase);
     - the class invariant: every program the machine holds during a run of an rtree0 program is rtree0 (rh_run);
     - the state erasure [est]/[ecfg] (generators erased entry-wise, EvRead events filtered out of the trace)
       commutes with every state-transforming helper of Machine.v and with [step] except at a read, where the
       erased configuration does not move (step_est, step_read_est); hence the erased run of p is a run of
       [erase p] with at most as many steps, prefix by prefix (run_est, sim_run; no_unwind carries over);
     - Section Transport: the C07 tree theorems and the C01 value theorem for rtree0 programs, and the value an
       actual read returns (actual_read_value_rtree0). *)
From Asynq Require Import Machine Seq proofs.ProgProofs proofs.MachineFrame proofs.MachineC05 proofs.MachineC08 proofs.MachineC01
  proofs.MachineDFS proofs.MachineC04 proofs.MachineC04B proofs.MachineC01S proofs.MachineDFSS proofs.MachineC04S
  proofs.MachineC05T proofs.MachineC03T proofs.MachineSteps proofs.MachineKeep proofs.MachineC07.

(* ------------------------------------------------------------------ the program class *)
Inductive rtree0 : prog -> Prop :=
| rtree0_ret v : rtree0 (Ret v)
| rtree0_result v : rtree0 (Result v)
| rtree0_raise e : rtree0 (Raise e)
| rtree0_yield s k : (forall l, In l (leaves s) -> rtree0_leaf l) -> (forall o, rtree0 (k o)) -> rtree0 (Yield s k)
| rtree0_enter c k : plain_ctx c = true -> rtree0 k -> rtree0 (Enter c k)
| rtree0_exit c k : plain_ctx c = true -> rtree0 k -> rtree0 (Exit c k)
| rtree0_read var k : (forall v, rtree0 (k v)) -> (forall v v', k v = k v') -> rtree0 (ReadVar var k)
with rtree0_leaf : leaf -> Prop :=
| rl0_new f : rtree0_fexpr f -> rtree0_leaf (LNew f)
| rl0_bad : rtree0_leaf LBad
with rtree0_fexpr : fexpr -> Prop :=
| rf0_task p : rtree0 p -> rtree0_fexpr (FTask p)
| rf0_item kind key a : rtree0_fexpr (FItem kind key a)
| rf0_const v : rtree0_fexpr (FConst v)
| rf0_error e : rtree0_fexpr (FError e)
| rf0_lazy o : rtree0_fexpr (FLazy o).

Scheme rtree0_mut := Minimality for rtree0 Sort Prop
with rtree0_leaf_mut := Minimality for rtree0_leaf Sort Prop
with rtree0_fexpr_mut := Minimality for rtree0_fexpr Sort Prop.

(* well nested with-blocks, reads allowed *)
Inductive wnr : list ctxk -> prog -> Prop :=
| wnr_ret v : wnr [] (Ret v)
| wnr_result v : wnr [] (Result v)
| wnr_raise e : wnr [] (Raise e)
| wnr_yield op s k : (forall p, In (LNew (FTask p)) (leaves s) -> wnr [] p) -> (forall o, wnr op (k o)) -> wnr op (Yield s k)
| wnr_enter op c k : ~ In (cid_of c) (map cid_of op) -> wnr (op ++ [c]) k -> wnr op (Enter c k)
| wnr_exit op c k : wnr op k -> wnr (op ++ [c]) (Exit c k)
| wnr_read op var k : (forall v, wnr op (k v)) -> wnr op (ReadVar var k).

(* ------------------------------------------------------------------ erasure of the reads *)
Section YMap.
  Context {A B : Type} (f : A -> B).
  Fixpoint ymap (s : ystruct A) : ystruct B :=
    let fix go (l : list (ystruct A)) : list (ystruct B) :=
        match l with [] => [] | x :: l' => ymap x :: go l' end in
    let fix god (l : list (Z * ystruct A)) : list (Z * ystruct B) :=
        match l with [] => [] | (k, x) :: l' => (k, ymap x) :: god l' end in
    match s with
    | YNone => YNone
    | YLeaf a => YLeaf (f a)
    | YTuple l => YTuple (go l)
    | YList l => YList (go l)
    | YDict l => YDict (god l)
    end.

  Lemma ymap_tuple l : ymap (YTuple l) = YTuple (map ymap l).
  Proof. reflexivity. Qed.
  Lemma ymap_ylist l : ymap (YList l) = YList (map ymap l).
  Proof. reflexivity. Qed.
  Lemma ymap_ydict l : ymap (YDict l) = YDict (map (fun kv => (fst kv, ymap (snd kv))) l).
  Proof. simpl. f_equal. induction l as [|[k x] l IH]; [reflexivity|]. simpl. f_equal. exact IH. Qed.

  Lemma leaves_ymap s : leaves (ymap s) = map f (leaves s).
  Proof.
    induction s as [| a | l IH | l IH | l IH] using ystruct_ind2.
    - reflexivity.
    - reflexivity.
    - rewrite ymap_tuple, !leaves_tuple. induction IH as [|x l Hx Hl IHl]; [reflexivity|].
      cbn [map flat_map]. rewrite map_app, Hx, IHl. reflexivity.
    - rewrite ymap_ylist, !leaves_ylist. induction IH as [|x l Hx Hl IHl]; [reflexivity|].
      cbn [map flat_map]. rewrite map_app, Hx, IHl. reflexivity.
    - rewrite ymap_ydict, !leaves_ydict. induction IH as [|[k x] l Hx Hl IHl]; [reflexivity|].
      cbn [map flat_map fst snd] in *. rewrite map_app, Hx, IHl. reflexivity.
  Qed.
End YMap.

Fixpoint erase (p : prog) : prog :=
  match p with
  | Ret v => Ret v
  | Result v => Result v
  | Raise e => Raise e
  | Yield s k => Yield (ymap erase_leaf s) (fun o => erase (k o))
  | Let f k => Let (erase_fexpr f) (fun h => erase (k h))
  | Sync h k => Sync h (fun o => erase (k o))
  | Enter c k => Enter c (erase k)
  | Exit c k => Exit c (erase k)
  | ReadVar var k => erase (k (VInt 0))
  | Probe k => Probe (fun a => erase (k a))
  end
with erase_fexpr (f : fexpr) : fexpr :=
  match f with
  | FTask p => FTask (erase p)
  | FItem kind key a => FItem kind key a
  | FConst v => FConst v
  | FError e => FError e
  | FLazy o => FLazy o
  end
with erase_leaf (l : leaf) : leaf :=
  match l with
  | LNew f => LNew (erase_fexpr f)
  | LOld h => LOld h
  | LBad => LBad
  end.

Lemma tree_erase p : rtree0 p -> tree (erase p).
Proof.
  apply (rtree0_mut (fun p => tree (erase p)) (fun l => tree_leaf (erase_leaf l)) (fun f => tree_fexpr (erase_fexpr f)));
    cbn [erase erase_leaf erase_fexpr]; intros; try (constructor; auto; fail).
  - apply tree_yield; [|auto]. intros l Hin. rewrite leaves_ymap in Hin. apply in_map_iff in Hin as (a & <- & Ha). auto.
  - auto.
Qed.

Lemma wn_erase op p : wnr op p -> wn op (erase p).
Proof.
  intros H. induction H as [v|v|e|op s k Hl IHl Hk IHk|op c k Hc Hk IHk|op c k Hk IHk|op var k Hk IHk]; cbn [erase].
  - constructor.
  - constructor.
  - constructor.
  - apply wn_yield; [|exact IHk]. intros q Hin. rewrite leaves_ymap in Hin. apply in_map_iff in Hin as (a & E & Ha).
    destruct a as [f|h|]; cbn in E; try discriminate. destruct f; cbn in E; try discriminate. inversion E; subst q.
    apply IHl. exact Ha.
  - apply wn_enter; [exact Hc|exact IHk].
  - apply wn_exit. exact IHk.
  - apply IHk.
Qed.

(* on rtree0 programs the value fed to a read does not matter *)
Lemma rtree0_read_const var k v : rtree0 (ReadVar var k) -> erase (k v) = erase (ReadVar var k).
Proof. intros H. inversion H as [| | | | | |var' k' Hk Hc]; subst. cbn [erase]. rewrite (Hc v (VInt 0)). reflexivity. Qed.

Definition rgen_ok (tk : task) : Prop := forall k, tk_gen tk = Some k -> forall o, rtree0 (k o).

Definition rfut_ok (f : fut) : Prop :=
  match f_kind f with
  | KTask tk => rgen_ok tk
  | _ => True
  end.

Definition RHh (s : st) : Prop := forall u f, get u s = Some f -> rfut_ok f.

Lemma RHh_view s s' : heap s' = heap s -> RHh s -> RHh s'.
Proof. intros Hh Hs u f Hg. apply (Hs u f). unfold get in *. rewrite <- Hh. exact Hg. Qed.

Lemma RHh_put u f s : rfut_ok f -> RHh s -> RHh (put u f s).
Proof.
  intros Hf Hs u0 f0 Hg. destruct (fid_eqb u0 u) eqn:E.
  - apply fid_eqb_eq in E. subst u0. rewrite get_put_same in Hg. inversion Hg; subst f0. exact Hf.
  - rewrite get_put_other in Hg by (intros ->; rewrite fid_eqb_refl in E; discriminate). apply (Hs u0 f0 Hg).
Qed.

Lemma RHh_set_task t tk s : rgen_ok tk -> RHh s -> RHh (set_task t tk s).
Proof. intros Hk Hs. unfold set_task. destruct (get t s); [apply RHh_put; [exact Hk|exact Hs]|exact Hs]. Qed.

Lemma RHh_gen s x o tk : RHh s -> get x s = Some (mkFut o (KTask tk)) -> rgen_ok tk.
Proof. intros Hs Hg. exact (Hs x _ Hg). Qed.

Lemma RHh_gen_task s x tk : RHh s -> get_task x s = Some tk -> rgen_ok tk.
Proof. intros Hs Hg. apply get_task_some in Hg as (o & Hg). exact (RHh_gen s x o tk Hs Hg). Qed.

Lemma rgen_ok_ctxs tk cs a : rgen_ok tk -> rgen_ok (tk_with_ctxs tk cs a).
Proof. intros H. exact H. Qed.

Lemma rgen_ok_ds tk b : rgen_ok tk -> rgen_ok (tk_set_ds tk b).
Proof. intros H. exact H. Qed.

Lemma rgen_ok_none a b c d e f g : rgen_ok (mkTask None a b c d e f g).
Proof. intros k Hk. discriminate. Qed.

Lemma RHh_enter_ctx x c s : RHh s -> RHh (enter_ctx x c s).
Proof.
  intros Hs. unfold enter_ctx.
  assert (H : RHh (match get_task x s with
                   | Some tk => set_task x (tk_with_ctxs tk (tk_ctxs tk ++ [c]) (tk_cact tk)) s
                   | None => s end)).
  { destruct (get_task x s) as [tk|] eqn:G; [|exact Hs]. apply RHh_set_task; [|exact Hs].
    apply rgen_ok_ctxs. exact (RHh_gen_task s x tk Hs G). }
  destruct c; (eapply RHh_view; [|exact H]); reflexivity.
Qed.

Lemma RHh_exit_ctx x c s : RHh s -> RHh (exit_ctx x c s).
Proof.
  intros Hs. unfold exit_ctx. destruct (get_task x s) as [tk|] eqn:G.
  - assert (H : RHh (set_task x (tk_with_ctxs tk (remove_ctx c (tk_ctxs tk)) (tk_cact tk)) s)).
    { apply RHh_set_task; [|exact Hs]. apply rgen_ok_ctxs. exact (RHh_gen_task s x tk Hs G). }
    destruct (tk_cact tk); [|exact H]. destruct c; (eapply RHh_view; [|exact H]); reflexivity.
  - destruct c; (eapply RHh_view; [|exact Hs]); reflexivity.
Qed.

Lemma RHh_fold {X} (f : st -> X -> st) l : (forall s x, RHh s -> RHh (f s x)) -> forall s, RHh s -> RHh (fold_left f l s).
Proof. intros H. induction l as [|x l IH]; intros s Hs; cbn; [exact Hs|]. apply IH, H, Hs. Qed.

Lemma RHh_fold_pair {X E} (f : st * E -> X -> st * E) l :
  (forall a x, RHh (fst a) -> RHh (fst (f a x))) -> forall a, RHh (fst a) -> RHh (fst (fold_left f l a)).
Proof. intros H. induction l as [|x l IH]; intros a Ha; cbn; [exact Ha|]. apply IH, H, Ha. Qed.

Lemma RHh_complete_task x o s : RHh s -> RHh (complete_task x o s).
Proof.
  intros Hs. unfold complete_task. destruct (get_task x s) as [tk|]; [|exact Hs].
  assert (H : RHh (match tk_gen tk with
                   | Some _ => fold_left (fun s c => exit_ctx x c s) (rev (tk_ctxs tk)) s
                   | None => s end)).
  { destruct (tk_gen tk); [|exact Hs]. apply RHh_fold; [|exact Hs]. intros s0 c0 H0. apply RHh_exit_ctx. exact H0. }
  destruct (get_task x _) as [tk1|]; [|exact H].
  match goal with |- RHh (emit ?e ?z) => apply (RHh_view z); [reflexivity|] end.
  apply RHh_put; [apply rgen_ok_none|exact H].
Qed.

Lemma RHh_accept_error x e s : RHh s -> RHh (accept_error x e s).
Proof. intros Hs. unfold accept_error. destruct (computed x s); [exact Hs|apply RHh_complete_task; exact Hs]. Qed.

Lemma RHh_resume_contexts x s : RHh s -> RHh (resume_contexts x s).
Proof.
  intros Hs. unfold resume_contexts. destruct (get_task x s) as [tk|] eqn:G; [|exact Hs].
  destruct (tk_cact tk); [exact Hs|].
  match goal with |- context [fold_left ?f ?l ?a] => assert (H2 : RHh (fst (fold_left f l a))) end.
  { apply RHh_fold_pair.
    - intros [s0 e0] c H0. cbn [fst] in *. pose proof (heap_resume1 x c s0) as Rr. destruct (resume1 x c s0). cbn [fst] in *.
      apply (RHh_view s0); [exact Rr|exact H0].
    - cbn [fst]. apply RHh_set_task; [|exact Hs]. apply rgen_ok_ctxs. exact (RHh_gen_task s x tk Hs G). }
  match goal with |- context [fold_left ?f ?l ?a] => destruct (fold_left f l a) as [s1 [e|]] end;
    cbn [fst] in H2; [apply RHh_accept_error; exact H2|exact H2].
Qed.

Lemma RHh_pause_contexts x s : RHh s -> RHh (pause_contexts x s).
Proof.
  intros Hs. unfold pause_contexts. destruct (get_task x s) as [tk|] eqn:G; [|exact Hs].
  destruct (negb (tk_cact tk)); [exact Hs|].
  match goal with |- context [fold_left ?f ?l ?a] => assert (H2 : RHh (fst (fold_left f l a))) end.
  { apply RHh_fold_pair.
    - intros [s0 e0] c H0. cbn [fst] in *. pose proof (heap_pause1 x c s0) as Rr. destruct (pause1 x c s0). cbn [fst] in *.
      apply (RHh_view s0); [exact Rr|exact H0].
    - cbn [fst]. apply RHh_set_task; [|exact Hs]. apply rgen_ok_ctxs. exact (RHh_gen_task s x tk Hs G). }
  match goal with |- context [fold_left ?f ?l ?a] => destruct (fold_left f l a) as [s1 [e|]] end;
    cbn [fst] in H2; [apply RHh_accept_error; exact H2|exact H2].
Qed.

Lemma RHh_kback s s' : kback s s' -> RHh s -> RHh s'.
Proof.
  intros K Hs u f' Hg. destruct (K u f' Hg) as (f & Hf & Ek & _). pose proof (Hs u f Hf) as H.
  unfold rfut_ok in *. rewrite Ek. exact H.
Qed.

Lemma RHh_flush_batch P k s : RHh s -> RHh (flush_batch P k s).
Proof. apply RHh_kback, kback_flush_batch. Qed.

Lemma RHh_cwb P s : RHh s -> RHh (continue_with_batch P s).
Proof. apply RHh_kback, kback_cwb. Qed.

Lemma RHh_schedule_batch k s : RHh s -> RHh (schedule_batch k s).
Proof. intros Hs. unfold schedule_batch. destruct (b_done _); [exact Hs|]. destruct (existsb _ _); exact Hs. Qed.

Lemma RHh_create parent f s : rtree0_fexpr f -> RHh s -> RHh (snd (create parent f s)).
Proof.
  intros Hf Hs. unfold create, alloc. cbn zeta.
  assert (H1 : RHh (with_top_next s (top_next s + 1))) by (apply (RHh_view s); [reflexivity|exact Hs]).
  destruct Hf as [q Hq|kind key a|v|e|o]; cbn [snd]; [| apply (RHh_view (put [top_next s] (mkFut None (KItem kind (cur_idx kind (with_top_next s (top_next s + 1))) key a)) (with_top_next s (top_next s + 1)))); [reflexivity|] | | |]; apply RHh_put; try exact H1; try exact I.
  intros k E o. cbn in E. inversion E; subst k. exact Hq.
Qed.

Lemma RHh_inst parent y : forall s, (forall l, In l (leaves y) -> rtree0_leaf l) -> RHh s -> RHh (snd (inst parent y s)).
Proof.
  induction y as [| a | l IH | l IH | l IH] using ystruct_ind2; intros s Hl Hs.
  - exact Hs.
  - destruct a as [f|h0|]; simpl; try exact Hs.
    assert (Hf : rtree0_fexpr f) by (specialize (Hl (LNew f) (or_introl eq_refl)); inversion Hl; assumption).
    pose proof (RHh_create parent f s Hf Hs) as H. destruct (create parent f s). exact H.
  - rewrite leaves_tuple in Hl. simpl. match goal with |- context [(?g l s)] => set (go := g) end.
    assert (H : forall s, (forall x, In x (flat_map leaves l) -> rtree0_leaf x) -> RHh s -> RHh (snd (go l s))).
    { clear s Hl Hs. induction IH as [|x l Hx Hl' IHl]; intros s Hl Hs; [exact Hs|]. simpl. cbn [flat_map] in Hl.
      specialize (Hx s (fun z Hz => Hl z (in_or_app _ _ _ (or_introl Hz))) Hs). destruct (inst parent x s) as [x' s1]. cbn [snd] in Hx.
      specialize (IHl s1 (fun z Hz => Hl z (in_or_app _ _ _ (or_intror Hz))) Hx). destruct (go l s1) as [l'' s2]. cbn [snd] in *. exact IHl. }
    specialize (H s Hl Hs). destruct (go l s). exact H.
  - rewrite leaves_ylist in Hl. simpl. match goal with |- context [(?g l s)] => set (go := g) end.
    assert (H : forall s, (forall x, In x (flat_map leaves l) -> rtree0_leaf x) -> RHh s -> RHh (snd (go l s))).
    { clear s Hl Hs. induction IH as [|x l Hx Hl' IHl]; intros s Hl Hs; [exact Hs|]. simpl. cbn [flat_map] in Hl.
      specialize (Hx s (fun z Hz => Hl z (in_or_app _ _ _ (or_introl Hz))) Hs). destruct (inst parent x s) as [x' s1]. cbn [snd] in Hx.
      specialize (IHl s1 (fun z Hz => Hl z (in_or_app _ _ _ (or_intror Hz))) Hx). destruct (go l s1) as [l'' s2]. cbn [snd] in *. exact IHl. }
    specialize (H s Hl Hs). destruct (go l s). exact H.
  - rewrite leaves_ydict in Hl. simpl. match goal with |- context [(?g l s)] => set (go := g) end.
    assert (H : forall s, (forall x, In x (flat_map (fun kv => leaves (snd kv)) l) -> rtree0_leaf x) -> RHh s -> RHh (snd (go l s))).
    { clear s Hl Hs. induction IH as [|[k x] l Hx Hl' IHl]; intros s Hl Hs; [exact Hs|]. simpl. cbn [flat_map snd] in Hl. cbn [snd] in Hx.
      specialize (Hx s (fun z Hz => Hl z (in_or_app _ _ _ (or_introl Hz))) Hs). destruct (inst parent x s) as [x' s1]. cbn [snd] in Hx.
      specialize (IHl s1 (fun z Hz => Hl z (in_or_app _ _ _ (or_intror Hz))) Hx). destruct (go l s1) as [l'' s2]. cbn [snd] in *. exact IHl. }
    specialize (H s Hl Hs). destruct (go l s). exact H.
Qed.

(* no frame of a synchronous call *)
Definition rnofv (fr : list frame) : bool := forallb (fun f => match f with FValue _ _ => false | _ => true end) fr.

Definition RHc (c : cfg) : Prop :=
  RHh (c_st c) /\ rnofv (c_frames c) = true /\ match c_mode c with MRun _ p => rtree0 p | _ => True end.

Ltac rni :=
  repeat match goal with
  | H : RHh ?s |- RHh ?s => exact H
  | |- RHh (emit _ ?X) => apply (RHh_view X); [reflexivity|]
  | |- RHh (pop_task ?X) => apply (RHh_view X); [reflexivity|]
  | |- RHh (with_tasks ?X _) => apply (RHh_view X); [reflexivity|]
  | |- RHh (with_active ?X _) => apply (RHh_view X); [reflexivity|]
  | |- RHh (reset_sched ?X) => apply (RHh_view X); [reflexivity|]
  | |- RHh (drop_sb ?X) => apply (RHh_view X); [apply heap_drop_sb|]
  | |- RHh (schedule_batch _ _) => apply RHh_schedule_batch
  | |- RHh (resume_contexts _ _) => apply RHh_resume_contexts
  | |- RHh (pause_contexts _ _) => apply RHh_pause_contexts
  | |- RHh (complete_task _ _ _) => apply RHh_complete_task
  | |- RHh (accept_error _ _ _) => apply RHh_accept_error
  | |- RHh (enter_ctx _ _ _) => apply RHh_enter_ctx
  | |- RHh (exit_ctx _ _ _) => apply RHh_exit_ctx
  | |- RHh (flush_batch _ _ _) => apply RHh_flush_batch
  | |- RHh (continue_with_batch _ _) => apply RHh_cwb
  | |- RHh (put _ (mkFut _ (KLazy _)) _) => apply RHh_put; [exact I|]
  | |- RHh (set_task _ (mkTask None _ _ _ _ _ _ _) _) => apply RHh_set_task; [apply rgen_ok_none|]
  | |- RHh (match get_task ?t ?s with Some _ => _ | None => _ end) => destruct (get_task t s) eqn:?
  | Hs : RHh ?s, G : get ?x ?s = Some (mkFut _ (KTask ?tk)) |- RHh (set_task _ (tk_set_ds ?tk _) _) =>
      apply RHh_set_task; [apply rgen_ok_ds; exact (RHh_gen s x _ tk Hs G)|]
  end.

Ltac rsplit_matches :=
  repeat match goal with
  | |- RHc (if ?x then _ else _) => destruct x eqn:?
  | |- RHc (match ?x with _ => _ end) => destruct x eqn:?
  | |- RHc (let '(_, _) := ?x in _) => destruct x eqn:?
  end.

Ltac rfin Hfr :=
  cbn in Hfr; try discriminate Hfr;
  (split; [cbn [c_st]; rni|split; [cbn [c_frames rnofv forallb andb]; try exact Hfr; try reflexivity|try exact I]]).

Lemma rh_step P c : RHc c -> RHc (step P c).
Proof.
  destruct c as [m fr s]. intros (Hh & Hfr & Hm). cbn [c_mode c_frames c_st] in Hh, Hfr, Hm.
  destruct m as [h| | | |t|t p| |o|e|o|].
  - (* MValue *) cbn [step c_mode c_frames c_st]. rsplit_matches; rfin Hfr.
  - (* MWaitHead *) cbn [step c_mode c_frames c_st]. rsplit_matches; rfin Hfr.
  - (* MAfterExec *) cbn [step c_mode c_frames c_st]. rsplit_matches; rfin Hfr.
  - (* MExecLoop *) cbn [step c_mode c_frames c_st]. rsplit_matches; rfin Hfr.
  - (* MResume *) cbn [step c_mode c_frames c_st]. destruct (get_task t s) as [tk|] eqn:G; [|rfin Hfr].
    pose proof (RHh_gen_task s t tk Hh G) as Hk.
    destruct (tk_gen tk) as [k|] eqn:Ek.
    + split; [|split; [exact Hfr|exact (Hk k Ek _)]]. cbn [c_st]. rni. apply RHh_set_task; [|exact Hh].
      intros k0 E0 o0. cbn in E0. inversion E0; subst k0. exact (Hk k Ek o0).
    + rsplit_matches; rfin Hfr.
  - (* MRun *) destruct Hm as [v|v|e|y k Hl Hk|c k Hc Hk|c k Hc Hk|var k Hk Hcst]; cbn [step c_mode c_frames c_st].
    + rsplit_matches; rfin Hfr.
    + rsplit_matches; rfin Hfr.
    + rfin Hfr.
    + pose proof (RHh_inst t y s Hl Hh) as Hi. destruct (inst t y s) as [y' si]. cbn [snd] in Hi.
      destruct (get_task t si) as [tk|] eqn:G; [|rfin Hfr].
      assert (H2 : RHh (set_task t (mkTask (Some k) y' (tk_deps tk ++ futs (extract y')) (tk_ctxs tk) (tk_cact tk) (tk_ds tk) (tk_iter tk) (tk_next tk)) si)).
      { apply RHh_set_task; [|exact Hi]. intros k0 E0 o0. cbn in E0. inversion E0; subst k0. exact (Hk o0). }
      destruct (futs (extract y')); (split; [exact H2|split; [exact Hfr|exact I]]).
    + split; [cbn [c_st]; rni|split; [exact Hfr|exact Hk]].
    + split; [cbn [c_st]; rni|split; [exact Hfr|exact Hk]].
    + split; [cbn [c_st]; rni|split; [exact Hfr|apply Hk]].
  - (* MContRet *) cbn [step c_mode c_frames c_st]. destruct fr as [|[| | | |t old] fr']; try (rfin Hfr).
    assert (Ha : RHh (with_active s old)) by (apply (RHh_view s); [reflexivity|exact Hh]).
    apply RHh_set_task; [|exact Ha]. apply rgen_ok_ds.
    match goal with G : get_task t (with_active s old) = Some ?tk |- _ => exact (RHh_gen_task _ t tk Ha G) end.
  - (* MDeliver *) cbn [step c_mode c_frames c_st]. destruct fr as [|[| | | |] fr']; rfin Hfr.
  - (* MUnwind *) cbn [step c_mode c_frames c_st]. destruct fr as [|[| | | |] fr']; rfin Hfr.
  - exact (conj Hh (conj Hfr I)).
  - exact (conj Hh (conj Hfr I)).
Qed.

Lemma rh_run P n : forall c, RHc c -> RHc (run P n c).
Proof.
  induction n as [|n IH]; intros c Hc; [exact Hc|]. rewrite run_S.
  destruct (is_final (c_mode c)); [exact Hc|]. apply IH, rh_step, Hc.
Qed.

Lemma RHh_st0 P : RHh (st0 P).
Proof. intros u f Hg. cbn in Hg. discriminate. Qed.

Lemma RHc_start P p : rtree0 p ->
  RHc (start (fst (create [] (FTask p) (st0 P))) (snd (create [] (FTask p) (st0 P)))).
Proof.
  intros Hp. split; [|split; [reflexivity|exact I]]. cbn [start c_st].
  apply RHh_create; [apply rf0_task; exact Hp|apply RHh_st0].
Qed.


(* every program the machine runs during an rtree0 computation is rtree0; in particular a read never branches *)
Theorem rtree0_run_class P p n t q :
  rtree0 p ->
  let h := fst (create [] (FTask p) (st0 P)) in
  let s1 := snd (create [] (FTask p) (st0 P)) in
  c_mode (run P n (start h s1)) = MRun t q ->
  rtree0 q /\ forall x k, q = ReadVar x k -> forall v, erase (k v) = erase q.
Proof.
  intros Hp. cbn zeta. intros Hm. destruct (rh_run P n _ (RHc_start P p Hp)) as (_ & _ & Hq). rewrite Hm in Hq.
  split; [exact Hq|]. intros x k -> v. apply rtree0_read_const. exact Hq.
Qed.

(* ------------------------------------------------------------------ erasure of machine states *)
Definition egen (g : option (outcome -> prog)) : option (outcome -> prog) :=
  match g with Some k => Some (fun o => erase (k o)) | None => None end.
Definition etask (tk : task) : task :=
  mkTask (egen (tk_gen tk)) (tk_last tk) (tk_deps tk) (tk_ctxs tk) (tk_cact tk) (tk_ds tk) (tk_iter tk) (tk_next tk).
Definition ekind (fk : fkind) : fkind := match fk with KTask tk => KTask (etask tk) | _ => fk end.
Definition efut (f : fut) : fut := mkFut (f_out f) (ekind (f_kind f)).
Definition is_read (e : event) : bool := match e with EvRead _ _ _ => true | _ => false end.
Definition est (s : st) : st :=
  mkSt (map (fun kv => (fst kv, efut (snd kv))) (heap s)) (batches s) (cur s) (sb s) (tasks s) (active s) (vars s) (cis s)
       (oracle s) (top_next s) (filter (fun e => negb (is_read e)) (trace s)).
Definition eframe (f : frame) : frame := match f with FValue t k => FValue t (fun o => erase (k o)) | _ => f end.
Definition emode (m : mode) : mode := match m with MRun t p => MRun t (erase p) | _ => m end.
Definition ecfg (c : cfg) : cfg := mkC (emode (c_mode c)) (map eframe (c_frames c)) (est (c_st c)).

Lemma get_est h s : get h (est s) = option_map efut (get h s).
Proof.
  unfold get. cbn [heap est]. induction (heap s) as [|[h' f] l IH]; cbn; [reflexivity|].
  destruct (fid_eqb h' h); [reflexivity|exact IH].
Qed.

Lemma put_est h f s : put h (efut f) (est s) = est (put h f s).
Proof.
  unfold put, with_heap, est. cbn. f_equal. induction (heap s) as [|[h' f'] l IH]; cbn; [reflexivity|].
  destruct (fid_eqb h' h); cbn; [reflexivity|]. f_equal. exact IH.
Qed.

Lemma get_task_est t s : get_task t (est s) = option_map etask (get_task t s).
Proof. unfold get_task. rewrite get_est. destruct (get t s) as [[o [tk| | |]]|]; reflexivity. Qed.

Lemma set_task_est t tk s : set_task t (etask tk) (est s) = est (set_task t tk s).
Proof.
  unfold set_task. rewrite get_est. destruct (get t s) as [f|]; cbn [option_map]; [|reflexivity].
  rewrite <- put_est. reflexivity.
Qed.

Lemma computed_est h s : computed h (est s) = computed h s.
Proof. unfold computed. rewrite get_est. destruct (get h s) as [f|]; reflexivity. Qed.
Lemma outcome_of_est h s : outcome_of h (est s) = outcome_of h s.
Proof. unfold outcome_of. rewrite get_est. destruct (get h s) as [f|]; reflexivity. Qed.
Lemma var_get_est x s : var_get x (est s) = var_get x s. Proof. reflexivity. Qed.
Lemma ci_get_est k s : ci_get k (est s) = ci_get k s. Proof. reflexivity. Qed.
Lemma get_batch_est k s : get_batch k (est s) = get_batch k s. Proof. reflexivity. Qed.
Lemma cur_idx_est k s : cur_idx k (est s) = cur_idx k s. Proof. reflexivity. Qed.
Lemma var_set_est x v s : var_set x v (est s) = est (var_set x v s). Proof. reflexivity. Qed.
Lemma ci_put_est k c s : ci_put k c (est s) = est (ci_put k c s). Proof. reflexivity. Qed.
Lemma put_batch_est k b s : put_batch k b (est s) = est (put_batch k b s). Proof. reflexivity. Qed.
Lemma emit_est e s : is_read e = false -> emit e (est s) = est (emit e s).
Proof. intros H. unfold emit, est. cbn. rewrite H. reflexivity. Qed.
(* a read is invisible after erasure *)
Lemma emit_read_est t x v s : est (emit (EvRead t x v) s) = est s.
Proof. reflexivity. Qed.

Lemma tk_with_ctxs_etask tk cs a : tk_with_ctxs (etask tk) cs a = etask (tk_with_ctxs tk cs a). Proof. reflexivity. Qed.
Lemma tk_set_ds_etask tk b : tk_set_ds (etask tk) b = etask (tk_set_ds tk b). Proof. reflexivity. Qed.
Lemma tk_ctxs_etask tk : tk_ctxs (etask tk) = tk_ctxs tk. Proof. reflexivity. Qed.
Lemma tk_cact_etask tk : tk_cact (etask tk) = tk_cact tk. Proof. reflexivity. Qed.
Lemma tk_deps_etask tk : tk_deps (etask tk) = tk_deps tk. Proof. reflexivity. Qed.
Lemma tk_ds_etask tk : tk_ds (etask tk) = tk_ds tk. Proof. reflexivity. Qed.

Global Hint Rewrite get_est get_task_est computed_est outcome_of_est var_get_est ci_get_est get_batch_est cur_idx_est
  tk_with_ctxs_etask tk_set_ds_etask tk_ctxs_etask tk_cact_etask tk_deps_etask tk_ds_etask
  set_task_est put_est var_set_est ci_put_est put_batch_est : est.
Global Hint Rewrite emit_est using reflexivity : est.

Lemma enter_ctx_est t c s : enter_ctx t c (est s) = est (enter_ctx t c s).
Proof.
  unfold enter_ctx. rewrite get_task_est.
  destruct (get_task t s) as [tk|]; cbn [option_map]; destruct c; autorewrite with est; reflexivity.
Qed.

Lemma pause_plain_est t c s : pause_plain t c (est s) = est (pause_plain t c s).
Proof. unfold pause_plain. destruct c; autorewrite with est; reflexivity. Qed.

Lemma exit_ctx_est t c s : exit_ctx t c (est s) = est (exit_ctx t c s).
Proof.
  unfold exit_ctx. rewrite get_task_est. destruct (get_task t s) as [tk|]; cbn [option_map]; autorewrite with est.
  - destruct (tk_cact tk); [apply pause_plain_est|reflexivity].
  - apply pause_plain_est.
Qed.

Lemma fold_est {X} (f : st -> X -> st) l : (forall s x, f (est s) x = est (f s x)) ->
  forall s, fold_left f l (est s) = est (fold_left f l s).
Proof. intros H. induction l as [|x l IH]; intros s; cbn; [reflexivity|]. rewrite H. apply IH. Qed.

Lemma complete_task_est t o s : complete_task t o (est s) = est (complete_task t o s).
Proof.
  unfold complete_task. rewrite get_task_est. destruct (get_task t s) as [tk|]; cbn [option_map]; [|reflexivity].
  assert (H : match tk_gen (etask tk) with
              | Some _ => fold_left (fun s c => exit_ctx t c s) (rev (tk_ctxs (etask tk))) (est s)
              | None => est s end =
              est (match tk_gen tk with
                   | Some _ => fold_left (fun s c => exit_ctx t c s) (rev (tk_ctxs tk)) s
                   | None => s end)).
  { cbn [etask tk_gen tk_ctxs]. destruct (tk_gen tk); cbn [egen]; [|reflexivity].
    apply (fold_est (fun s c => exit_ctx t c s)). intros s0 c0. apply exit_ctx_est. }
  rewrite H. rewrite get_task_est.
  destruct (get_task t _) as [tk1|]; cbn [option_map]; [|reflexivity].
  rewrite <- emit_est by reflexivity. rewrite <- put_est. reflexivity.
Qed.

Lemma accept_error_est t e s : accept_error t e (est s) = est (accept_error t e s).
Proof. unfold accept_error. rewrite computed_est. destruct (computed t s); [reflexivity|apply complete_task_est]. Qed.

Lemma resume1_est t c s : resume1 t c (est s) = (est (fst (resume1 t c s)), snd (resume1 t c s)).
Proof.
  unfold resume1. destruct c as [cid f|cid|cid var v]; autorewrite with est.
  - destruct f as [|k e|k e]; try reflexivity. destruct (Nat.eqb _ k); reflexivity.
  - reflexivity.
  - reflexivity.
Qed.

Lemma pause1_est t c s : pause1 t c (est s) = (est (fst (pause1 t c s)), snd (pause1 t c s)).
Proof.
  unfold pause1. destruct c as [cid f|cid|cid var v]; autorewrite with est.
  - destruct f as [|k e|k e]; try reflexivity. destruct (Nat.eqb _ k); reflexivity.
  - reflexivity.
  - reflexivity.
Qed.

Lemma fold_pair_est {X E} (f : st * E -> X -> st * E) l :
  (forall s e x, f (est s, e) x = (est (fst (f (s, e) x)), snd (f (s, e) x))) ->
  forall s e, fold_left f l (est s, e) = (est (fst (fold_left f l (s, e))), snd (fold_left f l (s, e))).
Proof.
  intros H. induction l as [|x l IH]; intros s e; cbn; [reflexivity|]. rewrite H.
  destruct (f (s, e) x) as [s' e']. cbn [fst snd]. apply IH.
Qed.

Lemma resume_contexts_est t s : resume_contexts t (est s) = est (resume_contexts t s).
Proof.
  unfold resume_contexts. rewrite get_task_est. destruct (get_task t s) as [tk|]; cbn [option_map]; [|reflexivity].
  autorewrite with est. destruct (tk_cact tk); [reflexivity|].
  rewrite fold_pair_est.
  - match goal with |- context [fold_left ?f ?l (?a, ?b)] => destruct (fold_left f l (a, b)) as [s1 [e|]] end; cbn [fst snd];
      [apply accept_error_est|reflexivity].
  - intros s0 e0 c. rewrite resume1_est. destruct (resume1 t c s0). reflexivity.
Qed.

Lemma pause_contexts_est t s : pause_contexts t (est s) = est (pause_contexts t s).
Proof.
  unfold pause_contexts. rewrite get_task_est. destruct (get_task t s) as [tk|]; cbn [option_map]; [|reflexivity].
  autorewrite with est. destruct (negb (tk_cact tk)); [reflexivity|].
  rewrite fold_pair_est.
  - match goal with |- context [fold_left ?f ?l (?a, ?b)] => destruct (fold_left f l (a, b)) as [s1 [e|]] end; cbn [fst snd];
      [apply accept_error_est|reflexivity].
  - intros s0 e0 c. rewrite pause1_est. destruct (pause1 t c s0). reflexivity.
Qed.

Lemma complete_item_est h o s : complete_item h o (est s) = est (complete_item h o s).
Proof.
  unfold complete_item. rewrite get_est. destruct (get h s) as [f|]; cbn [option_map]; [|reflexivity].
  cbn [efut f_out]. destruct (f_out f); [reflexivity|]. rewrite <- emit_est by reflexivity. rewrite <- put_est. reflexivity.
Qed.

Lemma schedule_batch_est k s : schedule_batch k (est s) = est (schedule_batch k s).
Proof. unfold schedule_batch. rewrite get_batch_est. destruct (b_done _); [reflexivity|]. cbn [sb est]. destruct (existsb _ _); reflexivity. Qed.

Lemma flush_body_est items : forall i ra s,
  flush_body items i ra (est s) = (est (fst (flush_body items i ra s)), snd (flush_body items i ra s)).
Proof.
  induction items as [|h rest IH]; intros i ra s; cbn [flush_body].
  - reflexivity.
  - assert (E : match get h (est s) with
                | Some (mkFut _ (KItem _ _ _ (ASet v))) => complete_item h (Ok v) (est s)
                | Some (mkFut _ (KItem _ _ _ (AErr e'))) => complete_item h (Err e') (est s)
                | _ => est s
                end = est (match get h s with
                | Some (mkFut _ (KItem _ _ _ (ASet v))) => complete_item h (Ok v) s
                | Some (mkFut _ (KItem _ _ _ (AErr e'))) => complete_item h (Err e') s
                | _ => s
                end)).
    { rewrite get_est. destruct (get h s) as [[o [tk|kind idx key [v|e'|]| |]]|]; cbn; try reflexivity; apply complete_item_est. }
    destruct ra as [[k e]|].
    + destruct (Z.eqb i k); [reflexivity|]. rewrite E. apply IH.
    + rewrite E. apply IH.
Qed.

Lemma flush_batch_est P k s : flush_batch P k (est s) = est (flush_batch P k s).
Proof.
  unfold flush_batch. rewrite get_batch_est. destruct (b_done (get_batch k s)); [reflexivity|].
  rewrite cur_idx_est.
  assert (E0 : (if Z.eqb (cur_idx (fst k) s) (snd k) then with_cur (est s) (upd Z.eqb (fst k) (snd k + 1) (cur (est s))) else est s) =
               est (if Z.eqb (cur_idx (fst k) s) (snd k) then with_cur s (upd Z.eqb (fst k) (snd k + 1) (cur s)) else s)).
  { destruct (Z.eqb _ _); reflexivity. }
  rewrite E0. rewrite emit_est by reflexivity. rewrite flush_body_est.
  match goal with |- context [flush_body ?a ?b ?c ?d] => destruct (flush_body a b c d) as [s2 err] end. cbn [fst snd].
  rewrite (fold_est (fun s h => complete_item h _ s)) by (intros; apply complete_item_est).
  rewrite get_batch_est. reflexivity.
Qed.

Lemma first_max_est P l : forall best s, first_max P l best (est s) = first_max P l best s.
Proof.
  induction l as [|k l IH]; intros best s; cbn [first_max]; [reflexivity|].
  destruct best as [b|]; [|apply IH].
  change (prio_of P b (est s)) with (prio_of P b s). change (prio_of P k (est s)) with (prio_of P k s).
  destruct (prio_lt _ _); apply IH.
Qed.

Lemma create_est parent f s : create parent (erase_fexpr f) (est s) = (fst (create parent f s), est (snd (create parent f s))).
Proof.
  unfold create, alloc. cbn zeta. destruct f as [p|kind key a|v|e|o]; cbn [erase_fexpr fst snd];
    try (rewrite <- put_est; reflexivity).
  rewrite <- put_batch_est, <- put_est. reflexivity.
Qed.

Lemma select_est P s : select P (est s) = (fst (select P s), est (snd (select P s))).
Proof.
  unfold select. cbn [sb est].
  change (filter (fun k => eligible k (est s)) (sb s)) with (filter (fun k => eligible k s) (sb s)).
  destruct (filter (fun k => eligible k s) (sb s)) as [|k0 el]; [reflexivity|].
  change (with_sb (est s) (k0 :: el)) with (est (with_sb s (k0 :: el))).
  set (s1 := with_sb s (k0 :: el)).
  change (oracle (est s1)) with (oracle s1). destruct (oracle s1) as [|c rest].
  - rewrite first_max_est. reflexivity.
  - change (is_max P c (k0 :: el) (est s1)) with (is_max P c (k0 :: el) s1).
    destruct (existsb (key_eqb c) (k0 :: el) && is_max P c (k0 :: el) s1); [reflexivity|].
    rewrite first_max_est. reflexivity.
Qed.

Lemma continue_with_batch_est P s : continue_with_batch P (est s) = est (continue_with_batch P s).
Proof.
  unfold continue_with_batch. rewrite select_est. destruct (select P s) as [[k|] s1]; cbn [fst snd]; [|reflexivity].
  change (with_sb (est s1) (filter (fun k' => negb (key_eqb k' k)) (sb (est s1))))
    with (est (with_sb s1 (filter (fun k' => negb (key_eqb k' k)) (sb s1)))).
  rewrite emit_est by reflexivity. rewrite flush_batch_est. rewrite emit_est by reflexivity. reflexivity.
Qed.

Lemma inst_est parent y : forall s,
  inst parent (ymap erase_leaf y) (est s) = (fst (inst parent y s), est (snd (inst parent y s))).
Proof.
  induction y as [| a | l IH | l IH | l IH] using ystruct_ind2; intros s.
  - reflexivity.
  - destruct a as [f|h|]; try reflexivity. cbn [ymap erase_leaf inst]. rewrite create_est.
    destruct (create parent f s) as [h s1]. reflexivity.
  - rewrite ymap_tuple. simpl.
    match goal with |- context [(?g (map (ymap erase_leaf) l) (est s))] => set (go' := g) end.
    match goal with |- context [(?g l s)] => set (go := g) end.
    assert (H : forall s, go' (map (ymap erase_leaf) l) (est s) = (fst (go l s), est (snd (go l s)))).
    { clear s. induction IH as [|x l Hx Hl IHl]; intros s; [reflexivity|]. simpl.
      rewrite Hx. destruct (inst parent x s) as [x' s1]. cbn [fst snd].
      rewrite IHl. destruct (go l s1) as [l'' s2]. reflexivity. }
    rewrite H. destruct (go l s). reflexivity.
  - rewrite ymap_ylist. simpl.
    match goal with |- context [(?g (map (ymap erase_leaf) l) (est s))] => set (go' := g) end.
    match goal with |- context [(?g l s)] => set (go := g) end.
    assert (H : forall s, go' (map (ymap erase_leaf) l) (est s) = (fst (go l s), est (snd (go l s)))).
    { clear s. induction IH as [|x l Hx Hl IHl]; intros s; [reflexivity|]. simpl.
      rewrite Hx. destruct (inst parent x s) as [x' s1]. cbn [fst snd].
      rewrite IHl. destruct (go l s1) as [l'' s2]. reflexivity. }
    rewrite H. destruct (go l s). reflexivity.
  - rewrite ymap_ydict. simpl.
    match goal with |- context [(?g (map _ l) (est s))] => set (go' := g) end.
    match goal with |- context [(?g l s)] => set (go := g) end.
    assert (H : forall s, go' (map (fun kv => (fst kv, ymap erase_leaf (snd kv))) l) (est s) = (fst (go l s), est (snd (go l s)))).
    { clear s. induction IH as [|[k x] l Hx Hl IHl]; intros s; [reflexivity|]. simpl. cbn [snd] in Hx.
      rewrite Hx. destruct (inst parent x s) as [x' s1]. cbn [fst snd].
      rewrite IHl. destruct (go l s1) as [l'' s2]. reflexivity. }
    rewrite H. destruct (go l s). reflexivity.
Qed.

(* ------------------------------------------------------------------ the step lemma *)
Lemma set_task_est_none t a b c d e f g s :
  set_task t (mkTask None a b c d e f g) (est s) = est (set_task t (mkTask None a b c d e f g) s).
Proof. exact (set_task_est t (mkTask None a b c d e f g) s). Qed.
Lemma set_task_est_some t k a b c d e f g s :
  set_task t (mkTask (Some (fun o => erase (k o))) a b c d e f g) (est s) = est (set_task t (mkTask (Some k) a b c d e f g) s).
Proof. exact (set_task_est t (mkTask (Some k) a b c d e f g) s). Qed.
Lemma put_est_lazy h o o' s : put h (mkFut o (KLazy o')) (est s) = est (put h (mkFut o (KLazy o')) s).
Proof. exact (put_est h (mkFut o (KLazy o')) s). Qed.
Lemma drop_sb_est s : drop_sb (est s) = est (drop_sb s).
Proof. unfold drop_sb. cbn [tasks est]. destruct (tasks s); reflexivity. Qed.
Lemma with_active_est s a : with_active (est s) a = est (with_active s a). Proof. reflexivity. Qed.
Lemma look_est s r : look (est s) r = look s r.
Proof. destruct r; [apply outcome_of_est|reflexivity]. Qed.
Lemma unwrap_look_est s y : unwrap (look (est s)) y = unwrap (look s) y.
Proof. apply unwrap_ext. intros r _. apply look_est. Qed.
Lemma is_blocked_est tk s : is_blocked (etask tk) (est s) = is_blocked tk s.
Proof.
  unfold is_blocked. cbn [tk_deps etask]. induction (tk_deps tk) as [|d l IH]; [reflexivity|].
  cbn [existsb]. rewrite computed_est, IH. reflexivity.
Qed.
Lemma filter_computed_est l s : filter (fun d => negb (computed d (est s))) l = filter (fun d => negb (computed d s)) l.
Proof. induction l as [|d l IH]; [reflexivity|]. cbn [filter]. rewrite computed_est, IH. reflexivity. Qed.

Global Hint Rewrite set_task_est_none set_task_est_some put_est_lazy drop_sb_est with_active_est unwrap_look_est is_blocked_est
  filter_computed_est enter_ctx_est exit_ctx_est complete_task_est accept_error_est resume_contexts_est pause_contexts_est
  flush_batch_est continue_with_batch_est schedule_batch_est : est.

Definition is_readm (m : mode) : bool := match m with MRun _ (ReadVar _ _) => true | _ => false end.

Lemma step_est P c : is_readm (c_mode c) = false -> step P (ecfg c) = ecfg (step P c).
Proof.
  destruct c as [m fr s]. unfold ecfg at 1. cbn [c_mode c_frames c_st]. intros Hr.
  destruct m as [h| | | |t|t p| |o|e|o|]; cbn [emode].
  - (* MValue *) cbn [step c_mode c_frames c_st]. autorewrite with est. destruct (computed h s); [reflexivity|].
    destruct (get h s) as [[o [tk|kind idx key a|o'|]]|]; cbn [option_map efut f_kind f_out ekind]; try reflexivity.
    + autorewrite with est. reflexivity.
    + autorewrite with est. reflexivity.
  - (* MWaitHead *) cbn [step c_mode c_frames c_st]. destruct fr as [|[|t k|root|i|t old] fr']; cbn [map eframe]; try reflexivity.
    autorewrite with est. destruct (computed root s); reflexivity.
  - (* MAfterExec *) cbn [step c_mode c_frames c_st]. destruct fr as [|[|t k|root|i|t old] fr']; cbn [map eframe]; try reflexivity.
    autorewrite with est. destruct (computed root s); reflexivity.
  - (* MExecLoop *) cbn [step c_mode c_frames c_st]. destruct fr as [|[|t k|root|i|t old] fr']; cbn [map eframe]; try reflexivity.
    change (tasks (est s)) with (tasks s).
    destruct (Nat.leb (length (tasks s)) i); [reflexivity|].
    destruct (Z.ltb (p_maxstack P) (Z.of_nat (length (tasks s)))); [reflexivity|].
    destruct (tasks s) as [|x rest] eqn:Et; [reflexivity|].
    rewrite computed_est. destruct (computed x s); [reflexivity|].
    rewrite get_est. destruct (get x s) as [[o [tk|kind idx key a|o'|]]|]; cbn [option_map efut f_kind f_out ekind]; try reflexivity.
    + rewrite is_blocked_est. destruct (is_blocked tk s).
      * rewrite tk_ds_etask. destruct (tk_ds tk).
        -- autorewrite with est. reflexivity.
        -- autorewrite with est.
           destruct (get_task x (resume_contexts x (set_task x (tk_set_ds tk true) s))) as [tk1|]; cbn [option_map];
             autorewrite with est; reflexivity.
      * autorewrite with est. destruct (computed x (resume_contexts x s)); reflexivity.
    + autorewrite with est. reflexivity.
    + autorewrite with est. reflexivity.
  - (* MResume *) cbn [step c_mode c_frames c_st]. rewrite get_task_est.
    destruct (get_task t s) as [tk|]; cbn [option_map]; [|reflexivity].
    change (tk_last (etask tk)) with (tk_last tk). rewrite unwrap_look_est.
    change (tk_gen (etask tk)) with (egen (tk_gen tk)).
    destruct (tk_gen tk) as [k|]; cbn [egen].
    + rewrite set_task_est_some. reflexivity.
    + destruct (unwrap (look s) (tk_last tk)) as [v|e].
      * rewrite computed_est. destruct (computed t s); [reflexivity|]. rewrite complete_task_est. reflexivity.
      * rewrite accept_error_est. reflexivity.
  - (* MRun *) destruct p as [v|v|e|y k|f k|h k|c k|c k|var k|k]; cbn [erase]; cbn [step c_mode c_frames c_st].
    + rewrite get_task_est. destruct (get_task t s) as [tk|]; cbn [option_map]; autorewrite with est.
      * destruct (computed t _); [reflexivity|]. autorewrite with est. reflexivity.
      * destruct (computed t s); [reflexivity|]. autorewrite with est. reflexivity.
    + rewrite get_task_est. destruct (get_task t s) as [tk|]; cbn [option_map]; autorewrite with est.
      * destruct (computed t _); [reflexivity|]. autorewrite with est. reflexivity.
      * destruct (computed t s); [reflexivity|]. autorewrite with est. reflexivity.
    + rewrite get_task_est. destruct (get_task t s) as [tk|]; cbn [option_map]; autorewrite with est; reflexivity.
    + rewrite inst_est. destruct (inst t y s) as [y' s1]. cbn [fst snd].
      rewrite get_task_est. destruct (get_task t s1) as [tk|]; cbn [option_map]; [|reflexivity].
      rewrite set_task_est_some. destruct (futs (extract y')); reflexivity.
    + rewrite create_est. destruct (create t f s) as [h s1]. reflexivity.
    + reflexivity.
    + rewrite enter_ctx_est. reflexivity.
    + rewrite exit_ctx_est. reflexivity.
    + discriminate Hr.
    + reflexivity.
  - (* MContRet *) cbn [step c_mode c_frames c_st]. destruct fr as [|[|t k|root|i|t old] fr']; cbn [map eframe]; try reflexivity.
    rewrite with_active_est, get_task_est. destruct (get_task t (with_active s old)) as [tk|]; cbn [option_map];
      autorewrite with est; reflexivity.
  - (* MDeliver *) cbn [step c_mode c_frames c_st]. destruct fr as [|[|t k|root|i|t old] fr']; cbn [map eframe]; reflexivity.
  - (* MUnwind *) cbn [step c_mode c_frames c_st]. destruct fr as [|[|t k|root|i|t old] fr']; cbn [map eframe]; reflexivity.
  - reflexivity.
  - reflexivity.
Qed.

Lemma step_read_est P t x k fr s : rtree0 (ReadVar x k) ->
  ecfg (step P (mkC (MRun t (ReadVar x k)) fr s)) = ecfg (mkC (MRun t (ReadVar x k)) fr s).
Proof.
  intros Hq. cbn [step c_mode c_frames c_st]. unfold ecfg. cbn [c_mode c_frames c_st emode].
  rewrite (rtree0_read_const x k _ Hq). reflexivity.
Qed.

Lemma is_final_emode m : is_final (emode m) = is_final m. Proof. destruct m; reflexivity. Qed.
Lemma is_unwind_emode m : is_unwind (emode m) = is_unwind m. Proof. destruct m; reflexivity. Qed.

(* ------------------------------------------------------------------ the stuttering simulation of whole runs *)
Lemma run_est P : forall n c, RHc c ->
  exists m, (m <= n)%nat /\ ecfg (run P n c) = run P m (ecfg c) /\
    forall k, (k <= m)%nat -> exists j, (j <= n)%nat /\ run P k (ecfg c) = ecfg (run P j c).
Proof.
  induction n as [|n IH]; intros c Hc.
  - exists O. split; [lia|]. split; [reflexivity|]. intros k Hk. exists O. split; [lia|].
    replace k with O by lia. reflexivity.
  - rewrite run_S. destruct (is_final (c_mode c)) eqn:Hf.
    + exists O. split; [lia|]. split; [reflexivity|]. intros k Hk. exists O. split; [lia|].
      replace k with O by lia. reflexivity.
    + destruct (IH (step P c) (rh_step P c Hc)) as (m & Hm & E & Hpre).
      destruct (is_readm (c_mode c)) eqn:Hr.
      * (* a read: the erased run does not move *)
        assert (Es : ecfg (step P c) = ecfg c).
        { destruct c as [md fr s]. cbn [c_mode] in Hr. destruct md as [h| | | |t|t p| |o|e|o|]; try discriminate Hr.
          destruct p; try discriminate Hr. destruct Hc as (_ & _ & Hq). cbn [c_mode] in Hq. apply step_read_est. exact Hq. }
        rewrite Es in E, Hpre. exists m. split; [lia|]. split; [exact E|].
        intros k Hk. destruct (Hpre k Hk) as (j & Hj & Ej). exists (S j). split; [lia|].
        rewrite run_S, Hf. exact Ej.
      * rewrite <- (step_est P c Hr) in E, Hpre.
        assert (Hfe : is_final (c_mode (ecfg c)) = false) by (cbn [ecfg c_mode]; rewrite is_final_emode; exact Hf).
        exists (S m). split; [lia|]. split; [rewrite run_S, Hfe; exact E|].
        intros k Hk. destruct k as [|k]; [exists O; split; [lia|reflexivity]|].
        destruct (Hpre k ltac:(lia)) as (j & Hj & Ej). exists (S j). split; [lia|].
        rewrite run_S, Hfe, run_S, Hf. exact Ej.
Qed.

Lemma start_est P p :
  ecfg (start (fst (create [] (FTask p) (st0 P))) (snd (create [] (FTask p) (st0 P)))) =
  start (fst (create [] (FTask (erase p)) (st0 P))) (snd (create [] (FTask (erase p)) (st0 P))).
Proof. reflexivity. Qed.

(* the run of p, erased, is a prefix-indexed run of [erase p]; no unwinding carries over *)
Lemma sim_run P p n : rtree0 p ->
  let c0 := start (fst (create [] (FTask p) (st0 P))) (snd (create [] (FTask p) (st0 P))) in
  let d0 := start (fst (create [] (FTask (erase p)) (st0 P))) (snd (create [] (FTask (erase p)) (st0 P))) in
  no_unwind P n c0 ->
  exists m, (m <= n)%nat /\ ecfg (run P n c0) = run P m d0 /\ no_unwind P m d0.
Proof.
  intros Hp c0 d0 Hn. destruct (run_est P n c0 (RHc_start P p Hp)) as (m & Hm & E & Hpre).
  change (ecfg c0) with d0 in E, Hpre. exists m. split; [exact Hm|]. split; [exact E|].
  intros k Hk. destruct (Hpre k Hk) as (j & Hj & Ej). rewrite Ej. cbn [ecfg c_mode]. rewrite is_unwind_emode.
  apply Hn. exact Hj.
Qed.

(* ------------------------------------------------------------------ what est does not touch *)
Lemma task_layers_est s t : task_layers (est s) t = task_layers s t.
Proof. unfold task_layers. rewrite get_est. destruct (get t s) as [[[o|] [tk| | |]]|]; reflexivity. Qed.
Lemma lower_est s ts : lower (est s) ts = lower s ts.
Proof. unfold lower. apply flat_map_ext. intros t. apply task_layers_est. Qed.
Lemma layers_est s : layers (est s) = layers s.
Proof. unfold layers. change (tasks (est s)) with (tasks s). apply flat_map_ext. intros t. apply task_layers_est. Qed.
Lemma get_est_inv t s o tk' : get t (est s) = Some (mkFut o (KTask tk')) ->
  exists tk, get t s = Some (mkFut o (KTask tk)) /\ tk' = etask tk.
Proof.
  rewrite get_est. destruct (get t s) as [[o0 [tk| | |]]|]; cbn; intros E; inversion E. exists tk. split; reflexivity.
Qed.

Lemma run_snoc P : forall n c, run P (S n) c = if is_final (c_mode (run P n c)) then run P n c else step P (run P n c).
Proof.
  induction n as [|n IH]; intros c.
  - rewrite run_S. cbn [run]. destruct (is_final (c_mode c)); reflexivity.
  - rewrite run_S. rewrite (run_S P n c). destruct (is_final (c_mode c)) eqn:Hf; [rewrite Hf; reflexivity|]. apply IH.
Qed.

Lemma erase_covered p : rtree0 p -> wnr [] p -> tree (erase p) /\ wn [] (erase p).
Proof. intros H1 H2. split; [apply tree_erase; exact H1|apply wn_erase; exact H2]. Qed.

(* ------------------------------------------------------------------ the transported theorems *)
Section Transport.
  Variable P : params.
  Hypothesis HP : pointwise P.
  Variable p : prog.
  Hypothesis Hp : rtree0 p.
  Hypothesis Hw : wnr [] p.
  Let h := fst (create [] (FTask p) (st0 P)).
  Let s1 := snd (create [] (FTask p) (st0 P)).

  (* T2 for programs with actual reads: whenever code of t runs - in particular when it is AT a read - every scoped
     variable is the initial value overridden by the layers of the tasks below t and t's own open overrides *)
  Theorem reads_see_enclosing_overrides_rtree0 n t q :
    no_unwind P n (start h s1) -> c_mode (run P n (start h s1)) = MRun t q ->
    let s := c_st (run P n (start h s1)) in
    (forall x, var_get x s = apply_l (fun x => var_get x s1) (layers s) x) /\
    exists tk rest, get t s = Some (mkFut None (KTask tk)) /\ tk_cact tk = true /\ wn (tk_ctxs tk) (erase q) /\
      tasks s = t :: rest /\ layers s = lower s rest ++ map (pair t) (tk_ctxs tk) /\
      forall u c, In (u, c) (lower s rest) ->
        In u rest /\ exists tku, get u s = Some (mkFut None (KTask tku)) /\ tk_cact tku = true /\ In c (tk_ctxs tku).
  Proof.
    intros Hn Hm. cbn zeta. destruct (sim_run P p n Hp Hn) as (m & _ & E & Hnm).
    assert (Hmq : c_mode (run P m (start (fst (create [] (FTask (erase p)) (st0 P))) (snd (create [] (FTask (erase p)) (st0 P))))) = MRun t (erase q)).
    { rewrite <- E. cbn [ecfg c_mode]. fold h s1. rewrite Hm. reflexivity. }
    pose proof (reads_see_enclosing_overrides_tree P HP (erase p) (tree_erase p Hp) (wn_erase [] p Hw) m t (erase q) Hnm Hmq) as T.
    cbn zeta in T. rewrite <- E in T. cbn [ecfg c_st] in T. fold h s1 in T.
    set (s := c_st (run P n (start h s1))) in *.
    rewrite layers_est in T. destruct T as (A & tk' & rest & Hg & Hca & Hwn & Hts & Hl & Hlow).
    split; [exact A|]. apply get_est_inv in Hg as (tk & Hg & ->).
    exists tk, rest. rewrite lower_est in Hl, Hlow.
    split; [exact Hg|]. split; [exact Hca|]. split; [exact Hwn|]. split; [exact Hts|]. split; [exact Hl|].
    intros u c Hin. destruct (Hlow u c Hin) as (Hu & tku' & Hgu & Hcu & Hinc). split; [exact Hu|].
    apply get_est_inv in Hgu as (tku & Hgu & ->). exists tku. split; [exact Hgu|]. split; [exact Hcu|exact Hinc].
  Qed.

  (* the value an actual read returns: the EvRead event appended by the next step carries apply_l init (layers s) x *)
  Theorem actual_read_value_rtree0 n t x k :
    no_unwind P n (start h s1) -> c_mode (run P n (start h s1)) = MRun t (ReadVar x k) ->
    let s := c_st (run P n (start h s1)) in
    let v := apply_l (fun x => var_get x s1) (layers s) x in
    c_mode (run P (S n) (start h s1)) = MRun t (k v) /\
    trace (c_st (run P (S n) (start h s1))) = EvRead t x v :: trace s.
  Proof.
    intros Hn Hm. cbn zeta. destruct (reads_see_enclosing_overrides_rtree0 n t _ Hn Hm) as (A & _). cbn zeta in A.
    rewrite run_snoc. rewrite Hm. cbn [is_final].
    destruct (run P n (start h s1)) as [md fr s]. cbn [c_mode c_st] in *. subst md.
    cbn [step c_mode c_frames c_st]. rewrite (A x). split; reflexivity.
  Qed.

  Theorem reads_innermost_rtree0 n t q x :
    no_unwind P n (start h s1) -> c_mode (run P n (start h s1)) = MRun t q ->
    let s := c_st (run P n (start h s1)) in
    (forall pre u cid v post, layers s = pre ++ (u, COverride cid x v) :: post ->
       (forall l, In l post -> ovar (snd l) <> Some x) -> var_get x s = v) /\
    ((forall l, In l (layers s) -> ovar (snd l) <> Some x) -> var_get x s = var_get x s1).
  Proof.
    intros Hn Hm. cbn zeta. destruct (sim_run P p n Hp Hn) as (m & _ & E & Hnm).
    assert (Hmq : c_mode (run P m (start (fst (create [] (FTask (erase p)) (st0 P))) (snd (create [] (FTask (erase p)) (st0 P))))) = MRun t (erase q)).
    { rewrite <- E. cbn [ecfg c_mode]. fold h s1. rewrite Hm. reflexivity. }
    pose proof (reads_innermost_tree P HP (erase p) (tree_erase p Hp) (wn_erase [] p Hw) m t (erase q) x Hnm Hmq) as T.
    cbn zeta in T. rewrite <- E in T. cbn [ecfg c_st] in T. fold h s1 in T. rewrite layers_est in T. exact T.
  Qed.

  (* T1 *)
  Theorem values_restored_rtree0 n :
    no_unwind P n (start h s1) ->
    (c_mode (run P n (start h s1)) = MAfterExec \/ exists o, c_mode (run P n (start h s1)) = MDone o) ->
    forall x, var_get x (c_st (run P n (start h s1))) = var_get x s1.
  Proof.
    intros Hn Hm x. destruct (sim_run P p n Hp Hn) as (m & _ & E & Hnm).
    pose proof (values_restored_tree P HP (erase p) (tree_erase p Hp) (wn_erase [] p Hw) m Hnm) as T.
    rewrite <- E in T. cbn [ecfg c_st c_mode] in T. fold h s1 in T. apply T.
    destruct Hm as [Hm|(o & Hm)]; rewrite Hm; [left; reflexivity|right; exists o; reflexivity].
  Qed.

  (* C01: the value of the computation is the sequential value of the program with its reads erased *)
  Theorem async_eq_seq_rtree0 n o :
    no_unwind P n (start h s1) -> c_mode (run P n (start h s1)) = MDone o -> o = eval (erase p).
  Proof.
    intros Hn Hm. destruct (sim_run P p n Hp Hn) as (m & _ & E & Hnm).
    apply (async_eq_seq_tree P (erase p) m o HP (tree_erase p Hp) Hnm).
    rewrite <- E. cbn [ecfg c_mode]. fold h s1. rewrite Hm. reflexivity.
  Qed.
  (* T3 *)
  Theorem contexts_nest_lifo_rtree0 n :
    no_unwind P n (start h s1) ->
    lifo (layers (c_st (run P n (start h s1)))) (layers (c_st (run P (S n) (start h s1)))).
  Proof.
    intros Hn. destruct (sim_run P p n Hp Hn) as (m & _ & E & Hnm).
    pose proof (rh_run P n _ (RHc_start P p Hp)) as Hc. fold h s1 in Hc, E.
    rewrite run_snoc. destruct (is_final (c_mode (run P n (start h s1)))) eqn:Hf; [exists []; left; rewrite app_nil_r; reflexivity|].
    destruct (is_readm (c_mode (run P n (start h s1)))) eqn:Hr.
    - destruct (run P n (start h s1)) as [md fr s]. cbn [c_mode] in Hr.
      destruct md as [x| | | |t|t q| |o|e|o|]; try discriminate Hr. destruct q; try discriminate Hr.
      cbn [step c_mode c_frames c_st]. exists []. left. rewrite app_nil_r. reflexivity.
    - pose proof (contexts_nest_lifo_tree P HP (erase p) (tree_erase p Hp) (wn_erase [] p Hw) m Hnm) as T.
      rewrite run_snoc in T. rewrite <- E in T. cbn [ecfg c_mode] in T. rewrite is_final_emode, Hf in T.
      change (mkC (emode (c_mode (run P n (start h s1)))) (map eframe (c_frames (run P n (start h s1)))) (est (c_st (run P n (start h s1)))))
        with (ecfg (run P n (start h s1))) in T.
      rewrite (step_est P (run P n (start h s1)) Hr) in T. cbn [ecfg c_st] in T. rewrite !layers_est in T. exact T.
  Qed.

  (* the save-and-restore invariant *)
  Theorem saved_values_rtree0 n :
    no_unwind P n (start h s1) ->
    match c_mode (run P n (start h s1)) with
    | MUnwind _ | MStuck | MDone _ => True
    | _ => vars_ok (fun x => var_get x s1) (c_st (run P n (start h s1)))
    end.
  Proof.
    intros Hn. destruct (sim_run P p n Hp Hn) as (m & _ & E & Hnm).
    pose proof (saved_values_tree P HP (erase p) (tree_erase p Hp) (wn_erase [] p Hw) m Hnm) as T.
    rewrite <- E in T. cbn [ecfg c_st c_mode] in T. fold h s1 in T.
    assert (V : forall s, vars_ok (fun x => var_get x s1) (est s) -> vars_ok (fun x => var_get x s1) s).
    { intros s. unfold vars_ok, VOs. rewrite layers_est. intros H. exact H. }
    destruct (c_mode (run P n (start h s1))); cbn [emode] in T; try exact I; apply V; exact T.
  Qed.
End Transport.

Lemma reach_est s u t : reach (est s) u t -> reach s u t.
Proof.
  intros H. induction H as [|y tk' z Hr IH Hg Hin]; [apply reach_refl|].
  apply get_est_inv in Hg as (tk & Hg & ->). exact (reach_dep s u y tk z IH Hg Hin).
Qed.

(* the owners of the lower layers await the running task (needs rtree0 p only) *)
Theorem layer_owners_await_rtree0 P p n t q :
  pointwise P -> rtree0 p ->
  let h := fst (create [] (FTask p) (st0 P)) in
  let s1 := snd (create [] (FTask p) (st0 P)) in
  no_unwind P n (start h s1) -> c_mode (run P n (start h s1)) = MRun t q ->
  let s := c_st (run P n (start h s1)) in
  forall rest, tasks s = t :: rest -> forall u c, In (u, c) (lower s rest) -> reach s u t.
Proof.
  intros HP Hp. cbn zeta. intros Hn Hm rest Hts u c Hin.
  destruct (sim_run P p n Hp Hn) as (m & _ & E & Hnm).
  assert (Hmq : c_mode (run P m (start (fst (create [] (FTask (erase p)) (st0 P))) (snd (create [] (FTask (erase p)) (st0 P))))) = MRun t (erase q)).
  { rewrite <- E. cbn [ecfg c_mode]. rewrite Hm. reflexivity. }
  pose proof (layer_owners_await_tree P HP (erase p) (tree_erase p Hp) m t (erase q) Hnm Hmq) as T. cbn zeta in T.
  rewrite <- E in T. cbn [ecfg c_st] in T. apply reach_est. apply (T rest Hts u c). rewrite lower_est. exact Hin.
Qed.


(* ================================================================== synchronous calls: stree + non-branching reads *)
Inductive rstree0 : prog -> Prop :=
| rstree0_ret v : rstree0 (Ret v)
| rstree0_result v : rstree0 (Result v)
| rstree0_raise e : rstree0 (Raise e)
| rstree0_yield s k : (forall l, In l (leaves s) -> rstree0_leaf l) -> (forall o, rstree0 (k o)) -> rstree0 (Yield s k)
| rstree0_enter c k : plain_ctx c = true -> rstree0 k -> rstree0 (Enter c k)
| rstree0_exit c k : plain_ctx c = true -> rstree0 k -> rstree0 (Exit c k)
| rstree0_read var k : (forall v, rstree0 (k v)) -> (forall v v', k v = k v') -> rstree0 (ReadVar var k)
| rstree0_call q k : rstree0 q -> (forall o, rstree0 (k o)) -> rstree0 (Let (FTask q) (fun h => Sync h k))
with rstree0_leaf : leaf -> Prop :=
| rsl0_new f : rstree0_fexpr f -> rstree0_leaf (LNew f)
| rsl0_bad : rstree0_leaf LBad
with rstree0_fexpr : fexpr -> Prop :=
| sf0_task p : rstree0 p -> rstree0_fexpr (FTask p)
| sf0_item kind key a : rstree0_fexpr (FItem kind key a)
| sf0_const v : rstree0_fexpr (FConst v)
| sf0_error e : rstree0_fexpr (FError e)
| sf0_lazy o : rstree0_fexpr (FLazy o).

Scheme rstree0_mut := Minimality for rstree0 Sort Prop
with rstree0_leaf_mut := Minimality for rstree0_leaf Sort Prop
with rstree0_fexpr_mut := Minimality for rstree0_fexpr Sort Prop.

Lemma stree_erase p : rstree0 p -> stree (erase p).
Proof.
  apply (rstree0_mut (fun p => stree (erase p)) (fun l => stree_leaf (erase_leaf l)) (fun f => stree_fexpr (erase_fexpr f)));
    cbn [erase erase_leaf erase_fexpr]; intros; try (constructor; auto; fail).
  - apply st_yield; [|auto]. intros l Hin. rewrite leaves_ymap in Hin. apply in_map_iff in Hin as (a & <- & Ha). auto.
  - auto.
Qed.

Lemma rstree0_read_const var k v : rstree0 (ReadVar var k) -> erase (k v) = erase (ReadVar var k).
Proof. intros H. inversion H as [| | | | | |var' k' Hk Hc|]; subst. cbn [erase]. rewrite (Hc v (VInt 0)). reflexivity. Qed.

Definition sgen_ok (tk : task) : Prop := forall k, tk_gen tk = Some k -> forall o, rstree0 (k o).

Definition sfut_ok (f : fut) : Prop :=
  match f_kind f with
  | KTask tk => sgen_ok tk
  | _ => True
  end.

Definition SHh (s : st) : Prop := forall u f, get u s = Some f -> sfut_ok f.

Lemma SHh_view s s' : heap s' = heap s -> SHh s -> SHh s'.
Proof. intros Hh Hs u f Hg. apply (Hs u f). unfold get in *. rewrite <- Hh. exact Hg. Qed.

Lemma SHh_put u f s : sfut_ok f -> SHh s -> SHh (put u f s).
Proof.
  intros Hf Hs u0 f0 Hg. destruct (fid_eqb u0 u) eqn:E.
  - apply fid_eqb_eq in E. subst u0. rewrite get_put_same in Hg. inversion Hg; subst f0. exact Hf.
  - rewrite get_put_other in Hg by (intros ->; rewrite fid_eqb_refl in E; discriminate). apply (Hs u0 f0 Hg).
Qed.

Lemma SHh_set_task t tk s : sgen_ok tk -> SHh s -> SHh (set_task t tk s).
Proof. intros Hk Hs. unfold set_task. destruct (get t s); [apply SHh_put; [exact Hk|exact Hs]|exact Hs]. Qed.

Lemma SHh_gen s x o tk : SHh s -> get x s = Some (mkFut o (KTask tk)) -> sgen_ok tk.
Proof. intros Hs Hg. exact (Hs x _ Hg). Qed.

Lemma SHh_gen_task s x tk : SHh s -> get_task x s = Some tk -> sgen_ok tk.
Proof. intros Hs Hg. apply get_task_some in Hg as (o & Hg). exact (SHh_gen s x o tk Hs Hg). Qed.

Lemma sgen_ok_ctxs tk cs a : sgen_ok tk -> sgen_ok (tk_with_ctxs tk cs a).
Proof. intros H. exact H. Qed.

Lemma sgen_ok_ds tk b : sgen_ok tk -> sgen_ok (tk_set_ds tk b).
Proof. intros H. exact H. Qed.

Lemma sgen_ok_none a b c d e f g : sgen_ok (mkTask None a b c d e f g).
Proof. intros k Hk. discriminate. Qed.

Lemma SHh_enter_ctx x c s : SHh s -> SHh (enter_ctx x c s).
Proof.
  intros Hs. unfold enter_ctx.
  assert (H : SHh (match get_task x s with
                   | Some tk => set_task x (tk_with_ctxs tk (tk_ctxs tk ++ [c]) (tk_cact tk)) s
                   | None => s end)).
  { destruct (get_task x s) as [tk|] eqn:G; [|exact Hs]. apply SHh_set_task; [|exact Hs].
    apply sgen_ok_ctxs. exact (SHh_gen_task s x tk Hs G). }
  destruct c; (eapply SHh_view; [|exact H]); reflexivity.
Qed.

Lemma SHh_exit_ctx x c s : SHh s -> SHh (exit_ctx x c s).
Proof.
  intros Hs. unfold exit_ctx. destruct (get_task x s) as [tk|] eqn:G.
  - assert (H : SHh (set_task x (tk_with_ctxs tk (remove_ctx c (tk_ctxs tk)) (tk_cact tk)) s)).
    { apply SHh_set_task; [|exact Hs]. apply sgen_ok_ctxs. exact (SHh_gen_task s x tk Hs G). }
    destruct (tk_cact tk); [|exact H]. destruct c; (eapply SHh_view; [|exact H]); reflexivity.
  - destruct c; (eapply SHh_view; [|exact Hs]); reflexivity.
Qed.

Lemma SHh_fold {X} (f : st -> X -> st) l : (forall s x, SHh s -> SHh (f s x)) -> forall s, SHh s -> SHh (fold_left f l s).
Proof. intros H. induction l as [|x l IH]; intros s Hs; cbn; [exact Hs|]. apply IH, H, Hs. Qed.

Lemma SHh_fold_pair {X E} (f : st * E -> X -> st * E) l :
  (forall a x, SHh (fst a) -> SHh (fst (f a x))) -> forall a, SHh (fst a) -> SHh (fst (fold_left f l a)).
Proof. intros H. induction l as [|x l IH]; intros a Ha; cbn; [exact Ha|]. apply IH, H, Ha. Qed.

Lemma SHh_complete_task x o s : SHh s -> SHh (complete_task x o s).
Proof.
  intros Hs. unfold complete_task. destruct (get_task x s) as [tk|]; [|exact Hs].
  assert (H : SHh (match tk_gen tk with
                   | Some _ => fold_left (fun s c => exit_ctx x c s) (rev (tk_ctxs tk)) s
                   | None => s end)).
  { destruct (tk_gen tk); [|exact Hs]. apply SHh_fold; [|exact Hs]. intros s0 c0 H0. apply SHh_exit_ctx. exact H0. }
  destruct (get_task x _) as [tk1|]; [|exact H].
  match goal with |- SHh (emit ?e ?z) => apply (SHh_view z); [reflexivity|] end.
  apply SHh_put; [apply sgen_ok_none|exact H].
Qed.

Lemma SHh_accept_error x e s : SHh s -> SHh (accept_error x e s).
Proof. intros Hs. unfold accept_error. destruct (computed x s); [exact Hs|apply SHh_complete_task; exact Hs]. Qed.

Lemma SHh_resume_contexts x s : SHh s -> SHh (resume_contexts x s).
Proof.
  intros Hs. unfold resume_contexts. destruct (get_task x s) as [tk|] eqn:G; [|exact Hs].
  destruct (tk_cact tk); [exact Hs|].
  match goal with |- context [fold_left ?f ?l ?a] => assert (H2 : SHh (fst (fold_left f l a))) end.
  { apply SHh_fold_pair.
    - intros [s0 e0] c H0. cbn [fst] in *. pose proof (heap_resume1 x c s0) as Rr. destruct (resume1 x c s0). cbn [fst] in *.
      apply (SHh_view s0); [exact Rr|exact H0].
    - cbn [fst]. apply SHh_set_task; [|exact Hs]. apply sgen_ok_ctxs. exact (SHh_gen_task s x tk Hs G). }
  match goal with |- context [fold_left ?f ?l ?a] => destruct (fold_left f l a) as [s1 [e|]] end;
    cbn [fst] in H2; [apply SHh_accept_error; exact H2|exact H2].
Qed.

Lemma SHh_pause_contexts x s : SHh s -> SHh (pause_contexts x s).
Proof.
  intros Hs. unfold pause_contexts. destruct (get_task x s) as [tk|] eqn:G; [|exact Hs].
  destruct (negb (tk_cact tk)); [exact Hs|].
  match goal with |- context [fold_left ?f ?l ?a] => assert (H2 : SHh (fst (fold_left f l a))) end.
  { apply SHh_fold_pair.
    - intros [s0 e0] c H0. cbn [fst] in *. pose proof (heap_pause1 x c s0) as Rr. destruct (pause1 x c s0). cbn [fst] in *.
      apply (SHh_view s0); [exact Rr|exact H0].
    - cbn [fst]. apply SHh_set_task; [|exact Hs]. apply sgen_ok_ctxs. exact (SHh_gen_task s x tk Hs G). }
  match goal with |- context [fold_left ?f ?l ?a] => destruct (fold_left f l a) as [s1 [e|]] end;
    cbn [fst] in H2; [apply SHh_accept_error; exact H2|exact H2].
Qed.

Lemma SHh_kback s s' : kback s s' -> SHh s -> SHh s'.
Proof.
  intros K Hs u f' Hg. destruct (K u f' Hg) as (f & Hf & Ek & _). pose proof (Hs u f Hf) as H.
  unfold sfut_ok in *. rewrite Ek. exact H.
Qed.

Lemma SHh_flush_batch P k s : SHh s -> SHh (flush_batch P k s).
Proof. apply SHh_kback, kback_flush_batch. Qed.

Lemma SHh_cwb P s : SHh s -> SHh (continue_with_batch P s).
Proof. apply SHh_kback, kback_cwb. Qed.

Lemma SHh_schedule_batch k s : SHh s -> SHh (schedule_batch k s).
Proof. intros Hs. unfold schedule_batch. destruct (b_done _); [exact Hs|]. destruct (existsb _ _); exact Hs. Qed.

Lemma SHh_create parent f s : rstree0_fexpr f -> SHh s -> SHh (snd (create parent f s)).
Proof.
  intros Hf Hs. unfold create, alloc. cbn zeta.
  assert (H1 : SHh (with_top_next s (top_next s + 1))) by (apply (SHh_view s); [reflexivity|exact Hs]).
  destruct Hf as [q Hq|kind key a|v|e|o]; cbn [snd]; [| apply (SHh_view (put [top_next s] (mkFut None (KItem kind (cur_idx kind (with_top_next s (top_next s + 1))) key a)) (with_top_next s (top_next s + 1)))); [reflexivity|] | | |]; apply SHh_put; try exact H1; try exact I.
  intros k E o. cbn in E. inversion E; subst k. exact Hq.
Qed.

Lemma SHh_inst parent y : forall s, (forall l, In l (leaves y) -> rstree0_leaf l) -> SHh s -> SHh (snd (inst parent y s)).
Proof.
  induction y as [| a | l IH | l IH | l IH] using ystruct_ind2; intros s Hl Hs.
  - exact Hs.
  - destruct a as [f|h0|]; simpl; try exact Hs.
    assert (Hf : rstree0_fexpr f) by (specialize (Hl (LNew f) (or_introl eq_refl)); inversion Hl; assumption).
    pose proof (SHh_create parent f s Hf Hs) as H. destruct (create parent f s). exact H.
  - rewrite leaves_tuple in Hl. simpl. match goal with |- context [(?g l s)] => set (go := g) end.
    assert (H : forall s, (forall x, In x (flat_map leaves l) -> rstree0_leaf x) -> SHh s -> SHh (snd (go l s))).
    { clear s Hl Hs. induction IH as [|x l Hx Hl' IHl]; intros s Hl Hs; [exact Hs|]. simpl. cbn [flat_map] in Hl.
      specialize (Hx s (fun z Hz => Hl z (in_or_app _ _ _ (or_introl Hz))) Hs). destruct (inst parent x s) as [x' s1]. cbn [snd] in Hx.
      specialize (IHl s1 (fun z Hz => Hl z (in_or_app _ _ _ (or_intror Hz))) Hx). destruct (go l s1) as [l'' s2]. cbn [snd] in *. exact IHl. }
    specialize (H s Hl Hs). destruct (go l s). exact H.
  - rewrite leaves_ylist in Hl. simpl. match goal with |- context [(?g l s)] => set (go := g) end.
    assert (H : forall s, (forall x, In x (flat_map leaves l) -> rstree0_leaf x) -> SHh s -> SHh (snd (go l s))).
    { clear s Hl Hs. induction IH as [|x l Hx Hl' IHl]; intros s Hl Hs; [exact Hs|]. simpl. cbn [flat_map] in Hl.
      specialize (Hx s (fun z Hz => Hl z (in_or_app _ _ _ (or_introl Hz))) Hs). destruct (inst parent x s) as [x' s1]. cbn [snd] in Hx.
      specialize (IHl s1 (fun z Hz => Hl z (in_or_app _ _ _ (or_intror Hz))) Hx). destruct (go l s1) as [l'' s2]. cbn [snd] in *. exact IHl. }
    specialize (H s Hl Hs). destruct (go l s). exact H.
  - rewrite leaves_ydict in Hl. simpl. match goal with |- context [(?g l s)] => set (go := g) end.
    assert (H : forall s, (forall x, In x (flat_map (fun kv => leaves (snd kv)) l) -> rstree0_leaf x) -> SHh s -> SHh (snd (go l s))).
    { clear s Hl Hs. induction IH as [|[k x] l Hx Hl' IHl]; intros s Hl Hs; [exact Hs|]. simpl. cbn [flat_map snd] in Hl. cbn [snd] in Hx.
      specialize (Hx s (fun z Hz => Hl z (in_or_app _ _ _ (or_introl Hz))) Hs). destruct (inst parent x s) as [x' s1]. cbn [snd] in Hx.
      specialize (IHl s1 (fun z Hz => Hl z (in_or_app _ _ _ (or_intror Hz))) Hx). destruct (go l s1) as [l'' s2]. cbn [snd] in *. exact IHl. }
    specialize (H s Hl Hs). destruct (go l s). exact H.
Qed.

(* no frame of a synchronous call *)
Definition sfr_ok (fr : list frame) : Prop := forall t k, In (FValue t k) fr -> forall o, rstree0 (k o).
Definition smode_ok (p : prog) : Prop := rstree0 p \/ exists h k, p = Sync h k /\ forall o, rstree0 (k o).

Definition SHc (c : cfg) : Prop :=
  SHh (c_st c) /\ sfr_ok (c_frames c) /\ match c_mode c with MRun _ p => smode_ok p | _ => True end.

Ltac sni :=
  repeat match goal with
  | H : SHh ?s |- SHh ?s => exact H
  | |- SHh (emit _ ?X) => apply (SHh_view X); [reflexivity|]
  | |- SHh (pop_task ?X) => apply (SHh_view X); [reflexivity|]
  | |- SHh (with_tasks ?X _) => apply (SHh_view X); [reflexivity|]
  | |- SHh (with_active ?X _) => apply (SHh_view X); [reflexivity|]
  | |- SHh (reset_sched ?X) => apply (SHh_view X); [reflexivity|]
  | |- SHh (drop_sb ?X) => apply (SHh_view X); [apply heap_drop_sb|]
  | |- SHh (schedule_batch _ _) => apply SHh_schedule_batch
  | |- SHh (resume_contexts _ _) => apply SHh_resume_contexts
  | |- SHh (pause_contexts _ _) => apply SHh_pause_contexts
  | |- SHh (complete_task _ _ _) => apply SHh_complete_task
  | |- SHh (accept_error _ _ _) => apply SHh_accept_error
  | |- SHh (enter_ctx _ _ _) => apply SHh_enter_ctx
  | |- SHh (exit_ctx _ _ _) => apply SHh_exit_ctx
  | |- SHh (flush_batch _ _ _) => apply SHh_flush_batch
  | |- SHh (continue_with_batch _ _) => apply SHh_cwb
  | |- SHh (put _ (mkFut _ (KLazy _)) _) => apply SHh_put; [exact I|]
  | |- SHh (set_task _ (mkTask None _ _ _ _ _ _ _) _) => apply SHh_set_task; [apply sgen_ok_none|]
  | |- SHh (match get_task ?t ?s with Some _ => _ | None => _ end) => destruct (get_task t s) eqn:?
  | Hs : SHh ?s, G : get ?x ?s = Some (mkFut _ (KTask ?tk)) |- SHh (set_task _ (tk_set_ds ?tk _) _) =>
      apply SHh_set_task; [apply sgen_ok_ds; exact (SHh_gen s x _ tk Hs G)|]
  end.

Ltac ssplit_matches :=
  repeat match goal with
  | |- SHc (if ?x then _ else _) => destruct x eqn:?
  | |- SHc (match ?x with _ => _ end) => destruct x eqn:?
  | |- SHc (let '(_, _) := ?x in _) => destruct x eqn:?
  end.

Ltac sfin Hfr :=
  (split; [cbn [c_st]; sni|split; [cbn [c_frames];
     first [exact Hfr | solve [intros t0 k0 []]
           | intros t0 k0 Hin0; apply (Hfr t0 k0); cbn; auto; fail
           | intros t0 k0 Hin0; cbn in Hin0; destruct Hin0 as [E0|Hin0]; [discriminate E0|apply (Hfr t0 k0); cbn; auto]]
    |try exact I; try (left; apply (Hfr _ _ (or_introl eq_refl)))]]).

Lemma sh_step P c : SHc c -> SHc (step P c).
Proof.
  destruct c as [m fr s]. intros (Hh & Hfr & Hm). cbn [c_mode c_frames c_st] in Hh, Hfr, Hm.
  destruct m as [h| | | |t|t p| |o|e|o|].
  - (* MValue *) cbn [step c_mode c_frames c_st]. ssplit_matches; sfin Hfr.
  - (* MWaitHead *) cbn [step c_mode c_frames c_st]. ssplit_matches; sfin Hfr.
  - (* MAfterExec *) cbn [step c_mode c_frames c_st]. ssplit_matches; sfin Hfr.
  - (* MExecLoop *) cbn [step c_mode c_frames c_st]. ssplit_matches; sfin Hfr.
  - (* MResume *) cbn [step c_mode c_frames c_st]. destruct (get_task t s) as [tk|] eqn:G; [|sfin Hfr].
    pose proof (SHh_gen_task s t tk Hh G) as Hk.
    destruct (tk_gen tk) as [k|] eqn:Ek.
    + split; [|split; [exact Hfr|left; exact (Hk k Ek _)]]. cbn [c_st]. sni. apply SHh_set_task; [|exact Hh].
      intros k0 E0 o0. cbn in E0. inversion E0; subst k0. exact (Hk k Ek o0).
    + ssplit_matches; sfin Hfr.
  - (* MRun *) destruct Hm as [Hm|(h0 & k0 & -> & Hk0)].
    2:{ cbn [step c_mode c_frames c_st]. split; [exact Hh|split; [|exact I]]. cbn [c_frames].
        intros t1 k1 [E|Hin]; [inversion E; subst; exact Hk0|exact (Hfr t1 k1 Hin)]. }
    destruct Hm as [v|v|e|y k Hl Hk|c k Hc Hk|c k Hc Hk|var k Hk Hcst|q k Hq Hk]; cbn [step c_mode c_frames c_st].
    + ssplit_matches; sfin Hfr.
    + ssplit_matches; sfin Hfr.
    + sfin Hfr.
    + pose proof (SHh_inst t y s Hl Hh) as Hi. destruct (inst t y s) as [y' si]. cbn [snd] in Hi.
      destruct (get_task t si) as [tk|] eqn:G; [|sfin Hfr].
      assert (H2 : SHh (set_task t (mkTask (Some k) y' (tk_deps tk ++ futs (extract y')) (tk_ctxs tk) (tk_cact tk) (tk_ds tk) (tk_iter tk) (tk_next tk)) si)).
      { apply SHh_set_task; [|exact Hi]. intros k0 E0 o0. cbn in E0. inversion E0; subst k0. exact (Hk o0). }
      destruct (futs (extract y')); (split; [exact H2|split; [exact Hfr|exact I]]).
    + split; [cbn [c_st]; sni|split; [exact Hfr|left; exact Hk]].
    + split; [cbn [c_st]; sni|split; [exact Hfr|left; exact Hk]].
    + split; [cbn [c_st]; sni|split; [exact Hfr|left; apply Hk]].
    + pose proof (SHh_create t (FTask q) s (sf0_task q Hq) Hh) as Hcr. destruct (create t (FTask q) s) as [h1 sc]. cbn [snd] in Hcr.
      split; [exact Hcr|split; [exact Hfr|right; exists h1, k; split; [reflexivity|exact Hk]]].
  - (* MContRet *) cbn [step c_mode c_frames c_st]. destruct fr as [|[| | | |t old] fr']; try (sfin Hfr).
    assert (Ha : SHh (with_active s old)) by (apply (SHh_view s); [reflexivity|exact Hh]).
    apply SHh_set_task; [|exact Ha]. apply sgen_ok_ds.
    match goal with G : get_task t (with_active s old) = Some ?tk |- _ => exact (SHh_gen_task _ t tk Ha G) end.
  - (* MDeliver *) cbn [step c_mode c_frames c_st]. destruct fr as [|[| | | |] fr']; sfin Hfr.
  - (* MUnwind *) cbn [step c_mode c_frames c_st]. destruct fr as [|[| | | |] fr']; sfin Hfr.
  - exact (conj Hh (conj Hfr I)).
  - exact (conj Hh (conj Hfr I)).
Qed.

Lemma sh_run P n : forall c, SHc c -> SHc (run P n c).
Proof.
  induction n as [|n IH]; intros c Hc; [exact Hc|]. rewrite run_S.
  destruct (is_final (c_mode c)); [exact Hc|]. apply IH, sh_step, Hc.
Qed.

Lemma SHh_st0 P : SHh (st0 P).
Proof. intros u f Hg. cbn in Hg. discriminate. Qed.

Lemma SHc_start P p : rstree0 p ->
  SHc (start (fst (create [] (FTask p) (st0 P))) (snd (create [] (FTask p) (st0 P)))).
Proof.
  intros Hp. split; [|split; [intros t0 k0 [E|[]]; discriminate E|exact I]]. cbn [start c_st].
  apply SHh_create; [apply sf0_task; exact Hp|apply SHh_st0].
Qed.

(* the simulation for rstree0 runs (same proof as run_est; step_est holds for every program) *)
Lemma run_est_s P : forall n c, SHc c ->
  exists m, (m <= n)%nat /\ ecfg (run P n c) = run P m (ecfg c) /\
    forall k, (k <= m)%nat -> exists j, (j <= n)%nat /\ run P k (ecfg c) = ecfg (run P j c).
Proof.
  induction n as [|n IH]; intros c Hc.
  - exists O. split; [lia|]. split; [reflexivity|]. intros k Hk. exists O. split; [lia|].
    replace k with O by lia. reflexivity.
  - rewrite run_S. destruct (is_final (c_mode c)) eqn:Hf.
    + exists O. split; [lia|]. split; [reflexivity|]. intros k Hk. exists O. split; [lia|].
      replace k with O by lia. reflexivity.
    + destruct (IH (step P c) (sh_step P c Hc)) as (m & Hm & E & Hpre).
      destruct (is_readm (c_mode c)) eqn:Hr.
      * assert (Es : ecfg (step P c) = ecfg c).
        { destruct c as [md fr s]. cbn [c_mode] in Hr. destruct md as [h| | | |t|t p| |o|e|o|]; try discriminate Hr.
          destruct p; try discriminate Hr. destruct Hc as (_ & _ & [Hq|(h0 & k0 & E0 & _)]); [|discriminate E0].
          cbn [step c_mode c_frames c_st]. unfold ecfg. cbn [c_mode c_frames c_st emode].
          rewrite (rstree0_read_const _ _ _ Hq). reflexivity. }
        rewrite Es in E, Hpre. exists m. split; [lia|]. split; [exact E|].
        intros k Hk. destruct (Hpre k Hk) as (j & Hj & Ej). exists (S j). split; [lia|].
        rewrite run_S, Hf. exact Ej.
      * rewrite <- (step_est P c Hr) in E, Hpre.
        assert (Hfe : is_final (c_mode (ecfg c)) = false) by (cbn [ecfg c_mode]; rewrite is_final_emode; exact Hf).
        exists (S m). split; [lia|]. split; [rewrite run_S, Hfe; exact E|].
        intros k Hk. destruct k as [|k]; [exists O; split; [lia|reflexivity]|].
        destruct (Hpre k ltac:(lia)) as (j & Hj & Ej). exists (S j). split; [lia|].
        rewrite run_S, Hfe, run_S, Hf. exact Ej.
Qed.

Lemma sim_run_s P p n : rstree0 p ->
  let c0 := start (fst (create [] (FTask p) (st0 P))) (snd (create [] (FTask p) (st0 P))) in
  let d0 := start (fst (create [] (FTask (erase p)) (st0 P))) (snd (create [] (FTask (erase p)) (st0 P))) in
  no_unwind P n c0 ->
  exists m, (m <= n)%nat /\ ecfg (run P n c0) = run P m d0 /\ no_unwind P m d0.
Proof.
  intros Hp c0 d0 Hn. destruct (run_est_s P n c0 (SHc_start P p Hp)) as (m & Hm & E & Hpre).
  change (ecfg c0) with d0 in E, Hpre. exists m. split; [exact Hm|]. split; [exact E|].
  intros k Hk. destruct (Hpre k Hk) as (j & Hj & Ej). rewrite Ej. cbn [ecfg c_mode]. rewrite is_unwind_emode.
  apply Hn. exact Hj.
Qed.

(* C01S: value() = evals (erase p) *)
Theorem async_eq_seq_rstree0 P p n o :
  pointwise P -> rstree0 p ->
  let h := fst (create [] (FTask p) (st0 P)) in
  let s1 := snd (create [] (FTask p) (st0 P)) in
  no_unwind P n (start h s1) -> c_mode (run P n (start h s1)) = MDone o -> o = evals (erase p).
Proof.
  intros HP Hp. cbn zeta. intros Hn Hm. destruct (sim_run_s P p n Hp Hn) as (m & _ & E & Hnm).
  apply (async_eq_seq_stree P (erase p) m o HP (stree_erase p Hp) Hnm).
  rewrite <- E. cbn [ecfg c_mode]. rewrite Hm. reflexivity.
Qed.

(* ------------------------------------------------------------------ non-vacuity: a concrete run with reads *)
Definition c07r_fin (o : outcome) : prog := match o with Ok v => Ret v | Err e => Raise e end.
Definition c07r_child : prog :=
  ReadVar 0 (fun _ =>
  Enter (COverride 1 0 (VInt 30))
    (ReadVar 0 (fun _ =>
     Yield (YLeaf (LNew (FItem 0 1 (ASet (VInt 5)))))
       (fun o => ReadVar 0 (fun _ =>
          Exit (COverride 1 0 (VInt 30)) (ReadVar 0 (fun _ => c07r_fin o))))))).
Definition c07r_demo : prog :=
  ReadVar 0 (fun _ =>
  Enter (COverride 1 0 (VInt 10)) (Enter (COverride 2 0 (VInt 20))
    (ReadVar 0 (fun _ =>
     Yield (YLeaf (LNew (FTask c07r_child)))
       (fun o => ReadVar 0 (fun _ =>
          Exit (COverride 2 0 (VInt 20)) (ReadVar 0 (fun _ =>
          Exit (COverride 1 0 (VInt 10)) (ReadVar 0 (fun _ => c07r_fin o)))))))))).

Definition c07r_obs (e : event) : bool :=
  match e with EvRead _ _ _ | EvFlush _ _ _ => true | _ => false end.

Lemma c07r_fin_ok o : rtree0 (c07r_fin o) /\ wnr [] (c07r_fin o).
Proof. destruct o; split; constructor. Qed.

Lemma c07r_child_ok : rtree0 c07r_child /\ wnr [] c07r_child.
Proof.
  unfold c07r_child. split.
  - apply rtree0_read; [intros _|intros; reflexivity]. apply rtree0_enter; [reflexivity|].
    apply rtree0_read; [intros _|intros; reflexivity].
    apply rtree0_yield; [intros l [<-|[]]; repeat constructor|]. intros o.
    apply rtree0_read; [intros _|intros; reflexivity]. apply rtree0_exit; [reflexivity|].
    apply rtree0_read; [intros _|intros; reflexivity]. apply c07r_fin_ok.
  - apply wnr_read. intros _. apply wnr_enter; [intros []|]. cbn [app]. apply wnr_read. intros _.
    apply wnr_yield; [intros q [E|[]]; discriminate|]. intros o. apply wnr_read. intros _.
    apply (wnr_exit [] (COverride 1 0 (VInt 30))). apply wnr_read. intros _. apply c07r_fin_ok.
Qed.

Lemma c07r_demo_ok : rtree0 c07r_demo /\ wnr [] c07r_demo.
Proof.
  unfold c07r_demo. split.
  - apply rtree0_read; [intros _|intros; reflexivity]. apply rtree0_enter; [reflexivity|]. apply rtree0_enter; [reflexivity|].
    apply rtree0_read; [intros _|intros; reflexivity].
    apply rtree0_yield; [intros l [<-|[]]; apply rl0_new, rf0_task, c07r_child_ok|]. intros o.
    apply rtree0_read; [intros _|intros; reflexivity]. apply rtree0_exit; [reflexivity|].
    apply rtree0_read; [intros _|intros; reflexivity]. apply rtree0_exit; [reflexivity|].
    apply rtree0_read; [intros _|intros; reflexivity]. apply c07r_fin_ok.
  - apply wnr_read. intros _. apply wnr_enter; [intros []|]. cbn [app].
    apply wnr_enter; [cbn; intros [E|[]]; discriminate|]. cbn [app]. apply wnr_read. intros _.
    apply wnr_yield; [intros q [E|[]]; inversion E; subst; apply c07r_child_ok|]. intros o. apply wnr_read. intros _.
    apply (wnr_exit [COverride 1 0 (VInt 10)] (COverride 2 0 (VInt 20))). apply wnr_read. intros _.
    apply (wnr_exit [] (COverride 1 0 (VInt 10))). apply wnr_read. intros _. apply c07r_fin_ok.
Qed.

(* the parent [0] reads 0, then 20 inside its two overrides; the child [1] reads the parent's 20, its own 30, blocks on a
   batch item; after the flush it reads 30 again (its layer and the parent's were re-applied), 20 after leaving its block;
   the parent reads 20, 10, 0 on the way out *)
Lemma c07r_demo_runs :
  let P := mkP [] 1000 false [] in
  let h := fst (create [] (FTask c07r_demo) (st0 P)) in
  let s1 := snd (create [] (FTask c07r_demo) (st0 P)) in
  rtree0 c07r_demo /\ wnr [] c07r_demo /\ pointwise P /\ no_unwind_b P 100 (start h s1) = true /\
  c_mode (run P 100 (start h s1)) = MDone (Ok (VInt 5)) /\ eval (erase c07r_demo) = Ok (VInt 5) /\
  filter c07r_obs (rev (trace (c_st (run P 100 (start h s1))))) =
    [EvRead [0] 0 (VInt 0); EvRead [0] 0 (VInt 20); EvRead [1] 0 (VInt 20); EvRead [1] 0 (VInt 30);
     EvFlush 0 0 [[2]]; EvRead [1] 0 (VInt 30); EvRead [1] 0 (VInt 20); EvRead [0] 0 (VInt 20);
     EvRead [0] 0 (VInt 10); EvRead [0] 0 (VInt 0)]%Z.
Proof.
  split; [apply c07r_demo_ok|]. split; [apply c07r_demo_ok|]. split; [intros kind; reflexivity|]. vm_compute.
  repeat match goal with |- _ /\ _ => split end; reflexivity.
Qed.

(* STATUS.  Milestone 1 is complete: the stuttering simulation (step_est, step_read_est, run_est, sim_run) and the
   transported theorems (Section Transport).  Not done: programs BRANCHING on read values (class rtree, evalV / resolve,
   Milestone 2). *)
