(* C06, the alternation clause as a trace property for tree programs WITH SYNCHRONOUS CALLS (MachineC01S.stree)
   whose with-blocks are well nested.

   MachineC06T.v proves, for yield-only tree programs, that for every key (t, cid) the EvResume/EvPause events
   strictly alternate, starting with a resume, and that the newest one is a resume exactly when t is an uncompleted
   task whose _contexts_active flag is set and which has an AsyncContext cid open (state invariant TO).  Here the
   same invariant is carried over the invariant FLS of MachineDFSS.v (MachineC01S.CI + the flag/stack invariant
   stackC), i.e. through nested scheduler loops entered by  fn(args) = Let (FTask q) (fun h => Sync h k).

   The well-nestedness predicate [MachineC07.wn] has no case for a synchronous call (so  stree p /\ wn [] p  would
   say nothing new); [wns] below is wn plus that case:  wns op (Let (FTask q) (fun h => Sync h k))  when the callee
   body q is well nested on its own and every continuation k o is well nested with the same open list op.  wn op p
   implies wns op p.

   Route.  On top of FLS three facts are carried per configuration (invariant WI):
     TO s        the trace invariant of MachineC06T (unchanged);
     HIS R s     every uncompleted task that is not executing (R = the task of MRun and the callers suspended in
                 FValue frames) has distinct context ids and a suspended continuation that is well nested with the
                 task's open list;
     fv_ok s fr  for every frame FValue t k: t is an uncompleted task with distinct context ids and every k o is
                 well nested with t's open list (the nested loops never touch t's entry: t is older than everything
                 they work on - MachineC01S.wt_ok_fvals);
     rok s t p   for MRun t p: the same for the running body.
   The transitions that emit resume/pause events are handled exactly as in MachineC06T (TO_chg); the new
   transitions (Let (FTask q), Sync, MValue/MWaitHead below a caller, MDeliver into FValue t k) emit none and do not
   change any task's flag or context list.  The facts "the running task's contexts are active" and "at the end
   nobody is active" come from MachineDFSS.stackS (own / fl). *)
From Asynq Require Import Machine Seq proofs.ProgProofs proofs.MachineFrame proofs.MachineC05 proofs.MachineC08
     proofs.MachineC01 proofs.MachineC01S proofs.MachineDFS proofs.MachineC04 proofs.MachineC07 proofs.MachineC06T
     proofs.MachineDFSS.

(* ------------------------------------------------------------------ well-nested with-blocks, with synchronous calls *)
Inductive wns : list ctxk -> prog -> Prop :=
| wns_ret v : wns [] (Ret v)
| wns_result v : wns [] (Result v)
| wns_raise e : wns [] (Raise e)
| wns_yield op s k : (forall p, In (LNew (FTask p)) (leaves s) -> wns [] p) -> (forall o, wns op (k o)) -> wns op (Yield s k)
| wns_enter op c k : ~ In (cid_of c) (map cid_of op) -> wns (op ++ [c]) k -> wns op (Enter c k)
| wns_exit op c k : wns op k -> wns (op ++ [c]) (Exit c k)
| wns_call op q k : wns [] q -> (forall o, wns op (k o)) -> wns op (Let (FTask q) (fun h => Sync h k)).

Lemma wn_wns op p : wn op p -> wns op p.
Proof.
  intros H. induction H as [v|v|e|op s k Hl IHl Hk IHk|op c k Hc Hk IHk|op c k Hk IHk].
  - apply wns_ret.
  - apply wns_result.
  - apply wns_raise.
  - apply wns_yield; assumption.
  - apply wns_enter; assumption.
  - apply wns_exit; assumption.
Qed.

Lemma wns_call_inv op q k : wns op (Let (FTask q) (fun h => Sync h k)) -> wns [] q /\ forall o, wns op (k o).
Proof.
  intros H. inversion H as [| | | | | |op' q' k' Hq Hk E1 E2]. subst.
  assert (Ek : k' = k).
  { match goal with E : (fun h => Sync h k') = _ |- _ => apply (f_equal (fun f => f [])) in E; cbn in E; inversion E; reflexivity end. }
  subst k'. split; assumption.
Qed.

Lemma wns_done_inv op p : wns op p -> (exists v, p = Ret v) \/ (exists v, p = Result v) \/ (exists e, p = Raise e) -> op = [].
Proof. intros H [(v & ->)|[(v & ->)|(e & ->)]]; inversion H; reflexivity. Qed.

Lemma wns_yield_inv op y k : wns op (Yield y k) ->
  (forall q, In (LNew (FTask q)) (leaves y) -> wns [] q) /\ forall o, wns op (k o).
Proof. intros H. inversion H; subst. split; assumption. Qed.

Lemma wns_enter_inv op c k : wns op (Enter c k) -> ~ In (cid_of c) (map cid_of op) /\ wns (op ++ [c]) k.
Proof. intros H. inversion H; subst. split; assumption. Qed.

Lemma wns_exit_inv op c k : wns op (Exit c k) -> exists op', op = op' ++ [c] /\ wns op' k.
Proof. intros H. inversion H; subst. eexists. split; [reflexivity|assumption]. Qed.

Lemma wns_sync_inv op h k : ~ wns op (Sync h k).
Proof. intros H. inversion H. Qed.

(* ------------------------------------------------------------------ the heap part of the invariant *)
Definition ctxs_okS (tk : task) : Prop :=
  NoDup (map cid_of (tk_ctxs tk)) /\ forall k, tk_gen tk = Some k -> forall o, wns (tk_ctxs tk) (k o).

Definition HIS (R : list fid) (s : st) : Prop :=
  forall u tk, get u s = Some (mkFut None (KTask tk)) -> ~ In u R -> ctxs_okS tk.

(* a caller suspended in value() with continuation k *)
Definition kok (s : st) (t : fid) (k : outcome -> prog) : Prop :=
  exists tk, get t s = Some (mkFut None (KTask tk)) /\ NoDup (map cid_of (tk_ctxs tk)) /\ forall o, wns (tk_ctxs tk) (k o).

Fixpoint fv_ok (s : st) (fr : list frame) : Prop :=
  match fr with
  | [] => True
  | FValue t k :: fr' => kok s t k /\ fv_ok s fr'
  | _ :: fr' => fv_ok s fr'
  end.

(* the running body *)
Definition rok (s : st) (t : fid) (p : prog) : Prop :=
  exists tk, get t s = Some (mkFut None (KTask tk)) /\ NoDup (map cid_of (tk_ctxs tk)) /\
    (wns (tk_ctxs tk) p \/ exists h k, p = Sync h k /\ forall o, wns (tk_ctxs tk) (k o)).

Lemma HIS_chg R R' s s' x :
  HIS R s -> (forall h, h <> x -> get h s' = get h s) -> (forall u, u <> x -> ~ In u R' -> ~ In u R) ->
  (forall tk', get x s' = Some (mkFut None (KTask tk')) -> ~ In x R' -> ctxs_okS tk') ->
  HIS R' s'.
Proof.
  intros H Ho Hr Hx u tk Hg Hn. destruct (fid_eqb u x) eqn:E.
  - apply fid_eqb_eq in E. subst u. apply Hx; auto.
  - assert (N : u <> x) by (intros ->; rewrite fid_eqb_refl in E; discriminate). rewrite Ho in Hg by exact N.
    apply (H u tk Hg). apply Hr; auto.
Qed.

Lemma HIS_back R s s' :
  HIS R s -> (forall u tk, get u s' = Some (mkFut None (KTask tk)) -> get u s = Some (mkFut None (KTask tk))) -> HIS R s'.
Proof. intros H Hb u tk Hg Hn. apply (H u tk (Hb u tk Hg) Hn). Qed.

Lemma HIS_view R s s' : heap s' = heap s -> HIS R s -> HIS R s'.
Proof. intros Hh H. apply (HIS_back R s s' H). intros u tk Hg. unfold get in *. rewrite Hh in Hg. exact Hg. Qed.

Lemma fv_ok_fwd s s' fr :
  (forall u tk, In u (fvals fr) -> get u s = Some (mkFut None (KTask tk)) -> get u s' = Some (mkFut None (KTask tk))) ->
  fv_ok s fr -> fv_ok s' fr.
Proof.
  induction fr as [|f fr IH]; intros Hf H; [exact I|].
  destruct f as [ |t k|r|i|t old]; cbn [fv_ok fvals] in *; try (apply IH; assumption).
  destruct H as [(tk & Hg & Hn & Hw) H]. split.
  - exists tk. split; [apply Hf; [left; reflexivity|exact Hg]|]. split; assumption.
  - apply IH; [|exact H]. intros u tku Hu. apply Hf. right. exact Hu.
Qed.

Lemma fv_ok_view s s' fr : heap s' = heap s -> fv_ok s fr -> fv_ok s' fr.
Proof. intros Hh. apply fv_ok_fwd. intros u tk _ Hg. unfold get in *. rewrite Hh. exact Hg. Qed.

Lemma fv_ok_chg s s' x fr :
  (forall h, h <> x -> get h s' = get h s) -> ~ In x (fvals fr) -> fv_ok s fr -> fv_ok s' fr.
Proof.
  intros Ho Hn. apply fv_ok_fwd. intros u tk Hu Hg. rewrite Ho; [exact Hg|]. intros ->. contradiction.
Qed.

(* ------------------------------------------------------------------ what a yield expression adds to the heap *)
(* every task entry afterwards is an entry from before or a fresh task whose body is well nested *)
Definition tback (s s' : st) : Prop :=
  forall u o tk, get u s' = Some (mkFut o (KTask tk)) ->
    get u s = Some (mkFut o (KTask tk)) \/ (o = None /\ exists q, tk = fresh_task q /\ wns [] q).

Lemma tback_refl s : tback s s.
Proof. intros u o tk H. left. exact H. Qed.

Lemma tback_trans a b c : tback a b -> tback b c -> tback a c.
Proof. intros H1 H2 u o tk Hg. destruct (H2 u o tk Hg) as [Hb|Hn]; [apply (H1 u o tk Hb)|right; exact Hn]. Qed.

Definition oklS (l : leaf) : Prop := forall q, l = LNew (FTask q) -> wns [] q.

Lemma tback_create parent s f : True -> oklS (LNew f) -> True /\ tback s (snd (create parent f s)).
Proof.
  intros _ Hw. split; [exact I|]. intros u o tk Hg.
  destruct (create_entries parent f s) as (e & Hnew & _ & Hoth).
  assert (Hfst : fst (create parent f s) = [top_next s]) by (unfold create, alloc; destruct f; reflexivity).
  destruct (fid_eqb u [top_next s]) eqn:E.
  - apply fid_eqb_eq in E. subst u. right. rewrite <- Hfst in Hg.
    destruct (create_task_entry parent f s o tk Hg) as (q & -> & -> & ->).
    split; [reflexivity|]. exists q. split; [reflexivity|apply Hw; reflexivity].
  - assert (N : u <> [top_next s]) by (intros ->; rewrite fid_eqb_refl in E; discriminate).
    left. rewrite <- (Hoth u N). exact Hg.
Qed.

Lemma tback_inst parent y s : (forall q, In (LNew (FTask q)) (leaves y) -> wns [] q) -> tback s (snd (inst parent y s)).
Proof.
  intros Hl.
  apply (inst_rel parent (fun _ => True) tback oklS tback_refl tback_trans (tback_create parent) y s I).
  intros l Hin q ->. apply Hl. exact Hin.
Qed.

Lemma HIS_new R s s' : HIS R s -> tback s s' -> HIS R s'.
Proof.
  intros H N u tk Hg Hr. destruct (N u None tk Hg) as [Hold|(_ & q & -> & Hq)]; [apply (H u tk Hold Hr)|].
  split; cbn; [constructor|]. intros k E o. inversion E. exact Hq.
Qed.

(* ------------------------------------------------------------------ TO under _resume_contexts / _pause_contexts *)
Lemma TO_resume_contextsS s x tk :
  forallb plain_ctx (tk_ctxs tk) = true -> get x s = Some (mkFut None (KTask tk)) ->
  NoDup (map cid_of (tk_ctxs tk)) -> TO s -> TO (resume_contexts x s).
Proof.
  intros Hp Hg Hnd H.
  destruct (resume_contexts_plain x s None tk Hg Hp) as [R1 R2].
  destruct (tk_cact tk) eqn:Hc; [rewrite (R1 eq_refl); exact H|].
  destruct (R2 eq_refl) as (A & B & _).
  apply (TO_chg true s _ x (acids (tk_ctxs tk)) H).
  - rewrite (resume_contexts_eq x s None tk Hg Hp Hc), (cev_fold_resume x _ _ Hp), cev_set_task. reflexivity.
  - apply acids_nodup. exact Hnd.
  - exact B.
  - intros cid Hin. unfold opens. rewrite A, Hg. cbn [fopens tk_cact tk_ctxs tk_with_ctxs]. rewrite Hc.
    split; [split; [intros []|discriminate]|split; [reflexivity|intros _; exact Hin]].
  - intros cid Hnin. unfold opens. rewrite A, Hg. cbn [fopens tk_cact tk_ctxs tk_with_ctxs]. rewrite Hc.
    split; [intros Hi; contradiction|intros []].
Qed.

Lemma TO_pause_contextsS s x tk :
  forallb plain_ctx (tk_ctxs tk) = true -> get x s = Some (mkFut None (KTask tk)) ->
  NoDup (map cid_of (tk_ctxs tk)) -> TO s -> TO (pause_contexts x s).
Proof.
  intros Hp Hg Hnd H.
  destruct (pause_contexts_plain x s None tk Hg Hp) as [R1 R2].
  destruct (tk_cact tk) eqn:Hc; [|rewrite (R1 eq_refl); exact H].
  destruct (R2 eq_refl) as (A & B & _).
  assert (Hp' : forallb plain_ctx (rev (tk_ctxs tk)) = true) by (rewrite forallb_rev; exact Hp).
  apply (TO_chg false s _ x (acids (rev (tk_ctxs tk))) H).
  - rewrite (pause_contexts_eq x s None tk Hg Hp Hc), (cev_fold_pause x _ _ Hp'), cev_set_task. reflexivity.
  - apply acids_rev_nodup. exact Hnd.
  - exact B.
  - intros cid Hin. apply (proj1 (acids_rev_in _ _)) in Hin. unfold opens. rewrite A, Hg. cbn [fopens tk_cact tk_ctxs tk_with_ctxs]. rewrite Hc.
    split; [split; [reflexivity|intros _; exact Hin]|split; [intros []|discriminate]].
  - intros cid Hnin. unfold opens. rewrite A, Hg. cbn [fopens tk_cact tk_ctxs tk_with_ctxs]. rewrite Hc.
    split; [intros []|intros Hi; apply Hnin; apply acids_rev_in; exact Hi].
Qed.

(* entries of tasks are kept, no new uncompleted task entry appears: opens is unchanged *)
Lemma opens_task_same s s' :
  (forall t out tk, get t s = Some (mkFut out (KTask tk)) -> get t s' = Some (mkFut out (KTask tk))) ->
  task_back s s' -> forall t, opens s' t = opens s t.
Proof.
  intros C Bk t. unfold opens. destruct (get t s) as [[out [tk|kind idx key a|o'|]]|] eqn:Hg.
  - rewrite (C t out tk Hg). reflexivity.
  - rewrite (fopens_nontask (get t s')); [destruct out; reflexivity|].
    intros tk' Hg'. apply Bk in Hg'. rewrite Hg in Hg'. discriminate.
  - rewrite (fopens_nontask (get t s')); [destruct out; reflexivity|].
    intros tk' Hg'. apply Bk in Hg'. rewrite Hg in Hg'. discriminate.
  - rewrite (fopens_nontask (get t s')); [destruct out; reflexivity|].
    intros tk' Hg'. apply Bk in Hg'. rewrite Hg in Hg'. discriminate.
  - rewrite (fopens_nontask (get t s')); [reflexivity|].
    intros tk' Hg'. apply Bk in Hg'. rewrite Hg in Hg'. discriminate.
Qed.

(* new entries are fresh tasks (no flag set) or not tasks: opens is unchanged *)
Lemma opens_tback s s' :
  (forall h, get h s <> None -> get h s' = get h s) -> tback s s' -> forall u, opens s' u = opens s u.
Proof.
  intros N1 N2 u. unfold opens. destruct (get u s) as [f|] eqn:Hg.
  - rewrite N1 by (rewrite Hg; discriminate). rewrite Hg. reflexivity.
  - cbn [fopens]. destruct (get u s') as [[[o|] [tk| | |]]|] eqn:Hg'; try reflexivity.
    destruct (N2 u None tk Hg') as [Hold|(_ & q & -> & _)]; [rewrite Hg in Hold; discriminate|reflexivity].
Qed.

Lemma NoDup_snoc_intro {A} (l : list A) a : NoDup l -> ~ In a l -> NoDup (l ++ [a]).
Proof.
  induction l as [|x l IH]; intros Hn Hi; cbn; [constructor; [intros []|constructor]|].
  inversion Hn as [|y l' Hx Hl]; subst. constructor.
  - intros Hin. apply in_app_or in Hin as [Hin|[E|[]]]; [contradiction|]. apply Hi. left. symmetry. exact E.
  - apply IH; [exact Hl|]. intros Hin. apply Hi. right. exact Hin.
Qed.

Lemma resume_entryP s x out tk :
  forallb plain_ctx (tk_ctxs tk) = true -> get x s = Some (mkFut out (KTask tk)) ->
  upd_entry s (resume_contexts x s) x (mkFut out (KTask (tk_with_ctxs tk (tk_ctxs tk) true))).
Proof.
  intros Hp Hg. destruct (resume_contexts_plain x s out tk Hg Hp) as [H1 H2]. destruct (tk_cact tk) eqn:Hc.
  - rewrite (H1 eq_refl). apply upd_entry_refl. rewrite Hg. destruct tk. cbn in *. subst. reflexivity.
  - apply H2. reflexivity.
Qed.

Lemma pause_entryP s x out tk :
  forallb plain_ctx (tk_ctxs tk) = true -> get x s = Some (mkFut out (KTask tk)) ->
  upd_entry s (pause_contexts x s) x (mkFut out (KTask (tk_with_ctxs tk (tk_ctxs tk) false))).
Proof.
  intros Hp Hg. destruct (pause_contexts_plain x s out tk Hg Hp) as [H1 H2]. destruct (tk_cact tk) eqn:Hc.
  - apply H2. reflexivity.
  - rewrite (H1 eq_refl). apply upd_entry_refl. rewrite Hg. destruct tk. cbn in *. subst. reflexivity.
Qed.

(* one entry is replaced *)
Lemma HIS_upd R R' s s' x f' :
  HIS R s -> upd_entry s s' x f' -> (forall u, u <> x -> ~ In u R' -> ~ In u R) ->
  (forall tk', f' = mkFut None (KTask tk') -> ~ In x R' -> ctxs_okS tk') -> HIS R' s'.
Proof.
  intros H (A & B & _) Hr Hx. apply (HIS_chg R R' s s' x H B Hr).
  intros tk' Hg Hn. rewrite A in Hg. inversion Hg. apply Hx; [assumption|exact Hn].
Qed.

Lemma fv_ok_upd s s' x f' fr : upd_entry s s' x f' -> ~ In x (fvals fr) -> fv_ok s fr -> fv_ok s' fr.
Proof. intros (_ & B & _). apply fv_ok_chg. exact B. Qed.

Lemma notin_cons_drop (t : fid) l : forall u, u <> t -> ~ In u l -> ~ In u (t :: l).
Proof. intros u N H [E|H']; [apply N; symmetry; exact E|contradiction]. Qed.

Lemma notin_cons_add (t : fid) l : forall u, u <> t -> ~ In u (t :: l) -> ~ In u l.
Proof. intros u N H H'. apply H. right. exact H'. Qed.

(* ------------------------------------------------------------------ every machine step preserves the invariant *)
Definition WIp (R : list fid) (fr : list frame) (s : st) : Prop := TO s /\ HIS R s /\ fv_ok s fr.

Lemma WIp_view R fr s s' : heap s' = heap s -> cev s' = cev s -> WIp R fr s -> WIp R fr s'.
Proof.
  intros Hh Ht (A & B & C).
  split; [apply (TO_eq s); [exact Ht|intros t; apply opens_get; unfold get; rewrite Hh; reflexivity|exact A]|]. split; [apply (HIS_view R s); assumption|].
  apply (fv_ok_view s); assumption.
Qed.

Section C06S.
  Variable P : params.
  Hypothesis HP : pointwise P.
  Variable res : outcome.

  Definition WI (c : cfg) : Prop :=
    match c_mode c with
    | MUnwind _ => True
    | MStuck => False                     (* never reached *)
    | MDone _ => TO (c_st c)
    | m => WIp (R_of m (c_frames c)) (c_frames c) (c_st c) /\
           match m with MRun t p => rok (c_st c) t p | _ => True end
    end.

  Lemma WI_plain m fr s : plainmode m -> WIp (fvals fr) fr s -> WI (mkC m fr s).
  Proof. destruct m; intros Hm H; try destruct Hm; unfold WI; cbn [c_mode c_frames c_st R_of]; (split; [exact H|exact I]). Qed.

  Lemma WI_plain_inv m fr s : plainmode m -> WI (mkC m fr s) -> WIp (fvals fr) fr s.
  Proof. destruct m; intros Hm H; try destruct Hm; unfold WI in H; cbn [c_mode c_frames c_st R_of] in H; apply H. Qed.

  Lemma wi_MValue spec h fr s : FLS res spec (mkC (MValue h) fr s) -> WI (mkC (MValue h) fr s) ->
    WI (step P (mkC (MValue h) fr s)).
  Proof.
    intros ((_ & _ & Ht) & _) HA. cbn [c_mode c_frames c_st mode_ok] in Ht. apply WI_plain_inv in HA; [|exact I].
    cbn [step c_mode c_frames c_st].
    destruct (computed h s); [apply WI_plain; [exact I|exact HA]|]. destruct Ht as (out & tk & Hg). rewrite Hg.
    apply WI_plain; [exact I|exact HA].
  Qed.

  Lemma wi_MWaitHead spec fr s : FLS res spec (mkC MWaitHead fr s) -> WI (mkC MWaitHead fr s) ->
    WI (step P (mkC MWaitHead fr s)).
  Proof.
    intros (_ & HK) HA. unfold stackC in HK. cbn [c_mode c_frames c_st stackS] in HK. destruct HK as (r & vs & -> & _).
    apply WI_plain_inv in HA; [|exact I]. cbn [step c_mode c_frames c_st].
    destruct (computed r s); apply WI_plain; try exact I.
    - apply (WIp_view _ _ s); [apply heap_drop_sb|apply cev_view, trace_drop_sb|exact HA].
    - apply (WIp_view _ _ s); [reflexivity|reflexivity|exact HA].
  Qed.

  Lemma wi_MAfterExec spec fr s : FLS res spec (mkC MAfterExec fr s) -> WI (mkC MAfterExec fr s) ->
    WI (step P (mkC MAfterExec fr s)).
  Proof.
    intros ((_ & HS & _) & HK) HA. cbn [c_mode c_frames c_st] in HS.
    unfold stackC in HK. cbn [c_mode c_frames c_st stackS] in HK. destruct HK as (r & vs & -> & _).
    apply WI_plain_inv in HA; [|exact I]. cbn [step c_mode c_frames c_st].
    destruct (computed r s); apply WI_plain; try exact I.
    - apply (WIp_view _ _ s); [apply heap_drop_sb|apply cev_view, trace_drop_sb|exact HA].
    - destruct HA as (HT & HH & HF). cbn [fvals fv_ok] in *.
      destruct (SI_continue_with_batch spec _ P s HP HS) as (_ & _ & C).
      assert (Bk : task_back s (continue_with_batch P s)) by (apply continue_with_batch_task_back; apply HS).
      split; [|split].
      + apply (TO_eq s); [apply cev_continue_with_batch|apply opens_task_same; assumption|exact HT].
      + apply (HIS_back _ s); [exact HH|]. intros u tk Hg. apply (Bk u None tk Hg).
      + apply (fv_ok_fwd s); [|exact HF]. intros u tk _ Hg. apply C. exact Hg.
  Qed.

  Lemma wi_MExecLoop spec fr s : FLS res spec (mkC MExecLoop fr s) -> WI (mkC MExecLoop fr s) ->
    WI (step P (mkC MExecLoop fr s)).
  Proof.
    intros ((Hf & HS & _) & _) HA. cbn [c_mode c_frames c_st] in *. destruct Hf as (init & r & vs & -> & Hlv).
    cbn [R_of fvals] in HS. apply WI_plain_inv in HA; [|exact I]. cbn [fvals] in HA.
    cbn [step c_mode c_frames c_st].
    destruct (Nat.leb (length (tasks s)) init) eqn:Hleb; [apply WI_plain; [exact I|exact HA]|].
    destruct (Z.ltb (p_maxstack P) (Z.of_nat (length (tasks s)))); [exact I|].
    destruct (tasks s) as [|x ts] eqn:Hts; [apply WI_plain; [exact I|exact HA]|].
    assert (Hxr : (fnum r <= fnum x)%Z).
    { apply (proj1 Hlv). apply hi_top. apply Nat.leb_gt in Hleb. cbn [length] in Hleb. lia. }
    assert (HxR : ~ In x (fvals vs)).
    { intros Hin. pose proof (wt_ok_fvals _ _ _ _ _ (proj2 Hlv) x Hin). lia. }
    assert (Hpop : forall s2, WIp (fvals vs) vs s2 -> WI (mkC MExecLoop (FExec init :: FWait r :: vs) (pop_task s2))).
    { intros s2 H2. apply WI_plain; [exact I|]. apply (WIp_view _ _ s2); [reflexivity|reflexivity|exact H2]. }
    destruct HA as (HT & HH & HF). cbn [fv_ok] in HF.
    destruct (computed x s) eqn:Hcx; [apply Hpop; split; [exact HT|split; assumption]|].
    destruct (get x s) as [[out [tk|kind idx key a|o'|]]|] eqn:Hg.
    - assert (out = None) as -> by (unfold computed in Hcx; rewrite Hg in Hcx; cbn in Hcx; destruct out; [discriminate|reflexivity]).
      pose proof (SI_plain _ _ _ _ _ _ HS Hg) as Hp.
      destruct (HH x tk Hg HxR) as (Hnd & Hwn).
      (* the entry of x is replaced by one with the same contexts and generator *)
      assert (Hsame : forall s' tk', upd_entry s s' x (mkFut None (KTask tk')) -> tk_ctxs tk' = tk_ctxs tk ->
                        tk_gen tk' = tk_gen tk -> HIS (fvals vs) s' /\ fv_ok s' vs).
      { intros s' tk' U E1 E2. split; [|apply (fv_ok_upd s s' x _ vs U HxR HF)].
        apply (HIS_upd _ _ s s' x _ HH U); [auto|]. intros tk2 E _. inversion E; subst tk2. unfold ctxs_okS. rewrite E1, E2. split; assumption. }
      destruct (is_blocked tk s) eqn:Hb.
      + destruct (tk_ds tk) eqn:Hds.
        * pose proof (set_task_upd s x None tk (tk_set_ds tk false) Hg) as U1. pose proof U1 as (G1 & _).
          pose proof (pause_entryP _ x None (tk_set_ds tk false) Hp G1) as U2.
          destruct (Hsame _ _ (upd_entry_trans _ _ _ _ _ _ U1 U2) eq_refl eq_refl) as (HH' & HF').
          apply Hpop. split; [|split; assumption].
          apply (TO_pause_contextsS _ x (tk_set_ds tk false) Hp G1 Hnd).
          apply (TO_set_same s _ x None tk (tk_set_ds tk false) Hg U1); [reflexivity|reflexivity|apply cev_set_task|exact HT].
        * pose proof (set_task_upd s x None tk (tk_set_ds tk true) Hg) as U1. pose proof U1 as (G1 & _).
          pose proof (resume_entryP _ x None (tk_set_ds tk true) Hp G1) as U2.
          destruct (Hsame _ _ (upd_entry_trans _ _ _ _ _ _ U1 U2) eq_refl eq_refl) as (HH' & HF').
          apply WI_plain; [exact I|].
          apply (WIp_view _ _ (resume_contexts x (set_task x (tk_set_ds tk true) s))); [reflexivity|reflexivity|].
          split; [|split; assumption].
          apply (TO_resume_contextsS _ x (tk_set_ds tk true) Hp G1 Hnd).
          apply (TO_set_same s _ x None tk (tk_set_ds tk true) Hg U1); [reflexivity|reflexivity|apply cev_set_task|exact HT].
      + rewrite (computed_resume_contextsS spec _ s x HS x), Hcx.
        pose proof (resume_entryP s x None tk Hp Hg) as U.
        destruct (Hsame _ _ U eq_refl eq_refl) as (HH' & HF').
        apply WI_plain; [exact I|].
        apply (WIp_view _ _ (resume_contexts x s)); [reflexivity|reflexivity|].
        split; [|split; assumption]. apply (TO_resume_contextsS s x tk Hp Hg Hnd HT).
    - apply Hpop.
      assert (Hh : heap (schedule_batch (kind, idx) s) = heap s) by (unfold schedule_batch; destruct (b_done _); [reflexivity|]; destruct (existsb _ _); reflexivity).
      split; [|split; [apply (HIS_view _ s); assumption|apply (fv_ok_view s); assumption]].
      apply (TO_eq s); [apply cev_schedule_batch| |exact HT].
      intros t. apply opens_get. unfold get. rewrite Hh. reflexivity.
    - apply Hpop. set (s1 := put x (mkFut (Some o') (KLazy o')) s).
      assert (U : upd_entry s s1 x (mkFut (Some o') (KLazy o'))) by apply upd_entry_put.
      split; [|split; [|apply (fv_ok_upd s s1 x _ vs U HxR HF)]].
      + apply (TO_eq s); [reflexivity| |exact HT].
        apply (opens_others s _ x); [intros h N; apply get_put_other; exact N|].
        unfold opens, s1. rewrite get_put_same, Hg. destruct out; reflexivity.
      + apply (HIS_upd _ _ s s1 x _ HH U); [auto|]. intros tk2 E _. discriminate E.
    - apply Hpop. split; [exact HT|split; assumption].
    - apply Hpop. split; [exact HT|split; assumption].
  Qed.

  Lemma wi_MResume spec t fr s : FLS res spec (mkC (MResume t) fr s) -> WI (mkC (MResume t) fr s) ->
    WI (step P (mkC (MResume t) fr s)).
  Proof.
    intros ((Hf & HS & (tk & Hg & Hcomp)) & _) HA. cbn [c_mode c_frames c_st] in *.
    destruct Hf as (old & i & r & vs & -> & Hrt & Hlv). cbn [R_of fvals] in HS.
    assert (HtR : ~ In t (fvals vs)).
    { intros Hin. pose proof (wt_ok_fvals _ _ _ _ _ (proj2 Hlv) t Hin). lia. }
    apply WI_plain_inv in HA; [|exact I]. cbn [fvals] in HA. destruct HA as (HT & HH & HF). cbn [fv_ok] in HF.
    cbn [step c_mode c_frames c_st]. unfold get_task. rewrite Hg.
    destruct (SI_entry _ _ _ _ _ HS Hg) as (_ & ot & Hst & _ & Hp & Hd & Hk). cbn in Hp, Hd, Hk.
    destruct (Hk eq_refl HtR) as (k & K1 & _). rewrite K1.
    destruct (HH t tk Hg HtR) as (Hnd & Hwn).
    set (tk1 := mkTask (Some k) YNone (if p_keep P then tk_deps tk else []) (tk_ctxs tk) (tk_cact tk) (tk_ds tk) (tk_iter tk + 1) (tk_next tk)).
    set (s2 := emit (EvStep t (tk_iter tk) (unwrap (look s) (tk_last tk))) (set_task t tk1 s)).
    assert (U : upd_entry s s2 t (mkFut None (KTask tk1))).
    { eapply upd_entry_view; [apply (set_task_upd s t None tk tk1 Hg)|reflexivity|reflexivity|reflexivity]. }
    unfold WI. cbn [c_mode c_frames c_st R_of fvals fv_ok]. split; [split; [|split]|].
    - apply (TO_set_same s s2 t None tk tk1 Hg U); [reflexivity|reflexivity| |exact HT].
      unfold s2. change (cev (emit (EvStep ?a ?b ?c) ?z)) with (cev z). apply cev_set_task.
    - apply (HIS_upd _ _ s s2 t _ HH U); [apply notin_cons_add|]. intros tk2 _ Hn. exfalso. apply Hn. left. reflexivity.
    - apply (fv_ok_upd s s2 t _ vs U HtR HF).
    - exists tk1. split; [apply U|]. split; [exact Hnd|]. left. apply (Hwn k K1).
  Qed.

  Lemma wi_MContRet spec fr s : FLS res spec (mkC MContRet fr s) -> WI (mkC MContRet fr s) ->
    WI (step P (mkC MContRet fr s)).
  Proof.
    intros ((Hf & HS & _) & _) HA. cbn [c_mode c_frames c_st] in *.
    destruct Hf as (t & old & i & r & vs & -> & Hrt & Hlv).
    assert (HtR : ~ In t (fvals vs)).
    { intros Hin. pose proof (wt_ok_fvals _ _ _ _ _ (proj2 Hlv) t Hin). lia. }
    apply WI_plain_inv in HA; [|exact I]. cbn [fvals] in HA.
    cbn [step c_mode c_frames c_st].
    set (s1 := with_active s old). unfold get_task. change (get t s1) with (get t s).
    assert (H1 : WIp (fvals vs) vs s1) by (apply (WIp_view _ _ s); [reflexivity|reflexivity|exact HA]).
    destruct (get t s) as [[out [tk| | |]]|] eqn:Hg; try (apply WI_plain; [exact I|exact H1]).
    pose proof (set_task_upd s1 t out tk (tk_set_ds tk false) Hg) as U.
    destruct H1 as (HT & HH & HF). cbn [fv_ok] in HF.
    apply WI_plain; [exact I|]. split; [|split].
    - apply (TO_set_same s1 _ t out tk (tk_set_ds tk false) Hg U); [reflexivity|reflexivity|apply cev_set_task|exact HT].
    - apply (HIS_upd _ _ s1 _ t _ HH U); [auto|]. intros tk2 E _. inversion E; subst.
      apply (HH t tk); [exact Hg|exact HtR].
    - apply (fv_ok_upd s1 _ t _ vs U HtR HF).
  Qed.

  Lemma wi_MDeliver spec o fr s : FLS res spec (mkC (MDeliver o) fr s) -> WI (mkC (MDeliver o) fr s) ->
    WI (step P (mkC (MDeliver o) fr s)).
  Proof.
    intros ((Hf & _ & _) & _) HA. cbn [c_mode c_frames c_st] in *. destruct Hf as (b & Hv).
    apply WI_plain_inv in HA; [|exact I]. destruct HA as (HT & HH & HF).
    inversion Hv as [b' Eo Eb Ef|oh b' t k old i r orr vs Hk Ht Hb Hrt Hh Hr Hvs Eo Eb Ef]; subst; cbn [step c_mode c_frames c_st].
    - unfold WI. cbn [c_mode c_st]. exact HT.
    - cbn [fvals fv_ok] in HH, HF. destruct HF as ((tk & Hg & Hnd & Hw) & HF).
      unfold WI. cbn [c_mode c_frames c_st R_of fvals fv_ok]. split.
      + apply (WIp_view _ _ s); [reflexivity|reflexivity|]. split; [exact HT|split; assumption].
      + exists tk. split; [exact Hg|]. split; [exact Hnd|]. left. apply Hw.
  Qed.

  Lemma wi_MRun spec t p fr s : FLS res spec (mkC (MRun t p) fr s) -> WI (mkC (MRun t p) fr s) ->
    WI (step P (mkC (MRun t p) fr s)).
  Proof.
    intros ((Hf & HS & Hm) & HK) HA. cbn [c_mode c_frames c_st] in *.
    destruct Hf as (old & i & r & vs & -> & Hrt & Hlv). cbn [R_of fvals] in HS.
    assert (HtR : ~ In t (fvals vs)).
    { intros Hin. pose proof (wt_ok_fvals _ _ _ _ _ (proj2 Hlv) t Hin). lia. }
    unfold stackC in HK. cbn [c_mode c_frames c_st stackS] in HK.
    destruct HK as (old' & i' & r' & vs' & rest & below & Efr & _ & _ & _ & _ & Hown).
    injection Efr as E1 E2 E3 E4. subst old' i' r' vs'.
    destruct (Hown t (or_introl eq_refl)) as (tk & Hg & Hcact). clear Hown.
    unfold WI in HA. cbn [c_mode c_frames c_st R_of fvals fv_ok] in HA.
    destruct HA as ((HT & HH & HF) & (tk0 & Hg0 & Hnd & Hw)). cbn [fv_ok] in HF.
    rewrite Hg in Hg0. inversion Hg0; subst tk0. clear Hg0.
    cbn [step c_mode c_frames c_st].
    destruct Hm as [(Htree & Hst)|(h & k & oh & -> & Hk & Hsh & Hst & Hth & Hih)].
    2:{ (* the synchronous call proper: the caller becomes the owner of a new FValue frame *)
      destruct Hw as [Hw|(h' & k' & E & Hw)]; [destruct (wns_sync_inv _ _ _ Hw)|]. inversion E; subst h' k'.
      apply WI_plain; [exact I|]. cbn [fvals fv_ok]. split; [exact HT|]. split; [exact HH|]. split; [|exact HF].
      exists tk. split; [exact Hg|]. split; assumption. }
    assert (Hw' : wns (tk_ctxs tk) p).
    { destruct Hw as [Hw|(h' & k' & -> & _)]; [exact Hw|inversion Htree]. }
    clear Hw. unfold get_task. rewrite Hg.
    (* the entry of t is replaced; t keeps executing *)
    assert (Hkeep : forall s' f', upd_entry s s' t f' -> HIS (t :: fvals vs) s' /\ fv_ok s' vs).
    { intros s' f' U. split; [|apply (fv_ok_upd s s' t _ vs U HtR HF)].
      apply (HIS_upd _ _ s s' t _ HH U); [auto|]. intros tk2 _ Hn. exfalso. apply Hn. left. reflexivity. }
    (* the body finishes: the entry becomes computed *)
    assert (Hfin : tk_ctxs tk = [] -> forall o,
              let s1 := set_task t (mkTask None (tk_last tk) (tk_deps tk) (tk_ctxs tk) (tk_cact tk) (tk_ds tk) (tk_iter tk) (tk_next tk)) s in
              computed t s1 = false /\
              WI (mkC MContRet (FCont t old :: FExec i :: FWait r :: vs) (complete_task t o s1))).
    { intros Hc0 o. cbn zeta.
      set (tkc := mkTask None (tk_last tk) (tk_deps tk) (tk_ctxs tk) (tk_cact tk) (tk_ds tk) (tk_iter tk) (tk_next tk)).
      pose proof (set_task_upd s t None tk tkc Hg) as U1. pose proof U1 as (G1 & _).
      split; [unfold computed; rewrite G1; reflexivity|].
      rewrite (complete_task_closed t o _ None tkc G1 eq_refl).
      match goal with |- WI (mkC _ _ (emit _ (put t ?e _))) => set (ent := e) end.
      assert (U2 : upd_entry s (emit (EvDone t o) (put t ent (set_task t tkc s))) t ent).
      { eapply upd_entry_trans; [exact U1|]. eapply upd_entry_view; [apply upd_entry_put|reflexivity|reflexivity|reflexivity]. }
      apply WI_plain; [exact I|]. cbn [fvals fv_ok]. split; [|split].
      - apply (TO_eq s); [| |exact HT].
        + change (cev (emit (EvDone t o) ?z)) with (cev z). change (cev (put ?a ?b ?z)) with (cev z). apply cev_set_task.
        + destruct U2 as (A & B & _). apply (opens_others s _ t B). unfold opens. rewrite A, Hg. unfold ent. cbn [fopens].
          rewrite Hc0. destruct (tk_cact tk); reflexivity.
      - apply (HIS_upd _ _ s _ t _ HH U2); [apply notin_cons_drop|]. intros tk2 E _. discriminate E.
      - apply (fv_ok_upd s _ t _ vs U2 HtR HF). }
    inversion Htree as [v Ev|v Ev|e Ev|y k Hl Hk Ev|c k Hc Hk Ev|c k Hc Hk Ev|q k Hq Hk Ev]; subst p.
    - assert (Hc0 : tk_ctxs tk = []) by (apply (wns_done_inv _ _ Hw'); left; eexists; reflexivity).
      destruct (Hfin Hc0 (Ok v)) as (Hnc & A). cbn zeta in *. rewrite Hnc. exact A.
    - assert (Hc0 : tk_ctxs tk = []) by (apply (wns_done_inv _ _ Hw'); right; left; eexists; reflexivity).
      destruct (Hfin Hc0 (Ok v)) as (Hnc & A). cbn zeta in *. rewrite Hnc. exact A.
    - assert (Hc0 : tk_ctxs tk = []) by (apply (wns_done_inv _ _ Hw'); right; right; eexists; reflexivity).
      destruct (Hfin Hc0 (Err e)) as (Hnc & A). cbn zeta in *. unfold accept_error. rewrite Hnc. exact A.
    - (* Yield *)
      destruct (wns_yield_inv _ _ _ Hw') as (Hwl & Hwk).
      destruct (SI_inst _ t y spec s HS Hl) as (spec1 & (Ext & HS1 & Old & Tn) & Uw & A & Nw).
      pose proof (tback_inst t y s Hwl) as TB.
      pose proof (trace_inst t y s) as Hti.
      destruct (inst t y s) as [y' s1]. cbn [fst snd] in *.
      assert (Hg1 : get t s1 = Some (mkFut None (KTask tk))) by (rewrite Old; [exact Hg|rewrite Hg; discriminate]).
      rewrite Hg1.
      set (tk2 := mkTask (Some k) y' (tk_deps tk ++ futs (extract y')) (tk_ctxs tk) (tk_cact tk) (tk_ds tk) (tk_iter tk) (tk_next tk)).
      pose proof (set_task_upd s1 t None tk tk2 Hg1) as U2.
      assert (H1 : TO s1) by (apply (TO_eq s); [apply cev_view; exact Hti|apply opens_tback; assumption|exact HT]).
      assert (A2 : WIp (fvals vs) vs (set_task t tk2 s1)).
      { split; [|split].
        - apply (TO_set_same s1 _ t None tk tk2 Hg1 U2); [reflexivity|reflexivity|apply cev_set_task|exact H1].
        - apply (HIS_upd _ _ s1 _ t _ (HIS_new _ s s1 HH TB) U2); [apply notin_cons_drop|].
          intros tk3 E _. inversion E; subst tk3. split; [exact Hnd|]. cbn [tk_gen tk_ctxs tk2]. intros k0 E0. inversion E0; subst k0. exact Hwk.
        - apply (fv_ok_upd s1 _ t _ vs U2 HtR). apply (fv_ok_fwd s); [|exact HF].
          intros u tku _ Hgu. rewrite Old; [exact Hgu|rewrite Hgu; discriminate]. }
      destruct (futs (extract y')); apply WI_plain; try exact I; exact A2.
    - (* Enter *)
      destruct (wns_enter_inv _ _ _ Hw') as (Hfc & Hwk).
      rewrite (enter_ctx_eff t c s None tk Hg).
      set (tkA := tk_with_ctxs tk (tk_ctxs tk ++ [c]) (tk_cact tk)).
      pose proof (set_task_upd s t None tk tkA Hg) as U1. pose proof U1 as (A1 & B1 & _).
      set (sA := set_task t tkA s) in *.
      assert (Hnd' : NoDup (map cid_of (tk_ctxs tk ++ [c]))).
      { rewrite map_app. cbn [map]. apply NoDup_snoc_intro; assumption. }
      assert (Hrest : forall s', heap s' = heap sA -> batches s' = batches sA -> top_next s' = top_next sA ->
                HIS (t :: fvals vs) s' /\ fv_ok s' vs /\ rok s' t k).
      { intros s' E1 E2 E3. pose proof (upd_entry_view _ _ _ _ _ U1 E1 E2 E3) as U.
        destruct (Hkeep s' _ U) as (X & Y). split; [exact X|]. split; [exact Y|].
        exists tkA. split; [apply U|]. split; [exact Hnd'|]. left. exact Hwk. }
      unfold WI, WIp. cbn [c_mode c_frames c_st R_of fvals fv_ok].
      destruct c as [cid f|cid|cid var v]; try discriminate; cbn [enter_eff].
      + destruct (Hrest (emit (EvResume t cid) sA) eq_refl eq_refl eq_refl) as (X & Y & Z).
        split; [split; [|split; assumption]|exact Z].
        apply (TO_chg true s _ t [cid] HT).
        * change (cev (emit (EvResume t cid) sA)) with (EvResume t cid :: cev sA). unfold sA. rewrite cev_set_task. reflexivity.
        * constructor; [intros []|constructor].
        * intros h N. change (get h (emit ?e ?z)) with (get h z). apply B1. exact N.
        * intros cid' [<-|[]]. unfold opens. change (get t (emit ?e ?z)) with (get t z). rewrite A1, Hg.
          cbn [fopens tk_cact tk_ctxs tk_with_ctxs tkA]. rewrite Hcact. split.
          -- split; [intros Hi; exfalso; apply Hfc; apply acids_sub; exact Hi|discriminate].
          -- split; [reflexivity|intros _; rewrite acids_app; apply in_or_app; right; left; reflexivity].
        * intros cid' Hn. unfold opens. change (get t (emit ?e ?z)) with (get t z). rewrite A1, Hg.
          cbn [fopens tk_cact tk_ctxs tk_with_ctxs tkA]. rewrite Hcact, acids_app. split.
          -- intros Hi. apply in_app_or in Hi as [Hi|[E|[]]]; [exact Hi|exfalso; apply Hn; left; exact E].
          -- intros Hi. apply in_or_app. left. exact Hi.
      + match goal with |- (TO ?z /\ _) /\ _ => destruct (Hrest z eq_refl eq_refl eq_refl) as (X & Y & Z) end.
        split; [split; [|split; assumption]|exact Z].
        apply (TO_eq s); [| |exact HT].
        * change (cev (var_set ?a ?b (ci_put ?k ?ci sA))) with (cev sA). apply cev_set_task.
        * apply (opens_others s _ t); [intros h N; change (get h (var_set ?a ?b (ci_put ?k ?ci sA))) with (get h sA); apply B1; exact N|].
          unfold opens. change (get t (var_set ?a ?b (ci_put ?k ?ci sA))) with (get t sA). rewrite A1, Hg.
          cbn [fopens tk_cact tk_ctxs tk_with_ctxs tkA]. rewrite acids_app. cbn [acids flat_map]. rewrite app_nil_r. reflexivity.
    - (* Exit *)
      destruct (wns_exit_inv _ _ _ Hw') as (op & Eop & Hwk).
      rewrite (exit_ctx_eff t c s None tk Hg Hcact).
      assert (Hrm : remove_ctx c (tk_ctxs tk) = op) by (rewrite Eop; apply remove_ctx_last; rewrite <- Eop; exact Hnd).
      rewrite Hrm.
      set (tkA := tk_with_ctxs tk op (tk_cact tk)).
      pose proof (set_task_upd s t None tk tkA Hg) as U1. pose proof U1 as (A1 & B1 & _).
      set (sA := set_task t tkA s) in *.
      assert (Hnd2 : NoDup (map cid_of op) /\ ~ In (cid_of c) (map cid_of op)).
      { rewrite Eop, map_app in Hnd. cbn [map] in Hnd. apply NoDup_snoc in Hnd. exact Hnd. }
      destruct Hnd2 as (Hnd' & Hfc).
      assert (Hrest : forall s', heap s' = heap sA -> batches s' = batches sA -> top_next s' = top_next sA ->
                HIS (t :: fvals vs) s' /\ fv_ok s' vs /\ rok s' t k).
      { intros s' E1 E2 E3. pose proof (upd_entry_view _ _ _ _ _ U1 E1 E2 E3) as U.
        destruct (Hkeep s' _ U) as (X & Y). split; [exact X|]. split; [exact Y|].
        exists tkA. split; [apply U|]. split; [exact Hnd'|]. left. exact Hwk. }
      unfold WI, WIp. cbn [c_mode c_frames c_st R_of fvals fv_ok].
      destruct c as [cid f|cid|cid var v]; try discriminate; cbn [pause_plain].
      + destruct (Hrest (emit (EvPause t cid) sA) eq_refl eq_refl eq_refl) as (X & Y & Z).
        split; [split; [|split; assumption]|exact Z].
        apply (TO_chg false s _ t [cid] HT).
        * change (cev (emit (EvPause t cid) sA)) with (EvPause t cid :: cev sA). unfold sA. rewrite cev_set_task. reflexivity.
        * constructor; [intros []|constructor].
        * intros h N. change (get h (emit ?e ?z)) with (get h z). apply B1. exact N.
        * intros cid' [<-|[]]. unfold opens. change (get t (emit ?e ?z)) with (get t z). rewrite A1, Hg.
          cbn [fopens tk_cact tk_ctxs tk_with_ctxs tkA]. rewrite Hcact, Eop. split.
          -- split; [reflexivity|intros _; rewrite acids_app; apply in_or_app; right; left; reflexivity].
          -- split; [intros Hi; exfalso; apply Hfc; apply acids_sub; exact Hi|discriminate].
        * intros cid' Hn. unfold opens. change (get t (emit ?e ?z)) with (get t z). rewrite A1, Hg.
          cbn [fopens tk_cact tk_ctxs tk_with_ctxs tkA]. rewrite Hcact, Eop, acids_app. split.
          -- intros Hi. apply in_or_app. left. exact Hi.
          -- intros Hi. apply in_app_or in Hi as [Hi|[E|[]]]; [exact Hi|exfalso; apply Hn; left; exact E].
      + match goal with |- (TO ?z /\ _) /\ _ => destruct (Hrest z eq_refl eq_refl eq_refl) as (X & Y & Z) end.
        split; [split; [|split; assumption]|exact Z].
        apply (TO_eq s); [| |exact HT].
        * change (cev (var_set ?a ?b sA)) with (cev sA). apply cev_set_task.
        * apply (opens_others s _ t); [intros h N; change (get h (var_set ?a ?b sA)) with (get h sA); apply B1; exact N|].
          unfold opens. change (get t (var_set ?a ?b sA)) with (get t sA). rewrite A1, Hg.
          cbn [fopens tk_cact tk_ctxs tk_with_ctxs tkA]. rewrite Eop, acids_app. cbn [acids flat_map]. rewrite app_nil_r. reflexivity.
    - (* a synchronous call: the callee task is created; it is a fresh task whose body is well nested *)
      destruct (wns_call_inv _ _ _ Hw') as (Hwq & Hwk).
      pose proof (SI_create spec _ t (FTask q) s HS (sf_task q Hq)) as HCr. cbn zeta in HCr.
      assert (TB : tback s (snd (create t (FTask q) s))).
      { apply (tback_create t s (FTask q) I). intros q' E. inversion E; subst q'. exact Hwq. }
      pose proof (trace_create t (FTask q) s) as Htc.
      destruct (create t (FTask q) s) as [h s1]. cbn [fst snd fexpr_outs] in *.
      destruct HCr as (Hfresh & _ & _ & Hoth & _).
      assert (Old : forall x, get x s <> None -> get x s1 = get x s).
      { intros x Hx. apply Hoth. intros ->. contradiction. }
      unfold WI. cbn [c_mode c_frames c_st R_of fvals fv_ok]. split; [split; [|split]|].
      + apply (TO_eq s); [apply cev_view; exact Htc|apply opens_tback; assumption|exact HT].
      + apply (HIS_new _ s s1 HH TB).
      + apply (fv_ok_fwd s); [|exact HF]. intros u tku _ Hgu. rewrite Old; [exact Hgu|rewrite Hgu; discriminate].
      + exists tk. split; [rewrite Old; [exact Hg|rewrite Hg; discriminate]|]. split; [exact Hnd|].
        right. exists h, k. split; [reflexivity|exact Hwk].
  Qed.

  Theorem wi_step spec c : is_unwind (c_mode c) = false -> FLS res spec c -> WI c -> WI (step P c).
  Proof.
    destruct c as [m fr s]. destruct m; cbn [c_mode is_unwind]; intros Hu HI HA; try discriminate.
    - apply (wi_MValue spec); assumption.
    - apply (wi_MWaitHead spec); assumption.
    - apply (wi_MAfterExec spec); assumption.
    - apply (wi_MExecLoop spec); assumption.
    - apply (wi_MResume spec); assumption.
    - apply (wi_MRun spec); assumption.
    - apply (wi_MContRet spec); assumption.
    - apply (wi_MDeliver spec); assumption.
    - exact HA.
    - exact HA.
  Qed.

  Theorem wi_run n : forall spec c, FLS res spec c -> WI c -> no_unwind P n c ->
    exists spec', FLS res spec' (run P n c) /\ WI (run P n c).
  Proof.
    induction n as [|n IH]; intros spec c HV HA Hn; [exists spec; split; assumption|].
    rewrite run_S. destruct (is_final (c_mode c)) eqn:Hf; [exists spec; split; assumption|].
    assert (Hu : is_unwind (c_mode c) = false) by (apply (Hn O); lia).
    destruct (fls_step P HP res spec c Hu HV) as (spec1 & HV1).
    apply (IH spec1); [exact HV1|apply (wi_step spec); assumption|].
    intros k Hk. specialize (Hn (Datatypes.S k) ltac:(lia)). rewrite run_S, Hf in Hn. exact Hn.
  Qed.
End C06S.

(* ------------------------------------------------------------------ C06 theorems (stree programs, well-nested with-blocks) *)
Section C06S_theorems.
  Variable P : params.
  Hypothesis HP : pointwise P.
  Variable p : prog.
  Hypothesis Hp : stree p.
  Hypothesis Hw : wns [] p.

  Let h := fst (create [] (FTask p) (st0 P)).
  Let s1 := snd (create [] (FTask p) (st0 P)).

  Lemma wi_reach n : no_unwind P n (start h s1) ->
    exists spec, FLS (evals p) spec (run P n (start h s1)) /\ WI (run P n (start h s1)).
  Proof.
    intros Hn.
    assert (H0 : no_unwind P 0 (start h s1)) by (intros k Hk; assert (k = O) as -> by lia; reflexivity).
    destruct (fls_reach P HP p Hp 0 H0) as (spec & HV). fold h s1 in HV. cbn [run] in HV.
    apply (wi_run P HP (evals p) n spec (start h s1) HV); [|exact Hn].
    apply WI_plain; [exact I|]. cbn [fvals]. split; [|split; [|exact I]].
    - intros t cid. change (cev s1) with (@nil event). split; [exact I|].
      cbn [act]. split; [discriminate|]. unfold opens, s1, create, alloc. cbn [snd].
      destruct (fid_eqb t [top_next (st0 P)]) eqn:E.
      + apply fid_eqb_eq in E. subst t. rewrite get_put_same. intros [].
      + assert (N : t <> [top_next (st0 P)]) by (intros ->; rewrite fid_eqb_refl in E; discriminate).
        rewrite get_put_other by exact N. intros [].
    - apply (HIS_new [] (st0 P) s1).
      + intros u tk Hg. discriminate Hg.
      + apply (tback_create [] (st0 P) (FTask p) I). intros q E. inversion E; subst q. exact Hw.
  Qed.

  Lemma to_reachS n : no_unwind P n (start h s1) ->
    exists spec, FLS (evals p) spec (run P n (start h s1)) /\ TO (c_st (run P n (start h s1))).
  Proof.
    intros Hn. destruct (wi_reach n Hn) as (spec & HV & HT). exists spec. split; [exact HV|].
    pose proof (Hn n (le_n n)) as Hu. unfold WI in HT.
    destruct (c_mode (run P n (start h s1))); try exact HT; try discriminate; try apply HT.
    destruct HT.
  Qed.

  (* A1: for every context key (t, cid) the resume/pause events, oldest first, strictly alternate, starting with a resume *)
  Theorem resume_pause_alternate_stree n t cid :
    no_unwind P n (start h s1) ->
    alternates t cid true (ctx_events t cid (trace (c_st (run P n (start h s1))))).
  Proof. intros Hn. destruct (to_reachS n Hn) as (_ & _ & H). apply TO_alternates. exact H. Qed.

  (* the invariant: the newest event of (t, cid) is a resume exactly when t is an uncompleted task whose contexts are
     active and which has an AsyncContext with id cid open *)
  Theorem newest_is_resume_iff_active_stree n t cid :
    no_unwind P n (start h s1) ->
    let s := c_st (run P n (start h s1)) in
    (exists rest, filter (evk t cid) (trace s) = EvResume t cid :: rest) <->
    (exists tk f, get t s = Some (mkFut None (KTask tk)) /\ tk_cact tk = true /\ In (CAsync cid f) (tk_ctxs tk)).
  Proof. intros Hn. cbn zeta. destruct (to_reachS n Hn) as (_ & _ & H). apply TO_newest. exact H. Qed.

  (* A2 at the end: when the outermost call has returned (value or error) every context that was ever resumed has been
     paused since *)
  Theorem all_paused_at_end_stree_events n t cid o :
    no_unwind P n (start h s1) -> c_mode (run P n (start h s1)) = MDone o ->
    match filter (evk t cid) (trace (c_st (run P n (start h s1)))) with [] => True | e :: _ => e = EvPause t cid end.
  Proof.
    intros Hn Hm. destruct (to_reachS n Hn) as (_ & _ & H). apply TO_paused; [exact H|].
    destruct (end_stree P HP p Hp n o Hn Hm) as (_ & Hall). fold h s1 in Hall.
    unfold opens, fopens. destruct (get t (c_st (run P n (start h s1)))) as [[[o'|] [tk| | |]]|] eqn:Hg; try reflexivity.
    destruct (Hall t tk Hg) as (-> & _). reflexivity.
  Qed.

  (* A2 at a flush (end of an _execute pass, of the outermost loop or of a loop nested in synchronous calls): a context
     whose newest event is a resume belongs to a task that is on the scheduler's stack and is either a caller inside
     value() or has scheduled its dependencies (it awaits, directly or through the callers, what the loop is running);
     every context of any other task is paused *)
  Theorem resumed_at_flush_stree n t cid :
    no_unwind P n (start h s1) -> c_mode (run P n (start h s1)) = MAfterExec ->
    let c := run P n (start h s1) in
    (exists rest, filter (evk t cid) (trace (c_st c)) = EvResume t cid :: rest) ->
    In t (tasks (c_st c)) /\
    exists tk, get t (c_st c) = Some (mkFut None (KTask tk)) /\ (In t (fvals (c_frames c)) \/ tk_ds tk = true).
  Proof.
    intros Hn Hm. cbn zeta. intros Hr.
    destruct (to_reachS n Hn) as (_ & _ & H). apply (TO_newest _ t cid H) in Hr as (tk & f & Hg & Hc & _).
    destruct (flush_stree P HP p Hp n Hn Hm) as (r & vs & Efr & _ & _ & Hall). fold h s1 in Efr, Hall. cbn zeta in Efr, Hall.
    destruct (Hall t tk Hg (or_introl Hc)) as (Hin & _ & Hd). split; [exact Hin|]. exists tk. split; [exact Hg|].
    rewrite Efr. cbn [fvals]. exact Hd.
  Qed.

  (* ... in particular at a flush issued by the outermost loop every context is paused (the tree statement) *)
  Theorem all_paused_at_outer_flush_stree n t cid :
    no_unwind P n (start h s1) -> c_mode (run P n (start h s1)) = MAfterExec ->
    fvals (c_frames (run P n (start h s1))) = [] ->
    match filter (evk t cid) (trace (c_st (run P n (start h s1)))) with [] => True | e :: _ => e = EvPause t cid end.
  Proof.
    intros Hn Hm Hfv. destruct (to_reachS n Hn) as (_ & _ & H). apply TO_paused; [exact H|].
    destruct (outer_flush_stree P HP p Hp n Hn Hm Hfv) as (_ & Hall). fold h s1 in Hall.
    unfold opens, fopens. destruct (get t (c_st (run P n (start h s1)))) as [[[o'|] [tk| | |]]|] eqn:Hg; try reflexivity.
    destruct (Hall t tk Hg) as (-> & _). reflexivity.
  Qed.

  (* A3: while the body of t runs, every AsyncContext that t has open is resumed - and so is every AsyncContext of every
     caller suspended in a synchronous call that led to t's code ("including synchronous calls it makes") *)
  Theorem resumed_while_code_runs_stree n t q x :
    no_unwind P n (start h s1) -> c_mode (run P n (start h s1)) = MRun t q ->
    let c := run P n (start h s1) in
    x = t \/ In x (fvals (c_frames c)) ->
    forall tk, get x (c_st c) = Some (mkFut None (KTask tk)) -> forall cid f, In (CAsync cid f) (tk_ctxs tk) ->
      exists rest, filter (evk x cid) (trace (c_st c)) = EvResume x cid :: rest.
  Proof.
    intros Hn Hm. cbn zeta. intros Hx tk Hg cid f Hin.
    destruct (to_reachS n Hn) as (_ & _ & H). apply (TO_newest _ x cid H). exists tk, f. split; [exact Hg|]. split; [|exact Hin].
    destruct (running_stree P HP p Hp n t q Hn Hm) as (_ & Hact & _). fold h s1 in Hact. cbn zeta in Hact.
    destruct (Hact x Hx) as (tk' & Hg' & Hc'). rewrite Hg in Hg'. inversion Hg'; subst tk'. exact Hc'.
  Qed.

  (* at EVERY non-final configuration - in particular while the nested loops of a synchronous call run other tasks and
     flush batches - every AsyncContext of every caller inside value() is resumed *)
  Theorem caller_contexts_resumed_stree n x :
    no_unwind P n (start h s1) -> is_final (c_mode (run P n (start h s1))) = false ->
    let c := run P n (start h s1) in
    In x (fvals (c_frames c)) ->
    exists tk, get x (c_st c) = Some (mkFut None (KTask tk)) /\
      forall cid f, In (CAsync cid f) (tk_ctxs tk) -> exists rest, filter (evk x cid) (trace (c_st c)) = EvResume x cid :: rest.
  Proof.
    intros Hn Hf. cbn zeta. intros Hx.
    destruct (callers_stay_resumed P HP p Hp n x Hn Hf Hx) as (tk & Hg & Hc). fold h s1 in Hg. exists tk. split; [exact Hg|].
    intros cid f Hin. destruct (to_reachS n Hn) as (_ & _ & H). apply (TO_newest _ x cid H). exists tk, f. auto.
  Qed.

  (* a context whose newest event is a resume while the body of t runs belongs to t, to a caller inside value(), or to a
     task on the stack that has scheduled its dependencies: nobody else is left resumed *)
  Theorem resumed_only_on_stack_stree n t q u cid :
    no_unwind P n (start h s1) -> c_mode (run P n (start h s1)) = MRun t q ->
    let c := run P n (start h s1) in
    (exists rest, filter (evk u cid) (trace (c_st c)) = EvResume u cid :: rest) ->
    In u (tasks (c_st c)) /\
    (u = t \/ In u (fvals (c_frames c)) \/ exists tk, get u (c_st c) = Some (mkFut None (KTask tk)) /\ tk_ds tk = true).
  Proof.
    intros Hn Hm. cbn zeta. intros Hr.
    destruct (to_reachS n Hn) as (_ & _ & H). apply (TO_newest _ u cid H) in Hr as (tk & f & Hg & Hc & _).
    destruct (running_stree P HP p Hp n t q Hn Hm) as (_ & _ & Hall). fold h s1 in Hall. cbn zeta in Hall.
    destruct (Hall u tk Hg Hc) as (Hin & Hd). split; [exact Hin|].
    destruct Hd as [Hd|[Hd|Hd]]; [left; exact Hd|right; left; exact Hd|right; right; exists tk; auto].
  Qed.
End C06S_theorems.

(* the same on the chronological trace of run_case *)
Theorem run_case_resume_pause_alternate_stree P p n t cid :
  pointwise P -> stree p -> wns [] p ->
  no_unwind P n (start (fst (create [] (FTask p) (st0 P))) (snd (create [] (FTask p) (st0 P)))) ->
  alternates t cid true (filter (evk t cid) (snd (run_case P n [p]))).
Proof.
  intros HP Ht Hw Hn. destruct (run_case_single P n p) as (e & -> & He). rewrite filter_app. cbn [filter].
  destruct (evk t cid e) eqn:E; [apply evk_isctx in E; congruence|]. rewrite app_nil_r.
  apply (resume_pause_alternate_stree P HP p Ht Hw n t cid Hn).
Qed.

(* ------------------------------------------------------------------ wn versus wns *)
(* MachineC07.wn has no case for a synchronous call: a program that is wn and stree is a yield-only tree program, so
   "stree p /\ wn [] p" is not a larger class than the one of MachineC06T; the literal port is the corollary below *)
Lemma wn_stree_tree op p : wn op p -> stree p -> tree p.
Proof.
  intros H. induction H as [v|v|e|op s k Hl IHl Hk IHk|op c k Hc Hk IHk|op c k Hk IHk]; intros Hs.
  - constructor.
  - constructor.
  - constructor.
  - inversion Hs as [| | |s' k' Hsl Hsk| | |]; subst. apply tree_yield.
    + intros l Hin. specialize (Hsl l Hin). inversion Hsl as [f Hf|]; subst; [|constructor].
      constructor. inversion Hf as [q Hq| | | |]; subst; constructor. apply IHl; [exact Hin|exact Hq].
    + intros o. apply IHk. apply Hsk.
  - inversion Hs; subst. apply tree_enter; [assumption|]. apply IHk. assumption.
  - inversion Hs; subst. apply tree_exit; [assumption|]. apply IHk. assumption.
Qed.

Theorem resume_pause_alternate_stree_wn P p n t cid :
  pointwise P -> stree p -> wn [] p ->
  no_unwind P n (start (fst (create [] (FTask p) (st0 P))) (snd (create [] (FTask p) (st0 P)))) ->
  alternates t cid true (ctx_events t cid (trace (c_st (run P n (start (fst (create [] (FTask p) (st0 P))) (snd (create [] (FTask p) (st0 P)))))))).
Proof. intros HP Hs Hw Hn. apply (resume_pause_alternate_stree P HP p Hs (wn_wns _ _ Hw) n t cid Hn). Qed.

(* ------------------------------------------------------------------ non-vacuity *)
(* root [0]:    with ctx0:  a, b = yield sib.asynq(), caller.asynq()
   sib [1]:     with ctx2:  v = yield item(kind 0); return v                      - blocks on the batch: paused
   caller [2]:  with ctx5:  v = mid(); return v                                   - synchronous call, depth 1
   mid [4]:     with ctx1: leaf(2)  ;  with ctx1 (the id is re-used): v = leaf(3); return v   - two calls, depth 2
   leaf [5],[7]: with ctx7:  v = yield item(kind 0); return v                     - blocks: a loop nested two levels deep flushes
   At the nested flushes the callers [4] (ctx 1) and [2] (ctx 5) are inside value() and stay resumed, the root [0]
   (ctx 0) stays resumed too (it is suspended at its yield, awaiting [2]); the callees' ctx 7 is paused and resumed
   around their own flush. *)
Definition c06n_rr : outcome -> prog := ret_or_raise (fun v => v).
Definition c06n_leaf (key v : Z) : prog :=
  Enter (c06s_ctx 7) (Yield (YLeaf (LNew (FItem 0 key (ASet (VInt v))))) (fun o => Exit (c06s_ctx 7) (c06n_rr o))).
Definition c06n_mid : prog :=
  Enter (c06s_ctx 1)
    (Let (FTask (c06n_leaf 2 20)) (fun h => Sync h (fun _ =>
       Exit (c06s_ctx 1) (Enter (c06s_ctx 1)
         (Let (FTask (c06n_leaf 3 30)) (fun h => Sync h (fun o => Exit (c06s_ctx 1) (c06n_rr o)))))))).
Definition c06n_caller : prog :=
  Enter (c06s_ctx 5) (Let (FTask c06n_mid) (fun h => Sync h (fun o => Exit (c06s_ctx 5) (c06n_rr o)))).
Definition c06n_sib : prog :=
  Enter (c06s_ctx 2) (Yield (YLeaf (LNew (FItem 0 1 (ASet (VInt 10))))) (fun o => Exit (c06s_ctx 2) (c06n_rr o))).
Definition c06n_demo : prog :=
  Enter (c06s_ctx 0) (Yield (YTuple [YLeaf (LNew (FTask c06n_sib)); YLeaf (LNew (FTask c06n_caller))])
                            (fun o => Exit (c06s_ctx 0) (c06n_rr o))).

Lemma c06n_rr_wns o : wns [] (c06n_rr o).
Proof. destruct o; constructor. Qed.

Lemma c06n_block_ok c key v :
  plain_ctx c = true ->
  let q := Enter c (Yield (YLeaf (LNew (FItem 0 key (ASet (VInt v))))) (fun o => Exit c (c06n_rr o))) in
  stree q /\ wns [] q.
Proof.
  intros Hc. cbn zeta. split.
  - apply st_enter; [exact Hc|]. apply st_yield; [intros l [<-|[]]; repeat constructor|].
    intros o. apply st_exit; [exact Hc|apply ret_or_raise_stree].
  - apply wns_enter; [intros []|]. cbn [app]. apply wns_yield; [intros q [E|[]]; discriminate|].
    intros o. apply (wns_exit [] c). apply c06n_rr_wns.
Qed.

Lemma c06n_mid_ok : stree c06n_mid /\ wns [] c06n_mid.
Proof.
  unfold c06n_mid. split.
  - apply st_enter; [reflexivity|]. apply st_call; [apply (c06n_block_ok (c06s_ctx 7) 2 20 eq_refl)|].
    intros _. apply st_exit; [reflexivity|]. apply st_enter; [reflexivity|].
    apply st_call; [apply (c06n_block_ok (c06s_ctx 7) 3 30 eq_refl)|].
    intros o. apply st_exit; [reflexivity|apply ret_or_raise_stree].
  - apply wns_enter; [intros []|]. cbn [app]. apply wns_call; [apply (c06n_block_ok (c06s_ctx 7) 2 20 eq_refl)|].
    intros _. apply (wns_exit [] (c06s_ctx 1)). apply wns_enter; [intros []|]. cbn [app].
    apply wns_call; [apply (c06n_block_ok (c06s_ctx 7) 3 30 eq_refl)|].
    intros o. apply (wns_exit [] (c06s_ctx 1)). apply c06n_rr_wns.
Qed.

Lemma c06n_caller_ok : stree c06n_caller /\ wns [] c06n_caller.
Proof.
  unfold c06n_caller. split.
  - apply st_enter; [reflexivity|]. apply st_call; [apply c06n_mid_ok|].
    intros o. apply st_exit; [reflexivity|apply ret_or_raise_stree].
  - apply wns_enter; [intros []|]. cbn [app]. apply wns_call; [apply c06n_mid_ok|].
    intros o. apply (wns_exit [] (c06s_ctx 5)). apply c06n_rr_wns.
Qed.

Lemma c06n_demo_ok : stree c06n_demo /\ wns [] c06n_demo.
Proof.
  unfold c06n_demo. split.
  - apply st_enter; [reflexivity|]. apply st_yield.
    + intros l Hl. cbn in Hl. destruct Hl as [<-|[<-|[]]]; constructor; constructor.
      * apply (c06n_block_ok (c06s_ctx 2) 1 10 eq_refl).
      * apply c06n_caller_ok.
    + intros o. apply st_exit; [reflexivity|apply ret_or_raise_stree].
  - apply wns_enter; [intros []|]. cbn [app]. apply wns_yield.
    + intros q Hq. cbn in Hq. destruct Hq as [E|[E|[]]]; inversion E; subst q.
      * apply (c06n_block_ok (c06s_ctx 2) 1 10 eq_refl).
      * apply c06n_caller_ok.
    + intros o. apply (wns_exit [] (c06s_ctx 0)). apply c06n_rr_wns.
Qed.

(* a synchronous call is not wn: the class of this file is strictly larger than the one of MachineC06T *)
Lemma c06n_demo_not_tree : ~ tree c06n_demo /\ ~ wn [] c06n_demo.
Proof.
  assert (N : ~ wn [] c06n_demo).
  { unfold c06n_demo. intros H. inversion H as [| | | |op c k Hc Hk|]; subst. cbn [app] in Hk.
    inversion Hk as [| | |op s k' Hl Hk'| |]; subst.
    specialize (Hl c06n_caller ltac:(cbn; right; left; reflexivity)).
    unfold c06n_caller in Hl. inversion Hl as [| | | |op c k Hc2 Hk2|]; subst. inversion Hk2. }
  split; [|exact N]. intros Ht. unfold c06n_demo in Ht. inversion Ht as [| | | |c k Hc Hk|]; subst.
  inversion Hk as [| | |s k' Hl Hk'| |]; subst.
  specialize (Hl (LNew (FTask c06n_caller)) ltac:(cbn; right; left; reflexivity)).
  inversion Hl as [f Hf|]; subst. inversion Hf as [q Hq| | | |]; subst.
  unfold c06n_caller in Hq. inversion Hq as [| | | |c k Hc2 Hk2|]; subst. inversion Hk2.
Qed.

Example c06n_demo_runs :
  let P := c06s_P in
  let h := fst (create [] (FTask c06n_demo) (st0 P)) in
  let s1 := snd (create [] (FTask c06n_demo) (st0 P)) in
  let c k := run P k (start h s1) in
  let R t i := EvResume t i in let Z t i := EvPause t i in
  stree c06n_demo /\ wns [] c06n_demo /\ pointwise P /\ no_unwind_b P 300 (start h s1) = true /\
  c_mode (c 300%nat) = MDone (Ok (VTuple [VInt 10; VInt 30])) /\
  (* all resume/pause events of the run, in chronological order *)
  filter isctx (rev (trace (c_st (c 300%nat)))) =
    [R [0] 0; R [1] 2; Z [1] 2; R [2] 5; R [4] 1; R [5] 7; Z [5] 7; R [5] 7; Z [5] 7; Z [4] 1; R [4] 1;
     R [7] 7; Z [7] 7; R [7] 7; Z [7] 7; Z [4] 1; Z [2] 5; Z [0] 0; R [0] 0; R [1] 2; Z [1] 2; Z [0] 0] /\
  (* per key: the root's ctx 0 and the re-used id 1 of mid [4] give two periods each *)
  ctx_events [0] 0 (trace (c_st (c 300%nat))) = [R [0] 0; Z [0] 0; R [0] 0; Z [0] 0] /\
  ctx_events [4] 1 (trace (c_st (c 300%nat))) = [R [4] 1; Z [4] 1; R [4] 1; Z [4] 1] /\
  ctx_events [5] 7 (trace (c_st (c 300%nat))) = [R [5] 7; Z [5] 7; R [5] 7; Z [5] 7] /\
  ctx_events [2] 5 (trace (c_st (c 300%nat))) = [R [2] 5; Z [2] 5] /\
  (* the flush points: (step, callers inside value(), task stack); the first four are issued by a loop nested two
     calls deep, the fifth by the loop of the outer call, the last two by the outermost loop *)
  map (fun k => (k, fvals (c_frames (c k)), tasks (c_st (c k))))
      (filter (fun k => match c_mode (c k) with MAfterExec => true | _ => false end) (seq 0 300)) =
    [(39%nat, [[4]; [2]], [[4]; [2]; [0]]); (48%nat, [[4]; [2]], [[4]; [2]; [0]]); (65%nat, [[4]; [2]], [[4]; [2]; [0]]);
     (74%nat, [[4]; [2]], [[4]; [2]; [0]]); (81%nat, [[2]], [[2]; [0]]); (89%nat, [], []); (105%nat, [], [])]%Z /\
  (* at the first nested flush (step 39): resumed are the callers' ctx 1 and ctx 5 and the root's ctx 0 *)
  filter isctx (rev (trace (c_st (c 39%nat)))) = [R [0] 0; R [1] 2; Z [1] 2; R [2] 5; R [4] 1; R [5] 7; Z [5] 7].
Proof.
  split; [apply c06n_demo_ok|]. split; [apply c06n_demo_ok|]. split; [exact c06s_P_pointwise|].
  vm_compute. repeat match goal with |- _ /\ _ => split end; reflexivity.
Qed.

(* ------------------------------------------------------------------ what is FALSE for stree *)
(* A2 of MachineC06T ("at every flush point the newest event of every key is a pause"), even with the contexts of the
   callers that are inside value() excepted, does not survive synchronous calls: at a flush issued by a nested loop
   the tasks that are grey on the stack below the caller are still resumed (this is the trace form of
   MachineDFSS.contexts_paused_at_every_flush_stree_is_false).  The true statements are resumed_at_flush_stree and
   all_paused_at_outer_flush_stree above. *)
Definition all_paused_at_every_flush_stree_statement : Prop :=
  forall P, pointwise P -> forall p, stree p -> wns [] p -> forall n t cid,
  let h := fst (create [] (FTask p) (st0 P)) in
  let s1 := snd (create [] (FTask p) (st0 P)) in
  no_unwind P n (start h s1) -> c_mode (run P n (start h s1)) = MAfterExec ->
  ~ In t (fvals (c_frames (run P n (start h s1)))) ->
  match filter (evk t cid) (trace (c_st (run P n (start h s1)))) with [] => True | e :: _ => e = EvPause t cid end.

Theorem all_paused_at_every_flush_stree_is_false : ~ all_paused_at_every_flush_stree_statement.
Proof.
  intros H.
  specialize (H c06s_P c06s_P_pointwise c06n_demo (proj1 c06n_demo_ok) (proj2 c06n_demo_ok) 39%nat [0%Z] 0%Z). cbn zeta in H.
  assert (Hn : no_unwind c06s_P 39 (start (fst (create [] (FTask c06n_demo) (st0 c06s_P))) (snd (create [] (FTask c06n_demo) (st0 c06s_P)))))
    by (apply no_unwind_b_ok; vm_compute; reflexivity).
  specialize (H Hn ltac:(vm_compute; reflexivity)).
  assert (Hnin : ~ In [0%Z] (fvals (c_frames (run c06s_P 39 (start (fst (create [] (FTask c06n_demo) (st0 c06s_P))) (snd (create [] (FTask c06n_demo) (st0 c06s_P)))))))).
  { vm_compute. intros [E|[E|[]]]; discriminate E. }
  specialize (H Hnin). vm_compute in H. discriminate H.
Qed.
