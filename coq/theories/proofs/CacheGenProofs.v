(* Proofs about alru_cache on a method whose instances have different lifetimes (Cache.v, "instance generations"). *)
From Asynq Require Import Base Cache proofs.CacheProofs.

Lemma ikey_eqb_spec a b : ikey_eqb a b = true <-> a = b.
Proof.
  destruct a as [[i n] k], b as [[j m] k']. unfold ikey_eqb. cbn [fst snd].
  rewrite !andb_true_iff, !Z.eqb_eq, key_eqb_spec. split.
  - intros [[-> ->] ->]. reflexivity.
  - intros H. inversion H. auto.
Qed.

Lemma gen_bump_of g i j : gen_of (gen_bump g i) j = if j =? i then gen_of g j + 1 else gen_of g j.
Proof.
  induction g as [|[a n] g IH]; cbn.
  - destruct (Z.eqb_spec i j), (Z.eqb_spec j i); try congruence; reflexivity.
  - destruct (Z.eqb_spec a i); cbn.
    + destruct (Z.eqb_spec a j), (Z.eqb_spec j i); try congruence; reflexivity.
    + destruct (Z.eqb_spec a j), (Z.eqb_spec j i); try congruence; try reflexivity.
Qed.

Lemma gen_bump_mono g i j : gen_of g j <= gen_of (gen_bump g i) j.
Proof. rewrite gen_bump_of. destruct (j =? i); lia. Qed.

(* no entry and no blocked body belongs to a generation that does not exist yet *)
Definition gfits (g : list (Z * Z)) (k : ikey) : Prop := igen k <= gen_of g (islot k).
Definition ginv (st : gstate) : Prop :=
  (forall e, In e (store (ga st)) -> gfits (ggen st) (ekey ikey e)) /\
  (forall x, In x (infl (ga st)) -> gfits (ggen st) (snd (fst x))).

Lemma ginv_init : ginv ginit.
Proof. split; intros ? []. Qed.

Section GenProofs.
  Variable src : bool.
  Variable s : sig.
  Variable cap : nat.

  Lemma gstep_call st id i c bl b :
    gstep src s cap st (GCall id i c bl b) =
    (mkG (fst (astep ikey ikey_eqb (gkf src s i (gen_of (ggen st) i)) (bindable s) cap (ga st) (ACall id (with_self i c) bl b))) (ggen st),
     snd (astep ikey ikey_eqb (gkf src s i (gen_of (ggen st) i)) (bindable s) cap (ga st) (ACall id (with_self i c) bl b))).
  Proof. unfold gstep. destruct (astep _ _ _ _ _ _ _). reflexivity. Qed.

  Lemma gstep_finish st id :
    gstep src s cap st (GFinish id) =
    (mkG (fst (astep ikey ikey_eqb (fun _ => None) (bindable s) cap (ga st) (AFinish id))) (ggen st),
     snd (astep ikey ikey_eqb (fun _ => None) (bindable s) cap (ga st) (AFinish id))).
  Proof. unfold gstep. destruct (astep _ _ _ _ _ _ _). reflexivity. Qed.

  (* a hit is served from an entry stored for the very instance the method is called on: same slot, same generation *)
  Lemma gen_hit_same_instance st id i c bl b st' v :
    gstep src s cap st (GCall id i c bl b) = (st', RHit v) ->
    exists e, In e (store (ga st)) /\ islot (ekey ikey e) = i /\ igen (ekey ikey e) = gen_of (ggen st) i /\
              eval ikey e = v.
  Proof.
    rewrite gstep_call. intros H. apply (f_equal snd) in H. cbn [snd] in H. revert H. unfold astep.
    destruct (gkf src s i (gen_of (ggen st) i) (with_self i c)) as [k|] eqn:Ek; [|cbn; intros H; inversion H].
    unfold gkf in Ek. destruct (alru_key src KmDefault s (with_self i c)) as [k0|]; inversion Ek as [Hk]. clear Ek.
    unfold lru_getitem. destruct (lru_find ikey ikey_eqb (store (ga st)) (i, gen_of (ggen st) i, k0)) as [w|] eqn:Ef.
    - cbn. intros H. inversion H; subst.
      destruct (find_some_entry ikey ikey_eqb ikey_eqb_spec _ _ _ Ef) as (e & A & B & C).
      exists e. rewrite B. cbn. auto.
    - destruct (negb (bindable s (with_self i c))); [cbn; intros H; inversion H|].
      destruct bl; [cbn; intros H; inversion H|]. destruct b; cbn; intros H; inversion H.
  Qed.

  Lemma gstep_inv st o : ginv st -> ginv (fst (gstep src s cap st o)).
  Proof.
    intros [Hs Hi]. destruct o as [id i c bl b|id|i].
    - rewrite gstep_call. unfold astep.
      destruct (gkf src s i (gen_of (ggen st) i) (with_self i c)) as [k|] eqn:Ek; [|split; cbn; auto].
      assert (Hk : gfits (ggen st) k).
      { unfold gkf in Ek. destruct (alru_key src KmDefault s (with_self i c)); inversion Ek. unfold gfits, igen, islot. cbn. lia. }
      unfold lru_getitem. destruct (lru_find ikey ikey_eqb (store (ga st)) k) as [w|] eqn:Ef.
      + split; cbn; auto. intros e He. eapply touch_in in He as [He| ->]; auto.
      + destruct (negb (bindable s (with_self i c))); [split; cbn; auto|].
        destruct bl.
        * split; cbn; auto. intros x Hx. apply in_app_iff in Hx as [Hx|[<-|[]]]; auto.
        * destruct b; split; cbn; auto. intros e He. eapply setitem_in in He as [He| ->]; auto.
    - rewrite gstep_finish. unfold astep.
      destruct (infl_find ikey (infl (ga st)) id) as [[k [v|e]]|] eqn:Ef; [| |split; cbn; auto].
      + apply infl_find_in in Ef. pose proof (Hi _ Ef) as Hk. cbn in Hk.
        split; cbn.
        * intros e He. eapply setitem_in in He as [He| ->]; auto.
        * intros x Hx. eapply infl_remove_in in Hx. auto.
      + split; cbn; auto. intros x Hx. eapply infl_remove_in in Hx. auto.
    - unfold gstep. destruct (slot_busy (infl (ga st)) i); [split; auto|].
      split; cbn; intros x Hx; unfold gfits in *.
      + specialize (Hs _ Hx). pose proof (gen_bump_mono (ggen st) i (islot (ekey ikey x))). lia.
      + specialize (Hi _ Hx). pose proof (gen_bump_mono (ggen st) i (islot (snd (fst x)))). lia.
  Qed.

  Lemma grun_inv ops : forall st, ginv st -> ginv (fst (grun src s cap st ops)).
  Proof.
    induction ops as [|o ops IH]; intros st H; cbn; auto.
    pose proof (gstep_inv st o H) as H1. destruct (gstep src s cap st o) as [s1 r]. cbn in H1.
    specialize (IH s1 H1). destruct (grun src s cap s1 ops) as [s2 rs]. cbn in *. exact IH.
  Qed.

  (* After any history: the instance in slot i is dropped, and the first call on the fresh instance in that slot is
     not a hit, whatever the LRU still holds for the dead generations (same arguments included). *)
  Lemma gen_fresh_instance_not_served ops st i st1 id c bl b :
    fst (grun src s cap ginit ops) = st ->
    gstep src s cap st (GDrop i) = (st1, RUnit) ->
    forall v, snd (gstep src s cap st1 (GCall id i c bl b)) <> RHit v.
  Proof.
    intros Hr Hd v Hh.
    assert (Hinv : ginv st) by (rewrite <- Hr; apply grun_inv, ginv_init).
    unfold gstep in Hd. destruct (slot_busy (infl (ga st)) i); [inversion Hd|]. inversion Hd; subst st1. clear Hd.
    destruct (gstep src s cap {| ga := ga st; ggen := gen_bump (ggen st) i |} (GCall id i c bl b)) as [st2 r] eqn:E.
    cbn in Hh. subst r. apply gen_hit_same_instance in E as (e & A & B & C & _). cbn in A, C.
    destruct Hinv as [Hs _]. specialize (Hs _ A). unfold gfits in Hs. rewrite B in Hs.
    rewrite gen_bump_of, Z.eqb_refl in C. lia.
  Qed.
End GenProofs.

Example ex_generations :
  run_case (CAlruG 128 (mkSig [(99, None); (0, Some 2)] [] false)
              [GCall 0 0 (mkCall [1] []) false (BRet 100); GDrop 0; GCall 1 0 (mkCall [1] []) false (BRet 101);
               GCall 2 0 (mkCall [] [(0, 1)]) false (BRet 102)]) =
  OAlru [(RMiss 100, 1); (RUnit, 1); (RMiss 101, 2); (RHit 101, 2)] [0; 1].
Proof. vm_compute. reflexivity. Qed.
