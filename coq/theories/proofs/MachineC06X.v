(* C06: a context whose pause() raises when __exit__ makes it (harness fault {"exit": e}).
   AsyncContext.__exit__ (contexts.py 93-104) deregisters the context from its task (leave_context) and then calls
   pause(); when that call raises, the with-statement ends with the error, whatever it was left with.  For the model
   this is a PROGRAM, not a new kind of context: Machine.exit_ctx removes the context and emits the pause, and the
   continuation of  Exit c  is the error continuation on every exit path - Exit c (Raise e), or Exit c (handler e) under a
   try.  harness/lib/machprog.py emits exactly that.  Such programs are tree programs with well-nested with-blocks
   (wn_exit puts no condition on what follows the Exit), so statements (3)-(7) of props/C06.v hold for them; here the
   hypotheses are shown to be met by the minimal instance and its trace is computed: the task catches the error, is
   suspended for one more batch flush, and the context's LAST event stays the pause made on exit. *)
From Asynq Require Import Machine Seq proofs.ProgProofs proofs.MachineFrame proofs.MachineC05 proofs.MachineC08
     proofs.MachineC01 proofs.MachineDFS proofs.MachineC04 proofs.MachineC07 proofs.MachineC06T.

(* the handler of `try: with ctx: ... except BaseException as e1: pass`, followed by the rest of the task: one more yield
   of a batch item (a suspension and a flush), then the caught error's id is returned *)
Definition c06x_rest (e : exn) : prog :=
  Yield (YLeaf (LNew (FItem 0 2 (ASet (VInt 6)))))
        (fun o => match o with Ok _ => Ret (VTuple [VInt (-999); VInt e]) | Err e' => Raise e' end).

(* with ctx(1, exit fault 7): x = yield item(0, 1)   - the block spans a suspension; both exit paths end in the fault *)
Definition c06x_demo : prog :=
  Enter (CAsync 1 NoFault)
    (Yield (YLeaf (LNew (FItem 0 1 (ASet (VInt 5))))) (fun _ => Exit (CAsync 1 NoFault) (c06x_rest 7))).

Lemma c06x_demo_ok : tree c06x_demo /\ wn [] c06x_demo.
Proof.
  unfold c06x_demo, c06x_rest. split.
  - apply tree_enter; [reflexivity|]. apply tree_yield; [intros l [<-|[]]; repeat constructor|].
    intros _. apply tree_exit; [reflexivity|]. apply tree_yield; [intros l [<-|[]]; repeat constructor|].
    intros o. destruct o; constructor.
  - apply wn_enter; [intros []|]. cbn [app]. apply wn_yield; [intros q [E|[]]; discriminate|].
    intros _. apply (wn_exit [] (CAsync 1 NoFault)). apply wn_yield; [intros q [E|[]]; discriminate|].
    intros o. destruct o; constructor.
Qed.

Lemma c06x_demo_runs :
  let P := mkP [] 1000 false [] in
  let h := fst (create [] (FTask c06x_demo) (st0 P)) in
  let s1 := snd (create [] (FTask c06x_demo) (st0 P)) in
  let tr := trace (c_st (run P 200 (start h s1))) in
  tree c06x_demo /\ wn [] c06x_demo /\ pointwise P /\ no_unwind_b P 200 (start h s1) = true /\
  c_mode (run P 200 (start h s1)) = MDone (Ok (VTuple [VInt (-999); VInt 7])) /\
  length (filter (fun e => match e with EvFlush _ _ _ => true | _ => false end) tr) = 2%nat /\
  ctx_events [0] 1 tr = [EvResume [0] 1; EvPause [0] 1; EvResume [0] 1; EvPause [0] 1].
Proof.
  split; [apply c06x_demo_ok|]. split; [apply c06x_demo_ok|]. split; [intros k; reflexivity|]. vm_compute.
  repeat match goal with |- _ /\ _ => split end; reflexivity.
Qed.
