(* KEEP_DEPENDENCIES (p_keep) on the scheduler machine, for every program, history, oracle and fuel.

   The option is read in one place (the MResume transition of [step]): with it a task keeps its old
   dependencies in tk_deps across a resume; without it the list is cleared.

   Method: a normal form instead of a two-run relation.  [nmap c s] removes from every task's tk_deps
   the futures d with c d = true; [nrm s] does so with c = "computed in s".  Every helper of the
   machine that does not look inside tk_deps commutes with [nmap c] (for EVERY c), and computedness
   only grows, hence [nrm (f s) = nrm (f (nrm s))].  Two runs are related when their configurations
   have the same normal form ([sim]).  [step] commutes with the normal form for every configuration
   (step_ncfg; since repair 6f3969f the Yield transition branches on the futures of THIS yield, not on
   the stored list), and steps of P and P' that differ only in p_keep agree up to normal form (step_keep)
   whenever the task being resumed has no UNCOMPUTED stored dependency ([rinv], decidable: [resume_ok]).
   That condition is what C03 states about the scheduler (a task resumes only when all it awaits is
   done); the machine can violate it only through its re-entrancy artifact (a task re-entered through a
   synchronous .value() of a task that awaits it - CPython raises "generator already executing" there),
   see the counterexample at the end; keep_inert_no_reentry proves that runs WITHOUT re-entrant resumes
   satisfy it (invariant V: no task has two open activations, and every open task - running, being
   resumed, or suspended inside value() - has all its stored dependencies computed; [shr]: every helper
   leaves a task's stored dependencies alone or empties them).  History: the first version of this file (against the model of
   the unrepaired code, which branched on the whole stored list) refuted the inertness statement with
   the program [cxk_root]; that witness reproduced on the implementation and was repaired. *)
From Asynq Require Import Machine Seq proofs.ProgProofs proofs.MachineFrame proofs.MachineC05 proofs.MachineC08
  proofs.MachineC01 proofs.MachineC02 proofs.MachineSteps.

Definition same_but_keep (P P' : params) : Prop :=
  p_kinds P = p_kinds P' /\ p_maxstack P = p_maxstack P' /\ p_oracle P = p_oracle P'.

(* ------------------------------------------------------------------ the normal form *)
Definition unc (c : fid -> bool) (d : fid) : bool := negb (c d).

Definition ntk (c : fid -> bool) (tk : task) : task :=
  mkTask (tk_gen tk) (tk_last tk) (filter (unc c) (tk_deps tk)) (tk_ctxs tk) (tk_cact tk) (tk_ds tk)
         (tk_iter tk) (tk_next tk).
Definition nkind (c : fid -> bool) (k : fkind) : fkind :=
  match k with KTask tk => KTask (ntk c tk) | _ => k end.
Definition nfut (c : fid -> bool) (f : fut) : fut := mkFut (f_out f) (nkind c (f_kind f)).
Definition nheap (c : fid -> bool) (h : list (fid * fut)) : list (fid * fut) :=
  map (fun kv => (fst kv, nfut c (snd kv))) h.
Definition nmap (c : fid -> bool) (s : st) : st := with_heap s (nheap c (heap s)).
Definition cof (s : st) : fid -> bool := fun h => computed h s.
Definition nrm (s : st) : st := nmap (cof s) s.
Definition ncfg (c : cfg) : cfg := mkC (c_mode c) (c_frames c) (nrm (c_st c)).

(* two configurations / states are related when they have the same normal form: everything equal
   except tk_deps, whose uncomputed members are the same in the same order *)
Definition ssim (s s' : st) : Prop := nrm s = nrm s'.
Definition sim (c c' : cfg) : Prop := ncfg c = ncfg c'.

(* ------------------------------------------------------------------ observations of a mapped state *)
Lemma get_nmap c h s : get h (nmap c s) = option_map (nfut c) (get h s).
Proof.
  unfold get, nmap. cbn [heap with_heap]. induction (heap s) as [|[k v] l IH]; cbn; [reflexivity|].
  destruct (fid_eqb k h); [reflexivity|exact IH].
Qed.

Lemma computed_nmap c h s : computed h (nmap c s) = computed h s.
Proof. unfold computed. rewrite get_nmap. destruct (get h s); reflexivity. Qed.

Lemma outcome_of_nmap c h s : outcome_of h (nmap c s) = outcome_of h s.
Proof. unfold outcome_of. rewrite get_nmap. destruct (get h s); reflexivity. Qed.

Lemma look_nmap c s r : look (nmap c s) r = look s r.
Proof. destruct r; [apply outcome_of_nmap|reflexivity]. Qed.

Lemma unwrap_look_nmap c s y : unwrap (look (nmap c s)) y = unwrap (look s) y.
Proof. apply unwrap_ext. intros a _. apply look_nmap. Qed.

Lemma get_task_nmap c t s : get_task t (nmap c s) = option_map (ntk c) (get_task t s).
Proof. unfold get_task. rewrite get_nmap. destruct (get t s) as [[o [tk| | |]]|]; reflexivity. Qed.

Lemma get_batch_nmap c k s : get_batch k (nmap c s) = get_batch k s. Proof. reflexivity. Qed.
Lemma cur_idx_nmap c k s : cur_idx k (nmap c s) = cur_idx k s. Proof. reflexivity. Qed.
Lemma var_get_nmap c v s : var_get v (nmap c s) = var_get v s. Proof. reflexivity. Qed.
Lemma ci_get_nmap c k s : ci_get k (nmap c s) = ci_get k s. Proof. reflexivity. Qed.
Lemma tasks_nmap c s : tasks (nmap c s) = tasks s. Proof. reflexivity. Qed.
Lemma active_nmap c s : active (nmap c s) = active s. Proof. reflexivity. Qed.
Lemma sb_nmap c s : sb (nmap c s) = sb s. Proof. reflexivity. Qed.
Lemma oracle_nmap c s : oracle (nmap c s) = oracle s. Proof. reflexivity. Qed.
Lemma trace_nmap c s : trace (nmap c s) = trace s. Proof. reflexivity. Qed.
Lemma top_next_nmap c s : top_next (nmap c s) = top_next s. Proof. reflexivity. Qed.

Lemma computed_set_task h t tk s : computed h (set_task t tk s) = computed h s.
Proof.
  unfold set_task. destruct (get t s) as [f|] eqn:G; [|reflexivity]. rewrite computed_put.
  destruct (fid_eqb h t) eqn:E; [|reflexivity]. apply fid_eqb_eq in E. subst h. cbn [f_out].
  unfold computed. rewrite G. reflexivity.
Qed.

Lemma var_get_set_task v t tk s : var_get v (set_task t tk s) = var_get v s.
Proof. unfold set_task. destruct (get t s); reflexivity. Qed.
Lemma ci_get_set_task k t tk s : ci_get k (set_task t tk s) = ci_get k s.
Proof. unfold set_task. destruct (get t s); reflexivity. Qed.

#[export] Hint Rewrite computed_nmap outcome_of_nmap get_nmap get_task_nmap get_batch_nmap cur_idx_nmap var_get_nmap
  ci_get_nmap tasks_nmap active_nmap sb_nmap oracle_nmap top_next_nmap unwrap_look_nmap
  var_get_set_task ci_get_set_task : nmo.

(* ------------------------------------------------------------------ writers commute with nmap *)
Lemma nheap_upd c h f l : nheap c (upd fid_eqb h f l) = upd fid_eqb h (nfut c f) (nheap c l).
Proof.
  induction l as [|[k v] l IH]; cbn; [reflexivity|]. destruct (fid_eqb k h); cbn; [reflexivity|].
  f_equal. exact IH.
Qed.

Lemma nmap_put c h f s : nmap c (put h f s) = put h (nfut c f) (nmap c s).
Proof.
  unfold put, nmap, with_heap. cbn [heap batches cur sb tasks active vars cis oracle top_next trace].
  rewrite nheap_upd. reflexivity.
Qed.

Lemma nmap_set_task c t tk s : nmap c (set_task t tk s) = set_task t (ntk c tk) (nmap c s).
Proof.
  unfold set_task. rewrite get_nmap. destruct (get t s) as [f|]; cbn [option_map]; [|reflexivity].
  rewrite nmap_put. reflexivity.
Qed.

Lemma nmap_emit c e s : nmap c (emit e s) = emit e (nmap c s). Proof. reflexivity. Qed.
Lemma nmap_with_tasks c s l : nmap c (with_tasks s l) = with_tasks (nmap c s) l. Proof. reflexivity. Qed.
Lemma nmap_with_active c s a : nmap c (with_active s a) = with_active (nmap c s) a. Proof. reflexivity. Qed.
Lemma nmap_with_sb c s l : nmap c (with_sb s l) = with_sb (nmap c s) l. Proof. reflexivity. Qed.
Lemma nmap_with_oracle c s l : nmap c (with_oracle s l) = with_oracle (nmap c s) l. Proof. reflexivity. Qed.
Lemma nmap_with_cur c s l : nmap c (with_cur s l) = with_cur (nmap c s) l. Proof. reflexivity. Qed.
Lemma nmap_with_top_next c s n : nmap c (with_top_next s n) = with_top_next (nmap c s) n. Proof. reflexivity. Qed.
Lemma nmap_put_batch c k b s : nmap c (put_batch k b s) = put_batch k b (nmap c s). Proof. reflexivity. Qed.
Lemma nmap_var_set c v x s : nmap c (var_set v x s) = var_set v x (nmap c s). Proof. reflexivity. Qed.
Lemma nmap_ci_put c k x s : nmap c (ci_put k x s) = ci_put k x (nmap c s). Proof. reflexivity. Qed.
Lemma nmap_pop_task c s : nmap c (pop_task s) = pop_task (nmap c s). Proof. reflexivity. Qed.
Lemma nmap_reset_sched c s : nmap c (reset_sched s) = reset_sched (nmap c s). Proof. reflexivity. Qed.
Lemma nmap_drop_sb c s : nmap c (drop_sb s) = drop_sb (nmap c s).
Proof. unfold drop_sb. rewrite tasks_nmap. destruct (tasks s); reflexivity. Qed.

#[export] Hint Rewrite nmap_put nmap_set_task nmap_emit nmap_with_tasks nmap_with_active nmap_with_sb nmap_with_oracle
  nmap_with_cur nmap_with_top_next nmap_put_batch nmap_var_set nmap_ci_put nmap_pop_task nmap_reset_sched nmap_drop_sb : nm.

Lemma nmap_schedule_batch c k s : nmap c (schedule_batch k s) = schedule_batch k (nmap c s).
Proof.
  unfold schedule_batch. autorewrite with nmo. destruct (b_done (get_batch k s)); [reflexivity|].
  destruct (existsb (key_eqb k) (sb s)); reflexivity.
Qed.

Lemma create_nmap c p f s : create p f (nmap c s) = (fst (create p f s), nmap c (snd (create p f s))).
Proof.
  unfold create, alloc. cbn zeta. destruct f; cbn [fst snd]; autorewrite with nm; reflexivity.
Qed.

Lemma inst_nmap c p y : forall s, inst p y (nmap c s) = (fst (inst p y s), nmap c (snd (inst p y s))).
Proof.
  induction y as [| a | l IH | l IH | l IH] using ystruct_ind2; intros s.
  - reflexivity.
  - destruct a as [f|h|]; simpl; try reflexivity.
    rewrite create_nmap. destruct (create p f s). reflexivity.
  - simpl. match goal with |- context [(?g l s)] => set (go := g) end.
    assert (H : forall s, go l (nmap c s) = (fst (go l s), nmap c (snd (go l s)))).
    { clear s. induction IH as [|x l Hx Hl IHl]; intros s; [reflexivity|]. simpl.
      rewrite Hx. destruct (inst p x s) as [x' s1]. cbn [fst snd].
      rewrite IHl. destruct (go l s1) as [l'' s2]. reflexivity. }
    rewrite H. destruct (go l s). reflexivity.
  - simpl. match goal with |- context [(?g l s)] => set (go := g) end.
    assert (H : forall s, go l (nmap c s) = (fst (go l s), nmap c (snd (go l s)))).
    { clear s. induction IH as [|x l Hx Hl IHl]; intros s; [reflexivity|]. simpl.
      rewrite Hx. destruct (inst p x s) as [x' s1]. cbn [fst snd].
      rewrite IHl. destruct (go l s1) as [l'' s2]. reflexivity. }
    rewrite H. destruct (go l s). reflexivity.
  - simpl. match goal with |- context [(?g l s)] => set (go := g) end.
    assert (H : forall s, go l (nmap c s) = (fst (go l s), nmap c (snd (go l s)))).
    { clear s. induction IH as [|[k x] l Hx Hl IHl]; intros s; [reflexivity|]. simpl. simpl in Hx.
      rewrite Hx. destruct (inst p x s) as [x' s1]. cbn [fst snd].
      rewrite IHl. destruct (go l s1) as [l'' s2]. reflexivity. }
    rewrite H. destruct (go l s). reflexivity.
Qed.

(* ------------------------------------------------------------------ contexts and completion *)
Lemma nmap_enter_ctx c t cx s : nmap c (enter_ctx t cx s) = enter_ctx t cx (nmap c s).
Proof.
  unfold enter_ctx. rewrite get_task_nmap. destruct (get_task t s) as [tk|]; cbn [option_map];
    destruct cx; autorewrite with nm nmo; reflexivity.
Qed.

Lemma nmap_pause_plain c t cx s : nmap c (pause_plain t cx s) = pause_plain t cx (nmap c s).
Proof. destruct cx; reflexivity. Qed.

Lemma nmap_exit_ctx c t cx s : nmap c (exit_ctx t cx s) = exit_ctx t cx (nmap c s).
Proof.
  unfold exit_ctx. rewrite get_task_nmap.
  destruct (get_task t s) as [tk|]; cbn [option_map]; [|apply nmap_pause_plain].
  cbn [ntk tk_cact]. destruct (tk_cact tk); rewrite ?nmap_pause_plain; autorewrite with nm; reflexivity.
Qed.

Lemma nmap_fold {X} (g : st -> X -> st) c l :
  (forall s x, nmap c (g s x) = g (nmap c s) x) -> forall s, nmap c (fold_left g l s) = fold_left g l (nmap c s).
Proof. intros H. induction l as [|x l IH]; intros s; cbn; [reflexivity|]. rewrite IH, H. reflexivity. Qed.

Lemma nmap_complete_task c t o s : nmap c (complete_task t o s) = complete_task t o (nmap c s).
Proof.
  unfold complete_task. rewrite get_task_nmap. destruct (get_task t s) as [tk|]; cbn [option_map]; [|reflexivity].
  cbn [ntk tk_gen tk_ctxs].
  set (s1 := match tk_gen tk with
             | Some _ => fold_left (fun s c => exit_ctx t c s) (rev (tk_ctxs tk)) s
             | None => s end).
  assert (E : match tk_gen tk with
              | Some _ => fold_left (fun s c => exit_ctx t c s) (rev (tk_ctxs tk)) (nmap c s)
              | None => nmap c s end = nmap c s1).
  { unfold s1. destruct (tk_gen tk); [|reflexivity]. symmetry. apply nmap_fold. intros. apply nmap_exit_ctx. }
  rewrite E, get_task_nmap. destruct (get_task t s1) as [tk1|]; cbn [option_map]; [|reflexivity].
  autorewrite with nm. reflexivity.
Qed.

Lemma nmap_accept_error c t e s : nmap c (accept_error t e s) = accept_error t e (nmap c s).
Proof. unfold accept_error. rewrite computed_nmap. destruct (computed t s); [reflexivity|apply nmap_complete_task]. Qed.

Lemma resume1_nmap c t cx s : resume1 t cx (nmap c s) = (nmap c (fst (resume1 t cx s)), snd (resume1 t cx s)).
Proof.
  destruct cx as [cid f|cid|cid var v]; [destruct f| |]; unfold resume1;
    rewrite ?ci_get_nmap, ?var_get_nmap; cbn [fst snd]; try reflexivity;
    match goal with |- context [if ?b then _ else _] => destruct b end; reflexivity.
Qed.

Lemma pause1_nmap c t cx s : pause1 t cx (nmap c s) = (nmap c (fst (pause1 t cx s)), snd (pause1 t cx s)).
Proof.
  destruct cx as [cid f|cid|cid var v]; [destruct f| |]; unfold pause1;
    rewrite ?ci_get_nmap, ?var_get_nmap; cbn [fst snd]; try reflexivity;
    match goal with |- context [if ?b then _ else _] => destruct b end; reflexivity.
Qed.

Lemma fold_pair_nmap {X E} (g : st * E -> X -> st * E) c l :
  (forall s e x, g (nmap c s, e) x = (nmap c (fst (g (s, e) x)), snd (g (s, e) x))) ->
  forall s e, fold_left g l (nmap c s, e) = (nmap c (fst (fold_left g l (s, e))), snd (fold_left g l (s, e))).
Proof.
  intros H. induction l as [|x l IH]; intros s e; cbn; [reflexivity|].
  rewrite H. destruct (g (s, e) x) as [s1 e1]. cbn [fst snd]. apply IH.
Qed.

Lemma nmap_resume_contexts c t s : nmap c (resume_contexts t s) = resume_contexts t (nmap c s).
Proof.
  unfold resume_contexts. rewrite get_task_nmap. destruct (get_task t s) as [tk|]; cbn [option_map]; [|reflexivity].
  cbn [ntk tk_cact tk_ctxs]. destruct (tk_cact tk); [reflexivity|].
  change (tk_with_ctxs (ntk c tk) (tk_ctxs tk) true) with (ntk c (tk_with_ctxs tk (tk_ctxs tk) true)).
  rewrite <- nmap_set_task.
  match goal with |- context [fold_left ?f ?l (nmap c ?s0, ?e0)] =>
    rewrite (fold_pair_nmap f c l) with (s := s0) (e := e0);
      [destruct (fold_left f l (s0, e0)) as [s1 [e|]]; cbn [fst snd]; [symmetry; symmetry; apply nmap_accept_error|reflexivity]|] end.
  intros s2 e2 x. rewrite resume1_nmap. destruct (resume1 t x s2). reflexivity.
Qed.

Lemma nmap_pause_contexts c t s : nmap c (pause_contexts t s) = pause_contexts t (nmap c s).
Proof.
  unfold pause_contexts. rewrite get_task_nmap. destruct (get_task t s) as [tk|]; cbn [option_map]; [|reflexivity].
  cbn [ntk tk_cact tk_ctxs]. destruct (negb (tk_cact tk)); [reflexivity|].
  change (tk_with_ctxs (ntk c tk) (tk_ctxs tk) false) with (ntk c (tk_with_ctxs tk (tk_ctxs tk) false)).
  rewrite <- nmap_set_task.
  match goal with |- context [fold_left ?f ?l (nmap c ?s0, ?e0)] =>
    rewrite (fold_pair_nmap f c l) with (s := s0) (e := e0);
      [destruct (fold_left f l (s0, e0)) as [s1 [e|]]; cbn [fst snd]; [apply nmap_accept_error|reflexivity]|] end.
  intros s2 e2 x. rewrite pause1_nmap. destruct (pause1 t x s2). reflexivity.
Qed.

(* ------------------------------------------------------------------ batches *)
Lemma nmap_complete_item c h o s : nmap c (complete_item h o s) = complete_item h o (nmap c s).
Proof.
  unfold complete_item. rewrite get_nmap. destruct (get h s) as [f|]; cbn [option_map]; [|reflexivity].
  cbn [nfut f_out]. destruct (f_out f); [reflexivity|]. autorewrite with nm. reflexivity.
Qed.

Lemma flush_body_nmap c items : forall i ra s,
  flush_body items i ra (nmap c s) = (nmap c (fst (flush_body items i ra s)), snd (flush_body items i ra s)).
Proof.
  induction items as [|h rest IH]; intros i ra s; cbn [flush_body].
  - destruct ra as [[k e]|]; reflexivity.
  - rewrite get_nmap. destruct ra as [[k e]|].
    + destruct (Z.eqb i k); [reflexivity|].
      destruct (get h s) as [[o [tk | kind idx key [v|e'|] | o' | ]]|]; cbn [option_map nfut nkind f_kind f_out];
        rewrite <- ?nmap_complete_item; apply IH.
    + destruct (get h s) as [[o [tk | kind idx key [v|e'|] | o' | ]]|]; cbn [option_map nfut nkind f_kind f_out];
        rewrite <- ?nmap_complete_item; apply IH.
Qed.

Lemma nmap_flush_batch c P k s : nmap c (flush_batch P k s) = flush_batch P k (nmap c s).
Proof.
  unfold flush_batch. rewrite get_batch_nmap, cur_idx_nmap. destruct (b_done (get_batch k s)); [reflexivity|].
  cbn zeta.
  set (s0 := if Z.eqb (cur_idx (fst k) s) (snd k) then with_cur s (upd Z.eqb (fst k) (snd k + 1)%Z (cur s)) else s).
  assert (E0 : (if Z.eqb (cur_idx (fst k) s) (snd k)
                then with_cur (nmap c s) (upd Z.eqb (fst k) (snd k + 1)%Z (cur (nmap c s))) else nmap c s) = nmap c s0).
  { unfold s0. destruct (Z.eqb _ _); reflexivity. }
  rewrite E0. rewrite <- nmap_emit. rewrite flush_body_nmap.
  destruct (flush_body (b_items (get_batch k s)) 0 (ks_raise (kspec_of P (fst k)))
                       (emit (EvFlush (fst k) (snd k) (b_items (get_batch k s))) s0)) as [s2 err].
  cbn [fst snd]. rewrite <- nmap_fold by (intros; apply nmap_complete_item).
  rewrite get_batch_nmap. reflexivity.
Qed.

Lemma first_max_nmap c P l : forall best s, first_max P l best (nmap c s) = first_max P l best s.
Proof.
  induction l as [|k l IH]; intros best s; cbn [first_max]; [reflexivity|].
  destruct best as [b|]; [|apply IH].
  change (prio_of P b (nmap c s)) with (prio_of P b s). change (prio_of P k (nmap c s)) with (prio_of P k s).
  destruct (prio_lt _ _); apply IH.
Qed.

Lemma select_nmap c P s : select P (nmap c s) = (fst (select P s), nmap c (snd (select P s))).
Proof.
  unfold select. rewrite sb_nmap.
  change (filter (fun k => eligible k (nmap c s)) (sb s)) with (filter (fun k => eligible k s) (sb s)).
  destruct (filter (fun k => eligible k s) (sb s)) as [|k0 el]; [reflexivity|].
  cbn [oracle with_sb nmap with_heap]. destruct (oracle s) as [|c0 rest].
  - cbn [fst snd]. f_equal. apply (first_max_nmap c P (k0 :: el) None (with_sb s (k0 :: el))).
  - match goal with |- (if ?b then _ else _) = _ => change b with (existsb (key_eqb c0) (k0 :: el) && is_max P c0 (k0 :: el) (with_sb s (k0 :: el))) end.
    destruct (existsb (key_eqb c0) (k0 :: el) && is_max P c0 (k0 :: el) (with_sb s (k0 :: el))); cbn [fst snd]; [reflexivity|].
    f_equal. apply (first_max_nmap c P (k0 :: el) None (with_sb s (k0 :: el))).
Qed.

Lemma nmap_continue_with_batch c P s : nmap c (continue_with_batch P s) = continue_with_batch P (nmap c s).
Proof.
  unfold continue_with_batch. rewrite select_nmap. destruct (select P s) as [[k|] s1]; cbn [fst snd]; [|reflexivity].
  rewrite nmap_emit, nmap_flush_batch. reflexivity.
Qed.

#[export] Hint Rewrite nmap_schedule_batch nmap_enter_ctx nmap_exit_ctx nmap_complete_task nmap_accept_error
  nmap_resume_contexts nmap_pause_contexts nmap_complete_item nmap_flush_batch nmap_continue_with_batch : nm.

(* ------------------------------------------------------------------ normal forms compose *)
Definition le (s s' : st) : Prop := forall d, computed d s = true -> computed d s' = true.

Lemma le_refl s : le s s. Proof. intros d H. exact H. Qed.
Lemma le_trans a b c : le a b -> le b c -> le a c. Proof. intros A B d H. apply B, A, H. Qed.
Lemma le_calm s s' : dom_ok s -> calm s s' -> le s s'.
Proof. intros D C. destruct (C D) as (_ & _ & _ & M & _). exact M. Qed.

Lemma filter_unc_mono c c' l :
  (forall d, c d = true -> c' d = true) -> filter (unc c') (filter (unc c) l) = filter (unc c') l.
Proof.
  intros H. induction l as [|a l IH]; [reflexivity|]. destruct (c a) eqn:Ea.
  - assert (U : unc c a = false) by (unfold unc; rewrite Ea; reflexivity).
    assert (U' : unc c' a = false) by (unfold unc; rewrite (H a Ea); reflexivity).
    cbn [filter]. rewrite U, U'. exact IH.
  - assert (U : unc c a = true) by (unfold unc; rewrite Ea; reflexivity).
    cbn [filter]. rewrite U. cbn [filter]. rewrite IH. reflexivity.
Qed.

Lemma filter_unc_ext c c' l : (forall d, c d = c' d) -> filter (unc c) l = filter (unc c') l.
Proof. intros H. apply filter_ext. intros a. unfold unc. rewrite H. reflexivity. Qed.

Lemma nfut_nfut c c' f : (forall d, c d = true -> c' d = true) -> nfut c' (nfut c f) = nfut c' f.
Proof.
  intros H. destruct f as [o [tk| | |]]; try reflexivity. unfold nfut, nkind, ntk. cbn [f_out f_kind tk_gen tk_last tk_deps tk_ctxs tk_cact tk_ds tk_iter tk_next].
  rewrite (filter_unc_mono c c' _ H). reflexivity.
Qed.

Lemma nfut_ext c c' f : (forall d, c d = c' d) -> nfut c f = nfut c' f.
Proof.
  intros H. destruct f as [o [tk| | |]]; try reflexivity. unfold nfut, nkind, ntk. cbn [f_out f_kind].
  rewrite (filter_unc_ext c c' _ H). reflexivity.
Qed.

Lemma nmap_nmap c c' s : (forall d, c d = true -> c' d = true) -> nmap c' (nmap c s) = nmap c' s.
Proof.
  intros H. unfold nmap, with_heap. cbn [heap batches cur sb tasks active vars cis oracle top_next trace].
  unfold nheap. rewrite map_map. f_equal. apply map_ext. intros [k v]. cbn [fst snd]. rewrite (nfut_nfut c c' v H). reflexivity.
Qed.

Lemma nmap_ext c c' s : (forall d, c d = c' d) -> nmap c s = nmap c' s.
Proof.
  intros H. unfold nmap, with_heap. f_equal. unfold nheap. apply map_ext. intros [k v]. cbn [fst snd].
  rewrite (nfut_ext c c' v H). reflexivity.
Qed.

Lemma nrm_close s X : le s X -> nrm (nmap (cof s) X) = nrm X.
Proof.
  intros H. unfold nrm. rewrite (nmap_ext (cof (nmap (cof s) X)) (cof X)) by (intros d; apply computed_nmap).
  apply nmap_nmap. exact H.
Qed.

Lemma nrm_nrm s : nrm (nrm s) = nrm s.
Proof. apply nrm_close, le_refl. Qed.

Lemma ncfg_close s X Y m fr : Y = nmap (cof s) X -> le s X -> ncfg (mkC m fr X) = ncfg (mkC m fr Y).
Proof. intros -> H. unfold ncfg. cbn [c_mode c_frames c_st]. rewrite (nrm_close s X H). reflexivity. Qed.

(* what the scheduler reads from tk_deps is the same on a mapped state, as long as the removed
   futures are computed *)
Lemma existsb_unc c l s1 :
  (forall d, c d = true -> computed d s1 = true) ->
  existsb (fun d => negb (computed d s1)) (filter (unc c) l) = existsb (fun d => negb (computed d s1)) l.
Proof.
  intros H. induction l as [|a l IH]; [reflexivity|]. destruct (c a) eqn:Ea.
  - assert (U : unc c a = false) by (unfold unc; rewrite Ea; reflexivity).
    cbn [filter existsb]. rewrite U, (H a Ea). cbn [negb orb]. exact IH.
  - assert (U : unc c a = true) by (unfold unc; rewrite Ea; reflexivity).
    cbn [filter existsb]. rewrite U. cbn [existsb]. rewrite IH. reflexivity.
Qed.

Lemma existsb_ext' {A} (f g : A -> bool) (l : list A) : (forall a, f a = g a) -> existsb f l = existsb g l.
Proof. intros H. induction l as [|a l IH]; [reflexivity|]. cbn. rewrite H, IH. reflexivity. Qed.

Lemma is_blocked_ntk c c' tk s1 :
  (forall d, c d = true -> computed d s1 = true) -> is_blocked (ntk c tk) (nmap c' s1) = is_blocked tk s1.
Proof.
  intros H. unfold is_blocked. cbn [ntk tk_deps].
  rewrite (existsb_ext' _ (fun d => negb (computed d s1))) by (intros d; rewrite computed_nmap; reflexivity).
  apply existsb_unc. exact H.
Qed.

Lemma filter_todo c c' l s1 :
  (forall d, c d = true -> computed d s1 = true) ->
  filter (fun d => negb (computed d (nmap c' s1))) (filter (unc c) l) = filter (fun d => negb (computed d s1)) l.
Proof.
  intros H. rewrite (filter_ext _ (fun d => negb (computed d s1))) by (intros d; rewrite computed_nmap; reflexivity).
  exact (filter_unc_mono c (cof s1) l H).
Qed.

(* generator.close() at the end of the body (the local close_gen of [step]) *)
Definition close_gen (t : fid) (s : st) : st :=
  match get_task t s with
  | Some tk => set_task t (mkTask None (tk_last tk) (tk_deps tk) (tk_ctxs tk) (tk_cact tk) (tk_ds tk)
                                  (tk_iter tk) (tk_next tk)) s
  | None => s
  end.

Lemma nmap_close_gen c t s : nmap c (close_gen t s) = close_gen t (nmap c s).
Proof.
  unfold close_gen. rewrite get_task_nmap. destruct (get_task t s) as [tk|]; cbn [option_map]; [|reflexivity].
  rewrite nmap_set_task. reflexivity.
Qed.

Lemma calm_close_gen t s : calm s (close_gen t s).
Proof. unfold close_gen. destruct (get_task t s) as [tk|] eqn:G; [|apply calm_refl]. apply (calm_set_task t tk); [exact G|reflexivity]. Qed.

(* the Yield transition: the new futures are appended to the stored dependencies *)
Lemma nrm_yield s s1 t g y' D0 F cx ca ds it nx : le s s1 ->
  nrm (set_task t (mkTask g y' (D0 ++ F) cx ca ds it nx) s1) =
  nrm (set_task t (mkTask g y' (filter (unc (cof s)) D0 ++ F) cx ca ds it nx) (nmap (cof s) s1)).
Proof.
  intros L. unfold nrm.
  rewrite (nmap_ext (cof (set_task t (mkTask g y' (D0 ++ F) cx ca ds it nx) s1)) (cof s1))
    by (intros d; apply computed_set_task).
  rewrite (nmap_ext (cof (set_task t (mkTask g y' (filter (unc (cof s)) D0 ++ F) cx ca ds it nx) (nmap (cof s) s1))) (cof s1))
    by (intros d; unfold cof; rewrite computed_set_task, computed_nmap; reflexivity).
  rewrite !nmap_set_task. rewrite (nmap_nmap (cof s) (cof s1) s1 L). f_equal.
  unfold ntk. cbn [tk_gen tk_last tk_deps tk_ctxs tk_cact tk_ds tk_iter tk_next]. f_equal.
  rewrite !filter_app, (filter_unc_mono (cof s) (cof s1) D0 L). reflexivity.
Qed.

(* ------------------------------------------------------------------ step commutes with the normal form *)

Ltac nred := cbn [option_map nfut nkind ntk f_kind f_out tk_gen tk_last tk_deps tk_ctxs tk_cact tk_ds tk_iter tk_next
                  fst snd c_st c_mode c_frames].

Ltac dstep :=
  match goal with
  | |- context [match ?x with _ => _ end] =>
      lazymatch x with
      | context [nmap] => fail
      | context [option_map] => fail
      | _ => destruct x eqn:?
      end
  | |- context [if ?x then _ else _] =>
      lazymatch x with
      | context [nmap] => fail
      | context [option_map] => fail
      | _ => destruct x eqn:?
      end
  end.

Lemma inst_nmap_fst c p y s : fst (inst p y (nmap c s)) = fst (inst p y s).
Proof. rewrite inst_nmap. reflexivity. Qed.
Lemma get_task_with_active t a z : get_task t (with_active z a) = get_task t z. Proof. reflexivity. Qed.

#[export] Hint Rewrite create_nmap inst_nmap get_task_with_active computed_set_task : nmo.

Ltac go := repeat (first [progress (autorewrite with nmo) | dstep]; nred).

Theorem step_ncfg P c : dom_ok (c_st c) -> ncfg (step P c) = ncfg (step P (ncfg c)).
Proof.
  destruct c as [m fr s]. cbn [c_st]. intros D. unfold ncfg at 3. cbn [c_mode c_frames c_st]. unfold nrm.
  set (c0 := cof s).
  assert (Q : forall m_ fr_ X Y, Y = nmap c0 X -> calm s X -> ncfg (mkC m_ fr_ X) = ncfg (mkC m_ fr_ Y)).
  { intros m_ fr_ X Y0 E C. apply (ncfg_close s X Y0 m_ fr_ E). apply le_calm; assumption. }
  assert (IB : forall tk, is_blocked (ntk c0 tk) (nmap c0 s) = is_blocked tk s).
  { intros tk. apply is_blocked_ntk. intros d Hd. exact Hd. }
  Local Ltac fin c0 Q :=
    first [ apply Q; [autorewrite with nm; reflexivity | ch]
          | match goal with |- ncfg (mkC ?m ?fr ?X) = ncfg (mkC ?m' ?fr' ?Y) =>
      let EY := fresh "EY" in
      assert (EY : Y = nmap c0 X) by (autorewrite with nm; reflexivity);
      rewrite EY; autorewrite with nmo; apply Q; [reflexivity | ch]
    end ].
  destruct m as [h| | | |t|t p| |o|e|o|]; cbn [step c_mode c_frames c_st];
   try (go; fin c0 Q; fail).
  - (* MExecLoop *)
    destruct fr as [|f0 fr']; [fin c0 Q|]. destruct f0 as [|t0 k0|root|init|t0 old]; try (fin c0 Q).
    rewrite tasks_nmap. destruct (Nat.leb (length (tasks s)) init); [fin c0 Q|].
    destruct (Z.ltb (p_maxstack P) (Z.of_nat (length (tasks s)))); [fin c0 Q|].
    destruct (tasks s) as [|x ts] eqn:Ts; [fin c0 Q|].
    rewrite computed_nmap. destruct (computed x s) eqn:Cx; [fin c0 Q|].
    rewrite get_nmap. destruct (get x s) as [[o [tk|kind idx key a|o'|]]|] eqn:Gx;
      cbn [option_map nfut nkind f_kind f_out]; try (fin c0 Q).
    rewrite IB. change (tk_ds (ntk c0 tk)) with (tk_ds tk). destruct (is_blocked tk s) eqn:B.
    + destruct (tk_ds tk) eqn:Ds.
      * change (tk_set_ds (ntk c0 tk) false) with (ntk c0 (tk_set_ds tk false)). fin c0 Q.
      * change (tk_set_ds (ntk c0 tk) true) with (ntk c0 (tk_set_ds tk true)).
        rewrite <- nmap_set_task, <- nmap_resume_contexts.
        set (s1 := resume_contexts x (set_task x (tk_set_ds tk true) s)).
        assert (C1 : calm s s1) by (unfold s1; ch).
        assert (L1 : le s s1) by (apply le_calm; assumption).
        rewrite get_task_nmap, tasks_nmap.
        assert (ET : filter (fun d => negb (computed d (nmap c0 s1)))
                       (match option_map (ntk c0) (get_task x s1) with Some tk1 => tk_deps tk1 | None => [] end) =
                     filter (fun d => negb (computed d s1))
                       (match get_task x s1 with Some tk1 => tk_deps tk1 | None => [] end)).
        { destruct (get_task x s1) as [tk1|]; cbn [option_map ntk tk_deps]; [apply filter_todo; exact L1|reflexivity]. }
        rewrite ET. fin c0 Q.
    + rewrite <- nmap_resume_contexts. rewrite computed_nmap, active_nmap.
      destruct (computed x (resume_contexts x s)); fin c0 Q.
  - (* MResume *)
    rewrite get_task_nmap. destruct (get_task t s) as [tk|] eqn:G; nred; [|fin c0 Q].
    rewrite unwrap_look_nmap. destruct (tk_gen tk) as [k|] eqn:Gk; [|go; fin c0 Q].
    apply (ncfg_close s).
    + autorewrite with nm. nred. destruct (p_keep P); reflexivity.
    + intros d Hd. rewrite (resume_computed s t tk _ _ G d). exact Hd.
  - (* MRun *)
    pose proof (calm_close_gen t s) as CC.
    destruct p as [v|v|e|y k|f k|h k|cx k|cx k|var k|k]; cbv beta iota zeta;
      try (fold (close_gen t s); fold (close_gen t (nmap c0 s)); rewrite <- nmap_close_gen, ?computed_nmap);
      try (go; fin c0 Q; fail).
    (* Yield *)
    1: { rewrite inst_nmap. pose proof (calm_inst t y s) as Qi.
    destruct (inst t y s) as [y' s1]. cbn [fst snd] in *. rewrite get_task_nmap.
    destruct (get_task t s1) as [tk|] eqn:G; cbn [option_map]; [|fin c0 Q].
    cbn [ntk tk_deps tk_ctxs tk_cact tk_ds tk_iter tk_next].
    assert (L1 : le s s1) by (apply le_calm; assumption).
    destruct (futs (extract y')) as [|f0 F']; unfold ncfg; cbn [c_mode c_frames c_st]; f_equal; apply nrm_yield; exact L1. }
    (* Let *)
    rewrite create_nmap. pose proof (calm_create t f s) as Qc. destruct (create t f s) as [h s1].
    cbn [fst snd] in *. fin c0 Q.
Qed.

(* ------------------------------------------------------------------ the option itself *)
(* when a task is resumed, everything it stored as a dependency is computed *)
Definition rinv (c : cfg) : Prop :=
  match c_mode c with
  | MResume t => forall tk, get_task t (c_st c) = Some tk -> forall d, In d (tk_deps tk) -> computed d (c_st c) = true
  | _ => True
  end.

Lemma filter_unc_all c l : (forall d, In d l -> c d = true) -> filter (unc c) l = [].
Proof.
  induction l as [|a l IH]; intros H; [reflexivity|]. cbn [filter]. unfold unc at 1. rewrite (H a (or_introl eq_refl)).
  cbn [negb]. apply IH. intros d Hd. apply H. right. exact Hd.
Qed.

Lemma nrm_resume_keep s t e g y D cx ca ds it nx :
  (forall d, In d D -> computed d s = true) ->
  nrm (emit e (set_task t (mkTask g y D cx ca ds it nx) s)) = nrm (emit e (set_task t (mkTask g y [] cx ca ds it nx) s)).
Proof.
  intros H. unfold nrm.
  rewrite (nmap_ext (cof (emit e (set_task t (mkTask g y D cx ca ds it nx) s))) (cof s))
    by (intros d; unfold cof; rewrite computed_emit, computed_set_task; reflexivity).
  rewrite (nmap_ext (cof (emit e (set_task t (mkTask g y [] cx ca ds it nx) s))) (cof s))
    by (intros d; unfold cof; rewrite computed_emit, computed_set_task; reflexivity).
  rewrite !nmap_emit, !nmap_set_task. unfold ntk. cbn [tk_gen tk_last tk_deps tk_ctxs tk_cact tk_ds tk_iter tk_next].
  rewrite (filter_unc_all (cof s) D H). reflexivity.
Qed.

Lemma first_max_keep kd ms b b' orc l : forall best s,
  first_max (mkP kd ms b orc) l best s = first_max (mkP kd ms b' orc) l best s.
Proof.
  induction l as [|k l IH]; intros best s; cbn [first_max]; [reflexivity|].
  destruct best as [b0|]; [|apply IH]. rewrite !IH. reflexivity.
Qed.

Lemma continue_with_batch_keep kd ms b b' orc s :
  continue_with_batch (mkP kd ms b orc) s = continue_with_batch (mkP kd ms b' orc) s.
Proof.
  assert (E : select (mkP kd ms b orc) s = select (mkP kd ms b' orc) s).
  { unfold select. destruct (filter (fun k => eligible k s) (sb s)) as [|k0 el]; [reflexivity|].
    destruct (oracle (with_sb s (k0 :: el))) as [|c0 rest]; rewrite (first_max_keep kd ms b b' orc); reflexivity. }
  unfold continue_with_batch. rewrite E. reflexivity.
Qed.

Theorem step_keep P P' c : same_but_keep P P' -> rinv c -> ncfg (step P c) = ncfg (step P' c).
Proof.
  destruct P as [kd ms b orc], P' as [kd' ms' b' orc']. unfold same_but_keep. cbn [p_kinds p_maxstack p_oracle].
  intros (<- & <- & <-) R. destruct c as [m fr s].
  destruct m as [h| | | |t|t p| |o|e|o|]; try reflexivity.
  { cbn [step c_mode c_frames c_st]. rewrite (continue_with_batch_keep kd ms b b' orc). reflexivity. }
  unfold rinv in R. cbn [c_mode c_st] in R. cbn [step c_mode c_frames c_st].
  destruct (get_task t s) as [tk|] eqn:G; [|reflexivity]. specialize (R tk eq_refl).
  destruct (tk_gen tk) as [k|]; [|reflexivity]. cbn [p_keep].
  destruct b, b'; try reflexivity; unfold ncfg; cbn [c_mode c_frames c_st]; f_equal;
    [|symmetry]; apply nrm_resume_keep; exact R.
Qed.

Lemma not_blocked_all tk s : is_blocked tk s = false -> forall d, In d (tk_deps tk) -> computed d s = true.
Proof.
  unfold is_blocked. intros H d Hd. destruct (computed d s) eqn:E; [reflexivity|].
  assert (X : existsb (fun d => negb (computed d s)) (tk_deps tk) = true) by (apply existsb_exists; exists d; rewrite E; auto).
  congruence.
Qed.

(* the decidable form of rinv: the task being resumed is not blocked on anything it has stored *)
Definition resume_ok (c : cfg) : bool :=
  match c_mode c with
  | MResume t => match get_task t (c_st c) with Some tk => negb (is_blocked tk (c_st c)) | None => true end
  | _ => true
  end.

Lemma resume_ok_rinv c : resume_ok c = true -> rinv c.
Proof.
  unfold resume_ok, rinv. destruct (c_mode c) as [h| | | |t|t p| |o|e|o|]; try (intros; exact I).
  intros H tk G. rewrite G in H. apply not_blocked_all. destruct (is_blocked tk (c_st c)); [discriminate|reflexivity].
Qed.

Lemma resume_ok_ncfg c : resume_ok (ncfg c) = resume_ok c.
Proof.
  destruct c as [m fr s]. unfold resume_ok, ncfg. cbn [c_mode c_st].
  destruct m as [h| | | |t|t p| |o|e|o|]; try reflexivity.
  unfold nrm. rewrite get_task_nmap. destruct (get_task t s) as [tk|]; cbn [option_map]; [|reflexivity].
  rewrite is_blocked_ntk; [reflexivity|]. intros d Hd. exact Hd.
Qed.

Lemma resume_ok_sim c c' : sim c c' -> resume_ok c = resume_ok c'.
Proof. intros S. rewrite <- (resume_ok_ncfg c), <- (resume_ok_ncfg c'), S. reflexivity. Qed.

(* ------------------------------------------------------------------ one step of two runs *)
Theorem sim_step P P' c c' :
  same_but_keep P P' -> sim c c' -> dom_ok (c_st c) -> dom_ok (c_st c') -> rinv c ->
  sim (step P c) (step P' c').
Proof.
  intros K S D D' R. unfold sim in *.
  rewrite (step_keep P P' c K R), (step_ncfg P' c D), S. symmetry. apply step_ncfg; assumption.
Qed.

(* ------------------------------------------------------------------ runs *)
(* [ok] holds in every configuration from which the run takes a step *)
Fixpoint guarded (ok : cfg -> bool) (P : params) (n : nat) (c : cfg) : bool :=
  match n with
  | O => true
  | S n' => if is_final (c_mode c) then true else ok c && guarded ok P n' (step P c)
  end.

Definition Inv (c c' : cfg) : Prop := sim c c' /\ RInv (c_st c) /\ RInv (c_st c').

Lemma RInv_dom s : RInv s -> dom_ok s. Proof. intros (D & _). exact D. Qed.

Lemma sim_mode c c' : sim c c' -> c_mode c = c_mode c'.
Proof. intros S. exact (f_equal c_mode S). Qed.

Lemma Inv_step P P' c c' :
  same_but_keep P P' -> Inv c c' -> resume_ok c = true -> Inv (step P c) (step P' c').
Proof.
  intros K (S & R & R') Y. split; [|split].
  - apply sim_step; auto using RInv_dom, resume_ok_rinv.
  - apply RInv_step. exact R.
  - apply RInv_step. exact R'.
Qed.

(* the two runs stay related, and the second run satisfies the condition too *)
Lemma Inv_run P P' n : forall c c',
  same_but_keep P P' -> Inv c c' -> guarded resume_ok P n c = true ->
  Inv (run P n c) (run P' n c') /\ guarded resume_ok P' n c' = true.
Proof.
  induction n as [|n IH]; intros c c' K I G; [split; [exact I|reflexivity]|]. rewrite !run_S. cbn [guarded] in *.
  destruct I as (S & I2). pose proof (sim_mode c c' S) as Em. rewrite <- Em.
  destruct (is_final (c_mode c)); [split; [split; assumption|reflexivity]|].
  apply andb_true_iff in G as [Y G]. rewrite <- (resume_ok_sim c c' S), Y. cbn [andb].
  apply IH; [exact K| |exact G]. apply Inv_step; [exact K|split; assumption|exact Y].
Qed.

(* ------------------------------------------------------------------ root computations, histories, cases *)
Lemma ssim_close s s' X X' : le s X -> le s' X' -> nmap (cof s) X = nmap (cof s') X' -> ssim X X'.
Proof. intros L L' E. unfold ssim. rewrite <- (nrm_close s X L), <- (nrm_close s' X' L'), E. reflexivity. Qed.

Lemma ssim_create p f s s' : ssim s s' -> dom_ok s -> dom_ok s' ->
  fst (create p f s) = fst (create p f s') /\ ssim (snd (create p f s)) (snd (create p f s')).
Proof.
  intros E D D'. pose proof (create_nmap (cof s) p f s) as A. pose proof (create_nmap (cof s') p f s') as A'.
  fold (nrm s) in A. fold (nrm s') in A'. unfold ssim in E. rewrite E, A' in A.
  pose proof (f_equal fst A) as E1. pose proof (f_equal snd A) as E2. cbn [fst snd] in E1, E2.
  split; [symmetry; exact E1|]. apply (ssim_close s s').
  - apply le_calm; [exact D|apply calm_create].
  - apply le_calm; [exact D'|apply calm_create].
  - symmetry. exact E2.
Qed.

Lemma nrm_emit e s : nrm (emit e s) = emit e (nrm s). Proof. reflexivity. Qed.

Fixpoint hist_guarded (ok : cfg -> bool) (P : params) (fuel : nat) (ps : list prog) (s : st) : bool :=
  match ps with
  | [] => true
  | p :: ps' =>
    guarded ok P fuel (start (fst (create [] (FTask p) s)) (snd (create [] (FTask p) s))) &&
    hist_guarded ok P fuel ps' (snd (run_root P fuel p s))
  end.

Lemma Inv_start p s s' : ssim s s' -> RInv s -> RInv s' ->
  fst (create [] (FTask p) s) = fst (create [] (FTask p) s') /\
  Inv (start (fst (create [] (FTask p) s)) (snd (create [] (FTask p) s)))
      (start (fst (create [] (FTask p) s')) (snd (create [] (FTask p) s'))).
Proof.
  intros E R R'. destruct (ssim_create [] (FTask p) s s' E (RInv_dom _ R) (RInv_dom _ R')) as [Eh Es].
  split; [exact Eh|]. rewrite <- Eh. split; [|split].
  - unfold sim, ncfg, start. cbn [c_mode c_frames c_st]. unfold ssim in Es. rewrite Es. reflexivity.
  - cbn [start c_st]. apply (RInv_calm s); [exact R|apply calm_create].
  - cbn [start c_st]. apply (RInv_calm s'); [exact R'|apply calm_create].
Qed.

Lemma sim_run_root P P' fuel p s s' :
  same_but_keep P P' -> ssim s s' -> RInv s -> RInv s' ->
  guarded resume_ok P fuel (start (fst (create [] (FTask p) s)) (snd (create [] (FTask p) s))) = true ->
  fst (run_root P fuel p s) = fst (run_root P' fuel p s') /\ ssim (snd (run_root P fuel p s)) (snd (run_root P' fuel p s')).
Proof.
  intros K E R R' G. destruct (Inv_start p s s' E R R') as [Eh I0].
  pose proof (Inv_run P P' fuel _ _ K I0 G) as ((S & _) & _). clear I0 G.
  unfold run_root, start in *.
  destruct (create [] (FTask p) s) as [h s1]. destruct (create [] (FTask p) s') as [h' s1']. cbn [fst snd] in *. subst h'.
  set (c := run P fuel (mkC (MValue h) [FTop] s1)) in *. set (c' := run P' fuel (mkC (MValue h) [FTop] s1')) in *.
  pose proof (sim_mode c c' S) as Em. assert (E2 : nrm (c_st c) = nrm (c_st c')) by exact (f_equal c_st S).
  assert (T : tasks (c_st c) = tasks (c_st c')) by exact (f_equal tasks E2).
  assert (B : sb (c_st c) = sb (c_st c')) by exact (f_equal sb E2).
  assert (A : active (c_st c) = active (c_st c')) by exact (f_equal active E2).
  rewrite Em, T, B, A. destruct (c_mode c'); cbn [fst snd]; (split; [reflexivity|]); unfold ssim; rewrite !nrm_emit, E2; reflexivity.
Qed.

Lemma sim_run_history P P' fuel ps : forall s s',
  same_but_keep P P' -> ssim s s' -> RInv s -> RInv s' ->
  hist_guarded resume_ok P fuel ps s = true ->
  fst (run_history P fuel ps s) = fst (run_history P' fuel ps s') /\
  ssim (snd (run_history P fuel ps s)) (snd (run_history P' fuel ps s')).
Proof.
  induction ps as [|p ps IH]; intros s s' K E R R' G; [split; [reflexivity|exact E]|].
  cbn [hist_guarded] in G. apply andb_true_iff in G as [G1 G2].
  destruct (sim_run_root P P' fuel p s s' K E R R' G1) as [Eo Es].
  pose proof (RInv_run_root P fuel p s R) as R1. pose proof (RInv_run_root P' fuel p s' R') as R1'.
  cbn [run_history]. destruct (run_root P fuel p s) as [o s1]. destruct (run_root P' fuel p s') as [o' s1']. cbn [fst snd] in *.
  destruct (IH s1 s1' K Es R1 R1' G2) as [Eos Ess].
  destruct (run_history P fuel ps s1) as [os s2]. destruct (run_history P' fuel ps s1') as [os' s2']. cbn [fst snd] in *.
  split; [congruence|exact Ess].
Qed.

Lemma st0_keep P P' : same_but_keep P P' -> st0 P = st0 P'.
Proof. intros (_ & _ & E). unfold st0. rewrite E. reflexivity. Qed.

(* KEEP_DEPENDENCIES is inert on every history in which (in one of the two runs - the other then
   behaves the same) every resume finds all stored dependencies of its task computed *)
Theorem keep_inert_guarded P P' fuel ps :
  same_but_keep P P' -> hist_guarded resume_ok P fuel ps (st0 P) = true ->
  run_case P fuel ps = run_case P' fuel ps.
Proof.
  intros K G. unfold run_case.
  destruct (sim_run_history P P' fuel ps (st0 P) (st0 P') K) as [Eo Es]; try assumption.
  - unfold ssim. rewrite (st0_keep P P' K). reflexivity.
  - apply RInv_st0.
  - apply RInv_st0.
  - destruct (run_history P fuel ps (st0 P)) as [os s]. destruct (run_history P' fuel ps (st0 P')) as [os' s']. cbn [fst snd] in *.
    assert (T : trace s = trace s') by exact (f_equal trace Es). rewrite Eo, T. reflexivity.
Qed.

Corollary keep_preserves_success_guarded P P' fuel ps os e :
  same_but_keep P P' -> hist_guarded resume_ok P fuel ps (st0 P) = true ->
  fst (run_case P fuel ps) = os -> ~ In (Some (Err e)) os -> ~ In (Some (Err e)) (fst (run_case P' fuel ps)).
Proof. intros K G E N. rewrite <- (keep_inert_guarded P P' fuel ps K G), E. exact N. Qed.

(* ------------------------------------------------------------------ runs without re-entrant resumes *)
(* The hypothesis of keep_inert_guarded can fail only through re-entrancy: a resume of t while a frame
   "body of t inside value()" is on the stack (CPython: "generator already executing"). *)
Definition fvin (t : fid) (fr : list frame) : bool :=
  existsb (fun f => match f with FValue t' _ => fid_eqb t' t | _ => false end) fr.
Definition reentry (c : cfg) : bool :=
  match c_mode c with MResume t => fvin t (c_frames c) | _ => false end.
Definition no_reentry (c : cfg) : bool := negb (reentry c).

(* -- every helper leaves the stored dependencies of a task alone or empties them -- *)
Lemma get_task_put t x f s :
  get_task t (put x f s) = if fid_eqb t x then match f with mkFut _ (KTask tk) => Some tk | _ => None end
                           else get_task t s.
Proof.
  unfold get_task. destruct (fid_eqb t x) eqn:E.
  - apply fid_eqb_eq in E. subst x. rewrite get_put_same. destruct f as [o [tk| | |]]; reflexivity.
  - assert (N : t <> x) by (intros ->; rewrite fid_eqb_refl in E; discriminate).
    rewrite get_put_other by exact N. reflexivity.
Qed.

Definition shr (t : fid) (s s' : st) : Prop :=
  forall tk', get_task t s' = Some tk' ->
    tk_deps tk' = [] \/ exists tk, get_task t s = Some tk /\ tk_deps tk' = tk_deps tk.

Lemma shr_refl t s : shr t s s.
Proof. intros tk' G. right. exists tk'. auto. Qed.

Lemma shr_trans t a b c : shr t a b -> shr t b c -> shr t a c.
Proof.
  intros A B tk' G. destruct (B tk' G) as [E|(tk & Gb & E)]; [left; exact E|].
  destruct (A tk Gb) as [E0|(tk0 & Ga & E0)]; [left; congruence|]. right. exists tk0. split; [exact Ga|congruence].
Qed.

Lemma shr_view t s s' : heap s' = heap s -> shr t s s'.
Proof. intros H tk' G. right. exists tk'. split; [|reflexivity]. unfold get_task, get in *. rewrite H in G. exact G. Qed.

Lemma shr_set_task t x tk tk' s :
  get_task x s = Some tk -> tk_deps tk' = tk_deps tk \/ tk_deps tk' = [] -> shr t s (set_task x tk' s).
Proof.
  intros G E tk2 G2. apply get_task_some in G as (out & G). unfold set_task in G2. rewrite G in G2.
  rewrite get_task_put in G2. destruct (fid_eqb t x) eqn:Et.
  - apply fid_eqb_eq in Et. subst x. inversion G2; subst tk2. destruct E as [E|E]; [|left; exact E].
    right. exists tk. split; [|exact E]. apply get_task_some. exists out. exact G.
  - right. exists tk2. auto.
Qed.

Lemma shr_set_task' t x out tk tk' s :
  get x s = Some (mkFut out (KTask tk)) -> tk_deps tk' = tk_deps tk \/ tk_deps tk' = [] -> shr t s (set_task x tk' s).
Proof. intros G. apply shr_set_task. apply get_task_some. exists out. exact G. Qed.

Lemma shr_set_task_ne t x tk' s : t <> x -> shr t s (set_task x tk' s).
Proof.
  intros N tk2 G2. unfold set_task in G2. destruct (get x s) as [f|]; [|right; exists tk2; auto].
  rewrite get_task_put in G2. destruct (fid_eqb t x) eqn:E; [apply fid_eqb_eq in E; contradiction|].
  right. exists tk2. auto.
Qed.

Lemma shr_put_nil t x o tk' s : tk_deps tk' = [] -> shr t s (put x (mkFut o (KTask tk')) s).
Proof.
  intros E tk2 G2. rewrite get_task_put in G2. destruct (fid_eqb t x).
  - inversion G2; subst tk2. left. exact E.
  - right. exists tk2. auto.
Qed.

Lemma shr_put_nontask t x f s : (forall tk, f_kind f <> KTask tk) -> shr t s (put x f s).
Proof.
  intros N tk2 G2. rewrite get_task_put in G2. destruct (fid_eqb t x).
  - destruct f as [o [tk| | |]]; try discriminate. destruct (N tk eq_refl).
  - right. exists tk2. auto.
Qed.

Lemma shr_put_keep t x f f' s : get x s = Some f -> f_kind f' = f_kind f -> shr t s (put x f' s).
Proof.
  intros G K tk2 G2. rewrite get_task_put in G2. destruct (fid_eqb t x) eqn:E.
  - apply fid_eqb_eq in E. subst x. right. exists tk2. split; [|reflexivity].
    unfold get_task. rewrite G. destruct f as [o k], f' as [o' k']. cbn in K. subst k'. exact G2.
  - right. exists tk2. auto.
Qed.

Ltac sv := solve [apply shr_view; reflexivity].

Lemma shr_enter_ctx t x c s : shr t s (enter_ctx x c s).
Proof.
  unfold enter_ctx.
  assert (H : shr t s (match get_task x s with
                       | Some tk => set_task x (tk_with_ctxs tk (tk_ctxs tk ++ [c]) (tk_cact tk)) s
                       | None => s end)).
  { destruct (get_task x s) as [tk|] eqn:G; [|apply shr_refl]. apply (shr_set_task t x tk); [exact G|left; reflexivity]. }
  eapply shr_trans; [exact H|]. destruct c; sv.
Qed.

Lemma shr_exit_ctx t x c s : shr t s (exit_ctx x c s).
Proof.
  unfold exit_ctx. destruct (get_task x s) as [tk|] eqn:G; [|apply shr_view; destruct c; reflexivity].
  assert (H : shr t s (set_task x (tk_with_ctxs tk (remove_ctx c (tk_ctxs tk)) (tk_cact tk)) s)).
  { apply (shr_set_task t x tk); [exact G|left; reflexivity]. }
  destruct (tk_cact tk); [|exact H]. eapply shr_trans; [exact H|]. apply shr_view. destruct c; reflexivity.
Qed.

Lemma shr_fold {X} t (f : st -> X -> st) l : (forall s x, shr t s (f s x)) -> forall s, shr t s (fold_left f l s).
Proof. intros H. induction l as [|x l IH]; intros s; cbn; [apply shr_refl|]. eapply shr_trans; [apply H|apply IH]. Qed.

Lemma shr_complete_task t x o s : shr t s (complete_task x o s).
Proof.
  unfold complete_task. destruct (get_task x s) as [tk|]; [|apply shr_refl].
  assert (H : shr t s (match tk_gen tk with
                       | Some _ => fold_left (fun s c => exit_ctx x c s) (rev (tk_ctxs tk)) s
                       | None => s end)).
  { destruct (tk_gen tk); [|apply shr_refl]. apply shr_fold. intros. apply shr_exit_ctx. }
  destruct (get_task x _) as [tk1|]; [|exact H]. eapply shr_trans; [exact H|].
  match goal with |- shr t ?a (emit ?e (put ?h (mkFut ?o0 (KTask ?tk')) ?z)) =>
    apply (shr_trans t a (put h (mkFut o0 (KTask tk')) z)); [apply shr_put_nil; reflexivity|apply shr_view; reflexivity] end.
Qed.

Lemma shr_accept_error t x e s : shr t s (accept_error x e s).
Proof. unfold accept_error. destruct (computed x s); [apply shr_refl|apply shr_complete_task]. Qed.

Lemma heap_resume1 x c s : heap (fst (resume1 x c s)) = heap s.
Proof. unfold resume1. destruct c as [cid f|cid|cid var v]; [destruct f| |]; cbn [fst]; t_regs. Qed.
Lemma heap_pause1 x c s : heap (fst (pause1 x c s)) = heap s.
Proof. unfold pause1. destruct c as [cid f|cid|cid var v]; [destruct f| |]; cbn [fst]; t_regs. Qed.

Lemma shr_fold_pair {X E} t (f : st * E -> X -> st * E) l :
  (forall a x, shr t (fst a) (fst (f a x))) -> forall a, shr t (fst a) (fst (fold_left f l a)).
Proof. intros H. induction l as [|x l IH]; intros a; cbn; [apply shr_refl|]. eapply shr_trans; [apply H|apply IH]. Qed.

Lemma shr_resume_contexts t x s : shr t s (resume_contexts x s).
Proof.
  unfold resume_contexts. destruct (get_task x s) as [tk|] eqn:G; [|apply shr_refl].
  destruct (tk_cact tk); [apply shr_refl|].
  match goal with |- context [fold_left ?f ?l ?a] =>
    assert (H2 : shr t s (fst (fold_left f l a))) end.
  { match goal with |- shr t s (fst (fold_left ?f ?l (?s0, ?e))) =>
      apply (shr_trans t s s0); [apply (shr_set_task t x tk); [exact G|left; reflexivity]
                                | apply (shr_fold_pair t f l) with (a := (s0, e))] end.
    intros [s0 e0] c. cbn [fst]. pose proof (heap_resume1 x c s0) as Rr. destruct (resume1 x c s0). cbn [fst] in *.
    apply shr_view. exact Rr. }
  match goal with |- context [fold_left ?f ?l ?a] => destruct (fold_left f l a) as [s1 [e|]] end;
    cbn [fst] in H2; [eapply shr_trans; [exact H2|apply shr_accept_error]|exact H2].
Qed.

Lemma shr_pause_contexts t x s : shr t s (pause_contexts x s).
Proof.
  unfold pause_contexts. destruct (get_task x s) as [tk|] eqn:G; [|apply shr_refl].
  destruct (negb (tk_cact tk)); [apply shr_refl|].
  match goal with |- context [fold_left ?f ?l ?a] =>
    assert (H2 : shr t s (fst (fold_left f l a))) end.
  { match goal with |- shr t s (fst (fold_left ?f ?l (?s0, ?e))) =>
      apply (shr_trans t s s0); [apply (shr_set_task t x tk); [exact G|left; reflexivity]
                                | apply (shr_fold_pair t f l) with (a := (s0, e))] end.
    intros [s0 e0] c. cbn [fst]. pose proof (heap_pause1 x c s0) as Rr. destruct (pause1 x c s0). cbn [fst] in *.
    apply shr_view. exact Rr. }
  match goal with |- context [fold_left ?f ?l ?a] => destruct (fold_left f l a) as [s1 [e|]] end;
    cbn [fst] in H2; [eapply shr_trans; [exact H2|apply shr_accept_error]|exact H2].
Qed.

Lemma shr_create t p f s : shr t s (snd (create p f s)).
Proof.
  unfold create, alloc. cbn zeta. destruct f; cbn [snd];
    (eapply shr_trans; [apply shr_view with (s' := with_top_next s (top_next s + 1)%Z); reflexivity|]);
    try (apply shr_put_nil; reflexivity); try (apply shr_put_nontask; intros tk; discriminate).
Qed.

Lemma shr_inst t p y : forall s, shr t s (snd (inst p y s)).
Proof.
  induction y as [| a | l IH | l IH | l IH] using ystruct_ind2; intros s.
  - apply shr_refl.
  - destruct a as [f|h|]; simpl; try apply shr_refl.
    pose proof (shr_create t p f s) as H. destruct (create p f s). exact H.
  - simpl. match goal with |- context [(?g l s)] => set (go := g) end.
    assert (H : forall s, shr t s (snd (go l s))).
    { clear s. induction IH as [|x l Hx Hl IHl]; intros s; [apply shr_refl|]. simpl.
      specialize (Hx s). destruct (inst p x s) as [x' s1]. cbn [snd] in Hx.
      specialize (IHl s1). destruct (go l s1) as [l'' s2]. cbn [snd] in *. eapply shr_trans; eauto. }
    specialize (H s). destruct (go l s). exact H.
  - simpl. match goal with |- context [(?g l s)] => set (go := g) end.
    assert (H : forall s, shr t s (snd (go l s))).
    { clear s. induction IH as [|x l Hx Hl IHl]; intros s; [apply shr_refl|]. simpl.
      specialize (Hx s). destruct (inst p x s) as [x' s1]. cbn [snd] in Hx.
      specialize (IHl s1). destruct (go l s1) as [l'' s2]. cbn [snd] in *. eapply shr_trans; eauto. }
    specialize (H s). destruct (go l s). exact H.
  - simpl. match goal with |- context [(?g l s)] => set (go := g) end.
    assert (H : forall s, shr t s (snd (go l s))).
    { clear s. induction IH as [|[k x] l Hx Hl IHl]; intros s; [apply shr_refl|]. simpl. simpl in Hx.
      specialize (Hx s). destruct (inst p x s) as [x' s1]. cbn [snd] in Hx.
      specialize (IHl s1). destruct (go l s1) as [l'' s2]. cbn [snd] in *. eapply shr_trans; eauto. }
    specialize (H s). destruct (go l s). exact H.
Qed.

Lemma shr_complete_item t h o s : shr t s (complete_item h o s).
Proof.
  unfold complete_item. destruct (get h s) as [f|] eqn:G; [|apply shr_refl].
  destruct (f_out f); [apply shr_refl|].
  match goal with |- shr t s (emit ?e (put h ?f' s)) =>
    apply (shr_trans t s (put h f' s)); [apply (shr_put_keep t h f); [exact G|reflexivity]|sv] end.
Qed.

Lemma shr_flush_body t items : forall i ra s, shr t s (fst (flush_body items i ra s)).
Proof.
  induction items as [|h rest IH]; intros i ra s; simpl.
  - destruct ra as [[k e]|]; apply shr_refl.
  - destruct ra as [[k e]|].
    + destruct (Z.eqb i k); [apply shr_refl|]. eapply shr_trans; [|apply IH].
      destruct (get h s) as [[o [ | kind idx key [v|e'|] | | ]]|]; try apply shr_refl; apply shr_complete_item.
    + eapply shr_trans; [|apply IH].
      destruct (get h s) as [[o [ | kind idx key [v|e'|] | | ]]|]; try apply shr_refl; apply shr_complete_item.
Qed.

Lemma shr_flush_batch t P k s : shr t s (flush_batch P k s).
Proof.
  unfold flush_batch. destruct (b_done (get_batch k s)); [apply shr_refl|].
  match goal with |- context [flush_body ?a ?b ?c ?d] =>
    pose proof (shr_flush_body t a b c d) as H; destruct (flush_body a b c d) as [s2 err] end.
  cbn [fst] in H. eapply shr_trans; [|sv].
  eapply shr_trans; [|apply shr_fold; intros; apply shr_complete_item].
  eapply shr_trans; [|exact H]. apply shr_view. destruct (Z.eqb _ _); reflexivity.
Qed.

Lemma heap_select P s : heap (snd (select P s)) = heap s.
Proof.
  unfold select. destruct (filter _ (sb s)); [reflexivity|].
  cbn [oracle with_sb]. destruct (oracle s); [reflexivity|].
  destruct (existsb _ _ && _); reflexivity.
Qed.

Lemma shr_continue_with_batch t P s : shr t s (continue_with_batch P s).
Proof.
  unfold continue_with_batch. pose proof (heap_select P s) as Q.
  destruct (select P s) as [[k|] s1]; cbn [snd] in Q; [|apply shr_view; exact Q].
  eapply shr_trans; [|sv]. eapply shr_trans; [|apply shr_flush_batch]. apply shr_view. exact Q.
Qed.

Lemma shr_schedule_batch t k s : shr t s (schedule_batch k s).
Proof. unfold schedule_batch. destruct (b_done _); [apply shr_refl|]. destruct (existsb _ _); sv. Qed.

Ltac sh :=
  repeat match goal with
  | |- shr _ ?s ?s => apply shr_refl
  | |- shr _ _ _ => solve [apply shr_view; reflexivity]
  | |- shr _ _ _ => eassumption
  | |- shr ?t ?a (emit _ ?X) => apply (shr_trans t a X); [|sv]
  | |- shr ?t ?a (pop_task ?X) => apply (shr_trans t a X); [|sv]
  | |- shr ?t ?a (with_tasks ?X _) => apply (shr_trans t a X); [|sv]
  | |- shr ?t ?a (with_active ?X _) => apply (shr_trans t a X); [|sv]
  | |- shr ?t ?a (reset_sched ?X) => apply (shr_trans t a X); [|sv]
  | |- shr ?t ?a (drop_sb ?X) => apply (shr_trans t a X); [|apply shr_view; apply heap_drop_sb]
  | |- shr ?t ?a (set_task ?x ?tk ?X) =>
      apply (shr_trans t a X); [|first [eapply shr_set_task; [eassumption|left; reflexivity]
                                        |eapply shr_set_task'; [eassumption|left; reflexivity]]]
  | |- shr ?t ?a (put ?x (mkFut (Some ?o) (KLazy ?o)) ?X) =>
      apply (shr_trans t a X); [|eapply shr_put_keep; [eassumption|reflexivity]]
  | |- shr ?t ?a (resume_contexts ?x ?X) => apply (shr_trans t a X); [|apply shr_resume_contexts]
  | |- shr ?t ?a (pause_contexts ?x ?X) => apply (shr_trans t a X); [|apply shr_pause_contexts]
  | |- shr ?t ?a (complete_task ?x ?o ?X) => apply (shr_trans t a X); [|apply shr_complete_task]
  | |- shr ?t ?a (accept_error ?x ?e ?X) => apply (shr_trans t a X); [|apply shr_accept_error]
  | |- shr ?t ?a (enter_ctx ?x ?c ?X) => apply (shr_trans t a X); [|apply shr_enter_ctx]
  | |- shr ?t ?a (exit_ctx ?x ?c ?X) => apply (shr_trans t a X); [|apply shr_exit_ctx]
  | |- shr ?t ?a (schedule_batch ?k ?X) => apply (shr_trans t a X); [|apply shr_schedule_batch]
  | |- shr ?t ?a (flush_batch ?P ?k ?X) => apply (shr_trans t a X); [|apply shr_flush_batch]
  | |- shr ?t ?a (continue_with_batch ?P ?X) => apply (shr_trans t a X); [|apply shr_continue_with_batch]
  end.

(* every transition except a Yield of t itself leaves the stored dependencies of t alone or empties them *)
Theorem step_shr P c t : (forall y k, c_mode c <> MRun t (Yield y k)) -> shr t (c_st c) (c_st (step P c)).
Proof.
  destruct c as [m fr s]. cbn [c_st c_mode]. intros NY.
  destruct m as [h| | | |t0|t0 p| |o|e|o|]; cbn [step c_mode c_frames c_st];
    try (destr_eq; sh; fail).
  - (* MResume *)
    destruct (get_task t0 s) as [tk|] eqn:G; cbn [c_st]; [|apply shr_refl].
    destruct (tk_gen tk); [|destr_eq; sh].
    cbn [c_st]. apply (shr_trans t s (set_task t0 (mkTask (Some p) YNone (if p_keep P then tk_deps tk else []) (tk_ctxs tk)
                                                     (tk_cact tk) (tk_ds tk) (tk_iter tk + 1)%Z (tk_next tk)) s)); [|sv].
    apply (shr_set_task t t0 tk); [exact G|]. cbn [tk_deps]. destruct (p_keep P); auto.
  - (* MRun *)
    destruct p as [v|v|e|y k|f k|h k|cx k|cx k|var k|k]; cbv beta iota zeta; cbn [c_st];
      try (destr_eq; sh; fail).
    + pose proof (shr_inst t t0 y s) as Qi. destruct (inst t0 y s) as [y' s1]. cbn [snd] in Qi.
      destruct (get_task t0 s1) as [tk|] eqn:G; cbn [c_st]; [|exact Qi].
      assert (N : t <> t0) by (intros ->; exact (NY y k eq_refl)).
      destruct (futs (extract y')); cbn [c_st]; (eapply shr_trans; [exact Qi|apply shr_set_task_ne; exact N]).
    + pose proof (shr_create t t0 f s) as Qi. destruct (create t0 f s) as [h s1]. cbn [snd c_st] in *. exact Qi.
Qed.

Lemma step_le P c : dom_ok (c_st c) -> le (c_st c) (c_st (step P c)).
Proof.
  intros D. destruct (emits c) eqn:E; [|apply le_calm; [exact D|apply step_calm; exact E]].
  destruct (emits_true c E) as (t & tk & k & Hm & G & Hk). destruct c as [m fr s]. cbn [c_mode c_st] in *. subst m.
  cbn [step c_mode c_frames c_st]. rewrite G, Hk. cbn [c_st]. intros d Hd.
  rewrite (resume_computed s t tk _ _ G d). exact Hd.
Qed.

Definition allc (t : fid) (s : st) : Prop :=
  forall tk, get_task t s = Some tk -> forall d, In d (tk_deps tk) -> computed d s = true.

Lemma allc_shr t s s' : shr t s s' -> le s s' -> allc t s -> allc t s'.
Proof.
  intros S L A tk' G d Hd. destruct (S tk' G) as [E|(tk & G0 & E)]; [rewrite E in Hd; destruct Hd|].
  rewrite E in Hd. apply L. exact (A tk G0 d Hd).
Qed.

(* the frame stack never holds two "body of t inside value()" frames for the same t, and the running
   task has none *)
Fixpoint fv_ok (fr : list frame) : Prop :=
  match fr with
  | [] => True
  | FValue t _ :: fr' => fvin t fr' = false /\ fv_ok fr'
  | _ :: fr' => fv_ok fr'
  end.

Definition isopen (t : fid) (c : cfg) : Prop :=
  (exists p, c_mode c = MRun t p) \/ c_mode c = MResume t \/ fvin t (c_frames c) = true.

Definition V (c : cfg) : Prop :=
  fv_ok (c_frames c) /\ (forall t p, c_mode c = MRun t p -> fvin t (c_frames c) = false) /\
  (forall t, isopen t c -> allc t (c_st c)).

Lemma fv_step P c :
  no_reentry c = true -> fv_ok (c_frames c) -> (forall t p, c_mode c = MRun t p -> fvin t (c_frames c) = false) ->
  fv_ok (c_frames (step P c)) /\ (forall t p, c_mode (step P c) = MRun t p -> fvin t (c_frames (step P c)) = false).
Proof.
  destruct c as [m fr s]. unfold no_reentry, reentry. cbn [c_mode c_frames]. intros NR F V2.
  destruct m as [h| | | |t0|t0 p| |o|e|o|]; cbn [step c_mode c_frames c_st];
    [ | | | |apply negb_true_iff in NR|pose proof (V2 t0 p eq_refl) as V2'; destruct p; cbv beta iota zeta| | | | | ];
    repeat dstep; cbn [c_mode c_frames fv_ok] in *;
    (split; [tauto|intros t1 p1 E1; try discriminate; inversion E1; subst; tauto]).
Qed.

(* a task that is open after a step was open before it, or was the unblocked task on top of the stack *)
Lemma open_step P c t : isopen t (step P c) -> isopen t c \/ allc t (c_st c).
Proof.
  destruct c as [m fr s]. unfold isopen.
  destruct m as [h| | | |t0|t0 p| |o|e|o|]; cbn [step c_mode c_frames c_st];
    [ | | | | |destruct p; cbv beta iota zeta| | | | | ];
    repeat dstep; cbn [c_mode c_frames c_st]; unfold fvin; cbn [existsb];
    (intros [(p0 & E)|[E|E]];
     [ try discriminate; inversion E; subst;
       first [left; left; eexists; reflexivity | left; right; left; reflexivity
             | left; right; right; rewrite fid_eqb_refl; reflexivity]
     | try discriminate; inversion E; subst;
       first [left; left; eexists; reflexivity | left; right; left; reflexivity | idtac]
     | cbn [orb] in E |- *;
       first [ discriminate
             | left; right; right; assumption
             | left; right; right; rewrite E; apply orb_true_r
             | apply orb_true_iff in E as [E|E];
               [apply fid_eqb_eq in E; subst; left; left; eexists; reflexivity|left; right; right; exact E] ] ]).
  (* MExecLoop: the unblocked task on top of the stack is about to be resumed *)
  right. intros tk G d Hd.
  match goal with
  | Hg : get t s = Some (mkFut _ (KTask ?tk0)), Hb : is_blocked ?tk0 s = false |- _ =>
    unfold get_task in G; rewrite Hg in G; inversion G; subst tk; exact (not_blocked_all tk0 s Hb d Hd)
  end.
Qed.

Lemma allc_not_blocked t s tk : allc t s -> get_task t s = Some tk -> is_blocked tk s = false.
Proof.
  intros A G. unfold is_blocked. destruct (existsb _ (tk_deps tk)) eqn:E; [|reflexivity].
  apply existsb_exists in E as (d & Hd & Hn). rewrite (A tk G d Hd) in Hn. discriminate.
Qed.

Theorem V_step P c : dom_ok (c_st c) -> no_reentry c = true -> V c -> V (step P c).
Proof.
  intros D NR (F & V2 & V3). destruct (fv_step P c NR F V2) as [F' V2'].
  split; [exact F'|]. split; [exact V2'|]. intros t O.
  assert (A : allc t (c_st c)) by (destruct (open_step P c t O) as [O0|A]; [exact (V3 t O0)|exact A]).
  destruct c as [m fr s]. cbn [c_st c_mode c_frames] in *.
  assert (Gen : (forall y k, m <> MRun t (Yield y k)) -> allc t (c_st (step P (mkC m fr s)))).
  { intros NY. apply (allc_shr t s); [apply (step_shr P (mkC m fr s) t NY)|apply (step_le P (mkC m fr s) D)|exact A]. }
  destruct m as [h| | | |t0|t0 p| |o|e|o|]; try (apply Gen; intros y k; discriminate).
  destruct p as [v|v|e|y k|f k|h k|cx k|cx k|var k|k]; try (apply Gen; intros y0 k0; discriminate).
  destruct (fid_eqb t t0) eqn:Et; [|apply Gen; intros y0 k0 E0; inversion E0; subst; rewrite fid_eqb_refl in Et; discriminate].
  apply fid_eqb_eq in Et. subst t0. clear Gen.
  (* a Yield of t itself *)
  pose proof (V2 t _ eq_refl) as NF. revert O. unfold isopen. cbn [step c_mode c_frames c_st].
  pose proof (shr_inst t t y s) as Si. pose proof (calm_inst t y s) as Ci.
  destruct (inst t y s) as [y' s1]. cbn [snd] in *.
  assert (A1 : allc t s1) by (apply (allc_shr t s); [exact Si|apply le_calm; assumption|exact A]).
  destruct (get_task t s1) as [tk|] eqn:G; [|intros _; exact A1].
  destruct (futs (extract y')) as [|f0 F0]; cbn [c_mode c_frames c_st].
  - intros _ tk1 G1 d Hd. apply get_task_some in G as (out & G'). unfold set_task in G1 |- *. rewrite G' in G1 |- *.
    rewrite get_task_put, fid_eqb_refl in G1. inversion G1; subst tk1. cbn [tk_deps] in Hd. rewrite app_nil_r in Hd.
    rewrite computed_put. destruct (fid_eqb d t) eqn:Ed.
    + apply fid_eqb_eq in Ed. subst d. cbn [f_out].
      assert (C : computed t s1 = true) by (apply (A1 tk); [apply get_task_some; exists out; exact G'|exact Hd]).
      unfold computed in C. rewrite G' in C. exact C.
    + apply (A1 tk); [apply get_task_some; exists out; exact G'|exact Hd].
  - intros [(p0 & E)|[E|E]]; [discriminate|discriminate|]. rewrite NF in E. discriminate.
Qed.


Lemma V_resume_ok c : V c -> resume_ok c = true.
Proof.
  intros (_ & _ & V3). unfold resume_ok. destruct (c_mode c) as [h| | | |t|t p| |o|e|o|] eqn:Em; try reflexivity.
  destruct (get_task t (c_st c)) as [tk|] eqn:G; [|reflexivity].
  rewrite (allc_not_blocked t (c_st c) tk); [reflexivity| |exact G]. apply V3. right. left. exact Em.
Qed.

Lemma V_start h s : V (start h s).
Proof.
  split; [exact I|]. split; [intros t p E; discriminate|].
  intros t [(p & E)|[E|E]]; discriminate.
Qed.

Lemma guarded_no_reentry P n : forall c,
  RInv (c_st c) -> V c -> guarded no_reentry P n c = true -> guarded resume_ok P n c = true.
Proof.
  induction n as [|n IH]; intros c R HV G; [reflexivity|]. cbn [guarded] in *.
  destruct (is_final (c_mode c)); [reflexivity|]. apply andb_true_iff in G as [NR G].
  rewrite (V_resume_ok c HV). cbn [andb]. apply IH; [apply RInv_step; exact R| |exact G].
  apply V_step; [apply RInv_dom; exact R|exact NR|exact HV].
Qed.

Lemma hist_no_reentry P fuel ps : forall s,
  RInv s -> hist_guarded no_reentry P fuel ps s = true -> hist_guarded resume_ok P fuel ps s = true.
Proof.
  induction ps as [|p ps IH]; intros s R G; [reflexivity|]. cbn [hist_guarded] in *.
  apply andb_true_iff in G as [G1 G2]. rewrite (IH _ (RInv_run_root P fuel p s R) G2), andb_true_r.
  apply guarded_no_reentry; [|apply V_start|exact G1].
  cbn [start c_st]. apply (RInv_calm s); [exact R|apply calm_create].
Qed.

(* KEEP_DEPENDENCIES is inert on every history without re-entrant resumes *)
Theorem keep_inert_no_reentry P P' fuel ps :
  same_but_keep P P' -> hist_guarded no_reentry P fuel ps (st0 P) = true ->
  run_case P fuel ps = run_case P' fuel ps.
Proof.
  intros K G. apply keep_inert_guarded; [exact K|]. apply hist_no_reentry; [apply RInv_st0|exact G].
Qed.

Corollary keep_preserves_success_no_reentry P P' fuel ps os e :
  same_but_keep P P' -> hist_guarded no_reentry P fuel ps (st0 P) = true ->
  fst (run_case P fuel ps) = os -> ~ In (Some (Err e)) os -> ~ In (Some (Err e)) (fst (run_case P' fuel ps)).
Proof. intros K G E N. rewrite <- (keep_inert_no_reentry P P' fuel ps K G), E. exact N. Qed.

(* ------------------------------------------------------------------ the first witness, on the repaired model *)
(* MAX_TASK_STACK_SIZE = 2.  Root [0] enters async context 7 and awaits task [1]; [1] awaits a
   ConstFuture, calls [3].value() (the nested loop exceeds the stack limit, the scheduler resets, the
   RuntimeError is delivered into [1]) and then yields None.  Before repair 6f3969f KEEP_DEPENDENCIES made
   that yield return to the (now empty) scheduler loop, which paused and resumed the root's contexts:
   an extra EvPause/EvResume pair, and with [ResumeRaises 1 77] outcome Err 77 instead of Ok 5. *)
Definition cxk_inner : prog := Ret VNone.
Definition cxk_task : prog :=
  Yield (YLeaf (LNew (FConst (VInt 1)))) (fun _ =>
    Let (FTask cxk_inner) (fun h => Sync h (fun _ => Yield YNone (fun _ => Ret (VInt 5))))).
Definition cxk_root (f : cfault) : prog :=
  Enter (CAsync 7 f)
    (Yield (YLeaf (LNew (FTask cxk_task)))
           (fun o => Exit (CAsync 7 f) (match o with Ok v => Ret v | Err e => Raise e end))).
Definition cxk_P (keep : bool) : params := mkP [] 2 keep [].

Lemma cxk_same : same_but_keep (cxk_P false) (cxk_P true).
Proof. repeat split. Qed.

Example cxk_repaired :
  run_case (cxk_P true) 200 [cxk_root NoFault] =
  ([Some (Ok (VInt 5))],
   [EvStep [0%Z] 0 (Ok VNone); EvResume [0%Z] 7; EvStep [1%Z] 0 (Ok VNone); EvStep [1%Z] 1 (Ok (VInt 1));
    EvGot [1%Z] (Err E_RUNTIME); EvStep [1%Z] 2 (Ok VNone); EvDone [1%Z] (Ok (VInt 5));
    EvStep [0%Z] 1 (Ok (VInt 5)); EvPause [0%Z] 7; EvDone [0%Z] (Ok (VInt 5)); EvSched 0 0 None]) /\
  run_case (cxk_P false) 200 [cxk_root NoFault] = run_case (cxk_P true) 200 [cxk_root NoFault] /\
  fst (run_case (cxk_P false) 200 [cxk_root (ResumeRaises 1 77%Z)]) = [Some (Ok (VInt 5))] /\
  run_case (cxk_P false) 200 [cxk_root (ResumeRaises 1 77%Z)] = run_case (cxk_P true) 200 [cxk_root (ResumeRaises 1 77%Z)] /\
  hist_guarded resume_ok (cxk_P true) 200 [cxk_root NoFault] (st0 (cxk_P true)) = true.
Proof. vm_compute. repeat split. Qed.

(* the fuel difference of the unrepaired model is gone as well: same outcome at the same fuel, and
   the fuel is tight (one less does not finish) *)
Definition cxf_prog : prog :=
  Yield (YLeaf (LNew (FConst (VInt 1)))) (fun _ => Yield YNone (fun _ => Ret (VInt 5))).
Definition cxf_P (keep : bool) : params := mkP [] 1000 keep [].

Example cxf_same_fuel :
  run_case (cxf_P true) 16 [cxf_prog] = run_case (cxf_P false) 16 [cxf_prog] /\
  fst (run_case (cxf_P true) 16 [cxf_prog]) = [Some (Ok (VInt 5))] /\
  fst (run_case (cxf_P true) 15 [cxf_prog]) = [None] /\ fst (run_case (cxf_P false) 15 [cxf_prog]) = [None].
Proof. vm_compute. repeat split. Qed.

(* ------------------------------------------------------------------ the unrestricted statements are still false *)
Definition keep_inert_statement : Prop :=
  forall P P' fuel ps, same_but_keep P P' -> run_case P fuel ps = run_case P' fuel ps.

(* "no option makes a computation fail that succeeds without it" (either way round) *)
Definition keep_preserves_success_statement : Prop :=
  forall P P' fuel fuel' ps v e, same_but_keep P P' ->
    fst (run_case P fuel ps) = [Some (Ok v)] -> fst (run_case P' fuel' ps) <> [Some (Err e)].

(* Counterexample on the repaired model (MAX_TASK_STACK_SIZE = 3); it needs the machine's re-entrancy
   artifact.  Root [0] awaits a ConstFuture, creates [2] (which awaits [0]) and calls [2].value(): the
   nested loop finds [0] unblocked and RE-ENTERS it from its stored generator.  This inner activation
   yields a batch item [4]; pushing it exceeds the stack limit, the scheduler resets and RuntimeError
   unwinds into the OUTER activation of [0] - whose entry now stores the uncomputed dependency [4].
   The outer activation yields None and is resumed on the spot: without the option [4] is dropped from
   tk_deps, with it [4] stays.  Then [0] calls [5].value() where [5] awaits [0]: with the option [0]
   is blocked (on [4]), [5] is popped and its context paused - whose pause() raises, [5] fails with 77
   and [0] returns 100; without it [0] is re-entered at once, completes with 8, and the outer `return`
   raises FutureIsAlreadyComputed. *)
Definition cxr_wait0 : prog := Yield (YLeaf (LOld [0%Z])) (fun _ => Ret VNone).
Definition cxr_wait0_ctx : prog :=
  Enter (CAsync 9 (PauseRaises 1 77%Z)) (Yield (YLeaf (LOld [0%Z])) (fun _ => Ret VNone)).
Definition cxr_obs : prog :=
  Let (FTask cxr_wait0_ctx) (fun h5 =>
    if fid_eqb h5 [5%Z]
    then Sync h5 (fun o => match o with Ok _ => Ret (VInt 9) | Err _ => Ret (VInt 100) end)
    else Ret (VInt 8)).
Definition cxr_body : prog :=
  Let (FTask cxr_wait0) (fun h =>
    if fid_eqb h [2%Z]
    then Sync h (fun _ => Yield YNone (fun _ => cxr_obs))
    else Yield (YLeaf (LNew (FItem 0 1 (ASet (VInt 5))))) (fun _ => Ret VNone)).
Definition cxr_root : prog := Yield (YLeaf (LNew (FConst (VInt 1)))) (fun _ => cxr_body).
Definition cxr_P (keep : bool) : params := mkP [] 3 keep [].

Lemma cxr_same : same_but_keep (cxr_P true) (cxr_P false).
Proof. repeat split. Qed.

Lemma cxr_trace_off :
  run_case (cxr_P false) 400 [cxr_root] =
  ([Some (Err E_ALREADY)],
   [EvStep [0%Z] 0 (Ok VNone); EvStep [0%Z] 1 (Ok (VInt 1)); EvStep [2%Z] 0 (Ok VNone); EvStep [0%Z] 2 (Ok VNone);
    EvGot [0%Z] (Err E_RUNTIME); EvStep [0%Z] 3 (Ok VNone); EvStep [5%Z] 0 (Ok VNone); EvResume [5%Z] 9;
    EvStep [0%Z] 4 (Ok VNone); EvDone [0%Z] (Ok (VInt 8)); EvStep [5%Z] 1 (Ok (VInt 8)); EvDone [5%Z] (Ok VNone);
    EvGot [0%Z] (Ok VNone); EvSched 0 0 (Some [0%Z])]).
Proof. vm_compute. reflexivity. Qed.

Lemma cxr_trace_on :
  run_case (cxr_P true) 400 [cxr_root] =
  ([Some (Ok (VInt 100))],
   [EvStep [0%Z] 0 (Ok VNone); EvStep [0%Z] 1 (Ok (VInt 1)); EvStep [2%Z] 0 (Ok VNone); EvStep [0%Z] 2 (Ok VNone);
    EvGot [0%Z] (Err E_RUNTIME); EvStep [0%Z] 3 (Ok VNone); EvStep [5%Z] 0 (Ok VNone); EvResume [5%Z] 9;
    EvPause [5%Z] 9; EvDone [5%Z] (Err 77%Z); EvGot [0%Z] (Err 77%Z); EvDone [0%Z] (Ok (VInt 100));
    EvSched 0 0 None]).
Proof. vm_compute. reflexivity. Qed.

Theorem keep_inert_statement_is_false : ~ keep_inert_statement.
Proof.
  intros H. specialize (H _ _ 400%nat [cxr_root] cxr_same). rewrite cxr_trace_off, cxr_trace_on in H. discriminate.
Qed.

Theorem keep_preserves_success_statement_is_false : ~ keep_preserves_success_statement.
Proof.
  intros H. apply (H (cxr_P true) (cxr_P false) 400%nat 400%nat [cxr_root] (VInt 100) E_ALREADY cxr_same).
  - rewrite cxr_trace_on. reflexivity.
  - rewrite cxr_trace_off. reflexivity.
Qed.

(* the witness violates the hypothesis of keep_inert_guarded in both runs (the resume of the outer
   activation of [0] finds [4] stored and uncomputed), and the step sequence up to there contains the
   re-entry: a resume of [0] while a frame "body of [0] inside value()" is on the stack *)
Lemma cxr_not_guarded :
  hist_guarded resume_ok (cxr_P true) 400 [cxr_root] (st0 (cxr_P true)) = false /\
  hist_guarded resume_ok (cxr_P false) 400 [cxr_root] (st0 (cxr_P false)) = false /\
  hist_guarded no_reentry (cxr_P true) 400 [cxr_root] (st0 (cxr_P true)) = false /\
  hist_guarded no_reentry (cxr_P false) 400 [cxr_root] (st0 (cxr_P false)) = false.
Proof. vm_compute. repeat split. Qed.

(* ------------------------------------------------------------------ non-vacuity *)
(* two batches, a context, a nested task, an item error, a synchronous call, Yields with and
   without futures (the latter after dependencies have been stored), twice in one history *)
Definition keep_demo_child : prog :=
  Yield (YTuple [YLeaf (LNew (FItem 1 1 (ASet (VInt 10)))); YLeaf (LNew (FItem 0 3 (ASet (VInt 7))))])
        (fun o => Yield YNone (fun _ => match o with Ok v => Ret v | Err e => Raise e end)).
Definition keep_demo : prog :=
  Enter (CAsync 7 NoFault)
    (Yield (YLeaf (LNew (FItem 0 1 (ASet (VInt 5)))))
       (fun _ => Yield YNone (fun _ => Let (FTask keep_demo_child) (fun h =>
          Yield (YList [YLeaf (LOld h); YLeaf (LNew (FItem 0 2 (AErr 33%Z)))])
            (fun _ => Sync h (fun o => Exit (CAsync 7 NoFault)
               (Yield (YLeaf (LNew (FConst (VInt 1)))) (fun _ => match o with Ok v => Ret v | Err e => Raise e end)))))))).

Example keep_demo_guarded :
  let P := mkP [] 1000 true [] in
  hist_guarded resume_ok P 300 [keep_demo; keep_demo] (st0 P) = true /\
  hist_guarded no_reentry P 300 [keep_demo; keep_demo] (st0 P) = true /\
  fst (run_case P 300 [keep_demo; keep_demo]) = [Some (Ok (VTuple [VInt 10; VInt 7])); Some (Ok (VTuple [VInt 10; VInt 7]))].
Proof. vm_compute. repeat split. Qed.
