(* C05 on the scheduler machine: batch selection picks a maximal-priority eligible batch; a batch
   is flushed at most once; before/after events bracket each scheduler flush; every item of a
   flushed batch is completed by that flush. *)
From Asynq Require Import Machine proofs.ProgProofs proofs.MachineFrame.

(* ---------------------------------------------------------------- association lists *)
Lemma fid_eqb_refl a : fid_eqb a a = true.
Proof. induction a as [|x a IH]; cbn; [reflexivity|]. rewrite Z.eqb_refl, IH. reflexivity. Qed.

Lemma fid_eqb_eq a : forall b, fid_eqb a b = true <-> a = b.
Proof.
  induction a as [|x a IH]; intros [|y b]; cbn; split; intros H; try reflexivity; try discriminate.
  - apply andb_true_iff in H as [H1 H2]. apply Z.eqb_eq in H1. apply IH in H2. congruence.
  - inversion H; subst. rewrite Z.eqb_refl. apply fid_eqb_refl.
Qed.

Lemma key_eqb_eq a b : key_eqb a b = true <-> a = b.
Proof.
  destruct a as [a1 a2], b as [b1 b2]. unfold key_eqb. cbn. rewrite andb_true_iff, !Z.eqb_eq.
  split; [intros [-> ->]; reflexivity | intros H; inversion H; auto].
Qed.

Lemma key_eqb_refl a : key_eqb a a = true. Proof. apply key_eqb_eq. reflexivity. Qed.

Section Upd.
  Context {K V : Type} (eqb : K -> K -> bool).
  Hypothesis eqb_eq : forall a b, eqb a b = true <-> a = b.

  Lemma find_upd_same (k : K) (v : V) (l : list (K * V)) :
    find (fun kv : K * V => eqb (fst kv) k) (upd eqb k v l) = Some (k, v).
  Proof.
    induction l as [|[k' v'] l IH]; cbn.
    - assert (eqb k k = true) as -> by (apply eqb_eq; reflexivity). reflexivity.
    - destruct (eqb k' k) eqn:E; cbn.
      + assert (eqb k k = true) as -> by (apply eqb_eq; reflexivity). reflexivity.
      + rewrite E. exact IH.
  Qed.

  Lemma find_upd_other (k k2 : K) (v : V) (l : list (K * V)) : k2 <> k ->
    find (fun kv : K * V => eqb (fst kv) k2) (upd eqb k v l) = find (fun kv : K * V => eqb (fst kv) k2) l.
  Proof.
    intros N. induction l as [|[k' v'] l IH]; cbn.
    - destruct (eqb k k2) eqn:E; [apply eqb_eq in E; congruence|reflexivity].
    - destruct (eqb k' k) eqn:E; cbn.
      + apply eqb_eq in E. subst k'. destruct (eqb k k2) eqn:E2; [apply eqb_eq in E2; congruence|reflexivity].
      + destruct (eqb k' k2); [reflexivity|exact IH].
  Qed.
End Upd.

Lemma get_batch_put_same k b s : get_batch k (put_batch k b s) = b.
Proof. unfold get_batch, put_batch. cbn. rewrite (find_upd_same key_eqb key_eqb_eq). reflexivity. Qed.

Lemma get_batch_put_other k k2 b s : k2 <> k -> get_batch k2 (put_batch k b s) = get_batch k2 s.
Proof. intros N. unfold get_batch, put_batch. cbn. rewrite (find_upd_other key_eqb key_eqb_eq) by exact N. reflexivity. Qed.

Lemma get_put_same h f s : get h (put h f s) = Some f.
Proof. unfold get, put. cbn. rewrite (find_upd_same fid_eqb fid_eqb_eq). reflexivity. Qed.

Lemma get_put_other h h2 f s : h2 <> h -> get h2 (put h f s) = get h2 s.
Proof. intros N. unfold get, put. cbn. rewrite (find_upd_other fid_eqb fid_eqb_eq) by exact N. reflexivity. Qed.

(* ---------------------------------------------------------------- T1: selection *)
Lemma prio_lt_trans a b c : prio_lt a b = true -> prio_lt b c = true -> prio_lt a c = true.
Proof.
  unfold prio_lt. destruct a as [a1 a2], b as [b1 b2], c as [c1 c2]. cbn.
  rewrite !orb_true_iff, !andb_true_iff, !Z.ltb_lt, !Z.eqb_eq. lia.
Qed.

Lemma prio_lt_irrefl a : prio_lt a a = false.
Proof.
  unfold prio_lt. destruct a as [a1 a2]. cbn. rewrite !Z.ltb_irrefl, Z.eqb_refl. reflexivity.
Qed.

(* "not below": b <= a in the lexicographic order *)
Lemma not_lt_trans a b c : prio_lt a b = false -> prio_lt b c = false -> prio_lt a c = false.
Proof.
  unfold prio_lt. destruct a as [a1 a2], b as [b1 b2], c as [c1 c2]. cbn.
  rewrite !orb_false_iff, !andb_false_iff, !Z.ltb_ge, !Z.eqb_neq. lia.
Qed.

Lemma lt_not_lt a b c : prio_lt a b = true -> prio_lt a c = false -> prio_lt b c = false.
Proof.
  unfold prio_lt. destruct a as [a1 a2], b as [b1 b2], c as [c1 c2]. cbn.
  rewrite !orb_true_iff, !orb_false_iff, !andb_true_iff, !andb_false_iff, !Z.ltb_lt, !Z.ltb_ge, !Z.eqb_eq, !Z.eqb_neq. lia.
Qed.

Lemma first_max_spec P s l : forall best k,
  first_max P l best s = Some k ->
  (In k l \/ best = Some k) /\
  (forall k', In k' l -> prio_lt (prio_of P k s) (prio_of P k' s) = false) /\
  (forall b, best = Some b -> prio_lt (prio_of P k s) (prio_of P b s) = false).
Proof.
  induction l as [|x l IH]; intros best k H; cbn in H.
  - subst best. repeat split; auto; [intros k' []|].
    intros b E. inversion E; subst. apply prio_lt_irrefl.
  - destruct best as [b|].
    + destruct (prio_lt (prio_of P b s) (prio_of P x s)) eqn:E.
      * destruct (IH _ _ H) as (Hin & Hmax & Hb). specialize (Hb x eq_refl).
        repeat split.
        -- destruct Hin as [Hin|Hin]; [left; right; exact Hin|inversion Hin; subst; left; left; reflexivity].
        -- intros k' [<-|Hk']; [exact Hb|apply Hmax; exact Hk'].
        -- intros b' Eb. inversion Eb; subst b'.
           destruct (prio_lt (prio_of P k s) (prio_of P b s)) eqn:E3; [|reflexivity].
           rewrite (prio_lt_trans _ _ _ E3 E) in Hb. discriminate.
      * destruct (IH _ _ H) as (Hin & Hmax & Hb). specialize (Hb b eq_refl).
        repeat split.
        -- destruct Hin as [Hin|Hin]; [left; right; exact Hin|right; exact Hin].
        -- intros k' [<-|Hk']; [|apply Hmax; exact Hk']. apply (not_lt_trans _ _ _ Hb E).
        -- intros b' Eb. inversion Eb; subst b'. exact Hb.
    + destruct (IH _ _ H) as (Hin & Hmax & Hb). specialize (Hb x eq_refl).
      repeat split.
      * destruct Hin as [Hin|Hin]; [left; right; exact Hin|inversion Hin; subst; left; left; reflexivity].
      * intros k' [<-|Hk']; [exact Hb|apply Hmax; exact Hk'].
      * intros b' Eb. discriminate.
Qed.

Lemma first_max_none P s l best : first_max P l best s = None -> l = [] /\ best = None.
Proof.
  revert best. induction l as [|x l IH]; intros best H; cbn in H; [auto|].
  destruct best as [b|].
  - destruct (prio_lt _ _); apply IH in H; destruct H; discriminate.
  - apply IH in H. destruct H. discriminate.
Qed.

Lemma prio_of_with_sb P k s l : prio_of P k (with_sb s l) = prio_of P k s. Proof. reflexivity. Qed.
Lemma prio_of_with_oracle P k s l : prio_of P k (with_oracle s l) = prio_of P k s. Proof. reflexivity. Qed.
Lemma prio_of_emit P k s e : prio_of P k (emit e s) = prio_of P k s. Proof. reflexivity. Qed.

(* the batch chosen by _select_batch_to_flush is scheduled, pending and non-empty, and no scheduled
   eligible batch has a strictly greater priority - whatever the oracle (set iteration order) says *)
Theorem select_spec P s k s' :
  select P s = (Some k, s') ->
  In k (sb s) /\ eligible k s = true /\
  (forall k', In k' (sb s) -> eligible k' s = true -> prio_lt (prio_of P k s) (prio_of P k' s) = false) /\
  sb s' = filter (fun k => eligible k s) (sb s).
Proof.
  unfold select. set (el := filter (fun k0 => eligible k0 s) (sb s)).
  assert (Hel : forall x, In x el <-> In x (sb s) /\ eligible x s = true) by (intros x; apply filter_In).
  assert (Hfm : forall s2, first_max P el None (with_sb s el) = Some k -> sb s2 = el ->
            In k (sb s) /\ eligible k s = true /\
            (forall k', In k' (sb s) -> eligible k' s = true -> prio_lt (prio_of P k s) (prio_of P k' s) = false) /\
            sb s2 = el).
  { intros s2 Hf Hsb. destruct (first_max_spec _ _ _ _ _ Hf) as (Hin & Hmax & _).
    destruct Hin as [Hin|Hin]; [|discriminate]. apply Hel in Hin as [Hi1 Hi2].
    repeat split; auto. intros k' Hk' He. apply Hmax. apply Hel. auto. }
  destruct el as [|e0 el'] eqn:Eel; [discriminate|]. rewrite <- Eel in *.
  cbn [oracle with_sb]. destruct (oracle s) as [|c rest].
  - intros H. injection H as Hf Hs2. subst s'. apply Hfm; [exact Hf|reflexivity].
  - destruct (existsb (key_eqb c) el && is_max P c el (with_sb s el)) eqn:E.
    + intros H. injection H as Hc Hs2. subst s' c. apply andb_true_iff in E as [E1 E2].
      apply existsb_exists in E1 as (x & Hx & Ex). apply key_eqb_eq in Ex. subst x.
      apply Hel in Hx as [Hx1 Hx2]. repeat split; auto.
      intros k' Hk' He. unfold is_max in E2. rewrite forallb_forall in E2.
      specialize (E2 k' (proj2 (Hel k') (conj Hk' He))). apply negb_true_iff in E2. exact E2.
    + intros H. injection H as Hf Hs2. subst s'. apply Hfm; [exact Hf|reflexivity].
Qed.

Theorem select_none P s s' :
  select P s = (None, s') -> forall k, In k (sb s) -> eligible k s = false.
Proof.
  unfold select. set (el := filter (fun k0 => eligible k0 s) (sb s)).
  assert (Hel : forall x, In x el <-> In x (sb s) /\ eligible x s = true) by (intros x; apply filter_In).
  destruct el as [|e0 el'] eqn:Eel.
  - intros _ k Hk. destruct (eligible k s) eqn:E; [|reflexivity].
    destruct (proj2 (Hel k) (conj Hk E)).
  - rewrite <- Eel. cbn [oracle with_sb]. destruct (oracle s) as [|c rest].
    + intros H. injection H as Hf _. apply first_max_none in Hf as [Hf _].
      rewrite Eel in Hf. discriminate.
    + destruct (existsb _ _ && _); intros H; [discriminate|]. injection H as Hf _.
      apply first_max_none in Hf as [Hf _]. rewrite Eel in Hf. discriminate.
Qed.

(* ---------------------------------------------------------------- flushing one batch *)
Definition flush_event (e : event) : Prop :=
  match e with EvItemDone _ _ => True | _ => False end.

Lemma computed_put_same h o k s : computed h (put h (mkFut (Some o) k) s) = true.
Proof. unfold computed. rewrite get_put_same. reflexivity. Qed.

Lemma get_emit h e s : get h (emit e s) = get h s. Proof. reflexivity. Qed.
Lemma computed_emit h e s : computed h (emit e s) = computed h s. Proof. reflexivity. Qed.

Lemma complete_item_spec h o s :
  (exists evs, trace (complete_item h o s) = evs ++ trace s /\ Forall flush_event evs) /\
  (get h s <> None -> computed h (complete_item h o s) = true) /\
  (forall h', computed h' s = true -> computed h' (complete_item h o s) = true) /\
  (forall h', get h' s <> None -> get h' (complete_item h o s) <> None) /\
  batches (complete_item h o s) = batches s /\ cur (complete_item h o s) = cur s.
Proof.
  unfold complete_item. destruct (get h s) as [f|] eqn:G.
  - destruct (f_out f) as [o'|] eqn:O.
    + repeat split; auto.
      * exists []. split; [reflexivity|constructor].
      * intros _. unfold computed. rewrite G, O. reflexivity.
    + repeat split; auto.
      * exists [EvItemDone h o]. split; [reflexivity|]. repeat constructor.
      * intros _. rewrite computed_emit. apply computed_put_same.
      * intros h' Hc. rewrite computed_emit. destruct (fid_eqb h' h) eqn:E.
        -- apply fid_eqb_eq in E. subst h'. apply computed_put_same.
        -- assert (h' <> h) by (intros ->; rewrite fid_eqb_refl in E; discriminate).
           unfold computed in *. rewrite get_put_other by assumption. exact Hc.
      * intros h' Hg. rewrite get_emit. destruct (fid_eqb h' h) eqn:E.
        -- apply fid_eqb_eq in E. subst h'. rewrite get_put_same. discriminate.
        -- assert (h' <> h) by (intros ->; rewrite fid_eqb_refl in E; discriminate).
           rewrite get_put_other by assumption. exact Hg.
  - repeat split; auto; try (intros N; congruence). exists []. split; [reflexivity|constructor].
Qed.

Lemma flush_body_spec items : forall i ra s,
  let s' := fst (flush_body items i ra s) in
  (exists evs, trace s' = evs ++ trace s /\ Forall flush_event evs) /\
  (forall h', computed h' s = true -> computed h' s' = true) /\
  (forall h', get h' s <> None -> get h' s' <> None) /\
  batches s' = batches s /\ cur s' = cur s.
Proof.
  induction items as [|h rest IH]; intros i ra s; cbn zeta.
  - cbn. repeat split; auto. exists []. split; [reflexivity|constructor].
  - cbn [flush_body].
    assert (Hstep : forall s1,
              ((exists evs, trace s1 = evs ++ trace s /\ Forall flush_event evs) /\
               (forall h', computed h' s = true -> computed h' s1 = true) /\
               (forall h', get h' s <> None -> get h' s1 <> None) /\
               batches s1 = batches s /\ cur s1 = cur s) ->
              let s' := fst (flush_body rest (i + 1) ra s1) in
              (exists evs, trace s' = evs ++ trace s /\ Forall flush_event evs) /\
              (forall h', computed h' s = true -> computed h' s' = true) /\
              (forall h', get h' s <> None -> get h' s' <> None) /\
              batches s' = batches s /\ cur s' = cur s).
    { intros s1 ((ev1 & T1 & F1) & C1 & G1 & B1 & U1). cbn zeta.
      destruct (IH (i + 1) ra s1) as ((ev2 & T2 & F2) & C2 & G2 & B2 & U2).
      repeat split; try congruence; auto.
      exists (ev2 ++ ev1). split; [rewrite T2, T1, app_assoc; reflexivity|]. apply Forall_app. auto. }
    assert (Hci : forall o, (exists evs, trace (complete_item h o s) = evs ++ trace s /\ Forall flush_event evs) /\
               (forall h', computed h' s = true -> computed h' (complete_item h o s) = true) /\
               (forall h', get h' s <> None -> get h' (complete_item h o s) <> None) /\
               batches (complete_item h o s) = batches s /\ cur (complete_item h o s) = cur s).
    { intros o. destruct (complete_item_spec h o s) as (A & _ & C & D & E & F). auto. }
    assert (Hid : (exists evs, trace s = evs ++ trace s /\ Forall flush_event evs) /\
               (forall h', computed h' s = true -> computed h' s = true) /\
               (forall h', get h' s <> None -> get h' s <> None) /\
               batches s = batches s /\ cur s = cur s).
    { repeat split; auto. exists []. split; [reflexivity|constructor]. }
    destruct ra as [[k e]|].
    + destruct (Z.eqb i k); [exact Hid|].
      destruct (get h s) as [[o [ | kind idx key [v|e'|] | | ]]|]; apply Hstep; auto.
    + destruct (get h s) as [[o [ | kind idx key [v|e'|] | | ]]|]; apply Hstep; auto.
Qed.

Lemma fold_complete_spec o items : forall s,
  let s' := fold_left (fun s h => complete_item h o s) items s in
  (exists evs, trace s' = evs ++ trace s /\ Forall flush_event evs) /\
  (forall h', computed h' s = true -> computed h' s' = true) /\
  (forall h', get h' s <> None -> get h' s' <> None) /\
  (forall h, In h items -> get h s <> None -> computed h s' = true) /\
  batches s' = batches s /\ cur s' = cur s.
Proof.
  induction items as [|h rest IH]; intros s; cbn zeta; cbn [fold_left].
  - repeat split; auto; try (intros ? []); try (exists []; split; [reflexivity|constructor]).
  - destruct (complete_item_spec h o s) as ((ev1 & T1 & F1) & K1 & C1 & G1 & B1 & U1).
    destruct (IH (complete_item h o s)) as ((ev2 & T2 & F2) & C2 & G2 & I2 & B2 & U2). cbn zeta in *.
    repeat split; try congruence; auto.
    + exists (ev2 ++ ev1). split; [rewrite T2, T1, app_assoc; reflexivity|]. apply Forall_app. auto.
    + intros h0 [<-|Hin] Hg; [apply C2, K1; exact Hg|apply I2; auto].
Qed.

(* a batch that is already flushed or cancelled is never flushed again: no event, no change *)
Theorem flush_done_is_noop P k s : b_done (get_batch k s) = true -> flush_batch P k s = s.
Proof. intros H. unfold flush_batch. rewrite H. reflexivity. Qed.

(* flushing a pending batch: the body runs once (one EvFlush with the batch's items in order), only
   item completions follow, the batch is done afterwards and every one of its items is computed *)
Theorem flush_pending P k s :
  b_done (get_batch k s) = false ->
  let s' := flush_batch P k s in
  (exists evs, trace s' = evs ++ EvFlush (fst k) (snd k) (b_items (get_batch k s)) :: trace s /\
               Forall flush_event evs) /\
  b_done (get_batch k s') = true /\
  (forall h, In h (b_items (get_batch k s)) -> get h s <> None -> computed h s' = true) /\
  (forall h, computed h s = true -> computed h s' = true).
Proof.
  intros Hd. cbn zeta. unfold flush_batch. rewrite Hd.
  set (s0 := if Z.eqb (cur_idx (fst k) s) (snd k) then with_cur s (upd Z.eqb (fst k) (snd k + 1) (cur s)) else s).
  assert (H0 : heap s0 = heap s /\ trace s0 = trace s /\ batches s0 = batches s).
  { unfold s0. destruct (Z.eqb _ _); auto. }
  destruct H0 as (Hh0 & Ht0 & Hb0).
  set (s1 := emit (EvFlush (fst k) (snd k) (b_items (get_batch k s))) s0).
  pose proof (flush_body_spec (b_items (get_batch k s)) 0 (ks_raise (kspec_of P (fst k))) s1) as HB.
  destruct (flush_body (b_items (get_batch k s)) 0 (ks_raise (kspec_of P (fst k))) s1) as [s2 err].
  cbn zeta in HB. cbn [fst] in HB. destruct HB as ((ev2 & T2 & F2) & C2 & G2 & B2 & U2).
  set (fill := match err with Some e => Err e | None => Err E_NOTSET end).
  pose proof (fold_complete_spec fill (b_items (get_batch k s)) s2) as HF. cbn zeta in HF.
  destruct HF as ((ev3 & T3 & F3) & C3 & G3 & I3 & B3 & U3).
  set (s3 := fold_left (fun s h => complete_item h fill s) (b_items (get_batch k s)) s2) in *.
  assert (Hget : forall h, get h s1 = get h s) by (intros h; unfold get, s1; cbn; rewrite Hh0; reflexivity).
  assert (Hcomp : forall h, computed h s1 = computed h s) by (intros h; unfold computed; rewrite Hget; reflexivity).
  repeat split.
  - exists (ev3 ++ ev2). split.
    + cbn. change (trace (put_batch k _ s3)) with (trace s3). rewrite T3, T2. unfold s1. cbn. rewrite Ht0, app_assoc. reflexivity.
    + apply Forall_app. split; assumption.
  - rewrite get_batch_put_same. reflexivity.
  - intros h Hin Hg. unfold computed. cbn. change (get h (put_batch k _ s3)) with (get h s3).
    apply I3; [exact Hin|]. apply G2. rewrite Hget. exact Hg.
  - intros h Hc. unfold computed. change (get h (put_batch k _ s3)) with (get h s3).
    apply C3, C2. rewrite Hcomp. exact Hc.
Qed.

(* ---------------------------------------------------------------- one scheduler flush *)
Lemma sb_complete_item h o s : sb (complete_item h o s) = sb s.
Proof. unfold complete_item. destruct (get h s) as [f|]; [destruct (f_out f)|]; reflexivity. Qed.

Lemma sb_flush_body items : forall i ra s, sb (fst (flush_body items i ra s)) = sb s.
Proof.
  induction items as [|h rest IH]; intros i ra s; simpl.
  - destruct ra as [[k e]|]; reflexivity.
  - destruct ra as [[k e]|].
    + destruct (Z.eqb i k); [reflexivity|]. rewrite IH.
      destruct (get h s) as [[o [ | kind idx key [v|e'|] | | ]]|]; rewrite ?sb_complete_item; reflexivity.
    + rewrite IH.
      destruct (get h s) as [[o [ | kind idx key [v|e'|] | | ]]|]; rewrite ?sb_complete_item; reflexivity.
Qed.

Lemma regs_flush_batch_sb P k s : sb (flush_batch P k s) = sb s.
Proof.
  unfold flush_batch. destruct (b_done (get_batch k s)); [reflexivity|].
  match goal with |- context [flush_body ?a ?b ?c ?d] =>
    pose proof (sb_flush_body a b c d) as H; destruct (flush_body a b c d) as [s2 err] end.
  cbn [fst] in H. change (sb (put_batch k ?b ?s)) with (sb s).
  rewrite (fold_left_pres (fun s h => complete_item h _ s) sb); [|intros; apply sb_complete_item].
  rewrite H. destruct (Z.eqb _ _); reflexivity.
Qed.

Lemma select_batches P s : batches (snd (select P s)) = batches s /\ heap (snd (select P s)) = heap s.
Proof.
  unfold select. destruct (filter _ (sb s)); [split; reflexivity|].
  cbn [oracle with_sb]. destruct (oracle s); [split; reflexivity|].
  destruct (existsb _ _ && _); split; reflexivity.
Qed.

(* _continue_with_batch: nothing happens without an eligible batch; otherwise exactly
   before, flush body with the items in order, item completions, after - and the flushed batch is
   removed from the scheduler's set, done, with every item computed *)
Theorem continue_with_batch_spec P s :
  match select P s with
  | (None, s1) => continue_with_batch P s = s1
  | (Some k, s1) =>
    let s' := continue_with_batch P s in
    (exists evs, trace s' = EvAfter (fst k) (snd k) :: evs ++
                            EvFlush (fst k) (snd k) (b_items (get_batch k s)) :: EvBefore (fst k) (snd k) :: trace s1 /\
                 Forall flush_event evs) /\
    b_done (get_batch k s') = true /\
    ~ In k (sb s') /\
    (forall h, In h (b_items (get_batch k s)) -> get h s <> None -> computed h s' = true)
  end.
Proof.
  unfold continue_with_batch. destruct (select P s) as [[k|] s1] eqn:Sel; [|reflexivity].
  destruct (select_spec _ _ _ _ Sel) as (Hin & Hel & _ & _).
  pose proof (select_batches P s) as [Hb Hh]. rewrite Sel in Hb, Hh. cbn [snd] in Hb, Hh.
  set (s2 := with_sb s1 (filter (fun k' => negb (key_eqb k' k)) (sb s1))).
  set (s3 := emit (EvBefore (fst k) (snd k)) s2).
  assert (Hgb : get_batch k s3 = get_batch k s) by (unfold get_batch, s3, s2; cbn; rewrite Hb; reflexivity).
  assert (Hget : forall h, get h s3 = get h s) by (intros h; unfold get, s3, s2; cbn; rewrite Hh; reflexivity).
  assert (Hnd : b_done (get_batch k s3) = false).
  { rewrite Hgb. unfold eligible in Hel. apply andb_true_iff in Hel as [Hd _]. apply negb_true_iff in Hd. exact Hd. }
  destruct (flush_pending P k s3 Hnd) as ((evs & T & F) & D & I & _). cbn zeta in *.
  repeat split.
  - exists evs. split; [|exact F]. cbn. rewrite T, Hgb. reflexivity.
  - exact D.
  - cbn. rewrite regs_flush_batch_sb. unfold s3, s2. cbn. intros Hk. apply filter_In in Hk as [_ Hk].
    rewrite key_eqb_refl in Hk. discriminate.
  - intros h Hi Hg. rewrite computed_emit. apply I; [rewrite Hgb; exact Hi | rewrite Hget; exact Hg].
Qed.
